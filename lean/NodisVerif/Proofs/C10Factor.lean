import NodisVerif.Proofs.C10Cmd
/-
  C10 helper lemmas, part 5: every single-key API command is a `readCmd` or a `writeCmd`
  (definitional unfolding, no reasoning about the store).
-/
namespace NodisVerif.Proofs.C10
open NodisVerif Store

/-! ### typed projections of the hot value -/

def strOf : Option Val → Option DsStr.S
  | some (.str b) => some (some b)
  | some .strNil => some none
  | _ => none
def listOf : Option Val → Option LList
  | some (.list l) => some l
  | _ => none
def hashOf : Option Val → Option (AList Bytes)
  | some (.hash h) => some h
  | _ => none
def setOf : Option Val → Option (AList Unit)
  | some (.set h) => some h
  | _ => none
def zsetOf : Option Val → Option ZSet
  | some (.zset z) => some z
  | _ => none

theorem asStr_eq (s : MState) (k : Bytes) : Api.asStr s k = strOf (valOf s k) := by
  unfold Api.asStr strOf
  cases valOf s k with
  | none => rfl
  | some v => cases v <;> rfl
theorem asList_eq (s : MState) (k : Bytes) : Api.asList s k = listOf (valOf s k) := by
  unfold Api.asList listOf
  cases valOf s k with
  | none => rfl
  | some v => cases v <;> rfl
theorem asHash_eq (s : MState) (k : Bytes) : Api.asHash s k = hashOf (valOf s k) := by
  unfold Api.asHash hashOf
  cases valOf s k with
  | none => rfl
  | some v => cases v <;> rfl
theorem asSet_eq (s : MState) (k : Bytes) : Api.asSet s k = setOf (valOf s k) := by
  unfold Api.asSet setOf
  cases valOf s k with
  | none => rfl
  | some v => cases v <;> rfl
theorem asZSet_eq (s : MState) (k : Bytes) : Api.asZSet s k = zsetOf (valOf s k) := by
  unfold Api.asZSet zsetOf
  cases valOf s k with
  | none => rfl
  | some v => cases v <;> rfl

/-- answer of a read command from the typed value (`bad` when the value has another type) -/
def outOn {α : Type} (proj : Option Val → Option α) (bad : Out) (f : α → Out) (v : Option Val) (_ : Int) : Out :=
  match proj v with
  | some x => f x
  | none => bad

/-- body of a write command on a typed value (panics when the value has another type) -/
def actOn {α : Type} (proj : Option Val → Option α) (f : α → Int → Act) (v : Option Val) (e : Int) : Act :=
  match proj v with
  | some x => f x e
  | none => { out := .panic }

theorem applyAct_out (s : MState) (k : Bytes) (o : Out) : applyAct s k { out := o } = (s, o) := rfl

set_option hygiene false in
macro "fin_eq" proj:ident : tactic => `(tactic| (
  cases ($proj (valOf s1 k)) with
  | none => rfl
  | some x =>
    first
    | rfl
    | ((try simp only []); split <;> (try simp only [*, if_true, if_false, ne_eq, not_true_eq_false, not_false_eq_true,
          Bool.not_true, Bool.not_false, Bool.false_eq_true]) <;>
        first
        | rfl
        | (split <;> (try simp only [*, if_true, if_false, ne_eq, not_true_eq_false, not_false_eq_true,
            Bool.not_true, Bool.not_false, Bool.false_eq_true]) <;> rfl))))

set_option hygiene false in
/-- `Api.f s now k … = readCmd …` (after unfolding `Api.f`, `readCmd`) -/
macro "read_eq" proj:ident "[" ls:Lean.Parser.Tactic.simpLemma,* "]" : tactic => `(tactic| (
  cases readKey s now k with
  | mk s1 ok =>
    cases ok
    · rfl
    · simp only [Bool.not_true, Bool.false_eq_true, if_false, outOn, $ls,*]
      fin_eq $proj))

set_option hygiene false in
/-- `Api.f s now k … = writeCmd none …` -/
macro "write_eq" proj:ident "[" ls:Lean.Parser.Tactic.simpLemma,* "]" : tactic => `(tactic| (
  cases writeKey s now k none with
  | mk s1 ok =>
    cases ok
    · rfl
    · simp only [Bool.not_true, Bool.false_eq_true, if_false, actOn, $ls,*]
      fin_eq $proj))

set_option hygiene false in
/-- `Api.f s now k … = writeCmd (some c) …` -/
macro "create_eq" c:term "," proj:ident "[" ls:Lean.Parser.Tactic.simpLemma,* "]" : tactic => `(tactic| (
  have hok := writeKey_some_ok s now k $c
  cases hw : writeKey s now k (some $c) with
  | mk s1 ok =>
    rw [hw] at hok
    simp only at hok
    subst hok
    simp only [Bool.not_true, Bool.false_eq_true, if_false, actOn, $ls,*]
    fin_eq $proj))

/-! ## str.go -/

theorem get_eq (s : MState) (now : Int) (k : Bytes) :
    Api.get s now k = readCmd (.bytes none) (outOn strOf .panic fun v => .bytes v) s now k := by
  unfold Api.get readCmd
  read_eq strOf [asStr_eq]

theorem getBit_eq (s : MState) (now : Int) (k : Bytes) (off : Int) :
    Api.getBit s now k off = readCmd (.int 0) (outOn strOf .panic fun v => .int (DsStr.getBit v off)) s now k := by
  unfold Api.getBit readCmd
  read_eq strOf [asStr_eq]

theorem bitCount_eq (s : MState) (now : Int) (k : Bytes) (a b : Int) (bit : Bool) :
    Api.bitCount s now k a b bit = readCmd (.int 0) (outOn strOf .panic fun v =>
      .int (if bit then DsStr.bitCountByBit v a b else DsStr.bitCount v a b)) s now k := by
  unfold Api.bitCount readCmd
  read_eq strOf [asStr_eq]

theorem getRange_eq (s : MState) (now : Int) (k : Bytes) (a b : Int) :
    Api.getRange s now k a b =
      readCmd (.bytes none) (outOn strOf .panic fun v => .bytes (DsStr.getRange v a b)) s now k := by
  unfold Api.getRange readCmd
  read_eq strOf [asStr_eq]

theorem strLen_eq (s : MState) (now : Int) (k : Bytes) :
    Api.strLen s now k = readCmd (.int 0) (outOn strOf .panic fun v => .int (DsStr.len v)) s now k := by
  unfold Api.strLen readCmd
  read_eq strOf [asStr_eq]

def setA (key value : Bytes) (keep : Bool) (out : Out) : DsStr.S → Int → Act := fun _ _ =>
  { val := some (.str value), exp := if keep then none else some 0, sig := true,
    ops := [Api.opSet key value keep], out := out }

theorem set_eq (s : MState) (now : Int) (k value : Bytes) (keep : Bool) :
    Api.set s now k value keep = writeCmd (some (.str [])) .unit (actOn strOf (setA k value keep .unit)) s now k := by
  unfold Api.set writeCmd
  cases keep <;> create_eq (Val.str []), strOf [asStr_eq, setA]

def setOptA (key : Bytes) (value : DsStr.S) (keep : Bool) : DsStr.S → Int → Act := fun _ _ =>
  { val := some (Api.strVal value), exp := if keep then none else some 0, sig := true,
    ops := [Api.opSet key (DsStr.bytes value) keep], out := .unit }

theorem setOpt_eq (s : MState) (now : Int) (k : Bytes) (value : DsStr.S) (keep : Bool) :
    Api.setOpt s now k value keep = writeCmd (some (.str [])) .unit (actOn strOf (setOptA k value keep)) s now k := by
  unfold Api.setOpt writeCmd
  cases keep <;> create_eq (Val.str []), strOf [asStr_eq, setOptA]

def getSetA (key value : Bytes) : DsStr.S → Int → Act := fun old _ =>
  { val := some (.str value), exp := some 0, sig := true, ops := [Api.opSet key value false], out := .bytes old }

/-- GETSET on a key with no visible record: a brand-new record (as in SETNX), reply nil -/
def getSetNew (s1 : MState) (key value : Bytes) : Api.R :=
  (emit (signal (Api.setExp (Api.setVal (newKeyWith s1 key none (.str [])) key (.str value)) key 0) key)
    (Api.opSet key value false), .bytes none)

/-- GETSET: two branches — the key is missing (`getSetNew`), or it is present and the command is a
    `writeCmd` with a nil constructor -/
theorem getSet_eq (s : MState) (now : Int) (k value : Bytes) :
    Api.getSet s now k value =
      if !(writeKey s now k none).2 then getSetNew (writeKey s now k none).1 k value
      else writeCmd none .unit (actOn strOf (getSetA k value)) s now k := by
  unfold Api.getSet writeCmd getSetNew
  cases writeKey s now k none with
  | mk s1 ok =>
    cases ok
    · rfl
    · simp only [Bool.not_true, Bool.false_eq_true, if_false, actOn, asStr_eq, getSetA]
      fin_eq strOf

theorem setXX_eq (s : MState) (now : Int) (k value : Bytes) (keep : Bool) :
    Api.setXX s now k value keep =
      writeCmd none (.bool false) (actOn strOf (setA k value keep (.bool true))) s now k := by
  unfold Api.setXX writeCmd
  cases keep <;> write_eq strOf [asStr_eq, setA]

def setExA (key value : Bytes) (e : Int) : DsStr.S → Int → Act := fun _ _ =>
  { val := some (.str value), exp := some e, sig := true, ops := [Api.opSet key value false e], out := .unit }

def addIntA (key : Bytes) (delta : Int) (neg : Bool) : DsStr.S → Int → Act := fun v _ =>
  match (if neg then DsStr.decr v delta else DsStr.incr v delta) with
  | none => { out := .many [.int 0, .err true] }
  | some (v', n) =>
    { val := some (Api.strVal v'), sig := true, ops := [Api.opSet key (formatInt n) false],
      out := .many [.int n, .err false] }

theorem addInt_eq (s : MState) (now : Int) (k : Bytes) (delta : Int) (neg sw : Bool) :
    Api.addInt s now k delta neg sw = writeCmd (some (.str [])) .unit (actOn strOf (addIntA k delta neg)) s now k := by
  unfold Api.addInt writeCmd
  create_eq (Val.str []), strOf [asStr_eq, addIntA]

def setBitA (key : Bytes) (offset : Int) (value : Bool) : DsStr.S → Int → Act := fun v _ =>
  { val := some (Api.strVal (DsStr.setBit v offset value).1), sig := true,
    ops := [Api.opSet key (DsStr.bytes (DsStr.setBit v offset value).1) false],
    out := .int (DsStr.setBit v offset value).2 }

theorem setBit_eq (s : MState) (now : Int) (k : Bytes) (offset : Int) (value : Bool) :
    Api.setBit s now k offset value = writeCmd (some (.str [])) .unit (actOn strOf (setBitA k offset value)) s now k := by
  unfold Api.setBit writeCmd
  create_eq (Val.str []), strOf [asStr_eq, setBitA]

def appendA (key value : Bytes) : DsStr.S → Int → Act := fun v _ =>
  { val := some (Api.strVal (DsStr.append v value).1), sig := true,
    ops := [Api.opSet key (DsStr.bytes (DsStr.append v value).1) false],
    out := .int (DsStr.append v value).2 }

theorem append_eq (s : MState) (now : Int) (k value : Bytes) :
    Api.append s now k value = writeCmd (some (.str [])) .unit (actOn strOf (appendA k value)) s now k := by
  unfold Api.append writeCmd
  create_eq (Val.str []), strOf [asStr_eq, appendA]

def setRangeA (key : Bytes) (offset : Int) (value : Bytes) : DsStr.S → Int → Act := fun v _ =>
  match DsStr.setRange v offset value with
  | none => { out := .panic }
  | some (v', n) =>
    { val := some (Api.strVal v'), sig := true, ops := [Api.opSet key (DsStr.bytes v') false], out := .int n }

theorem setRange_eq (s : MState) (now : Int) (k : Bytes) (offset : Int) (value : Bytes) :
    Api.setRange s now k offset value =
      writeCmd (some (.str [])) .unit (actOn strOf (setRangeA k offset value)) s now k := by
  unfold Api.setRange writeCmd
  create_eq (Val.str []), strOf [asStr_eq, setRangeA]

/-! SETEX / PSETEX: the feed record carries the deadline just written -/

theorem present_of_valOf {s : MState} {k : Bytes} (h : valOf s k ≠ none) : (getMeta s k).isSome = true := by
  unfold valOf at h
  cases hg : getMeta s k with
  | none => rw [hg] at h; exact absurd rfl h
  | some _ => rfl

theorem present_setVal {s : MState} {k : Bytes} (v : Val) (h : (getMeta s k).isSome = true) :
    (getMeta (Api.setVal s k v) k).isSome = true := by
  have := getMeta_setVal_exp s k k v
  cases hg : getMeta (Api.setVal s k v) k with
  | none =>
    rw [hg] at this
    obtain ⟨m, hm⟩ := Option.isSome_iff_exists.mp h
    rw [hm] at this; cases this
  | some _ => rfl

theorem expOf_setExp {s : MState} {k : Bytes} (e : Int) (h : (getMeta s k).isSome = true) :
    Api.expOf (Api.setExp s k e) k = e := by
  obtain ⟨m, hm⟩ := Option.isSome_iff_exists.mp h
  simp [Api.expOf, getMeta_setExp, hm]

theorem setEx_tail (s1 : MState) (k value : Bytes) (e : Int) (h : valOf s1 k ≠ none) :
    (emit (signal (Api.setExp (Api.setVal s1 k (.str value)) k e) k)
        (Api.opSet k value false (Api.expOf (Api.setExp (Api.setVal s1 k (.str value)) k e) k)), Out.unit)
      = applyAct s1 k (setExA k value e none 0) := by
  rw [expOf_setExp e (present_setVal _ (present_of_valOf h))]
  rfl

theorem setEX_eq (s : MState) (now : Int) (k value : Bytes) (sec : Int) :
    Api.setEX s now k value sec =
      writeCmd (some (.str [])) .unit (actOn strOf (setExA k value (Spec.deadlineSec now sec))) s now k := by
  unfold Api.setEX writeCmd Spec.deadlineSec
  have hok := writeKey_some_ok s now k (.str [])
  cases hw : writeKey s now k (some (.str [])) with
  | mk s1 ok =>
    rw [hw] at hok
    simp only at hok
    subst hok
    simp only [Bool.not_true, Bool.false_eq_true, if_false, actOn, asStr_eq]
    cases hv : strOf (valOf s1 k) with
    | none => rfl
    | some x =>
      have hne : valOf s1 k ≠ none := by intro e; rw [e] at hv; cases hv
      exact setEx_tail s1 k value _ hne

theorem setPX_eq (s : MState) (now : Int) (k value : Bytes) (ms : Int) :
    Api.setPX s now k value ms =
      writeCmd (some (.str [])) .unit (actOn strOf (setExA k value (Spec.deadlineMs now ms))) s now k := by
  unfold Api.setPX writeCmd Spec.deadlineMs
  have hok := writeKey_some_ok s now k (.str [])
  cases hw : writeKey s now k (some (.str [])) with
  | mk s1 ok =>
    rw [hw] at hok
    simp only at hok
    subst hok
    simp only [Bool.not_true, Bool.false_eq_true, if_false, actOn, asStr_eq]
    cases hv : strOf (valOf s1 k) with
    | none => rfl
    | some x =>
      have hne : valOf s1 k ≠ none := by intro e; rw [e] at hv; cases hv
      exact setEx_tail s1 k value _ hne

/-! ## key.go: the EXPIRE family, PERSIST, TYPE, TTL, PTTL -/

def expA (key : Bytes) (e : Int) : Act :=
  { exp := some e, sig := true, ops := [Api.opExpire key e], out := .int 1 }

theorem applyAct_expA (s : MState) (k : Bytes) (e : Int) :
    applyAct s k (expA k e) = (Api.applyExp s k e, .int 1) := rfl

set_option hygiene false in
macro "exp_eq" : tactic => `(tactic| (
  cases writeKey s now k none with
  | mk s1 ok =>
    cases ok
    · rfl
    · simp only [Bool.not_true, Bool.false_eq_true, if_false]
      repeat' split
      all_goals (first | rfl | (simp only [*, if_true, if_false, not_true_eq_false, not_false_eq_true, ne_eq] <;> rfl))))

theorem expire_eq (s : MState) (now : Int) (k : Bytes) (sec : Int) :
    Api.expire s now k sec = if sec = 0 then Api.del s now [k] else
      writeCmd none (.int 0) (fun _ _ => expA k (Spec.deadlineSec now sec)) s now k := by
  unfold Api.expire writeCmd Spec.deadlineSec
  split
  · rfl
  · exp_eq

theorem expirePX_eq (s : MState) (now : Int) (k : Bytes) (ms : Int) :
    Api.expirePX s now k ms = if ms = 0 then Api.del s now [k] else
      writeCmd none (.int 0) (fun _ _ => expA k (Spec.deadlineMs now ms)) s now k := by
  unfold Api.expirePX writeCmd Spec.deadlineMs
  split
  · rfl
  · exp_eq

/-- the conditional forms; `cur` is the current deadline (0 = none) -/
def nxA (key : Bytes) (e : Int) : Option Val → Int → Act := fun _ cur =>
  if cur ≠ 0 then { out := .int 0 } else expA key e
def xxA (key : Bytes) (e : Int) : Option Val → Int → Act := fun _ cur =>
  if cur = 0 then { out := .int 0 } else expA key e
def ltA (key : Bytes) (e : Int) : Option Val → Int → Act := fun _ cur =>
  if cur = 0 then { out := .int 0 } else if e < cur then expA key e else { out := .int 0 }
def gtA (key : Bytes) (e : Int) : Option Val → Int → Act := fun _ cur =>
  if cur < e then expA key e else { out := .int 0 }

theorem expireNX_eq (s : MState) (now : Int) (k : Bytes) (sec : Int) :
    Api.expireNX s now k sec = writeCmd none (.int 0) (nxA k (Spec.deadlineSec now sec)) s now k := by
  unfold Api.expireNX writeCmd Spec.deadlineSec nxA
  exp_eq
theorem expireXX_eq (s : MState) (now : Int) (k : Bytes) (sec : Int) :
    Api.expireXX s now k sec = writeCmd none (.int 0) (xxA k (Spec.deadlineSec now sec)) s now k := by
  unfold Api.expireXX writeCmd Spec.deadlineSec xxA
  exp_eq
theorem expireLT_eq (s : MState) (now : Int) (k : Bytes) (sec : Int) :
    Api.expireLT s now k sec = writeCmd none (.int 0) (ltA k (Spec.deadlineSec now sec)) s now k := by
  unfold Api.expireLT writeCmd Spec.deadlineSec ltA
  exp_eq
theorem expireGT_eq (s : MState) (now : Int) (k : Bytes) (sec : Int) :
    Api.expireGT s now k sec = writeCmd none (.int 0) (gtA k (Spec.deadlineSec now sec)) s now k := by
  unfold Api.expireGT writeCmd Spec.deadlineSec gtA
  exp_eq
theorem expireAt_eq (s : MState) (now : Int) (k : Bytes) (ts : Int) :
    Api.expireAt s now k ts = writeCmd none (.int 0) (fun _ _ => expA k ts) s now k := by
  unfold Api.expireAt writeCmd
  exp_eq
theorem expireAtNX_eq (s : MState) (now : Int) (k : Bytes) (ts : Int) :
    Api.expireAtNX s now k ts = writeCmd none (.int 0) (nxA k ts) s now k := by
  unfold Api.expireAtNX writeCmd nxA
  exp_eq
theorem expireAtXX_eq (s : MState) (now : Int) (k : Bytes) (ts : Int) :
    Api.expireAtXX s now k ts = writeCmd none (.int 0) (xxA k ts) s now k := by
  unfold Api.expireAtXX writeCmd xxA
  exp_eq
theorem expireAtLT_eq (s : MState) (now : Int) (k : Bytes) (ts : Int) :
    Api.expireAtLT s now k ts = writeCmd none (.int 0) (ltA k ts) s now k := by
  unfold Api.expireAtLT writeCmd ltA
  exp_eq
theorem expireAtGT_eq (s : MState) (now : Int) (k : Bytes) (ts : Int) :
    Api.expireAtGT s now k ts = writeCmd none (.int 0) (gtA k ts) s now k := by
  unfold Api.expireAtGT writeCmd gtA
  exp_eq

def persistA (key : Bytes) : Option Val → Int → Act := fun _ cur =>
  if cur = 0 then { out := .int 0 }
  else { exp := some 0, sig := true, ops := [{ typ := 33, key := key }], out := .int 1 }

theorem persist_eq (s : MState) (now : Int) (k : Bytes) :
    Api.persist s now k = writeCmd none (.int 0) (persistA k) s now k := by
  unfold Api.persist writeCmd persistA
  exp_eq

def typeF (v : Option Val) (_ : Int) : Out :=
  match v with
  | some v => .str (Bytes.ofString (typeName v.typeCode))
  | none => .panic

theorem type_eq (s : MState) (now : Int) (k : Bytes) :
    Api.type_ s now k = readCmd (.str (Bytes.ofString "none")) typeF s now k := by
  unfold Api.type_ readCmd typeF
  cases readKey s now k with
  | mk s1 ok =>
    cases ok
    · rfl
    · simp only [Bool.not_true, Bool.false_eq_true, if_false]
      cases valOf s1 k <;> rfl

def pttlF (now : Int) (_ : Option Val) (e : Int) : Out :=
  if e = 0 then .int (-1) else .int (e - now)

theorem pttl_eq (s : MState) (now : Int) (k : Bytes) :
    Api.pttl s now k = readCmd (.int (-2)) (pttlF now) s now k := by
  unfold Api.pttl readCmd pttlF
  cases readKey s now k with
  | mk s1 ok =>
    cases ok
    · rfl
    · simp only [Bool.not_true, Bool.false_eq_true, if_false]
      split <;> rfl

def ttlF (now : Int) (_ : Option Val) (e : Int) : Out :=
  if e = 0 then .int (-1) else
  let dns := e * 1000000 - now * 1000000
  let d := if dns > int64Max then int64Max else dns
  let r := d % 1000000000
  if r + r < 1000000000 then .int (d - r)
  else if d + 1000000000 - r > int64Max then .int int64Max
  else .int (d + 1000000000 - r)

theorem ttl_eq (s : MState) (now : Int) (k : Bytes) :
    Api.ttl s now k = readCmd (.int (-2)) (ttlF now) s now k := by
  unfold Api.ttl readCmd ttlF
  cases readKey s now k with
  | mk s1 ok =>
    cases ok
    · rfl
    · simp only [Bool.not_true, Bool.false_eq_true, if_false]
      repeat' split
      all_goals rfl

/-! ## list.go -/

def pushA (left : Bool) (key : Bytes) (values : List Bytes) : LList → Int → Act := fun l _ =>
  { val := some (.list (if left then DsList.lpush l values else DsList.rpush l values)), sig := true,
    ops := [Api.opList (if left then 14 else 21) key (values.map Bytes.toHex)],
    out := .int (DsList.llen (if left then DsList.lpush l values else DsList.rpush l values)) }

theorem push_eq (left : Bool) (s : MState) (now : Int) (k : Bytes) (values : List Bytes) :
    Api.push left s now k values =
      writeCmd (some (.list DsList.empty)) .unit (actOn listOf (pushA left k values)) s now k := by
  unfold Api.push writeCmd
  create_eq (Val.list DsList.empty), listOf [asList_eq, pushA]

def popA (left : Bool) (key : Bytes) (count : Int) : LList → Int → Act := fun l _ =>
  { val := some (.list (if left then DsList.lpop l count else DsList.rpop l count).1),
    del := DsList.llen (if left then DsList.lpop l count else DsList.rpop l count).1 = 0, sig := true,
    ops := [Api.opList (if left then 12 else 19) key [toString count]],
    out := .blist (((if left then DsList.lpop l count else DsList.rpop l count).2.getD []).map some) }

theorem pop_eq (left : Bool) (s : MState) (now : Int) (k : Bytes) (count : Int) :
    Api.pop left s now k count = writeCmd none (.blist []) (actOn listOf (popA left k count)) s now k := by
  unfold Api.pop writeCmd
  write_eq listOf [asList_eq, popA]

theorem llen_eq (s : MState) (now : Int) (k : Bytes) :
    Api.llen s now k = readCmd (.int 0) (outOn listOf (.int (-1)) fun l => .int (DsList.llen l)) s now k := by
  unfold Api.llen readCmd
  read_eq listOf [asList_eq]

theorem lindex_eq (s : MState) (now : Int) (k : Bytes) (i : Int) :
    Api.lindex s now k i = readCmd (.bytes none) (outOn listOf .panic fun l => .bytes (DsList.lindex l i)) s now k := by
  unfold Api.lindex readCmd
  read_eq listOf [asList_eq]

theorem lrange_eq (s : MState) (now : Int) (k : Bytes) (a b : Int) :
    Api.lrange s now k a b =
      readCmd (.blist []) (outOn listOf .panic fun l => .blist ((DsList.lrange l a b).map some)) s now k := by
  unfold Api.lrange readCmd
  read_eq listOf [asList_eq]

def linsertA (key pivot data : Bytes) (before : Bool) : LList → Int → Act := fun l _ =>
  { val := some (.list (DsList.linsert l pivot data before).1), sig := true,
    ops := [Api.opList 11 key [Bytes.toHex pivot, Bytes.toHex data, toString before]],
    out := .int (DsList.linsert l pivot data before).2 }

theorem linsert_eq (s : MState) (now : Int) (k pivot data : Bytes) (before : Bool) :
    Api.linsert s now k pivot data before =
      writeCmd none (.int 0) (actOn listOf (linsertA k pivot data before)) s now k := by
  unfold Api.linsert writeCmd
  write_eq listOf [asList_eq, linsertA]

def pushXA (left : Bool) (key data : Bytes) : LList → Int → Act := fun l _ =>
  { val := some (.list (if left then DsList.lpush l [data] else DsList.rpush l [data])), sig := true,
    ops := [Api.opList (if left then 15 else 22) key [Bytes.toHex data]],
    out := .int (DsList.llen (if left then DsList.lpush l [data] else DsList.rpush l [data])) }

theorem pushX_eq (left : Bool) (s : MState) (now : Int) (k data : Bytes) :
    Api.pushX left s now k data = writeCmd none (.int 0) (actOn listOf (pushXA left k data)) s now k := by
  unfold Api.pushX writeCmd
  write_eq listOf [asList_eq, pushXA]

def lremA (key data : Bytes) (count : Int) : LList → Int → Act := fun l _ =>
  { val := some (.list (DsList.lrem l count data).1), del := DsList.llen (DsList.lrem l count data).1 = 0,
    sig := true, ops := [Api.opList 16 key [Bytes.toHex data, toString count]],
    out := .int (DsList.lrem l count data).2 }

theorem lrem_eq (s : MState) (now : Int) (k data : Bytes) (count : Int) :
    Api.lrem s now k data count = writeCmd none (.int 0) (actOn listOf (lremA k data count)) s now k := by
  unfold Api.lrem writeCmd
  write_eq listOf [asList_eq, lremA]

def lsetA (key : Bytes) (index : Int) (data : Bytes) : LList → Int → Act := fun l _ =>
  if !(DsList.lset l index data).2 then { out := .bool false } else
  { val := some (.list (DsList.lset l index data).1), sig := true,
    ops := [Api.opList 17 key [toString index, Bytes.toHex data]], out := .bool true }

theorem lset_eq (s : MState) (now : Int) (k : Bytes) (index : Int) (data : Bytes) :
    Api.lset s now k index data = writeCmd none (.bool false) (actOn listOf (lsetA k index data)) s now k := by
  unfold Api.lset writeCmd
  write_eq listOf [asList_eq, lsetA]

def ltrimA (key : Bytes) (start stop : Int) : LList → Int → Act := fun l _ =>
  { val := some (.list (DsList.ltrim l start stop)), del := DsList.llen (DsList.ltrim l start stop) = 0,
    sig := true, ops := [Api.opList 18 key [toString start, toString stop]], out := .unit }

theorem ltrim_eq (s : MState) (now : Int) (k : Bytes) (start stop : Int) :
    Api.ltrim s now k start stop = writeCmd none .unit (actOn listOf (ltrimA k start stop)) s now k := by
  unfold Api.ltrim writeCmd
  write_eq listOf [asList_eq, ltrimA]

/-! ## hash.go -/

def hsetA (key field value : Bytes) : AList Bytes → Int → Act := fun h _ =>
  { val := some (.hash (DsHash.hset h field value).1), sig := true,
    ops := [{ typ := 10, key := key, args := [Bytes.toHex field, Bytes.toHex value] }],
    out := .int (DsHash.hset h field value).2 }

theorem hset_eq (s : MState) (now : Int) (k field value : Bytes) :
    Api.hset s now k field value =
      writeCmd (some (.hash [])) .unit (actOn hashOf (hsetA k field value)) s now k := by
  unfold Api.hset writeCmd
  create_eq (Val.hash []), hashOf [asHash_eq, hsetA]

theorem hget_eq (s : MState) (now : Int) (k field : Bytes) :
    Api.hget s now k field =
      readCmd (.bytes none) (outOn hashOf .panic fun h => .bytes (DsHash.hget h field)) s now k := by
  unfold Api.hget readCmd
  read_eq hashOf [asHash_eq]

/-- HLEN, HKEYS, HVALS, HGETALL, HEXISTS, HSTRLEN, HMGET, HSCAN are all `hread f dflt` -/
theorem hread_eq (f : AList Bytes → Out) (dflt : Out) (s : MState) (now : Int) (k : Bytes) :
    Api.hread f dflt s now k = readCmd dflt (outOn hashOf .panic f) s now k := by
  unfold Api.hread readCmd
  read_eq hashOf [asHash_eq]

def hdelA (key : Bytes) (fields : List Bytes) : AList Bytes → Int → Act := fun h _ =>
  { val := some (.hash (DsHash.hdel h fields).1), del := DsHash.hlen (DsHash.hdel h fields).1 = 0, sig := true,
    ops := [{ typ := 6, key := key, args := fields.map Bytes.toHex }], out := .int (DsHash.hdel h fields).2 }

theorem hdel_eq (s : MState) (now : Int) (k : Bytes) (fields : List Bytes) :
    Api.hdel s now k fields = writeCmd none (.int 0) (actOn hashOf (hdelA k fields)) s now k := by
  unfold Api.hdel writeCmd
  write_eq hashOf [asHash_eq, hdelA]

def hincrbyA (key field : Bytes) (delta : Int) : AList Bytes → Int → Act := fun h _ =>
  match DsHash.hincrby h field delta with
  | none => { sig := true, ops := [{ typ := 7, key := key, args := [Bytes.toHex field, toString delta] }],
              out := .many [.int 0, .err true] }
  | some (h', v) =>
    { val := some (.hash h'), sig := true,
      ops := [{ typ := 7, key := key, args := [Bytes.toHex field, toString delta] }],
      out := .many [.int v, .err false] }

theorem hincrby_eq (s : MState) (now : Int) (k field : Bytes) (delta : Int) :
    Api.hincrby s now k field delta =
      writeCmd (some (.hash [])) .unit (actOn hashOf (hincrbyA k field delta)) s now k := by
  unfold Api.hincrby writeCmd
  create_eq (Val.hash []), hashOf [asHash_eq, hincrbyA]

def hsetnxA (key field value : Bytes) : AList Bytes → Int → Act := fun h _ =>
  if DsHash.hexists h field then { out := .int 0 } else
  { val := some (.hash (DsHash.hset h field value).1), sig := true,
    ops := [{ typ := 10, key := key, args := [Bytes.toHex field, Bytes.toHex value] }],
    out := .int (DsHash.hset h field value).2 }

theorem hsetnx_eq (s : MState) (now : Int) (k field value : Bytes) :
    Api.hsetnx s now k field value =
      writeCmd (some (.hash [])) .unit (actOn hashOf (hsetnxA k field value)) s now k := by
  unfold Api.hsetnx writeCmd
  create_eq (Val.hash []), hashOf [asHash_eq, hsetnxA]

/-! ## set.go -/

def saddA (key : Bytes) (members : List Bytes) : AList Unit → Int → Act := fun st _ =>
  { val := some (.set (DsSet.sadd st members).1), sig := true,
    ops := [{ typ := 23, key := key, args := members.map Bytes.toHex }], out := .int (DsSet.sadd st members).2 }

theorem sadd_eq (s : MState) (now : Int) (k : Bytes) (members : List Bytes) :
    Api.sadd s now k members = writeCmd (some (.set [])) .unit (actOn setOf (saddA k members)) s now k := by
  unfold Api.sadd writeCmd
  create_eq (Val.set []), setOf [asSet_eq, saddA]

/-- SCARD, SMEMBERS, SISMEMBER, SSCAN are all `sread f dflt` -/
theorem sread_eq (f : AList Unit → Out) (dflt : Out) (s : MState) (now : Int) (k : Bytes) :
    Api.sread f dflt s now k = readCmd dflt (outOn setOf .panic f) s now k := by
  unfold Api.sread readCmd
  read_eq setOf [asSet_eq]

def sremA (key : Bytes) (members : List Bytes) : AList Unit → Int → Act := fun st _ =>
  { val := some (.set (DsSet.srem st members).1), del := DsSet.scard (DsSet.srem st members).1 = 0, sig := true,
    ops := [{ typ := 24, key := key, args := members.map Bytes.toHex }], out := .int (DsSet.srem st members).2 }

theorem srem_eq (s : MState) (now : Int) (k : Bytes) (members : List Bytes) :
    Api.srem s now k members = writeCmd none (.int 0) (actOn setOf (sremA k members)) s now k := by
  unfold Api.srem writeCmd
  write_eq setOf [asSet_eq, sremA]

/-! ## zset.go -/

def zaddWithA (f : ZSet → Bytes → F64 → ZSet × Int) (key m : Bytes) (sc : F64) : ZSet → Int → Act := fun z _ =>
  { val := some (.zset (f z m sc).1), sig := true, ops := [Api.opZAdd key m sc], out := .int (f z m sc).2 }

theorem zaddWith_eq (f : ZSet → Bytes → F64 → ZSet × Int) (s : MState) (now : Int) (k m : Bytes) (sc : F64) :
    Api.zaddWith f s now k m sc =
      writeCmd (some (.zset DsZSet.empty)) .unit (actOn zsetOf (zaddWithA f k m sc)) s now k := by
  unfold Api.zaddWith writeCmd
  create_eq (Val.zset DsZSet.empty), zsetOf [asZSet_eq, zaddWithA]

def zaddCmpA (f : ZSet → Bytes → F64 → ZSet × Bool) (key m : Bytes) (sc : F64) : ZSet → Int → Act := fun z _ =>
  if (f z m sc).2 then
    { val := some (.zset (f z m sc).1), sig := true, ops := [Api.opZAdd key m sc], out := .int 1 }
  else { out := .int 0 }

theorem zaddCmp_eq (f : ZSet → Bytes → F64 → ZSet × Bool) (s : MState) (now : Int) (k m : Bytes) (sc : F64) :
    Api.zaddCmp f s now k m sc =
      writeCmd none (.int 0) (actOn zsetOf (zaddCmpA f k m sc)) s now k := by
  unfold Api.zaddCmp writeCmd
  write_eq zsetOf [asZSet_eq, zaddCmpA]

def zaddXXA (key m : Bytes) (sc : F64) : ZSet → Int → Act := fun z _ =>
  if !AList.contains z.dict m then { out := .int 0 } else
  { val := some (.zset (DsZSet.zAddXX z m sc).1), sig := true, ops := [Api.opZAdd key m sc],
    out := .int (DsZSet.zAddXX z m sc).2 }

theorem zaddXX_eq (s : MState) (now : Int) (k m : Bytes) (sc : F64) :
    Api.zaddXX s now k m sc = writeCmd none (.int 0) (actOn zsetOf (zaddXXA k m sc)) s now k := by
  unfold Api.zaddXX writeCmd
  write_eq zsetOf [asZSet_eq, zaddXXA]

/-- ZCARD, ZRANK, ZREVRANK, ZSCORE, ZRANGE…, ZCOUNT, ZMIN/ZMAX, ZSCAN, ZEXISTS are all `zread f dflt` -/
theorem zread_eq (f : ZSet → Out) (dflt : Out) (s : MState) (now : Int) (k : Bytes) :
    Api.zread f dflt s now k = readCmd dflt (outOn zsetOf .panic f) s now k := by
  unfold Api.zread readCmd
  read_eq zsetOf [asZSet_eq]

def zincrbyA (key m : Bytes) (delta : F64) : ZSet → Int → Act := fun z _ =>
  match (match AList.get? z.dict m with
      | some old => F64.add? delta old
      | none => some delta) with
  | none => { out := .unsupported }
  | some sum =>
    { val := some (.zset (DsZSet.zIncrByWith z m sum)), sig := true,
      ops := [{ typ := 28, key := key, args := [Bytes.toHex m, toString delta] }], out := .f64 sum }

theorem zincrby_eq (s : MState) (now : Int) (k m : Bytes) (delta : F64) :
    Api.zincrby s now k m delta =
      writeCmd (some (.zset DsZSet.empty)) .unit (actOn zsetOf (zincrbyA k m delta)) s now k := by
  unfold Api.zincrby writeCmd
  have hok := writeKey_some_ok s now k (.zset DsZSet.empty)
  cases hw : writeKey s now k (some (.zset DsZSet.empty)) with
  | mk s1 ok =>
    rw [hw] at hok
    simp only at hok
    subst hok
    simp only [Bool.not_true, Bool.false_eq_true, if_false, actOn, asZSet_eq, zincrbyA]
    cases zsetOf (valOf s1 k) with
    | none => rfl
    | some z =>
      simp only []
      cases hq : AList.get? z.dict m with
      | none => rfl
      | some old =>
        simp only []
        cases hr : F64.add? delta old <;> rfl

/-- shape shared by ZREM, ZREMRANGEBYRANK, ZREMRANGEBYSCORE -/
def zremA (res : ZSet → ZSet × Int) (op : FeedOp) : ZSet → Int → Act := fun z _ =>
  { val := some (.zset (res z).1), del := DsZSet.zCard (res z).1 = 0, sig := (res z).2 > 0,
    ops := if (res z).2 > 0 then [op] else [], out := .int (res z).2 }

theorem zremA_apply (s1 : MState) (k : Bytes) (res : ZSet → ZSet × Int) (op : FeedOp) (z : ZSet) :
    (if (res z).2 > 0 then
      (emit (signal (if DsZSet.zCard (res z).1 = 0 then delKey (Api.setVal s1 k (.zset (res z).1)) k
        else Api.setVal s1 k (.zset (res z).1)) k) op, Out.int (res z).2)
     else ((if DsZSet.zCard (res z).1 = 0 then delKey (Api.setVal s1 k (.zset (res z).1)) k
        else Api.setVal s1 k (.zset (res z).1)), Out.int (res z).2))
    = applyAct s1 k (zremA res op z 0) := by
  unfold applyAct zremA
  by_cases h : (res z).2 > 0 <;> by_cases h2 : DsZSet.zCard (res z).1 = 0 <;> simp [h, h2]

theorem zrem_eq (s : MState) (now : Int) (k : Bytes) (members : List Bytes) :
    Api.zrem s now k members = writeCmd none (.int 0) (actOn zsetOf
      (zremA (fun z => DsZSet.zRem z members) { typ := 29, key := k, args := members.map Bytes.toHex })) s now k := by
  unfold Api.zrem writeCmd
  cases writeKey s now k none with
  | mk s1 ok =>
    cases ok
    · rfl
    · simp only [Bool.not_true, Bool.false_eq_true, if_false, actOn, asZSet_eq]
      cases zsetOf (valOf s1 k) with
      | none => rfl
      | some z => exact zremA_apply s1 k (fun z => DsZSet.zRem z members) _ z

theorem zremRangeByRank_eq (s : MState) (now : Int) (k : Bytes) (start stop : Int) :
    Api.zremRangeByRank s now k start stop = writeCmd none (.int 0) (actOn zsetOf
      (zremA (fun z => DsZSet.zRemRangeByRank z start stop)
        { typ := 30, key := k, args := [toString start, toString stop] })) s now k := by
  unfold Api.zremRangeByRank writeCmd
  cases writeKey s now k none with
  | mk s1 ok =>
    cases ok
    · rfl
    · simp only [Bool.not_true, Bool.false_eq_true, if_false, actOn, asZSet_eq]
      cases zsetOf (valOf s1 k) with
      | none => rfl
      | some z => exact zremA_apply s1 k (fun z => DsZSet.zRemRangeByRank z start stop) _ z

theorem zremRangeByScore_eq (s : MState) (now : Int) (k : Bytes) (min max : F64) (mode : Int) :
    Api.zremRangeByScore s now k min max mode = writeCmd none (.int 0) (actOn zsetOf
      (zremA (fun z => DsZSet.zRemRangeByScore z min max (mode % 4).toNat)
        { typ := 31, key := k, args := [toString min, toString max, toString mode] })) s now k := by
  unfold Api.zremRangeByScore writeCmd
  cases writeKey s now k none with
  | mk s1 ok =>
    cases ok
    · rfl
    · simp only [Bool.not_true, Bool.false_eq_true, if_false, actOn, asZSet_eq]
      cases zsetOf (valOf s1 k) with
      | none => rfl
      | some z => exact zremA_apply s1 k (fun z => DsZSet.zRemRangeByScore z min max (mode % 4).toNat) _ z

end NodisVerif.Proofs.C10
