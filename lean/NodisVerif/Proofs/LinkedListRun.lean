import NodisVerif.Proofs.LinkedListPop
import NodisVerif.Proofs.LinkedListTrim
import NodisVerif.Proofs.LinkedListIns
import NodisVerif.Proofs.LinkedListRem
import NodisVerif.Proofs.LinkedListCodec
/-
  Whole runs: any finite sequence of methods of linked_list.go, on the pointer structure and on the
  sequence model, step by step.
-/
namespace NodisVerif.LinkedList

/-- one call of an exported method of linked_list.go (plus the unexported `size`) -/
inductive Op where
  | lpush (data : List Bytes)
  | rpush (data : List Bytes)
  | lpop (count : Int)
  | rpop (count : Int)
  | lrange (start stop : Int)
  | llen
  | size
  | lindex (index : Int)
  | linsert (pivot data : Bytes) (before : Bool)
  | lrem (count : Int) (value : Bytes)
  | lset (index : Int) (value : Bytes)
  | ltrim (start stop : Int)
  | getValue
  | setValue (b : Bytes)
deriving Repr, DecidableEq

/-- what a call returns -/
inductive Reply where
  | unit
  | popped (xs : Option (List Bytes))     -- LPop / RPop: `none` = Go's nil slice
  | items (xs : List Bytes)               -- LRange
  | int (n : Int)                         -- LLen, size, LInsert, LRem
  | elem (v : Option Bytes)               -- LIndex
  | bool (b : Bool)                       -- LSet
  | raw (b : Bytes)                       -- GetValue
deriving Repr, DecidableEq

/-- the pointer structure -/
def stepP (l : PList) : Op → Res (PList × Reply)
  | .lpush data => (lpush l data).bind fun l' => .ok (l', .unit)
  | .rpush data => (rpush l data).bind fun l' => .ok (l', .unit)
  | .lpop count => (lpop l count).bind fun (l', r) => .ok (l', .popped r)
  | .rpop count => (rpop l count).bind fun (l', r) => .ok (l', .popped r)
  | .lrange a b => (lrange l a b).bind fun xs => .ok (l, .items xs)
  | .llen => .ok (l, .int (llen l))
  | .size => (size l).bind fun n => .ok (l, .int n)
  | .lindex i => (lindex l i).bind fun v => .ok (l, .elem v)
  | .linsert p d b => (linsert l p d b).bind fun (l', n) => .ok (l', .int n)
  | .lrem c v => (lrem l c v).bind fun (l', n) => .ok (l', .int n)
  | .lset i v => (lset l i v).bind fun (l', b) => .ok (l', .bool b)
  | .ltrim a b => (ltrim l a b).bind fun l' => .ok (l', .unit)
  | .getValue => (getValue l).bind fun b => .ok (l, .raw b)
  | .setValue b => (setValue b l (b.length + 1)).bind fun l' => .ok (l', .unit)

/-- the sequence model (Model/DsList.lean); `none`: SetValue on bytes whose decoding panics in Go -/
def stepD (l : LList) : Op → Option (LList × Reply)
  | .lpush data => some (DsList.lpush l data, .unit)
  | .rpush data => some (DsList.rpush l data, .unit)
  | .lpop count => let r := DsList.lpop l count; some (r.1, .popped r.2)
  | .rpop count => let r := DsList.rpop l count; some (r.1, .popped r.2)
  | .lrange a b => some (l, .items (DsList.lrange l a b))
  | .llen => some (l, .int (DsList.llen l))
  | .size => some (l, .int (DsList.size l))
  | .lindex i => some (l, .elem (DsList.lindex l i))
  | .linsert p d b => let r := DsList.linsert l p d b; some (r.1, .int r.2)
  | .lrem c v => let r := DsList.lrem l c v; some (r.1, .int r.2)
  | .lset i v => let r := DsList.lset l i v; some (r.1, .bool r.2)
  | .ltrim a b => some (DsList.ltrim l a b, .unit)
  | .getValue => some (l, .raw (Codec.encodeList l))
  | .setValue b => (Codec.decodeList b l (b.length + 1)).map fun l' => (l', .unit)

def runP (l : PList) : List Op → Res (PList × List Reply)
  | [] => .ok (l, [])
  | op :: rest => (stepP l op).bind fun (l', r) => (runP l' rest).bind fun (l'', rs) => .ok (l'', r :: rs)

def runD (l : LList) : List Op → Option (LList × List Reply)
  | [] => some (l, [])
  | op :: rest => (stepD l op).bind fun (l', r) => (runD l' rest).bind fun (l'', rs) => some (l'', r :: rs)

/-- 2^63: linked_list.go treats `count == math.MinInt64` in LRem as "remove all"; the sequence model
    removes up to 2^63 occurrences from the tail, which is the same on lists of at most 2^63 nodes -/
def maxNodes : Int := 9223372036854775808

/-- the one place where the 64-bit width of `count` shows -/
def OpOk (l : LList) : Op → Prop
  | .lrem count _ => count = minInt64 → (l.items.length : Int) ≤ maxNodes
  | _ => True

/-- every LRem with count = MinInt64 in the run meets a list of at most 2^63 nodes (a statement about
    the run of the sequence model only) -/
def RunOk (l : LList) : List Op → Prop
  | [] => True
  | op :: rest => OpOk l op ∧ ∀ l' r, stepD l op = some (l', r) → RunOk l' rest

theorem absL_items_length {l : PList} {c : List Nat} (hi : InvC l c) : (absL l).items.length = c.length := by
  rw [absL_eq hi]; simp

/-- one method call: the pointer structure does not run out of fuel, does not panic, keeps the invariant,
    and returns what the sequence model returns -/
theorem step_refines (l : PList) (c : List Nat) (hi : InvC l c) (op : Op) (hok : OpOk (absL l) op)
    (L' : LList) (r : Reply) (hd : stepD (absL l) op = some (L', r)) :
    ∃ l' c', stepP l op = .ok (l', r) ∧ InvC l' c' ∧ absL l' = L' := by
  cases op with
  | lpush data =>
    obtain ⟨l', c', e, hi', ha, _⟩ := lpush_refines l c hi data
    simp only [stepD, Option.some.injEq, Prod.mk.injEq] at hd
    exact ⟨l', c', by simp [stepP, e, Res.bind, hd.2], hi', by rw [ha, hd.1]⟩
  | rpush data =>
    obtain ⟨l', c', e, hi', ha, _⟩ := rpush_refines l c hi data
    simp only [stepD, Option.some.injEq, Prod.mk.injEq] at hd
    exact ⟨l', c', by simp [stepP, e, Res.bind, hd.2], hi', by rw [ha, hd.1]⟩
  | lpop count =>
    obtain ⟨l', c', e, hi', ha, _⟩ := lpop_refines l c hi count
    simp only [stepD, Option.some.injEq, Prod.mk.injEq] at hd
    exact ⟨l', c', by simp [stepP, e, Res.bind, hd.2], hi', by rw [ha, hd.1]⟩
  | rpop count =>
    obtain ⟨l', c', e, hi', ha, _⟩ := rpop_refines l c hi count
    simp only [stepD, Option.some.injEq, Prod.mk.injEq] at hd
    exact ⟨l', c', by simp [stepP, e, Res.bind, hd.2], hi', by rw [ha, hd.1]⟩
  | lrange a b =>
    simp only [stepD, Option.some.injEq, Prod.mk.injEq] at hd
    exact ⟨l, c, by simp [stepP, lrange_refines l c hi a b, Res.bind, hd.2], hi, hd.1⟩
  | llen =>
    simp only [stepD, Option.some.injEq, Prod.mk.injEq] at hd
    exact ⟨l, c, by simp [stepP, ← hd.2, DsList.llen, llen, absL], hi, hd.1⟩
  | size =>
    simp only [stepD, Option.some.injEq, Prod.mk.injEq] at hd
    exact ⟨l, c, by simp [stepP, size_refines l c hi, Res.bind, hd.2], hi, hd.1⟩
  | lindex i =>
    simp only [stepD, Option.some.injEq, Prod.mk.injEq] at hd
    exact ⟨l, c, by simp [stepP, lindex_refines l c hi i, Res.bind, hd.2], hi, hd.1⟩
  | linsert p d b =>
    obtain ⟨l', c', e, hi', ha, _⟩ := linsert_refines l c hi p d b
    simp only [stepD, Option.some.injEq, Prod.mk.injEq] at hd
    exact ⟨l', c', by simp [stepP, e, Res.bind, hd.2], hi', by rw [ha, hd.1]⟩
  | lrem cnt v =>
    have hmin : cnt = minInt64 → (c.length : Int) ≤ 9223372036854775808 := by
      intro h; have := hok h; rw [absL_items_length hi] at this; exact this
    obtain ⟨l', c', e, hi', ha, _⟩ := lrem_refines l c hi cnt v hmin
    simp only [stepD, Option.some.injEq, Prod.mk.injEq] at hd
    exact ⟨l', c', by simp [stepP, e, Res.bind, hd.2], hi', by rw [ha, hd.1]⟩
  | lset i v =>
    obtain ⟨l', e, hi', ha, _⟩ := lset_refines l c hi i v
    simp only [stepD, Option.some.injEq, Prod.mk.injEq] at hd
    exact ⟨l', c, by simp [stepP, e, Res.bind, hd.2], hi', by rw [ha, hd.1]⟩
  | ltrim a b =>
    obtain ⟨l', c', e, hi', ha, _⟩ := ltrim_refines l c hi a b
    simp only [stepD, Option.some.injEq, Prod.mk.injEq] at hd
    exact ⟨l', c', by simp [stepP, e, Res.bind, hd.2], hi', by rw [ha, hd.1]⟩
  | getValue =>
    simp only [stepD, Option.some.injEq, Prod.mk.injEq] at hd
    exact ⟨l, c, by simp [stepP, getValue_refines l c hi, Res.bind, hd.2], hi, hd.1⟩
  | setValue b =>
    simp only [stepD, Option.map_eq_some_iff, Prod.mk.injEq] at hd
    obtain ⟨L1, hdec, rfl, rfl⟩ := hd
    obtain ⟨l', c', e, hi', ha⟩ := setValue_refines _ b l c hi L1 hdec
    exact ⟨l', c', by simp [stepP, e, Res.bind], hi', ha⟩

/-- any finite sequence of method calls -/
theorem run_refines_invC (ops : List Op) (l : PList) (c : List Nat) (hi : InvC l c) (hok : RunOk (absL l) ops)
    (L' : LList) (rs : List Reply) (hd : runD (absL l) ops = some (L', rs)) :
    ∃ l' c', runP l ops = .ok (l', rs) ∧ InvC l' c' ∧ absL l' = L' := by
  induction ops generalizing l c L' rs with
  | nil =>
    simp only [runD, Option.some.injEq, Prod.mk.injEq] at hd
    exact ⟨l, c, by simp [runP, hd.2], hi, hd.1⟩
  | cons op rest ih =>
    simp only [runD, Option.bind_eq_some_iff] at hd
    obtain ⟨⟨L1, r1⟩, h1, ⟨L2, rs2⟩, h2, h3⟩ := hd
    simp only [Option.some.injEq, Prod.mk.injEq] at h3
    obtain ⟨l1, c1, e1, hi1, ha1⟩ := step_refines l c hi op hok.1 L1 r1 h1
    have hok1 : RunOk (absL l1) rest := by rw [ha1]; exact hok.2 L1 r1 h1
    rw [← ha1] at h2
    obtain ⟨l2, c2, e2, hi2, ha2⟩ := ih l1 c1 hi1 hok1 L2 rs2 h2
    refine ⟨l2, c2, ?_, hi2, by rw [ha2, h3.1]⟩
    simp only [runP, e1, Res.bind, e2]
    rw [h3.2]

end NodisVerif.LinkedList
