import NodisVerif.Proofs.RespWriterRun
/-
  The writer as the connection loop uses it: the tokens of one reply raise the error flag exactly when one of
  them is an error token (what `conn.HasError()` feeds into MULTI's error bit), and the loop
  `handler; Flush` delivers every reply completely before the next command is read.
-/
namespace NodisVerif.Proofs.RespWriter
open NodisVerif.RespWriter NodisVerif.Spec.RespWriterSpec

theorem isError_callOfTok (t : Resp.Tok) : isError (callOfTok t) = Server.isErr t := by
  cases t <;> rfl

theorem isWrite_callOfTok (t : Resp.Tok) : isWrite (callOfTok t) = true := by
  cases t <;> rfl

theorem AW.step_tok (a : AW) (t : Resp.Tok) :
    a.step (callOfTok t) = some ({ a with pending := a.pending ++ Resp.render t, err := a.err || Server.isErr t }, .unit) := by
  have h := encode_callOfTok t
  have he := isError_callOfTok t
  cases t <;> simp only [callOfTok] at h he ⊢ <;> simp only [AW.step, h, he, Option.map_some]

/-- writing the tokens of a reply: pending grows by their rendering, the flag is raised iff one is an error -/
theorem AW.run_tokens (ts : List Resp.Tok) : ∀ a : AW,
    AW.run a (ts.map callOfTok) =
      some { delivered := a.delivered, pending := a.pending ++ Resp.renderAll ts, err := a.err || ts.any Server.isErr } := by
  induction ts with
  | nil => intro a; simp [AW.run, Resp.renderAll]
  | cons t ts ih =>
    intro a
    simp only [List.map_cons, AW.run, AW.step_tok, ih]
    simp [Resp.renderAll, List.append_assoc, Bool.or_assoc]

/-- one round of the connection loop: reply tokens, then Flush -/
theorem AW.run_reply_flush (r : List Resp.Tok) (a : AW) :
    AW.run a (r.map callOfTok ++ [.flush none]) =
      some { delivered := a.delivered ++ (a.pending ++ Resp.renderAll r), pending := [], err := false } := by
  rw [AW.run_append, AW.run_tokens]
  rfl

/-- the connection loop over k commands: everything delivered, reply after reply; nothing pending; flag down -/
theorem AW.run_serve (rs : List (List Resp.Tok)) : ∀ a : AW,
    AW.run a (serveCalls rs) =
      some (if rs.isEmpty then a else
        { delivered := a.delivered ++ (a.pending ++ rs.flatMap Resp.renderAll), pending := [], err := false }) := by
  induction rs with
  | nil => intro a; simp [serveCalls, AW.run]
  | cons r rs ih =>
    intro a
    have : serveCalls (r :: rs) = (r.map callOfTok ++ [.flush none]) ++ serveCalls rs := by
      simp [serveCalls]
    rw [this, AW.run_append, AW.run_reply_flush]
    simp only [Option.bind_some, ih]
    cases rs <;> simp [List.append_assoc]

theorem serveCalls_noFailure (rs : List (List Resp.Tok)) : NoFailure (serveCalls rs) := by
  intro c hc k
  simp only [serveCalls, List.mem_flatMap, List.mem_append, List.mem_map, List.mem_singleton] at hc
  obtain ⟨r, _, hc⟩ := hc
  rcases hc with ⟨t, _, rfl⟩ | rfl
  · cases t <;> simp [callOfTok]
  · simp

theorem serveCalls_writes (rs : List (List Resp.Tok)) : (serveCalls rs).filter isWrite = rs.flatten.map callOfTok := by
  induction rs with
  | nil => rfl
  | cons r rs ih =>
    have : serveCalls (r :: rs) = (r.map callOfTok ++ [.flush none]) ++ serveCalls rs := by
      simp [serveCalls]
    rw [this, List.filter_append, List.filter_append, ih]
    have h1 : (r.map callOfTok).filter isWrite = r.map callOfTok := by
      apply List.filter_eq_self.mpr
      intro c hc
      obtain ⟨t, _, rfl⟩ := List.mem_map.mp hc
      exact isWrite_callOfTok t
    rw [h1]
    simp [isWrite]

end NodisVerif.Proofs.RespWriter
