import NodisVerif.Proofs.ProtoWireOut
/-
  C20 / wire encoding: byte accounting of Unmarshal. The bytes held by the decoded values never exceed
  the bytes consumed, so everything decoded from an input shorter than 2^63 bytes satisfies the length
  bounds of `wfVals`; with `okVals` (ProtoWireOut) a decoded record without unknown fields is
  well-formed, hence Encode ∘ DecodeOp yields the canonical encoding that decodes to the same record.
-/
namespace NodisVerif.Proofs.ProtoWire
open NodisVerif Varint Codec NodisVerif.ProtoWire

def sumLen : List Bytes → Nat
  | [] => 0
  | s :: l => s.length + sumLen l

def weight : PVal → Nat
  | .bytes s => s.length
  | .list l => sumLen l
  | .f64s l => 8 * l.length
  | _ => 0

def weightVals : List PVal → Nat
  | [] => 0
  | v :: vs => weight v + weightVals vs

theorem weight_bytes (s : Bytes) : weight (.bytes s) = s.length := rfl
theorem weight_list (l : List Bytes) : weight (.list l) = sumLen l := rfl
theorem weight_f64s (l : List UInt64) : weight (.f64s l) = 8 * l.length := rfl
theorem weight_int (i : Int) : weight (.int i) = 0 := rfl
theorem weight_bool (b : Bool) : weight (.bool b) = 0 := rfl
theorem weight_f64 (x : UInt64) : weight (.f64 x) = 0 := rfl

theorem sumLen_append (a b : List Bytes) : sumLen (a ++ b) = sumLen a + sumLen b := by
  induction a with
  | nil => simp [sumLen]
  | cons s l ih => simp only [List.cons_append, sumLen, ih]; omega

theorem sumLen_mem {l : List Bytes} {s : Bytes} (h : s ∈ l) : s.length ≤ sumLen l := by
  induction l with
  | nil => cases h
  | cons t l ih =>
    cases h with
    | head => simp only [sumLen]; omega
    | tail _ h' => have := ih h'; simp only [sumLen]; omega

theorem consumeBytes_acct {b s rest : Bytes} (h : consumeBytes b = some (s, rest)) :
    s.length + rest.length < b.length := by
  unfold consumeBytes at h
  split at h
  · cases h
  · rename_i m r hv
    have := consumeVarint_lt hv
    split at h
    · cases h
    · simp only [Option.some.injEq, Prod.mk.injEq] at h
      rw [← h.1, ← h.2, List.length_take, List.length_drop]
      omega

theorem unpackN_length : ∀ (n : Nat) (b : Bytes), (unpackN n b).length = n := by
  intro n
  induction n with
  | zero => intro b; rfl
  | succ n ih => intro b; simp only [unpackN, List.length_cons, ih]

theorem unpack64_acct {p : Bytes} {xs : List UInt64} (h : unpack64 p = some xs) : 8 * xs.length = p.length := by
  unfold unpack64 at h
  split at h
  · cases h
  · simp only [Option.some.injEq] at h
    rw [← h, unpackN_length]
    omega

theorem asList_weight (cur : PVal) : sumLen cur.asList ≤ weight cur := by
  cases cur <;> simp [PVal.asList, weight, sumLen]

theorem asF64s_weight (cur : PVal) : 8 * cur.asF64s.length ≤ weight cur := by
  cases cur <;> simp [PVal.asF64s, weight]

/-- what a consumer stores weighs at most what the slot held plus what was consumed -/
theorem consumeField_acct {k : Kind} {cur v : PVal} {wt : Nat} {b rest : Bytes}
    (h : consumeField k cur wt b = .ok v rest) : weight v + rest.length ≤ weight cur + b.length := by
  have hl := asList_weight cur
  have hf := asF64s_weight cur
  cases k <;> simp only [consumeField] at h <;> (repeat' split at h) <;>
    first
    | (cases h; done)
    | (injection h with h1 h2; subst h1; subst h2
       simp only [weight_bytes, weight_list, weight_f64s, weight_int, weight_bool, weight_f64, sumLen_append,
         sumLen, List.length_append, List.length_cons, List.length_nil]
       first
       | (have h1 := consumeBytes_acct ‹_›; have h2 := unpack64_acct ‹_›; omega)
       | (have := consumeBytes_acct ‹_›; omega)
       | (have := consumeVarint_lt ‹_›; omega)
       | (have := consumeFixed64_le ‹_›
          have hc : consumeFixed64 _ = some _ := ‹_›
          unfold consumeFixed64 at hc
          split at hc
          · cases hc
          · simp only [Option.some.injEq, Prod.mk.injEq] at hc
            rw [← hc.2, List.length_drop]
            omega))

theorem stepField_acct : ∀ (sch : Schema) (vals : List PVal) {num wt : Nat} {b rest : Bytes} {vals' : List PVal},
    stepField sch vals num wt b = .ok vals' rest → weightVals vals' + rest.length ≤ weightVals vals + b.length := by
  intro sch
  induction sch with
  | nil => intro vals num wt b rest vals' h; simp [stepField] at h
  | cons e sch ih =>
    intro vals num wt b rest vals' h
    obtain ⟨no, k⟩ := e
    cases vals with
    | nil => simp [stepField] at h
    | cons v vs =>
      simp only [stepField] at h
      split at h
      · split at h
        · rename_i hc
          injection h with h1 h2; subst h1; subst h2
          have := consumeField_acct hc
          simp only [weightVals]; omega
        · cases h
        · cases h
      · split at h
        · rename_i hc
          injection h with h1 h2; subst h1; subst h2
          have := ih vs hc
          simp only [weightVals]; omega
        · cases h
        · cases h

theorem step_acct {sch : Schema} {b rest : Bytes} {m m' : Msg} (h : step sch b m = some (m', rest)) :
    weightVals m'.vals + rest.length ≤ weightVals m.vals + b.length := by
  unfold step at h
  split at h
  · cases h
  · rename_i t r hc
    have hlt := consumeVarint_lt hc
    simp only at h
    split at h
    · cases h
    · split at h
      · cases h
      · split at h
        · rename_i hs
          injection h with h; injection h with h1 h2; subst h1; subst h2
          have := stepField_acct _ _ hs
          simp only; omega
        · cases h
        · split at h
          · cases h
          · rename_i hs
            injection h with h; injection h with h1 h2; subst h1; subst h2
            have := skipValue_le hs
            simp only; omega

theorem decodeLoop_acct (sch : Schema) : ∀ (fuel : Nat) (b : Bytes) (m m' : Msg),
    decodeLoop sch fuel b m = some m' → weightVals m'.vals ≤ weightVals m.vals + b.length := by
  intro fuel
  induction fuel with
  | zero =>
    intro b m m' h
    cases b with
    | nil => simp only [decodeLoop, Option.some.injEq] at h; subst h; omega
    | cons _ _ => simp [decodeLoop] at h
  | succ fuel ih =>
    intro b m m' h
    cases b with
    | nil => simp only [decodeLoop, Option.some.injEq] at h; subst h; omega
    | cons x xs =>
      simp only [decodeLoop] at h
      split at h
      · cases h
      · rename_i m1 rest hs
        have h1 := step_acct hs
        have h2 := ih rest m1 m' h
        omega

theorem defaults_weight : ∀ (sch : Schema), weightVals (defaults sch) = 0 := by
  intro sch
  induction sch with
  | nil => rfl
  | cons e sch ih =>
    obtain ⟨no, k⟩ := e
    show weight k.default + weightVals (defaults sch) = 0
    rw [ih]
    cases k <;> rfl

theorem unmarshal_acct {sch : Schema} {b : Bytes} {m : Msg} (h : unmarshal sch b = some m) :
    weightVals m.vals ≤ b.length := by
  have := decodeLoop_acct sch _ b _ m h
  simp only [defaults_weight, Nat.zero_add] at this
  exact this

theorem small_of_weight {v : PVal} (h : weight v < 2 ^ 63) : v.small = true := by
  cases v <;> simp only [PVal.small, weight] at *
  · exact decide_eq_true h
  · rw [List.all_eq_true]
    intro s hs
    have := sumLen_mem hs
    exact decide_eq_true (by omega)
  · exact decide_eq_true h

theorem wf_of_ok_weight : ∀ (sch : Schema) (vs : List PVal), okVals sch vs = true → weightVals vs < 2 ^ 63 →
    wfVals sch vs = true := by
  intro sch
  induction sch with
  | nil => intro vs h _; cases vs <;> simp_all [okVals, wfVals]
  | cons e sch ih =>
    intro vs h hw
    obtain ⟨no, k⟩ := e
    cases vs with
    | nil => simp [okVals] at h
    | cons v vs =>
      simp only [okVals, Bool.and_eq_true] at h
      simp only [weightVals] at hw
      simp only [wfVals, Bool.and_eq_true]
      exact ⟨⟨h.1, small_of_weight (by omega)⟩, ih vs h.2 (by omega)⟩

/-- a decoded record without unknown fields is well-formed (input shorter than 2^63 bytes) -/
theorem decodeOp_wf {b : Bytes} {op : Op} (h : decodeOp b = .ok op) (hb : b.length < 2 ^ 63)
    (hu : op.msg.unknown = []) : op.wf = true := by
  unfold decodeOp at h
  split at h
  · cases h
  · rename_i t body
    split at h
    · cases h
    · rename_i sch hs
      split at h
      · cases h
      · rename_i m hm
        injection h with h; subst h
        have h1 := unmarshal_ok hm
        have h2 := unmarshal_acct hm
        simp only [List.length_cons] at hb
        simp only [Op.wf, hs, Bool.and_eq_true, beq_iff_eq]
        exact ⟨wf_of_ok_weight sch m.vals h1 (by omega), hu⟩

end NodisVerif.Proofs.ProtoWire
