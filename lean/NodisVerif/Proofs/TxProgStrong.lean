import NodisVerif.Proofs.TxProgRefine
/-
  Program model of tx.go: the stronger invariant that discharges the callers' conditions `Guarded`
  (lock order of the locking phase, re-acquisition of held keys, the `s.mu` sections) — definitions and the
  facts about single transitions that do not depend on the invariant.
-/
namespace NodisVerif.Proofs.TxProg
open NodisVerif.Proto (Key Rec Mode Ev Hold TxSt PState assoc erase put Tx)
open NodisVerif.TxProg
open NodisVerif.Proofs.Proto

/-- program counters inside an `s.mu.Lock()` … `s.mu.Unlock()` section -/
def inW : Pc → Bool
  | .a5 | .a6r | .a6c | .n3 | .n4 | .d2 | .d3 | .d4 | .c9 | .c10 | .g8 | .g9 => true
  | _ => false

/-- program counters inside an `s.mu.RLock()` … `s.mu.RUnlock()` section -/
def inR : Pc → Bool
  | .a2 | .a3 | .a11 | .a12 | .g5 | .g6 => true
  | _ => false

def acqPc : Pc → Bool
  | .a1 | .a2 | .a3 | .a4 | .a5 | .a6r | .a6c | .a7 | .a8 | .a9 | .a10 | .a11 | .a12 | .a13 | .a14 => true
  | _ => false

def afterWait : Pc → Bool
  | .a7 | .a8 | .a9 | .a10 | .a11 | .a12 | .a13 | .a14 => true
  | _ => false

/-- the growing phase of a transaction (before `commit`) -/
def grow : Pc → Bool
  | .idle | .a1 | .a2 | .a3 | .a4 | .a5 | .a6r | .a6c | .a7 | .a8 | .a9 | .a10 | .a11 | .a12 | .a13 | .a14
  | .n1 | .n2 | .n3 | .n4 | .d1 | .d2 | .d3 | .d4 => true
  | _ => false

/-! ## facts about one transition -/

theorem tstep_evTx {s s' : Shared} {t : Tid} {l l' : Loc} {ch : Choice} {ev : Ev}
    (h : tstep s t l ch = some (s', l', some ev)) : evTx ev = some t := by
  cases hpc : l.pc <;> simp only [tstep, hpc] at h <;> (repeat' split at h) <;> simp_all [evTx] <;>
    (try (obtain ⟨_, _, rfl⟩ := h; rfl))

/-- outside the `s.mu.Lock()` sections a transition does not write index / pending -/
theorem tstep_maps {s s' : Shared} {t : Tid} {l l' : Loc} {ch : Choice} {e : Option Ev}
    (h : tstep s t l ch = some (s', l', e)) (hw : inW l.pc = false) :
    s'.index = s.index ∧ s'.pending = s.pending := by
  cases hpc : l.pc <;> simp only [hpc, inW] at hw <;> simp only [tstep, hpc] at h <;>
    (repeat' split at h) <;> simp_all <;> (try (obtain ⟨rfl, _, _⟩ := h; exact ⟨rfl, rfl⟩))

@[simp] theorem inW_nextPlan (l : Loc) : inW (nextPlan l).pc = false := by unfold nextPlan; split <;> rfl
@[simp] theorem inR_nextPlan (l : Loc) : inR (nextPlan l).pc = false := by unfold nextPlan; split <;> rfl
@[simp] theorem inW_retTo (l : Loc) : inW (retTo l).pc = false := by
  unfold retTo; split; exact inW_nextPlan l; rfl; rfl
@[simp] theorem inR_retTo (l : Loc) : inR (retTo l).pc = false := by
  unfold retTo; split; exact inR_nextPlan l; rfl; rfl
@[simp] theorem inW_commitNext (s : Shared) (l : Loc) : inW (commitNext s l).pc = false := by
  unfold commitNext; split; rfl; split; rfl; split <;> rfl
@[simp] theorem inR_commitNext (s : Shared) (l : Loc) : inR (commitNext s l).pc = false := by
  unfold commitNext; split; rfl; split; rfl; split <;> rfl

/-- `store.mu`: the stepping thread is inside a section exactly when it owns the mutex; the others keep theirs -/
theorem tstep_smu {s s' : Shared} {t : Tid} {l l' : Loc} {ch : Choice} {e : Option Ev}
    (h : tstep s t l ch = some (s', l', e)) (hwf : wfMu s.smu) (hW : inW l.pc = true → s.smu.writer = some t)
    (hR : inR l.pc = true → t ∈ s.smu.readers) :
    wfMu s'.smu ∧ (inW l'.pc = true → s'.smu.writer = some t) ∧ (inR l'.pc = true → t ∈ s'.smu.readers) ∧
    (∀ u, u ≠ t → (s.smu.writer = some u → s'.smu.writer = some u) ∧ (u ∈ s.smu.readers → u ∈ s'.smu.readers)) := by
  cases hpc : l.pc <;> simp only [hpc, inW, inR] at hW hR <;> simp only [tstep, hpc] at h <;>
    (repeat' split at h) <;> simp at h <;> (try (obtain ⟨rfl, rfl, _⟩ := h)) <;>
    simp only [inW_retTo, inR_retTo, inW_nextPlan, inR_nextPlan, inW_commitNext, inR_commitNext] <;>
    simp_all [inW, inR, wfMu, Mu.lock, Mu.unlock, Mu.rlock, Mu.runlock, Mu.canLock, Mu.canRLock] <;>
    (try (intro u h1 h2; exact h1 h2.symm))

/-- while a transaction holds a record (any mode), the index entry of that record is not touched by the steps of
    other transactions: a publication under the same key is impossible (the key is in the index), an unlink of it
    needs a write hold on the record -/
theorem index_stable {s s' : PState} {e : Ev} (hi : Inv s) {t u : Tx} {st : TxSt} {h : Hold} {k : Key}
    (htx : s.tx u = some st) (hh : h ∈ st.holds) (hl : assoc s.index k = some h.rid)
    (he : evTx e = some t) (hne : t ≠ u) (hs : Proto.step s e = some s') : assoc s'.index k = some h.rid := by
  cases e with
  | begin v => obtain ⟨_, rfl⟩ := step_begin.1 hs; exact hl
  | look v k r => obtain ⟨_, _, _, _, _, rfl⟩ := step_look.1 hs; exact hl
  | claim v k' r' m => obtain ⟨_, _, _, _, _, _, rfl⟩ := step_claim.1 hs; exact hl
  | wait v k r m => obtain ⟨_, _, _, _, _, _, _, rfl⟩ := step_wait.1 hs; exact hl
  | lock v k r m => obtain ⟨_, _, _, _, rfl⟩ := step_lock.1 hs; exact hl
  | valid v k r ok => obtain ⟨_, _, _, _, _, _, ⟨_, rfl⟩ | ⟨_, _, rfl⟩⟩ := step_valid.1 hs <;> exact hl
  | publish v k' r' =>
    obtain ⟨_, _, _, _, _, _, _, _, _, hx, rfl⟩ := step_publish.1 hs
    have hne' : k ≠ k' := by intro c; subst c; rw [hx] at hl; cases hl
    simpa [assoc_put, hne'] using hl
  | unlink v k' r' =>
    obtain ⟨su, g, a, b, c, d⟩ := unlink_needs_w hs
    obtain ⟨_, _, _, _, _, _, _, _, hx, rfl⟩ := step_unlink.1 hs
    simp only [evTx, Option.some.injEq] at he; subst he
    have hne' : k ≠ k' := by
      intro e; subst e
      rw [hx] at hl
      have hr : r' = h.rid := Option.some.inj hl
      exact hne (hi.compat v u su st g h a htx b hh (by rw [c, hr]) (Or.inl d))
    simpa [assoc_erase, hne'] using hl
  | commit v => obtain ⟨_, _, _, _, _, rfl⟩ := step_commit.1 hs; exact hl
  | trylock v k r => obtain ⟨_, _, _, _, _, rfl⟩ := step_trylock.1 hs; exact hl
  | drop v k' r' => obtain ⟨_, _, _, _, _, _, _, _, rfl⟩ := step_drop.1 hs; exact hl
  | unlock v r => obtain ⟨_, _, _, _, _, rfl⟩ := step_unlock.1 hs; exact hl
  | fin v => obtain ⟨_, _, _, _, rfl⟩ := step_fin.1 hs; exact hl
  | clear => cases he

/-- `store.mu`, the converse direction: whoever owns the mutex is inside a section.  `hW` / `hR` say it of the
    stepping thread before the step (it owns `store.mu` only inside a section), the conclusion says it after the
    step; other threads keep exactly what they had -/
theorem tstep_smu_conv {s s' : Shared} {t : Tid} {l l' : Loc} {ch : Choice} {e : Option Ev}
    (h : tstep s t l ch = some (s', l', e)) (hnd : s.smu.readers.Nodup)
    (hW : s.smu.writer = some t → inW l.pc = true) (hR : t ∈ s.smu.readers → inR l.pc = true) :
    s'.smu.readers.Nodup ∧ (s'.smu.writer = some t → inW l'.pc = true) ∧ (t ∈ s'.smu.readers → inR l'.pc = true) ∧
    (∀ u, u ≠ t → (s'.smu.writer = some u → s.smu.writer = some u) ∧ (u ∈ s'.smu.readers → u ∈ s.smu.readers)) := by
  have herase : t ∉ s.smu.readers.erase t := fun hm => (List.Nodup.mem_erase_iff hnd).1 hm |>.1 rfl
  cases hpc : l.pc <;> simp only [hpc, inW, inR] at hW hR <;> simp only [tstep, hpc] at h <;>
    (repeat' split at h) <;> simp at h <;> (try (obtain ⟨rfl, rfl, _⟩ := h)) <;>
    simp only [inW_retTo, inR_retTo, inW_nextPlan, inR_nextPlan, inW_commitNext, inR_commitNext] <;>
    simp_all [inW, inR, Mu.lock, Mu.unlock, Mu.rlock, Mu.runlock, Mu.canLock, Mu.canRLock, List.Nodup.erase] <;>
    (try (intro u hu hm; exact (List.mem_erase_of_ne hu).1 hm)) <;>
    (try (intro u h1 h2; exact absurd h2.symm h1))

end NodisVerif.Proofs.TxProg
