import NodisVerif.Proofs.C08Lookup
import NodisVerif.Proofs.C16Handlers2
import NodisVerif.Proofs.C16Table2b
import NodisVerif.Proofs.C16Table3b
import NodisVerif.Proofs.C16Table4
/-
  C16 for the server's complete dispatch `fullTable = Driver.lookup [table1, table2, table3, table4]`.
-/
namespace NodisVerif.Proofs.C08Step
open Resp

theorem table1_tableOneReply : TableOneReply Handler.table1 := Proofs.C16Handlers.table1_one_reply

/-- every handler of every family writes exactly one RESP value -/
theorem fullTable_oneReply : TableOneReply fullTable := by
  intro name args r h
  refine lookup_all (P := Proofs.C16Handlers.OneReply) allTables ?_ name args r h
  intro t ht n a r' hr
  simp only [allTables, List.mem_cons, List.not_mem_nil, or_false] at ht
  rcases ht with rfl | rfl | rfl | rfl
  · exact table1_tableOneReply n a r' hr
  · exact Proofs.C16Table2.table2_tableOneReply n a r' hr
  · exact Proofs.C16Table3.table3_tableOneReply n a r' hr
  · exact Proofs.C16Table4.table4_tableOneReply n a r' hr

/-- … and only tokens a strict RESP reader accepts -/
theorem fullTable_wire : TableWire fullTable := by
  intro name args r h
  refine lookup_all (P := WireRes) allTables ?_ name args r h
  intro t ht n a r' hr
  simp only [allTables, List.mem_cons, List.not_mem_nil, or_false] at ht
  rcases ht with rfl | rfl | rfl | rfl
  · exact table1_wire n a r' hr
  · exact Proofs.C16Table2.table2_wire n a r' hr
  · exact Proofs.C16Table3.table3_wire n a r' hr
  · exact Proofs.C16Table4.table4_wire n a r' hr

end NodisVerif.Proofs.C08Step
