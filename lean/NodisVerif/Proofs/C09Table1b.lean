import NodisVerif.Proofs.C09Table1
import NodisVerif.Proofs.C09Float
/-
  C09 (WATCH soundness), the handler table of Model/Handler.lean, second part: BITCOUNT, INCR/DECR,
  INCRBY/DECRBY (finding: `DECRBY k -9223372036854775808`), SETRANGE, INCRBYFLOAT, SET, MSET, MGET, SCAN,
  and the table theorems for `Handler.table1`.
-/
set_option linter.unusedSectionVars false
set_option linter.unusedVariables false

namespace NodisVerif.Proofs.C08Step
open Resp Server
open NodisVerif NodisVerif.Store NodisVerif.Api
open NodisVerif.Proofs.C09Writers

theorem ite_exec {c : Prop} [Decidable c] {f b : Body}
    (h : (if c then Handler.errReply else HRes.exec f) = .exec b) : ¬ c ∧ f = b := by
  split at h
  · cases h
  · next hc => cases h; exact ⟨hc, rfl⟩


theorem signals_bitCount (args : List Bytes) (b : Body) (h : Handler.bitCount args = .exec b) : SignalsChanges b := by
  unfold Handler.bitCount at h
  split at h
  · cases h
  · obtain ⟨_, rfl⟩ := ite_exec h
    exact signals_of_frame fun st now _ hp => frame_call _ _ (fun _ _ => rfl) (frame_bitCount st now _ _ _ _)

/-! ## INCR / DECR / INCRBY / DECRBY -/

/-- INCR / DECR: the step is 1, so the sum on a freshly created key (0 ± 1) stays inside int64 -/
theorem signals_incrDecr (neg : Bool) (args : List Bytes) (b : Body) (h : Handler.incrDecr neg args = .exec b) :
    SignalsChanges b := by
  unfold Handler.incrDecr at h
  split at h
  · cases h
    exact signals_of_frame fun st now _ hp => frame_call _ _ (fun _ o => by split <;> rfl)
      (frame_addInt st hp now _ 1 neg false (Or.inr (by cases neg <;> decide)))
  · cases h


theorem parseInt64_inInt64 {s : Bytes} {v : Int} (h : parseInt64 s = some v) : inInt64 v = true := by
  unfold parseInt64 at h
  split at h <;> dsimp only at h <;> (repeat' split at h) <;> first | (cases h; assumption) | cases h

theorem parseIntGo_inInt64 {s : Bytes} {v : Int} (h : Handler.parseIntGo s = (v, false)) : inInt64 v = true := by
  unfold Handler.parseIntGo at h
  split at h
  · next hv => cases h; exact parseInt64_inInt64 hv
  · (repeat' split at h) <;> cases h


/-
  FULL STATEMENT (false):
    theorem signals_incrDecrBy (neg : Bool) (args : List Bytes) (b : Body)
        (h : Handler.incrDecrBy neg args = .exec b) : SignalsChanges b
  Finding region (`decrByMin`): DECRBY whose decrement parses to -2^63 (`neg = true`, delta = int64Min).
  On a key that is not live, `writeKey` creates the record (an empty string, read as 0); `Decr(-2^63)`
  then fails its overflow check (0 - (-2^63) leaves int64) and the call returns the overflow error
  (rendered as a null bulk) without `signalModifiedKey`: the key now exists, a watcher is not told.
  For INCRBY (`neg = false`) the parsed delta is itself an int64, so 0 + delta never overflows.
-/
/-- finding region of INCRBY / DECRBY: DECRBY with the decrement -2^63 (its negation leaves int64) -/
def decrByMin (neg : Bool) (args : List Bytes) : Bool :=
  neg && match args with
    | _ :: d :: _ => (Handler.parseIntGo d).1 == int64Min
    | _ => false

theorem signals_incrDecrBy_partial (neg : Bool) (args : List Bytes) (b : Body)
    (h : Handler.incrDecrBy neg args = .exec b) (hreg : decrByMin neg args = false) : SignalsChanges b := by
  unfold Handler.incrDecrBy at h
  split at h
  · next k d rest =>
    split at h
    · cases h
    · next delta hd =>
      cases h
      have hin := parseIntGo_inInt64 hd
      refine signals_of_frame fun st now _ hp => frame_call _ _ (fun _ o => by split <;> rfl)
        (frame_addInt st hp now _ delta neg false (Or.inr ?_))
      cases neg
      · exact hin
      · simp only [decrByMin, Bool.true_and, hd, beq_eq_false_iff_ne, ne_eq] at hreg
        simp only [if_true]
        simp only [inInt64, int64Min, int64Max] at hin hreg ⊢
        have hin' := of_decide_eq_true hin
        exact decide_eq_true (by omega)
  · cases h


/-- the arguments of `DECRBY k -9223372036854775808` (the second one is the decimal text, as bytes) -/
def decrByMinArgs : List Bytes := [[107], [45, 57, 50, 50, 51, 51, 55, 50, 48, 51, 54, 56, 53, 52, 55, 55, 53, 56, 48, 56]]

/-- witness: `DECRBY k -9223372036854775808` on the empty Pebble store: the closure's output store has a
    record under `k` (created, empty string), `k` was not signalled, the store was not flushed -/
theorem signals_incrDecrBy_finding :
    ∃ b, Handler.incrDecrBy true decrByMinArgs = .exec b ∧
      let st : MState := { pebble := true }
      let o := b st 0 none
      changed st o.store [107] ∧ [107] ∉ o.store.signalled ∧ o.store.flushed = false :=
  ⟨_, rfl, by decide⟩

/-- hence the full statement for INCRBY / DECRBY is false -/
theorem signals_incrDecrBy_false :
    ¬ ∀ (neg : Bool) (args : List Bytes) (b : Body), Handler.incrDecrBy neg args = .exec b → SignalsChanges b := by
  intro hall
  obtain ⟨b, hb, hc, hs, hf⟩ := signals_incrDecrBy_finding
  rcases (hall true decrByMinArgs b hb { pebble := true } 0 none rfl rfl).2 [107] hc with h | h
  · exact hs h
  · rw [hf] at h; cases h

/-- non-vacuity of the `_partial` hypotheses: `DECRBY k 5` (closure exists, outside the region); the witness
    arguments are inside the region -/
example : (∃ b, Handler.incrDecrBy true [[107], [53]] = .exec b) ∧ decrByMin true [[107], [53]] = false :=
  ⟨⟨_, rfl⟩, by decide⟩
example : decrByMin true decrByMinArgs = true := by decide

/-! ## SETRANGE -/

theorem wrap64_small (x : Int) (h0 : 0 ≤ x) (h1 : x ≤ 9223372036854775807) : wrap64 x = x := by
  unfold wrap64
  have : x % 18446744073709551616 = x := Int.emod_eq_of_lt h0 (by omega)
  simp only [this, int64Max]
  split <;> omega

theorem setRange_none_isSome (o : Int) (v : Bytes)
    (h : ¬ (o < 0 ∨ o > Handler.maxStringSize ∨ o + v.length > Handler.maxStringSize)) :
    (DsStr.setRange none o v).isSome = true := by
  simp only [Handler.maxStringSize, not_or, Int.not_lt] at h
  obtain ⟨h0, h1, h2⟩ := h
  have hw : wrap64 (o + (v.length : Int)) = o + v.length := wrap64_small _ (by omega) (by omega)
  unfold DsStr.setRange
  simp only [DsStr.bytes, Option.getD_none, List.length_nil, hw]
  rw [if_neg (by omega), if_neg (by omega), if_neg]
  · rfl
  · simp only [Bool.not_eq_true', decide_eq_false_iff_not, not_and]; intro; omega

theorem signals_setRange (args : List Bytes) (b : Body) (h : Handler.setRange args = .exec b) : SignalsChanges b := by
  unfold Handler.setRange at h
  split at h
  · split at h
    · cases h
    · obtain ⟨hc, rfl⟩ := ite_exec h
      exact signals_of_frame fun st now _ hp => frame_call _ _ (fun _ _ => rfl)
        (frame_setRange st hp now _ _ _ (Or.inr (setRange_none_isSome _ _ hc)))
  · cases h

/-! ## INCRBYFLOAT -/

/-- INCRBYFLOAT: the increment accepted by the handler is `F64.ofInt?` of an integer, so on a freshly
    created key the sum `0 + delta` can be formatted (C09Float.lean) and the region of `frame_incrByFloat`
    holds. (Increments outside the model's float fragment — fractions, exponents, inf/nan spellings —
    get the closure that replies UNSUPPORTED without touching the store: nothing is claimed about the
    Go code for those.) -/
theorem signals_incrByFloat (args : List Bytes) (b : Body) (h : Handler.incrByFloat args = .exec b) :
    SignalsChanges b := by
  unfold Handler.incrByFloat at h
  split at h
  · next k d rest =>
    split at h
    · cases h
    · cases h
    · cases h; exact signals_of_frame fun st _ _ _ => Frame.refl _ st
    · next delta hd =>
      cases h
      have hr : (Api.formatFloat (F64.add 0 delta)).isSome = true := rfl     -- FormatFloat is total (Model/FloatDec.lean)
      exact signals_of_frame fun st now _ hp => frame_call _ _ (fun _ o => by split <;> rfl)
        (frame_incrByFloat st hp now _ delta (Or.inr hr))
  · cases h

/-! ## SET: the closure in stages -/

/-- SET … GET: the read of the old value -/
def setGetStage (c : Prop) [Decidable c] (s : MState) (now : Int) (key : Bytes) : MState × Option Bytes × Bool :=
  if c then
    match Api.get s now key with
    | (s, .panic) => (s, none, true)
    | (s, .bytes b) => (Handler.commit s, b, false)
    | (s, _) => (s, none, false)
  else (s, none, false)

/-- SET: the write (plain / NX / XX) -/
def setWriteStage (nx xx : Prop) [Decidable nx] [Decidable xx] (keep : Bool) (s : MState) (now : Int)
    (key value : Bytes) : MState × Option Bool :=
  if nx then
    match Api.setNX s now key value keep with
    | (s, .bool b) => (s, some b) | (s, _) => (s, none)
  else if xx then
    match Api.setXX s now key value keep with
    | (s, .bool b) => (s, some b) | (s, _) => (s, none)
  else
    match Api.set s now key value keep with
    | (s, .panic) => (s, none) | (s, _) => (s, some true)

/-- SET: the deadline options and the reply -/
def setTailStage (args : List Bytes) (key : Bytes) (now : Int) (getR : Option Bytes) (s : MState) : BodyOut :=
  let s := Handler.commit s
  let argI (w : String) : Option Int := (argAt args (opt args w)).map fun a => (Handler.parseIntGo a).1
  if opt args "EX" > 1 then
    match argI "EX" with
    | none => { store := s, toks := [], panicked := true }
    | some secs => Handler.call (Api.expire s now key secs) fun s _ => Handler.done s [Handler.ok]
  else if opt args "PX" > 1 then
    match argI "PX" with
    | none => { store := s, toks := [], panicked := true }
    | some ms => Handler.call (Api.expirePX s now key ms) fun s o =>
        Handler.done s [if Handler.intOf o = 0 then .nullBulk else Handler.ok]
  else if opt args "EXAT" > 1 then
    match argI "EXAT" with
    | none => { store := s, toks := [], panicked := true }
    | some ts => Handler.call (Api.expireAt s now key (Handler.unixMilli ts)) fun s o =>
        Handler.done s [if Handler.intOf o = 0 then .nullBulk else Handler.ok]
  else if opt args "PXAT" > 1 then
    match argI "PXAT" with
    | none => { store := s, toks := [], panicked := true }
    | some ms => Handler.call (Api.expireAt s now key ms) fun s _ => Handler.done s [Handler.ok]
  else
    match getR with
    | some g => Handler.done s [.bulk g]
    | none => Handler.done s [Handler.ok]

/-- the closure of `Handler.setString`, stage by stage -/
def setBody (args : List Bytes) (key value : Bytes) (s : MState) (now : Int) : BodyOut :=
  let g := setGetStage (opt args "GET" > 1) s now key
  if g.2.2 then { store := g.1, toks := [], panicked := true } else
  match setWriteStage (opt args "NX" > 1) (opt args "XX" > 1) (opt args "KEEPTTL" > 1) g.1 now key value with
  | (s, none) => { store := s, toks := [], panicked := true }
  | (s, some false) => Handler.done s [.nullBulk]
  | (s, some true) => setTailStage args key now g.2.1 s

theorem setString_eq (key value : Bytes) (rest : List Bytes) :
    Handler.setString (key :: value :: rest) = .exec fun s now _ => setBody (key :: value :: rest) key value s now := rfl

theorem frame_setGetStage (c : Prop) [Decidable c] (s : MState) (now : Int) (key : Bytes) :
    Frame [] s (setGetStage c s now key).1 := by
  unfold setGetStage
  split
  · have hg := frame_get s now key
    generalize Api.get s now key = r at hg ⊢
    obtain ⟨s1, o⟩ := r
    split
    · next heq => cases heq; exact hg
    · next heq => cases heq; exact hg.commit
    · next heq => cases heq; exact hg
  · exact Frame.refl _ _

theorem frame_setWriteStage (nx xx : Prop) [Decidable nx] [Decidable xx] (keep : Bool) (s : MState)
    (hp : s.pebble = true) (now : Int) (key value : Bytes) :
    Frame [] s (setWriteStage nx xx keep s now key value).1 := by
  unfold setWriteStage
  split
  · have hg := frame_setNX s hp now key value keep
    generalize Api.setNX s now key value keep = r at hg ⊢
    obtain ⟨s1, o⟩ := r
    split <;> (next heq => cases heq; exact hg)
  · split
    · have hg := frame_setXX s hp now key value keep
      generalize Api.setXX s now key value keep = r at hg ⊢
      obtain ⟨s1, o⟩ := r
      split <;> (next heq => cases heq; exact hg)
    · have hg := frame_set s hp now key value keep
      generalize Api.set s now key value keep = r at hg ⊢
      obtain ⟨s1, o⟩ := r
      split <;> (next heq => cases heq; exact hg)

theorem frame_setTailStage (args : List Bytes) (key : Bytes) (now : Int) (getR : Option Bytes) (s : MState)
    (hp : s.pebble = true) : Frame [] s (setTailStage args key now getR s).store := by
  unfold setTailStage
  have hc : Frame [] s (Handler.commit s) := frame_commit s
  have hpc := hc.pebble hp
  generalize Handler.commit s = sc at hc hpc ⊢
  dsimp only
  split
  · split
    · exact hc
    · exact hc.trans0 (frame_call _ _ (fun _ _ => rfl) (frame_expire sc hpc now key _))
  · split
    · split
      · exact hc
      · exact hc.trans0 (frame_call _ _ (fun _ _ => rfl) (frame_expirePX sc hpc now key _))
    · split
      · split
        · exact hc
        · exact hc.trans0 (frame_call _ _ (fun _ _ => rfl) (frame_expireAt sc hpc now key _))
      · split
        · split
          · exact hc
          · exact hc.trans0 (frame_call _ _ (fun _ _ => rfl) (frame_expireAt sc hpc now key _))
        · split <;> exact hc

theorem frame_setBody (args : List Bytes) (key value : Bytes) (s : MState) (hp : s.pebble = true) (now : Int) :
    Frame [] s (setBody args key value s now).store := by
  unfold setBody
  have h1 := frame_setGetStage (opt args "GET" > 1) s now key
  generalize setGetStage (opt args "GET" > 1) s now key = g at h1 ⊢
  obtain ⟨s1, getR, gp⟩ := g
  dsimp only at h1 ⊢
  have hp1 := h1.pebble hp
  split
  · exact h1
  · have h2 := frame_setWriteStage (opt args "NX" > 1) (opt args "XX" > 1) (opt args "KEEPTTL" > 1) s1 hp1 now key value
    generalize setWriteStage (opt args "NX" > 1) (opt args "XX" > 1) (opt args "KEEPTTL" > 1) s1 now key value = w at h2 ⊢
    obtain ⟨s2, r⟩ := w
    dsimp only at h2
    split
    · next heq => cases heq; exact h1.trans0 h2
    · next heq => cases heq; exact h1.trans0 h2
    · next heq =>
      cases heq
      exact (h1.trans0 h2).trans0 (frame_setTailStage args key now getR _ ((h1.trans0 h2).pebble hp))

theorem signals_setString (args : List Bytes) (b : Body) (h : Handler.setString args = .exec b) : SignalsChanges b := by
  unfold Handler.setString at h
  split at h
  · next key value rest =>
    cases h
    exact signals_of_frame fun st now _ hp => frame_setBody (key :: value :: rest) key value st hp now
  · cases h

/-! ## MSET / MGET / SCAN -/

theorem frame_mSet_go (now : Int) : ∀ (ps : List (Bytes × Bytes)) (s : MState), s.pebble = true →
    Frame [] s (Handler.mSet.go now ps s).store
  | [], s, _ => by unfold Handler.mSet.go; exact Frame.refl _ _
  | (k, v) :: rest, s, hp => by
    unfold Handler.mSet.go
    have h1 := frame_set s hp now k v false
    generalize Api.set s now k v false = r at h1 ⊢
    obtain ⟨s1, o⟩ := r
    dsimp only at h1 ⊢
    split
    · next heq => cases heq; exact h1
    · next heq =>
      cases heq
      exact h1.trans0 ((frame_commit _).trans0 (frame_mSet_go now rest _ (h1.pebble hp)))

theorem signals_mSet (args : List Bytes) (b : Body) (h : Handler.mSet args = .exec b) : SignalsChanges b := by
  unfold Handler.mSet at h
  obtain ⟨_, rfl⟩ := ite_exec h
  exact signals_of_frame fun st now _ hp => frame_mSet_go now _ st hp

theorem frame_mGet_go (args : List Bytes) (now : Int) : ∀ (ks : List Bytes) (s : MState) (acc : List Tok),
    Frame [] s (Handler.mGet.go args now ks s acc).store
  | [], s, acc => by unfold Handler.mGet.go; exact Frame.refl _ _
  | k :: rest, s, acc => by
    unfold Handler.mGet.go
    have h1 := frame_get s now k
    generalize Api.get s now k = r at h1 ⊢
    obtain ⟨s1, o⟩ := r
    dsimp only at h1 ⊢
    split
    · next heq => cases heq; exact h1
    · next heq => cases heq; exact h1.trans0 ((frame_commit _).trans0 (frame_mGet_go args now rest _ _))
    · next heq => cases heq; exact h1.trans0 ((frame_commit _).trans0 (frame_mGet_go args now rest _ _))

theorem signals_mGet (args : List Bytes) (b : Body) (h : Handler.mGet args = .exec b) : SignalsChanges b := by
  unfold Handler.mGet at h
  obtain ⟨_, rfl⟩ := ite_exec h
  exact signals_of_frame fun st now _ hp => frame_mGet_go _ now _ st _

/-
  FULL STATEMENT (not proved): `signals_scan (args) (b) (h : Handler.scan args = .exec b) : SignalsChanges b`.
  Region left open: SCAN with a TYPE option (`opt args "TYPE" > 0`): the scan then loads cold records of
  unknown type, see the comment at `frame_scan` (C09Table1.lean).  Not known to be false.
-/
/-- every closure SCAN without TYPE filter can produce: the scan, then the rendering -/
theorem signals_scanBody (cursor : Int) (pat : Bytes) (count : Int) :
    SignalsChanges fun s now _ =>
      Handler.call (Api.scan s now cursor pat count 0) fun s o =>
        match o with
        | .many [.int next, .slist ks] => Handler.done s ([.arr 2, .bulk (formatInt next)] ++ Handler.bulkList ks)
        | _ => Handler.done s [] :=
  signals_of_frame fun st now _ hp => frame_call _ _ (fun _ o => by split <;> rfl) (frame_scan st now _ _ _)

theorem signals_scan_partial (args : List Bytes) (b : Body) (h : Handler.scan args = .exec b)
    (hreg : ¬ (Resp.opt args "TYPE" > 0)) : SignalsChanges b := by
  unfold Handler.scan at h
  split at h
  · cases h
  · split at h
    · cases h
    · dsimp only at h
      split at h
      · cases h
      · split at h
        · cases h
        · cases h
        · split at h
          · cases h
          · split at h
            · cases h
            · cases h
              first
                | exact signals_scanBody _ _ _
                | (rw [if_neg hreg]; exact signals_scanBody _ _ _)
                | (simp only [if_neg hreg]; exact signals_scanBody _ _ _)

/-! ## the table -/

/-- SCAN with a TYPE option: the region for which `SignalsChanges` is not proved -/
def scanTyped (name : String) (args : List Bytes) : Prop := name = "SCAN" ∧ Resp.opt args "TYPE" > 0

instance (name : String) (args : List Bytes) : Decidable (scanTyped name args) := by unfold scanTyped; exact inferInstance

/-- `Handler.table1` without the command for which `SignalsChanges` is false (DECRBY: `signals_incrDecrBy_finding`)
    and without the region for which it is not proved (SCAN … TYPE t) -/
def table1Safe : Table := fun name args =>
  if name ∈ ["DECRBY"] then none else if scanTyped name args then none else Handler.table1 name args

theorem table1_signals_partial (name : String) (args : List Bytes) (b : Body)
    (h : Handler.table1 name args = some (.exec b)) (hn : name ∉ ["DECRBY"]) (hsc : ¬ scanTyped name args) :
    SignalsChanges b := by
  unfold Handler.table1 at h
  split at h
  all_goals first
    | cases h; done
    | (exfalso; exact hn (by decide))
    | skip
  all_goals injection h with h
  · exact signals_ping _ _ h
  · exact signals_echo _ _ h
  · exact signals_dbSize _ h
  · exact signals_flushDB _ h
  · exact signals_flushDB _ h
  · exact signals_del _ _ h
  · exact signals_del _ _ h
  · exact signals_exists_ _ _ h
  · exact signals_expire _ _ h
  · exact signals_expireAt _ _ h
  · exact signals_keys _ _ h
  · exact signals_randomKey _ h
  · exact signals_ttl _ _ h
  · exact signals_pttl _ _ h
  · exact signals_persist _ _ h
  · exact signals_rename _ _ h
  · exact signals_renameNx _ _ h
  · exact signals_typ _ _ h
  · exact signals_scan_partial _ _ h (fun hp => hsc ⟨rfl, hp⟩)
  · exact signals_setString _ _ h
  · exact signals_mSet _ _ h
  · exact signals_appendString _ _ h
  · exact signals_setex _ _ h
  · exact signals_setnx _ _ h
  · exact signals_getString _ _ h
  · exact signals_getSet _ _ h
  · exact signals_mGet _ _ h
  · exact signals_setRange _ _ h
  · exact signals_getRange _ _ h
  · exact signals_strLen _ _ h
  · exact signals_incrDecr _ _ _ h
  · exact signals_incrDecr _ _ _ h
  · exact signals_incrDecrBy_partial _ _ _ h rfl
  · exact signals_incrByFloat _ _ h
  · exact signals_setBit _ _ h
  · exact signals_getBit _ _ h
  · exact signals_bitCount _ _ h

theorem table1Safe_signals : TableSignals table1Safe := by
  intro name args b h
  unfold table1Safe at h
  split at h
  · cases h
  · next hn =>
    split at h
    · cases h
    · next hsc => exact table1_signals_partial name args b h hn hsc

/-- finer than `table1Safe`: DECRBY too, outside the finding region -/
theorem table1_signals_region (name : String) (args : List Bytes) (b : Body)
    (h : Handler.table1 name args = some (.exec b)) (hreg : name = "DECRBY" → decrByMin true args = false)
    (hsc : ¬ scanTyped name args) : SignalsChanges b := by
  by_cases hn : name = "DECRBY"
  · subst hn
    have h' : Handler.incrDecrBy true args = .exec b := by
      have : Handler.table1 "DECRBY" args = some (Handler.incrDecrBy true args) := rfl
      rw [this] at h; injection h
    exact signals_incrDecrBy_partial true args b h' (hreg rfl)
  · exact table1_signals_partial name args b h (by simpa using hn) hsc

/-- the full table statement is false -/
theorem table1_signals_false : ¬ TableSignals Handler.table1 := by
  intro hall
  obtain ⟨b, hb, hc, hs, hf⟩ := signals_incrDecrBy_finding
  have h1 : Handler.table1 "DECRBY" decrByMinArgs = some (.exec b) := by
    have : Handler.table1 "DECRBY" decrByMinArgs = some (Handler.incrDecrBy true decrByMinArgs) := rfl
    rw [this, hb]
  rcases (hall "DECRBY" decrByMinArgs b h1 { pebble := true } 0 none rfl rfl).2 [107] hc with h | h
  · exact hs h
  · rw [hf] at h; cases h

/- UNPROVED: nothing. Every handler of `Handler.table1` is covered; the only exclusion is the finding
   region of DECRBY (`decrByMin`), with witness `signals_incrDecrBy_finding`. -/

end NodisVerif.Proofs.C08Step
