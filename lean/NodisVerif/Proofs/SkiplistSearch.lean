import NodisVerif.Proofs.SkiplistInv
/-
  Proofs of the interface lemmas `chain_eq`, `abs_eq`, `walk_spec`, `search_spec` of SkiplistSpecs.lean
  (here under the names `*_proof`).
-/
namespace NodisVerif.Skiplist
open NodisVerif.DsZSet (Item nodeLt)
open NodisVerif.Proofs.C04 (ILt)
open NodisVerif.Proofs.ZSetLemmas (Good)

/-! ### list helpers -/

theorem findIdx_split {α} (p : α → Bool) (B1 : List α) (f : α) (B2 : List α)
    (h1 : ∀ a ∈ B1, p a = false) (hf : p f = true) : (B1 ++ f :: B2).findIdx p = B1.length := by
  induction B1 with
  | nil => simp [List.findIdx_cons, hf]
  | cons b B1 ih =>
    have hb : p b = false := h1 b (by simp)
    have := ih (fun a ha => h1 a (by simp [ha]))
    simp [List.findIdx_cons, hb, this]

theorem take_split {α} (A : List α) (u : α) (B : List α) (k : Nat) (hA : A.length ≤ k) :
    (A ++ u :: B).take (k + 1) = A ++ u :: B.take (k - A.length) := by
  rw [List.take_append, List.take_of_length_le (by omega)]
  have : k + 1 - A.length = (k - A.length) + 1 := by omega
  rw [this, List.take_succ_cons]

/-! ### the links of a node in the middle of a linked list -/

theorem linked_split (h : List Node) (A : List Nat) (u : Nat) (B : List Nat) (hl : Linked h (A ++ u :: B))
    (i : Nat) (l : Level) (hg : getLevel h u i = .ok l) :
    l.forward = B.find? (above h i) ∧ (l.forward ≠ none → l.span = (B.findIdx (above h i) : Int) + 1) := by
  induction A with
  | nil => exact hl.1 i l hg
  | cons a A ih => exact ih hl.2

theorem above_mono (h : List Node) (i j x : Nat) (hij : j ≤ i) (hx : above h i x = true) : above h j x = true := by
  simp [above] at *
  omega

theorem heap_of_above (h : List Node) (i x : Nat) (hx : above h i x = true) : ∃ nd, h[x]? = some nd := by
  simp [above, height] at hx
  cases hn : h[x]? with
  | none => simp [hn] at hx
  | some nd => exact ⟨nd, rfl⟩

/-! ### the inner loop -/

theorem walk_none (h : List Node) (i : Nat) (cond : Node → Int → Bool) (fuel x : Nat) (acc : Int) (lv : Level)
    (hlv : getLevel h x i = .ok lv) (hf : lv.forward = none) :
    walk h i cond (fuel + 1) x acc = .ok (x, acc) := by
  simp [walk, hlv, hf, bind, Except.bind, pure, Except.pure]

theorem walk_some (h : List Node) (i : Nat) (cond : Node → Int → Bool) (fuel x : Nat) (acc : Int) (lv : Level)
    (f : Nat) (fn : Node) (hlv : getLevel h x i = .ok lv) (hf : lv.forward = some f) (hfn : getNode h f = .ok fn) :
    walk h i cond (fuel + 1) x acc =
      if cond fn (acc + lv.span) then walk h i cond fuel f (acc + lv.span) else .ok (x, acc) := by
  simp [walk, hlv, hf, hfn, bind, Except.bind, pure, Except.pure]

theorem walk_gen (h : List Node) (L : List Nat) (hl : Linked h L) (cond : Node → Int → Bool) (k : Nat)
    (hcond : ∀ (q n : Nat) (nd : Node), L[q]? = some n → h[n]? = some nd → 1 ≤ q → cond nd (q : Int) = decide (q ≤ k))
    (i : Nat) (fuel : Nat) : ∀ (A : List Nat) (u : Nat) (B : List Nat), L = A ++ u :: B → above h i u = true →
      A.length ≤ k → B.length + 1 ≤ fuel →
      ∃ A' u' B', L.take (k + 1) = A' ++ u' :: B' ∧ above h i u' = true ∧ (∀ y ∈ B', above h i y = false) ∧
        A.length ≤ A'.length ∧ walk h i cond fuel u (A.length : Int) = .ok (u', (A'.length : Int)) := by
  induction fuel with
  | zero => intro A u B _ _ _ hf; omega
  | succ fuel ih =>
    intro A u B hsplit hu hA hfuel
    have hui : i < height h u := by simpa [above] using hu
    obtain ⟨lv, hlv⟩ := getLevel_of_lt h u i hui
    have hlk := linked_split h A u B (hsplit ▸ hl) i lv hlv
    have htake : L.take (k + 1) = A ++ u :: B.take (k - A.length) := by
      rw [hsplit]; exact take_split A u B k hA
    cases hfw : B.find? (above h i) with
    | none =>
      have hnone := List.find?_eq_none.1 hfw
      refine ⟨A, u, B.take (k - A.length), htake, hu, ?_, Nat.le_refl _, ?_⟩
      · intro y hy
        have := hnone y (List.mem_of_mem_take hy)
        simpa using this
      · have hf0 : lv.forward = none := by rw [hlk.1, hfw]
        exact walk_none h i cond fuel u _ lv hlv hf0
    | some f =>
      obtain ⟨hfa, B1, B2, hB, hB1⟩ := List.find?_eq_some_iff_append.1 hfw
      have hB1' : ∀ a ∈ B1, above h i a = false := by
        intro a ha; simpa using hB1 a ha
      have hf1 : lv.forward = some f := by rw [hlk.1, hfw]
      have hidx : B.findIdx (above h i) = B1.length := by
        rw [hB]; exact findIdx_split _ B1 f B2 hB1' hfa
      have hspan : lv.span = (B1.length : Int) + 1 := by
        have := hlk.2 (by rw [hf1]; simp)
        rw [this, hidx]
      obtain ⟨fn, hfn⟩ := heap_of_above h i f hfa
      have hgn : getNode h f = .ok fn := (getNode_ok_iff h f fn).2 hfn
      have hq : L[A.length + 1 + B1.length]? = some f := by
        rw [hsplit, hB]
        rw [List.getElem?_append_right (by omega)]
        have : A.length + 1 + B1.length - A.length = B1.length + 1 := by omega
        rw [this, List.getElem?_cons_succ, List.getElem?_append_right (Nat.le_refl _)]
        simp
      have hc := hcond (A.length + 1 + B1.length) f fn hq hfn (by omega)
      have hacc : (A.length : Int) + lv.span = ((A.length + 1 + B1.length : Nat) : Int) := by
        rw [hspan]; omega
      by_cases hle : A.length + 1 + B1.length ≤ k
      · have hsplit' : L = (A ++ u :: B1) ++ f :: B2 := by
          rw [hsplit, hB]; simp
        have hlen : (A ++ u :: B1).length = A.length + 1 + B1.length := by simp; omega
        have hB2 : B2.length + 1 ≤ fuel := by
          have : B.length = B1.length + (B2.length + 1) := by rw [hB]; simp
          omega
        obtain ⟨A', u', B', h1, h2, h3, h4, h5⟩ := ih (A ++ u :: B1) f B2 hsplit' hfa (by omega) hB2
        refine ⟨A', u', B', h1, h2, h3, by omega, ?_⟩
        rw [hlen] at h5
        rw [walk_some h i cond fuel u _ lv f fn hlv hf1 hgn, hacc, hc, h5]
        simp [hle]
      · refine ⟨A, u, B.take (k - A.length), htake, hu, ?_, Nat.le_refl _, ?_⟩
        · intro y hy
          rw [hB, List.take_append_of_le_length (by omega)] at hy
          exact hB1' y (List.mem_of_mem_take hy)
        · rw [walk_some h i cond fuel u _ lv f fn hlv hf1 hgn, hacc, hc]
          simp [hle]

theorem walk_spec_proof {sl : SL} {c : List Nat} (hc : IsChain sl c) (cond : Node → Int → Bool) (k : Nat)
    (hcond : CondUpTo sl c cond k) (i : Nat) (A : List Nat) (u : Nat) (B : List Nat)
    (hsplit : 0 :: c = A ++ u :: B) (hu : above sl.heap i u = true) (hA : A.length ≤ k)
    (fuel : Nat) (hfuel : B.length + 1 ≤ fuel) :
    ∃ A' u' B', (0 :: c).take (k + 1) = A' ++ u' :: B' ∧ above sl.heap i u' = true ∧
      (∀ y ∈ B', above sl.heap i y = false) ∧ A.length ≤ A'.length ∧
      walk sl.heap i cond fuel u (A.length : Int) = .ok (u', (A'.length : Int)) :=
  walk_gen sl.heap (0 :: c) hc.linked cond k hcond i fuel A u B hsplit hu hA hfuel

/-! ### the level loop -/

/-- the clause of `UpdateRankFor` for one level -/
def Clause (h : List Node) (P : List Nat) (update : List (Option Nat)) (rank : List Int) (i : Nat) : Prop :=
  ∃ A u B, P = A ++ u :: B ∧ above h i u = true ∧ (∀ y ∈ B, above h i y = false) ∧
    update[i]? = some (some u) ∧ rank[i]? = some (A.length : Int)

theorem search_succ (h : List Node) (cond : Node → Int → Bool) (i x : Nat) (acc : Int)
    (update : List (Option Nat)) (rank : List Int) (x' : Nat) (acc' : Int)
    (hw : walk h i cond (h.length + 1) x acc = .ok (x', acc')) (hu : i < update.length) (hr : i < rank.length) :
    search h cond (i + 1) x acc update rank = search h cond i x' acc' (update.set i (some x')) (rank.set i acc') := by
  simp [search, hw, setArr, hu, hr, bind, Except.bind, pure, Except.pure]

theorem search_gen (h : List Node) (L : List Nat) (hl : Linked h L) (hsize : L.length ≤ h.length)
    (cond : Node → Int → Bool) (k : Nat)
    (hcond : ∀ (q n : Nat) (nd : Node), L[q]? = some n → h[n]? = some nd → 1 ≤ q → cond nd (q : Int) = decide (q ≤ k))
    (level : Nat) (hlevel : level ≤ maxLevel) :
    ∀ (j x : Nat) (acc : Int) (update : List (Option Nat)) (rank : List Int) (A B : List Nat),
      j ≤ level → L = A ++ x :: B → acc = (A.length : Int) → A.length ≤ k →
      (∀ i, i < j → above h i x = true) →
      update.length = maxLevel → rank.length = maxLevel →
      (∀ i, j ≤ i → i < level → Clause h (L.take (k + 1)) update rank i) →
      (∀ i, level ≤ i → i < maxLevel → update[i]? = some none ∧ rank[i]? = some 0) →
      (j = 0 → ∃ A' B', L.take (k + 1) = A' ++ x :: B' ∧ acc = (A'.length : Int) ∧ ∀ y ∈ B', above h 0 y = false) →
      ∃ x' acc' update' rank', search h cond j x acc update rank = .ok (x', acc', update', rank') ∧
        update'.length = maxLevel ∧ rank'.length = maxLevel ∧
        (∀ i, i < level → Clause h (L.take (k + 1)) update' rank' i) ∧
        (∀ i, level ≤ i → i < maxLevel → update'[i]? = some none ∧ rank'[i]? = some 0) ∧
        (∃ A' B', L.take (k + 1) = A' ++ x' :: B' ∧ acc' = (A'.length : Int) ∧ ∀ y ∈ B', above h 0 y = false) := by
  intro j
  induction j with
  | zero =>
    intro x acc update rank A B _ _ _ _ _ hul hrl hcl hhi hq
    exact ⟨x, acc, update, rank, by simp [search, pure, Except.pure], hul, hrl,
      fun i hi => hcl i (Nat.zero_le _) hi, hhi, hq rfl⟩
  | succ i ih =>
    intro x acc update rank A B hj hsplit hacc hA habove hul hrl hcl hhi _
    have hLlen : L.length = A.length + (B.length + 1) := by rw [hsplit]; simp
    obtain ⟨A', u', B', h1, h2, h3, h4, h5⟩ :=
      walk_gen h L hl cond k hcond i (h.length + 1) A x B hsplit (habove i (Nat.lt_succ_self i)) hA (by omega)
    have hi16 : i < maxLevel := by omega
    rw [hacc, search_succ h cond i x _ update rank u' _ h5 (by omega) (by omega)]
    have hA' : A'.length ≤ k := by
      have := congrArg List.length h1
      simp [List.length_take] at this
      omega
    have hsplit' : L = A' ++ u' :: (B' ++ L.drop (k + 1)) := by
      have := (List.take_append_drop (k + 1) L).symm
      rw [h1] at this
      simpa using this
    apply ih u' _ _ _ A' (B' ++ L.drop (k + 1)) (by omega) hsplit' rfl hA'
    · intro i' hi'
      exact above_mono h i i' u' (by omega) h2
    · simpa using hul
    · simpa using hrl
    · intro i' h1' h2'
      by_cases hii : i' = i
      · subst hii
        exact ⟨A', u', B', h1, h2, h3, by simp [List.getElem?_set]; omega, by simp [List.getElem?_set]; omega⟩
      · obtain ⟨A2, u2, B2, e1, e2, e3, e4, e5⟩ := hcl i' (by omega) h2'
        refine ⟨A2, u2, B2, e1, e2, e3, ?_, ?_⟩
        · rw [List.getElem?_set, if_neg (by omega)]; exact e4
        · rw [List.getElem?_set, if_neg (by omega)]; exact e5
    · intro i' h1' h2'
      obtain ⟨e1, e2⟩ := hhi i' h1' h2'
      constructor
      · rw [List.getElem?_set, if_neg (by omega)]; exact e1
      · rw [List.getElem?_set, if_neg (by omega)]; exact e2
    · intro hi0
      subst hi0
      exact ⟨A', B', h1, rfl, h3⟩

theorem search_spec_proof {sl : SL} {c : List Nat} (hc : IsChain sl c) (cond : Node → Int → Bool) (k : Nat)
    (hcond : CondUpTo sl c cond k) :
    ∃ x acc update rank, search sl.heap cond sl.level 0 0 emptyUpdate emptyRank = .ok (x, acc, update, rank) ∧
      update.length = maxLevel ∧ rank.length = maxLevel ∧
      UpdateRankFor sl.heap sl.level ((0 :: c).take (k + 1)) update rank ∧
      (∀ i, sl.level ≤ i → i < maxLevel → update[i]? = some none ∧ rank[i]? = some 0) ∧
      ((0 :: c).take (k + 1)).getLast? = some x ∧ acc = ((min k c.length : Nat) : Int) := by
  have hall : ∀ y ∈ (0 :: c), above sl.heap 0 y = true := by
    intro y hy
    simp only [List.mem_cons] at hy
    rcases hy with rfl | hy
    · simp [above, hc.header, maxLevel]
    · have := hc.hpos y hy
      simp [above]; omega
  obtain ⟨x, acc, update, rank, h1, h2, h3, h4, h5, A', B', h6, h7, h8⟩ :=
    search_gen sl.heap (0 :: c) hc.linked (by simpa using hc.size) cond k hcond sl.level hc.levelHi
      sl.level 0 0 emptyUpdate emptyRank [] c (Nat.le_refl _) rfl rfl (Nat.zero_le _)
      (by intro i hi; have := hc.levelHi; simp [above, hc.header]; omega)
      (by simp [emptyUpdate]) (by simp [emptyRank])
      (by intro i h1 h2; omega)
      (by intro i _ hi; simp [emptyUpdate, emptyRank, hi])
      (by intro h0; have := hc.levelLo; omega)
  have hB' : B' = [] := by
    cases B' with
    | nil => rfl
    | cons y B'' =>
      have hy : y ∈ (0 :: c).take (k + 1) := by rw [h6]; simp
      have := hall y (List.mem_of_mem_take hy)
      rw [h8 y (by simp)] at this
      exact absurd this (by simp)
  subst hB'
  refine ⟨x, acc, update, rank, h1, h2, h3, h4, h5, by rw [h6]; simp, ?_⟩
  have := congrArg List.length h6
  simp [List.length_take] at this
  rw [h7]
  omega

/-! ### the level-0 chain and `abs` -/

theorem chainFrom_gen (h : List Node) (L : List Nat) (hl : Linked h L) (hall : ∀ y ∈ L, above h 0 y = true) :
    ∀ (B A : List Nat) (u fuel : Nat), L = A ++ u :: B → B.length + 1 ≤ fuel →
      chainFrom h fuel (some u) = u :: B := by
  intro B
  induction B with
  | nil =>
    intro A u fuel hsplit hfuel
    obtain ⟨fuel, rfl⟩ : ∃ f, fuel = f + 1 := ⟨fuel - 1, by omega⟩
    have hu : above h 0 u = true := hall u (by rw [hsplit]; simp)
    obtain ⟨lv, hlv⟩ := getLevel_of_lt h u 0 (by simpa [above] using hu)
    have hlk := linked_split h A u [] (hsplit ▸ hl) 0 lv hlv
    obtain ⟨nd, hn, hli⟩ := (getLevel_ok_iff h u 0 lv).1 hlv
    have hf : lv.forward = none := by simpa using hlk.1
    cases fuel <;> simp [chainFrom, hn, hli, hf]
  | cons b B ih =>
    intro A u fuel hsplit hfuel
    obtain ⟨fuel, rfl⟩ : ∃ f, fuel = f + 1 := ⟨fuel - 1, by simp at hfuel; omega⟩
    have hu : above h 0 u = true := hall u (by rw [hsplit]; simp)
    have hb : above h 0 b = true := hall b (by rw [hsplit]; simp)
    obtain ⟨lv, hlv⟩ := getLevel_of_lt h u 0 (by simpa [above] using hu)
    have hlk := linked_split h A u (b :: B) (hsplit ▸ hl) 0 lv hlv
    obtain ⟨nd, hn, hli⟩ := (getLevel_ok_iff h u 0 lv).1 hlv
    have hf : lv.forward = some b := by rw [hlk.1]; simp [hb]
    have := ih (A ++ [u]) b fuel (by rw [hsplit]; simp) (by simp at hfuel; omega)
    simp [chainFrom, hn, hli, hf, this]

theorem chain_eq_proof {sl : SL} {c : List Nat} (hc : IsChain sl c) : chain sl = c := by
  have hall : ∀ y ∈ (0 :: c), above sl.heap 0 y = true := by
    intro y hy
    simp only [List.mem_cons] at hy
    rcases hy with rfl | hy
    · simp [above, hc.header, maxLevel]
    · have := hc.hpos y hy
      simp [above]; omega
  have := chainFrom_gen sl.heap (0 :: c) hc.linked hall c [] 0 (sl.heap.length + 1) rfl (by have := hc.size; omega)
  simp [chain, this]

theorem filterMap_item (h : List Node) (c : List Nat) (hb : ∀ n ∈ c, n < h.length) :
    c.filterMap (fun n => (h[n]?).map Node.item) = c.map (itemAt h) := by
  induction c with
  | nil => rfl
  | cons n c ih =>
    have hn : n < h.length := hb n (by simp)
    have := ih (fun m hm => hb m (by simp [hm]))
    simp [itemAt, hn, this]

theorem abs_eq_proof {sl : SL} {c : List Nat} (hc : IsChain sl c) : abs sl = c.map (itemAt sl.heap) := by
  unfold abs
  rw [chain_eq_proof hc]
  exact filterMap_item sl.heap c hc.bound

end NodisVerif.Skiplist
