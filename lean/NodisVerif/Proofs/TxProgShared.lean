import NodisVerif.Proofs.TxProgGuard
/-
  Program model of tx.go: the shared part `SF` of the stronger invariant is kept by the thread's own step.
-/
namespace NodisVerif.Proofs.TxProg
open NodisVerif.Proto (Key Rec Mode Ev Hold TxSt PState assoc erase put Tx)
open NodisVerif.TxProg
open NodisVerif.Proofs.Proto

/-! ## `store.lookup` under the three kinds of map updates -/

def lk (idx pnd : List (Key × Rec)) (k : Key) : Option Rec :=
  match assoc idx k with
  | some r => some r
  | none => assoc pnd k

theorem lookup_lk (s : Shared) (k : Key) : s.lookup k = lk s.index s.pending k := by
  unfold Shared.lookup lk; cases assoc s.index k <;> rfl

theorem lk_none {idx pnd : List (Key × Rec)} {k : Key} (h : lk idx pnd k = none) :
    assoc idx k = none ∧ assoc pnd k = none := by
  unfold lk at h; cases hi : assoc idx k <;> simp_all

theorem lk_claim {idx pnd : List (Key × Rec)} {k : Key} (r : Rec) (h : lk idx pnd k = none) (k' : Key) :
    lk idx (put pnd k r) k' = if k' = k then some r else lk idx pnd k' := by
  obtain ⟨hi, _⟩ := lk_none h
  unfold lk
  rw [assoc_put]
  by_cases e : k' = k
  · subst e; simp [hi]
  · simp [e]

theorem lk_publish {idx pnd : List (Key × Rec)} {k : Key} {m : Rec} (hp : assoc pnd k = some m)
    (hi : assoc idx k = none) (k' : Key) : lk (put idx k m) (erase pnd k) k' = lk idx pnd k' := by
  unfold lk
  rw [assoc_put, assoc_erase]
  by_cases e : k' = k
  · subst e; simp [hi, hp]
  · simp [e]

theorem lk_unlink_ne {idx pnd : List (Key × Rec)} {k k' : Key} (e : k' ≠ k) :
    lk (erase idx k) pnd k' = lk idx pnd k' := by
  unfold lk; rw [assoc_erase]; simp [e]

theorem lk_unlink_self {idx pnd : List (Key × Rec)} {k : Key} : lk (erase idx k) pnd k = assoc pnd k := by
  unfold lk; rw [assoc_erase]; simp

theorem lookup_congr {s s' : Shared} (hi : s'.index = s.index) (hp : s'.pending = s.pending) (k : Key) :
    s'.lookup k = s.lookup k := by rw [lookup_lk, lookup_lk, hi, hp]

/-! ## where the helper continuations go -/

theorem pc_nextPlan (l : Loc) : (nextPlan l).pc = .idle ∨ (nextPlan l).pc = .a1 := by
  unfold nextPlan; split <;> simp
theorem pc_retTo (l : Loc) : (retTo l).pc = .idle ∨ (retTo l).pc = .a1 ∨ (retTo l).pc = .n1 := by
  unfold retTo; split
  · rcases pc_nextPlan l with h | h <;> simp [h]
  · simp
  · simp
theorem pc_commitNext (s : Shared) (l : Loc) : grow (commitNext s l).pc = false := by
  unfold commitNext; split; rfl; split; rfl; split <;> rfl
@[simp] theorem held_nextPlan (l : Loc) : (nextPlan l).held = l.held := by unfold nextPlan; split <;> rfl
@[simp] theorem held_retTo (l : Loc) : (retTo l).held = l.held := by
  unfold retTo; split; exact held_nextPlan l; rfl; rfl
@[simp] theorem key_retTo_n1 (l : Loc) : (retTo l).pc ≠ .d3 := by
  rcases pc_retTo l with h | h | h <;> simp [h]
theorem retTo_ne_a12 (l : Loc) : (retTo l).pc ≠ .a12 := by
  rcases pc_retTo l with h | h | h <;> simp [h]
theorem nextPlan_ne_a12 (l : Loc) : (nextPlan l).pc ≠ .a12 := by
  rcases pc_nextPlan l with h | h <;> simp [h]
theorem nextPlan_ne_d3 (l : Loc) : (nextPlan l).pc ≠ .d3 := by
  rcases pc_nextPlan l with h | h <;> simp [h]
theorem commitNext_ne_a12 (s : Shared) (l : Loc) : (commitNext s l).pc ≠ .a12 := by
  intro h; have := pc_commitNext s l; rw [h] at this; cases this
theorem commitNext_ne_d3 (s : Shared) (l : Loc) : (commitNext s l).pc ≠ .d3 := by
  intro h; have := pc_commitNext s l; rw [h] at this; cases this

/-! ## the stepping thread -/

section Self
variable {c : Cfg} {p : PState} {t : Tid} {ch : Choice} {s' : Shared} {l' : Loc} {e : Option Ev}

theorem sf_vreg_self (h : tstep c.sh t (c.loc t) ch = some (s', l', e)) :
    l'.pc = .a12 → l'.okcur = true → s'.lookup l'.key = some l'.m := by
  cases hpc : (c.loc t).pc <;> simp only [tstep, hpc] at h <;> (repeat' split at h) <;> simp at h <;>
    (try (obtain ⟨rfl, rfl, _⟩ := h)) <;>
    (try (intro hx; first
      | exact absurd hx (retTo_ne_a12 _) | exact absurd hx (nextPlan_ne_a12 _) | exact absurd hx (commitNext_ne_a12 _ _)
      | cases hx)) <;>
    simp_all

theorem sf_d3_self (hs : Sim c p) (h : tstep c.sh t (c.loc t) ch = some (s', l', e)) :
    l'.pc = .d3 → s'.lookup l'.key = none := by
  cases hpc : (c.loc t).pc <;> simp only [tstep, hpc] at h <;> (repeat' split at h) <;> simp at h <;>
    (try (obtain ⟨rfl, rfl, _⟩ := h)) <;>
    (try (intro hx; first
      | exact absurd hx (key_retTo_n1 _) | exact absurd hx (nextPlan_ne_d3 _) | exact absurd hx (commitNext_ne_d3 _ _)
      | cases hx))
  -- d2, the unlink branch
  rename_i _ r hidx _ _ _ _
  have hd := hs.inv.disjoint (c.loc t).key r (by rw [hs.idx]; exact hidx)
  rw [hs.pend] at hd
  rw [lookup_lk]
  show lk (erase c.sh.index (c.loc t).key) c.sh.pending (c.loc t).key = none
  rw [lk_unlink_self]; exact hd

end Self

/-- the registration property as a predicate of (shared state, local state) -/
def Reg (s : Shared) (l : Loc) : Prop :=
  grow l.pc = true → ∀ g ∈ l.held, (l.pc = .d3 → g.key ≠ l.key) → ∃ g' ∈ l.held, s.lookup g.key = some g'.rid

theorem reg_plain {s s' : Shared} {l l' : Loc} (hreg : Reg s l) (hi : s'.index = s.index)
    (hp : s'.pending = s.pending) (hh : l'.held = l.held) (hd : l.pc ≠ .d3)
    (hg : grow l'.pc = true → grow l.pc = true) : Reg s' l' := by
  intro hg' g hgm _
  rw [hh] at hgm ⊢
  obtain ⟨g', a, b⟩ := hreg (hg hg') g hgm (fun x => absurd x hd)
  exact ⟨g', a, by rw [lookup_congr hi hp]; exact b⟩

theorem reg_commit {s : Shared} {l : Loc} (h : grow l.pc = false) : Reg s l := by
  intro hg; rw [h] at hg; cases hg

macro "reg_p" hreg:ident hpc:ident : tactic =>
  `(tactic| exact reg_plain $hreg rfl rfl (by simp) (by simp [$hpc:ident]) (fun _ => by simp [$hpc:ident, grow]))
macro "reg_c" : tactic => `(tactic| exact reg_commit (by first | rfl | exact pc_commitNext _ _))

section Self2
variable {c : Cfg} {p : PState} {t : Tid} {ch : Choice} {s' : Shared} {l' : Loc} {e : Option Ev}

theorem sf_reg_self (hst : Strong c p) (h : tstep c.sh t (c.loc t) ch = some (s', l', e)) : Reg s' l' := by
  have hs := hst.sim
  have hreg : Reg c.sh (c.loc t) := (hst.sf t).reg
  cases hpc : (c.loc t).pc <;> simp only [tstep, hpc] at h
  case init =>
    split at h
    · split at h <;> cases h
      intro _ g hg; simp at hg
    · split at h <;> cases h
      reg_c
    · cases h
  case idle =>
    split at h
    · cases h
    · cases h
    · split at h <;> cases h; reg_p hreg hpc
    · split at h <;> cases h; reg_p hreg hpc
    · split at h <;> cases h; reg_p hreg hpc
    · cases h; reg_c
  case a1 => split at h <;> cases h; reg_p hreg hpc
  case a2 => cases h; reg_p hreg hpc
  case a3 =>
    split at h
    · split at h <;> cases h <;> reg_p hreg hpc
    · split at h
      · split at h <;> cases h <;> reg_p hreg hpc
      · cases h; reg_p hreg hpc
  case a4 => split at h <;> cases h; reg_p hreg hpc
  case a5 =>
    split at h
    · cases h; reg_p hreg hpc
    · rename_i hlk
      split at h <;> cases h
      rw [lookup_lk] at hlk
      intro _ g hg _
      simp only [List.mem_cons] at hg
      rcases hg with rfl | hg
      · refine ⟨_, List.mem_cons_self .., ?_⟩
        rw [lookup_lk]
        show lk c.sh.index (put c.sh.pending (c.loc t).key ch.fresh) (c.loc t).key = _
        rw [lk_claim _ hlk]; simp
      · obtain ⟨g', a, b⟩ := hreg (by simp [hpc, grow]) g hg (by simp [hpc])
        have hne : g.key ≠ (c.loc t).key := by
          intro x; rw [x, lookup_lk, hlk] at b; cases b
        refine ⟨g', List.mem_cons_of_mem _ a, ?_⟩
        rw [lookup_lk] at b ⊢
        show lk c.sh.index (put c.sh.pending (c.loc t).key ch.fresh) g.key = _
        rw [lk_claim _ hlk]; simp [hne, b]
  case a6r => cases h; reg_p hreg hpc
  case a6c => cases h; reg_p hreg hpc
  case a7 => cases h; reg_p hreg hpc
  case a8 => split at h <;> split at h <;> cases h <;> reg_p hreg hpc
  case a9 => cases h; reg_p hreg hpc
  case a10 => split at h <;> cases h; reg_p hreg hpc
  case a11 => cases h; reg_p hreg hpc
  case a12 =>
    split at h <;> cases h
    · reg_p hreg hpc
    · rename_i hcond
      have hok : (c.loc t).okcur = true := by
        revert hcond; cases (c.loc t).okcur <;> simp
      have hv := (hst.sf t).vreg hpc hok
      intro _ g hg _
      simp only [held_retTo, List.mem_cons] at hg ⊢
      rcases hg with rfl | hg
      · exact ⟨_, Or.inl rfl, hv⟩
      · obtain ⟨g', a, b⟩ := hreg (by simp [hpc, grow]) g hg (by simp [hpc])
        exact ⟨g', Or.inr a, b⟩
  case a13 => cases h; reg_p hreg hpc
  case a14 => cases h; reg_p hreg hpc
  case n1 => cases h; reg_p hreg hpc
  case n2 => split at h <;> cases h; reg_p hreg hpc
  case n3 =>
    split at h <;> cases h
    · rename_i hp
      have hp : assoc c.sh.pending (c.loc t).key = some (c.loc t).m := by simpa using hp
      have hidx : assoc c.sh.index (c.loc t).key = none := by
        cases hx : assoc c.sh.index (c.loc t).key with
        | none => rfl
        | some r' =>
          have := hs.inv.disjoint (c.loc t).key r' (by rw [hs.idx]; exact hx)
          rw [hs.pend, hp] at this; cases this
      intro _ g hg _
      obtain ⟨g', a, b⟩ := hreg (by simp [hpc, grow]) g hg (by simp [hpc])
      refine ⟨g', a, ?_⟩
      rw [lookup_lk] at b ⊢
      show lk (put c.sh.index (c.loc t).key (c.loc t).m) (erase c.sh.pending (c.loc t).key) g.key = _
      rw [lk_publish hp hidx]; exact b
    · reg_p hreg hpc
  case n4 => cases h; reg_p hreg hpc
  case d1 => split at h <;> cases h; reg_p hreg hpc
  case d2 =>
    split at h
    · cases h; reg_p hreg hpc
    · split at h <;> cases h
      intro _ g hg hne
      obtain ⟨g', a, b⟩ := hreg (by simp [hpc, grow]) g hg (by simp [hpc])
      refine ⟨g', a, ?_⟩
      rw [lookup_lk] at b ⊢
      show lk (erase c.sh.index (c.loc t).key) c.sh.pending g.key = _
      rw [lk_unlink_ne (hne rfl)]; exact b
  case d3 =>
    split at h <;> cases h
    have hlk := (hst.sf t).d3 hpc
    rw [lookup_lk] at hlk
    intro _ g hg _
    simp only [List.mem_cons] at hg
    by_cases hk : g.key = (c.loc t).key
    · refine ⟨_, List.mem_cons_self .., ?_⟩
      rw [lookup_lk]
      show lk c.sh.index (put c.sh.pending (c.loc t).key ch.fresh) g.key = _
      rw [lk_claim _ hlk]; simp [hk]
    · rcases hg with rfl | hg
      · exact absurd rfl hk
      · obtain ⟨g', a, b⟩ := hreg (by simp [hpc, grow]) g hg (fun _ => hk)
        refine ⟨g', List.mem_cons_of_mem _ a, ?_⟩
        rw [lookup_lk] at b ⊢
        show lk c.sh.index (put c.sh.pending (c.loc t).key ch.fresh) g.key = _
        rw [lk_claim _ hlk]; simp [hk, b]
  case d4 => cases h; reg_p hreg hpc
  case c0 => cases h; reg_c
  case c2 => cases h; reg_c
  case c3 => cases h; reg_c
  case c4 => cases h; reg_c
  case c5 => cases h; reg_c
  case c6 => split at h <;> cases h <;> reg_c
  case c7 => cases h; reg_c
  case c8 => split at h <;> cases h; reg_c
  case c9 => split at h <;> cases h <;> reg_c
  case c10 => cases h; reg_c
  case c11 => cases h; reg_c
  case c12 => cases h; reg_c
  case cend => cases h; reg_c
  case g1 => cases h; reg_c
  case g2 => split at h <;> cases h; reg_c
  case g3 => cases h; reg_c
  case g4 => split at h <;> cases h; reg_c
  case g5 => cases h; reg_c
  case g6 => (repeat' split at h) <;> cases h <;> reg_c
  case g7 => split at h <;> cases h; reg_c
  case g8 => cases h; reg_c
  case g9 => cases h; reg_c
  case g10 => cases h; reg_c
  case g11 => cases h; reg_c
  case g12 => cases h; reg_c
  case g13 => cases h; reg_c

end Self2

/-! ## gcRecord: the validated record stays the indexed one until the unlink -/

def g678 : Pc → Bool
  | .g6 | .g7 | .g8 => true
  | _ => false

theorem g678_retTo (l : Loc) : g678 (retTo l).pc = false := by
  rcases pc_retTo l with h | h | h <;> simp [h, g678]
theorem g678_nextPlan (l : Loc) : g678 (nextPlan l).pc = false := by
  rcases pc_nextPlan l with h | h <;> simp [h, g678]
theorem g678_commitNext (s : Shared) (l : Loc) : g678 (commitNext s l).pc = false := by
  unfold commitNext; split; rfl; split; rfl; split <;> rfl

theorem sf_gidx_self {c : Cfg} {t : Tid} {ch : Choice} {s' : Shared} {l' : Loc} {e : Option Ev}
    (hold : g678 (c.loc t).pc = true → (c.loc t).okcur = true → assoc c.sh.index (c.loc t).key = some (c.loc t).m)
    (h : tstep c.sh t (c.loc t) ch = some (s', l', e)) :
    g678 l'.pc = true → l'.okcur = true → assoc s'.index l'.key = some l'.m := by
  cases hpc : (c.loc t).pc <;> simp only [hpc, g678] at hold <;> simp only [tstep, hpc] at h <;>
    (repeat' split at h) <;> simp at h <;> (try (obtain ⟨rfl, rfl, _⟩ := h)) <;>
    simp only [g678_retTo, g678_nextPlan, g678_commitNext] <;> simp_all [g678]

end NodisVerif.Proofs.TxProg
