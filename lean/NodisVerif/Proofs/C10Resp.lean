import NodisVerif.Proofs.C10Factor
/-
  C10 helper lemmas, part 7: `Resp now f` — the command `f` gives the same reply on `Sim`-related
  states and leaves them related. Single-key commands through the two generic lemmas; multi-key
  commands (DEL, EXISTS, KEYS, RANDOMKEY, SETNX, RENAME, RENAMENX, set algebra, MSET, …) directly
  from the primitive lemmas.
-/
namespace NodisVerif.Proofs.C10
open NodisVerif Store
open NodisVerif.Proofs.AListLemmas NodisVerif.Proofs.AListLemmas2

/-- `f` respects the observational equivalence at instant `now` -/
def Resp {α : Type} (now : Int) (f : MState → MState × α) : Prop :=
  ∀ s s', Good now s s' → RSim now (f s) (f s')

theorem resp_read {now : Int} {k : Bytes} {f : MState → Api.R} {miss : Out} {g : Option Val → Int → Out}
    (h : ∀ s, f s = readCmd miss g s now k) : Resp now f := by
  intro s s' gd; rw [h s, h s']; exact readCmd_good gd miss g k

theorem resp_write {now : Int} {k : Bytes} {f : MState → Api.R} {mk : Option Val} {miss : Out}
    {body : Option Val → Int → Act} (h : ∀ s, f s = writeCmd mk miss body s now k) : Resp now f := by
  intro s s' gd; rw [h s, h s']; exact writeCmd_good gd mk miss body k

/-! ### single-key commands -/

section single
variable (now : Int) (k : Bytes)

theorem resp_get : Resp now (fun s => Api.get s now k) := resp_read (fun s => get_eq s now k)
theorem resp_getBit (off : Int) : Resp now (fun s => Api.getBit s now k off) :=
  resp_read (fun s => getBit_eq s now k off)
theorem resp_bitCount (a b : Int) (bit : Bool) : Resp now (fun s => Api.bitCount s now k a b bit) :=
  resp_read (fun s => bitCount_eq s now k a b bit)
theorem resp_getRange (a b : Int) : Resp now (fun s => Api.getRange s now k a b) :=
  resp_read (fun s => getRange_eq s now k a b)
theorem resp_strLen : Resp now (fun s => Api.strLen s now k) := resp_read (fun s => strLen_eq s now k)
theorem resp_type : Resp now (fun s => Api.type_ s now k) := resp_read (fun s => type_eq s now k)
theorem resp_ttl : Resp now (fun s => Api.ttl s now k) := resp_read (fun s => ttl_eq s now k)
theorem resp_pttl : Resp now (fun s => Api.pttl s now k) := resp_read (fun s => pttl_eq s now k)

theorem resp_set (v : Bytes) (keep : Bool) : Resp now (fun s => Api.set s now k v keep) :=
  resp_write (fun s => set_eq s now k v keep)
theorem resp_setOpt (v : DsStr.S) (keep : Bool) : Resp now (fun s => Api.setOpt s now k v keep) :=
  resp_write (fun s => setOpt_eq s now k v keep)
theorem resp_setXX (v : Bytes) (keep : Bool) : Resp now (fun s => Api.setXX s now k v keep) :=
  resp_write (fun s => setXX_eq s now k v keep)
theorem resp_setEX (v : Bytes) (sec : Int) : Resp now (fun s => Api.setEX s now k v sec) :=
  resp_write (fun s => setEX_eq s now k v sec)
theorem resp_setPX (v : Bytes) (ms : Int) : Resp now (fun s => Api.setPX s now k v ms) :=
  resp_write (fun s => setPX_eq s now k v ms)
theorem resp_addInt (d : Int) (neg sw : Bool) : Resp now (fun s => Api.addInt s now k d neg sw) :=
  resp_write (fun s => addInt_eq s now k d neg sw)
theorem resp_setBit (off : Int) (b : Bool) : Resp now (fun s => Api.setBit s now k off b) :=
  resp_write (fun s => setBit_eq s now k off b)
theorem resp_append (v : Bytes) : Resp now (fun s => Api.append s now k v) :=
  resp_write (fun s => append_eq s now k v)
theorem resp_setRange (off : Int) (v : Bytes) : Resp now (fun s => Api.setRange s now k off v) :=
  resp_write (fun s => setRange_eq s now k off v)

theorem resp_expireNX (sec : Int) : Resp now (fun s => Api.expireNX s now k sec) :=
  resp_write (fun s => expireNX_eq s now k sec)
theorem resp_expireXX (sec : Int) : Resp now (fun s => Api.expireXX s now k sec) :=
  resp_write (fun s => expireXX_eq s now k sec)
theorem resp_expireLT (sec : Int) : Resp now (fun s => Api.expireLT s now k sec) :=
  resp_write (fun s => expireLT_eq s now k sec)
theorem resp_expireGT (sec : Int) : Resp now (fun s => Api.expireGT s now k sec) :=
  resp_write (fun s => expireGT_eq s now k sec)
theorem resp_expireAt (ts : Int) : Resp now (fun s => Api.expireAt s now k ts) :=
  resp_write (fun s => expireAt_eq s now k ts)
theorem resp_expireAtNX (ts : Int) : Resp now (fun s => Api.expireAtNX s now k ts) :=
  resp_write (fun s => expireAtNX_eq s now k ts)
theorem resp_expireAtXX (ts : Int) : Resp now (fun s => Api.expireAtXX s now k ts) :=
  resp_write (fun s => expireAtXX_eq s now k ts)
theorem resp_expireAtLT (ts : Int) : Resp now (fun s => Api.expireAtLT s now k ts) :=
  resp_write (fun s => expireAtLT_eq s now k ts)
theorem resp_expireAtGT (ts : Int) : Resp now (fun s => Api.expireAtGT s now k ts) :=
  resp_write (fun s => expireAtGT_eq s now k ts)
theorem resp_persist : Resp now (fun s => Api.persist s now k) := resp_write (fun s => persist_eq s now k)

theorem resp_push (left : Bool) (vs : List Bytes) : Resp now (fun s => Api.push left s now k vs) :=
  resp_write (fun s => push_eq left s now k vs)
theorem resp_pop (left : Bool) (c : Int) : Resp now (fun s => Api.pop left s now k c) :=
  resp_write (fun s => pop_eq left s now k c)
theorem resp_llen : Resp now (fun s => Api.llen s now k) := resp_read (fun s => llen_eq s now k)
theorem resp_lindex (i : Int) : Resp now (fun s => Api.lindex s now k i) :=
  resp_read (fun s => lindex_eq s now k i)
theorem resp_lrange (a b : Int) : Resp now (fun s => Api.lrange s now k a b) :=
  resp_read (fun s => lrange_eq s now k a b)
theorem resp_linsert (p d : Bytes) (b : Bool) : Resp now (fun s => Api.linsert s now k p d b) :=
  resp_write (fun s => linsert_eq s now k p d b)
theorem resp_pushX (left : Bool) (d : Bytes) : Resp now (fun s => Api.pushX left s now k d) :=
  resp_write (fun s => pushX_eq left s now k d)
theorem resp_lrem (d : Bytes) (c : Int) : Resp now (fun s => Api.lrem s now k d c) :=
  resp_write (fun s => lrem_eq s now k d c)
theorem resp_lset (i : Int) (d : Bytes) : Resp now (fun s => Api.lset s now k i d) :=
  resp_write (fun s => lset_eq s now k i d)
theorem resp_ltrim (a b : Int) : Resp now (fun s => Api.ltrim s now k a b) :=
  resp_write (fun s => ltrim_eq s now k a b)

theorem resp_hset (f v : Bytes) : Resp now (fun s => Api.hset s now k f v) :=
  resp_write (fun s => hset_eq s now k f v)
theorem resp_hget (f : Bytes) : Resp now (fun s => Api.hget s now k f) :=
  resp_read (fun s => hget_eq s now k f)
theorem resp_hread (f : AList Bytes → Out) (d : Out) : Resp now (fun s => Api.hread f d s now k) :=
  resp_read (fun s => hread_eq f d s now k)
theorem resp_hdel (fs : List Bytes) : Resp now (fun s => Api.hdel s now k fs) :=
  resp_write (fun s => hdel_eq s now k fs)
theorem resp_hincrby (f : Bytes) (d : Int) : Resp now (fun s => Api.hincrby s now k f d) :=
  resp_write (fun s => hincrby_eq s now k f d)
theorem resp_hsetnx (f v : Bytes) : Resp now (fun s => Api.hsetnx s now k f v) :=
  resp_write (fun s => hsetnx_eq s now k f v)

theorem resp_sadd (ms : List Bytes) : Resp now (fun s => Api.sadd s now k ms) :=
  resp_write (fun s => sadd_eq s now k ms)
theorem resp_sread (f : AList Unit → Out) (d : Out) : Resp now (fun s => Api.sread f d s now k) :=
  resp_read (fun s => sread_eq f d s now k)
theorem resp_srem (ms : List Bytes) : Resp now (fun s => Api.srem s now k ms) :=
  resp_write (fun s => srem_eq s now k ms)

theorem resp_zaddWith (f : ZSet → Bytes → F64 → ZSet × Int) (m : Bytes) (sc : F64) :
    Resp now (fun s => Api.zaddWith f s now k m sc) := resp_write (fun s => zaddWith_eq f s now k m sc)
theorem resp_zaddCmp (f : ZSet → Bytes → F64 → ZSet × Bool) (m : Bytes) (sc : F64) :
    Resp now (fun s => Api.zaddCmp f s now k m sc) := resp_write (fun s => zaddCmp_eq f s now k m sc)
theorem resp_zaddXX (m : Bytes) (sc : F64) : Resp now (fun s => Api.zaddXX s now k m sc) :=
  resp_write (fun s => zaddXX_eq s now k m sc)
theorem resp_zread (f : ZSet → Out) (d : Out) : Resp now (fun s => Api.zread f d s now k) :=
  resp_read (fun s => zread_eq f d s now k)
theorem resp_zincrby (m : Bytes) (d : F64) : Resp now (fun s => Api.zincrby s now k m d) :=
  resp_write (fun s => zincrby_eq s now k m d)
theorem resp_zrem (ms : List Bytes) : Resp now (fun s => Api.zrem s now k ms) :=
  resp_write (fun s => zrem_eq s now k ms)
theorem resp_zremRangeByRank (a b : Int) : Resp now (fun s => Api.zremRangeByRank s now k a b) :=
  resp_write (fun s => zremRangeByRank_eq s now k a b)
theorem resp_zremRangeByScore (a b : F64) (mode : Int) :
    Resp now (fun s => Api.zremRangeByScore s now k a b mode) :=
  resp_write (fun s => zremRangeByScore_eq s now k a b mode)

end single

/-! ### folds over key lists: DEL, EXISTS -/

theorem foldl_good {β : Type} {now : Int} (f : MState × β → Bytes → MState × β)
    (hf : ∀ a a' key, a.2 = a'.2 → Good now a.1 a'.1 →
      (f a key).2 = (f a' key).2 ∧ Good now (f a key).1 (f a' key).1) :
    ∀ (keys : List Bytes) (a a' : MState × β), a.2 = a'.2 → Good now a.1 a'.1 →
      (keys.foldl f a).2 = (keys.foldl f a').2 ∧ Good now (keys.foldl f a).1 (keys.foldl f a').1 := by
  intro keys
  induction keys with
  | nil => intro a a' h g; exact ⟨h, g⟩
  | cons key rest ih =>
    intro a a' h g
    obtain ⟨h1, g1⟩ := hf a a' key h g
    exact ih _ _ h1 g1

theorem setSignalled_good {now : Int} {s s' : MState} (g : Good now s s') (l l' : List Bytes) (h : l = l') :
    Good now { s with signalled := l } { s' with signalled := l' } := by
  subst h
  refine ⟨g.1, g.2.1, ⟨fun k' => ?_, ?_⟩⟩
  · rw [vis_congr now (s := { s with signalled := l }) (s' := s) rfl rfl rfl,
      vis_congr now (s := { s' with signalled := l }) (s' := s') rfl rfl rfl, g.vis k']
  · have := g.2.2.frame
    simp only [frame, View.Frame.mk.injEq] at this ⊢
    obtain ⟨a, b, c, d, e, f, _, i⟩ := this
    exact ⟨a, b, c, d, e, f, trivial, i⟩

theorem resp_del (now : Int) (keys : List Bytes) : Resp now (fun s => Api.del s now keys) := by
  intro s s' g
  unfold Api.del
  have key := foldl_good (now := now) (β := Int)
    (fun (acc : MState × Int) key =>
      match writeKey acc.1 now key none with
      | (s, ok) =>
        if !ok then (s, acc.2) else
        (emit { delKey s key with signalled := key :: s.signalled } { typ := 2, key := key }, acc.2 + 1))
    (by
      intro a a' key h gd
      obtain ⟨⟨e, g1⟩, _⟩ := writeKey_good gd key none
      cases hw : writeKey a.1 now key none with
      | mk s1 ok =>
        cases hw' : writeKey a'.1 now key none with
        | mk s1' ok' =>
          rw [hw, hw'] at e g1
          simp only at e g1
          subst e
          cases ok with
          | false => exact ⟨h, g1⟩
          | true =>
            simp only [Bool.not_true, Bool.false_eq_true, if_false]
            refine ⟨by rw [h], ?_⟩
            apply emit_good
            exact setSignalled_good (delKey_good g1 key) _ _ (by rw [g1.signalled]))
    keys (s, 0) (s', 0) rfl g
  obtain ⟨h1, h2⟩ := key
  exact ⟨by simp only; rw [h1], h2⟩

theorem resp_exists (now : Int) (keys : List Bytes) : Resp now (fun s => Api.exists_ s now keys) := by
  intro s s' g
  unfold Api.exists_
  have key := foldl_good (now := now) (β := Int)
    (fun (acc : MState × Int) key =>
      match readKey acc.1 now key with
      | (s, ok) => (s, if ok then acc.2 + 1 else acc.2))
    (by
      intro a a' key h gd
      obtain ⟨⟨e, g1⟩, _⟩ := readKey_good gd key
      cases hw : readKey a.1 now key with
      | mk s1 ok =>
        cases hw' : readKey a'.1 now key with
        | mk s1' ok' =>
          rw [hw, hw'] at e g1
          simp only at e g1
          subst e
          exact ⟨by simp only; rw [h], g1⟩)
    keys (s, 0) (s', 0) rfl g
  obtain ⟨h1, h2⟩ := key
  exact ⟨by simp only; rw [h1], h2⟩

theorem resp_expire (now : Int) (k : Bytes) (sec : Int) : Resp now (fun s => Api.expire s now k sec) := by
  intro s s' g
  simp only [expire_eq]
  split
  · exact resp_del now [k] s s' g
  · exact writeCmd_good g _ _ _ k

theorem resp_expirePX (now : Int) (k : Bytes) (ms : Int) : Resp now (fun s => Api.expirePX s now k ms) := by
  intro s s' g
  simp only [expirePX_eq]
  split
  · exact resp_del now [k] s s' g
  · exact writeCmd_good g _ _ _ k

/-! ### KEYS, RANDOMKEY: the unexpired names, in index order -/

theorem visible_iff (now : Int) (s : MState) (k : Bytes) :
    (vis now s k).isSome = ((AList.get? s.index k).filter fun m => !m.expired now).isSome := by
  unfold vis getMeta
  cases (AList.get? s.index k).filter fun m => !m.expired now <;> rfl

theorem keys_good {now : Int} {s s' : MState} (g : Good now s s') (pat : Bytes) :
    (s.index.filter fun (p : Bytes × Meta) => Glob.matched pat p.1 && !p.2.expired now).map (·.1) =
    (s'.index.filter fun (p : Bytes × Meta) => Glob.matched pat p.1 && !p.2.expired now).map (·.1) := by
  apply filter_keys_eq _ _ _ _ g.1 g.2.1
  intro k
  have h := congrArg Option.isSome (g.vis k)
  rw [visible_iff, visible_iff] at h
  cases hm : Glob.matched pat k with
  | false =>
    simp only [hm, Bool.false_and]
    cases AList.get? s.index k <;> cases AList.get? s'.index k <;> simp [Option.filter]
  | true =>
    simp only [hm, Bool.true_and]
    exact h

theorem resp_keys (now : Int) (pat : Bytes) : Resp now (fun s => Api.keys s now pat) := by
  intro s s' g
  unfold Api.keys
  have h := keys_good g pat
  exact ⟨by simp only; rw [h], g⟩

theorem liveKeys_good {now : Int} {s s' : MState} (g : Good now s s') :
    Api.liveKeys s now = Api.liveKeys s' now := by
  unfold Api.liveKeys
  apply filter_keys_eq _ _ _ _ g.1 g.2.1
  intro k
  have h := congrArg Option.isSome (g.vis k)
  rw [visible_iff, visible_iff] at h
  exact h

theorem resp_randomKey (now : Int) (choice : Option Bytes) : Resp now (fun s => Api.randomKey s now choice) := by
  intro s s' g
  unfold Api.randomKey
  simp only [liveKeys_good g]
  cases choice <;> exact ⟨rfl, g⟩

/-! ### SETNX -/

theorem hot_newKeyWith (now : Int) (s : MState) (k : Bytes) (old : Option Meta) (v : Val) :
    Hot now (newKeyWith s k old v) k :=
  ⟨freshRec s.nextId v, by rw [vis_newKeyWith, if_pos rfl], rfl⟩

theorem hot_setExp_zero {now : Int} {s : MState} {k : Bytes} (h : Hot now s k) : Hot now (Api.setExp s k 0) k := by
  obtain ⟨r, hr, hot⟩ := h
  refine ⟨{ r with exp := 0 }, ?_, hot⟩
  rw [vis_setExp now s k k 0 r hr hot, if_pos rfl, if_neg (by simp)]

theorem Hot.visible {now : Int} {s : MState} {k : Bytes} (h : Hot now s k) : (vis now s k).isSome = true := by
  obtain ⟨r, hr, _⟩ := h; rw [hr]; rfl

theorem resp_setNX (now : Int) (k value : Bytes) (keep : Bool) :
    Resp now (fun s => Api.setNX s now k value keep) := by
  intro s s' g
  show RSim now (Api.setNX s now k value keep) (Api.setNX s' now k value keep)
  unfold Api.setNX
  obtain ⟨⟨e, g1⟩, _⟩ := writeKey_good g k none
  cases hw : writeKey s now k none with
  | mk s1 ok =>
    cases hw' : writeKey s' now k none with
    | mk s1' ok' =>
      rw [hw, hw'] at e g1
      simp only at e g1
      subst e
      cases ok with
      | true => exact ⟨rfl, g1⟩
      | false =>
        simp only [Bool.false_eq_true, if_false]
        refine ⟨rfl, ?_⟩
        apply emit_good
        apply signal_good
        have g2 := newKeyWith_good g1 k none none (.str [])
        have h2 := hot_newKeyWith now s1 k none (.str [])
        cases keep with
        | true => exact setVal_good g2 k _ h2.visible
        | false => exact setVal_good (setExp_good g2 k 0 h2) k _ (hot_setExp_zero h2).visible

/-! ### GETSET (missing key: created as in SETNX; present key: a `writeCmd`) -/

theorem resp_getSet (now : Int) (k v : Bytes) : Resp now (fun s => Api.getSet s now k v) := by
  intro s s' g
  show RSim now (Api.getSet s now k v) (Api.getSet s' now k v)
  rw [getSet_eq, getSet_eq]
  obtain ⟨⟨e, g1⟩, _⟩ := writeKey_good g k none
  rw [← e]
  cases hok : (writeKey s now k none).2 with
  | true =>
    simp only [Bool.not_true, Bool.false_eq_true, if_false]
    exact writeCmd_good g _ _ _ k
  | false =>
    simp only [Bool.not_false, if_true]
    refine ⟨rfl, ?_⟩
    unfold getSetNew
    simp only
    apply emit_good
    apply signal_good
    have g2 := newKeyWith_good g1 k none none (.str [])
    have h2 := hot_newKeyWith now (writeKey s now k none).1 k none (.str [])
    have g3 := setVal_good g2 k (.str v) h2.visible
    exact setExp_good g3 k 0 (setVal_hot k (.str v) h2.visible)

/-! ### RENAME, RENAMENX -/

theorem hot_meta_agree {now : Int} {s s' : MState} {k : Bytes} {m m' : Meta} (g : Good now s s')
    (h : Hot now s k) (hm : getMeta s k = some m) (hm' : getMeta s' k = some m') :
    m.exp = m'.exp ∧ m.value = m'.value ∧ m.oid = m'.oid ∧ m.expired now = false ∧ m.value.isSome = true := by
  obtain ⟨r, hr, hot⟩ := h
  have hr' : vis now s' k = some r := by rw [← g.vis k]; exact hr
  obtain ⟨m1, h1, e1, r1⟩ := vis_some_getMeta hr
  obtain ⟨m2, h2, _, r2⟩ := vis_some_getMeta hr'
  rw [hm] at h1; cases h1
  rw [hm'] at h2; cases h2
  have e : recOf s k m = recOf s' k m' := by rw [← r1, ← r2]
  simp only [recOf, View.Rec.mk.injEq] at e
  refine ⟨e.1, e.2.1, e.2.2.2.2.2.2.2, e1, ?_⟩
  rw [r1] at hot; exact hot

theorem recOf_hot (s s' : MState) (k : Bytes) (m : Meta) (h : m.value.isSome = true) :
    recOf s k m = recOf s' k m := by
  simp only [recOf, h, if_true]

/-- publish a hot record under `k`, dropping the backend entry of whatever was indexed there -/
theorem replaceHot_good {now : Int} {s s' : MState} (g : Good now s s') (k : Bytes) (M : Meta)
    (h : M.value.isSome = true) :
    Good now (putMeta (match getMeta s k with | some dead => unpersist s k dead | none => s) k M)
      (putMeta (match getMeta s' k with | some dead => unpersist s' k dead | none => s') k M) := by
  have aux : ∀ (t : MState), AList.Sorted t.index →
      AList.Sorted (putMeta (match getMeta t k with | some dead => unpersist t k dead | none => t) k M).index ∧
      (∀ k', vis now (putMeta (match getMeta t k with | some dead => unpersist t k dead | none => t) k M) k' =
        if k = k' then (if M.expired now then none else some (recOf t k M)) else vis now t k') ∧
      frame (putMeta (match getMeta t k with | some dead => unpersist t k dead | none => t) k M) = frame t := by
    intro t ht
    cases hg : getMeta t k with
    | none =>
      simp only
      exact ⟨sorted_putMeta t k M ht, fun k' => vis_putMeta now t k k' M, rfl⟩
    | some dead =>
      simp only
      refine ⟨sorted_putMeta _ k M (by rw [unpersist_index]; exact ht), fun k' => ?_, unpersist_frame t k dead⟩
      rw [vis_putMeta]
      by_cases hk : k = k'
      · simp only [hk, if_true]; rw [recOf_hot _ t k' M h]
      · simp only [hk, if_false]; exact vis_unpersist_other now t k k' dead hk
  obtain ⟨a1, a2, a3⟩ := aux s g.1
  obtain ⟨b1, b2, b3⟩ := aux s' g.2.1
  refine ⟨a1, b1, ⟨fun k' => ?_, by rw [a3, b3]; exact g.2.2.frame⟩⟩
  rw [a2, b2, g.vis k', recOf_hot s s' k M h]

theorem setNextId_good {now : Int} {s s' : MState} (g : Good now s s') (n : Nat) :
    Good now { s with nextId := n } { s' with nextId := n } := by
  refine ⟨g.1, g.2.1, ⟨fun k' => ?_, ?_⟩⟩
  · rw [vis_congr now (s := { s with nextId := n }) (s' := s) rfl rfl rfl,
      vis_congr now (s := { s' with nextId := n }) (s' := s') rfl rfl rfl, g.vis k']
  · have := g.2.2.frame
    simp only [frame, View.Frame.mk.injEq] at this ⊢
    obtain ⟨a, _, c, d, e, f, h, i⟩ := this
    exact ⟨a, trivial, c, d, e, f, h, i⟩

theorem modMeta_good {now : Int} {s s' : MState} (g : Good now s s') (k : Bytes) (f : Meta → Meta)
    (gr : View.Rec → View.Rec) (hexp : ∀ m, (f m).expired now = m.expired now)
    (hrec : ∀ t m, recOf t k (f m) = gr (recOf t k m)) :
    Good now (modMeta s k f) (modMeta s' k f) := by
  refine ⟨sorted_modMeta s k f g.1, sorted_modMeta s' k f g.2.1, ⟨fun k' => ?_, ?_⟩⟩
  · rw [vis_modMeta now s k k' f gr hexp (hrec s), vis_modMeta now s' k k' f gr hexp (hrec s'), g.vis k, g.vis k']
  · rw [modMeta_frame, modMeta_frame]; exact g.2.2.frame

/-- `dstMeta.setValue(meta.value)` with the source's value object -/
def adoptRec (oid : Nat) (v : Val) (r : View.Rec) : View.Rec :=
  { r with value := some v, load := none, oid := oid, vtype := v.typeCode, ok := true }

theorem recOf_adopt (t : MState) (k : Bytes) (oid : Nat) (v : Val) (d : Meta) :
    recOf t k (({ d with oid := oid } : Meta).setValue v) = adoptRec oid v (recOf t k d) := by
  simp only [recOf, adoptRec, Meta.setValue, Meta.isOk, Option.isSome_some, if_true]
  congr 1
  · split <;> simp <;> omega
  · split
    · rfl
    · simp; omega

theorem set_set {V : Type} (k : Bytes) (a b : V) : ∀ (l : AList V),
    AList.set (AList.set l k a) k b = AList.set l k b := by
  intro l
  induction l with
  | nil => simp [AList.set]
  | cons x rest ih =>
    obtain ⟨kx, vx⟩ := x
    by_cases h1 : kx = k
    · simp [AList.set, h1]
    · by_cases h2 : Bytes.lt k kx = true
      · simp [AList.set, h1, h2]
      · simp [AList.set, h1, h2, ih]

theorem modMeta_putMeta (s : MState) (k : Bytes) (M : Meta) (f : Meta → Meta) :
    modMeta (putMeta s k M) k f = putMeta s k (f M) := by
  unfold modMeta
  rw [getMeta_putMeta, if_pos rfl]
  simp only [putMeta, set_set]

theorem hot_of_vis {now : Int} {s : MState} {k : Bytes} {r : View.Rec} (h : vis now s k = some r)
    (hot : r.value.isSome = true) : Hot now s k := ⟨r, h, hot⟩

theorem hot_putMeta_hot (now : Int) (s : MState) (k : Bytes) (M : Meta) (hM : M.value.isSome = true)
    (he : M.expired now = false) : Hot now (putMeta s k M) k := by
  refine ⟨recOf s k M, ?_, by simp [recOf, hM]⟩
  rw [vis_putMeta, if_pos rfl, he]; rfl

theorem resp_rename (now : Int) (key dst : Bytes) : Resp now (fun s => Api.rename s now key dst) := by
  intro s s' g
  show RSim now (Api.rename s now key dst) (Api.rename s' now key dst)
  unfold Api.rename
  obtain ⟨⟨e, g1⟩, hot1⟩ := writeKey_good g key none
  cases hw : writeKey s now key none with
  | mk s1 ok =>
    cases hw' : writeKey s' now key none with
    | mk s1' ok' =>
      rw [hw, hw'] at e g1
      rw [hw] at hot1
      simp only at e g1 hot1
      subst e
      cases ok with
      | false => exact ⟨rfl, g1⟩
      | true =>
        simp only [Bool.not_true, Bool.false_eq_true, if_false]
        have h1 : Hot now s1 key := hot1 rfl
        have h1' : Hot now s1' key := h1.transfer g1
        obtain ⟨r, hr, _⟩ := h1
        obtain ⟨m, hm, _, _⟩ := vis_some_getMeta hr
        obtain ⟨r', hr', _⟩ := h1'
        obtain ⟨m', hm', _, _⟩ := vis_some_getMeta hr'
        obtain ⟨ee, ev, eo, hne, hsome⟩ := hot_meta_agree g1 (hot1 rfl) hm hm'
        rw [hm, hm']
        simp only
        by_cases hk : key = dst
        · simp only [hk, if_true]; exact ⟨rfl, g1⟩
        · simp only [hk, if_false]
          obtain ⟨⟨e2, g2⟩, hot2⟩ := writeKey_good g1 dst none
          cases hw2 : writeKey s1 now dst none with
          | mk s2 dok =>
            cases hw2' : writeKey s1' now dst none with
            | mk s2' dok' =>
              rw [hw2, hw2'] at e2 g2
              rw [hw2] at hot2
              simp only at e2 g2 hot2
              subst e2
              obtain ⟨v, hv⟩ := Option.isSome_iff_exists.mp hsome
              have hv' : m'.value = some v := by rw [← ev]; exact hv
              rw [hv, hv', ← ee, ← eo]
              simp only
              refine ⟨rfl, ?_⟩
              apply emit_good
              have g3 := delKey_good g2 key
              -- the destination record after `setValue`, in both worlds
              have step5 : ∃ t t', Good now t t' ∧ Hot now t dst ∧
                  t = modMeta (if !dok then
                        (match fresh (delKey s2 key) with
                         | (kid, s) => putMeta (match getMeta s dst with | some dead => unpersist s dst dead | none => s)
                             dst { exp := m.exp, value := none, kid := kid })
                      else delKey s2 key) dst (fun d => ({ d with oid := m.oid } : Meta).setValue v) ∧
                  t' = modMeta (if !dok then
                        (match fresh (delKey s2' key) with
                         | (kid, s) => putMeta (match getMeta s dst with | some dead => unpersist s dst dead | none => s)
                             dst { exp := m.exp, value := none, kid := kid })
                      else delKey s2' key) dst (fun d => ({ d with oid := m.oid } : Meta).setValue v) := by
                cases dok with
                | false =>
                  refine ⟨_, _, ?_, ?_, rfl, rfl⟩
                  · simp only [Bool.not_false, if_true, fresh, modMeta_putMeta]
                    rw [g3.nextId]
                    exact replaceHot_good (setNextId_good g3 _) dst _ rfl
                  · simp only [Bool.not_false, if_true, fresh, modMeta_putMeta]
                    exact hot_putMeta_hot now _ dst _ rfl hne
                | true =>
                  refine ⟨_, _, ?_, ?_, rfl, rfl⟩
                  · simp only [Bool.not_true, Bool.false_eq_true, if_false]
                    exact modMeta_good g3 dst _ (adoptRec m.oid v) (fun _ => rfl) (fun t d => recOf_adopt t dst m.oid v d)
                  · simp only [Bool.not_true, Bool.false_eq_true, if_false]
                    obtain ⟨rd, hrd, _⟩ := hot2 rfl
                    refine hot_of_vis (r := adoptRec m.oid v rd) ?_ rfl
                    rw [vis_modMeta now (delKey s2 key) dst dst
                      (fun d => ({ d with oid := m.oid } : Meta).setValue v) (adoptRec m.oid v) (fun _ => rfl)
                      (fun d => recOf_adopt _ dst m.oid v d), if_pos rfl, vis_delKey now s2 key dst g2.1, if_neg hk, hrd]
                    rfl
              obtain ⟨t, t', gt, ht, et, et'⟩ := step5
              have g6 := setExp_good gt dst m.exp ht
              have g7 := modMeta_good g6 dst Meta.markModified markModRec (fun _ => rfl)
                (fun t d => recOf_markModified t dst d)
              have g8 := setSignalled_good g7 (dst :: key :: (Api.setExp t dst m.exp).signalled)
                (dst :: key :: (Api.setExp t' dst m.exp).signalled) (by rw [g6.signalled])
              rw [et, et'] at g8
              exact g8

theorem resp_renameNX (now : Int) (key dst : Bytes) : Resp now (fun s => Api.renameNX s now key dst) := by
  intro s s' g
  show RSim now (Api.renameNX s now key dst) (Api.renameNX s' now key dst)
  unfold Api.renameNX
  obtain ⟨⟨e0, g0⟩, _⟩ := writeKey_good g dst none
  cases hw0 : writeKey s now dst none with
  | mk s0 dok =>
    cases hw0' : writeKey s' now dst none with
    | mk s0' dok' =>
      rw [hw0, hw0'] at e0 g0
      simp only at e0 g0
      subst e0
      cases dok with
      | true => exact ⟨rfl, g0⟩
      | false =>
        simp only [Bool.false_eq_true, if_false]
        obtain ⟨⟨e, g1⟩, hot1⟩ := writeKey_good g0 key none
        cases hw : writeKey s0 now key none with
        | mk s1 ok =>
          cases hw' : writeKey s0' now key none with
          | mk s1' ok' =>
            rw [hw, hw'] at e g1
            rw [hw] at hot1
            simp only at e g1 hot1
            subst e
            cases ok with
            | false => exact ⟨rfl, g1⟩
            | true =>
              simp only [Bool.not_true, Bool.false_eq_true, if_false]
              have h1 : Hot now s1 key := hot1 rfl
              have h1' : Hot now s1' key := h1.transfer g1
              obtain ⟨r, hr, _⟩ := h1
              obtain ⟨m, hm, _, _⟩ := vis_some_getMeta hr
              obtain ⟨r', hr', _⟩ := h1'
              obtain ⟨m', hm', _, _⟩ := vis_some_getMeta hr'
              obtain ⟨ee, ev, eo, hne, hsome⟩ := hot_meta_agree g1 (hot1 rfl) hm hm'
              rw [hm, hm']
              simp only
              obtain ⟨v, hv⟩ := Option.isSome_iff_exists.mp hsome
              have hv' : m'.value = some v := by rw [← ev]; exact hv
              rw [hv, hv', ← ee, ← eo]
              simp only [fresh]
              refine ⟨rfl, ?_⟩
              apply emit_good
              have g3 := delKey_good g1 key
              have g4 := replaceHot_good (setNextId_good g3 ((delKey s1 key).nextId + 1)) dst
                (({ exp := m.exp, value := none, kid := (delKey s1 key).nextId, oid := m.oid } : Meta).setValue v).markModified
                rfl
              rw [g3.nextId] at g4 ⊢
              exact setSignalled_good g4 _ _ (congrArg (fun l => dst :: key :: l) g4.signalled)

/-! ### set algebra: SDIFF, SINTER, SUNION -/

theorem valOf_good_vis {now : Int} {s s' : MState} (g : Good now s s') {k : Bytes}
    (h : (vis now s k).isSome = true) : valOf s k = valOf s' k := by
  obtain ⟨r, hr⟩ := Option.isSome_iff_exists.mp h
  have hr' : vis now s' k = some r := by rw [← g.vis k]; exact hr
  rw [valOf_of_vis hr, valOf_of_vis hr']

theorem asSet_good {now : Int} {s s' : MState} (g : Good now s s') {k : Bytes}
    (h : (vis now s k).isSome = true) : Api.asSet s k = Api.asSet s' k := by
  rw [asSet_eq, asSet_eq, valOf_good_vis g h]

theorem readKey_visible {now : Int} {s : MState} (hs : AList.Sorted s.index) (k k' : Bytes)
    (h : (vis now s k').isSome = true) : (vis now (readKey s now k).1 k').isSome = true := by
  obtain ⟨_, a2, _, _⟩ := readKey_spec s now k hs
  rw [a2]
  split
  · rename_i hk; subst hk
    split
    · cases hv : vis now s k with
      | none => rw [hv] at h; cases h
      | some r => rfl
    · exact h
  · exact h

/-- state facts carried along a sequence of reads -/
def Carries (now : Int) (k0 : Bytes) (s s' : MState) : Prop :=
  Good now s s' ∧ (vis now s k0).isSome = true

theorem readKey_carries {now : Int} {k0 : Bytes} {s s' : MState} (c : Carries now k0 s s') (k : Bytes) :
    (readKey s now k).2 = (readKey s' now k).2 ∧ Carries now k0 (readKey s now k).1 (readKey s' now k).1 ∧
    ((readKey s now k).2 = true → Api.asSet (readKey s now k).1 k = Api.asSet (readKey s' now k).1 k) := by
  obtain ⟨⟨e, g1⟩, hot⟩ := readKey_good c.1 k
  refine ⟨e, ⟨g1, readKey_visible c.1.1 k k0 c.2⟩, fun hok => asSet_good g1 (hot hok).visible⟩

theorem readMany_carries {now : Int} {k0 : Bytes} (keys : List Bytes) :
    ∀ {s s' : MState}, Carries now k0 s s' →
    (Api.readMany s now keys).2 = (Api.readMany s' now keys).2 ∧
    Carries now k0 (Api.readMany s now keys).1 (Api.readMany s' now keys).1 := by
  unfold Api.readMany
  suffices h : ∀ (keys : List Bytes) (a a' : MState × List (Option (Option (AList Unit)))),
      a.2 = a'.2 → Carries now k0 a.1 a'.1 →
      (keys.foldl (fun (acc : MState × List (Option (Option (AList Unit)))) k =>
          match readKey acc.1 now k with
          | (s, ok) => (s, acc.2 ++ [if ok then some (Api.asSet s k) else none])) a).2 =
      (keys.foldl (fun (acc : MState × List (Option (Option (AList Unit)))) k =>
          match readKey acc.1 now k with
          | (s, ok) => (s, acc.2 ++ [if ok then some (Api.asSet s k) else none])) a').2 ∧
      Carries now k0
        (keys.foldl (fun (acc : MState × List (Option (Option (AList Unit)))) k =>
          match readKey acc.1 now k with
          | (s, ok) => (s, acc.2 ++ [if ok then some (Api.asSet s k) else none])) a).1
        (keys.foldl (fun (acc : MState × List (Option (Option (AList Unit)))) k =>
          match readKey acc.1 now k with
          | (s, ok) => (s, acc.2 ++ [if ok then some (Api.asSet s k) else none])) a').1 by
    intro s s' c
    exact h keys (s, []) (s', []) rfl c
  intro keys
  induction keys with
  | nil => intro a a' h c; exact ⟨h, c⟩
  | cons k rest ih =>
    intro a a' h c
    simp only [List.foldl_cons]
    apply ih
    · obtain ⟨e, _, hs⟩ := readKey_carries c k
      cases hw : readKey a.1 now k with
      | mk s1 ok =>
        cases hw' : readKey a'.1 now k with
        | mk s1' ok' =>
          rw [hw, hw'] at e hs
          simp only at e hs ⊢
          subst e
          cases ok with
          | false => simp [h]
          | true => simp [h, hs rfl]
    · obtain ⟨_, c1, _⟩ := readKey_carries c k
      cases hw : readKey a.1 now k with
      | mk s1 ok =>
        cases hw' : readKey a'.1 now k with
        | mk s1' ok' =>
          rw [hw, hw'] at c1
          exact c1

theorem resp_sdiff (now : Int) (keys : List Bytes) : Resp now (fun s => Api.sdiff s now keys) := by
  intro s s' g
  show RSim now (Api.sdiff s now keys) (Api.sdiff s' now keys)
  unfold Api.sdiff
  cases keys with
  | nil => exact ⟨rfl, g⟩
  | cons k0 rest =>
    simp only
    obtain ⟨⟨e, g1⟩, hot⟩ := readKey_good g k0
    cases hw : readKey s now k0 with
    | mk s1 ok =>
      cases hw' : readKey s' now k0 with
      | mk s1' ok' =>
        rw [hw, hw'] at e g1
        rw [hw] at hot
        simp only at e g1 hot
        subst e
        cases ok with
        | false => exact ⟨rfl, g1⟩
        | true =>
          simp only [Bool.not_true, Bool.false_eq_true, if_false]
          have c : Carries now k0 s1 s1' := ⟨g1, (hot rfl).visible⟩
          obtain ⟨e2, c2⟩ := readMany_carries rest c
          cases hr : Api.readMany s1 now rest with
          | mk s2 others =>
            cases hr' : Api.readMany s1' now rest with
            | mk s2' others' =>
              rw [hr, hr'] at e2 c2
              simp only at e2 c2
              subst e2
              simp only
              rw [asSet_good c2.1 c2.2]
              cases Api.asSet s2' k0 with
              | none => exact ⟨rfl, c2.1⟩
              | some st =>
                simp only
                split
                · exact ⟨rfl, c2.1⟩
                · exact ⟨rfl, c2.1⟩

theorem resp_sunion (now : Int) (keys : List Bytes) : Resp now (fun s => Api.sunion s now keys) := by
  intro s s' g
  show RSim now (Api.sunion s now keys) (Api.sunion s' now keys)
  unfold Api.sunion
  split
  · exact ⟨rfl, g⟩
  · exact resp_sread now _ _ _ s s' g
  · -- `Carries` for an arbitrary visible key is not needed here: use the key list's own reads
    have aux : ∀ (keys : List Bytes) (a a' : MState × List (Option (Option (AList Unit)))),
        a.2 = a'.2 → Good now a.1 a'.1 →
        (keys.foldl (fun (acc : MState × List (Option (Option (AList Unit)))) k =>
            match readKey acc.1 now k with
            | (s, ok) => (s, acc.2 ++ [if ok then some (Api.asSet s k) else none])) a).2 =
        (keys.foldl (fun (acc : MState × List (Option (Option (AList Unit)))) k =>
            match readKey acc.1 now k with
            | (s, ok) => (s, acc.2 ++ [if ok then some (Api.asSet s k) else none])) a').2 ∧
        Good now
          (keys.foldl (fun (acc : MState × List (Option (Option (AList Unit)))) k =>
            match readKey acc.1 now k with
            | (s, ok) => (s, acc.2 ++ [if ok then some (Api.asSet s k) else none])) a).1
          (keys.foldl (fun (acc : MState × List (Option (Option (AList Unit)))) k =>
            match readKey acc.1 now k with
            | (s, ok) => (s, acc.2 ++ [if ok then some (Api.asSet s k) else none])) a').1 := by
      apply foldl_good
      intro a a' k h gd
      obtain ⟨⟨e, g1⟩, hot⟩ := readKey_good gd k
      cases hw : readKey a.1 now k with
      | mk s1 ok =>
        cases hw' : readKey a'.1 now k with
        | mk s1' ok' =>
          rw [hw, hw'] at e g1
          rw [hw] at hot
          simp only at e g1 hot ⊢
          subst e
          refine ⟨?_, g1⟩
          cases ok with
          | false => simp [h]
          | true => simp [h, asSet_good g1 (hot rfl).visible]
    obtain ⟨e2, g2⟩ := aux keys (s, []) (s', []) rfl g
    unfold Api.readMany
    cases hr : (keys.foldl (fun (acc : MState × List (Option (Option (AList Unit)))) k =>
            match readKey acc.1 now k with
            | (s, ok) => (s, acc.2 ++ [if ok then some (Api.asSet s k) else none])) (s, [])) with
    | mk s2 all =>
      cases hr' : (keys.foldl (fun (acc : MState × List (Option (Option (AList Unit)))) k =>
            match readKey acc.1 now k with
            | (s, ok) => (s, acc.2 ++ [if ok then some (Api.asSet s k) else none])) (s', [])) with
      | mk s2' all' =>
        rw [hr, hr'] at e2 g2
        simp only at e2 g2
        subst e2
        simp only
        split
        · exact ⟨rfl, g2⟩
        · split <;> exact ⟨rfl, g2⟩

theorem sinter_go_carries {now : Int} {k0 : Bytes} (ks : List Bytes) :
    ∀ {s s' : MState} (acc : List (AList Unit)), Carries now k0 s s' →
    (Api.sinter.go now ks s acc).2 = (Api.sinter.go now ks s' acc).2 ∧
    Carries now k0 (Api.sinter.go now ks s acc).1 (Api.sinter.go now ks s' acc).1 := by
  induction ks with
  | nil => intro s s' acc c; exact ⟨rfl, c⟩
  | cons k more ih =>
    intro s s' acc c
    obtain ⟨e, c1, hs⟩ := readKey_carries c k
    unfold Api.sinter.go
    cases hw : readKey s now k with
    | mk s1 ok =>
      cases hw' : readKey s' now k with
      | mk s1' ok' =>
        rw [hw, hw'] at e c1 hs
        simp only at e c1 hs ⊢
        subst e
        cases ok with
        | false => exact ⟨rfl, c1⟩
        | true =>
          simp only [Bool.not_true, Bool.false_eq_true, if_false]
          rw [hs rfl]
          cases Api.asSet s1' k with
          | none => exact ⟨rfl, c1⟩
          | some x => exact ih (acc ++ [x]) c1

theorem resp_sinter (now : Int) (keys : List Bytes) : Resp now (fun s => Api.sinter s now keys) := by
  intro s s' g
  show RSim now (Api.sinter s now keys) (Api.sinter s' now keys)
  unfold Api.sinter
  split
  · exact ⟨rfl, g⟩
  · exact resp_sread now _ _ _ s s' g
  · rename_i k0 rest _
    obtain ⟨⟨e, g1⟩, hot⟩ := readKey_good g k0
    cases hw : readKey s now k0 with
    | mk s1 ok =>
      cases hw' : readKey s' now k0 with
      | mk s1' ok' =>
        rw [hw, hw'] at e g1
        rw [hw] at hot
        simp only at e g1 hot
        subst e
        cases ok with
        | false => exact ⟨rfl, g1⟩
        | true =>
          simp only [Bool.not_true, Bool.false_eq_true, if_false]
          have c : Carries now k0 s1 s1' := ⟨g1, (hot rfl).visible⟩
          obtain ⟨e2, c2⟩ := sinter_go_carries rest [] c
          cases hr : Api.sinter.go now rest s1 [] with
          | mk s2 res =>
            cases hr' : Api.sinter.go now rest s1' [] with
            | mk s2' res' =>
              rw [hr, hr'] at e2 c2
              simp only at e2 c2
              subst e2
              cases res with
              | none => exact ⟨rfl, c2.1⟩
              | some o =>
                cases o with
                | none => exact ⟨rfl, c2.1⟩
                | some os =>
                  simp only
                  rw [asSet_good c2.1 c2.2]
                  cases Api.asSet s2' k0 <;> exact ⟨rfl, c2.1⟩

/-! ### MSET -/

theorem mset_go_good {now : Int} : ∀ (n : Nat) (pairs : List Bytes), pairs.length ≤ n →
    ∀ {s s' : MState}, Good now s s' → RSim now (Api.mset.go now pairs s) (Api.mset.go now pairs s') := by
  intro n
  induction n with
  | zero =>
    intro pairs hl s s' g
    cases pairs with
    | nil => unfold Api.mset.go; exact ⟨rfl, g⟩
    | cons _ _ => simp at hl
  | succ n ih =>
    intro pairs hl s s' g
    match pairs, hl with
    | [], _ => unfold Api.mset.go; exact ⟨rfl, g⟩
    | [_], _ => unfold Api.mset.go; exact ⟨rfl, g⟩
    | k :: v :: rest, hl =>
      unfold Api.mset.go
      have hset : RSim now (Api.set s now k v false) (Api.set s' now k v false) := resp_set now k v false s s' g
      obtain ⟨e, g1⟩ := hset
      cases hw : Api.set s now k v false with
      | mk s1 o =>
        cases hw' : Api.set s' now k v false with
        | mk s1' o' =>
          rw [hw, hw'] at e g1
          simp only at e g1
          subst e
          cases o <;> first
            | exact ⟨rfl, g1⟩
            | exact ih rest (by simp at hl; omega) (commit_good g1)

theorem resp_mset (now : Int) (pairs : List Bytes) : Resp now (fun s => Api.mset s now pairs) := by
  intro s s' g
  show RSim now (Api.mset s now pairs) (Api.mset s' now pairs)
  unfold Api.mset
  split
  · exact ⟨rfl, g⟩
  · exact mset_go_good pairs.length pairs (Nat.le_refl _) g

end NodisVerif.Proofs.C10
