import NodisVerif.Model.SkiplistZSet
import NodisVerif.Proofs.SkiplistRun
import NodisVerif.Proofs.C04Inv
/-
  The bridge: the pointer-level sorted set of Model/SkiplistZSet.lean (dictionary + skiplist heap, the statements of
  ds/zset/sorted_set.go) refines the list-level sorted set of Model/DsZSet.lean, on which the C04 theorems are stated.
-/
namespace NodisVerif.Skiplist
open NodisVerif.DsZSet (Item nodeLt)
open NodisVerif.Proofs.C04 (ILt)
open NodisVerif.Proofs.ZSetLemmas (Good)
open NodisVerif.Proofs

namespace PZ

/-- a member the dictionary does not know is on no chain node -/
theorem absent_of_get_none {z : ZSet} (hz : C04.Inv z) (m : Bytes) (hget : AList.get? z.dict m = none) :
    ∀ x ∈ z.sl, x.2 ≠ m := by
  intro a ha
  obtain ⟨s', m'⟩ := a
  exact (C04.get?_none_iff m z.dict).mp hget (m', s') ((hz.mem_iff s' m').mp ha)

/-- after `remove(member, old)` with the dictionary's score the member is on no chain node -/
theorem absent_after_remove {z : ZSet} (hz : C04.Inv z) (m : Bytes) (old : F64)
    (hget : AList.get? z.dict m = some old) : ∀ x ∈ DsZSet.slRemove z.sl m old, x.2 ≠ m := by
  have hold : (old, m) ∈ z.sl := (hz.get_iff old m).mp hget
  intro a ha e
  obtain ⟨s', m'⟩ := a
  simp only at e
  subst e
  have ha' := (C04.mem_slRemove m' old (s', m') z.sl hz.slPW hz.good hold).mp ha
  have := hz.member_unique s' old m' ha'.1 hold
  subst this
  exact ha'.2 rfl

end PZ

/-- the invariant of the pointer-level sorted set: the skiplist invariant plus the list-level sorted-set invariant of
    its abstraction -/
def PZInv (p : PZSet) : Prop := Inv p.sl ∧ C04.Inv p.toZSet

theorem toZSet_empty : PZSet.empty.toZSet = DsZSet.empty := by
  simp [PZSet.empty, PZSet.toZSet, abs_makeSkiplist, DsZSet.empty]

theorem pzInv_empty : PZInv PZSet.empty :=
  ⟨makeSkiplist_inv, by rw [toZSet_empty]; exact C04.inv_empty⟩

/-! ### `zAdd` -/

theorem pzAdd_refines {p : PZSet} (hp : Inv p.sl) (hz : C04.Inv p.toZSet) (m : Bytes) (s : F64) (lvl : Nat)
    (hl1 : 1 ≤ lvl) (hl2 : lvl ≤ maxLevel) (hs : F64.isNaN s = false) :
    ∃ p' r, pzAdd p m s lvl = .ok (p', r) ∧ Inv p'.sl ∧ (p'.toZSet, r) = DsZSet.zAdd p.toZSet m s := by
  unfold pzAdd DsZSet.zAdd
  have hd : p.toZSet.dict = p.dict := rfl
  have hsl : p.toZSet.sl = abs p.sl := rfl
  rw [hd]
  cases hget : AList.get? p.dict m with
  | none =>
    simp only
    have hnot := PZ.absent_of_get_none hz m (by rw [hd]; exact hget)
    obtain ⟨sl', he, hi, ha⟩ := insert_refines hp m s lvl hl1 hl2 hs hnot
    refine ⟨{ dict := AList.set p.dict m s, sl := sl' }, 1, ?_, hi, ?_⟩
    · simp [he, bind, Except.bind, pure, Except.pure]
    · simp [PZSet.toZSet, ha]
  | some old =>
    simp only
    by_cases heq : F64.eq s old = true
    · rw [if_pos heq, if_pos heq]
      exact ⟨p, 0, rfl, hp, rfl⟩
    · rw [if_neg heq, if_neg heq]
      obtain ⟨sl1, b, he1, hi1, ha1, _⟩ := remove_refines hp m old
      have hnot : ∀ x ∈ abs sl1, x.2 ≠ m := by
        rw [ha1]
        exact PZ.absent_after_remove hz m old (by rw [hd]; exact hget)
      obtain ⟨sl2, he2, hi2, ha2⟩ := insert_refines hi1 m s lvl hl1 hl2 hs hnot
      refine ⟨{ dict := AList.set p.dict m s, sl := sl2 }, 0, ?_, hi2, ?_⟩
      · simp [he1, he2, bind, Except.bind, pure, Except.pure]
      · simp [PZSet.toZSet, ha2, ha1]

/-- `zAdd` keeps the invariant of the pointer-level sorted set -/
theorem pzAdd_inv {p : PZSet} (h : PZInv p) (m : Bytes) (s : F64) (lvl : Nat)
    (hl1 : 1 ≤ lvl) (hl2 : lvl ≤ maxLevel) (hs : F64.isNaN s = false) :
    ∃ p' r, pzAdd p m s lvl = .ok (p', r) ∧ PZInv p' ∧ (p'.toZSet, r) = DsZSet.zAdd p.toZSet m s := by
  obtain ⟨p', r, he, hi, ha⟩ := pzAdd_refines h.1 h.2 m s lvl hl1 hl2 hs
  refine ⟨p', r, he, ⟨hi, ?_⟩, ha⟩
  have := C04.inv_zAdd h.2 m s hs
  rw [← ha] at this
  exact this

/-! ### `ZRem` -/

theorem pzRemOne_refines {acc : PZSet × Int} (h : PZInv acc.1) (m : Bytes) :
    ∃ acc', pzRemOne acc m = .ok acc' ∧ PZInv acc'.1 ∧ (acc'.1.toZSet, acc'.2) = C04.remStep (acc.1.toZSet, acc.2) m := by
  unfold pzRemOne C04.remStep
  have hd : acc.1.toZSet.dict = acc.1.dict := rfl
  simp only [hd]
  cases hget : AList.get? acc.1.dict m with
  | none => exact ⟨acc, rfl, h, rfl⟩
  | some sc =>
    simp only
    obtain ⟨sl1, b, he1, hi1, ha1, _⟩ := remove_refines h.1 m sc
    refine ⟨({ dict := AList.erase acc.1.dict m, sl := sl1 }, acc.2 + 1), ?_, ⟨hi1, ?_⟩, ?_⟩
    · simp [he1, bind, Except.bind, pure, Except.pure]
    · have := C04.inv_zRem_step h.2 m sc (by rw [hd]; exact hget)
      simpa [PZSet.toZSet, ha1] using this
    · simp [PZSet.toZSet, ha1]

theorem pzRemLoop_refines : ∀ (ms : List Bytes) {acc : PZSet × Int}, PZInv acc.1 →
    ∃ acc', pzRemLoop acc ms = .ok acc' ∧ PZInv acc'.1 ∧
      (acc'.1.toZSet, acc'.2) = ms.foldl C04.remStep (acc.1.toZSet, acc.2) := by
  intro ms
  induction ms with
  | nil => intro acc h; exact ⟨acc, rfl, h, rfl⟩
  | cons m ms ih =>
    intro acc h
    obtain ⟨acc1, he1, hi1, ha1⟩ := pzRemOne_refines h m
    obtain ⟨acc2, he2, hi2, ha2⟩ := ih hi1
    refine ⟨acc2, ?_, hi2, ?_⟩
    · simp [pzRemLoop, he1, bind, Except.bind, he2]
    · rw [ha2, ha1]; rfl

/-- `ZRem(members...)` -/
theorem pzRem_refines {p : PZSet} (h : PZInv p) (ms : List Bytes) :
    ∃ p' r, pzRem p ms = .ok (p', r) ∧ PZInv p' ∧ (p'.toZSet, r) = DsZSet.zRem p.toZSet ms := by
  obtain ⟨acc', he, hi, ha⟩ := pzRemLoop_refines ms (acc := (p, 0)) h
  exact ⟨acc'.1, acc'.2, he, hi, by rw [C04.zRem_eq]; exact ha⟩

/-! ### `ZRemRangeByScore`, `ZRemRangeByRank` -/

theorem pzRemRangeByScore_refines {p : PZSet} (h : PZInv p) (min max : F64) (mode : Nat) :
    ∃ p' r, pzRemRangeByScore p min max mode = .ok (p', r) ∧ PZInv p' ∧
      (p'.toZSet, r) = DsZSet.zRemRangeByScore p.toZSet min max mode := by
  obtain ⟨sl', rem, he, hi, ha⟩ := removeRange_refines_nolimit h.1 min max 0 (Int.le_refl 0) mode
  have heq : (({ dict := rem.foldl (fun d it => AList.erase d it.2) p.dict, sl := sl' } : PZSet).toZSet, (rem.length : Int))
      = DsZSet.zRemRangeByScore p.toZSet min max mode := by
    unfold DsZSet.zRemRangeByScore
    have hsl : p.toZSet.sl = abs p.sl := rfl
    rw [hsl, ← ha]
    rfl
  refine ⟨_, _, ?_, ⟨hi, ?_⟩, heq⟩
  · simp [pzRemRangeByScore, he, bind, Except.bind, pure, Except.pure]
  · have := C04.inv_zRemRangeByScore h.2 min max mode
    rw [← heq] at this
    exact this

/-- `ZRemRangeByRank` after its index normalisation (the pointer-level twin of `C04.remByRankCore`) -/
def PZ.remByRankCore (p : PZSet) (s e : Int) : M (PZSet × Int) :=
  if s > e ∨ s ≥ pzCard p then pure (p, 0) else do
  let (sl, removed) ← removeRangeByRank p.sl (s + 1) (e + 1)
  pure ({ dict := removed.foldl (fun d it => AList.erase d it.2) p.dict, sl := sl }, removed.length)

theorem PZ.pzRemRangeByRank_core (p : PZSet) (start stop : Int) :
    pzRemRangeByRank p start stop
      = PZ.remByRankCore p (C04.normStart (pzCard p) start) (C04.normStop (pzCard p) stop) := rfl

theorem PZ.remByRankCore_refines {p : PZSet} (hp : Inv p.sl) (s e : Int) :
    ∃ p' r, PZ.remByRankCore p s e = .ok (p', r) ∧ Inv p'.sl ∧ (p'.toZSet, r) = C04.remByRankCore p.toZSet s e := by
  have hcard : DsZSet.zCard p.toZSet = pzCard p := rfl
  have hsl : p.toZSet.sl = abs p.sl := rfl
  unfold PZ.remByRankCore C04.remByRankCore
  rw [hcard]
  by_cases hc : s > e ∨ s ≥ pzCard p
  · rw [if_pos hc, if_pos hc]
    exact ⟨p, 0, rfl, hp, rfl⟩
  · rw [if_neg hc, if_neg hc]
    obtain ⟨sl', rem, he, hi, ha⟩ := removeRangeByRank_refines hp (s + 1) (e + 1)
    refine ⟨{ dict := rem.foldl (fun d it => AList.erase d it.2) p.dict, sl := sl' }, rem.length, ?_, hi, ?_⟩
    · simp [he, bind, Except.bind, pure, Except.pure]
    · rw [hsl, ← ha]
      rfl

theorem pzRemRangeByRank_refines {p : PZSet} (h : PZInv p) (start stop : Int) :
    ∃ p' r, pzRemRangeByRank p start stop = .ok (p', r) ∧ PZInv p' ∧
      (p'.toZSet, r) = DsZSet.zRemRangeByRank p.toZSet start stop := by
  have hcard : DsZSet.zCard p.toZSet = pzCard p := rfl
  obtain ⟨p', r, he, hi, ha⟩ :=
    PZ.remByRankCore_refines h.1 (C04.normStart (pzCard p) start) (C04.normStop (pzCard p) stop)
  rw [← hcard, ← C04.zRemRangeByRank_core] at ha
  rw [← PZ.pzRemRangeByRank_core] at he
  refine ⟨p', r, he, ⟨hi, ?_⟩, ha⟩
  have := C04.inv_zRemRangeByRank h.2 start stop
  rw [← ha] at this
  exact this

/-! ### `getRank`, `ZRank`, `ZRevRank` -/

theorem pzGetRank_refines {p : PZSet} (h : PZInv p) (m : Bytes) (desc : Bool) :
    pzGetRank p m desc = .ok (DsZSet.getRank p.toZSet m desc) := by
  unfold pzGetRank DsZSet.getRank
  have hd : p.toZSet.dict = p.dict := rfl
  have hsl : p.toZSet.sl = abs p.sl := rfl
  rw [hd]
  cases hget : AList.get? p.dict m with
  | none => rfl
  | some sc =>
    simp only
    have hold : (sc, m) ∈ abs p.sl := (h.2.get_iff sc m).mp (by rw [hd]; exact hget)
    have hgood : F64.isNaN sc = false := h.2.good (sc, m) hold
    have hscore : ∀ x ∈ abs p.sl, x.2 = m → F64.eq x.1 sc = true := by
      intro x hx hxm
      obtain ⟨s', m'⟩ := x
      simp only at hxm
      subst hxm
      have := h.2.member_unique s' sc m' hx hold
      subst this
      simp [F64.eq, hgood]
    rw [getRank_spec_of_score h.1 m sc hscore, hsl, inv_length h.1]
    rfl

theorem pzRank_refines {p : PZSet} (h : PZInv p) (m : Bytes) :
    pzRank p m = .ok (DsZSet.zRank p.toZSet m) := by
  unfold pzRank DsZSet.zRank
  have hd : p.toZSet.dict = p.dict := rfl
  rw [hd]
  split
  · simp [pzGetRank_refines h, bind, Except.bind, pure, Except.pure]
  · rfl

theorem pzRevRank_refines {p : PZSet} (h : PZInv p) (m : Bytes) :
    pzRevRank p m = .ok (DsZSet.zRevRank p.toZSet m) := by
  unfold pzRevRank DsZSet.zRevRank
  have hd : p.toZSet.dict = p.dict := rfl
  rw [hd]
  split
  · simp [pzGetRank_refines h, bind, Except.bind, pure, Except.pure]
  · rfl

/-! ### runs -/

/-- the operations of the sorted set that touch the skiplist (four mutating ones, one query) -/
inductive PZOp
  | add (m : Bytes) (s : F64) (lvl : Nat)              -- `zAdd`; `lvl` = the level drawn by `randomLevel()`
  | rem (ms : List Bytes)                              -- `ZRem`
  | remRangeByScore (min max : F64) (mode : Nat)       -- `ZRemRangeByScore`
  | remRangeByRank (start stop : Int)                  -- `ZRemRangeByRank`
  | rank (m : Bytes) (desc : Bool)                     -- `getRank` (`ZRank` / `ZRevRank`); the state is unchanged

/-- one operation on the pointer structure, with its integer reply -/
def pzStep (p : PZSet) : PZOp → M (PZSet × Int)
  | .add m s lvl => pzAdd p m s lvl
  | .rem ms => pzRem p ms
  | .remRangeByScore a b mode => pzRemRangeByScore p a b mode
  | .remRangeByRank a b => pzRemRangeByRank p a b
  | .rank m desc => do
    let r ← pzGetRank p m desc
    pure (p, r)

/-- the same operation on the list-level model of Model/DsZSet.lean -/
def zStep (z : ZSet) : PZOp → ZSet × Int
  | .add m s _ => DsZSet.zAdd z m s
  | .rem ms => DsZSet.zRem z ms
  | .remRangeByScore a b mode => DsZSet.zRemRangeByScore z a b mode
  | .remRangeByRank a b => DsZSet.zRemRangeByRank z a b
  | .rank m desc => (z, DsZSet.getRank z m desc)

/-- a run on the pointer structure: final state and the replies in order -/
def pzRun : PZSet → List PZOp → M (PZSet × List Int)
  | p, [] => pure (p, [])
  | p, op :: ops => do
    let (p', r) ← pzStep p op
    let (p'', rs) ← pzRun p' ops
    pure (p'', r :: rs)

/-- the same run on the list-level model -/
def zRun : ZSet → List PZOp → ZSet × List Int
  | z, [] => (z, [])
  | z, op :: ops => ((zRun (zStep z op).1 ops).1, (zStep z op).2 :: (zRun (zStep z op).1 ops).2)

/-- what the callers guarantee: a level in 1..16 (what `randomLevel` returns) and no NaN score (the command layer
    rejects NaN before `ZAdd`) -/
def PZOpOk : PZOp → Prop
  | .add _ s lvl => 1 ≤ lvl ∧ lvl ≤ maxLevel ∧ F64.isNaN s = false
  | _ => True

theorem pzStep_refines {p : PZSet} (h : PZInv p) (op : PZOp) (hok : PZOpOk op) :
    ∃ p' r, pzStep p op = .ok (p', r) ∧ PZInv p' ∧ (p'.toZSet, r) = zStep p.toZSet op := by
  cases op with
  | add m s lvl =>
    obtain ⟨h1, h2, h3⟩ := hok
    exact pzAdd_inv h m s lvl h1 h2 h3
  | rem ms => exact pzRem_refines h ms
  | remRangeByScore a b mode => exact pzRemRangeByScore_refines h a b mode
  | remRangeByRank a b => exact pzRemRangeByRank_refines h a b
  | rank m desc =>
    refine ⟨p, DsZSet.getRank p.toZSet m desc, ?_, h, rfl⟩
    simp [pzStep, pzGetRank_refines h, bind, Except.bind, pure, Except.pure]

/-- from any state satisfying the invariant: no operation of the run panics or runs out of fuel, the final state
    satisfies the skiplist invariant and the sorted-set invariant, its list-level view and all the replies are those of
    the run of the `DsZSet` functions -/
theorem pz_run_from : ∀ (ops : List PZOp) {p : PZSet}, PZInv p → (∀ op ∈ ops, PZOpOk op) →
    ∃ p' rs, pzRun p ops = .ok (p', rs) ∧ PZInv p' ∧ (p'.toZSet, rs) = zRun p.toZSet ops := by
  intro ops
  induction ops with
  | nil => intro p h _; exact ⟨p, [], rfl, h, rfl⟩
  | cons op ops ih =>
    intro p h hok
    obtain ⟨p1, r, he1, hi1, ha1⟩ := pzStep_refines h op (hok op (by simp))
    obtain ⟨p2, rs, he2, hi2, ha2⟩ := ih hi1 (fun o ho => hok o (by simp [ho]))
    refine ⟨p2, r :: rs, ?_, hi2, ?_⟩
    · simp [pzRun, he1, he2, bind, Except.bind, pure, Except.pure]
    · have e1 : (zStep p.toZSet op).1 = p1.toZSet := by rw [← ha1]
      have e2 : (zStep p.toZSet op).2 = r := by rw [← ha1]
      simp only [zRun, e1, e2, ← ha2]

/-- from `NewSortedSet()`: any finite sequence of operations with NaN-free scores and levels in 1..16 -/
theorem pz_run (ops : List PZOp) (hok : ∀ op ∈ ops, PZOpOk op) :
    ∃ p rs, pzRun PZSet.empty ops = .ok (p, rs) ∧ Inv p.sl ∧ C04.Inv p.toZSet ∧
      (p.toZSet, rs) = zRun DsZSet.empty ops := by
  obtain ⟨p, rs, he, hi, ha⟩ := pz_run_from ops pzInv_empty hok
  rw [toZSet_empty] at ha
  exact ⟨p, rs, he, hi.1, hi.2, ha⟩

/-- every intermediate state of such a run (the state after the first `k` operations) -/
theorem pz_run_prefix (ops : List PZOp) (hok : ∀ op ∈ ops, PZOpOk op) (k : Nat) :
    ∃ p rs, pzRun PZSet.empty (ops.take k) = .ok (p, rs) ∧ Inv p.sl ∧ C04.Inv p.toZSet ∧
      (p.toZSet, rs) = zRun DsZSet.empty (ops.take k) :=
  pz_run (ops.take k) (fun op ho => hok op (List.mem_of_mem_take ho))

end NodisVerif.Skiplist
