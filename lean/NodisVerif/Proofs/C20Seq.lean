import NodisVerif.Proofs.C20Call
import NodisVerif.Proofs.C11Examples
/-
  C20: sequences of calls; later replica times; draining between calls (what the driver does after
  every call: locks released, feed handed over, value sharing of the in-memory backend restored).
-/
namespace NodisVerif.Proofs.C20
open NodisVerif NodisVerif.Store NodisVerif.Spec.Persist NodisVerif.Proofs.C11

/-! ### time -/

theorem view_later (s : MState) {now t' : Int} (ht : now ≤ t') (k : Bytes) (m : Meta) :
    view s t' k m = (view s now k m).bind (filt · t') := by
  unfold view
  by_cases hok : m.isOk = true
  · cases hnow : m.expired now with
    | true =>
      have := Meta.expired_mono m ht hnow
      simp [hok, this]
    | false =>
      simp only [hok, Bool.true_and, Bool.not_false, if_true]
      cases hv : m.value with
      | some v =>
        simp only [Option.bind_some, filt, Meta.expired]
        by_cases hc : (m.exp != 0 && decide (m.exp ≤ t')) = true <;> simp [hc]
      | none =>
        simp only
        cases loadValue s k m with
        | none => simp
        | some q =>
          simp only [Option.map_some, Option.bind_some, filt, Meta.expired]
          by_cases hc : (m.exp != 0 && decide (m.exp ≤ t')) = true <;> simp [hc]
  · simp [hok]

theorem lookup_later (s : MState) {now t' : Int} (ht : now ≤ t') (k : Bytes) :
    lookup s t' k = (lookup s now k).bind (filt · t') := by
  unfold lookup
  cases getMeta s k with
  | none => rfl
  | some m => simp only [Option.bind_some]; exact view_later s ht k m

/-- the same logical keyspace now is the same logical keyspace at any later time -/
theorem Same.mono {now t' : Int} {p r : MState} (h : Same now p r) (ht : now ≤ t') : Same t' p r := by
  refine Same.of_look (StoreInvX.mono h.invP ht) (StoreInvX.mono h.invR ht) (fun k => ?_) ?_
  · rw [lookup_later r ht, lookup_later p ht, h.look k]
  · intro k e hc
    rw [lookup_later p ht] at hc
    cases hL : lookup p now k with
    | none => rw [hL] at hc; cases hc
    | some cc =>
      rw [hL] at hc
      simp only [Option.bind_some] at hc
      have := filt_some hc
      subst this
      exact h.nonil k e hL

/-! ### draining -/

/-- what the driver does to a store after every call -/
def drain (s : MState) : MState :=
  Store.syncShared { s with held := [], feed := [], signalled := [], hung := false }

theorem drain_feed (s : MState) : (drain s).feed = [] ∧ (drain s).listeners = s.listeners := by
  unfold drain
  rw [syncShared_eq]
  split <;> exact ⟨rfl, rfl⟩

theorem drain_inv {s : MState} {t : Int} (h : StoreInv s t) : StoreInv (drain s) t :=
  inv_syncShared (h.congr (s' := { s with held := [], feed := [], signalled := [], hung := false }) rfl rfl rfl rfl)

theorem drain_lookup {s : MState} {t : Int} (h : StoreInv s t) (k : Bytes) : lookup (drain s) t k = lookup s t k := by
  unfold drain
  rw [lookup_syncShared
    (h.congr (s' := { s with held := [], feed := [], signalled := [], hung := false }) rfl rfl rfl rfl) (Int.le_refl t)]
  exact lookup_congr rfl rfl rfl _ _

theorem Same.drain {now : Int} {p r : MState} (h : Same now p r) : Same now (drain p) (drain r) := by
  refine Same.of_look (drain_inv h.invP) (drain_inv h.invR) (fun k => ?_) ?_
  · rw [drain_lookup h.invR, drain_lookup h.invP, h.look k]
  · intro k e; rw [drain_lookup h.invP]; exact h.nonil k e

/-! ### runs -/

/-- the primary runs the calls one after the other, each at its own time, drained in between;
    result: the final state and, per call, the records handed to the watchers with the call's time -/
def runCalls : List (Call × Int) → MState → MState × List (List FeedOp × Int)
  | [], s => (s, [])
  | (c, now) :: rest, s =>
    ((runCalls rest (drain (c.run s now).1)).1,
     (Feed.emission c.info (c.run s now).2 (c.run s now).1.feed.reverse, now) ::
       (runCalls rest (drain (c.run s now).1)).2)

/-- the replica applies the batches in order, each at the time of the call that produced it -/
def applyBatches (r : MState) : List (List FeedOp × Int) → Option MState
  | [] => some r
  | (ops, now) :: rest => (Feed.applyAll r now ops).bind fun r' => applyBatches (drain r') rest

/-- times do not run backwards; arguments are well-formed; no call falls into a finding region -/
def CallsOK : Int → List (Call × Int) → MState → Prop
  | _, [], _ => True
  | t, (c, now) :: rest, s =>
    t ≤ now ∧ c.WF ∧ ¬ c.Region (lookup s now) ∧ CallsOK now rest (drain (c.run s now).1)

def lastTime : Int → List (Call × Int) → Int
  | t, [] => t
  | _, (_, now) :: rest => lastTime now rest

theorem replay_sequence : ∀ (calls : List (Call × Int)) (t : Int) (p r : MState), Same t p r →
    p.listeners = true → p.feed = [] → CallsOK t calls p →
    ∃ r', applyBatches r (runCalls calls p).2 = some r' ∧ Same (lastTime t calls) (runCalls calls p).1 r' := by
  intro calls
  induction calls with
  | nil => intro t p r hs _ _ _; exact ⟨r, rfl, hs⟩
  | cons cn rest ih =>
    intro t p r hs hl hfd hok
    obtain ⟨c, now⟩ := cn
    obtain ⟨ht, hwf, hreg, hrest⟩ := hok
    obtain ⟨⟨r1, a1, s1⟩, hl1⟩ := call_main c hwf (hs.mono ht) hl hfd hreg
    have hd := drain_feed (c.run p now).1
    obtain ⟨r2, a2, s2⟩ := ih now (drain (c.run p now).1) (drain r1) s1.drain (hd.2.trans hl1) hd.1 hrest
    refine ⟨r2, ?_, s2⟩
    simp only [runCalls, applyBatches, a1, Option.bind_some]
    exact a2

/-- the empty store with a watcher attached -/
def emptyWatched (pebble : Bool) : MState := { pebble := pebble, listeners := true }

theorem same_empty (pebble pebble' : Bool) (t : Int) : Same t (emptyWatched pebble) (empty pebble') := by
  refine Same.of_look ((empty_inv pebble t).congr rfl rfl rfl rfl) (empty_inv pebble' t) (fun k => ?_) ?_
  · simp [lookup, getMeta, emptyWatched, empty, AList.get?]
  · intro k e; simp [lookup, getMeta, emptyWatched, AList.get?]

theorem replay_from_empty (pebble pebble' : Bool) (calls : List (Call × Int)) (t : Int)
    (hok : CallsOK t calls (emptyWatched pebble)) :
    ∃ r', applyBatches (empty pebble') (runCalls calls (emptyWatched pebble)).2 = some r' ∧
      Same (lastTime t calls) (runCalls calls (emptyWatched pebble)).1 r' :=
  replay_sequence calls t _ _ (same_empty pebble pebble' t) rfl rfl hok

end NodisVerif.Proofs.C20
