import NodisVerif.Proofs.SkiplistInv
import NodisVerif.Proofs.SkiplistSearch
import NodisVerif.Proofs.SkiplistRemoveNode
/-
  Interface lemmas shared by the skiplist proofs (statements; the proofs are in SkiplistSearch.lean / SkiplistRemoveNode.lean; this file is what the
  other skiplist proof files import).
-/
namespace NodisVerif.Skiplist
open NodisVerif.DsZSet (Item nodeLt)
open NodisVerif.Proofs.C04 (ILt)
open NodisVerif.Proofs.ZSetLemmas (Good)

/-- the fuel-bounded level-0 walk finds exactly the chain of the invariant -/
theorem chain_eq {sl : SL} {c : List Nat} (hc : IsChain sl c) : chain sl = c :=
  chain_eq_proof hc

theorem abs_eq {sl : SL} {c : List Nat} (hc : IsChain sl c) : abs sl = c.map (itemAt sl.heap) :=
  abs_eq_proof hc

/-- one inner loop: from a level-`i` node at position `|A| ≤ k` the walk ends on the last level-`i` node among the
    positions `0..k`, and the accumulator is that node's position -/
theorem walk_spec {sl : SL} {c : List Nat} (hc : IsChain sl c) (cond : Node → Int → Bool) (k : Nat)
    (hcond : CondUpTo sl c cond k) (i : Nat) (A : List Nat) (u : Nat) (B : List Nat)
    (hsplit : 0 :: c = A ++ u :: B) (hu : above sl.heap i u = true) (hA : A.length ≤ k)
    (fuel : Nat) (hfuel : B.length + 1 ≤ fuel) :
    ∃ A' u' B', (0 :: c).take (k + 1) = A' ++ u' :: B' ∧ above sl.heap i u' = true ∧
      (∀ y ∈ B', above sl.heap i y = false) ∧ A.length ≤ A'.length ∧
      walk sl.heap i cond fuel u (A.length : Int) = .ok (u', (A'.length : Int)) :=
  walk_spec_proof hc cond k hcond i A u B hsplit hu hA fuel hfuel

/-- the level loop with `update[]` / `rank[]` -/
theorem search_spec {sl : SL} {c : List Nat} (hc : IsChain sl c) (cond : Node → Int → Bool) (k : Nat)
    (hcond : CondUpTo sl c cond k) :
    ∃ x acc update rank, search sl.heap cond sl.level 0 0 emptyUpdate emptyRank = .ok (x, acc, update, rank) ∧
      update.length = maxLevel ∧ rank.length = maxLevel ∧
      UpdateRankFor sl.heap sl.level ((0 :: c).take (k + 1)) update rank ∧
      (∀ i, sl.level ≤ i → i < maxLevel → update[i]? = some none ∧ rank[i]? = some 0) ∧
      ((0 :: c).take (k + 1)).getLast? = some x ∧ acc = ((min k c.length : Nat) : Int) :=
  search_spec_proof hc cond k hcond

/-- `removeNode(n, update)` for a node `n` of the chain with a correct `update[]`: the node is unlinked, everything
    else is kept; nothing panics -/
theorem removeNode_spec {sl : SL} {c : List Nat} (hc : IsChain sl c) (A : List Nat) (n : Nat) (B : List Nat)
    (hsplit : c = A ++ n :: B) (update : List (Option Nat))
    (hupd : UpdateFor sl.heap sl.level (0 :: A) update) :
    ∃ sl', removeNode sl n update = .ok sl' ∧ IsChain sl' (A ++ B) ∧
      sl'.heap.length = sl.heap.length ∧ sl'.level ≤ sl.level ∧
      (∀ x, x ≠ n → itemAt sl'.heap x = itemAt sl.heap x) ∧
      (∀ x, height sl'.heap x = height sl.heap x) :=
  removeNode_spec_proof hc A n B hsplit update hupd

end NodisVerif.Skiplist
