import NodisVerif.Proofs.C16Step
/-
  C16 — wire-level side conditions of the round trip writer → bytes → strict RESP reader
  (`C16Parse.render_parse_roundtrip`, `pipeline_in_sync`): every token any handler of
  `Handler.table1` writes, and every token the connection layer writes itself, satisfies `arrOK`
  (array counts ≥ -1) and `lineOK` (no CR / LF inside a simple string).

  Part 1: handler level (`wire_<handler>`, `table1_wire`).
  Part 2: step level (`step_wire`, `run_wire`), for an arbitrary table satisfying `TableWire`.
-/
namespace NodisVerif.Proofs.C08Step
open NodisVerif NodisVerif.Resp Server
open NodisVerif.Proofs.C16Parse
open NodisVerif.Proofs.C15 (ofString_ascii)
open NodisVerif.Spec.RespReply (cleanLine)

/-! ## the predicate -/

/-- every token can be read back by a strict RESP reader: array counts ≥ -1, no CR/LF in simple strings -/
def WireOK (ts : List Tok) : Prop := ArrOK ts ∧ LinesOK ts

/-- the closure writes only such tokens, on ANY store, clock and choice, panicking or not -/
def WireBody (b : Body) : Prop := ∀ st now ch, WireOK (replyOf (b st now ch))

def WireRes : HRes → Prop
  | .direct ts => WireOK ts
  | .exec b => WireBody b
  | .crash => True

def TableWire (H : Table) : Prop := ∀ name args r, H name args = some r → WireRes r

instance (ts : List Tok) : Decidable (WireOK ts) := by unfold WireOK; infer_instance

/-- both side conditions of one token -/
def tokOK (t : Tok) : Bool := arrOK t && lineOK t

theorem wireOK_iff (ts : List Tok) : WireOK ts ↔ ∀ t ∈ ts, tokOK t = true := by
  unfold WireOK ArrOK LinesOK tokOK
  constructor
  · rintro ⟨h1, h2⟩ t ht
    rw [h1 t ht, h2 t ht]; rfl
  · intro h
    constructor <;> intro t ht <;> have := h t ht <;> simp only [Bool.and_eq_true] at this
    · exact this.1
    · exact this.2

theorem wireOK_nil : WireOK [] := (wireOK_iff _).2 (fun _ h => by cases h)

theorem wireOK_cons (t : Tok) (ts : List Tok) : WireOK (t :: ts) ↔ tokOK t = true ∧ WireOK ts := by
  simp only [wireOK_iff, List.mem_cons]
  constructor
  · intro h; exact ⟨h t (Or.inl rfl), fun u hu => h u (Or.inr hu)⟩
  · rintro ⟨h1, h2⟩ u (rfl | hu)
    · exact h1
    · exact h2 u hu

theorem wireOK_append (a b : List Tok) : WireOK (a ++ b) ↔ WireOK a ∧ WireOK b := by
  simp only [wireOK_iff, List.mem_append]
  constructor
  · intro h; exact ⟨fun t ht => h t (Or.inl ht), fun t ht => h t (Or.inr ht)⟩
  · rintro ⟨h1, h2⟩ t (ht | ht)
    · exact h1 t ht
    · exact h2 t ht

theorem wireOK_single (t : Tok) (h : tokOK t = true) : WireOK [t] :=
  (wireOK_cons t []).2 ⟨h, wireOK_nil⟩

theorem wireOK_flatMap {α : Type} (xs : List α) (f : α → List Tok) (h : ∀ x ∈ xs, WireOK (f x)) :
    WireOK (xs.flatMap f) := by
  rw [wireOK_iff]
  intro t ht
  rw [List.mem_flatMap] at ht
  obtain ⟨x, hx, htx⟩ := ht
  exact (wireOK_iff _).1 (h x hx) t htx

/-! ## single tokens -/

theorem tokOK_err (k : Nat) : tokOK (.err k) = true := rfl
theorem tokOK_int (n : Int) : tokOK (.int n) = true := rfl
theorem tokOK_bulk (b : Bytes) : tokOK (.bulk b) = true := rfl
theorem tokOK_nullBulk : tokOK .nullBulk = true := rfl
theorem tokOK_nullArr : tokOK .nullArr = true := rfl
theorem tokOK_simple (s : Bytes) (h : cleanLine s = true) : tokOK (.simple s) = true := h
theorem tokOK_arr (n : Int) (h : -1 ≤ n) : tokOK (.arr n) = true := by
  simp [tokOK, arrOK, lineOK, h]
theorem tokOK_optBulk (b : Option Bytes) : tokOK (Handler.optBulk b) = true := by
  cases b <;> rfl

theorem wireOK_err (k : Nat) : WireOK [Tok.err k] := wireOK_single _ (tokOK_err k)
theorem wireOK_int (n : Int) : WireOK [Tok.int n] := wireOK_single _ (tokOK_int n)
theorem wireOK_bulk (b : Bytes) : WireOK [Tok.bulk b] := wireOK_single _ (tokOK_bulk b)
theorem wireOK_nullBulk : WireOK [Tok.nullBulk] := wireOK_single _ tokOK_nullBulk
theorem wireOK_nullArr : WireOK [Tok.nullArr] := wireOK_single _ tokOK_nullArr
theorem wireOK_simple (s : Bytes) (h : cleanLine s = true) : WireOK [Tok.simple s] :=
  wireOK_single _ (tokOK_simple s h)
theorem wireOK_arr (n : Int) (h : -1 ≤ n) : WireOK [Tok.arr n] := wireOK_single _ (tokOK_arr n h)

/-! ### the simple strings the server writes contain no CR / LF -/

theorem clean_OK : cleanLine (Bytes.ofString "OK") = true := by
  rw [ofString_ascii _ (by decide)]; decide
theorem clean_QUEUED : cleanLine (Bytes.ofString "QUEUED") = true := by
  rw [ofString_ascii _ (by decide)]; decide
theorem clean_UNSUPPORTED : cleanLine (Bytes.ofString "UNSUPPORTED") = true := by
  rw [ofString_ascii _ (by decide)]; decide
theorem clean_none : cleanLine (Bytes.ofString "none") = true := by
  rw [ofString_ascii _ (by decide)]; decide
theorem clean_nil : cleanLine [] = true := rfl

/-- every type name (`ds.ValueType.String()`) is CR/LF-free -/
theorem clean_typeName (n : Nat) : cleanLine (Bytes.ofString (typeName n)) = true := by
  unfold typeName
  split <;> (rw [ofString_ascii _ (by decide)]; decide)

theorem tokOK_ok : tokOK Handler.ok = true := tokOK_simple _ clean_OK
theorem tokOK_okTok : tokOK okTok = true := tokOK_simple _ clean_OK
theorem tokOK_queuedTok : tokOK queuedTok = true := tokOK_simple _ clean_QUEUED
theorem tokOK_unsupported : tokOK (.simple (Bytes.ofString "UNSUPPORTED")) = true :=
  tokOK_simple _ clean_UNSUPPORTED
theorem tokOK_e : tokOK Handler.e = true := rfl

theorem wireOK_ok : WireOK [okTok] := wireOK_single _ tokOK_okTok
theorem wireOK_queued : WireOK [queuedTok] := wireOK_single _ tokOK_queuedTok

/-- `bulkList`: the header `*len` and bulk strings -/
theorem wireOK_bulkList (xs : List Bytes) : WireOK (Handler.bulkList xs) := by
  unfold Handler.bulkList
  rw [wireOK_cons]
  refine ⟨tokOK_arr _ (by omega), ?_⟩
  rw [wireOK_iff]
  intro t ht
  rw [List.mem_map] at ht
  obtain ⟨b, _, rfl⟩ := ht
  rfl

/-- the recovery token of a panic is fine -/
theorem wireOK_replyOf (o : BodyOut) (h : WireOK o.toks) : WireOK (replyOf o) := by
  unfold replyOf
  split
  · exact (wireOK_append _ _).2 ⟨h, wireOK_err 1⟩
  · exact h

/-! ## closures -/

/-- the closure's reply is readable -/
def WGood (o : BodyOut) : Prop := WireOK (replyOf o)

theorem wgood_of_toks (o : BodyOut) (h : WireOK o.toks) : WGood o := wireOK_replyOf o h

theorem wgood_panic (s : MState) (ts : List Tok) (h : WireOK ts) :
    WGood { store := s, toks := ts, panicked := true } := wireOK_replyOf _ h

theorem wgood_panic_nil (s : MState) : WGood { store := s, toks := [], panicked := true } :=
  wgood_panic s [] wireOK_nil

theorem wgood_done (s : MState) (ts : List Tok) (h : WireOK ts) : WGood (Handler.done s ts) :=
  wireOK_replyOf _ h

theorem wgood_done_tok (s : MState) (t : Tok) (h : tokOK t = true) : WGood (Handler.done s [t]) :=
  wgood_done s [t] (wireOK_single t h)

theorem wgood_call (r : MState × Out) (k : MState → Out → BodyOut)
    (hk : r.2 ≠ Out.panic → WGood (k r.1 r.2)) : WGood (Handler.call r k) := by
  obtain ⟨s, o⟩ := r
  unfold Handler.call
  split
  · exact wgood_panic_nil _
  · rename_i s' o' hne heq
    cases heq
    exact hk (fun h => hne h)

theorem wgood_call_all (r : MState × Out) (k : MState → Out → BodyOut)
    (hk : ∀ s o, WGood (k s o)) : WGood (Handler.call r k) :=
  wgood_call r k (fun _ => hk _ _)

theorem wire_errReply : WireRes Handler.errReply := wireOK_err 0

theorem wireRes_ite (c : Prop) [Decidable c] (a b : HRes) (ha : WireRes a) (hb : WireRes b) :
    WireRes (if c then a else b) := by
  split <;> assumption

/-- one of the tokens of table1, possibly under case distinctions -/
macro "wtok0" : tactic =>
  `(tactic| first
    | rfl
    | exact tokOK_ok
    | exact tokOK_unsupported
    | exact tokOK_optBulk _)

macro "wtok" : tactic =>
  `(tactic| first
    | wtok0
    | (split <;> wtok0)
    | (split <;> first | wtok0 | (split <;> wtok0)))

/-- a closure `call r (fun s o => done s [tok])` (possibly with a case distinction on `o`) -/
macro "wcall" : tactic =>
  `(tactic| (intro s now ch; apply wgood_call_all; intro s o;
             first
             | (apply wgood_done_tok; wtok)
             | (split <;> apply wgood_done_tok <;> wtok)))

/-! ## the handlers of `Handler.table1` -/

theorem wire_ping (args : List Bytes) : WireRes (Handler.ping args) := by
  unfold Handler.ping
  intro s now ch
  apply wgood_done_tok
  cases args <;> rfl

theorem wire_echo (args : List Bytes) : WireRes (Handler.echo args) := by
  unfold Handler.echo
  intro s now ch
  apply wgood_done_tok
  cases args <;> rfl

theorem wire_dbSize : WireRes Handler.dbSize := by
  unfold Handler.dbSize
  intro s now ch
  exact wgood_done_tok _ _ rfl

theorem wire_flushDB : WireRes Handler.flushDB := by
  unfold Handler.flushDB
  intro s now ch
  exact wgood_done_tok _ _ tokOK_ok

theorem wire_del (args : List Bytes) : WireRes (Handler.del args) := by
  unfold Handler.del
  split
  · exact wire_errReply
  · wcall

theorem wire_exists_ (args : List Bytes) : WireRes (Handler.exists_ args) := by
  unfold Handler.exists_
  split
  · exact wire_errReply
  · wcall

theorem wire_expire (args : List Bytes) : WireRes (Handler.expire args) := by
  unfold Handler.expire
  split
  · wcall
  · exact wire_errReply

theorem wire_expireAt (args : List Bytes) : WireRes (Handler.expireAt args) := by
  unfold Handler.expireAt
  split
  · split
    · exact wire_errReply
    · wcall
  · exact wire_errReply

/-- KEYS: `*len` and bulk strings (the dead `| _ => []` alternative writes nothing) -/
theorem wire_keys (args : List Bytes) : WireRes (Handler.keys args) := by
  unfold Handler.keys
  split
  · intro s now ch
    apply wgood_call_all
    intro s o
    apply wgood_done
    split
    · exact wireOK_bulkList _
    · exact wireOK_nil
  · exact wire_errReply

theorem wire_ttl (args : List Bytes) : WireRes (Handler.ttl args) := by
  unfold Handler.ttl
  split
  · wcall
  · exact wire_errReply

theorem wire_pttl (args : List Bytes) : WireRes (Handler.pttl args) := by
  unfold Handler.pttl
  split
  · wcall
  · exact wire_errReply

theorem wire_persist (args : List Bytes) : WireRes (Handler.persist args) := by
  unfold Handler.persist
  split
  · wcall
  · exact wire_errReply

theorem wire_randomKey : WireRes Handler.randomKey := by
  unfold Handler.randomKey
  wcall

theorem wire_rename (args : List Bytes) : WireRes (Handler.rename args) := by
  unfold Handler.rename
  split
  · wcall
  · exact wire_errReply

theorem wire_renameNx (args : List Bytes) : WireRes (Handler.renameNx args) := by
  unfold Handler.renameNx
  split
  · wcall
  · exact wire_errReply

/-- what `Api.type_` can return: a panic, or one of the CR/LF-free type names -/
theorem type_out (s : MState) (now : Int) (key : Bytes) :
    (Api.type_ s now key).2 = Out.panic ∨
      ∃ t, (Api.type_ s now key).2 = Out.str t ∧ cleanLine t = true := by
  unfold Api.type_
  generalize Store.readKey s now key = r
  obtain ⟨s', okk⟩ := r
  dsimp only
  split
  · exact Or.inr ⟨_, rfl, clean_none⟩
  · split
    · exact Or.inr ⟨_, rfl, clean_typeName _⟩
    · exact Or.inl rfl

/-- TYPE is the one handler that writes a simple string computed from the store: it is always one of
    "string", "set", "list", "zset", "hash", "none" -/
theorem wire_typ (args : List Bytes) : WireRes (Handler.typ args) := by
  unfold Handler.typ
  split
  · rename_i key rest
    intro s now ch
    apply wgood_call
    intro hne
    rcases type_out s now key with h | ⟨t, h, hc⟩
    · exact absurd h hne
    · rw [h]
      exact wgood_done_tok _ _ (tokOK_simple t hc)
  · exact wire_errReply

/-- SCAN: `*2`, the cursor as bulk, `*len` and bulk strings -/
theorem wireOK_scanReply (c : Bytes) (ks : List Bytes) :
    WireOK ([Tok.arr 2, Tok.bulk c] ++ Handler.bulkList ks) := by
  rw [wireOK_append]
  refine ⟨?_, wireOK_bulkList ks⟩
  rw [wireOK_cons]
  exact ⟨tokOK_arr 2 (by omega), wireOK_bulk c⟩

theorem wire_scan (args : List Bytes) : WireRes (Handler.scan args) := by
  unfold Handler.scan
  split
  · exact wire_errReply
  · split
    · exact wire_errReply
    · dsimp only
      split
      · trivial
      · split
        · trivial
        · exact wire_errReply
        · split
          · exact wire_errReply
          · split
            · trivial
            · intro s now ch
              apply wgood_call_all
              intro s o
              split
              · exact wgood_done _ _ (wireOK_scanReply _ _)
              · exact wgood_done _ _ wireOK_nil

/-! ### strings -/

theorem wire_setString (args : List Bytes) : WireRes (Handler.setString args) := by
  unfold Handler.setString
  split
  · rename_i key value rest
    intro s now ch
    show WGood _
    dsimp only
    generalize (ite (opt (key :: value :: rest) "GET" > 1) _ _ : MState × Option Bytes × Bool) = X
    obtain ⟨s1, getR, gp⟩ := X
    dsimp only
    split
    · exact wgood_panic_nil _
    · generalize (ite (opt (key :: value :: rest) "NX" > 1) _ _ : MState × Option Bool) = wr
      obtain ⟨s2, w⟩ := wr
      cases w with
      | none => exact wgood_panic_nil _
      | some b =>
        cases b with
        | false => exact wgood_done_tok _ _ rfl
        | true =>
          dsimp only
          repeat' split
          all_goals first
            | exact wgood_panic_nil _
            | exact wgood_done_tok _ _ rfl
            | exact wgood_done_tok _ _ tokOK_ok
            | (apply wgood_call_all; intro s o; apply wgood_done_tok; wtok)
  · exact wire_errReply

theorem wgood_mSet_go (now : Int) : ∀ (ps : List (Bytes × Bytes)) (s : MState), WGood (Handler.mSet.go now ps s) := by
  intro ps
  induction ps with
  | nil => intro s; rw [Handler.mSet.go]; exact wgood_done_tok _ _ tokOK_ok
  | cons p ps ih =>
    intro s
    obtain ⟨k, v⟩ := p
    rw [Handler.mSet.go]
    split
    · exact wgood_panic_nil _
    · exact ih _

theorem wire_mSet (args : List Bytes) : WireRes (Handler.mSet args) := by
  unfold Handler.mSet
  split
  · exact wire_errReply
  · intro s now ch
    exact wgood_mSet_go now _ _

theorem wire_appendString (args : List Bytes) : WireRes (Handler.appendString args) := by
  unfold Handler.appendString
  split
  · wcall
  · exact wire_errReply

theorem wire_setex (args : List Bytes) : WireRes (Handler.setex args) := by
  unfold Handler.setex
  split
  · wcall
  · exact wire_errReply

theorem wire_setnx (args : List Bytes) : WireRes (Handler.setnx args) := by
  unfold Handler.setnx
  split
  · wcall
  · exact wire_errReply

theorem wire_incrDecr (neg : Bool) (args : List Bytes) : WireRes (Handler.incrDecr neg args) := by
  unfold Handler.incrDecr
  split
  · wcall
  · exact wire_errReply

theorem wire_incrDecrBy (neg : Bool) (args : List Bytes) : WireRes (Handler.incrDecrBy neg args) := by
  unfold Handler.incrDecrBy
  split
  · split
    · exact wire_errReply
    · wcall
  · exact wire_errReply

theorem wire_incrByFloat (args : List Bytes) : WireRes (Handler.incrByFloat args) := by
  unfold Handler.incrByFloat
  split
  · split
    · trivial
    · exact wire_errReply
    · intro s now ch
      exact wgood_of_toks _ (wireOK_single _ tokOK_unsupported)
    · wcall
  · exact wire_errReply

theorem wire_getString (args : List Bytes) : WireRes (Handler.getString args) := by
  unfold Handler.getString
  split
  · wcall
  · exact wire_errReply

theorem wire_getSet (args : List Bytes) : WireRes (Handler.getSet args) := by
  unfold Handler.getSet
  split
  · wcall
  · exact wire_errReply

/-- MGET: all keys are read first (a panic writes nothing), then the header `*len` and the bulk /
    null-bulk tokens -/
theorem wgood_mGet_go (args : List Bytes) (now : Int) : ∀ (ks : List Bytes) (s : MState) (acc : List Tok), WireOK acc →
    WGood (Handler.mGet.go args now ks s acc) := by
  intro ks
  induction ks with
  | nil =>
    intro s acc h; rw [Handler.mGet.go]
    exact wgood_done _ _ ((wireOK_cons _ _).2 ⟨tokOK_arr _ (by omega), h⟩)
  | cons k rest ih =>
    intro s acc h
    rw [Handler.mGet.go]
    split
    · exact wgood_panic_nil _
    · exact ih _ _ ((wireOK_append _ _).2 ⟨h, wireOK_single _ (tokOK_optBulk _)⟩)
    · exact ih _ _ h

theorem wire_mGet (args : List Bytes) : WireRes (Handler.mGet args) := by
  unfold Handler.mGet
  split
  · exact wire_errReply
  · intro s now ch
    exact wgood_mGet_go args now _ _ _ wireOK_nil

theorem wire_setRange (args : List Bytes) : WireRes (Handler.setRange args) := by
  unfold Handler.setRange
  split
  · split
    · exact wire_errReply
    · split
      · exact wire_errReply
      · wcall
  · exact wire_errReply

theorem wire_getRange (args : List Bytes) : WireRes (Handler.getRange args) := by
  unfold Handler.getRange
  split
  · split
    · wcall
    · exact wire_errReply
  · exact wire_errReply

theorem wire_strLen (args : List Bytes) : WireRes (Handler.strLen args) := by
  unfold Handler.strLen
  split
  · wcall
  · exact wire_errReply

theorem wire_setBit (args : List Bytes) : WireRes (Handler.setBit args) := by
  unfold Handler.setBit
  split
  · split
    · exact wire_errReply
    · split
      · exact wire_errReply
      · split
        · exact wire_errReply
        · split
          · exact wire_errReply
          · wcall
  · exact wire_errReply

theorem wire_getBit (args : List Bytes) : WireRes (Handler.getBit args) := by
  unfold Handler.getBit
  split
  · split
    · exact wire_errReply
    · split
      · exact wire_errReply
      · wcall
  · exact wire_errReply

theorem wire_bitCount (args : List Bytes) : WireRes (Handler.bitCount args) := by
  unfold Handler.bitCount
  split
  · exact wire_errReply
  · dsimp only
    apply wireRes_ite
    · exact wire_errReply
    · wcall

/-! ## the dispatch table -/

/-- every handler of `Handler.table1`, MGET included: whatever it writes can be read back -/
theorem table1_wire : TableWire Handler.table1 := by
  intro name args r h
  unfold Handler.table1 at h
  split at h <;> first
    | (cases h; done)
    | (cases h
       first
       | exact wire_ping _ | exact wire_echo _ | exact wire_dbSize | exact wire_flushDB
       | exact wire_del _ | exact wire_exists_ _ | exact wire_expire _ | exact wire_expireAt _
       | exact wire_keys _ | exact wire_randomKey | exact wire_ttl _ | exact wire_pttl _
       | exact wire_persist _ | exact wire_rename _ | exact wire_renameNx _ | exact wire_typ _
       | exact wire_scan _ | exact wire_setString _ | exact wire_mSet _
       | exact wire_appendString _ | exact wire_setex _ | exact wire_setnx _
       | exact wire_getString _ | exact wire_getSet _ | exact wire_mGet _ | exact wire_setRange _
       | exact wire_getRange _ | exact wire_strLen _ | exact wire_incrDecr _ _
       | exact wire_incrDecrBy _ _ | exact wire_incrByFloat _ | exact wire_setBit _
       | exact wire_getBit _ | exact wire_bitCount _)

/-! ## step level -/

theorem okBody_wire : WireBody okBody := by
  intro st now ch
  exact wireOK_ok

theorem TableWire.exec {H : Table} (h : TableWire H) (name : String) (args : List Bytes) (b : Body)
    (hb : H name args = some (.exec b)) : WireBody b := h name args _ hb

theorem execOuts_wire (now : Int) : ∀ (bs : List Body) (st : MState), (∀ b ∈ bs, WireBody b) →
    ∀ o ∈ execOuts st now bs, WireOK (replyOf o) := by
  intro bs
  induction bs with
  | nil => intro st _ o ho; simp [execOuts] at ho
  | cons b rest ih =>
    intro st hb o ho
    simp only [execOuts, List.mem_cons] at ho
    rcases ho with ho | ho
    · rw [ho]; exact hb b (by simp) _ _ _
    · exact ih _ (fun b' hb' => hb b' (by simp [hb'])) o ho

theorem execCommand_wire (sv : Server) (id : String) (now : Int) (ch : Choice) (b : Body) (hb : WireBody b) :
    WireOK (execCommand sv id now ch b).2 := by
  rw [execCommand_eq]; split
  · rw [runBody_toks]; exact hb _ _ _
  · exact wireOK_queued

/-- EVERY command — known or unknown, any arguments, inside or outside MULTI, EXEC included — is
    answered with tokens a strict RESP reader reads back -/
theorem step_wire {H : Table} (hH : TableWire H) {sv : Server} (hq : QueuesSat WireBody sv) (c : Cmd) :
    WireOK (step H sv c).2 := by
  show WireOK (dispatch H sv c).2
  by_cases h2 : c.name = "EXEC"
  · rw [dispatch_exec H sv c h2]
    by_cases hr : execRuns (sv.conn c.id)
    · rw [(exec_runs sv c.id c.now hr.1 hr.2.1 hr.2.2.1 hr.2.2.2).2, wireOK_cons]
      exact ⟨tokOK_arr _ (by omega), wireOK_flatMap _ _ (execOuts_wire c.now _ sv.store (hq c.id))⟩
    · rw [exec_eq]; simp only
      split; · exact wireOK_err 0
      split; · exact wireOK_err 2
      split; · exact wireOK_nullBulk
      split; · exact wireOK_arr 0 (by omega)
      next h1 h2' h3 h4 =>
        exact absurd ⟨by simpa using h1, h2', by simpa using h4, by simpa using h3⟩ hr
  by_cases h1 : c.name = "MULTI"
  · rw [dispatch_multi H sv c h1, multi_eq]; split
    · exact wireOK_err 0
    · exact wireOK_ok
  by_cases h3 : c.name = "DISCARD"
  · rw [dispatch_discard H sv c h3, discard_eq]; exact wireOK_ok
  by_cases h4 : c.name = "WATCH"
  · rw [dispatch_watch H sv c h4, watch_eq]; split
    · exact wireOK_err 0
    · split
      · exact wireOK_err 0
      · exact wireOK_ok
  by_cases h5 : c.name = "UNWATCH"
  · rw [dispatch_unwatch H sv c h5]; exact execCommand_wire _ _ _ _ _ okBody_wire
  have hsp : ¬ special c.name := by
    unfold special; rintro (e | e | e | e | e) <;> contradiction
  rw [dispatch_table H sv c hsp]
  cases hH' : H c.name c.args with
  | none => exact wireOK_err 0
  | some r =>
    cases r with
    | direct ts => exact hH _ _ _ hH'
    | crash => exact wireOK_err 0
    | exec b => exact execCommand_wire _ _ _ _ _ (hH.exec _ _ b hH')

/-- … hence every reply of every schedule -/
theorem run_wire {H : Table} (hH : TableWire H) : ∀ (cs : List Cmd) {sv : Server}, QueuesSat WireBody sv →
    ∀ r ∈ (run H sv cs).2, WireOK r := by
  intro cs; induction cs with
  | nil => intro sv _ r hr; simp [run] at hr
  | cons c rest ih =>
    intro sv hq r hr
    simp only [run, List.mem_cons] at hr
    rcases hr with hr | hr
    · rw [hr]; exact step_wire hH hq c
    · exact ih (hq.step okBody_wire (fun n a b hb => hH.exec n a b hb) c) r hr

/-- non-vacuity: the table of this development satisfies the hypothesis, and so does the initial server -/
example (st : MState) : QueuesSat WireBody { store := st } := QueuesSat.init _ st
example (st : MState) (cs : List Cmd) : ∀ r ∈ (run Handler.table1 { store := st } cs).2, WireOK r :=
  run_wire table1_wire cs (QueuesSat.init _ st)

/- UNPROVED: nothing. -/

end NodisVerif.Proofs.C08Step
