import NodisVerif.Proofs.C08Others
/-
  A property of closures that holds of `okBody` and of every closure the handler table hands to
  `execCommand` holds of every queued closure of every connection, along every schedule.
-/
namespace NodisVerif.Proofs.C08Step
open Resp Server

/-- every queued closure of every connection satisfies `P` -/
def QueuesSat (P : Body → Prop) (sv : Server) : Prop := ∀ i, ∀ b ∈ (sv.conn i).queue, P b

theorem QueuesSat.init (P : Body → Prop) (st : MState) : QueuesSat P { store := st } := by
  intro i b hb
  simp [Server.conn] at hb

/-- the queue invariant is preserved by every step -/
theorem QueuesSat.step {P : Body → Prop} (hok : P okBody) {H : Table}
    (hH : ∀ name args b, H name args = some (.exec b) → P b) {sv : Server} (hq : QueuesSat P sv) (c : Cmd) :
    QueuesSat P (step H sv c).1 := by
  intro i b hb
  by_cases hi : i = c.id
  · subst hi
    simp only [C08Step.step, afterHandler_queue] at hb
    have exe : ∀ (sv' : Server) (b' : Body), P b' → (∀ b ∈ (sv'.conn c.id).queue, P b) →
        ∀ b ∈ ((execCommand sv' c.id c.now c.ch b').1.conn c.id).queue, P b := by
      intro sv' b' hb' hq' b hb
      rw [execCommand_eq] at hb
      split at hb
      · rw [(runBody_flagged sv' c.now c.ch b').queue] at hb; exact hq' b hb
      · rw [conn_setConn_same] at hb
        split at hb
        · simp only [List.mem_append, List.mem_singleton] at hb
          rcases hb with hb | hb
          · exact hq' b hb
          · rw [hb]; exact hb'
        · exact hq' b hb
    by_cases h2 : c.name = "EXEC"
    · rw [dispatch_exec H sv c h2, exec_conn_reset] at hb; cases hb
    by_cases h1 : c.name = "MULTI"
    · rw [dispatch_multi H sv c h1, multi_eq] at hb
      split at hb
      · exact hq _ b hb
      · rw [conn_setConn_same] at hb; exact hq _ b hb
    by_cases h3 : c.name = "DISCARD"
    · rw [dispatch_discard H sv c h3, discard_eq] at hb
      simp only [resetConn_conn_same] at hb; cases hb
    by_cases h4 : c.name = "WATCH"
    · rw [dispatch_watch H sv c h4, watch_eq] at hb
      split at hb
      · exact hq _ b hb
      · split at hb
        · exact hq _ b hb
        · rw [(watchLoop_state_queue _ _ _).2] at hb; exact hq _ b hb
    by_cases h5 : c.name = "UNWATCH"
    · rw [dispatch_unwatch H sv c h5] at hb
      split at hb
      · refine exe _ okBody hok ?_ b hb
        rw [unwatchAll_conn_same]; exact hq c.id
      · exact exe _ okBody hok (hq c.id) b hb
    have hsp : ¬ special c.name := by
      unfold special; rintro (e | e | e | e | e) <;> contradiction
    rw [dispatch_table H sv c hsp] at hb
    cases hH' : H c.name c.args with
    | none => rw [hH'] at hb; exact hq _ b hb
    | some r =>
      rw [hH'] at hb
      cases r with
      | direct ts => exact hq _ b hb
      | crash => exact hq _ b hb
      | exec b' => exact exe sv b' (hH _ _ b' hH') (hq c.id) b hb
  · rw [(Others.step H sv c).queue i hi] at hb
    exact hq i b hb


theorem QueuesSat.run {P : Body → Prop} (hok : P okBody) {H : Table}
    (hH : ∀ name args b, H name args = some (.exec b) → P b) : ∀ (cs : List Cmd) {sv : Server},
    QueuesSat P sv → QueuesSat P (run H sv cs).1 := by
  intro cs; induction cs with
  | nil => intro sv h; exact h
  | cons c rest ih => intro sv h; exact ih (h.step hok hH c)

end NodisVerif.Proofs.C08Step
