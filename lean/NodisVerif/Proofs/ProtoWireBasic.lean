import NodisVerif.Model.ProtoWire
import NodisVerif.Proofs.VarintLemmas
import NodisVerif.Proofs.CodecLemmas
/-
  C20 / wire encoding: the protowire consumers undo the appenders, and every consumer returns a
  suffix that is not longer (varints: strictly shorter) than its input.
-/
namespace NodisVerif.Proofs.ProtoWire
open NodisVerif Varint Codec NodisVerif.ProtoWire

/-! ### lengths: what a consumer returns is shorter -/

theorem uvarintAux_le (b : Bytes) : ∀ (i s x : Nat), (uvarintAux b i s x).2 ≤ (i : Int) + b.length := by
  induction b with
  | nil => intro i s x; simp [uvarintAux]
  | cons a rest ih =>
    intro i s x
    unfold uvarintAux
    split
    · simp only [List.length_cons]; omega
    · split
      · split
        · simp only [List.length_cons]; omega
        · simp only [List.length_cons]; omega
      · have := ih (i + 1) (s + 7) (x ||| ((a.toNat % 128) <<< s))
        simp only [List.length_cons]
        push_cast at this ⊢
        omega

theorem consumeVarint_lt {b rest : Bytes} {v : Nat} (h : consumeVarint b = some (v, rest)) :
    rest.length < b.length := by
  unfold consumeVarint at h
  split at h
  · cases h
  · rename_i hn
    simp only [Option.some.injEq, Prod.mk.injEq] at h
    have hle := uvarintAux_le b 0 0 0
    have e : (uvarint b).2 = (uvarintAux b 0 0 0).2 := rfl
    rw [← h.2, List.length_drop]
    rw [e] at hn
    omega

theorem consumeBytes_le {b s rest : Bytes} (h : consumeBytes b = some (s, rest)) :
    rest.length < b.length := by
  unfold consumeBytes at h
  split at h
  · cases h
  · rename_i m r hv
    have := consumeVarint_lt hv
    split at h
    · cases h
    · simp only [Option.some.injEq, Prod.mk.injEq] at h
      rw [← h.2, List.length_drop]
      omega

theorem consumeFixed64_le {b rest : Bytes} {x : UInt64} (h : consumeFixed64 b = some (x, rest)) :
    rest.length < b.length := by
  unfold consumeFixed64 at h
  split at h
  · cases h
  · simp only [Option.some.injEq, Prod.mk.injEq] at h
    rw [← h.2, List.length_drop]
    omega

theorem skipScalar_le {wt : Nat} {b rest : Bytes} (h : skipScalar wt b = some rest) :
    rest.length ≤ b.length := by
  unfold skipScalar at h
  split at h
  · cases hv : consumeVarint b with
    | none => simp [hv] at h
    | some p =>
      obtain ⟨v, r⟩ := p
      simp only [hv, Option.map_some, Option.some.injEq] at h
      have := consumeVarint_lt hv
      subst h; omega
  · split at h
    · split at h
      · cases h
      · simp only [Option.some.injEq] at h; subst h; simp
    · split at h
      · cases hv : consumeBytes b with
        | none => simp [hv] at h
        | some p =>
          obtain ⟨v, r⟩ := p
          simp only [hv, Option.map_some, Option.some.injEq] at h
          have := consumeBytes_le hv
          subst h; omega
      · split at h
        · split at h
          · cases h
          · simp only [Option.some.injEq] at h; subst h; simp
        · cases h

theorem consumeTag_lt {b rest : Bytes} {num wt : Nat} (h : consumeTag b = some (num, wt, rest)) :
    rest.length < b.length := by
  unfold consumeTag at h
  split at h
  · cases h
  · rename_i t r hv
    split at h
    · cases h
    · simp only [Option.some.injEq, Prod.mk.injEq] at h
      have := consumeVarint_lt hv
      rw [← h.2.2]; exact this

/-! ### consumers undo appenders -/

theorem consumeVarint_put (n : Nat) (h : n < 2 ^ 64) (rest : Bytes) :
    consumeVarint (putUvarint n ++ rest) = some (n, rest) := by
  unfold consumeVarint
  rw [VarintLemmas.uvarint_putUvarint n h rest]
  have hp := VarintLemmas.putUvarint_length_pos n
  have : ¬ (((putUvarint n).length : Int) ≤ 0) := by omega
  simp only [this, if_false, Int.toNat_natCast, List.drop_left]

theorem consumeBytes_lenDelim (s : Bytes) (h : s.length < 2 ^ 64) (rest : Bytes) :
    consumeBytes (lenDelim s ++ rest) = some (s, rest) := by
  unfold consumeBytes lenDelim
  rw [List.append_assoc, consumeVarint_put _ h]
  simp

theorem consumeFixed64_u64le (x : UInt64) (rest : Bytes) :
    consumeFixed64 (u64le x ++ rest) = some (x, rest) := by
  unfold consumeFixed64
  have hl := CodecLemmas.u64le_length x
  have : ¬ ((u64le x ++ rest).length < 8) := by rw [List.length_append, hl]; omega
  simp only [this, if_false, CodecLemmas.leU64_u64le]
  rw [← hl, List.drop_left]

theorem flatMap_u64le_length (l : List UInt64) : (l.flatMap u64le).length = 8 * l.length := by
  induction l with
  | nil => rfl
  | cons x rest ih =>
    rw [List.flatMap_cons, List.length_append, ih, CodecLemmas.u64le_length, List.length_cons]
    omega

theorem unpackN_flatMap (l : List UInt64) (rest : Bytes) :
    unpackN l.length (l.flatMap u64le ++ rest) = l := by
  induction l with
  | nil => rfl
  | cons x tl ih =>
    rw [List.flatMap_cons, List.length_cons, unpackN, List.append_assoc, CodecLemmas.leU64_u64le]
    have hl := CodecLemmas.u64le_length x
    rw [← hl, List.drop_left, ih]

theorem unpack64_flatMap (l : List UInt64) : unpack64 (l.flatMap u64le) = some l := by
  unfold unpack64
  rw [flatMap_u64le_length]
  have h1 : ¬ (8 * l.length % 8 ≠ 0) := by omega
  have h2 : 8 * l.length / 8 = l.length := by omega
  simp only [h1, if_false, h2]
  have := unpackN_flatMap l []
  rw [List.append_nil] at this
  rw [this]

/-! ### int64 ↔ uint64 -/

theorem toU64_lt (i : Int) : toU64 i < 2 ^ 64 := by
  unfold toU64 two64
  omega

theorem ofU64_toU64 (i : Int) (h : inInt64 i = true) : ofU64 (toU64 i) = i := by
  have h' : -9223372036854775808 ≤ i ∧ i ≤ 9223372036854775807 := by
    unfold inInt64 int64Min int64Max at h
    exact of_decide_eq_true h
  unfold ofU64 toU64 two64
  split <;> omega

theorem toU64_ne_zero (i : Int) (h : inInt64 i = true) (hi : i ≠ 0) : toU64 i ≠ 0 := by
  have h' : -9223372036854775808 ≤ i ∧ i ≤ 9223372036854775807 := by
    unfold inInt64 int64Min int64Max at h
    exact of_decide_eq_true h
  unfold toU64 two64
  omega

/-! ### tags -/

theorem consumeVarint_tag (no wt : Nat) (hno : no ≤ 536870911) (hwt : wt < 8) (rest : Bytes) :
    consumeVarint (tag no wt ++ rest) = some (no * 8 + wt, rest) := by
  unfold tag
  exact consumeVarint_put _ (by omega) rest

end NodisVerif.Proofs.ProtoWire
