import NodisVerif.Proofs.C15Flat
import NodisVerif.Proofs.C15Win
/-
  C17, reader side: no byte stream, however fragmented, makes the RESP reader panic, and every
  successfully read command consumes at least one byte of the stream.

  `Post Q r`: the outcome `r` is not a panic and its final state satisfies `Q`.
  `Le st st'`: `st'` has at most as many bytes ahead as `st`, and `before` (the byte in front of the
  window, i.e. "the window does not start at buffer offset 0") stays set once it is set.
  `Safe st`: `before` is set or the window is not empty — the invariant under which `readUtil`
  never evaluates `indexByte(-2)` on buf[-1].
-/
namespace NodisVerif.Proofs.C17
open Resp RespReader
open NodisVerif.Proofs.C15 (srcRead_none srcRead_some readByte_nil readByte_cons)

/-- not a panic, and the final state satisfies `Q` -/
def Post {α : Type} (Q : RState → Prop) : Res α → Prop
  | .ok _ s => Q s
  | .err _ s => Q s
  | .panic => False

theorem Post.mono {α : Type} {Q Q' : RState → Prop} {r : Res α} (h : Post Q r) (hq : ∀ s, Q s → Q' s) :
    Post Q' r := by
  cases r with
  | ok a s => exact hq s h
  | err e s => exact hq s h
  | panic => exact h

theorem Post.ne_panic {α : Type} {Q : RState → Prop} {r : Res α} (h : Post Q r) : r ≠ .panic := by
  intro e; subst e; exact h

def Le (st st' : RState) : Prop :=
  (srcFlat st'.src).length ≤ (srcFlat st.src).length ∧ (st.before.isSome → st'.before.isSome)

theorem Le.refl (st : RState) : Le st st := ⟨Nat.le_refl _, id⟩
theorem Le.trans {a b c : RState} (h : Le a b) (g : Le b c) : Le a c :=
  ⟨Nat.le_trans g.1 h.1, fun x => g.2 (h.2 x)⟩

theorem malloc_before_of_before {st : RState} (h : st.before.isSome) : (malloc st).before.isSome := by
  simp only [malloc]
  cases st.win.getLast? <;> simp [h]

theorem malloc_before_of_win {st : RState} (h : st.win ≠ []) : (malloc st).before.isSome := by
  simp only [malloc]
  cases hw : st.win.getLast? with
  | none => exact absurd (List.getLast?_eq_none_iff.mp hw) h
  | some x => simp

theorem Le.malloc (st : RState) : Le st (malloc st) :=
  ⟨Nat.le_refl _, malloc_before_of_before⟩

/-- the window does not sit at buffer offset 0 with fewer than one byte in it -/
def Safe (st : RState) : Prop := st.before.isSome ∨ st.win ≠ []

theorem Safe.malloc {st : RState} (h : Safe st) : (malloc st).before.isSome :=
  h.elim malloc_before_of_before malloc_before_of_win

/-! ### readByte -/

/-- `readByte` either sees end of stream or appends exactly one byte, one byte fewer ahead -/
theorem readByte_cases (st : RState) :
    (readByte st = .err .eof st ∧ srcFlat st.src = []) ∨
    (∃ b src', readByte st = .ok () ⟨src', st.before, st.win ++ [b]⟩ ∧
      (srcFlat st.src).length = (srcFlat src').length + 1) := by
  cases hf : srcFlat st.src with
  | nil => exact .inl ⟨readByte_nil hf, rfl⟩
  | cons b t =>
    obtain ⟨src', e1, e2⟩ := readByte_cons hf
    exact .inr ⟨b, src', e2, by simp [e1]⟩

/-! ### the RESP (array / bulk) side: no `indexByte(-2)` at all -/

theorem readByteN_post (n : Nat) : ∀ (fuel : Nat) (st : RState), Post (Le st) (readByteN st n fuel) := by
  intro fuel
  induction fuel with
  | zero => intro st; exact Le.refl st
  | succ fuel ih =>
    intro st
    unfold readByteN
    by_cases hw : st.win.length ≥ n
    · simp only [hw, if_true]; exact Le.refl st
    · simp only [hw, if_false]
      cases hr : srcRead st.src (n - st.win.length) with
      | none => exact Le.refl st
      | some p =>
        obtain ⟨bs, src'⟩ := p
        obtain ⟨_, _, h3⟩ := srcRead_some (by omega) hr
        simp only
        refine (ih _).mono fun s hs => Le.trans ?_ hs
        exact ⟨by simp [h3], id⟩

theorem readLine_post : ∀ (fuel : Nat) (st : RState), Post (Le st) (readLine st fuel) := by
  intro fuel
  induction fuel with
  | zero => intro st; exact Le.refl st
  | succ fuel ih =>
    intro st
    unfold readLine
    rcases readByte_cases st with ⟨e, _⟩ | ⟨b, src', e, hl⟩
    · simp only [e]; exact Le.refl st
    · simp only [e]
      have hle : Le st ⟨src', st.before, st.win ++ [b]⟩ := ⟨by simp only [hl]; omega, id⟩
      split
      · exact ⟨hle.1, hle.2⟩
      · exact (ih _).mono fun s hs => Le.trans hle hs

theorem readInteger_post (st : RState) : Post (Le st) (readInteger st) := by
  unfold readInteger
  have h := readLine_post (remaining st + 1) st
  cases hr : readLine st (remaining st + 1) with
  | ok a s =>
    rw [hr] at h
    simp only
    cases parseInt64 s.win with
    | none => exact Le.trans h (Le.malloc s)
    | some v => exact Le.trans h (Le.malloc s)
  | err e s => rw [hr] at h; exact h
  | panic => rw [hr] at h; exact h

theorem readBulk_post (st : RState) : Post (Le st) (readBulk st) := by
  unfold readBulk
  rcases readByte_cases st with ⟨e, _⟩ | ⟨b, src', e, hl⟩
  · simp only [e]; exact Le.refl st
  · simp only [e]
    have hle : Le st ⟨src', st.before, st.win ++ [b]⟩ := ⟨by simp only [hl]; omega, id⟩
    split
    · exact hle
    · have h2 := readInteger_post (malloc ⟨src', st.before, st.win ++ [b]⟩)
      have hle2 := Le.trans hle (Le.malloc _)
      cases hr : readInteger (malloc ⟨src', st.before, st.win ++ [b]⟩) with
      | err e s => rw [hr] at h2; exact Le.trans hle2 h2
      | panic => rw [hr] at h2; exact h2
      | ok l s2 =>
        rw [hr] at h2
        have hle3 := Le.trans hle2 h2
        simp only
        split
        · exact hle3
        · have h4 := readByteN_post l.toNat (remaining s2 + 1) s2
          cases hr4 : readByteN s2 l.toNat (remaining s2 + 1) with
          | err e s => rw [hr4] at h4; exact Le.trans hle3 h4
          | panic => rw [hr4] at h4; exact h4
          | ok u s4 =>
            rw [hr4] at h4
            have hle5 := Le.trans (Le.trans hle3 h4) (Le.malloc s4)
            simp only
            have h6 := readLine_post (remaining (malloc s4) + 1) (malloc s4)
            cases hr6 : readLine (malloc s4) (remaining (malloc s4) + 1) with
            | err e s => rw [hr6] at h6; exact Le.trans hle5 h6
            | panic => rw [hr6] at h6; exact h6
            | ok u s6 => rw [hr6] at h6; exact Le.trans (Le.trans hle5 h6) (Le.malloc s6)

theorem readBulks_post : ∀ (k : Nat) (acc : List Bytes) (st : RState), Post (Le st) (readBulks st k acc) := by
  intro k
  induction k with
  | zero => intro acc st; exact Le.refl st
  | succ k ih =>
    intro acc st
    rw [readBulks]
    have h := readBulk_post st
    cases hr : readBulk st with
    | ok v s => rw [hr] at h; exact (ih _ s).mono fun s' hs => Le.trans h hs
    | err e s => rw [hr] at h; exact h
    | panic => rw [hr] at h; exact h

/-! ### the inline side: `readUtil` looks at `indexByte(-2)` -/

theorem prevByte_safe {st : RState} (h : st.before.isSome ∨ st.win.length ≥ 2) : prevByte st ≠ none := by
  unfold prevByte
  split
  · simp
  · rcases h with h | h
    · cases hb : st.before with
      | none => rw [hb] at h; cases h
      | some b => simp
    · omega

/-- under `Safe`, `readUtil` never panics, and `Safe` holds again of the state it returns -/
theorem readUtil_post (endB : UInt8) : ∀ (fuel : Nat) (st : RState), Safe st →
    Post (fun s => Le st s ∧ Safe s) (readUtil endB st fuel) := by
  intro fuel
  induction fuel with
  | zero => intro st hs; exact ⟨Le.refl st, hs⟩
  | succ fuel ih =>
    intro st hs
    unfold readUtil
    rcases readByte_cases st with ⟨e, _⟩ | ⟨b, src', e, hl⟩
    · simp only [e]; exact ⟨Le.refl st, hs⟩
    · simp only [e]
      have hle : Le st ⟨src', st.before, st.win ++ [b]⟩ := ⟨by simp only [hl]; omega, id⟩
      have hdrop : ((st.win ++ [b]).take ((st.win ++ [b]).length - 1)) = st.win := by simp
      have hleD : Le st ⟨src', st.before, st.win⟩ := ⟨hle.1, id⟩
      have hsD : Safe ⟨src', st.before, st.win⟩ := hs
      have hs1 : Safe ⟨src', st.before, st.win ++ [b]⟩ := .inr (by simp)
      simp only [lastByte, List.getLast?_append, List.getLast?_singleton, Option.some_or, Option.some.injEq, hdrop]
      split
      · exact (ih _ hsD).mono fun s h => ⟨Le.trans hleD h.1, h.2⟩
      · split
        · exact ⟨hleD, hsD⟩
        · split
          · have hp : prevByte ⟨src', st.before, st.win ++ [b]⟩ ≠ none := by
              apply prevByte_safe
              rcases hs with h | h
              · exact .inl h
              · refine .inr ?_
                have : 0 < st.win.length := List.length_pos_iff.mpr h
                simp; omega
            cases hpb : prevByte ⟨src', st.before, st.win ++ [b]⟩ with
            | none => exact absurd hpb hp
            | some p =>
              simp only
              split
              · exact ⟨hleD, hsD⟩
              · exact (ih _ hs1).mono fun s h => ⟨Le.trans hle h.1, h.2⟩
          · exact (ih _ hs1).mono fun s h => ⟨Le.trans hle h.1, h.2⟩

theorem inlineArgs_post : ∀ (fuel : Nat) (acc : List Bytes) (st : RState), st.before.isSome →
    Post (Le st) (inlineArgs st fuel acc) := by
  intro fuel
  induction fuel with
  | zero => intro acc st _; exact Le.refl st
  | succ fuel ih =>
    intro acc st hb
    rw [inlineArgs]
    rcases readByte_cases st with ⟨e, _⟩ | ⟨b, src', e, hl⟩
    · simp only [e]; exact Le.refl st
    · simp only [e]
      have hle : Le st ⟨src', st.before, st.win ++ [b]⟩ := ⟨by simp only [hl]; omega, id⟩
      have hb1 : (RState.mk src' st.before (st.win ++ [b])).before.isSome := hb
      split
      · exact (ih _ _ (malloc_before_of_before hb1)).mono fun s h => Le.trans (Le.trans hle (Le.malloc _)) h
      · have hst' : Le st (if (st.win ++ [b]).head? = some 39 ∨ (st.win ++ [b]).head? = some 34 then
              malloc ⟨src', st.before, st.win ++ [b]⟩ else ⟨src', st.before, st.win ++ [b]⟩) ∧
            (if (st.win ++ [b]).head? = some 39 ∨ (st.win ++ [b]).head? = some 34 then
              malloc ⟨src', st.before, st.win ++ [b]⟩ else (⟨src', st.before, st.win ++ [b]⟩ : RState)).before.isSome := by
          split
          · exact ⟨Le.trans hle (Le.malloc _), malloc_before_of_before hb1⟩
          · exact ⟨hle, hb1⟩
        generalize (if (st.win ++ [b]).head? = some 39 ∨ (st.win ++ [b]).head? = some 34 then
              malloc ⟨src', st.before, st.win ++ [b]⟩ else (⟨src', st.before, st.win ++ [b]⟩ : RState)) = st' at hst' ⊢
        generalize (if (st.win ++ [b]).head? = some 39 ∨ (st.win ++ [b]).head? = some 34 then
              (st.win ++ [b]).head?.getD 32 else 32) = endB
        obtain ⟨hle', hb'⟩ := hst'
        have h := readUtil_post endB (remaining st' + 1) st' (.inl hb')
        cases hr : readUtil endB st' (remaining st' + 1) with
        | err e s => rw [hr] at h; exact Le.trans hle' h.1
        | panic => rw [hr] at h; exact h
        | ok lineEnd s =>
          rw [hr] at h
          have hle2 := Le.trans (Le.trans hle' h.1) (Le.malloc s)
          simp only
          split
          · exact hle2
          · exact (ih _ _ (h.2.malloc)).mono fun s' hs' => Le.trans hle2 hs'

theorem readInline_post (st : RState) (hs : Safe st) : Post (Le st) (readInline st) := by
  unfold readInline
  have h := readUtil_post 32 (remaining st + 1) st hs
  cases hr : readUtil 32 st (remaining st + 1) with
  | err e s => rw [hr] at h; exact h.1
  | panic => rw [hr] at h; exact h
  | ok lineEnd s =>
    rw [hr] at h
    have hle := Le.trans h.1 (Le.malloc s)
    simp only
    split
    · exact hle
    · have h2 := inlineArgs_post (remaining (malloc s) + 1) [] (malloc s) h.2.malloc
      cases hr2 : inlineArgs (malloc s) (remaining (malloc s) + 1) [] with
      | ok args s2 => rw [hr2] at h2; exact Le.trans hle h2
      | err e s2 => rw [hr2] at h2; exact Le.trans hle h2
      | panic => rw [hr2] at h2; exact h2

/-! ### ReadCommand and the connection loop -/

/-- what `readCommand` guarantees on a stream of `n` bytes: never a panic; a command consumes at
    least one byte; an error never "un-reads" anything -/
def CmdPost (n : Nat) : Res Cmd → Prop
  | .ok _ s => (srcFlat s.src).length < n
  | .err _ s => (srcFlat s.src).length ≤ n
  | .panic => False

theorem readCommand_post (src : Source) : CmdPost (srcFlat src).length (readCommand src) := by
  unfold readCommand
  simp only
  rcases readByte_cases { src := src } with ⟨e, _⟩ | ⟨b, src', e, hl⟩
  · simp only [e]; exact Nat.le_refl _
  · simp only [e]
    have hl' : (srcFlat src).length = (srcFlat src').length + 1 := hl
    split
    · have h := readInline_post ⟨src', none, [] ++ [b]⟩ (.inr (by simp))
      cases hr : readInline ⟨src', none, [] ++ [b]⟩ with
      | ok c s => rw [hr] at h; have := h.1; simp only [CmdPost] at this ⊢; omega
      | err e s => rw [hr] at h; have := h.1; simp only [CmdPost] at this ⊢; omega
      | panic => rw [hr] at h; exact h
    · have h := readInteger_post (malloc ⟨src', none, [] ++ [b]⟩)
      cases hr : readInteger (malloc ⟨src', none, [] ++ [b]⟩) with
      | err e s => rw [hr] at h; have := h.1; simp only [CmdPost, malloc] at this ⊢; omega
      | panic => rw [hr] at h; exact h
      | ok l s =>
        rw [hr] at h
        have h1 := h.1
        simp only [malloc] at h1
        have h2 := readBulks_post l.toNat [] s
        simp only
        cases hr2 : readBulks s l.toNat [] with
        | err e s2 => rw [hr2] at h2; have := h2.1; simp only [CmdPost]; omega
        | panic => rw [hr2] at h2; exact h2
        | ok v s2 =>
          rw [hr2] at h2
          have := h2.1
          cases v with
          | nil => simp only [CmdPost]; omega
          | cons n args => simp only [CmdPost]; omega

theorem readCommand_ne_panic (src : Source) : readCommand src ≠ .panic := by
  intro e
  have := readCommand_post src
  rw [e] at this
  exact this

theorem readCommand_ok_consumes {src : Source} {c : Cmd} {st : RState} (h : readCommand src = .ok c st) :
    (srcFlat st.src).length < (srcFlat src).length := by
  have := readCommand_post src
  rw [h] at this
  exact this

theorem readAll_no_panic : ∀ (fuel : Nat) (src : Source) (acc : List Cmd), (readAll src fuel acc).2.2 = false := by
  intro fuel
  induction fuel with
  | zero => intro src acc; rfl
  | succ fuel ih =>
    intro src acc
    rw [readAll]
    cases hr : readCommand src with
    | ok c st => exact ih _ _
    | err e st => rfl
    | panic => exact absurd hr (readCommand_ne_panic src)

/-- with more fuel than bytes, the loop ends on an error / EOF of the reader, never by exhaustion -/
theorem readAll_ends : ∀ (fuel : Nat) (src : Source) (acc : List Cmd), (srcFlat src).length < fuel →
    ∃ cmds e, readAll src fuel acc = (acc.reverse ++ cmds, some e, false) ∧
      cmds.length ≤ (srcFlat src).length := by
  intro fuel
  induction fuel with
  | zero => intro src acc h; omega
  | succ fuel ih =>
    intro src acc hf
    rw [readAll]
    cases hr : readCommand src with
    | ok c st =>
      have hc := readCommand_ok_consumes hr
      obtain ⟨cmds, e, h1, h2⟩ := ih st.src (c :: acc) (by omega)
      refine ⟨c :: cmds, e, ?_, ?_⟩
      · simp only [h1]; simp
      · simp only [List.length_cons]; omega
    | err e st => exact ⟨[], e, by simp, by simp⟩
    | panic => exact absurd hr (readCommand_ne_panic src)

/-- once the loop has ended on an error, more fuel changes nothing -/
theorem readAll_stable_succ : ∀ (fuel : Nat) (src : Source) (acc : List Cmd),
    (readAll src fuel acc).2.1 ≠ none → readAll src (fuel + 1) acc = readAll src fuel acc := by
  intro fuel
  induction fuel with
  | zero => intro src acc h; exact absurd rfl h
  | succ fuel ih =>
    intro src acc h
    rw [readAll] at h
    rw [readAll.eq_2 src acc (fuel + 1), readAll.eq_2 src acc fuel]
    cases hr : readCommand src with
    | ok c st => rw [hr] at h; exact ih _ _ h
    | err e st => rfl
    | panic => rfl

theorem readAll_stable (k : Nat) : ∀ (fuel : Nat) (src : Source) (acc : List Cmd),
    (readAll src fuel acc).2.1 ≠ none → readAll src (fuel + k) acc = readAll src fuel acc := by
  induction k with
  | zero => intro fuel src acc _; rfl
  | succ k ih =>
    intro fuel src acc h
    have h1 := ih fuel src acc h
    rw [← Nat.add_assoc, readAll_stable_succ (fuel + k) src acc (by rw [h1]; exact h), h1]

end NodisVerif.Proofs.C17
