import NodisVerif.Model.DsStr
import NodisVerif.Proofs.GoLibLemmas
/-
  Normal forms of the translated functions of ds/str/str.go (the translator's output with the receiver `s`
  replaced by its only field `v`), and their equality with the hand-written model Model/DsStr.lean.
  Every run shows `Translated.str.String_.f ⟨v⟩ … = StrNF.f v …` for the freshly translated text
  (translated/str.lean); the theorems here are then reused.
-/
namespace NodisVerif.StrNF
open NodisVerif NodisVerif.GoLib

def GetRange (v : Bytes) (start : Int) (end_ : Int) : GoLib.M Bytes := do
  let mut start := start
  let mut end_ := end_
  let mut bl : Int := (GoLib.len v)
  if (decide (start < 0)) then
    start := (GoLib.wrap .i64 (bl + start))
    if (decide (start < 0)) then
      start := 0
  if (decide (start ≥ (GoLib.len v))) then
    return []
  end_ := (GoLib.wrap .i64 (end_ + 1))
  if (decide (end_ ≤ 0)) then
    end_ := (GoLib.wrap .i64 (end_ + bl))
  if (decide (end_ > bl)) then
    end_ := bl
  if (decide (start > end_)) then
    return []
  return (← GoLib.slice v start end_)

theorem GetRange_eq_model (v : Bytes) (a b : Int) (hv : v.length < 2 ^ 62) (ha : inInt64 a) (hb : inInt64 b) :
    GetRange v a b = .ok ((DsStr.getRange (some v) a b).getD []) := by
  simp [GetRange, DsStr.getRange, DsStr.bytes, len_eq, wrap_i64]
  have ha' := inInt64_iff.mp ha
  have hv' : (v.length : Int) < 4611686018427387904 := by omega
  obtain ⟨e, he⟩ : ∃ e, wrap64 (b + 1) = e := ⟨_, rfl⟩
  have hr := wrap64_range (b + 1)
  rw [he] at hr
  simp only [he]
  have h1 : a < 0 → wrap64 (↑v.length + a) = ↑v.length + a := fun h => wrap64_id (by omega)
  have h2 : e ≤ 0 → wrap64 (e + ↑v.length) = e + ↑v.length := fun h => wrap64_id (by omega)
  simp only [slice]
  by_cases hvn : v = []
  · subst hvn; simp; repeat' split
    all_goals first | rfl | omega | simp_all
  have hp : 0 < (v.length : Int) := by
    have := List.length_pos_iff.mpr hvn; omega
  simp only [hvn, if_false]
  by_cases ha0 : a < 0 <;> by_cases he0 : e ≤ 0 <;>
    (try rw [h1 ha0]) <;> (try rw [h2 he0]) <;> simp only [ha0, he0, if_true, if_false] <;> repeat' split
  all_goals first
    | rfl
    | omega
    | (simp (disch := omega) only [if_pos, if_neg, Option.getD_some, Option.getD_none, pure, Except.pure]; done)
    | (simp (disch := omega) only [if_pos, if_neg, Option.getD_some, Option.getD_none, pure, Except.pure]; congr 3 <;> omega)

def getBit (v : Bytes) (offset : Int) : GoLib.M Int := do
  let mut i : Int := (Int.tdiv offset 8)
  if (((decide (offset < 0)) || ((GoLib.len v) == 0)) || (decide (i > (GoLib.wrap .i64 ((GoLib.len v) - 1))))) then
    return 0
  let mut by_ : Int := (← GoLib.idx v i)
  let mut bit : Int := (GoLib.shl .u8 1 (GoLib.wrap .u64 (7 - (GoLib.wrap .u64 (Int.tmod offset 8)))))
  if ((GoLib.band .u8 by_ bit) != 0) then
    return 1
  return 0

/-- byte-level agreement of the Int bit test (translation) and the UInt8 bit test (model), all bytes × all 8 positions -/
theorem bit_test_fact : ∀ c : Fin 256, ∀ k : Fin 8,
    (band .u8 ((UInt8.ofNat c.val).toNat : Int) (shl .u8 1 (7 - (k.val : Int))) != 0) =
    ((UInt8.ofNat c.val) &&& ((1 : UInt8) <<< UInt8.ofNat (7 - k.val)) != 0) := by
  decide +kernel

theorem getBit_eq_model (v : Bytes) (o : Int) (hv : v.length < 2 ^ 62) (ho : inInt64 o) :
    getBit v o = .ok (DsStr.getBit (some v) o) := by
  have ho' := inInt64_iff.mp ho
  have hw : wrap .i64 ((v.length : Int) - 1) = (v.length : Int) - 1 := by
    rw [wrap_i64_id]; omega
  unfold getBit DsStr.getBit
  simp only [DsStr.bytes, Option.getD_some, len_eq, hw]
  by_cases hneg : o < 0
  · have hcond : (o < 0 ∨ v.length = 0 ∨ o / 8 > (v.length : Int) - 1) := Or.inl hneg
    simp only [decide_eq_true hneg, Bool.true_or, if_true, hcond]
    rfl
  have hdiv : Int.tdiv o 8 = o / 8 := Int.tdiv_eq_ediv_of_nonneg (by omega)
  have hmod : Int.tmod o 8 = o % 8 := Int.tmod_eq_emod_of_nonneg (by omega)
  rw [hdiv, hmod]
  by_cases hz : v.length = 0
  · have hcond : (o < 0 ∨ v.length = 0 ∨ o / 8 > (v.length : Int) - 1) := Or.inr (Or.inl hz)
    have hz' : ((v.length : Int) == 0) = true := by rw [hz]; rfl
    simp only [hz', Bool.or_true, Bool.true_or, if_true, hcond]
    rfl
  have hz' : ((v.length : Int) == 0) = false := beq_eq_false_iff_ne.mpr (by omega)
  by_cases hi : o / 8 > (v.length : Int) - 1
  · have hcond : (o < 0 ∨ v.length = 0 ∨ o / 8 > (v.length : Int) - 1) := Or.inr (Or.inr hi)
    simp only [decide_eq_true hi, Bool.or_true, if_true, hcond]
    rfl
  have hk : 0 ≤ o % 8 ∧ o % 8 < 8 := by omega
  have hidx : idx v (o / 8) = .ok ((v.getD (o / 8).toNat 0).toNat : Int) := by
    have : 0 ≤ o / 8 ∧ o / 8 < (v.length : Int) := by omega
    simp [idx, this, pure, Except.pure]
  have hsh : wrap .u64 (7 - wrap .u64 (o % 8)) = 7 - o % 8 := by
    rw [wrap_u64, wrap_u64]; omega
  have hf := bit_test_fact ⟨(v.getD (o / 8).toNat 0).toNat, (v.getD (o / 8).toNat 0).toNat_lt⟩ ⟨(o % 8).toNat, by omega⟩
  simp only [UInt8.ofNat_toNat] at hf
  have hcast : (((o % 8).toNat : Nat) : Int) = o % 8 := by omega
  rw [hcast] at hf
  have hcond : ¬ (o < 0 ∨ v.length = 0 ∨ o / 8 > (v.length : Int) - 1) := by omega
  simp only [decide_eq_false hneg, decide_eq_false hi, hz', Bool.or_false, Bool.false_eq_true, if_false, hidx, hsh, bind,
    Except.bind, hcond, DsStr.bitMask, hf]
  simp only [pure, Except.pure]
  split <;> rename_i h <;> simp at h ⊢ <;> simp [h]

end NodisVerif.StrNF
