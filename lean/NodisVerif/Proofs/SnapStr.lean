import NodisVerif.Model.DsStr
import NodisVerif.Proofs.GoLibLemmas
/-
  Normal forms of the translated functions of ds/str/str.go (the translator's output with the receiver `s`
  replaced by its only field `v`), and their equality with the hand-written model Model/DsStr.lean.
  Every run shows `Translated.str.String_.f ⟨v⟩ … = StrNF.f v …` for the freshly translated text
  (translated/str.lean); the theorems here are then reused.
-/
namespace NodisVerif.StrNF
open NodisVerif NodisVerif.GoLib

def GetRange (v : Bytes) (start : Int) (end_ : Int) : GoLib.M Bytes := do
  let mut start := start
  let mut end_ := end_
  let mut bl : Int := (GoLib.len v)
  if (decide (start < 0)) then
    start := (GoLib.wrap .i64 (bl + start))
    if (decide (start < 0)) then
      start := 0
  if (decide (start ≥ (GoLib.len v))) then
    return []
  end_ := (GoLib.wrap .i64 (end_ + 1))
  if (decide (end_ ≤ 0)) then
    end_ := (GoLib.wrap .i64 (end_ + bl))
  if (decide (end_ > bl)) then
    end_ := bl
  if (decide (start > end_)) then
    return []
  return (← GoLib.slice v start end_)

theorem GetRange_eq_model (v : Bytes) (a b : Int) (hv : v.length < 2 ^ 62) (ha : inInt64 a) (hb : inInt64 b) :
    GetRange v a b = .ok ((DsStr.getRange (some v) a b).getD []) := by
  simp [GetRange, DsStr.getRange, DsStr.bytes, len_eq, wrap_i64]
  have ha' := inInt64_iff.mp ha
  have hv' : (v.length : Int) < 4611686018427387904 := by omega
  obtain ⟨e, he⟩ : ∃ e, wrap64 (b + 1) = e := ⟨_, rfl⟩
  have hr := wrap64_range (b + 1)
  rw [he] at hr
  simp only [he]
  have h1 : a < 0 → wrap64 (↑v.length + a) = ↑v.length + a := fun h => wrap64_id (by omega)
  have h2 : e ≤ 0 → wrap64 (e + ↑v.length) = e + ↑v.length := fun h => wrap64_id (by omega)
  simp only [slice]
  by_cases hvn : v = []
  · subst hvn; simp; repeat' split
    all_goals first | rfl | omega | simp_all
  have hp : 0 < (v.length : Int) := by
    have := List.length_pos_iff.mpr hvn; omega
  simp only [hvn, if_false]
  by_cases ha0 : a < 0 <;> by_cases he0 : e ≤ 0 <;>
    (try rw [h1 ha0]) <;> (try rw [h2 he0]) <;> simp only [ha0, he0, if_true, if_false] <;> repeat' split
  all_goals first
    | rfl
    | omega
    | (simp (disch := omega) only [if_pos, if_neg, Option.getD_some, Option.getD_none, pure, Except.pure]; done)
    | (simp (disch := omega) only [if_pos, if_neg, Option.getD_some, Option.getD_none, pure, Except.pure]; congr 3 <;> omega)

end NodisVerif.StrNF
