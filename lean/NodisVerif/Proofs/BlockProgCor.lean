import NodisVerif.Proofs.BlockProgSimC
/-
  Facts about the program model of the blocking pops that need no simulation: which pc emits which event, which
  transitions can never be disabled, how a call can end; and `exec` (a schedule as a list) as a special case of `Reach`.
-/
namespace NodisVerif.Proofs.BlockProg
open NodisVerif.Block NodisVerif.BlockProg NodisVerif.Proofs.Block

deriving instance DecidableEq for Ev

theorem exec_reach {σ0 : Sys} {es0 : List Ev} (h0 : Reach σ0 es0) {sched : List (Tid × Choice)} {σ : Sys}
    {es : List Ev} (h : exec σ0 sched = some (σ, es)) : Reach σ (es0 ++ es) := by
  induction sched generalizing σ0 es0 es with
  | nil => simp only [exec, Option.some.injEq, Prod.mk.injEq] at h; obtain ⟨rfl, rfl⟩ := h; simpa using h0
  | cons x rest ih =>
    obtain ⟨t, ch⟩ := x
    simp only [exec] at h
    cases hs : σ0.step t ch with
    | none => simp [hs] at h
    | some r =>
      obtain ⟨σ1, e⟩ := r
      simp only [hs] at h
      cases hr : exec σ1 rest with
      | none => simp [hr] at h
      | some r2 =>
        obtain ⟨σ2, es2⟩ := r2
        simp only [hr, Option.some.injEq, Prod.mk.injEq] at h
        obtain ⟨rfl, rfl⟩ := h
        have := ih (Reach.step h0 hs) hr
        simpa [List.append_assoc] using this

theorem step_of_tstep {σ : Sys} {t : Tid} {ch : Choice} {s' : Shared} {l' : Loc} {e : Option Ev}
    (h : tstep σ.sh t (σ.thr t) ch = some (s', l', e)) : σ.step t ch = some (⟨s', upd σ.thr t l'⟩, e) := by
  simp [Sys.step, h]

/-- the pcs of a blocking pop -/
def isPop : Pc → Bool
  | .r1 | .r2 | .r3 | .l0 | .l1 | .l2 | .w0 | .w1 | .u1 | .u2 | .u3 => true
  | _ => false

/-- the pcs between the end of the registration and the start of the unregistration -/
def isBody : Pc → Bool
  | .r3 | .l0 | .l1 | .l2 | .w0 | .w1 | .u1 => true
  | _ => false

variable {s s' : Shared} {t : Tid} {l l' : Loc} {ch : Choice} {e : Option Ev}

/-- a thread that holds the registry lock (either side) can always take its next step -/
theorem holder_enabled (s : Shared) (t : Tid) (l : Loc) (ch : Choice)
    (h : holdsW l.pc = true ∨ holdsR l.pc = true) : ∃ r, tstep s t l ch = some r := by
  unfold tstep
  cases hpc : l.pc <;> simp only [hpc, holdsW, holdsR] at h ⊢ <;> try (simp at h; done)
  all_goals (repeat' split)
  all_goals exact ⟨_, rfl⟩

/-- the steps of a push after it has the registry lock, and its commit, are never disabled -/
theorem push_tail_enabled (s : Shared) (t : Tid) (l : Loc) (ch : Choice)
    (h : l.pc = .p3 ∨ l.pc = .p4 ∨ l.pc = .p5 ∨ l.pc = .p6 ∨ l.pc = .p7) : ∃ r, tstep s t l ch = some r := by
  unfold tstep
  rcases h with h | h | h | h | h <;> simp only [h]
  all_goals (repeat' split)
  all_goals exact ⟨_, rfl⟩

/-- a blocking pop goes on inside blockingPop until the `Unlock` of its removeBlockingKeys -/
theorem pop_closed (h : tstep s t l ch = some (s', l', e)) (hp : isPop l.pc = true) (hu : l.pc ≠ .u3) :
    isPop l'.pc = true := by
  unfold tstep at h
  cases hpc : l.pc <;> simp only [hpc, isPop] at h hp hu <;> try (simp at hp; done)
  all_goals (repeat' split at h)
  all_goals (try simp only [Option.some.injEq, Prod.mk.injEq, reduceCtorEq] at h)
  all_goals (try (obtain ⟨_, rfl, _⟩ := h))
  all_goals (try simp only [loopPc])
  all_goals (try split)
  all_goals (first | rfl | (simp at hu; done) | (simp [isPop]; done))

/-- ... and a thread becomes idle only there, or at the end of a push -/
theorem idle_only_after (h : tstep s t l ch = some (s', l', e)) (hi : l'.pc = .idle) :
    l.pc = .idle ∨ l.pc = .u3 ∨ l.pc = .p1 ∨ l.pc = .p7 := by
  unfold tstep at h
  cases hpc : l.pc <;> simp only [hpc] at h <;> try (simp; done)
  all_goals (repeat' split at h)
  all_goals (try simp only [Option.some.injEq, Prod.mk.injEq, reduceCtorEq] at h)
  all_goals (try (obtain ⟨_, rfl, _⟩ := h))
  all_goals (try simp only [loopPc] at hi)
  all_goals (try split at hi)
  all_goals (first | (simp at hi; done) | (simp at h; done))

/-- `timeout` is emitted only at the select, by the thread itself, with a timer -/
theorem timeout_origin {w : W} (h : tstep s t l ch = some (s', l', some (.timeout w))) :
    w = t ∧ l.pc = .w1 ∧ 0 < l.tmo ∧ l'.pc = .u1 := by
  unfold tstep at h
  cases hpc : l.pc <;> simp only [hpc] at h
  all_goals (repeat' split at h)
  all_goals (try simp only [Option.some.injEq, Prod.mk.injEq, reduceCtorEq, and_false, Ev.timeout.injEq] at h)
  obtain ⟨hs', rfl, rfl⟩ := h
  rename_i h1 h2
  exact ⟨rfl, rfl, h2, rfl⟩

/-- `wake` is emitted only at the select, by the thread itself, when its channel is full; the channel is empty after -/
theorem wake_origin {w : W} (h : tstep s t l ch = some (s', l', some (.wake w))) :
    w = t ∧ l.pc = .w1 ∧ s.full t = true ∧ s'.full t = false ∧ l'.pc = .l0 := by
  unfold tstep at h
  cases hpc : l.pc <;> simp only [hpc] at h
  all_goals (repeat' split at h)
  all_goals (try simp only [Option.some.injEq, Prod.mk.injEq, reduceCtorEq, and_false, Ev.wake.injEq] at h)
  obtain ⟨rfl, rfl, rfl⟩ := h
  rename_i h1 h2
  exact ⟨rfl, rfl, h2, by simp, rfl⟩

/-- `try` is emitted only by the pop of `look`, on the key at the loop index, with the outcome the list dictates -/
theorem try_origin {w : W} {k : Key} {got : Bool} (h : tstep s t l ch = some (s', l', some (.try_ w k got))) :
    w = t ∧ l.pc = .l1 ∧ l.keys[l.i]? = some k ∧ s.locked k = none ∧ s.wrong k = false ∧
      got = decide (0 < s.lists k) ∧ (got = false → l'.i = l.i + 1) := by
  unfold tstep at h
  cases hpc : l.pc <;> simp only [hpc] at h
  all_goals (repeat' split at h)
  all_goals (try simp only [Option.some.injEq, Prod.mk.injEq, reduceCtorEq, and_false, Ev.try_.injEq] at h)
  all_goals
    obtain ⟨hs', rfl, rfl, rfl, rfl⟩ := h
    rename_i hk hl hw hn
    refine ⟨rfl, rfl, hk, by simpa using hl, by simpa using hw, by simpa using hn, by simp⟩

/-- `notify` is emitted only by the send of a push round, to the head of the rest of the cList; the channel is full after -/
theorem notify_origin {c : W} {k : Key} (h : tstep s t l ch = some (s', l', some (.notify c k))) :
    l.pc = .p4 ∧ k = l.key ∧ l.todo = c :: l'.todo ∧ s'.full c = true := by
  unfold tstep at h
  cases hpc : l.pc <;> simp only [hpc] at h
  all_goals (repeat' split at h)
  all_goals (try simp only [Option.some.injEq, Prod.mk.injEq, reduceCtorEq, and_false, Ev.notify.injEq] at h)
  all_goals
    obtain ⟨rfl, rfl, rfl, rfl⟩ := h
    rename_i hk _
    exact ⟨rfl, rfl, hk, by simp⟩

end NodisVerif.Proofs.BlockProg
