import NodisVerif.Spec.ZSet
import NodisVerif.Proofs.C04Inv
/-
  The chain of a well-formed sorted set is the reference sorted list `Spec.ZSet.sorted`;
  ZSCORE / ZCARD / ZRANK / ZREVRANK against the reference.
-/
namespace NodisVerif.Proofs.C04
open AListLemmas ZSetLemmas DsZSet

theorem spec_lt_eq (a b : Item) : Spec.ZSet.lt a b = itemLt a b := rfl

/-! ### insertion sort -/

theorem mem_insert (x y : Item) : ∀ (l : List Item), y ∈ Spec.ZSet.insert x l ↔ y = x ∨ y ∈ l := by
  intro l
  induction l with
  | nil => simp [Spec.ZSet.insert]
  | cons a l ih =>
    unfold Spec.ZSet.insert
    split
    · simp
    · simp only [List.mem_cons, ih]
      constructor
      · rintro (h | h | h)
        · exact Or.inr (Or.inl h)
        · exact Or.inl h
        · exact Or.inr (Or.inr h)
      · rintro (h | h | h)
        · exact Or.inr (Or.inl h)
        · exact Or.inl h
        · exact Or.inr (Or.inr h)

theorem insert_pairwise (x : Item) (hx : Good x) : ∀ (l : List Item), l.Pairwise ILt →
    (∀ a ∈ l, Good a) → (∀ a ∈ l, a.2 ≠ x.2) → (Spec.ZSet.insert x l).Pairwise ILt := by
  intro l
  induction l with
  | nil => intro _ _ _; simp [Spec.ZSet.insert]
  | cons a l ih =>
    intro hpw hg hne
    obtain ⟨h1, h2⟩ := List.pairwise_cons.mp hpw
    have ha : Good a := hg a (by simp)
    unfold Spec.ZSet.insert
    by_cases hlt : Spec.ZSet.lt x a = true
    · rw [if_pos hlt]
      refine List.Pairwise.cons ?_ hpw
      intro b hb
      rcases List.mem_cons.mp hb with rfl | hb
      · exact hlt
      · exact itemLt_trans _ _ _ hx ha (hg b (by simp [hb])) hlt (h1 b hb)
    · rw [if_neg hlt]
      have hax : itemLt a x = true :=
        itemLt_total x a hx ha (by simpa [spec_lt_eq] using hlt) (Ne.symm (hne a (by simp)))
      refine List.Pairwise.cons ?_ (ih h2 (fun b hb => hg b (by simp [hb])) (fun b hb => hne b (by simp [hb])))
      intro b hb
      rcases (mem_insert x b l).mp hb with rfl | hb
      · exact hax
      · exact h1 b hb

theorem mem_sort (y : Item) : ∀ (l : List Item), y ∈ Spec.ZSet.sort l ↔ y ∈ l := by
  intro l
  induction l with
  | nil => simp [Spec.ZSet.sort]
  | cons a l ih => simp [Spec.ZSet.sort, mem_insert, ih]

theorem sort_pairwise : ∀ (l : List Item), (∀ a ∈ l, Good a) → l.Pairwise (fun a b => a.2 ≠ b.2) →
    (Spec.ZSet.sort l).Pairwise ILt := by
  intro l
  induction l with
  | nil => intro _ _; simp [Spec.ZSet.sort]
  | cons a l ih =>
    intro hg hd
    obtain ⟨h1, h2⟩ := List.pairwise_cons.mp hd
    unfold Spec.ZSet.sort
    apply insert_pairwise a (hg a (by simp)) _ (ih (fun b hb => hg b (by simp [hb])) h2)
    · intro b hb; exact hg b (by simp [(mem_sort b l).mp hb])
    · intro b hb; exact Ne.symm (h1 b ((mem_sort b l).mp hb))

theorem mem_sorted (z : ZSet) (s : F64) (m : Bytes) : (s, m) ∈ Spec.ZSet.sorted z ↔ (m, s) ∈ z.dict := by
  unfold Spec.ZSet.sorted
  rw [mem_sort, List.mem_map]
  constructor
  · rintro ⟨⟨m', s'⟩, hp, e⟩
    simp only [Prod.mk.injEq] at e
    obtain ⟨rfl, rfl⟩ := e
    exact hp
  · intro h; exact ⟨(m, s), h, rfl⟩

theorem sorted_pairwise_of_dict (z : ZSet) (hd : z.dict.Pairwise KeyLt)
    (hn : ∀ p ∈ z.dict, F64.isNaN p.2 = false) : (Spec.ZSet.sorted z).Pairwise ILt := by
  unfold Spec.ZSet.sorted
  apply sort_pairwise
  · intro a ha
    obtain ⟨p, hp, rfl⟩ := List.mem_map.mp ha
    exact hn p hp
  · rw [List.pairwise_map]
    exact hd.imp (fun hab => lt_ne _ _ hab)

/-- the index never disagrees with the dictionary -/
theorem sl_eq_sorted {z : ZSet} (h : Inv z) : z.sl = Spec.ZSet.sorted z := by
  have hs := sorted_pairwise_of_dict z h.dictPW h.noNaN
  apply sorted_ext (fun a b => ILt a b) _ _ _ h.slPW hs
  · rintro ⟨s, m⟩
    rw [h.mem_iff, mem_sorted]
  · intro a ha b hb hab hba
    exact itemLt_asymm a b (h.good a ha) (h.good b hb) hab hba

/-- the reference list of any set with a key-sorted, NaN-free dictionary is itself a valid chain -/
theorem inv_sorted (z : ZSet) (hd : z.dict.Pairwise KeyLt) (hn : ∀ p ∈ z.dict, F64.isNaN p.2 = false) :
    Inv { dict := z.dict, sl := Spec.ZSet.sorted z } :=
  ⟨hd, hn, sorted_pairwise_of_dict z hd hn, fun s m => mem_sorted z s m⟩

/-! ### ZSCORE, ZCARD -/

theorem score_eq_get? (z : ZSet) (m : Bytes) : Spec.ZSet.score z m = AList.get? z.dict m := by
  unfold Spec.ZSet.score
  induction z.dict with
  | nil => rfl
  | cons p rest ih =>
    obtain ⟨k, v⟩ := p
    simp only [List.find?_cons, AList.get?]
    by_cases hk : k = m
    · simp [hk]
    · simpa [hk] using ih

theorem members_nodup {z : ZSet} (h : Inv z) : (z.sl.map (·.2)).Nodup := by
  have hp := h.perm
  have : (z.sl.map (·.2)).Perm ((z.dict.map swap).map (·.2)) := hp.map _
  refine this.nodup_iff.mpr ?_
  rw [List.map_map]
  unfold List.Nodup
  rw [List.pairwise_map]
  exact h.dictPW.imp (fun hab => lt_ne _ _ hab)

/-! ### ranks -/

theorem takeWhile_split {α : Type} (p : α → Bool) (x : α) : ∀ (l1 l2 : List α),
    (∀ a ∈ l1, p a = true) → p x = true → (∀ b, l2.head? = some b → p b = false) →
    (l1 ++ x :: l2).takeWhile p = l1 ++ [x] := by
  intro l1
  induction l1 with
  | nil =>
    intro l2 _ hx h2
    cases l2 with
    | nil => simp [hx]
    | cons b l2 => simp [hx, h2 b rfl]
  | cons a l1 ih =>
    intro l2 h1 hx h2
    simp only [List.cons_append, List.takeWhile_cons, h1 a (by simp), if_true]
    rw [ih l2 (fun b hb => h1 b (by simp [hb])) hx h2]

theorem findIdx?_split (p : Item → Bool) (x : Item) : ∀ (l1 l2 : List Item),
    (∀ a ∈ l1, p a = false) → p x = true → (l1 ++ x :: l2).findIdx? p = some l1.length := by
  intro l1
  induction l1 with
  | nil => intro l2 _ hx; simp [List.findIdx?_cons, hx]
  | cons a l1 ih =>
    intro l2 h1 hx
    simp only [List.cons_append, List.findIdx?_cons, h1 a (by simp), Bool.false_eq_true, if_false,
      List.length_cons]
    rw [ih l2 (fun b hb => h1 b (by simp [hb])) hx]
    rfl

theorem le_of_lt (a b : Bytes) (h : Bytes.lt a b = true) : Bytes.le a b = true := by
  unfold Bytes.le
  rw [lt_asymm a b h]
  rfl

/-- on a sorted chain, the walk of `getRank` ends on the member and has passed exactly the nodes
    before it -/
theorem slGetRank_split (l1 l2 : List Item) (sc : F64) (m : Bytes)
    (hpw : (l1 ++ (sc, m) :: l2).Pairwise ILt) (hg : ∀ a ∈ l1 ++ (sc, m) :: l2, Good a) :
    slGetRank (l1 ++ (sc, m) :: l2) m sc = (l1.length : Int) + 1 := by
  have hgx : Good (sc, m) := hg _ (by simp)
  have hsc : F64.isNaN sc = false := hgx
  obtain ⟨_, hx2, hcross⟩ := List.pairwise_append.mp hpw
  obtain ⟨hx_lt, _⟩ := List.pairwise_cons.mp hx2
  unfold slGetRank
  simp only
  rw [takeWhile_split _ (sc, m) l1 l2]
  · simp
  · intro a ha
    have hlt : ILt a (sc, m) := hcross a ha (sc, m) (by simp)
    have hga : Good a := hg a (by simp [ha])
    rw [ILt, itemLt_iff a (sc, m) hga hgx] at hlt
    have han : F64.isNaN a.1 = false := hga
    simp only [F64.lt, F64.eq, han, hsc, Bool.not_false, Bool.true_and, Bool.or_eq_true,
      decide_eq_true_eq, Bool.and_eq_true, beq_iff_eq]
    rcases hlt with h | ⟨h1, h2⟩
    · exact Or.inl h
    · exact Or.inr ⟨h1, le_of_lt _ _ h2⟩
  · simp [F64.eq, hsc, Bytes.le, lt_irrefl]
  · intro b hb
    have hbm : b ∈ l2 := by
      cases l2 with
      | nil => simp at hb
      | cons c l2 => simp only [List.head?_cons, Option.some.injEq] at hb; simp [hb]
    have hlt : ILt (sc, m) b := hx_lt b hbm
    have hgb : Good b := hg b (by simp [hbm])
    rw [ILt, itemLt_iff (sc, m) b hgx hgb] at hlt
    have hbn : F64.isNaN b.1 = false := hgb
    simp only [F64.lt, F64.eq, hbn, hsc, Bool.not_false, Bool.true_and, Bool.or_eq_false_iff,
      decide_eq_false_iff_not, Bool.and_eq_false_iff, beq_eq_false_iff_ne, Bytes.le,
      Bool.not_eq_false']
    simp only at hlt
    rcases hlt with h | ⟨h1, h2⟩
    · exact ⟨by omega, Or.inl (by omega)⟩
    · exact ⟨by omega, Or.inr h2⟩

theorem rankOf_split (l1 l2 : List Item) (sc : F64) (m : Bytes)
    (hnd : ((l1 ++ (sc, m) :: l2).map (·.2)).Nodup) :
    Spec.ZSet.rankOf (l1 ++ (sc, m) :: l2) m = some l1.length := by
  unfold Spec.ZSet.rankOf
  apply findIdx?_split
  · intro a ha
    simp only [decide_eq_false_iff_not]
    intro e
    rw [List.map_append, List.map_cons] at hnd
    have := (List.nodup_append.mp hnd).2.2 a.2 (List.mem_map.mpr ⟨a, ha, rfl⟩) m (by simp)
    exact this e
  · simp

theorem rankOf_none (l : List Item) (m : Bytes) (h : ∀ a ∈ l, a.2 ≠ m) :
    Spec.ZSet.rankOf l m = none := by
  unfold Spec.ZSet.rankOf
  rw [List.findIdx?_eq_none_iff]
  intro a ha
  simpa using h a ha

theorem no_member_of_get?_none {z : ZSet} (h : Inv z) (m : Bytes) (hget : AList.get? z.dict m = none) :
    ∀ a ∈ z.sl, a.2 ≠ m := by
  intro a ha
  obtain ⟨s', m'⟩ := a
  exact (get?_none_iff m z.dict).mp hget (m', s') ((h.mem_iff s' m').mp ha)

theorem zRank_spec {z : ZSet} (h : Inv z) (m : Bytes) : zRank z m = Spec.ZSet.rank z m := by
  unfold zRank Spec.ZSet.rank AList.contains getRank
  rw [← sl_eq_sorted h]
  cases hget : AList.get? z.dict m with
  | none =>
    simp only [Option.isSome_none, Bool.false_eq_true, if_false]
    rw [rankOf_none z.sl m (no_member_of_get?_none h m hget)]
    rfl
  | some sc =>
    obtain ⟨l1, l2, hl⟩ := List.append_of_mem ((h.get_iff sc m).mp hget)
    have hpw := h.slPW
    have hg := h.good
    have hnd := members_nodup h
    rw [hl] at hpw hg hnd ⊢
    simp only [Option.isSome_some, if_true, Bool.false_eq_true, if_false]
    rw [slGetRank_split l1 l2 sc m hpw hg, rankOf_split l1 l2 sc m hnd]
    simp only [Option.map_some, Option.some.injEq]
    omega

theorem zRevRank_spec {z : ZSet} (h : Inv z) (m : Bytes) : zRevRank z m = Spec.ZSet.revRank z m := by
  unfold zRevRank Spec.ZSet.revRank Spec.ZSet.card AList.contains getRank
  rw [← sl_eq_sorted h]
  cases hget : AList.get? z.dict m with
  | none =>
    simp only [Option.isSome_none, Bool.false_eq_true, if_false]
    rw [rankOf_none z.sl m (no_member_of_get?_none h m hget)]
    rfl
  | some sc =>
    obtain ⟨l1, l2, hl⟩ := List.append_of_mem ((h.get_iff sc m).mp hget)
    have hpw := h.slPW
    have hg := h.good
    have hnd := members_nodup h
    rw [hl] at hpw hg hnd ⊢
    simp only [Option.isSome_some, if_true]
    rw [slGetRank_split l1 l2 sc m hpw hg, rankOf_split l1 l2 sc m hnd]
    simp only [Option.map_some, Option.some.injEq]
    omega

end NodisVerif.Proofs.C04
