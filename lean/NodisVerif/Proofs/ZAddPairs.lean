import NodisVerif.Model.Api
/-
  Basic facts about the loop of `Api.zaddPairs` (`Api.zaddStep`): the list of records only grows, a
  turn that writes nothing leaves the sorted set alone, and on an empty sorted set without XX the first
  pair is always written (so a key created by the command is never left empty and unsignalled).
-/
namespace NodisVerif.Proofs.ZAddPairs
open NodisVerif NodisVerif.Api

theorem zaddStep_ops_ne (nx xx gt lt : Bool) (a : ZAcc) (p : Bytes × F64) (h : a.ops ≠ []) :
    (zaddStep nx xx gt lt a p).ops ≠ [] := by
  unfold zaddStep
  split
  · split
    · exact h
    · simp
  · split
    · exact h
    · simp

theorem zaddFold_ops_ne (nx xx gt lt : Bool) : ∀ (ps : List (Bytes × F64)) (a : ZAcc), a.ops ≠ [] →
    (ps.foldl (zaddStep nx xx gt lt) a).ops ≠ []
  | [], _, h => h
  | p :: ps, a, h => by
    rw [List.foldl_cons]
    exact zaddFold_ops_ne nx xx gt lt ps _ (zaddStep_ops_ne nx xx gt lt a p h)

/-- the first pair of a ZADD without XX on an empty sorted set is written -/
theorem zaddFold_empty_ops_ne (nx gt lt : Bool) (ps : List (Bytes × F64)) (hps : ps ≠ []) (a : ZAcc)
    (hz : a.z.dict = []) : (ps.foldl (zaddStep nx false gt lt) a).ops ≠ [] := by
  cases ps with
  | nil => exact absurd rfl hps
  | cons p ps =>
    rw [List.foldl_cons]
    apply zaddFold_ops_ne
    unfold zaddStep
    have : DsZSet.zScore a.z p.1 = none := by simp [DsZSet.zScore, hz, AList.get?]
    rw [this]
    simp

/-- nothing emitted ⇒ nothing written -/
theorem zaddStep_ops_nil (nx xx gt lt : Bool) (a : ZAcc) (p : Bytes × F64)
    (h : (zaddStep nx xx gt lt a p).ops = []) : zaddStep nx xx gt lt a p = a := by
  unfold zaddStep at h ⊢
  split <;> split <;> first | rfl | simp_all

theorem zaddFold_ops_nil (nx xx gt lt : Bool) : ∀ (ps : List (Bytes × F64)) (a : ZAcc),
    (ps.foldl (zaddStep nx xx gt lt) a).ops = [] → (ps.foldl (zaddStep nx xx gt lt) a).z = a.z
  | [], _, _ => rfl
  | p :: ps, a, h => by
    rw [List.foldl_cons] at h ⊢
    by_cases h1 : (zaddStep nx xx gt lt a p).ops = []
    · have := zaddStep_ops_nil nx xx gt lt a p h1
      rw [this] at h ⊢
      exact zaddFold_ops_nil nx xx gt lt ps a h
    · exact absurd h (zaddFold_ops_ne nx xx gt lt ps _ h1)

end NodisVerif.Proofs.ZAddPairs
