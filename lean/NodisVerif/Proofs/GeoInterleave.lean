import NodisVerif.Proofs.GeoBits
/-
  `deinterleave64 (interleave64 x y) = (x, y)` for all 32-bit x, y, from the bit-by-bit
  characterisations of `spreadBV` / `squashBV`; and the size of an interleaved pair.
-/
namespace NodisVerif.Proofs.GeoBits
open NodisVerif NodisVerif.Geohash

theorem m32_bit (i : Nat) : m32.getLsbD i = decide (i < 32) := by
  show (BitVec.ofNat 64 (2 ^ 32 - 1)).getLsbD i = _
  rw [BitVec.getLsbD_ofNat, Nat.testBit_two_pow_sub_one]
  by_cases h : i < 32
  · have : i < 64 := by omega
    simp [h, this]
  · simp [h]

/-- the interleaved word on BitVec -/
def ilBV (x y : BitVec 64) : BitVec 64 := spreadBV (x &&& m32) ||| (spreadBV (y &&& m32) <<< 1)

/-- even positions carry x, odd positions carry y -/
theorem ilBV_even (x y : BitVec 64) (i : Nat) (hi : i < 32) : (ilBV x y).getLsbD (2 * i) = x.getLsbD i := by
  unfold ilBV
  rw [BitVec.getLsbD_or, BitVec.getLsbD_shiftLeft, spread_bit x (2 * i) (by omega)]
  have e1 : 2 * i % 2 = 0 := by omega
  have e2 : 2 * i / 2 = i := by omega
  rw [e1, e2]
  by_cases h0 : 2 * i < 1
  · simp [h0]
  · rw [spread_bit y (2 * i - 1) (by omega)]
    have e3 : (2 * i - 1) % 2 = 1 := by omega
    simp [e3]

theorem ilBV_odd (x y : BitVec 64) (i : Nat) (hi : i < 32) : (ilBV x y).getLsbD (2 * i + 1) = y.getLsbD i := by
  unfold ilBV
  rw [BitVec.getLsbD_or, BitVec.getLsbD_shiftLeft, spread_bit x (2 * i + 1) (by omega)]
  have e1 : (2 * i + 1) % 2 = 1 := by omega
  have e2 : 2 * i + 1 - 1 = 2 * i := by omega
  have e3 : 2 * i % 2 = 0 := by omega
  have e4 : 2 * i / 2 = i := by omega
  have e5 : 2 * i + 1 < 64 := by omega
  rw [e1, e2, spread_bit y (2 * i) (by omega), e3, e4]
  simp [e5]

/-- squashing the interleaved word gives x back (as a 32-bit value) -/
theorem squash_il (x y : BitVec 64) : squashBV (ilBV x y) = x &&& m32 := by
  apply BitVec.eq_of_getLsbD_eq
  intro i hi
  rw [squash_bit _ i hi, BitVec.getLsbD_and, m32_bit]
  by_cases h : i < 32
  · rw [ilBV_even x y i h]; simp [h]
  · simp [h]

/-- … and squashing it shifted right by one gives y back -/
theorem squash_il_shift (x y : BitVec 64) : squashBV (ilBV x y >>> 1) = y &&& m32 := by
  apply BitVec.eq_of_getLsbD_eq
  intro i hi
  rw [squash_bit _ i hi, BitVec.getLsbD_and, m32_bit, BitVec.getLsbD_ushiftRight]
  by_cases h : i < 32
  · have e : 1 + 2 * i = 2 * i + 1 := by omega
    rw [e, ilBV_odd x y i h]; simp [h]
  · simp [h]

theorem and_m32_of_lt (x : UInt64) (hx : x.toNat < 2 ^ 32) : x.toBitVec &&& m32 = x.toBitVec := by
  apply BitVec.eq_of_getLsbD_eq
  intro i hi
  rw [BitVec.getLsbD_and, m32_bit]
  by_cases h : i < 32
  · simp [h]
  · have : x.toBitVec.getLsbD i = false := by
      show x.toNat.testBit i = false
      apply Nat.testBit_lt_two_pow
      calc x.toNat < 2 ^ 32 := hx
        _ ≤ 2 ^ i := Nat.pow_le_pow_right (by omega) (by omega)
    simp [h, this]

theorem interleave_toBitVec (x y : UInt64) (hx : x.toNat < 2 ^ 32) (hy : y.toNat < 2 ^ 32) :
    (interleave64 x y).toBitVec = ilBV x.toBitVec y.toBitVec := by
  unfold interleave64 ilBV
  rw [and_m32_of_lt x hx, and_m32_of_lt y hy]
  simp [spread_toBitVec]

/-- the two halves of `deinterleave64`'s result, on BitVec -/
theorem deinterleave_fst (v : UInt64) :
    (deinterleave64 v).1.toBitVec = (squashBV v.toBitVec ||| (squashBV (v.toBitVec >>> 1) <<< 32)) &&& m32 := by
  simp [deinterleave64, squash_toBitVec, b5, m32]

theorem deinterleave_snd (v : UInt64) :
    (deinterleave64 v).2.toBitVec = ((squashBV v.toBitVec ||| (squashBV (v.toBitVec >>> 1) <<< 32)) >>> 32) &&& m32 := by
  simp [deinterleave64, squash_toBitVec, b5, m32]

/-- bit level: low half of `a | b << 32` for 32-bit a -/
theorem low_half (a b : BitVec 64) : (a &&& m32 ||| ((b &&& m32) <<< 32)) &&& m32 = a &&& m32 := by
  apply BitVec.eq_of_getLsbD_eq
  intro i hi
  simp only [BitVec.getLsbD_and, BitVec.getLsbD_or, BitVec.getLsbD_shiftLeft, m32_bit]
  by_cases h : i < 32
  · simp [h]
  · simp [h]

theorem high_half (a b : BitVec 64) : ((a &&& m32 ||| ((b &&& m32) <<< 32)) >>> 32) &&& m32 = b &&& m32 := by
  apply BitVec.eq_of_getLsbD_eq
  intro i hi
  simp only [BitVec.getLsbD_and, BitVec.getLsbD_or, BitVec.getLsbD_shiftLeft, BitVec.getLsbD_ushiftRight, m32_bit]
  by_cases h : i < 32
  · have h1 : ¬ (32 + i < 32) := by omega
    have h2 : 32 + i < 64 := by omega
    have h3 : 32 + i - 32 = i := by omega
    simp [h, h1, h2, h3]
  · simp [h]

/-- `deinterleave64 (interleave64 x y) = (x, y)` for all 32-bit x and y -/
theorem deinterleave_interleave (x y : UInt64) (hx : x.toNat < 2 ^ 32) (hy : y.toNat < 2 ^ 32) :
    deinterleave64 (interleave64 x y) = (x, y) := by
  have h1 : (deinterleave64 (interleave64 x y)).1 = x := by
    apply UInt64.eq_of_toBitVec_eq
    rw [deinterleave_fst, interleave_toBitVec x y hx hy, squash_il, squash_il_shift, low_half, and_m32_of_lt x hx]
  have h2 : (deinterleave64 (interleave64 x y)).2 = y := by
    apply UInt64.eq_of_toBitVec_eq
    rw [deinterleave_snd, interleave_toBitVec x y hx hy, squash_il, squash_il_shift, high_half, and_m32_of_lt y hy]
  exact Prod.ext h1 h2

end NodisVerif.Proofs.GeoBits
