import NodisVerif.Proofs.C09Table1
import NodisVerif.Proofs.C09Writers3
import NodisVerif.Model.Handler3
import NodisVerif.Proofs.C15Decimal
/-
  C09 (WATCH soundness), the handler table of Model/Handler3.lean (`Handler3.table3`: the sorted-set
  family, ZUNIONSTORE / ZINTERSTORE, SSCAN / HSCAN / ZSCAN) and its two fixtures (SADD, HSET): every
  closure a handler hands to `execCommand` tells the watchers about every key whose logical content it
  changes (`SignalsChanges`, C09Changed.lean). Recipe as in C09Table1.lean: `Frame [] st (b st now ch).store`
  from the `frame_*` table of C09Writers3.lean, plus `Frame []` lemmas for the read-only API functions.

  Exclusions: ZREM / ZREMRANGEBYRANK / ZREMRANGEBYSCORE. `SignalsChanges` quantifies over ALL Pebble
  stores, and on a store where the key holds an existing EMPTY sorted set these three unlink the record
  without signalling (`C09Writers.holdsEmptyZSet`; such a store is NOT known to be reachable, see
  C09Writers3.lean). They are proved relative to the store (`tells_zRem_partial` …) and the literal-store
  counterexample is given as `…_region_witness` — not as a finding.
-/
set_option linter.unusedSectionVars false
set_option linter.unusedVariables false

namespace NodisVerif.Proofs.C08Step.T3
open Resp Server
open NodisVerif NodisVerif.Store NodisVerif.Api
open NodisVerif.Proofs.C09Writers
open NodisVerif.Handler3 (Pre)

/-! ## helpers -/

/-- `call r k` when the continuation itself goes on working on the store -/
theorem frame_call2 {st : MState} (r : MState × Out) (k : MState → Out → BodyOut)
    (h : Frame [] st r.1) (hk : ∀ o, Frame [] st (k r.1 o).store) : Frame [] st (Handler.call r k).store := by
  obtain ⟨s1, o⟩ := r
  unfold Handler.call
  split
  · next heq => cases heq; exact h
  · next heq => cases heq; exact hk _

/-- every `.exec` closure of a handler result signals its changes -/
def ExecSignals (r : HRes) : Prop := ∀ b, r = .exec b → SignalsChanges b

theorem execSignals_err : ExecSignals Handler.errReply := fun _ h => nomatch h
theorem execSignals_crash : ExecSignals .crash := fun _ h => nomatch h
theorem execSignals_exec {b : Body} (hb : SignalsChanges b) : ExecSignals (.exec b) := fun _ h => by
  cases h; exact hb
theorem execSignals_ite {c : Prop} [Decidable c] {x y : HRes} (hx : ExecSignals x) (hy : ExecSignals y) :
    ExecSignals (if c then x else y) := by
  split
  · exact hx
  · exact hy

/-- every value a `Pre` computation can deliver satisfies `Q` -/
def PreAll {α : Type} (Q : α → Prop) : Pre α → Prop
  | .ok a => Q a
  | _ => True

theorem preAll_bind {α β : Type} {Q : β → Prop} (x : Pre α) (f : α → Pre β) (h : ∀ a, PreAll Q (f a)) :
    PreAll Q (x >>= f) := by
  cases x with
  | ok a => exact h a
  | err => trivial
  | crash => trivial
  | unsup => trivial

theorem preAll_pure {α : Type} {Q : α → Prop} {a : α} (h : Q a) : PreAll Q (pure a : Pre α) := h
theorem preAll_ok {α : Type} {Q : α → Prop} {a : α} (h : Q a) : PreAll Q (Pre.ok a) := h
theorem preAll_err {α : Type} {Q : α → Prop} : PreAll Q (Pre.err : Pre α) := trivial
theorem preAll_crash {α : Type} {Q : α → Prop} : PreAll Q (Pre.crash : Pre α) := trivial

theorem preAll_ite {α : Type} {Q : α → Prop} {c : Prop} [Decidable c] {x y : Pre α}
    (hx : PreAll Q x) (hy : PreAll Q y) : PreAll Q (if c then x else y) := by
  split
  · exact hx
  · exact hy

/-- the closure `Pre.run` makes for float text outside the model's fragment leaves the store alone -/
theorem execSignals_run {p : Pre HRes} (h : PreAll ExecSignals p) : ExecSignals p.run := by
  cases p with
  | ok r => exact h
  | err => exact execSignals_err
  | crash => exact execSignals_crash
  | unsup => exact execSignals_exec (signals_of_frame fun st _ _ _ => Frame.refl _ st)

set_option hygiene false in
/-- walk down a `do` block of `Pre`: every bound value is arbitrary -/
macro "pre_steps" : tactic => `(tactic|
  repeat' (first
    | (refine preAll_bind _ _ ?_; intro (x : _ × _); obtain ⟨_, _⟩ := x; dsimp only)
    | (refine preAll_bind _ _ ?_; intro _)
    | (refine preAll_ite ?_ ?_)
    | exact preAll_err
    | exact preAll_crash))

/-! ## read-only API functions of the sorted-set / hash / set families -/

theorem frame_zread (f : ZSet → Out) (d : Out) (s : MState) (now : Int) (key : Bytes) :
    Frame [] s (Api.zread f d s now key).1 := by
  unfold Api.zread
  rk s now key
  split
  · exact h
  · split <;> exact h

theorem frame_hread (f : AList Bytes → Out) (d : Out) (s : MState) (now : Int) (key : Bytes) :
    Frame [] s (Api.hread f d s now key).1 := by
  unfold Api.hread
  rk s now key
  split
  · exact h
  · split <;> exact h

theorem frame_zcard (s : MState) (now : Int) (key : Bytes) : Frame [] s (Api.zcard s now key).1 :=
  frame_zread _ _ s now key
theorem frame_zrank (s : MState) (now : Int) (key m : Bytes) : Frame [] s (Api.zrank s now key m).1 :=
  frame_zread _ _ s now key
theorem frame_zrevrank (s : MState) (now : Int) (key m : Bytes) : Frame [] s (Api.zrevrank s now key m).1 :=
  frame_zread _ _ s now key
theorem frame_rankWithScore (desc : Bool) (s : MState) (now : Int) (key m : Bytes) :
    Frame [] s (Api.rankWithScore desc s now key m).1 :=
  frame_zread _ _ s now key
theorem frame_zscore (s : MState) (now : Int) (key m : Bytes) : Frame [] s (Api.zscore s now key m).1 :=
  frame_zread _ _ s now key
theorem frame_zrange (desc ws : Bool) (s : MState) (now : Int) (key : Bytes) (a b : Int) :
    Frame [] s (Api.zrange desc ws s now key a b).1 :=
  frame_zread _ _ s now key
theorem frame_zrangeByScore (desc ws : Bool) (s : MState) (now : Int) (key : Bytes) (min max : F64)
    (offset count mode : Int) : Frame [] s (Api.zrangeByScore desc ws s now key min max offset count mode).1 :=
  frame_zread _ _ s now key
theorem frame_zexists (s : MState) (now : Int) (key m : Bytes) : Frame [] s (Api.zexists s now key m).1 :=
  frame_zread _ _ s now key
theorem frame_zcount (s : MState) (now : Int) (key : Bytes) (min max : F64) (mode : Int) :
    Frame [] s (Api.zcount s now key min max mode).1 :=
  frame_zread _ _ s now key
theorem frame_zmax (s : MState) (now : Int) (key : Bytes) : Frame [] s (Api.zmax s now key).1 :=
  frame_zread _ _ s now key
theorem frame_zmin (s : MState) (now : Int) (key : Bytes) : Frame [] s (Api.zmin s now key).1 :=
  frame_zread _ _ s now key
theorem frame_zscan (s : MState) (now : Int) (key : Bytes) (cursor : Int) (pat : Bytes) (count : Int) :
    Frame [] s (Api.zscan s now key cursor pat count).1 :=
  frame_zread _ _ s now key
theorem frame_sscan (s : MState) (now : Int) (key : Bytes) (cursor : Int) (pat : Bytes) (count : Int) :
    Frame [] s (Api.sscan s now key cursor pat count).1 :=
  frame_sread _ _ s now key
theorem frame_scard (s : MState) (now : Int) (key : Bytes) : Frame [] s (Api.scard s now key).1 :=
  frame_sread _ _ s now key
theorem frame_hscan (s : MState) (now : Int) (key : Bytes) (cursor : Int) (pat : Bytes) (count : Int) :
    Frame [] s (Api.hscan s now key cursor pat count).1 :=
  frame_hread _ _ s now key
theorem frame_hlen (s : MState) (now : Int) (key : Bytes) : Frame [] s (Api.hlen s now key).1 :=
  frame_hread _ _ s now key

/-! ## rendering leaves the store alone -/

theorem store_panicOut (s : MState) (ts : List Tok) : (Handler3.panicOut s ts).store = s := rfl

theorem store_writeMembers (s : MState) (o : Out) : (Handler3.writeMembers s o).store = s := by
  unfold Handler3.writeMembers
  split <;> rfl

theorem store_writeItems_go (s : MState) : ∀ (items : List (Option Item)) (acc : List Tok),
    (Handler3.writeItems.go s items acc).store = s
  | [], acc => by unfold Handler3.writeItems.go; rfl
  | none :: _, acc => by unfold Handler3.writeItems.go; rfl
  | some (sc, m) :: rest, acc => by
    unfold Handler3.writeItems.go
    exact store_writeItems_go s rest _

theorem store_writeItems (s : MState) (o : Out) : (Handler3.writeItems s o).store = s := by
  unfold Handler3.writeItems
  split
  · exact store_writeItems_go s _ _
  · rfl
  · rfl

theorem store_writeRange (ws : Bool) (s : MState) (o : Out) : (Handler3.writeRange ws s o).store = s := by
  unfold Handler3.writeRange
  split
  · exact store_writeItems s o
  · exact store_writeMembers s o

/-! ## ZADD -/

theorem frame_zAddBody (args : List Bytes) (key : Bytes) (itemStart : Int) (s : MState) (now : Int) (ch : Choice)
    (hp : s.pebble = true) : Frame [] s (Handler3.zAddBody args key itemStart s now ch).store := by
  unfold Handler3.zAddBody
  dsimp only
  split
  · exact Frame.refl _ _
  · split
    · exact Frame.refl _ _
    · split
      · exact Frame.refl _ _
      · split
        · exact Frame.refl _ _
        · split
          · exact Frame.refl _ _
          · split
            · split
              · exact Frame.refl _ _
              · exact frame_call _ _ (fun _ o => by split <;> rfl) (frame_zincrby s hp now key _ _)
            · exact frame_call _ _ (fun _ _ => rfl) (frame_zaddPairs s hp now key _ _ _ _ _ _)

theorem signals_zAdd (args : List Bytes) (b : Body) (h : Handler3.zAdd args = .exec b) : SignalsChanges b := by
  unfold Handler3.zAdd at h
  dsimp only at h
  exec_cases
  exact signals_of_frame fun st now ch hp => frame_zAddBody _ _ _ st now ch hp

/-! ## the read-only sorted-set commands -/

theorem signals_zCard (args : List Bytes) (b : Body) (h : Handler3.zCard args = .exec b) : SignalsChanges b := by
  unfold Handler3.zCard at h
  exec_cases
  exact signals_of_frame fun st now _ hp => frame_call _ _ (fun _ _ => rfl) (frame_zcard st now _)

theorem signals_rankBody (desc : Bool) (args : List Bytes) : SignalsChanges (Handler3.rankBody desc args) := by
  refine signals_of_frame fun st now _ hp => ?_
  unfold Handler3.rankBody
  split
  · split
    · exact frame_call _ _ (fun _ o => by split <;> rfl) (frame_rankWithScore desc st now _ _)
    · refine frame_call _ _ (fun _ o => by split <;> rfl) ?_
      cases desc
      · exact frame_zrank st now _ _
      · exact frame_zrevrank st now _ _
  · exact Frame.refl _ _

theorem signals_zRank (args : List Bytes) (b : Body) (h : Handler3.zRank args = .exec b) : SignalsChanges b := by
  unfold Handler3.zRank at h
  exec_cases
  exact signals_rankBody false args

theorem signals_zRevRank (args : List Bytes) (b : Body) (h : Handler3.zRevRank args = .exec b) : SignalsChanges b := by
  unfold Handler3.zRevRank at h
  exec_cases
  exact signals_rankBody true args

theorem signals_zScore (args : List Bytes) (b : Body) (h : Handler3.zScore args = .exec b) : SignalsChanges b := by
  unfold Handler3.zScore at h
  exec_cases
  exact signals_of_frame fun st now _ hp => frame_call _ _ (fun _ o => by split <;> rfl) (frame_zscore st now _ _)

theorem signals_zIncrBy (args : List Bytes) (b : Body) (h : Handler3.zIncrBy args = .exec b) : SignalsChanges b := by
  unfold Handler3.zIncrBy at h
  split at h
  · refine execSignals_run ?_ b h
    pre_steps
    exact preAll_pure (execSignals_exec (signals_of_frame fun st now _ hp =>
      frame_call _ _ (fun _ o => by split <;> rfl) (frame_zincrby st hp now _ _ _)))
  · cases h

theorem execSignals_byScoreBody (key : Bytes) (desc ws : Bool) (min max : F64) (offset count mode : Int) :
    ExecSignals (Handler3.byScoreBody key desc ws min max offset count mode) :=
  execSignals_exec (signals_of_frame fun st now _ hp =>
    frame_call _ _ (fun s o => store_writeRange ws s o) (frame_zrangeByScore desc ws st now key min max offset count mode))

theorem execSignals_byRankBody (key : Bytes) (desc ws : Bool) (start stop : Int) :
    ExecSignals (Handler3.byRankBody key desc ws start stop) :=
  execSignals_exec (signals_of_frame fun st now _ hp =>
    frame_call _ _ (fun s o => store_writeRange ws s o) (frame_zrange desc ws st now key start stop))

theorem preAll_limitP (args : List Bytes) {Q : Int × Int → Prop} (h : ∀ x, Q x) : PreAll Q (Handler3.limitP args) := by
  cases Handler3.limitP args <;> first | exact h _ | trivial

theorem signals_zRange (args : List Bytes) (b : Body) (h : Handler3.zRange args = .exec b) : SignalsChanges b := by
  unfold Handler3.zRange at h
  split at h
  · dsimp only at h
    split at h
    · refine execSignals_run ?_ b h
      pre_steps
      exact preAll_pure (execSignals_byScoreBody _ _ _ _ _ _ _ _)
    · refine execSignals_run ?_ b h
      pre_steps
      exact preAll_pure (execSignals_byRankBody _ _ _ _ _)
  · cases h

theorem signals_zRevRange (args : List Bytes) (b : Body) (h : Handler3.zRevRange args = .exec b) : SignalsChanges b := by
  unfold Handler3.zRevRange at h
  split at h
  · refine execSignals_run ?_ b h
    pre_steps
    exact preAll_pure (execSignals_byRankBody _ _ _ _ _)
  · cases h

theorem signals_zRangeByScore (args : List Bytes) (b : Body) (h : Handler3.zRangeByScore args = .exec b) :
    SignalsChanges b := by
  unfold Handler3.zRangeByScore at h
  split at h
  · refine execSignals_run ?_ b h
    pre_steps
    exact preAll_pure (execSignals_byScoreBody _ _ _ _ _ _ _ _)
  · cases h

theorem signals_zRevRangeByScore (args : List Bytes) (b : Body) (h : Handler3.zRevRangeByScore args = .exec b) :
    SignalsChanges b := by
  unfold Handler3.zRevRangeByScore at h
  split at h
  · refine execSignals_run ?_ b h
    pre_steps
    exact preAll_pure (execSignals_byScoreBody _ _ _ _ _ _ _ _)
  · cases h

theorem signals_zCount (args : List Bytes) (b : Body) (h : Handler3.zCount args = .exec b) : SignalsChanges b := by
  unfold Handler3.zCount at h
  split at h
  · refine execSignals_run ?_ b h
    pre_steps
    exact preAll_pure (execSignals_exec (signals_of_frame fun st now _ hp =>
      frame_call _ _ (fun _ _ => rfl) (frame_zcount st now _ _ _ _)))
  · cases h

theorem signals_zExists (args : List Bytes) (b : Body) (h : Handler3.zExists args = .exec b) : SignalsChanges b := by
  unfold Handler3.zExists at h
  dsimp only at h
  exec_cases
  all_goals
    refine signals_of_frame fun st now _ hp => ?_
    first
      | exact frame_call _ _ (fun _ _ => rfl) (frame_zexists st now _ _)
      | exact Frame.refl _ _

theorem signals_zClear (args : List Bytes) (b : Body) (h : Handler3.zClear args = .exec b) : SignalsChanges b := by
  unfold Handler3.zClear at h
  dsimp only at h
  exec_cases
  all_goals
    refine signals_of_frame fun st now _ hp => ?_
    first
      | exact Frame.refl _ _
      | exact frame_call _ _ (fun _ _ => rfl) (frame_del st hp now _)

/-! ## ZUNIONSTORE / ZINTERSTORE -/

theorem signals_zStoreBody (union : Bool) (dst : Bytes) (keys : List Bytes) (weights : List F64) (agg : Bytes) :
    SignalsChanges fun s now _ =>
      Handler.call (Api.zstore union s now dst keys weights agg) fun s o =>
        match o with
        | .unsupported => Handler.done s [Handler3.unsupported]
        | .hang => Handler.done s []
        | _ => Handler.call (Api.zcard (Api.commit s) now dst) fun s o => Handler.done s [.int (Handler.intOf o)] := by
  refine signals_of_frame fun st now _ hp => ?_
  have h1 := frame_zstore union st hp now dst keys weights agg
  refine frame_call2 _ _ h1 (fun o => ?_)
  split
  · exact h1
  · exact h1
  · exact h1.trans0 ((frame_commit _).trans0 (frame_call _ _ (fun _ _ => rfl) (frame_zcard _ now dst)))

theorem signals_zStore (union : Bool) (args : List Bytes) (b : Body) (h : Handler3.zStore union args = .exec b) :
    SignalsChanges b := by
  unfold Handler3.zStore at h
  split at h
  · cases h
  · refine execSignals_run ?_ b h
    pre_steps
    all_goals exact preAll_pure (execSignals_exec (signals_zStoreBody union _ _ _ _))

/-! ## SSCAN / HSCAN / ZSCAN -/

theorem frame_nextCursor {st s : MState} (card : MState → Int → Bytes → Api.R)
    (hcard : ∀ s now key, Frame [] s (card s now key).1) (now : Int) (key : Bytes) (next : Int)
    (k : MState → Int → BodyOut) (hk : ∀ s n, (k s n).store = s) (h : Frame [] st s) :
    Frame [] st (Handler3.nextCursor card s now key next k).store := by
  unfold Handler3.nextCursor
  exact h.trans0 ((frame_commit _).trans0 (frame_call _ _ (fun _ _ => hk _ _) (hcard _ now key)))

theorem preAll_matchCountP (args : List Bytes) (thr dflt : Int) {Q : Bytes × Int → Prop} (h : ∀ x, Q x) :
    PreAll Q (Handler3.matchCountP args thr dflt) := by
  cases Handler3.matchCountP args thr dflt <;> first | exact h _ | trivial

theorem signals_sScan (args : List Bytes) (b : Body) (h : Handler3.sScan args = .exec b) : SignalsChanges b := by
  unfold Handler3.sScan at h
  split at h
  · cases h
  · refine execSignals_run ?_ b h
    pre_steps
    refine preAll_pure (execSignals_exec (signals_of_frame fun st now _ hp => ?_))
    refine frame_call2 _ _ (frame_sscan st now _ _ _ _) (fun o => ?_)
    split
    · exact frame_nextCursor Api.scard frame_scard now _ _ _ (fun _ _ => rfl) (frame_sscan st now _ _ _ _)
    · exact frame_sscan st now _ _ _ _

theorem signals_hScan (args : List Bytes) (b : Body) (h : Handler3.hScan args = .exec b) : SignalsChanges b := by
  unfold Handler3.hScan at h
  split at h
  · cases h
  · refine execSignals_run ?_ b h
    pre_steps
    refine preAll_pure (execSignals_exec (signals_of_frame fun st now _ hp => ?_))
    refine frame_call2 _ _ (frame_hscan st now _ _ _ _) (fun o => ?_)
    split
    · exact frame_nextCursor Api.hlen frame_hlen now _ _ _ (fun _ _ => rfl) (frame_hscan st now _ _ _ _)
    · exact frame_hscan st now _ _ _ _

theorem signals_zScan (args : List Bytes) (b : Body) (h : Handler3.zScan args = .exec b) : SignalsChanges b := by
  unfold Handler3.zScan at h
  split at h
  · cases h
  · refine execSignals_run ?_ b h
    pre_steps
    refine preAll_pure (execSignals_exec (signals_of_frame fun st now _ hp => ?_))
    refine frame_call2 _ _ (frame_zscan st now _ _ _ _) (fun o => ?_)
    split
    · exact frame_nextCursor Api.zcard frame_zcard now _ _ _ (fun s _ => store_writeItems s _)
        (frame_zscan st now _ _ _ _)
    · exact frame_zscan st now _ _ _ _

/-! ## fixtures: SADD, HSET -/

theorem signals_sAddFixture (args : List Bytes) (b : Body) (h : Handler3.sAddFixture args = .exec b) :
    SignalsChanges b := by
  unfold Handler3.sAddFixture at h
  exec_cases
  exact signals_of_frame fun st now _ hp => frame_call _ _ (fun _ _ => rfl) (frame_sadd st hp now _ _)

theorem signals_hSetFixture (args : List Bytes) (b : Body) (h : Handler3.hSetFixture args = .exec b) :
    SignalsChanges b := by
  unfold Handler3.hSetFixture at h
  split at h
  case h_2 => cases h
  next key f v more =>
  cases h
  refine signals_of_frame fun st now _ hp => ?_
  have h1 := frame_hset st hp now key f v
  refine frame_call2 _ _ h1 (fun o => ?_)
  split
  · exact h1
  · exact h1.trans0 ((frame_commit _).trans0 (frame_call _ _ (fun _ _ => rfl)
      (frame_hmset _ (h1.commit.pebble hp) now _ _)))

/-! ## ZREM / ZREMRANGEBYRANK / ZREMRANGEBYSCORE: relative to the store -/

/-
  FULL STATEMENTS (false), for h ∈ {zRem, zRemRangeByRank, zRemRangeByScore}:
    theorem signals_zRem (args) (b) (h : Handler3.zRem args = .exec b) : SignalsChanges b
  `SignalsChanges` quantifies over every Pebble store. On a store where the key argument holds an existing
  EMPTY sorted set (`C09Writers.holdsEmptyZSet`), the call removes nothing (reply 0), unlinks the record
  because the set is empty, and signals only when something was removed. Whether such a store is reachable
  is open (C09Writers3.lean: no API path to it is known, 9.3 million call sequences of length ≤ 3 find
  none), so what follows is (1) the statement relative to the store, outside the region, and (2) the
  literal-store counterexample under the name `_region_witness` — NOT a finding.
-/

/-- the region, relative to the store: the first argument (the key) holds an existing empty sorted set -/
def zRemRegion (st : MState) (now : Int) (args : List Bytes) : Bool :=
  match args with
  | key :: _ => holdsEmptyZSet st now key
  | [] => false

/-- every `.exec` closure of a handler result, run on this store, tells what it changes -/
def ExecTells (st : MState) (now : Int) (ch : Choice) (r : HRes) : Prop :=
  ∀ b, r = .exec b → TellsChanges st (b st now ch)

theorem execTells_exec {st : MState} {now : Int} {ch : Choice} {b : Body} (hb : TellsChanges st (b st now ch)) :
    ExecTells st now ch (.exec b) := fun _ h => by cases h; exact hb

theorem execTells_run {st : MState} {now : Int} {ch : Choice} (hp : st.pebble = true) {p : Pre HRes}
    (h : PreAll (ExecTells st now ch) p) : ExecTells st now ch p.run := by
  cases p with
  | ok r => exact h
  | err => exact fun _ h => nomatch h
  | crash => exact fun _ h => nomatch h
  | unsup => exact execTells_exec (tells_of_frame hp (Frame.refl _ st))

theorem argP_cons_zero (key : Bytes) (rest : List Bytes) : Handler3.argP (key :: rest) 0 = .ok key := by
  simp [Handler3.argP, argAt]

theorem pre_ok_bind {α β : Type} (a : α) (f : α → Pre β) : (Pre.ok a >>= f) = f a := rfl

theorem tells_zRem_partial (args : List Bytes) (b : Body) (h : Handler3.zRem args = .exec b)
    (st : MState) (now : Int) (ch : Choice) (hp : st.pebble = true) (hreg : zRemRegion st now args = false) :
    TellsChanges st (b st now ch) := by
  unfold Handler3.zRem at h
  dsimp only at h
  split at h
  · cases h
  · cases h
    cases args with
    | nil => exact tells_of_frame hp (Frame.refl _ st)
    | cons key ms =>
      exact tells_of_frame hp (frame_call _ _ (fun _ _ => rfl) (frame_zrem st hp now key ms hreg))

theorem tells_zRemRangeByRank_partial (args : List Bytes) (b : Body) (h : Handler3.zRemRangeByRank args = .exec b)
    (st : MState) (now : Int) (ch : Choice) (hp : st.pebble = true) (hreg : zRemRegion st now args = false) :
    TellsChanges st (b st now ch) := by
  unfold Handler3.zRemRangeByRank at h
  dsimp only at h
  split at h
  · cases h
  · cases args with
    | nil => cases h
    | cons key rest =>
      rw [argP_cons_zero, pre_ok_bind] at h
      refine execTells_run hp ?_ b h
      pre_steps
      exact preAll_pure (execTells_exec (tells_of_frame hp
        (frame_call _ _ (fun _ _ => rfl) (frame_zremRangeByRank st hp now key _ _ hreg))))

theorem tells_zRemRangeByScore_partial (args : List Bytes) (b : Body) (h : Handler3.zRemRangeByScore args = .exec b)
    (st : MState) (now : Int) (ch : Choice) (hp : st.pebble = true) (hreg : zRemRegion st now args = false) :
    TellsChanges st (b st now ch) := by
  unfold Handler3.zRemRangeByScore at h
  dsimp only at h
  split at h
  · cases h
  · cases args with
    | nil => cases h
    | cons key rest =>
      rw [argP_cons_zero, pre_ok_bind] at h
      refine execTells_run hp ?_ b h
      pre_steps
      exact preAll_pure (execTells_exec (tells_of_frame hp
        (frame_call _ _ (fun _ _ => rfl) (frame_zremRangeByScore st hp now key _ _ _ hreg))))

/-- `ZREM k m`, `ZREMRANGEBYRANK k 0 -1`, `ZREMRANGEBYSCORE k 0 0` -/
def zRemArgs : List Bytes := [[107], [109]]
def zRemRankArgs : List Bytes := [[107], [48], [45, 49]]
def zRemScoreArgs : List Bytes := [[107], [48], [48]]

/-- the region hypothesis is necessary — on the hand-written, POSSIBLY UNREACHABLE store
    `C09Writers.emptyZSetStore` (the key holds an existing empty sorted set): the closure unlinks the record,
    signals nothing, the store is not flushed. Not a finding unless that store is shown reachable. -/
theorem signals_zRem_region_witness :
    ∃ b, Handler3.zRem zRemArgs = .exec b ∧
      let o := b emptyZSetStore 0 none
      changed emptyZSetStore o.store [107] ∧ [107] ∉ o.store.signalled ∧ o.store.flushed = false :=
  ⟨_, rfl, by decide⟩

theorem signals_zRemRangeByRank_region_witness :
    ∃ b, Handler3.zRemRangeByRank zRemRankArgs = .exec b ∧
      let o := b emptyZSetStore 0 none
      changed emptyZSetStore o.store [107] ∧ [107] ∉ o.store.signalled ∧ o.store.flushed = false :=
  ⟨_, rfl, by decide⟩

theorem parseFloat_zero : FloatText.parseFloat [48] = some (some 0) := by decide +kernel

theorem floatP_zero : Handler3.floatP [48] = .ok 0 := by
  unfold Handler3.floatP FloatText.redisFloat
  have : (if (48 : UInt8) = 40 then ([] : Bytes) else [48]) = [48] := by decide
  simp only [this, parseFloat_zero]
  rfl

/-- the closure of `ZREMRANGEBYSCORE k 0 0` -/
theorem zRemRangeByScore_zero :
    Handler3.zRemRangeByScore zRemScoreArgs = .exec fun s now _ =>
      Handler.call (Api.zremRangeByScore s now [107] 0 0 0) fun s o => Handler.done s [.int (Handler.intOf o)] := by
  have a0 : Handler3.argP zRemScoreArgs 0 = .ok [107] := by simp [Handler3.argP, argAt, zRemScoreArgs]
  have a1 : Handler3.argP zRemScoreArgs 1 = .ok [48] := by simp [Handler3.argP, argAt, zRemScoreArgs]
  have a2 : Handler3.argP zRemScoreArgs 2 = .ok [48] := by simp [Handler3.argP, argAt, zRemScoreArgs]
  unfold Handler3.zRemRangeByScore
  dsimp only
  rw [if_neg (by decide)]
  simp only [a0, a1, a2, pre_ok_bind, floatP_zero]
  rfl

theorem signals_zRemRangeByScore_region_witness :
    ∃ b, Handler3.zRemRangeByScore zRemScoreArgs = .exec b ∧
      let o := b emptyZSetStore 0 none
      changed emptyZSetStore o.store [107] ∧ [107] ∉ o.store.signalled ∧ o.store.flushed = false :=
  ⟨_, zRemRangeByScore_zero, by decide⟩

theorem not_signals_of_witness {b : Body}
    (hw : let o := b emptyZSetStore 0 none
      changed emptyZSetStore o.store [107] ∧ [107] ∉ o.store.signalled ∧ o.store.flushed = false) :
    ¬ SignalsChanges b := by
  intro hb
  obtain ⟨hc, hs, hf⟩ := hw
  rcases (hb emptyZSetStore 0 none rfl rfl).2 [107] hc with h | h
  · exact hs h
  · rw [hf] at h; cases h

/-- hence `SignalsChanges`, which quantifies over ALL Pebble stores, fails for the three closures -/
theorem signals_zRem_false : ¬ ∀ (args : List Bytes) (b : Body), Handler3.zRem args = .exec b → SignalsChanges b := by
  intro hall
  obtain ⟨b, hb, hw⟩ := signals_zRem_region_witness
  exact not_signals_of_witness hw (hall _ b hb)

theorem signals_zRemRangeByRank_false :
    ¬ ∀ (args : List Bytes) (b : Body), Handler3.zRemRangeByRank args = .exec b → SignalsChanges b := by
  intro hall
  obtain ⟨b, hb, hw⟩ := signals_zRemRangeByRank_region_witness
  exact not_signals_of_witness hw (hall _ b hb)

theorem signals_zRemRangeByScore_false :
    ¬ ∀ (args : List Bytes) (b : Body), Handler3.zRemRangeByScore args = .exec b → SignalsChanges b := by
  intro hall
  obtain ⟨b, hb, hw⟩ := signals_zRemRangeByScore_region_witness
  exact not_signals_of_witness hw (hall _ b hb)

/-- non-vacuity: the witness arguments give closures; on stores reached through the API (empty store, the
    store after `ZADD k 0 m`) they are outside the region, on `emptyZSetStore` inside -/
example : (∃ b, Handler3.zRem zRemArgs = .exec b) ∧ zRemRegion ({ pebble := true } : MState) 0 zRemArgs = false ∧
    zRemRegion oneZSetStore 0 zRemArgs = false ∧ zRemRegion emptyZSetStore 0 zRemArgs = true :=
  ⟨⟨_, rfl⟩, by decide⟩
example : (∃ b, Handler3.zRemRangeByRank zRemRankArgs = .exec b) ∧ zRemRegion oneZSetStore 0 zRemRankArgs = false :=
  ⟨⟨_, rfl⟩, by decide⟩
example : (∃ b, Handler3.zRemRangeByScore zRemScoreArgs = .exec b) ∧ zRemRegion oneZSetStore 0 zRemScoreArgs = false :=
  ⟨⟨_, zRemRangeByScore_zero⟩, by decide⟩

/-! ## the table -/

/-- the three commands whose closures are only proved relative to the store -/
def zRemNames : List String := ["ZREM", "ZREMRANGEBYRANK", "ZREMRANGEBYSCORE"]

/-- `Handler3.table3` without the three commands for which `SignalsChanges` (all stores) is false -/
def table3Safe : Table := fun name args =>
  if name ∈ zRemNames then none else Handler3.table3 name args

theorem table3_signals_partial (name : String) (args : List Bytes) (b : Body)
    (h : Handler3.table3 name args = some (.exec b)) (hn : name ∉ zRemNames) : SignalsChanges b := by
  unfold Handler3.table3 at h
  split at h
  all_goals first
    | cases h; done
    | (exfalso; exact hn (by decide))
    | skip
  all_goals injection h with h
  · exact signals_zAdd _ _ h
  · exact signals_zCard _ _ h
  · exact signals_zRank _ _ h
  · exact signals_zRevRank _ _ h
  · exact signals_zScore _ _ h
  · exact signals_zIncrBy _ _ h
  · exact signals_zRange _ _ h
  · exact signals_zRevRange _ _ h
  · exact signals_zRangeByScore _ _ h
  · exact signals_zRevRangeByScore _ _ h
  · exact signals_zCount _ _ h
  · exact signals_zStore _ _ _ h
  · exact signals_zStore _ _ _ h
  · exact signals_zClear _ _ h
  · exact signals_zExists _ _ h
  · exact signals_sScan _ _ h
  · exact signals_hScan _ _ h
  · exact signals_zScan _ _ h

theorem table3Safe_signals : TableSignals table3Safe := by
  intro name args b h
  unfold table3Safe at h
  split at h
  · cases h
  · next hn => exact table3_signals_partial name args b h hn

/-- the fixture table (SADD, HSET), full strength -/
theorem fixtures_signals : TableSignals Handler3.fixtures := by
  intro name args b h
  unfold Handler3.fixtures at h
  split at h
  · injection h with h; exact signals_sAddFixture _ _ h
  · injection h with h; exact signals_hSetFixture _ _ h
  · cases h

/-- finer than `table3Safe`: the whole table, relative to the store — for ZREM & co outside the region
    (the key argument does not hold an existing empty sorted set in THIS store) -/
theorem table3_tells_region (name : String) (args : List Bytes) (b : Body)
    (h : Handler3.table3 name args = some (.exec b)) (st : MState) (now : Int) (ch : Choice)
    (hp : st.pebble = true) (hsig : st.signalled = [])
    (hreg : name ∈ zRemNames → zRemRegion st now args = false) : TellsChanges st (b st now ch) := by
  by_cases hn : name ∈ zRemNames
  · have hr := hreg hn
    simp only [zRemNames, List.mem_cons, List.not_mem_nil, or_false] at hn
    rcases hn with rfl | rfl | rfl
    · have h' : Handler3.zRem args = .exec b := by
        have : Handler3.table3 "ZREM" args = some (Handler3.zRem args) := rfl
        rw [this] at h; injection h
      exact tells_zRem_partial args b h' st now ch hp hr
    · have h' : Handler3.zRemRangeByRank args = .exec b := by
        have : Handler3.table3 "ZREMRANGEBYRANK" args = some (Handler3.zRemRangeByRank args) := rfl
        rw [this] at h; injection h
      exact tells_zRemRangeByRank_partial args b h' st now ch hp hr
    · have h' : Handler3.zRemRangeByScore args = .exec b := by
        have : Handler3.table3 "ZREMRANGEBYSCORE" args = some (Handler3.zRemRangeByScore args) := rfl
        rw [this] at h; injection h
      exact tells_zRemRangeByScore_partial args b h' st now ch hp hr
  · exact table3_signals_partial name args b h hn st now ch hp hsig

/-- the full table statement (over ALL Pebble stores, reachable or not) is false -/
theorem table3_signals_false : ¬ TableSignals Handler3.table3 := by
  intro hall
  obtain ⟨b, hb, hw⟩ := signals_zRem_region_witness
  have h1 : Handler3.table3 "ZREM" zRemArgs = some (.exec b) := by
    have : Handler3.table3 "ZREM" zRemArgs = some (Handler3.zRem zRemArgs) := rfl
    rw [this, hb]
  exact not_signals_of_witness hw (hall "ZREM" zRemArgs b h1)

/- UNPROVED: nothing is left unproved for `Handler3.table3` + `Handler3.fixtures`.
   Full strength (`signals_<h>`, in `table3Safe` / `fixtures_signals`): ZADD (all option forms), ZCARD, ZRANK,
   ZREVRANK, ZSCORE, ZINCRBY, ZRANGE, ZREVRANGE, ZRANGEBYSCORE, ZREVRANGEBYSCORE, ZCOUNT, ZUNIONSTORE,
   ZINTERSTORE, ZCLEAR, ZEXISTS, SSCAN, HSCAN, ZSCAN; fixtures SADD, HSET.
   Excluded from `table3Safe` by name: ZREM, ZREMRANGEBYRANK, ZREMRANGEBYSCORE — `SignalsChanges` (all stores) is
   false for them (`signals_zRem*_false`), but only through the hand-written store `emptyZSetStore`, which is not
   known to be reachable: `_region_witness`, no `_finding`. They are covered relative to the store by
   `tells_zRem*_partial` / `table3_tells_region` (region `zRemRegion st now args`).
   OPEN (not attempted): carrying an invariant "no live empty sorted set" through `C08Step.step`, which would turn
   `table3_tells_region` into an unconditional statement on reachable servers. -/

end NodisVerif.Proofs.C08Step.T3
