import NodisVerif.Proofs.C08Frame
/-
  `runBody`, `unwatchAll`, `watch`: exact effect on store, registry and connections.
-/
namespace NodisVerif.Proofs.C08Step
open Resp Server
open NodisVerif.Proofs.AListLemmas2

/-- like `Flagged`, but the store may have changed -/
structure FlaggedC (S : String → Bytes → Prop) (sv sv' : Server) : Prop where
  registry : sv'.registry = sv.registry
  state : ∀ id, (sv'.conn id).state = (sv.conn id).state
  queue : ∀ id, (sv'.conn id).queue = (sv.conn id).queue
  hit : ∀ id x, S id x → AList.get? (sv'.conn id).watch x = some true
  miss : ∀ id x, ¬ S id x → AList.get? (sv'.conn id).watch x = AList.get? (sv.conn id).watch x
  same : ∀ id, (∀ x, ¬ S id x) → sv'.conn id = sv.conn id

theorem FlaggedC.flag_mono {S : String → Bytes → Prop} {a b : Server} (h : FlaggedC S a b) (id : String) (x : Bytes)
    (ht : AList.get? (a.conn id).watch x = some true) : AList.get? (b.conn id).watch x = some true := by
  by_cases hs : S id x
  · exact h.hit id x hs
  · rw [h.miss id x hs]; exact ht

theorem FlaggedC.contains_mono {S : String → Bytes → Prop} {a b : Server} (h : FlaggedC S a b) (id : String) (x : Bytes)
    (ht : AList.contains (a.conn id).watch x = true) : AList.contains (b.conn id).watch x = true := by
  by_cases hs : S id x
  · simp [AList.contains, h.hit id x hs]
  · simpa [AList.contains, h.miss id x hs] using ht

/-- the store a closure sees: `signalled`, the lock table and the hang flag start empty -/
def prep (st : MState) : MState := { st with signalled := [], held := [], hung := false }

/-- the result of running closure `b` on store `st` -/
def outOf (st : MState) (now : Int) (ch : Choice) (b : Body) : BodyOut := b (prep st) now ch

/-- what the connection receives from one closure: a recovered panic adds one error token -/
def replyOf (o : BodyOut) : List Tok := if o.panicked then o.toks ++ [Tok.err 1] else o.toks

/-- the store the server is left with after a closure -/
def storeAfter (o : BodyOut) : MState := { o.store with held := [], signalled := [], flushed := false }

theorem runBody_eq (sv : Server) (now : Int) (ch : Choice) (b : Body) :
    runBody sv now ch b =
      (applySignals { sv with store := { (outOf sv.store now ch b).store with held := [] } },
       replyOf (outOf sv.store now ch b)) := rfl

theorem runBody_toks (sv : Server) (now : Int) (ch : Choice) (b : Body) :
    (runBody sv now ch b).2 = replyOf (outOf sv.store now ch b) := rfl

theorem runBody_store (sv : Server) (now : Int) (ch : Choice) (b : Body) :
    (runBody sv now ch b).1.store = storeAfter (outOf sv.store now ch b) := by
  rw [runBody_eq, applySignals_eq']
  simp only [storeAfter]
  rw [(applyFlags_flagged _).store]

/-- running one closure: flags are set exactly for the pairs hit by its store effect -/
theorem runBody_flagged (sv : Server) (now : Int) (ch : Choice) (b : Body) :
    FlaggedC (hits sv.registry (outOf sv.store now ch b).store) sv (runBody sv now ch b).1 := by
  rw [runBody_eq, applySignals_eq']
  have h := applyFlags_flagged { sv with store := { (outOf sv.store now ch b).store with held := [] } }
  exact ⟨h.registry, h.state, h.queue, h.hit, h.miss, h.same⟩

/-! ### unwatchAll -/

/-- the registry side of `unwatchAll`: leave the list of every watched key -/
def regLoop (id : String) (w : AList Bool) (sv : Server) : Server :=
  w.foldl (fun (sv : Server) (key, _) =>
    match AList.get? sv.registry key with
    | none => sv
    | some ids => { sv with registry := AList.set sv.registry key (ids.filter (· ≠ id)) }) sv

theorem unwatchAll_eq (sv : Server) (id : String) :
    unwatchAll sv id = (regLoop id (sv.conn id).watch sv).setConn id
      { ((regLoop id (sv.conn id).watch sv).conn id) with watch := [] } := rfl

theorem regLoop_cons (id : String) (key : Bytes) (fl : Bool) (rest : AList Bool) (sv : Server) :
    regLoop id ((key, fl) :: rest) sv = regLoop id rest (match AList.get? sv.registry key with
      | none => sv
      | some ids => { sv with registry := AList.set sv.registry key (ids.filter (· ≠ id)) }) := rfl

theorem regLoop_frame (id : String) : ∀ (w : AList Bool) (sv : Server),
    (regLoop id w sv).store = sv.store ∧ (regLoop id w sv).conns = sv.conns := by
  intro w
  induction w with
  | nil => intro sv; exact ⟨rfl, rfl⟩
  | cons p rest ih =>
    intro sv
    obtain ⟨key, fl⟩ := p
    rw [regLoop_cons]
    cases AList.get? sv.registry key with
    | none => exact ih sv
    | some ids => exact ih _

theorem regLoop_conn (id : String) (w : AList Bool) (sv : Server) (i : String) :
    (regLoop id w sv).conn i = sv.conn i := by
  simp [Server.conn, (regLoop_frame id w sv).2]

theorem regLoop_registry (id : String) : ∀ (w : AList Bool) (sv : Server) (x : Bytes),
    AList.get? (regLoop id w sv).registry x =
      (AList.get? sv.registry x).map (fun ids => if x ∈ w.map (·.1) then ids.filter (· ≠ id) else ids) := by
  intro w
  induction w with
  | nil => intro sv x; simp [regLoop]
  | cons p rest ih =>
    intro sv x
    obtain ⟨key, fl⟩ := p
    rw [regLoop_cons]
    cases hk : AList.get? sv.registry key with
    | none =>
      simp only
      rw [ih]
      by_cases hx : x = key
      · subst hx; simp [hk]
      · simp [hx]
    | some ids =>
      simp only
      rw [ih]
      simp only [get?_set]
      by_cases hx : x = key
      · subst hx
        simp only [if_true, hk, Option.map_some, List.map_cons, List.mem_cons, true_or, List.filter_filter]
        congr 1
        split <;> simp
      · simp [hx]

theorem regLoop_sorted (id : String) : ∀ (w : AList Bool) (sv : Server),
    AList.Sorted sv.registry → AList.Sorted (regLoop id w sv).registry := by
  intro w
  induction w with
  | nil => intro sv h; exact h
  | cons p rest ih =>
    intro sv h
    obtain ⟨key, fl⟩ := p
    rw [regLoop_cons]
    cases AList.get? sv.registry key with
    | none => exact ih sv h
    | some ids => exact ih _ (set_preserves_sorted _ h _ _)

@[simp] theorem unwatchAll_store (sv : Server) (id : String) : (unwatchAll sv id).store = sv.store := by
  rw [unwatchAll_eq]; simp [(regLoop_frame id _ sv).1]

theorem unwatchAll_conn_same (sv : Server) (id : String) :
    (unwatchAll sv id).conn id = { (sv.conn id) with watch := [] } := by
  rw [unwatchAll_eq]; simp [regLoop_conn]

theorem unwatchAll_conn_other (sv : Server) (id i : String) (h : i ≠ id) :
    (unwatchAll sv id).conn i = sv.conn i := by
  rw [unwatchAll_eq, conn_setConn_other _ _ _ _ h, regLoop_conn]

theorem unwatchAll_registry (sv : Server) (id : String) (x : Bytes) :
    AList.get? (unwatchAll sv id).registry x =
      (AList.get? sv.registry x).map
        (fun ids => if x ∈ (sv.conn id).watch.map (·.1) then ids.filter (· ≠ id) else ids) := by
  rw [unwatchAll_eq]; simp [regLoop_registry]

theorem unwatchAll_sorted (sv : Server) (id : String) (h : AList.Sorted sv.registry) :
    AList.Sorted (unwatchAll sv id).registry := by
  rw [unwatchAll_eq]; exact regLoop_sorted id _ sv h

end NodisVerif.Proofs.C08Step
