import NodisVerif.Proofs.GateProgWatch
/-
  After EXEC / DISCARD the connection's watches are gone - and stay gone until its next command, whatever the other
  goroutines signal (`reach_gone`), because it has left every watcher list (`WInv`).
-/
namespace NodisVerif.GateProg
open NodisVerif.Gate (G T GMode Ev GState)

def goneOk (l : Loc) (cs : ConnSt) : Bool :=
  match l.pc with
  | .u3 => cs.watch.isEmpty
  | .dOut | .dUnlock | .dRec | .flush | .idle => !isExecOrDiscard l.cmd || cs.watch.isEmpty
  | _ => true

set_option hygiene false in
macro "gone_simp" : tactic => `(tactic|
  simp_all [goneOk, doneOk, isExecOrDiscard, ok, frame, bodyOk, cmdGate, gateIs, epilogue, startBody, afterTx, isBpop, qcmdOf,
    ConnSt.reset, ConnSt.runsNow, ConnSt.none?])

set_option hygiene false in
macro "gone_tac" : tactic => `(tactic| (
  simp only [tstep, hpc] at hs
  repeat' split at hs
  all_goals (first | (cases hs; done) | skip)
  all_goals (try (injection hs with hs; injection hs with h1 h2; injection h2 with h2 h3; subst h1 h2))
  all_goals (simp only [ok, doneOk, goneOk, hpc] at h hd hg)
  all_goals (first
    | (gone_simp; done)
    | (cases hc : l.cmd <;> gone_simp; done)
    | (cases hx : l.ctx <;> gone_simp; done)
    | (cases hh : l.held <;> gone_simp; done)
    | (gone_simp <;> grind)
    | (cases hx : l.ctx <;> cases hc : l.cmd <;> cases hh : l.held <;> gone_simp <;> grind))))

theorem gone_idle {s : Shared} {t : Tid} {l : Loc} {ch : Choice} {s' l' evs} (hpc : l.pc = .idle)
    (h : ok l (s.conn t).commit = true) (hd : doneOk l (s.conn t) = true) (hg : goneOk l (s.conn t) = true)
    (hs : tstep s t l ch = some (s', l', evs)) : goneOk l' (s'.conn t) = true := by
  gone_tac

theorem gone_sw {s : Shared} {t : Tid} {l : Loc} {ch : Choice} {s' l' evs} (hpc : l.pc = .sw)
    (h : ok l (s.conn t).commit = true) (hd : doneOk l (s.conn t) = true) (hg : goneOk l (s.conn t) = true)
    (hs : tstep s t l ch = some (s', l', evs)) : goneOk l' (s'.conn t) = true := by
  gone_tac

theorem gone_xIn {s : Shared} {t : Tid} {l : Loc} {ch : Choice} {s' l' evs} (hpc : l.pc = .xIn)
    (h : ok l (s.conn t).commit = true) (hd : doneOk l (s.conn t) = true) (hg : goneOk l (s.conn t) = true)
    (hs : tstep s t l ch = some (s', l', evs)) : goneOk l' (s'.conn t) = true := by
  gone_tac

theorem gone_sIn {s : Shared} {t : Tid} {l : Loc} {ch : Choice} {s' l' evs} (hpc : l.pc = .sIn)
    (h : ok l (s.conn t).commit = true) (hd : doneOk l (s.conn t) = true) (hg : goneOk l (s.conn t) = true)
    (hs : tstep s t l ch = some (s', l', evs)) : goneOk l' (s'.conn t) = true := by
  gone_tac

theorem gone_bServe {s : Shared} {t : Tid} {l : Loc} {ch : Choice} {s' l' evs} (hpc : l.pc = .bServe)
    (h : ok l (s.conn t).commit = true) (hd : doneOk l (s.conn t) = true) (hg : goneOk l (s.conn t) = true)
    (hs : tstep s t l ch = some (s', l', evs)) : goneOk l' (s'.conn t) = true := by
  gone_tac

theorem gone_call {s : Shared} {t : Tid} {l : Loc} {ch : Choice} {s' l' evs} (hpc : l.pc = .call)
    (h : ok l (s.conn t).commit = true) (hd : doneOk l (s.conn t) = true) (hg : goneOk l (s.conn t) = true)
    (hs : tstep s t l ch = some (s', l', evs)) : goneOk l' (s'.conn t) = true := by
  gone_tac

theorem gone_ec {s : Shared} {t : Tid} {l : Loc} {ch : Choice} {s' l' evs} (hpc : l.pc = .ec)
    (h : ok l (s.conn t).commit = true) (hd : doneOk l (s.conn t) = true) (hg : goneOk l (s.conn t) = true)
    (hs : tstep s t l ch = some (s', l', evs)) : goneOk l' (s'.conn t) = true := by
  gone_tac

theorem gone_b0 {s : Shared} {t : Tid} {l : Loc} {ch : Choice} {s' l' evs} (hpc : l.pc = .b0)
    (h : ok l (s.conn t).commit = true) (hd : doneOk l (s.conn t) = true) (hg : goneOk l (s.conn t) = true)
    (hs : tstep s t l ch = some (s', l', evs)) : goneOk l' (s'.conn t) = true := by
  gone_tac

theorem gone_b1 {s : Shared} {t : Tid} {l : Loc} {ch : Choice} {s' l' evs} (hpc : l.pc = .b1)
    (h : ok l (s.conn t).commit = true) (hd : doneOk l (s.conn t) = true) (hg : goneOk l (s.conn t) = true)
    (hs : tstep s t l ch = some (s', l', evs)) : goneOk l' (s'.conn t) = true := by
  gone_tac

theorem gone_b2 {s : Shared} {t : Tid} {l : Loc} {ch : Choice} {s' l' evs} (hpc : l.pc = .b2)
    (h : ok l (s.conn t).commit = true) (hd : doneOk l (s.conn t) = true) (hg : goneOk l (s.conn t) = true)
    (hs : tstep s t l ch = some (s', l', evs)) : goneOk l' (s'.conn t) = true := by
  gone_tac

theorem gone_g1 {s : Shared} {t : Tid} {l : Loc} {ch : Choice} {s' l' evs} (hpc : l.pc = .g1)
    (h : ok l (s.conn t).commit = true) (hd : doneOk l (s.conn t) = true) (hg : goneOk l (s.conn t) = true)
    (hs : tstep s t l ch = some (s', l', evs)) : goneOk l' (s'.conn t) = true := by
  gone_tac

theorem gone_g3 {s : Shared} {t : Tid} {l : Loc} {ch : Choice} {s' l' evs} (hpc : l.pc = .g3)
    (h : ok l (s.conn t).commit = true) (hd : doneOk l (s.conn t) = true) (hg : goneOk l (s.conn t) = true)
    (hs : tstep s t l ch = some (s', l', evs)) : goneOk l' (s'.conn t) = true := by
  gone_tac

theorem gone_b3 {s : Shared} {t : Tid} {l : Loc} {ch : Choice} {s' l' evs} (hpc : l.pc = .b3)
    (h : ok l (s.conn t).commit = true) (hd : doneOk l (s.conn t) = true) (hg : goneOk l (s.conn t) = true)
    (hs : tstep s t l ch = some (s', l', evs)) : goneOk l' (s'.conn t) = true := by
  gone_tac

theorem gone_bret {s : Shared} {t : Tid} {l : Loc} {ch : Choice} {s' l' evs} (hpc : l.pc = .bret)
    (h : ok l (s.conn t).commit = true) (hd : doneOk l (s.conn t) = true) (hg : goneOk l (s.conn t) = true)
    (hs : tstep s t l ch = some (s', l', evs)) : goneOk l' (s'.conn t) = true := by
  gone_tac

theorem gone_p0 {s : Shared} {t : Tid} {l : Loc} {ch : Choice} {s' l' evs} (hpc : l.pc = .p0)
    (h : ok l (s.conn t).commit = true) (hd : doneOk l (s.conn t) = true) (hg : goneOk l (s.conn t) = true)
    (hs : tstep s t l ch = some (s', l', evs)) : goneOk l' (s'.conn t) = true := by
  gone_tac

theorem gone_p1 {s : Shared} {t : Tid} {l : Loc} {ch : Choice} {s' l' evs} (hpc : l.pc = .p1)
    (h : ok l (s.conn t).commit = true) (hd : doneOk l (s.conn t) = true) (hg : goneOk l (s.conn t) = true)
    (hs : tstep s t l ch = some (s', l', evs)) : goneOk l' (s'.conn t) = true := by
  gone_tac

theorem gone_p2 {s : Shared} {t : Tid} {l : Loc} {ch : Choice} {s' l' evs} (hpc : l.pc = .p2)
    (h : ok l (s.conn t).commit = true) (hd : doneOk l (s.conn t) = true) (hg : goneOk l (s.conn t) = true)
    (hs : tstep s t l ch = some (s', l', evs)) : goneOk l' (s'.conn t) = true := by
  gone_tac

theorem gone_p3 {s : Shared} {t : Tid} {l : Loc} {ch : Choice} {s' l' evs} (hpc : l.pc = .p3)
    (h : ok l (s.conn t).commit = true) (hd : doneOk l (s.conn t) = true) (hg : goneOk l (s.conn t) = true)
    (hs : tstep s t l ch = some (s', l', evs)) : goneOk l' (s'.conn t) = true := by
  gone_tac

theorem gone_p4 {s : Shared} {t : Tid} {l : Loc} {ch : Choice} {s' l' evs} (hpc : l.pc = .p4)
    (h : ok l (s.conn t).commit = true) (hd : doneOk l (s.conn t) = true) (hg : goneOk l (s.conn t) = true)
    (hs : tstep s t l ch = some (s', l', evs)) : goneOk l' (s'.conn t) = true := by
  gone_tac

theorem gone_p5 {s : Shared} {t : Tid} {l : Loc} {ch : Choice} {s' l' evs} (hpc : l.pc = .p5)
    (h : ok l (s.conn t).commit = true) (hd : doneOk l (s.conn t) = true) (hg : goneOk l (s.conn t) = true)
    (hs : tstep s t l ch = some (s', l', evs)) : goneOk l' (s'.conn t) = true := by
  gone_tac

theorem gone_w1 {s : Shared} {t : Tid} {l : Loc} {ch : Choice} {s' l' evs} (hpc : l.pc = .w1)
    (h : ok l (s.conn t).commit = true) (hd : doneOk l (s.conn t) = true) (hg : goneOk l (s.conn t) = true)
    (hs : tstep s t l ch = some (s', l', evs)) : goneOk l' (s'.conn t) = true := by
  gone_tac

theorem gone_w2 {s : Shared} {t : Tid} {l : Loc} {ch : Choice} {s' l' evs} (hpc : l.pc = .w2)
    (h : ok l (s.conn t).commit = true) (hd : doneOk l (s.conn t) = true) (hg : goneOk l (s.conn t) = true)
    (hs : tstep s t l ch = some (s', l', evs)) : goneOk l' (s'.conn t) = true := by
  gone_tac

theorem gone_w3 {s : Shared} {t : Tid} {l : Loc} {ch : Choice} {s' l' evs} (hpc : l.pc = .w3)
    (h : ok l (s.conn t).commit = true) (hd : doneOk l (s.conn t) = true) (hg : goneOk l (s.conn t) = true)
    (hs : tstep s t l ch = some (s', l', evs)) : goneOk l' (s'.conn t) = true := by
  gone_tac

theorem gone_u1 {s : Shared} {t : Tid} {l : Loc} {ch : Choice} {s' l' evs} (hpc : l.pc = .u1)
    (h : ok l (s.conn t).commit = true) (hd : doneOk l (s.conn t) = true) (hg : goneOk l (s.conn t) = true)
    (hs : tstep s t l ch = some (s', l', evs)) : goneOk l' (s'.conn t) = true := by
  gone_tac

theorem gone_u2 {s : Shared} {t : Tid} {l : Loc} {ch : Choice} {s' l' evs} (hpc : l.pc = .u2)
    (h : ok l (s.conn t).commit = true) (hd : doneOk l (s.conn t) = true) (hg : goneOk l (s.conn t) = true)
    (hs : tstep s t l ch = some (s', l', evs)) : goneOk l' (s'.conn t) = true := by
  gone_tac

theorem gone_u3 {s : Shared} {t : Tid} {l : Loc} {ch : Choice} {s' l' evs} (hpc : l.pc = .u3)
    (h : ok l (s.conn t).commit = true) (hd : doneOk l (s.conn t) = true) (hg : goneOk l (s.conn t) = true)
    (hs : tstep s t l ch = some (s', l', evs)) : goneOk l' (s'.conn t) = true := by
  gone_tac

theorem gone_e1 {s : Shared} {t : Tid} {l : Loc} {ch : Choice} {s' l' evs} (hpc : l.pc = .e1)
    (h : ok l (s.conn t).commit = true) (hd : doneOk l (s.conn t) = true) (hg : goneOk l (s.conn t) = true)
    (hs : tstep s t l ch = some (s', l', evs)) : goneOk l' (s'.conn t) = true := by
  gone_tac

theorem gone_e3 {s : Shared} {t : Tid} {l : Loc} {ch : Choice} {s' l' evs} (hpc : l.pc = .e3)
    (h : ok l (s.conn t).commit = true) (hd : doneOk l (s.conn t) = true) (hg : goneOk l (s.conn t) = true)
    (hs : tstep s t l ch = some (s', l', evs)) : goneOk l' (s'.conn t) = true := by
  gone_tac

theorem gone_e4 {s : Shared} {t : Tid} {l : Loc} {ch : Choice} {s' l' evs} (hpc : l.pc = .e4)
    (h : ok l (s.conn t).commit = true) (hd : doneOk l (s.conn t) = true) (hg : goneOk l (s.conn t) = true)
    (hs : tstep s t l ch = some (s', l', evs)) : goneOk l' (s'.conn t) = true := by
  gone_tac

theorem gone_e5 {s : Shared} {t : Tid} {l : Loc} {ch : Choice} {s' l' evs} (hpc : l.pc = .e5)
    (h : ok l (s.conn t).commit = true) (hd : doneOk l (s.conn t) = true) (hg : goneOk l (s.conn t) = true)
    (hs : tstep s t l ch = some (s', l', evs)) : goneOk l' (s'.conn t) = true := by
  gone_tac

theorem gone_e6 {s : Shared} {t : Tid} {l : Loc} {ch : Choice} {s' l' evs} (hpc : l.pc = .e6)
    (h : ok l (s.conn t).commit = true) (hd : doneOk l (s.conn t) = true) (hg : goneOk l (s.conn t) = true)
    (hs : tstep s t l ch = some (s', l', evs)) : goneOk l' (s'.conn t) = true := by
  gone_tac

theorem gone_ec1 {s : Shared} {t : Tid} {l : Loc} {ch : Choice} {s' l' evs} (hpc : l.pc = .ec1)
    (h : ok l (s.conn t).commit = true) (hd : doneOk l (s.conn t) = true) (hg : goneOk l (s.conn t) = true)
    (hs : tstep s t l ch = some (s', l', evs)) : goneOk l' (s'.conn t) = true := by
  gone_tac

theorem gone_ec2 {s : Shared} {t : Tid} {l : Loc} {ch : Choice} {s' l' evs} (hpc : l.pc = .ec2)
    (h : ok l (s.conn t).commit = true) (hd : doneOk l (s.conn t) = true) (hg : goneOk l (s.conn t) = true)
    (hs : tstep s t l ch = some (s', l', evs)) : goneOk l' (s'.conn t) = true := by
  gone_tac

theorem gone_edef {s : Shared} {t : Tid} {l : Loc} {ch : Choice} {s' l' evs} (hpc : l.pc = .edef)
    (h : ok l (s.conn t).commit = true) (hd : doneOk l (s.conn t) = true) (hg : goneOk l (s.conn t) = true)
    (hs : tstep s t l ch = some (s', l', evs)) : goneOk l' (s'.conn t) = true := by
  gone_tac

theorem gone_dOut {s : Shared} {t : Tid} {l : Loc} {ch : Choice} {s' l' evs} (hpc : l.pc = .dOut)
    (h : ok l (s.conn t).commit = true) (hd : doneOk l (s.conn t) = true) (hg : goneOk l (s.conn t) = true)
    (hs : tstep s t l ch = some (s', l', evs)) : goneOk l' (s'.conn t) = true := by
  gone_tac

theorem gone_dUnlock {s : Shared} {t : Tid} {l : Loc} {ch : Choice} {s' l' evs} (hpc : l.pc = .dUnlock)
    (h : ok l (s.conn t).commit = true) (hd : doneOk l (s.conn t) = true) (hg : goneOk l (s.conn t) = true)
    (hs : tstep s t l ch = some (s', l', evs)) : goneOk l' (s'.conn t) = true := by
  gone_tac

theorem gone_dRec {s : Shared} {t : Tid} {l : Loc} {ch : Choice} {s' l' evs} (hpc : l.pc = .dRec)
    (h : ok l (s.conn t).commit = true) (hd : doneOk l (s.conn t) = true) (hg : goneOk l (s.conn t) = true)
    (hs : tstep s t l ch = some (s', l', evs)) : goneOk l' (s'.conn t) = true := by
  gone_tac

theorem gone_flush {s : Shared} {t : Tid} {l : Loc} {ch : Choice} {s' l' evs} (hpc : l.pc = .flush)
    (h : ok l (s.conn t).commit = true) (hd : doneOk l (s.conn t) = true) (hg : goneOk l (s.conn t) = true)
    (hs : tstep s t l ch = some (s', l', evs)) : goneOk l' (s'.conn t) = true := by
  gone_tac

theorem gone_g2 {s : Shared} {t : Tid} {l : Loc} {ch : Choice} {s' l' evs} (hpc : l.pc = .g2)
    (h : ok l (s.conn t).commit = true) (hd : doneOk l (s.conn t) = true) (hg : goneOk l (s.conn t) = true)
    (hs : tstep s t l ch = some (s', l', evs)) : goneOk l' (s'.conn t) = true := by
  simp only [tstep, hpc] at hs
  injection hs with hs; injection hs with h1 h2; injection h2 with h2 h3; subst h1 h2
  rfl

theorem gone_step {s : Shared} {t : Tid} {l : Loc} {ch : Choice} {s' l' evs}
    (h : ok l (s.conn t).commit = true) (hd : doneOk l (s.conn t) = true) (hg : goneOk l (s.conn t) = true)
    (hs : tstep s t l ch = some (s', l', evs)) : goneOk l' (s'.conn t) = true := by
  cases hpc : l.pc
  · exact gone_idle hpc h hd hg hs
  · exact gone_sw hpc h hd hg hs
  · exact gone_xIn hpc h hd hg hs
  · exact gone_sIn hpc h hd hg hs
  · exact gone_bServe hpc h hd hg hs
  · exact gone_call hpc h hd hg hs
  · exact gone_ec hpc h hd hg hs
  · exact gone_b0 hpc h hd hg hs
  · exact gone_b1 hpc h hd hg hs
  · exact gone_b2 hpc h hd hg hs
  · exact gone_g1 hpc h hd hg hs
  · exact gone_g2 hpc h hd hg hs
  · exact gone_g3 hpc h hd hg hs
  · exact gone_b3 hpc h hd hg hs
  · exact gone_bret hpc h hd hg hs
  · exact gone_p0 hpc h hd hg hs
  · exact gone_p1 hpc h hd hg hs
  · exact gone_p2 hpc h hd hg hs
  · exact gone_p3 hpc h hd hg hs
  · exact gone_p4 hpc h hd hg hs
  · exact gone_p5 hpc h hd hg hs
  · exact gone_w1 hpc h hd hg hs
  · exact gone_w2 hpc h hd hg hs
  · exact gone_w3 hpc h hd hg hs
  · exact gone_u1 hpc h hd hg hs
  · exact gone_u2 hpc h hd hg hs
  · exact gone_u3 hpc h hd hg hs
  · exact gone_e1 hpc h hd hg hs
  · exact gone_e3 hpc h hd hg hs
  · exact gone_e4 hpc h hd hg hs
  · exact gone_e5 hpc h hd hg hs
  · exact gone_e6 hpc h hd hg hs
  · exact gone_ec1 hpc h hd hg hs
  · exact gone_ec2 hpc h hd hg hs
  · exact gone_edef hpc h hd hg hs
  · exact gone_dOut hpc h hd hg hs
  · exact gone_dUnlock hpc h hd hg hs
  · exact gone_dRec hpc h hd hg hs
  · exact gone_flush hpc h hd hg hs

/-- a connection without watches is not touched by another goroutine's transition -/
theorem watch_other_empty {s : Shared} {t : Tid} {l : Loc} {ch : Choice} {s' l' evs} (hw : WInv s)
    (hs : tstep s t l ch = some (s', l', evs)) {g : Tid} (hg : g ≠ t) (he : (s.conn g).watch = []) :
    (s'.conn g).watch = [] := by
  by_cases hpc : l.pc ≠ .w2 ∧ l.pc ≠ .u2 ∧ l.pc ≠ .g2
  · rw [(tstep_watch_frame hpc hs).2 g]; exact he
  · have hpc' : l.pc = .w2 ∨ l.pc = .u2 ∨ l.pc = .g2 := by
      by_cases a : l.pc = .w2
      · exact Or.inl a
      · by_cases b : l.pc = .u2
        · exact Or.inr (Or.inl b)
        · by_cases c : l.pc = .g2
          · exact Or.inr (Or.inr c)
          · exact absurd ⟨a, b, c⟩ hpc
    rcases hpc' with hp | hp | hp
    · simp only [tstep, hp] at hs
      split at hs
      · injection hs with hs; injection hs with e1 e2; subst e1
        rw [conn_setConn_other _ _ _ _ hg]; exact he
      · cases hs
    · simp only [tstep, hp] at hs
      injection hs with hs; injection hs with e1 e2; subst e1
      rw [conn_setConn_other _ _ _ _ hg]; exact he
    · simp only [tstep, hp] at hs
      injection hs with hs; injection hs with e1 e2; subst e1
      have hn : g ∉ (kassoc s.registry l.key).getD [] := by
        intro hm
        have := hw.j1 l.key g hm
        rw [he] at this; cases this
      show ((assoc (markAll s.conns l.key _) g).getD {}).watch = []
      rw [markAll_other _ _ _ _ hn]; exact he

theorem goneOk_other (l : Loc) {a b : ConnSt} (h : a.watch = [] → b.watch = []) (hg : goneOk l a = true) :
    goneOk l b = true := by
  unfold goneOk at hg ⊢
  cases hp : l.pc <;> simp only [hp] at hg ⊢ <;> first | rfl | skip
  all_goals
    simp only [Bool.or_eq_true, List.isEmpty_iff] at hg ⊢
    first
    | exact h hg
    | (rcases hg with hg | hg
       · exact Or.inl hg
       · exact Or.inr (h hg))

structure Gone (c : Cfg) : Prop where
  w : WInv c.sh
  d : AllDone c
  g : ∀ t, goneOk (c.loc t) (c.sh.conn t) = true

theorem gone_init : Gone {} := ⟨winv_init, allDone_init, fun g => by rw [loc_init]; rfl⟩

theorem gone_cfg_step {c c' : Cfg} {t : Tid} {ch : Choice} {evs : List Ev} (hi : Inv c) (hg : Gone c)
    (hs : step c t ch = some (c', evs)) : Gone c' := by
  refine ⟨?_, allDone_step hi hg.d hs, ?_⟩
  · unfold step at hs
    split at hs
    · cases hs
    · rename_i s l e heq
      cases hs
      exact winv_step hg.w heq
  · unfold step at hs
    split at hs
    · cases hs
    · rename_i s l e heq
      cases hs
      intro g
      show goneOk ((Cfg.mk s (put c.thr t l)).loc g) (s.conn g) = true
      rw [loc_put]
      by_cases hgt : g = t
      · subst hgt; simp only [if_true]; exact gone_step (hi.ok g) (hg.d g) (hg.g g) heq
      · simp only [hgt, if_false]
        exact goneOk_other _ (watch_other_empty hg.w heq hgt) (hg.g g)

theorem gone_run : ∀ (sch : List (Tid × Choice)) (c : Cfg) (gs : GState), Inv c → R c gs → Gone c → Gone (run c sch).1
  | [], _, _, _, _, hd => hd
  | (t, ch) :: sch, c, gs, hi, hr, hd => by
    simp only [run]
    cases hst : step c t ch with
    | none => exact gone_run sch c gs hi hr hd
    | some p =>
      obtain ⟨c', e⟩ := p
      obtain ⟨gs1, _, hi1, hr1⟩ := sim_step hi hr hst
      exact gone_run sch c' gs1 hi1 hr1 (gone_cfg_step hi hd hst)

theorem reach_gone (sch : List (Tid × Choice)) : Gone (run {} sch).1 :=
  gone_run sch {} {} inv_init R_init gone_init

end NodisVerif.GateProg
