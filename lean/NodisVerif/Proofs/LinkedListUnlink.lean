import NodisVerif.Proofs.LinkedListBase
/-
  The pointer surgery `unlink` / `unlinkRev` (shared by lRemAll, lRem, lRevRem, LTrim): taking the node `x`
  out of the chain `a ++ x :: b` leaves the chain `a ++ b`; the node `x` itself is not written (so the
  walk can still read its `next` / `prev`), no data changes, the heap keeps its size.
-/
namespace NodisVerif.LinkedList

/-- what an in-place operation that only rewires pointers leaves alone -/
structure SameData (l l' : PList) : Prop where
  size : l'.heap.size = l.heap.size
  data : ∀ i, dataAt l'.heap i = dataAt l.heap i

theorem SameData.refl (l : PList) : SameData l l := ⟨rfl, fun _ => rfl⟩
theorem SameData.trans {l1 l2 l3 : PList} (h1 : SameData l1 l2) (h2 : SameData l2 l3) : SameData l1 l3 :=
  ⟨by rw [h2.size, h1.size], fun i => by rw [h2.data, h1.data]⟩

theorem nodup_mid {a b : List Nat} {x : Nat} (h : (a ++ x :: b).Nodup) :
    a.Nodup ∧ b.Nodup ∧ x ∉ a ∧ x ∉ b ∧ (∀ i, i ∈ a → i ∉ b) ∧ (a ++ b).Nodup := by
  rw [List.nodup_append] at h
  obtain ⟨ha, hxb, hd⟩ := h
  rw [List.nodup_cons] at hxb
  refine ⟨ha, hxb.2, ?_, hxb.1, ?_, ?_⟩
  · intro hx; exact hd x hx x (List.mem_cons_self ..) rfl
  · intro i hi hib; exact hd i hi i (List.mem_cons_of_mem _ hib) rfl
  · rw [List.nodup_append]
    exact ⟨ha, hxb.2, fun i hi j hj => hd i hi j (List.mem_cons_of_mem _ hj)⟩

theorem getLast?_append' (a b : List Nat) : (a ++ b).getLast? = lst b a.getLast? := by
  rw [← lst_none, lst_append, lst_none]

theorem head?_append' (a b : List Nat) : (a ++ b).head? = hd a b.head? := by
  rw [← hd_none, hd_append, hd_none]

theorem lst_cons_indep (j : Nat) (t : List Nat) (p p' : Option Nat) : lst (j :: t) p = lst (j :: t) p' := by
  unfold lst
  cases hl : (j :: t).getLast? with
  | none => simp at hl
  | some x => rfl

theorem hd_concat_indep (t : List Nat) (j : Nat) (q q' : Option Nat) : hd (t ++ [j]) q = hd (t ++ [j]) q' := by
  cases t <;> rfl

/-- left side: the predecessor of `x` (or `head`) now points past `x` -/
theorem bypassNext_spec (l : PList) (a : List Nat) (x : Nat) (n : Node) (nx : Option Nat)
    (hp : n.prev = lst a none) (hnx : n.next = nx)
    (sa : Seg l.heap none a (some x)) (hna : a.Nodup) (hh : l.head = hd a (some x)) :
    ∃ l1, bypassNext l n = .ok l1 ∧ Seg l1.heap none a nx ∧ l1.head = hd a nx ∧ l1.tail = l.tail ∧
      l1.length = l.length ∧ SameData l l1 ∧ (∀ i, i ∉ a → l1.heap[i]? = l.heap[i]?) := by
  unfold bypassNext
  rcases List.eq_nil_or_concat a with rfl | ⟨a', p', rfl⟩
  · simp only [lst_nil] at hp
    simp only [hp, hnx]
    exact ⟨_, rfl, trivial, rfl, rfl, rfl, ⟨rfl, fun _ => rfl⟩, fun _ _ => rfl⟩
  · rw [List.concat_eq_append] at *
    simp only [lst_concat] at hp
    obtain ⟨np, hp', _, _⟩ := seg_mid _ a' [] p' none (some x) sa
    have hpa' : p' ∉ a' := by
      rw [List.nodup_append] at hna
      intro hm; exact hna.2.2 p' hm p' (by simp) rfl
    simp only [hp, hnx, setNext_ok hp' _, Res.bind_ok, Res.pure_eq]
    refine ⟨_, rfl, seg_setNext_last _ a' p' none _ _ np hpa' hp' sa, ?_, rfl, rfl, ?_, ?_⟩
    · simp only; rw [hh]; exact hd_concat_indep ..
    · exact ⟨by simp, fun i => dataAt_set_next _ _ _ _ hp' i⟩
    · intro i hia; simp only
      exact get_set_ne _ _ _ _ (fun e => hia (by simp [← e]))

/-- right side: the successor of `x` (or `tail`) now points back past `x` -/
theorem bypassPrev_spec (l : PList) (b : List Nat) (x : Nat) (n : Node) (pv : Option Nat)
    (hp : n.prev = pv) (hnx : n.next = hd b none)
    (sb : Seg l.heap (some x) b none) (hnb : b.Nodup) (ht : l.tail = lst b (some x)) :
    ∃ l1, bypassPrev l n = .ok l1 ∧ Seg l1.heap pv b none ∧ l1.tail = lst b pv ∧ l1.head = l.head ∧
      l1.length = l.length ∧ SameData l l1 ∧ (∀ i, i ∉ b → l1.heap[i]? = l.heap[i]?) := by
  unfold bypassPrev
  cases b with
  | nil =>
    simp only [hd_nil] at hnx
    simp only [hnx, hp, Res.pure_eq]
    exact ⟨_, rfl, trivial, rfl, rfl, rfl, ⟨rfl, fun _ => rfl⟩, fun _ _ => rfl⟩
  | cons r b' =>
    simp only [hd_cons] at hnx
    have ⟨nr, hr, _⟩ := sb
    have hrb' : r ∉ b' := (List.nodup_cons.mp hnb).1
    simp only [hnx, hp, setPrev_ok hr _, Res.bind_ok, Res.pure_eq]
    refine ⟨_, rfl, seg_setPrev_first _ b' r _ none _ nr hrb' hr sb, ?_, rfl, rfl, ?_, ?_⟩
    · simp only; rw [ht]; exact lst_cons_indep ..
    · exact ⟨by simp, fun i => dataAt_set_prev _ _ _ _ hr i⟩
    · intro i hib; simp only
      exact get_set_ne _ _ _ _ (fun e => hib (by simp [← e]))

theorem unlink_spec (l : PList) (a b : List Nat) (x : Nat) (hi : InvC l (a ++ x :: b)) :
    ∃ l', unlink l x = .ok l' ∧ InvC l' (a ++ b) ∧ l'.heap[x]? = l.heap[x]? ∧ SameData l l' := by
  obtain ⟨n, hx, hp, hnx⟩ := seg_mid _ a b x none none hi.seg
  obtain ⟨hna, hnb, hxa, hxb, hdis, hnab⟩ := nodup_mid hi.nodup
  have hseg := hi.seg
  rw [seg_append] at hseg
  obtain ⟨sa, _, _, _, _, sb⟩ := hseg
  simp only [hd_cons] at sa
  obtain ⟨l1, e1, s1a, hh1, ht1, hl1, sd1, fr1⟩ := bypassNext_spec l a x n _ hp hnx sa hna
    (by rw [hi.head, head?_append']; rfl)
  have hx1 : l1.heap[x]? = some n := by rw [fr1 x hxa]; exact hx
  have sb1 : Seg l1.heap (some x) b none :=
    seg_frame _ _ b _ _ (fun i hib => fr1 i (fun hia => hdis i hia hib)) sb
  obtain ⟨l2, e2, s2b, ht2, hh2, hl2, sd2, fr2⟩ := bypassPrev_spec l1 b x n _ hp hnx sb1 hnb
    (by rw [ht1, hi.tail, getLast?_append', lst_cons])
  have hx2 : l2.heap[x]? = some n := by rw [fr2 x hxb]; exact hx1
  have s2a : Seg l2.heap none a (hd b none) :=
    seg_frame _ _ a _ _ (fun i hia => fr2 i (hdis i hia)) s1a
  refine ⟨{ l2 with length := l2.length - 1 }, ?_, ?_, ?_, ?_⟩
  · unfold unlink
    simp only [rd_ok hx, Res.bind_ok, e1, rd_ok hx1, e2]
  · refine ⟨hnab, ?_, ?_, ?_, ?_⟩
    · rw [seg_append]; exact ⟨s2a, s2b⟩
    · simp only; rw [hh2, hh1, head?_append', hd_none]
    · simp only; rw [ht2, getLast?_append', lst_none]
    · simp only; rw [hl2, hl1, hi.length]; simp; omega
  · simp only; rw [hx2, hx]
  · exact ⟨by simp only; rw [sd2.size, sd1.size], fun i => by simp only; rw [sd2.data, sd1.data]⟩

theorem unlinkRev_spec (l : PList) (a b : List Nat) (x : Nat) (hi : InvC l (a ++ x :: b)) :
    ∃ l', unlinkRev l x = .ok l' ∧ InvC l' (a ++ b) ∧ l'.heap[x]? = l.heap[x]? ∧ SameData l l' := by
  obtain ⟨n, hx, hp, hnx⟩ := seg_mid _ a b x none none hi.seg
  obtain ⟨hna, hnb, hxa, hxb, hdis, hnab⟩ := nodup_mid hi.nodup
  have hseg := hi.seg
  rw [seg_append] at hseg
  obtain ⟨sa, _, _, _, _, sb⟩ := hseg
  simp only [hd_cons] at sa
  obtain ⟨l1, e1, s1b, ht1, hh1, hl1, sd1, fr1⟩ := bypassPrev_spec l b x n _ hp hnx sb hnb
    (by rw [hi.tail, getLast?_append', lst_cons])
  have hx1 : l1.heap[x]? = some n := by rw [fr1 x hxb]; exact hx
  have sa1 : Seg l1.heap none a (some x) :=
    seg_frame _ _ a _ _ (fun i hia => fr1 i (hdis i hia)) sa
  obtain ⟨l2, e2, s2a, hh2, ht2, hl2, sd2, fr2⟩ := bypassNext_spec l1 a x n _ hp hnx sa1 hna
    (by rw [hh1, hi.head, head?_append']; rfl)
  have hx2 : l2.heap[x]? = some n := by rw [fr2 x hxa]; exact hx1
  have s2b : Seg l2.heap (lst a none) b none :=
    seg_frame _ _ b _ _ (fun i hib => fr2 i (fun hia => hdis i hia hib)) s1b
  refine ⟨{ l2 with length := l2.length - 1 }, ?_, ?_, ?_, ?_⟩
  · unfold unlinkRev
    simp only [rd_ok hx, Res.bind_ok, e1, rd_ok hx1, e2]
  · refine ⟨hnab, ?_, ?_, ?_, ?_⟩
    · rw [seg_append]; exact ⟨s2a, s2b⟩
    · simp only; rw [hh2, head?_append', hd_none]
    · simp only; rw [ht2, ht1, getLast?_append', lst_none]
    · simp only; rw [hl2, hl1, hi.length]; simp; omega
  · simp only; rw [hx2, hx]
  · exact ⟨by simp only; rw [sd2.size, sd1.size], fun i => by simp only; rw [sd2.data, sd1.data]⟩

end NodisVerif.LinkedList
