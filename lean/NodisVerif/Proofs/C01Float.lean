import NodisVerif.Proofs.C01Api
import NodisVerif.Proofs.FloatDecTrip
/-
  C01 helper (INCRBYFLOAT), on the decimal float text of Model/FloatDec.lean: what `Api.incrByFloat` replies and
  stores, in terms of `strconv.ParseFloat` of the current text, the exact IEEE sum and `FormatFloat(sum,'f',-1,64)`.
-/
namespace NodisVerif.Proofs.C01
open NodisVerif
open Store Api

/-- the text `IncrByFloat` hands to ParseFloat: the stored bytes, "0" for an empty or missing value -/
def floatText (o : DsStr.S) : Bytes := if (DsStr.bytes o).isEmpty then [48] else DsStr.bytes o

theorem incrByFloat_ok (s : MState) (now : Int) (k : Bytes) (delta : F64)
    (hs : ∀ v0, live s now k = some v0 → isStrVal v0 = true) :
    match Api.parseFloatText (floatText (strOf (strAt s now k))) with
    | none =>
      (Api.incrByFloat s now k delta).2 = .unsupported ∧
      (Api.incrByFloat s now k delta).1 = (writeKey s now k (some (.str []))).1
    | some none =>
      (Api.incrByFloat s now k delta).2 = .many [.f64 0, .err true] ∧
      (Api.incrByFloat s now k delta).1 = (writeKey s now k (some (.str []))).1
    | some (some old) =>
      (Api.incrByFloat s now k delta).2 = .many [.f64 (F64.add old delta), .err false] ∧
      Hot (Api.incrByFloat s now k delta).1 k (.str (FloatDec.formatShortest (F64.add old delta))) now ∧
      HotExp (Api.incrByFloat s now k delta).1 k ((liveExp s now k).getD 0) := by
  obtain ⟨h1, h2, h3⟩ := open_str_ok s now k hs
  unfold Api.incrByFloat floatText
  generalize writeKey s now k (some (.str [])) = w at *
  obtain ⟨s1, b⟩ := w
  simp only at h1 h3 ⊢
  rw [asStr_hot_str h1 h2]
  simp only
  cases Api.parseFloatText (if (DsStr.bytes (strOf (strAt s now k))).isEmpty = true then [48] else DsStr.bytes (strOf (strAt s now k))) with
  | none => exact ⟨rfl, rfl⟩
  | some r =>
    cases r with
    | none => exact ⟨rfl, rfl⟩
    | some old =>
      simp only [F64.add?, Api.formatFloat, true_and]
      exact ⟨tail_hot h1 _ _, tail_hotExp h3 _ _⟩

theorem incrByFloat_wrongtype (s : MState) (now : Int) (k : Bytes) (delta : F64) (v0 : Val)
    (hl : live s now k = some v0) (ht : isStrVal v0 = false) :
    (Api.incrByFloat s now k delta).2 = .panic ∧
    (∀ k', lookup (Api.incrByFloat s now k delta).1 now k' = lookup s now k') := by
  obtain ⟨h1, h2⟩ := (open_str s now k).1 v0 hl
  unfold Api.incrByFloat
  generalize writeKey s now k (some (.str [])) = w at *
  obtain ⟨s1, b⟩ := w
  simp only at h1 h2 ⊢
  rw [asStr_hot_other h1 ht]
  exact ⟨rfl, h2⟩

end NodisVerif.Proofs.C01
