import NodisVerif.Proofs.C20Set
/-
  C20, sorted sets: ZAdd, ZAddNX, ZAddXX, ZAddLT, ZAddGT (every record is a ZADD member score).
-/
namespace NodisVerif.Proofs.C20
open NodisVerif NodisVerif.Store NodisVerif.Spec.Persist NodisVerif.Proofs.C11

variable {now : Int} {p r : MState}

def zaddF (now : Int) (k m : Bytes) (sc : F64) : TxForm := (Cmd.zadd k m sc).form now

theorem zaddF_ok (now : Int) (k m : Bytes) (sc : F64) (hn : F64.isNaN sc = false) (hb : m.length + 8 < 2 ^ 63) :
    (zaddF now k m sc).OK := Cmd.ok (.zadd k m sc) now ⟨hn, hb⟩

theorem applyOp_zadd (r0 : MState) (now : Int) (k m : Bytes) (sc : F64) :
    Feed.applyOp r0 now (Api.opZAdd k m sc) = some ((zaddF now k m sc).run r0 now).1 := by
  have h2 : ∀ s, Api.zadd s now k m sc = (zaddF now k m sc).run s now := fun s => zadd_eq s now k m sc
  simp [Feed.applyOp, Api.opZAdd, pB_toHex, pF_toString, ← h2]

/-- content of a key after `ZADD m sc` -/
def zaddPost (m : Bytes) (sc : F64) : Option (Val × Int) → Option (Val × Int)
  | none => some (.zset (DsZSet.zAdd DsZSet.empty m sc).1, 0)
  | some (.zset z, e) => some (.zset (DsZSet.zAdd z m sc).1, e)
  | some c => some c

theorem zaddF_post (k m : Bytes) (sc : F64) {L : Option (Val × Int)} (hL : Live now L) :
    (zaddF now k m sc).post now L = zaddPost m sc L := by
  cases L with
  | none => simp [zaddF, TxForm.post, TxForm.spec, txSpec, Cmd.form, decZaddWith, Act.eff, zaddPost, filt_zero]
  | some c =>
    obtain ⟨w, e0⟩ := c
    have hl := hL w e0 rfl
    cases w <;> simp [zaddF, TxForm.post, TxForm.spec, txSpec, Cmd.form, decZaddWith, Act.eff, zaddPost, hl]

theorem zadd_replay (hs : Same now p r) (hl : p.listeners = true) (hfd : p.feed = [])
    (c : Feed.CallInfo) (hc : plainMethod c.method = true) (k m : Bytes) (sc : F64)
    (hn : F64.isNaN sc = false) (hb : m.length + 8 < 2 ^ 63) :
    Replay now r c (Api.zadd p now k m sc) := by
  rw [zadd_eq]
  refine selfOp_main hs hl hfd c hc (zaddF now k m sc) (zaddF_ok now k m sc hn hb)
    (Cmd.nilSafe (.zadd k m sc) now trivial) ?_
  intro L _ _
  cases L with
  | none => right; exact ⟨Api.opZAdd k m sc, rfl, fun r0 => applyOp_zadd r0 now k m sc⟩
  | some cc =>
    obtain ⟨w, e⟩ := cc
    cases w with
    | zset z => right; exact ⟨Api.opZAdd k m sc, rfl, fun r0 => applyOp_zadd r0 now k m sc⟩
    | _ => exact selfOp_keep rfl

/-! ### ZADD NX -/

theorem zaddNX_replay (hs : Same now p r) (hl : p.listeners = true) (hfd : p.feed = [])
    (c : Feed.CallInfo) (hc : c.method = "ZAddNX") (k m : Bytes) (sc : F64)
    (hn : F64.isNaN sc = false) (hb : m.length + 8 < 2 ^ 63) :
    Replay now r c (Api.zaddNX p now k m sc) := by
  rw [zaddNX_eq]
  have hem0 : ∀ raw, Feed.emission c (.int 0) raw = [] := by
    intro raw; unfold Feed.emission; simp [hc, Feed.keepTTLMethods]
  have hem1 : ∀ raw, Feed.emission c (.int 1) raw = raw := by
    intro raw; unfold Feed.emission; simp [hc, Feed.keepTTLMethods]
  have hemp : Feed.emission c .panic [] = [] := by
    unfold Feed.emission; simp [hc, Feed.keepTTLMethods]
  refine oneOp_main hs hl hfd c _ (zaddNXForm_ok k m sc hn hb) (zaddNXForm_nilSafe k m sc) ?_
  intro L hlive _
  unfold OneOp
  have hgo : ∀ z e, (L = none ∧ z = DsZSet.empty ∧ e = 0) ∨ L = some (.zset z, e) →
      (Feed.emission c ((zaddNXForm k m sc).spec L).1 ((zaddNXForm k m sc).ops L) = [] ∧
        (zaddNXForm k m sc).post now L = L) ∨
      ∃ op g, Feed.emission c ((zaddNXForm k m sc).spec L).1 ((zaddNXForm k m sc).ops L) = [op] ∧ TxForm.OK g ∧
        g.key = (zaddNXForm k m sc).key ∧ (∀ r0, Feed.applyOp r0 now op = some (g.run r0 now).1) ∧
        g.post now L = (zaddNXForm k m sc).post now L := by
    intro z e hL
    cases hg : AList.get? z.dict m with
    | some old =>
      have hnx : DsZSet.zAddNX z m sc = (z, 0) := by simp [DsZSet.zAddNX, AList.contains, hg]
      left
      rcases hL with ⟨rfl, rfl, rfl⟩ | rfl
      · simp [DsZSet.empty, AList.get?] at hg
      · have hl0 := hlive _ _ rfl
        simp [TxForm.ops, TxForm.post, TxForm.spec, txSpec, zaddNXForm, decZaddWith, hnx, Act.ops, Act.eff,
          Act.reply, hem0, hl0]
    | none =>
      have hnx : DsZSet.zAddNX z m sc = DsZSet.zAdd z m sc := by simp [DsZSet.zAddNX, AList.contains, hg]
      have h1 : (DsZSet.zAdd z m sc).2 = 1 := by simp [DsZSet.zAdd, hg]
      right
      refine ⟨Api.opZAdd k m sc, zaddF now k m sc, ?_, zaddF_ok now k m sc hn hb, rfl,
        fun r0 => applyOp_zadd r0 now k m sc, ?_⟩
      · rcases hL with ⟨rfl, rfl, rfl⟩ | rfl <;>
          simp [TxForm.ops, TxForm.spec, txSpec, zaddNXForm, decZaddWith, hnx, h1, Act.ops, Act.reply, hem1]
      · rw [zaddF_post k m sc hlive]
        rcases hL with ⟨rfl, rfl, rfl⟩ | rfl
        · simp [TxForm.post, TxForm.spec, txSpec, zaddNXForm, decZaddWith, hnx, Act.eff, zaddPost, filt_zero]
        · have hl0 := hlive _ _ rfl
          simp [TxForm.post, TxForm.spec, txSpec, zaddNXForm, decZaddWith, hnx, Act.eff, zaddPost, hl0]
  cases L with
  | none => exact hgo DsZSet.empty 0 (Or.inl ⟨rfl, rfl, rfl⟩)
  | some cc =>
    obtain ⟨w, e⟩ := cc
    cases w with
    | zset z => exact hgo z e (Or.inr rfl)
    | _ =>
      left
      simp [TxForm.ops, TxForm.post, TxForm.spec, txSpec, zaddNXForm, decZaddWith, Act.ops, Act.eff, Act.reply, hemp]

/-! ### ZADD XX / LT / GT -/

/-- a conditional ZADD on an existing sorted set: `cond z` decides, the new content is that of ZADD -/
def decZaddIf (cond : ZSet → Bool) (out : ZSet → Out) (no : Out) (key m : Bytes) (sc : F64) (v : Val) (_ : Int) : Act :=
  match v with
  | .zset z =>
    if cond z then .put (some (.zset (DsZSet.zAdd z m sc).1)) none [Api.opZAdd key m sc] (out z)
    else .keep no
  | _ => .keep .panic

def zaddIfF (cond : ZSet → Bool) (out : ZSet → Out) (no : Out) (key m : Bytes) (sc : F64) : TxForm :=
  ⟨true, none, .int 0, Cmd.pan, decZaddIf cond out no key m sc, key⟩

theorem zaddIfF_ok (cond : ZSet → Bool) (out : ZSet → Out) (no : Out) (key m : Bytes) (sc : F64)
    (hn : F64.isNaN sc = false) (hb : m.length + 8 < 2 ^ 63) : (zaddIfF cond out no key m sc).OK := by
  refine ⟨(fun h => nomatch h), (fun _ h => nomatch h), fun w e hg _ => ?_⟩
  cases w with
  | zset z =>
    show (decZaddIf cond out no key m sc (.zset z) e).GoodA
    unfold decZaddIf
    simp only
    split
    · exact ⟨(fun w hw => by cases hw; exact good_zadd z m sc hg hn hb), (fun e he => by cases he)⟩
    · trivial
  | _ => trivial

theorem zaddIfF_nilSafe (cond : ZSet → Bool) (out : ZSet → Out) (no : Out) (key m : Bytes) (sc : F64) :
    (zaddIfF cond out no key m sc).NilSafe := by
  apply nilSafe_of
  · intro v e hv
    cases v <;> simp_all [zaddIfF, decZaddIf]
  · intro v0 h0; cases h0

theorem zaddIf_replay (hs : Same now p r) (hl : p.listeners = true) (hfd : p.feed = [])
    (c : Feed.CallInfo) (hc : plainMethod c.method = true) (cond : ZSet → Bool) (out : ZSet → Out) (no : Out)
    (k m : Bytes) (sc : F64) (hn : F64.isNaN sc = false) (hb : m.length + 8 < 2 ^ 63) :
    Replay now r c ((zaddIfF cond out no k m sc).run p now) := by
  refine oneOp_main hs hl hfd c _ (zaddIfF_ok cond out no k m sc hn hb) (zaddIfF_nilSafe cond out no k m sc) ?_
  intro L hlive _
  unfold OneOp
  rw [emission_plain hc]
  cases L with
  | none => left; simp [TxForm.ops, TxForm.post, TxForm.spec, txSpec, zaddIfF]
  | some cc =>
    obtain ⟨w, e⟩ := cc
    cases w with
    | zset z =>
      by_cases hcd : cond z = true
      · right
        refine ⟨Api.opZAdd k m sc, zaddF now k m sc, ?_, zaddF_ok now k m sc hn hb, rfl,
          fun r0 => applyOp_zadd r0 now k m sc, ?_⟩
        · simp [TxForm.ops, zaddIfF, decZaddIf, hcd, Act.ops]
        · rw [zaddF_post k m sc hlive]
          have hl0 := hlive _ _ rfl
          simp [TxForm.post, TxForm.spec, txSpec, zaddIfF, decZaddIf, hcd, Act.eff, zaddPost, hl0]
      · left
        simp [TxForm.ops, TxForm.post, TxForm.spec, txSpec, zaddIfF, decZaddIf, hcd, Act.ops, Act.eff]
    | _ =>
      left
      simp [TxForm.ops, TxForm.post, TxForm.spec, txSpec, zaddIfF, decZaddIf, Act.ops, Act.eff]

theorem zaddXX_eq (s : MState) (now : Int) (key m : Bytes) (sc : F64) :
    Api.zaddXX s now key m sc =
      (zaddIfF (fun z => AList.contains z.dict m) (fun z => .int (DsZSet.zAddXX z m sc).2) (.int 0) key m sc).run s now := by
  refine Eq.trans ?_ (write_shape s now key _ _ _ (fun s0 => match Api.asZSet s0 key with
     | none => (s0, .panic)
     | some z =>
       if !AList.contains z.dict m then (s0, .int 0) else
       (emit (signal (Api.setVal s0 key (.zset (DsZSet.zAddXX z m sc).1)) key) (Api.opZAdd key m sc),
        .int (DsZSet.zAddXX z m sc).2)) ?_)
  · rfl
  · intro s1; simp only [Api.asZSet]
    cases valOf s1 key with
    | none => rfl
    | some v =>
      cases v <;> try rfl
      rename_i z
      simp only [zaddIfF, decZaddIf]
      cases hc : AList.contains z.dict m
      · rfl
      · simp only [Bool.not_true, Bool.false_eq_true, if_false, if_true, DsZSet.zAddXX, hc]
        rfl

theorem zaddXX_replay (hs : Same now p r) (hl : p.listeners = true) (hfd : p.feed = [])
    (c : Feed.CallInfo) (hc : plainMethod c.method = true) (k m : Bytes) (sc : F64)
    (hn : F64.isNaN sc = false) (hb : m.length + 8 < 2 ^ 63) :
    Replay now r c (Api.zaddXX p now k m sc) := by
  rw [zaddXX_eq]; exact zaddIf_replay hs hl hfd c hc _ _ _ k m sc hn hb

theorem zaddCmp_eq (f : ZSet → Bytes → F64 → ZSet × Bool)
    (hf : ∀ z m sc, (f z m sc).2 = true → (f z m sc).1 = (DsZSet.zAdd z m sc).1)
    (s : MState) (now : Int) (key m : Bytes) (sc : F64) :
    Api.zaddCmp f s now key m sc =
      (zaddIfF (fun z => (f z m sc).2) (fun _ => .int 1) (.int 0) key m sc).run s now := by
  refine Eq.trans ?_ (write_shape s now key _ _ _ (fun s0 => match Api.asZSet s0 key with
     | none => (s0, .panic)
     | some z =>
       if (f z m sc).2 then
         (emit (signal (Api.setVal s0 key (.zset (f z m sc).1)) key) (Api.opZAdd key m sc), .int 1)
       else (s0, .int 0)) ?_)
  · rfl
  · intro s1; simp only [Api.asZSet]
    cases valOf s1 key with
    | none => rfl
    | some v =>
      cases v <;> try rfl
      rename_i z
      simp only [zaddIfF, decZaddIf]
      cases hc : (f z m sc).2
      · rfl
      · simp only [if_true, hf z m sc hc]
        rfl

theorem zAddLT_fst (z : ZSet) (m : Bytes) (sc : F64) (h : (DsZSet.zAddLT z m sc).2 = true) :
    (DsZSet.zAddLT z m sc).1 = (DsZSet.zAdd z m sc).1 := by
  unfold DsZSet.zAddLT at h ⊢
  split
  · split
    · rfl
    · rename_i h1 h2; simp [h1, h2] at h
  · rename_i h1; simp [h1] at h

theorem zAddGT_fst (z : ZSet) (m : Bytes) (sc : F64) (h : (DsZSet.zAddGT z m sc).2 = true) :
    (DsZSet.zAddGT z m sc).1 = (DsZSet.zAdd z m sc).1 := by
  unfold DsZSet.zAddGT at h ⊢
  split
  · split
    · rfl
    · rename_i h1 h2; simp [h1, h2] at h
  · rename_i h1; simp [h1] at h

theorem zaddLT_replay (hs : Same now p r) (hl : p.listeners = true) (hfd : p.feed = [])
    (c : Feed.CallInfo) (hc : plainMethod c.method = true) (k m : Bytes) (sc : F64)
    (hn : F64.isNaN sc = false) (hb : m.length + 8 < 2 ^ 63) :
    Replay now r c (Api.zaddLT p now k m sc) := by
  rw [show Api.zaddLT p now k m sc = _ from zaddCmp_eq DsZSet.zAddLT zAddLT_fst p now k m sc]
  exact zaddIf_replay hs hl hfd c hc _ _ _ k m sc hn hb

theorem zaddGT_replay (hs : Same now p r) (hl : p.listeners = true) (hfd : p.feed = [])
    (c : Feed.CallInfo) (hc : plainMethod c.method = true) (k m : Bytes) (sc : F64)
    (hn : F64.isNaN sc = false) (hb : m.length + 8 < 2 ^ 63) :
    Replay now r c (Api.zaddGT p now k m sc) := by
  rw [show Api.zaddGT p now k m sc = _ from zaddCmp_eq DsZSet.zAddGT zAddGT_fst p now k m sc]
  exact zaddIf_replay hs hl hfd c hc _ _ _ k m sc hn hb

end NodisVerif.Proofs.C20
