import NodisVerif.Proofs.GateProgSim
/-
  `sim_step`: one step of the program model against the gate protocol; `sim_run`: every schedule.
-/
namespace NodisVerif.GateProg
open NodisVerif.Gate (G T GMode Ev GState)

section
variable {c : Cfg} {t : Tid} {ch : Choice} {s' : Shared} {l' : Loc} {evs : List Ev} {gs : GState}

/-- the report of an acquisition -/
theorem gin_step (hi : Inv c) (hr : R c gs) (m : GMode) (h4 : (c.loc t).held = some m) (h5 : (c.loc t).rep = false) :
    ∃ gs', Gate.step gs (.gin t m) = some gs' ∧ gs'.clients = gs.clients ∧ gs'.active = gs.active ∧
      ∀ g m', (g, m') ∈ gs'.holders ↔ ((g = t ∧ m' = m) ∨ (g, m') ∈ gs.holders) := by
  have hnh : gs.holds t = false := by
    cases hh : gs.holds t with
    | false => rfl
    | true => have := ((holds_R hr t).1 hh).2; rw [h5] at this; cases this
  have hmem : (t, m) ∈ c.sh.execMu := (hi.mu t m).2 h4
  have hsub : ∀ g m', (g, m') ∈ gs.holders → (g, m') ∈ c.sh.execMu ∧ g ≠ t := by
    intro g m' hm
    have := (hr.2.2 g m').1 hm
    refine ⟨(hi.mu g m').2 this.1, ?_⟩
    rintro rfl; rw [h5] at this; exact absurd this.2 (by simp)
  cases m with
  | x =>
    have hal := hi.xalone _ hmem rfl
    have hemp : gs.holders = [] := by
      cases hh : gs.holders with
      | nil => rfl
      | cons a as =>
        have := hsub a.1 a.2 (by rw [hh]; exact List.mem_cons_self)
        rw [hal] at this
        simp only [List.mem_singleton, Prod.mk.injEq] at this
        exact absurd this.1.1 this.2
    refine ⟨{ gs with holders := [(t, .x)] }, ?_, rfl, rfl, fun g m' => ?_⟩
    · simp [Gate.step, hnh, hemp]
    · simp [hemp]
  | s =>
    have hall : gs.holders.all (·.2 == .s) = true := by
      rw [List.all_eq_true]
      intro a ha
      have := (hsub a.1 a.2 ha).1
      cases hm : a.2 with
      | s => rfl
      | x =>
        have hal := hi.xalone _ this hm
        rw [hal] at hmem
        simp only [List.mem_singleton, Prod.mk.injEq] at hmem
        rw [← hmem.2] at hm; cases hm
    refine ⟨{ gs with holders := (t, .s) :: gs.holders }, ?_, rfl, rfl, fun g m' => ?_⟩
    · simp [Gate.step, hnh, hall]
    · simp

/-- R after a reported acquisition -/
theorem R_gin (hi : Inv c) (hr : R c gs) {gs' : GState} (m : GMode)
    (hc : gs'.clients = s'.clients) (ha : gs'.active = s'.active)
    (hh : ∀ g m', (g, m') ∈ gs'.holders ↔ ((g = t ∧ m' = m) ∨ (g, m') ∈ gs.holders))
    (h4 : (c.loc t).held = some m) (h4' : l'.held = some m) (h5 : (c.loc t).rep = false) (h5' : l'.rep = true) :
    R (Cfg.mk s' (put c.thr t l')) gs' := by
  refine ⟨hc, ha, fun g m' => ?_⟩
  rw [hh, loc_put, hr.2.2]
  by_cases hg : g = t
  · subst hg
    simp only [if_true, h4', h5', h5, true_and, and_true]
    constructor
    · rintro (h | h)
      · rw [h]
      · exact absurd h.2 (by simp)
    · intro h; left; exact (Option.some.inj h).symm
  · simp [hg]

theorem sim_tstep (hi : Inv c) (hr : R c gs) (hs : tstep c.sh t (c.loc t) ch = some (s', l', evs)) :
    ∃ gs', Gate.run gs evs = some gs' ∧ Inv (Cfg.mk s' (put c.thr t l')) ∧ R (Cfg.mk s' (put c.thr t l')) gs' := by
  have he := tstep_eff (hi.ok t) hs
  cases he with
  | silent h1 h2 h3 h4 h5 h6 h7 =>
    refine ⟨gs, rfl, inv_keep hi hs h1 h2 (fun g _ => by rw [h3]) h4 h6 ?_, R_keep hr h2 h3 h4 h5⟩
    intro he; rw [h3]
    rcases h7 with h7 | h7
    · exact hi.emb t (by rw [← h7]; exact he)
    · exact h7.2
  | sig h1 h2 h3 h4 h5 h6 h7 hc =>
    refine ⟨gs, ?_, inv_keep hi hs h1 h2 (fun g _ => by rw [h3]) h4 h6 ?_, R_keep hr h2 h3 h4 h5⟩
    · simp [Gate.run, Gate.step, allowed_R hi hr t hc]
    · intro he; rw [h3]; exact hi.emb t (by rw [← h7]; exact he)
  | xact e he' h1 h2 h3 h4 h5 h6 h7 hx =>
    have hX : gs.holdsX t = true := Gate.holdsX_iff.2 ((hr.2.2 t .x).2 hx)
    refine ⟨gs, ?_, inv_keep hi hs h1 h2 (fun g _ => by rw [h3]) h4 h6 ?_, R_keep hr h2 h3 h4 h5⟩
    · rcases he' with rfl | rfl <;> simp [Gate.run, Gate.step, hX]
    · intro he; rw [h3]; exact hi.emb t (by rw [← h7]; exact he)
  | ginP m h1 h2 h3 h4 h4' h5 h5' h6 h7 =>
    obtain ⟨gs', hst, hc, ha, hh⟩ := gin_step hi hr m h4 h5
    refine ⟨gs', by simp [Gate.run, hst], inv_keep hi hs h1 h2 (fun g _ => by rw [h3]) (by rw [h4, h4']) h6 ?_,
      R_gin hi hr m (by rw [hc, hr.1, h3]) (by rw [ha, hr.2.1, h2]) hh h4 h4' h5 h5'⟩
    intro he; rw [h3]; exact hi.emb t (by rw [← h7]; exact he)
  | ginS m h1 h2 h3 h4 h4' h5 h5' h6 h6' h7 h7' =>
    have hsv := serve_step hi hr t h6
    -- the gate state after `serve` is related to the same configuration except for the clients
    have hr' : R { c with sh := c.sh.serve t } { gs with clients := (c.sh.serve t).clients } :=
      ⟨rfl, by show gs.active = (c.sh.serve t).active; rw [serve_active, hr.2.1], hr.2.2⟩
    have hi' : Inv { c with sh := c.sh.serve t } :=
      { ok := fun g => by show ok (c.loc g) ((c.sh.serve t).conn g).commit = true; rw [conn_serve]; exact hi.ok g
        mu := fun g m => by show (g, m) ∈ (c.sh.serve t).execMu ↔ _; rw [serve_execMu]; exact hi.mu g m
        xalone := by show ∀ h ∈ (c.sh.serve t).execMu, _ → (c.sh.serve t).execMu = _; rw [serve_execMu]; exact hi.xalone
        act := fun x g => by show (x, g) ∈ (c.sh.serve t).active ↔ _; rw [serve_active]; exact hi.act x g
        actu := by show ∀ x g g', (x, g) ∈ (c.sh.serve t).active → (x, g') ∈ (c.sh.serve t).active → _; rw [serve_active]; exact hi.actu
        emb := fun g hg => by
          show (c.sh.serve t).clients.contains g = false
          have hg' : (c.loc g).emb = true := hg
          have hne : g ≠ t := by rintro rfl; rw [h7] at hg'; cases hg'
          rw [serve_contains _ _ _ hne]; exact hi.emb g hg' }
    obtain ⟨gs', hst, hc, ha, hh⟩ := gin_step (c := { c with sh := c.sh.serve t }) hi' hr' m h4 h5
    refine ⟨gs', by simp [Gate.run, hsv, hst], inv_keep hi hs h1 h2 (fun g hg => by rw [h3]; exact serve_contains _ _ _ hg)
      (by rw [h4, h4']) (by rw [h6, h6']) (by intro he; rw [h7'] at he; cases he), ?_⟩
    exact R_gin (c := { c with sh := c.sh.serve t }) hi' hr' m (by rw [hc, h3]) (by rw [ha, h2]; exact hr.2.1) hh h4 h4' h5 h5'
  | serveOnly h1 h2 h3 h4 h5 h6 h6' h7 h7' =>
    have hsv := serve_step hi hr t h6
    refine ⟨{ gs with clients := (c.sh.serve t).clients }, by simp [Gate.run, hsv], inv_keep hi hs h1 h2 (fun g hg => by rw [h3]; exact serve_contains _ _ _ hg)
      h4 (by rw [h6, h6']) (by intro he; rw [h7'] at he; cases he), ?_⟩
    refine ⟨h3.symm, by show gs.active = s'.active; rw [h2, hr.2.1], fun g m => ?_⟩
    show (g, m) ∈ gs.holders ↔ _
    rw [loc_put, hr.2.2]
    by_cases hg : g = t
    · subst hg; simp [h4, h5]
    · simp [hg]
  | gout h1 h2 h3 h4 h4' h5 h5' h6 h6' h7 =>
    have hh : gs.holds t = true := (holds_R hr t).2 ⟨h4, h5⟩
    have hna := no_active_R hi hr t h6
    refine ⟨{ gs with holders := gs.holders.filter (·.1 != t) }, by simp [Gate.run, Gate.step, hh, hna],
      inv_keep hi hs h1 h2 (fun g _ => by rw [h3]) h4' (by rw [h6, h6']) ?_, ?_⟩
    · intro he; rw [h3]; exact hi.emb t (by rw [← h7]; exact he)
    · refine ⟨by show gs.clients = s'.clients; rw [h3, hr.1], by show gs.active = s'.active; rw [h2, hr.2.1], fun g m => ?_⟩
      show (g, m) ∈ gs.holders.filter (·.1 != t) ↔ _
      rw [loc_put, List.mem_filter, hr.2.2]
      by_cases hg : g = t
      · subst hg; simp [h5']
      · simp [hg]
  | txb x h1 h2 hf h3 h4 h5 h6 h6' h7 hc =>
    have hal := allowed_R hi hr t hc
    have hf' : gs.active.any (·.1 == x) = false := by rw [hr.2.1]; exact hf
    refine ⟨{ gs with active := (x, t) :: gs.active }, by simp [Gate.run, Gate.step, hf', hal], ?_, ?_⟩
    · refine ⟨ok_after hi hs, fun g m => ?_, ?_, fun y g => ?_, ?_, fun g => ?_⟩
      · show (g, m) ∈ s'.execMu ↔ _
        rw [loc_put, h1, hi.mu]
        by_cases hg : g = t
        · subst hg; simp [h4]
        · simp [hg]
      · show ∀ h ∈ s'.execMu, _ → s'.execMu = _
        rw [h1]; exact hi.xalone
      · show (y, g) ∈ s'.active ↔ _
        rw [loc_put, h2, List.mem_cons, hi.act]
        by_cases hg : g = t
        · subst hg
          simp only [if_true, h6', h6, Prod.mk.injEq, and_true]
          constructor
          · rintro (h | h)
            · rw [h]
            · cases h
          · intro h; left; exact (Option.some.inj h).symm
        · simp [hg]
      · show ∀ y g g', (y, g) ∈ s'.active → (y, g') ∈ s'.active → _
        rw [h2]
        intro y g g' hg hg'
        have hno : ∀ g'', (x, g'') ∉ c.sh.active := by
          intro g'' hm
          have : c.sh.active.any (·.1 == x) = true := List.any_eq_true.2 ⟨_, hm, by simp⟩
          rw [hf] at this; cases this
        simp only [List.mem_cons, Prod.mk.injEq] at hg hg'
        rcases hg with ⟨rfl, rfl⟩ | hg <;> rcases hg' with ⟨h1', rfl⟩ | hg'
        · rfl
        · exact absurd hg' (hno _)
        · subst h1'; exact absurd hg (hno _)
        · exact hi.actu y g g' hg hg'
      · show _ → s'.clients.contains g = false
        rw [loc_put, h3]
        by_cases hg : g = t
        · subst hg; simp only [if_true, h7]; exact hi.emb g
        · simp only [hg, if_false]; exact hi.emb g
    · refine ⟨by show gs.clients = s'.clients; rw [h3, hr.1], by show (x, t) :: gs.active = s'.active; rw [h2, hr.2.1], fun g m => ?_⟩
      show (g, m) ∈ gs.holders ↔ _
      rw [loc_put, hr.2.2]
      by_cases hg : g = t
      · subst hg; simp [h4, h5]
      · simp [hg]
  | txe x h1 h2 h3 h4 h5 h6 h6' h7 =>
    have hm : (x, t) ∈ c.sh.active := (hi.act x t).2 h6
    have hcont : (x, t) ∈ gs.active := by rw [hr.2.1]; exact hm
    refine ⟨{ gs with active := gs.active.filter (·.1 != x) }, by simp [Gate.run, Gate.step, hcont], ?_, ?_⟩
    · refine ⟨ok_after hi hs, fun g m => ?_, ?_, fun y g => ?_, ?_, fun g => ?_⟩
      · show (g, m) ∈ s'.execMu ↔ _
        rw [loc_put, h1, hi.mu]
        by_cases hg : g = t
        · subst hg; simp [h4]
        · simp [hg]
      · show ∀ h ∈ s'.execMu, _ → s'.execMu = _
        rw [h1]; exact hi.xalone
      · show (y, g) ∈ s'.active ↔ _
        rw [loc_put, h2, List.mem_filter, hi.act]
        by_cases hg : g = t
        · subst hg
          simp only [if_true, h6', h6]
          constructor
          · rintro ⟨h, hne⟩
            have := Option.some.inj h
            subst this; simp at hne
          · intro h; cases h
        · simp only [hg, if_false]
          constructor
          · exact fun h => h.1
          · intro h
            refine ⟨h, ?_⟩
            have hyg : (y, g) ∈ c.sh.active := (hi.act y g).2 h
            simp only [bne_iff_ne, ne_eq]
            rintro rfl
            exact hg (hi.actu _ _ _ hyg hm)
      · show ∀ y g g', (y, g) ∈ s'.active → (y, g') ∈ s'.active → _
        rw [h2]
        intro y g g' hg hg'
        exact hi.actu y g g' (List.mem_filter.1 hg).1 (List.mem_filter.1 hg').1
      · show _ → s'.clients.contains g = false
        rw [loc_put, h3]
        by_cases hg : g = t
        · subst hg; simp only [if_true, h7]; exact hi.emb g
        · simp only [hg, if_false]; exact hi.emb g
    · refine ⟨by show gs.clients = s'.clients; rw [h3, hr.1], by show gs.active.filter _ = s'.active; rw [h2, hr.2.1], fun g m => ?_⟩
      show (g, m) ∈ gs.holders ↔ _
      rw [loc_put, hr.2.2]
      by_cases hg : g = t
      · subst hg; simp [h4, h5]
      · simp [hg]
  | lock m h1 hm h2 h3 h4 h4' h5 h5' h6 h7 =>
    refine ⟨gs, rfl, ?_, ?_⟩
    · refine ⟨ok_after hi hs, fun g m' => ?_, ?_, fun y g => ?_, ?_, fun g => ?_⟩
      · show (g, m') ∈ s'.execMu ↔ _
        rw [loc_put, h1, List.mem_cons, hi.mu]
        by_cases hg : g = t
        · subst hg
          simp only [if_true, h4', h4, Prod.mk.injEq, true_and]
          constructor
          · rintro (h | h)
            · rw [h]
            · cases h
          · intro h; left; exact (Option.some.inj h).symm
        · simp [hg]
      · show ∀ h ∈ s'.execMu, _ → s'.execMu = _
        rw [h1]
        intro h hh hx
        rcases hm with ⟨rfl, hemp⟩ | ⟨rfl, hall⟩
        · rw [hemp] at hh ⊢
          simp only [List.mem_singleton] at hh
          rw [hh]
        · simp only [List.mem_cons] at hh
          rcases hh with rfl | hh
          · cases hx
          · have := (List.all_eq_true.1 hall) h hh
            simp only [beq_iff_eq] at this
            rw [hx] at this; cases this
      · show (y, g) ∈ s'.active ↔ _
        rw [loc_put, h2, hi.act]
        by_cases hg : g = t
        · subst hg; simp [h6]
        · simp [hg]
      · show ∀ y g g', (y, g) ∈ s'.active → (y, g') ∈ s'.active → _
        rw [h2]; exact hi.actu
      · show _ → s'.clients.contains g = false
        rw [loc_put, h3]
        by_cases hg : g = t
        · subst hg; simp only [if_true, h7]; exact hi.emb g
        · simp only [hg, if_false]; exact hi.emb g
    · refine ⟨by rw [hr.1]; exact h3.symm, by rw [hr.2.1]; exact h2.symm, fun g m' => ?_⟩
      rw [loc_put, hr.2.2]
      by_cases hg : g = t
      · subst hg; simp [h5, h5']
      · simp [hg]
  | unlock h1 h2 h3 h4' h5 h5' h6 h7 =>
    refine ⟨gs, rfl, ?_, ?_⟩
    · refine ⟨ok_after hi hs, fun g m' => ?_, ?_, fun y g => ?_, ?_, fun g => ?_⟩
      · show (g, m') ∈ s'.execMu ↔ _
        rw [loc_put, h1, List.mem_filter, hi.mu]
        by_cases hg : g = t
        · subst hg; simp [h4']
        · simp [hg]
      · show ∀ h ∈ s'.execMu, _ → s'.execMu = _
        rw [h1]
        intro h hh hx
        have hh' := List.mem_filter.1 hh
        have := hi.xalone h hh'.1 hx
        rw [this]
        simp only [List.filter_cons, hh'.2, if_true, List.filter_nil]
      · show (y, g) ∈ s'.active ↔ _
        rw [loc_put, h2, hi.act]
        by_cases hg : g = t
        · subst hg; simp [h6]
        · simp [hg]
      · show ∀ y g g', (y, g) ∈ s'.active → (y, g') ∈ s'.active → _
        rw [h2]; exact hi.actu
      · show _ → s'.clients.contains g = false
        rw [loc_put, h3]
        by_cases hg : g = t
        · subst hg; simp only [if_true, h7]; exact hi.emb g
        · simp only [hg, if_false]; exact hi.emb g
    · refine ⟨by rw [hr.1]; exact h3.symm, by rw [hr.2.1]; exact h2.symm, fun g m' => ?_⟩
      rw [loc_put, hr.2.2]
      by_cases hg : g = t
      · subst hg; simp [h5, h5']
      · simp [hg]

end

end NodisVerif.GateProg
