import NodisVerif.Proofs.C16Table3
import NodisVerif.Proofs.C16Wire
/-
  C16, handler level, sorted-set / scan table, part 2: wire-level side conditions (`WireRes`): every
  token any handler of `Handler3.table3` / `Handler3.fixtures` writes — on any argument vector, store,
  clock, choice, panicking or not — has an array count ≥ -1 and no CR / LF inside a simple string.
  The only simple strings are "OK" and "UNSUPPORTED"; scores are written as bulk strings.
-/
namespace NodisVerif.Proofs.C16Table3
open NodisVerif NodisVerif.Resp NodisVerif.Handler NodisVerif.Handler3
open NodisVerif.Proofs.C08Step

/-! ## tokens -/

theorem tokOK_unsup : tokOK Handler3.unsupported = true := tokOK_unsupported

theorem tokOK_fmtScore (x : F64) : tokOK (fmtScore x) = true := by
  unfold fmtScore
  split
  · exact tokOK_bulk _
  · exact tokOK_unsup

/-! ## the `Pre` monad -/

theorem wire_bind {α : Type} (x : Pre α) (f : α → Pre HRes)
    (h : ∀ a, WireRes (Pre.run (f a))) : WireRes (Pre.run (x >>= f)) := by
  cases x with
  | ok a => exact h a
  | err => exact wire_errReply
  | crash => trivial
  | unsup =>
    intro s now ch
    exact wgood_of_toks _ (wireOK_single _ tokOK_unsup)

theorem wire_pure (r : HRes) (h : WireRes r) : WireRes (Pre.run (pure r)) := h
theorem wire_crash : WireRes (Pre.run Pre.crash) := trivial
theorem wire_err : WireRes (Pre.run Pre.err) := wire_errReply

/-! ## rendering -/

theorem wgood_panicOut (s : MState) (ts : List Tok) (h : WireOK ts) : WGood (panicOut s ts) :=
  wgood_panic s ts h

theorem wgood_panicOut_nil (s : MState) : WGood (panicOut s) := wgood_panic_nil s

theorem wgood_writeMembers (s : MState) (o : Out) : WGood (writeMembers s o) := by
  unfold writeMembers
  split
  · exact wgood_done _ _ (wireOK_bulkList _)
  · exact wgood_done_tok _ _ tokOK_unsup
  · exact wgood_done_tok _ _ (tokOK_arr 0 (by omega))

/-- the WITHSCORES loop, on ANY item list (nil elements included): whatever has been written when it
    stops or panics is readable -/
theorem wgood_writeItems_go (s : MState) : ∀ (items : List (Option Item)) (acc : List Tok), WireOK acc →
    WGood (writeItems.go s items acc) := by
  intro items
  induction items with
  | nil => intro acc h; rw [writeItems.go]; exact wgood_done _ _ h
  | cons it rest ih =>
    intro acc h
    cases it with
    | none => rw [writeItems.go]; exact wgood_panicOut _ _ h
    | some it =>
      obtain ⟨sc, m⟩ := it
      rw [writeItems.go]
      apply ih
      rw [wireOK_append]
      refine ⟨h, ?_⟩
      rw [wireOK_cons]
      exact ⟨tokOK_bulk m, wireOK_single _ (tokOK_fmtScore sc)⟩

theorem wgood_writeItems (s : MState) (o : Out) : WGood (writeItems s o) := by
  unfold writeItems
  split
  · exact wgood_writeItems_go s _ _ (wireOK_arr _ (by omega))
  · exact wgood_done_tok _ _ tokOK_unsup
  · exact wgood_done_tok _ _ (tokOK_arr 0 (by omega))

theorem wgood_writeRange (ws : Bool) (s : MState) (o : Out) : WGood (writeRange ws s o) := by
  unfold writeRange
  split
  · exact wgood_writeItems s o
  · exact wgood_writeMembers s o

/-- tokens written before a closure's own tokens -/
theorem wgood_prefix (o : BodyOut) (pre : List Tok) (hp : WireOK pre) (h : WGood o) :
    WGood { o with toks := pre ++ o.toks } := by
  unfold WGood replyOf at *
  dsimp only
  split
  · rename_i hpk
    rw [if_pos hpk] at h
    rw [List.append_assoc]
    exact (wireOK_append _ _).2 ⟨hp, h⟩
  · rename_i hpk
    rw [if_neg hpk] at h
    exact (wireOK_append _ _).2 ⟨hp, h⟩

/-! ## handlers writing one scalar -/

theorem wgood_zAddBody (args : List Bytes) (key : Bytes) (itemStart : Int) (s : MState) (now : Int) (ch : Choice) :
    WGood (zAddBody args key itemStart s now ch) := by
  unfold zAddBody
  dsimp only
  split
  · exact wgood_done_tok _ _ rfl
  · split
    · exact wgood_done_tok _ _ rfl
    · split
      · exact wgood_done_tok _ _ rfl
      · split
        · exact wgood_done_tok _ _ rfl
        · split
          · next t heq =>
            rcases parseScores_error _ _ heq with rfl | rfl
            · exact wgood_done_tok _ _ tokOK_unsup
            · exact wgood_done_tok _ _ rfl
          · split
            · split
              · exact wgood_panicOut_nil _
              · apply wgood_call_all; intro s o
                split
                · exact wgood_done_tok _ _ (tokOK_fmtScore _)
                · exact wgood_done_tok _ _ tokOK_unsup
            · apply wgood_call_all; intro s o; exact wgood_done_tok _ _ rfl

theorem wire_zAdd (args : List Bytes) : WireRes (Handler3.zAdd args) := by
  unfold Handler3.zAdd
  split
  · exact wire_errReply
  · dsimp only
    split
    · exact wire_errReply
    · split
      · exact wire_errReply
      · intro s now ch
        exact wgood_zAddBody _ _ _ _ _ _

theorem wire_zCard (args : List Bytes) : WireRes (Handler3.zCard args) := by
  unfold Handler3.zCard
  split
  · exact wire_errReply
  · wcall

theorem wireOK_rankReply (r : Int) (m : Bytes) : WireOK [Tok.arr 2, Tok.int r, Tok.bulk m] := by
  rw [wireOK_cons]
  refine ⟨tokOK_arr 2 (by omega), ?_⟩
  rw [wireOK_cons]
  exact ⟨tokOK_int r, wireOK_bulk m⟩

theorem wgood_rankBody (desc : Bool) (args : List Bytes) (s : MState) (now : Int) (ch : Choice) :
    WGood (rankBody desc args s now ch) := by
  unfold rankBody
  split
  · split
    · apply wgood_call_all; intro s o
      split
      · exact wgood_done _ _ (wireOK_rankReply _ _)
      · exact wgood_done_tok _ _ rfl
    · apply wgood_call_all; intro s o
      split
      · exact wgood_done_tok _ _ rfl
      · exact wgood_done_tok _ _ rfl
  · exact wgood_panicOut_nil _

theorem wire_zRank (args : List Bytes) : WireRes (Handler3.zRank args) := by
  unfold Handler3.zRank
  split
  · exact wire_errReply
  · intro s now ch; exact wgood_rankBody _ _ _ _ _

theorem wire_zRevRank (args : List Bytes) : WireRes (Handler3.zRevRank args) := by
  unfold Handler3.zRevRank
  split
  · exact wire_errReply
  · intro s now ch; exact wgood_rankBody _ _ _ _ _

theorem wire_zScore (args : List Bytes) : WireRes (Handler3.zScore args) := by
  unfold Handler3.zScore
  split
  · intro s now ch
    apply wgood_call_all; intro s o
    split
    · exact wgood_done_tok _ _ (tokOK_fmtScore _)
    · exact wgood_done_tok _ _ rfl
  · exact wire_errReply

theorem wire_zIncrBy (args : List Bytes) : WireRes (Handler3.zIncrBy args) := by
  unfold Handler3.zIncrBy
  split
  · apply wire_bind; intro score
    apply wire_pure
    intro s now ch
    apply wgood_call_all; intro s o
    split
    · exact wgood_done_tok _ _ (tokOK_fmtScore _)
    · exact wgood_done_tok _ _ tokOK_unsup
  · exact wire_errReply

/-! ## the ZRANGE family -/

theorem wire_byScoreBody (key : Bytes) (desc ws : Bool) (min max : F64) (offset count mode : Int) :
    WireRes (byScoreBody key desc ws min max offset count mode) := by
  unfold byScoreBody
  intro s now ch
  apply wgood_call_all; intro s o
  exact wgood_writeRange _ _ _

theorem wire_byRankBody (key : Bytes) (desc ws : Bool) (start stop : Int) :
    WireRes (byRankBody key desc ws start stop) := by
  unfold byRankBody
  intro s now ch
  apply wgood_call_all; intro s o
  exact wgood_writeRange _ _ _

theorem wire_zRange (args : List Bytes) : WireRes (Handler3.zRange args) := by
  unfold Handler3.zRange
  split
  · dsimp only
    split
    · apply wire_bind; intro c1
      apply wire_bind; intro min
      apply wire_bind; intro c2
      apply wire_bind; intro max
      apply wire_bind; intro oc
      exact wire_byScoreBody _ _ _ _ _ _ _ _
    · apply wire_bind; intro start
      apply wire_bind; intro stop
      exact wire_byRankBody _ _ _ _ _
  · exact wire_errReply

theorem wire_zRevRange (args : List Bytes) : WireRes (Handler3.zRevRange args) := by
  unfold Handler3.zRevRange
  split
  · apply wire_bind; intro start
    apply wire_bind; intro stop
    exact wire_byRankBody _ _ _ _ _
  · exact wire_errReply

theorem wire_zRangeByScore (args : List Bytes) : WireRes (Handler3.zRangeByScore args) := by
  unfold Handler3.zRangeByScore
  split
  · apply wire_bind; intro c1
    apply wire_bind; intro min
    apply wire_bind; intro c2
    apply wire_bind; intro max
    apply wire_bind; intro oc
    exact wire_byScoreBody _ _ _ _ _ _ _ _
  · exact wire_errReply

theorem wire_zRevRangeByScore (args : List Bytes) : WireRes (Handler3.zRevRangeByScore args) := by
  unfold Handler3.zRevRangeByScore
  split
  · apply wire_bind; intro c2
    apply wire_bind; intro min
    apply wire_bind; intro c1
    apply wire_bind; intro max
    apply wire_bind; intro oc
    exact wire_byScoreBody _ _ _ _ _ _ _ _
  · exact wire_errReply

/-! ## counting / removing -/

theorem wire_zCount (args : List Bytes) : WireRes (Handler3.zCount args) := by
  unfold Handler3.zCount
  split
  · apply wire_bind; intro c1
    apply wire_bind; intro min
    apply wire_bind; intro c2
    apply wire_bind; intro max
    apply wire_pure
    wcall
  · exact wire_errReply

theorem wire_zRem (args : List Bytes) : WireRes (Handler3.zRem args) := by
  unfold Handler3.zRem
  dsimp only
  split
  · exact wire_errReply
  · intro s now ch
    split
    · exact wgood_panicOut_nil _
    · apply wgood_call_all; intro s o; exact wgood_done_tok _ _ rfl

theorem wire_zRemRangeByRank (args : List Bytes) : WireRes (Handler3.zRemRangeByRank args) := by
  unfold Handler3.zRemRangeByRank
  dsimp only
  split
  · exact wire_errReply
  · apply wire_bind; intro key
    apply wire_bind; intro a1
    apply wire_bind; intro start
    apply wire_bind; intro a2
    apply wire_bind; intro stop
    apply wire_pure
    wcall

theorem wire_zRemRangeByScore (args : List Bytes) : WireRes (Handler3.zRemRangeByScore args) := by
  unfold Handler3.zRemRangeByScore
  dsimp only
  split
  · exact wire_errReply
  · apply wire_bind; intro key
    apply wire_bind; intro a1
    apply wire_bind; intro c1
    apply wire_bind; intro min
    apply wire_bind; intro a2
    apply wire_bind; intro max
    apply wire_bind; intro c2
    apply wire_pure
    wcall

/-! ## ZUNIONSTORE / ZINTERSTORE -/

theorem wire_zStore (union : Bool) (args : List Bytes) : WireRes (Handler3.zStore union args) := by
  unfold Handler3.zStore
  split
  · exact wire_errReply
  · apply wire_bind; intro dst
    apply wire_bind; intro a1
    apply wire_bind; intro numKeys
    dsimp only
    split
    · exact wire_crash
    · have body : ∀ (weights : List F64) (agg : Bytes), WireRes (.exec fun s now _ =>
            call (Api.zstore union s now dst
                (((args ++ List.replicate (capOf args.length - args.length) []).drop 2).take numKeys.toNat)
                weights (upper agg)) fun s o =>
              match o with
              | .unsupported => done s [unsupported]
              | .hang => done s []
              | _ => call (Api.zcard (Api.commit s) now dst) fun s o => done s [.int (intOf o)]) := by
        intro weights agg s now ch
        apply wgood_call_all; intro s o
        split
        · exact wgood_done_tok _ _ tokOK_unsup
        · exact wgood_done _ _ wireOK_nil
        · apply wgood_call_all; intro s o; exact wgood_done_tok _ _ rfl
      split
      · split
        · exact wire_err
        · apply wire_bind; intro weights
          split <;> (apply wire_bind; intro agg; exact body _ _)
      · apply wire_bind; intro weights
        split <;> (apply wire_bind; intro agg; exact body _ _)

theorem wire_zClear (args : List Bytes) : WireRes (Handler3.zClear args) := by
  unfold Handler3.zClear
  dsimp only
  split
  · exact wire_errReply
  · intro s now ch
    split
    · exact wgood_panicOut_nil _
    · apply wgood_call_all; intro s o; exact wgood_done_tok _ _ tokOK_ok

theorem wire_zExists (args : List Bytes) : WireRes (Handler3.zExists args) := by
  unfold Handler3.zExists
  dsimp only
  split
  · exact wire_errReply
  · intro s now ch
    split
    · apply wgood_call_all; intro s o; exact wgood_done_tok _ _ rfl
    · exact wgood_panicOut_nil _

/-! ## SSCAN / HSCAN / ZSCAN -/

theorem wgood_nextCursor (card : MState → Int → Bytes → Api.R) (s : MState) (now : Int) (key : Bytes)
    (next : Int) (k : MState → Int → BodyOut) (hk : ∀ s n, WGood (k s n)) :
    WGood (nextCursor card s now key next k) := by
  unfold nextCursor
  apply wgood_call_all; intro s o
  exact hk _ _

theorem wireOK_cursor (c : Bytes) : WireOK [Tok.arr 2, Tok.bulk c] := by
  rw [wireOK_cons]
  exact ⟨tokOK_arr 2 (by omega), wireOK_bulk c⟩

theorem wire_sScan (args : List Bytes) : WireRes (Handler3.sScan args) := by
  unfold Handler3.sScan
  split
  · exact wire_errReply
  · apply wire_bind; intro key
    apply wire_bind; intro a1
    apply wire_bind; intro cursor
    apply wire_bind; intro pc
    apply wire_pure
    intro s now ch
    apply wgood_call_all; intro s o
    split
    · apply wgood_nextCursor
      intro s n
      exact wgood_done _ _ (wireOK_scanReply _ _)
    · exact wgood_done _ _ wireOK_nil

theorem wireOK_kvReply (c : Bytes) (kvs : List (Bytes × Option Bytes)) :
    WireOK ([Tok.arr 2, Tok.bulk c, Tok.arr (2 * kvs.length)] ++
            kvs.flatMap fun (k, v) => [Tok.bulk k, Tok.bulk (v.getD [])]) := by
  rw [wireOK_append]
  constructor
  · rw [wireOK_cons]
    refine ⟨tokOK_arr 2 (by omega), ?_⟩
    rw [wireOK_cons]
    exact ⟨tokOK_bulk c, wireOK_arr _ (by omega)⟩
  · apply wireOK_flatMap
    intro kv _
    obtain ⟨k, v⟩ := kv
    rw [wireOK_cons]
    exact ⟨tokOK_bulk k, wireOK_bulk _⟩

theorem wire_hScan (args : List Bytes) : WireRes (Handler3.hScan args) := by
  unfold Handler3.hScan
  split
  · exact wire_errReply
  · apply wire_bind; intro key
    apply wire_bind; intro a1
    apply wire_bind; intro pc
    apply wire_pure
    intro s now ch
    apply wgood_call_all; intro s o
    split
    · apply wgood_nextCursor
      intro s n
      exact wgood_done _ _ (wireOK_kvReply _ _)
    · exact wgood_done _ _ wireOK_nil

theorem wire_zScan (args : List Bytes) : WireRes (Handler3.zScan args) := by
  unfold Handler3.zScan
  split
  · exact wire_errReply
  · apply wire_bind; intro key
    apply wire_bind; intro a1
    apply wire_bind; intro cursor
    apply wire_bind; intro pc
    apply wire_pure
    intro s now ch
    apply wgood_call_all; intro s o
    split
    · apply wgood_nextCursor
      intro s n
      exact wgood_prefix _ _ (wireOK_cursor _) (wgood_writeItems _ _)
    · exact wgood_done _ _ wireOK_nil

/-! ## the dispatch tables -/

/-- every handler of `Handler3.table3`: whatever it writes can be read back -/
theorem table3_wire : TableWire Handler3.table3 := by
  intro name args r h
  unfold Handler3.table3 at h
  split at h <;> first
    | (cases h; done)
    | (cases h
       first
       | exact wire_zAdd _ | exact wire_zCard _ | exact wire_zRank _ | exact wire_zRevRank _
       | exact wire_zScore _ | exact wire_zIncrBy _ | exact wire_zRange _
       | exact wire_zRevRange _ | exact wire_zRangeByScore _ | exact wire_zRevRangeByScore _
       | exact wire_zCount _ | exact wire_zRem _ | exact wire_zRemRangeByRank _
       | exact wire_zRemRangeByScore _ | exact wire_zStore _ _ | exact wire_zClear _
       | exact wire_zExists _ | exact wire_sScan _ | exact wire_hScan _ | exact wire_zScan _)

theorem wire_sAddFixture (args : List Bytes) : WireRes (Handler3.sAddFixture args) := by
  unfold Handler3.sAddFixture
  split
  · wcall
  · exact wire_errReply

theorem wire_hSetFixture (args : List Bytes) : WireRes (Handler3.hSetFixture args) := by
  unfold Handler3.hSetFixture
  split
  · intro s now ch
    apply wgood_call_all; intro s o
    split
    · exact wgood_done_tok _ _ rfl
    · apply wgood_call_all; intro s o2; exact wgood_done_tok _ _ rfl
  · exact wire_errReply

theorem fixtures_wire : TableWire Handler3.fixtures := by
  intro name args r h
  unfold Handler3.fixtures at h
  split at h <;> first
    | (cases h; done)
    | (cases h
       first
       | exact wire_sAddFixture _ | exact wire_hSetFixture _)

/-- the two tables as `TableOneReply` (the hypothesis of `C08Step.step_one_reply` & co.) -/
theorem table3_tableOneReply : TableOneReply Handler3.table3 := table3_one_reply
theorem fixtures_tableOneReply : TableOneReply Handler3.fixtures := fixtures_one_reply

/- UNPROVED: nothing. The wire theorems do not use the API shape facts: they hold for every API result,
   nil items and `.hang` included. -/

end NodisVerif.Proofs.C16Table3
