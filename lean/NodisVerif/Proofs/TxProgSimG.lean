import NodisVerif.Proofs.TxProgSimC
/-
  Program model: the one-record mini transactions of store.go / key.go (`gcRecord`, `flushRecord`, the visit of
  Keys / Scan), pcs g1 … g13.
-/
namespace NodisVerif.Proofs.TxProg
open NodisVerif.Proto (Key Rec Mode Ev Hold TxSt PState assoc erase put Tx)
open NodisVerif.TxProg
open NodisVerif.Proofs.Proto

section Cases
variable {c : Cfg} {p : PState} {t : Tid} {ch : Choice} {s' : Shared} {l' : Loc} {e : Option Ev}

theorem case_g1 (hs : Sim c p) (hpc : (c.loc t).pc = .g1)
    (h : tstep c.sh t (c.loc t) ch = some (s', l', e)) : Simulated c p t s' l' e := by
  simp only [tstep, hpc] at h
  have hi := hs.thr t
  have hf := hi.facts
  simp only [Facts, hpc] at hf
  cases h
  have htx := hs.tx_some t (by simp [hpc])
  simp only [holdsOf, waitingOf, committingOf, hpc] at htx
  have hstep : Proto.step p (.wait t (c.loc t).key (c.loc t).m .w) = some
      (p.setTx t { holds := [], waiting := some ((c.loc t).key, (c.loc t).m, .w) }) := by
    simp [Proto.step, htx, hs.names, hf.1, TxSt.holdOf, TxSt.mayWait]
  refine ⟨_, hstep, ?_⟩
  refine hs.update t _ _ _ (hs.reach.next hstep) hs.idx hs.pend hs.names hs.wf ?_ ?_
    (fun u hu => tx_setTx_ne _ _ hu) (fun u _ => hs.thr u)
  · rw [tx_setTx_same]; simp [absTx, holdsOf, waitingOf, committingOf]
  · exact ⟨by simp [holdsOf], by simp [extra], by simpa [Facts] using hf, hi.val⟩

theorem case_g2 (hs : Sim c p) (hpc : (c.loc t).pc = .g2)
    (h : tstep c.sh t (c.loc t) ch = some (s', l', e)) : Simulated c p t s' l' e := by
  simp only [tstep, hpc] at h
  have hi := hs.thr t
  have hf := hi.facts
  simp only [Facts, hpc] at hf
  split at h <;> cases h
  rename_i hcan
  refine ⟨p, rfl, ?_⟩
  refine hs.update t _ _ _ hs.reach hs.idx hs.pend hs.names (wf_setMu hs.wf _ _ (wf_lock hcan t)) ?_ ?_
    (fun _ _ => rfl) (fun u _ => hs.other_mu _ _ u (fun m ho => absurd ho (not_owns_canLock hcan u m)))
  · rw [hs.tx t]; simp [absTx, hpc, holdsOf, waitingOf, committingOf]
  · refine ⟨by simp [holdsOf], ?_, by simpa [Facts] using hf, hi.val⟩
    simp only [extra, holdsOf]
    intro x hx; cases hx
    exact ⟨by simp [mu_setMu, owns, Mu.lock], by simp [hf.1], by simp⟩

theorem case_g3 (hs : Sim c p) (hpc : (c.loc t).pc = .g3)
    (h : tstep c.sh t (c.loc t) ch = some (s', l', e)) : Simulated c p t s' l' e := by
  simp only [tstep, hpc] at h
  have hi := hs.thr t
  have hf := hi.facts
  simp only [Facts, hpc] at hf
  have hx := hi.ext ((c.loc t).m, .w) (by simp [extra, hpc])
  cases h
  have htx := hs.tx_some t (by simp [hpc])
  simp only [holdsOf, waitingOf, committingOf, hpc] at htx
  have hfree := hs.free_of_extra (t := t) (r := (c.loc t).m) (m := .w) (by simp [extra, hpc])
  have hstep : Proto.step p (.lock t (c.loc t).key (c.loc t).m .w) = some
      (p.setTx t { holds := [⟨(c.loc t).m, (c.loc t).key, .w, false⟩] }) := by
    simp [Proto.step, htx, hfree, TxSt.setHold]
  refine ⟨_, hstep, ?_⟩
  refine hs.update t _ _ _ (hs.reach.next hstep) hs.idx hs.pend hs.names hs.wf ?_ ?_
    (fun u hu => tx_setTx_ne _ _ hu) (fun u _ => hs.thr u)
  · rw [tx_setTx_same]; simp [absTx, holdsOf, waitingOf, committingOf]
  · refine ⟨?_, by simp [extra], by simpa [Facts] using hf, hi.val⟩
    simp only [holdsOf]
    intro g hg
    simp only [List.mem_singleton] at hg; subst hg
    exact hx.1

/-- g4, g6, g7, g9: only `store.mu` and the pc change; the abstraction stays -/
theorem sim_g_silent (hs : Sim c p) (hidx : s'.index = c.sh.index) (hpend : s'.pending = c.sh.pending)
    (hnames : s'.names = c.sh.names) (hmus : s'.mus = c.sh.mus) (habs : absTx l' = absTx (c.loc t))
    (hh : holdsOf l' = holdsOf (c.loc t)) (hx' : extra l' = none) (hf' : Facts c.sh l')
    (hheld : l'.held = (c.loc t).held) : Simulated c p t s' l' none := by
  have hi := hs.thr t
  exact ⟨p, rfl, hs.silent t _ _ hidx hpend hnames hmus habs
    ⟨by rw [hh]; exact hi.own, by simp [hx'], hf', by rw [hheld]; exact hi.val⟩⟩

theorem case_g4 (hs : Sim c p) (hpc : (c.loc t).pc = .g4)
    (h : tstep c.sh t (c.loc t) ch = some (s', l', e)) : Simulated c p t s' l' e := by
  simp only [tstep, hpc] at h
  have hf := (hs.thr t).facts
  simp only [Facts, hpc] at hf
  split at h <;> cases h
  exact sim_g_silent hs rfl rfl rfl rfl (by simp [absTx, hpc, holdsOf, waitingOf, committingOf])
    (by simp [holdsOf, hpc]) (by simp [extra]) (by simpa [Facts] using hf) rfl

theorem case_g5 (hs : Sim c p) (hpc : (c.loc t).pc = .g5)
    (h : tstep c.sh t (c.loc t) ch = some (s', l', e)) : Simulated c p t s' l' e := by
  simp only [tstep, hpc] at h
  have hi := hs.thr t
  have hown := hi.own
  simp only [holdsOf, hpc] at hown
  have hf := hi.facts
  simp only [Facts, hpc] at hf
  cases h
  have htx := hs.tx_some t (by simp [hpc])
  simp only [holdsOf, waitingOf, committingOf, hpc] at htx
  have hho := holdOf_head ⟨(c.loc t).m, (c.loc t).key, .w, false⟩ [] none false
  simp only at hho
  generalize hok : (assoc c.sh.index (c.loc t).key == some (c.loc t).m) = ok
  cases ok with
  | false =>
    have hstep : Proto.step p (.valid t (c.loc t).key (c.loc t).m false) = some p := by
      simp [Proto.step, htx, hho]
    refine ⟨p, hstep, ?_⟩
    refine hs.silent t _ _ rfl rfl rfl rfl ?_
      ⟨by simpa [holdsOf] using hown, by simp [extra], by simpa [Facts] using hf, hi.val⟩
    simp [absTx, hpc, holdsOf, waitingOf, committingOf]
  | true =>
    have hidx : assoc c.sh.index (c.loc t).key = some (c.loc t).m := by simpa using hok
    have hlk : c.sh.lookup (c.loc t).key = some (c.loc t).m := by simp [Shared.lookup, hidx]
    have hstep : Proto.step p (.valid t (c.loc t).key (c.loc t).m true) = some
        (p.setTx t { holds := [⟨(c.loc t).m, (c.loc t).key, .w, true⟩] }) := by
      simp [Proto.step, htx, hho, hs.lookup, hlk, TxSt.setHold]
    refine ⟨_, hstep, ?_⟩
    refine hs.update t _ _ _ (hs.reach.next hstep) hs.idx hs.pend hs.names hs.wf ?_ ?_
      (fun u hu => tx_setTx_ne _ _ hu) (fun u _ => hs.thr u)
    · rw [tx_setTx_same]; simp [absTx, holdsOf, waitingOf, committingOf]
    · exact ⟨by simpa [holdsOf] using hown, by simp [extra], by simpa [Facts] using hf, hi.val⟩

theorem case_g6 (hs : Sim c p) (hpc : (c.loc t).pc = .g6)
    (h : tstep c.sh t (c.loc t) ch = some (s', l', e)) : Simulated c p t s' l' e := by
  simp only [tstep, hpc] at h
  have hf := (hs.thr t).facts
  simp only [Facts, hpc] at hf
  split at h
  · rename_i hok
    have hok : (c.loc t).okcur = false := by simpa using hok
    cases h
    exact sim_g_silent hs rfl rfl rfl rfl (by simp [absTx, hpc, holdsOf, waitingOf, committingOf, hok])
      (by simp [holdsOf, hpc]) (by simp [extra]) (by simpa [Facts] using hf) rfl
  · rename_i hok
    have hok : (c.loc t).okcur = true := by simpa using hok
    split at h <;> cases h
    · exact sim_g_silent hs rfl rfl rfl rfl (by simp [absTx, hpc, holdsOf, waitingOf, committingOf])
        (by simp [holdsOf, hpc]) (by simp [extra]) (by simpa [Facts, hok] using hf) rfl
    · exact sim_g_silent hs rfl rfl rfl rfl (by simp [absTx, hpc, holdsOf, waitingOf, committingOf])
        (by simp [holdsOf, hpc]) (by simp [extra]) (by simpa [Facts, hok] using hf) rfl

theorem case_g7 (hs : Sim c p) (hpc : (c.loc t).pc = .g7)
    (h : tstep c.sh t (c.loc t) ch = some (s', l', e)) : Simulated c p t s' l' e := by
  simp only [tstep, hpc] at h
  have hf := (hs.thr t).facts
  simp only [Facts, hpc] at hf
  split at h <;> cases h
  exact sim_g_silent hs rfl rfl rfl rfl (by simp [absTx, hpc, holdsOf, waitingOf, committingOf])
    (by simp [holdsOf, hpc]) (by simp [extra]) (by simpa [Facts] using hf) rfl

theorem case_g9 (hs : Sim c p) (hpc : (c.loc t).pc = .g9)
    (h : tstep c.sh t (c.loc t) ch = some (s', l', e)) : Simulated c p t s' l' e := by
  simp only [tstep, hpc] at h
  have hf := (hs.thr t).facts
  simp only [Facts, hpc] at hf
  cases h
  exact sim_g_silent hs rfl rfl rfl rfl (by simp [absTx, hpc, holdsOf, waitingOf, committingOf])
    (by simp [holdsOf, hpc]) (by simp [extra]) (by simpa [Facts] using hf) rfl

theorem case_g8 (hs : Sim c p) (hg : Guarded c t) (hpc : (c.loc t).pc = .g8)
    (h : tstep c.sh t (c.loc t) ch = some (s', l', e)) : Simulated c p t s' l' e := by
  simp only [tstep, hpc] at h
  have hi := hs.thr t
  have hown := hi.own
  simp only [holdsOf, hpc] at hown
  have hf := hi.facts
  simp only [Facts, hpc] at hf
  cases h
  have hidx := hg.2.2.2.2 hpc
  have htx := hs.tx_some t (by simp [hpc])
  simp only [holdsOf, waitingOf, committingOf, hpc] at htx
  have hho := holdOf_head ⟨(c.loc t).m, (c.loc t).key, .w, (c.loc t).okcur⟩ [] none false
  simp only at hho
  have hstep : Proto.step p (.unlink t (c.loc t).key (c.loc t).m) = some
      { p with index := erase p.index (c.loc t).key } := by
    rw [hf.2] at htx hho
    simp [Proto.step, htx, hho, hs.idx, hidx]
  exact sim_maps hs hstep rfl (by simp [hs.idx]) (by simp [hs.pend]) rfl rfl rfl
    (by simp [absTx, hpc, holdsOf, waitingOf, committingOf])
    ⟨by simpa [holdsOf] using hown, by simp [extra], by simpa [Facts] using hf, hi.val⟩

theorem case_g10 (hs : Sim c p) (hpc : (c.loc t).pc = .g10)
    (h : tstep c.sh t (c.loc t) ch = some (s', l', e)) : Simulated c p t s' l' e := by
  simp only [tstep, hpc] at h
  have hi := hs.thr t
  have hown := hi.own
  simp only [holdsOf, hpc] at hown
  have hf := hi.facts
  simp only [Facts, hpc] at hf
  cases h
  have htx := hs.tx_some t (by simp [hpc])
  simp only [holdsOf, waitingOf, committingOf, hpc] at htx
  have hstep : Proto.step p (.commit t) = some
      (p.setTx t { holds := [⟨(c.loc t).m, (c.loc t).key, .w, (c.loc t).okcur⟩], committing := true }) := by
    simp [Proto.step, htx, hf.2]
  refine ⟨_, hstep, ?_⟩
  have hinv : ThreadInv c.sh t { (c.loc t) with pc := .g11 } :=
    ⟨by simpa [holdsOf] using hown, by simp [extra], by simpa [Facts] using hf.1, hi.val⟩
  refine hs.update t _ _ _ (hs.reach.next hstep) hs.idx hs.pend hs.names ?_ ?_ (hinv.congr rfl rfl)
    (fun u hu => tx_setTx_ne _ _ hu) (fun u _ => (hs.thr u).congr rfl rfl)
  · intro r; exact hs.wf r
  · rw [tx_setTx_same]; simp [absTx, holdsOf, waitingOf, committingOf, hf.2]

theorem case_g11 (hs : Sim c p) (hpc : (c.loc t).pc = .g11)
    (h : tstep c.sh t (c.loc t) ch = some (s', l', e)) : Simulated c p t s' l' e := by
  simp only [tstep, hpc] at h
  have hi := hs.thr t
  have hown := hi.own
  simp only [holdsOf, hpc] at hown
  have hf := hi.facts
  simp only [Facts, hpc] at hf
  cases h
  have htx := hs.tx_some t (by simp [hpc])
  simp only [holdsOf, waitingOf, committingOf, hpc] at htx
  have hho := holdOf_head ⟨(c.loc t).m, (c.loc t).key, .w, (c.loc t).okcur⟩ [] none (c.loc t).okcur
  simp only at hho
  have hstep : Proto.step p (.unlock t (c.loc t).m) = some
      (p.setTx t { holds := [], committing := (c.loc t).okcur }) := by
    cases hok : (c.loc t).okcur <;> rw [hok] at htx hho <;> simp [Proto.step, htx, hho, TxSt.delHold]
  refine ⟨_, hstep, ?_⟩
  refine hs.update t _ _ _ (hs.reach.next hstep) hs.idx hs.pend hs.names hs.wf ?_ ?_
    (fun u hu => tx_setTx_ne _ _ hu) (fun u _ => hs.thr u)
  · rw [tx_setTx_same]; simp [absTx, holdsOf, waitingOf, committingOf]
  · refine ⟨by simp [holdsOf], ?_, by simpa [Facts] using hf, hi.val⟩
    simp only [extra, holdsOf]
    intro x hx; cases hx
    exact ⟨hown _ (List.mem_singleton.2 rfl), by simp [hf.1], by simp⟩

theorem case_g12 (hs : Sim c p) (hpc : (c.loc t).pc = .g12)
    (h : tstep c.sh t (c.loc t) ch = some (s', l', e)) : Simulated c p t s' l' e := by
  simp only [tstep, hpc] at h
  have hi := hs.thr t
  have hf := hi.facts
  simp only [Facts, hpc] at hf
  have hx := hi.ext ((c.loc t).m, .w) (by simp [extra, hpc])
  cases h
  refine ⟨p, rfl, ?_⟩
  refine hs.update t _ _ _ hs.reach hs.idx hs.pend hs.names (wf_setMu hs.wf _ _ (wf_unlock _)) ?_ ?_
    (fun _ _ => rfl) (fun u hu => hs.other_mu _ _ u (fun m ho => owns_unlock (hs.wf _) hu hx.1 ho))
  · rw [hs.tx t]; simp [absTx, hpc, holdsOf, waitingOf, committingOf]
  · exact ⟨by simp [holdsOf], by simp [extra], by simpa [Facts] using hf, hi.val⟩

theorem case_g13 (hs : Sim c p) (hpc : (c.loc t).pc = .g13)
    (h : tstep c.sh t (c.loc t) ch = some (s', l', e)) : Simulated c p t s' l' e := by
  simp only [tstep, hpc] at h
  cases h
  have htx := hs.tx_some t (by simp [hpc])
  simp only [holdsOf, waitingOf, committingOf, hpc] at htx
  have hstep : Proto.step p (.fin t) = some { p with txs := erase p.txs t } := by
    simp [Proto.step, htx]
  refine ⟨_, hstep, ?_⟩
  refine hs.update t _ _ _ (hs.reach.next hstep) hs.idx hs.pend hs.names hs.wf ?_ ?_ ?_ (fun u _ => hs.thr u)
  · simp [PState.tx, assoc_erase, absTx]
  · exact ⟨by simp [holdsOf], by simp [extra], by simp [Facts], by simp⟩
  · intro u hu; simp [PState.tx, assoc_erase, hu]

end Cases

end NodisVerif.Proofs.TxProg
