import NodisVerif.Proofs.GateProgLocal
namespace NodisVerif.GateProg
open NodisVerif.Gate (G T GMode Ev)

@[simp] theorem conn_execMu (s : Shared) (m : RW) (t : Tid) : ({ s with execMu := m } : Shared).conn t = s.conn t := rfl
@[simp] theorem conn_watchMu (s : Shared) (m : Option Tid) (t : Tid) : ({ s with watchMu := m } : Shared).conn t = s.conn t := rfl
@[simp] theorem conn_active (s : Shared) (m : List (T × Tid)) (t : Tid) : ({ s with active := m } : Shared).conn t = s.conn t := rfl
@[simp] theorem conn_registry (s : Shared) (m : List (Key × List Tid)) (t : Tid) : ({ s with registry := m } : Shared).conn t = s.conn t := rfl

theorem conn_markAll_commit (s : Shared) (k : Key) (cl : List Tid) (t : Tid) :
    (({ s with conns := markAll s.conns k cl } : Shared).conn t).commit = (s.conn t).commit :=
  (markAll_conn s.conns k cl t).2.1

set_option hygiene false in
macro "ok_simp" : tactic => `(tactic|
  simp_all [ok, frame, bodyOk, cmdGate, gateIs, epilogue, startBody, afterTx, isBpop, qcmdOf, ConnSt.reset, ConnSt.runsNow, conn_markAll_commit])

set_option hygiene false in
macro "ok_tac" : tactic => `(tactic| (
  simp only [tstep, hpc] at hs
  repeat' split at hs
  all_goals (first | (cases hs; done) | skip)
  all_goals (try (injection hs with hs; injection hs with h1 h2; injection h2 with h2 h3; subst h1 h2))
  all_goals (simp only [ok, hpc] at h)
  all_goals (first
    | (ok_simp; done)
    | (cases hc : l.cmd <;> ok_simp; done)
    | (cases hh : l.held <;> ok_simp; done)
    | (cases hx : l.ctx <;> ok_simp; done)
    | (cases hc : l.cmd <;> cases hh : l.held <;> ok_simp; done)
    | (ok_simp <;> grind)
    | (cases hc : l.cmd <;> cases hh : l.held <;> ok_simp <;> grind)
    | (cases hx : l.ctx <;> cases hc : l.cmd <;> cases hh : l.held <;> ok_simp <;> grind))))

theorem ok_step_idle {s : Shared} {t : Tid} {l : Loc} {ch : Choice} {s' l' evs} (hpc : l.pc = .idle)
    (h : ok l (s.conn t).commit = true) (hs : tstep s t l ch = some (s', l', evs)) : ok l' (s'.conn t).commit = true := by
  ok_tac

theorem ok_step_sw {s : Shared} {t : Tid} {l : Loc} {ch : Choice} {s' l' evs} (hpc : l.pc = .sw)
    (h : ok l (s.conn t).commit = true) (hs : tstep s t l ch = some (s', l', evs)) : ok l' (s'.conn t).commit = true := by
  ok_tac

theorem ok_step_xIn {s : Shared} {t : Tid} {l : Loc} {ch : Choice} {s' l' evs} (hpc : l.pc = .xIn)
    (h : ok l (s.conn t).commit = true) (hs : tstep s t l ch = some (s', l', evs)) : ok l' (s'.conn t).commit = true := by
  ok_tac

theorem ok_step_sIn {s : Shared} {t : Tid} {l : Loc} {ch : Choice} {s' l' evs} (hpc : l.pc = .sIn)
    (h : ok l (s.conn t).commit = true) (hs : tstep s t l ch = some (s', l', evs)) : ok l' (s'.conn t).commit = true := by
  ok_tac

theorem ok_step_bServe {s : Shared} {t : Tid} {l : Loc} {ch : Choice} {s' l' evs} (hpc : l.pc = .bServe)
    (h : ok l (s.conn t).commit = true) (hs : tstep s t l ch = some (s', l', evs)) : ok l' (s'.conn t).commit = true := by
  ok_tac

theorem ok_step_call {s : Shared} {t : Tid} {l : Loc} {ch : Choice} {s' l' evs} (hpc : l.pc = .call)
    (h : ok l (s.conn t).commit = true) (hs : tstep s t l ch = some (s', l', evs)) : ok l' (s'.conn t).commit = true := by
  ok_tac

theorem ok_step_ec {s : Shared} {t : Tid} {l : Loc} {ch : Choice} {s' l' evs} (hpc : l.pc = .ec)
    (h : ok l (s.conn t).commit = true) (hs : tstep s t l ch = some (s', l', evs)) : ok l' (s'.conn t).commit = true := by
  ok_tac

theorem ok_step_b0 {s : Shared} {t : Tid} {l : Loc} {ch : Choice} {s' l' evs} (hpc : l.pc = .b0)
    (h : ok l (s.conn t).commit = true) (hs : tstep s t l ch = some (s', l', evs)) : ok l' (s'.conn t).commit = true := by
  ok_tac

theorem ok_step_b1 {s : Shared} {t : Tid} {l : Loc} {ch : Choice} {s' l' evs} (hpc : l.pc = .b1)
    (h : ok l (s.conn t).commit = true) (hs : tstep s t l ch = some (s', l', evs)) : ok l' (s'.conn t).commit = true := by
  ok_tac

theorem ok_step_b2 {s : Shared} {t : Tid} {l : Loc} {ch : Choice} {s' l' evs} (hpc : l.pc = .b2)
    (h : ok l (s.conn t).commit = true) (hs : tstep s t l ch = some (s', l', evs)) : ok l' (s'.conn t).commit = true := by
  ok_tac

theorem ok_step_g1 {s : Shared} {t : Tid} {l : Loc} {ch : Choice} {s' l' evs} (hpc : l.pc = .g1)
    (h : ok l (s.conn t).commit = true) (hs : tstep s t l ch = some (s', l', evs)) : ok l' (s'.conn t).commit = true := by
  ok_tac

theorem ok_step_g2 {s : Shared} {t : Tid} {l : Loc} {ch : Choice} {s' l' evs} (hpc : l.pc = .g2)
    (h : ok l (s.conn t).commit = true) (hs : tstep s t l ch = some (s', l', evs)) : ok l' (s'.conn t).commit = true := by
  ok_tac

theorem ok_step_g3 {s : Shared} {t : Tid} {l : Loc} {ch : Choice} {s' l' evs} (hpc : l.pc = .g3)
    (h : ok l (s.conn t).commit = true) (hs : tstep s t l ch = some (s', l', evs)) : ok l' (s'.conn t).commit = true := by
  ok_tac

theorem ok_step_b3 {s : Shared} {t : Tid} {l : Loc} {ch : Choice} {s' l' evs} (hpc : l.pc = .b3)
    (h : ok l (s.conn t).commit = true) (hs : tstep s t l ch = some (s', l', evs)) : ok l' (s'.conn t).commit = true := by
  simp only [tstep, hpc] at hs
  split at hs
  · injection hs with hs; injection hs with h1 h2; injection h2 with h2 h3; subst h1 h2
    simp only [ok, hpc] at h
    cases hi : l.inLook <;> cases hp : l.panicking <;> cases hn : l.neg <;> cases hx : l.ctx <;>
      simp_all [ok, bodyOk, gateIs, afterTx]
  · cases hs

theorem ok_step_bret {s : Shared} {t : Tid} {l : Loc} {ch : Choice} {s' l' evs} (hpc : l.pc = .bret)
    (h : ok l (s.conn t).commit = true) (hs : tstep s t l ch = some (s', l', evs)) : ok l' (s'.conn t).commit = true := by
  ok_tac

theorem ok_step_p0 {s : Shared} {t : Tid} {l : Loc} {ch : Choice} {s' l' evs} (hpc : l.pc = .p0)
    (h : ok l (s.conn t).commit = true) (hs : tstep s t l ch = some (s', l', evs)) : ok l' (s'.conn t).commit = true := by
  ok_tac

theorem ok_step_p1 {s : Shared} {t : Tid} {l : Loc} {ch : Choice} {s' l' evs} (hpc : l.pc = .p1)
    (h : ok l (s.conn t).commit = true) (hs : tstep s t l ch = some (s', l', evs)) : ok l' (s'.conn t).commit = true := by
  ok_tac

theorem ok_step_p2 {s : Shared} {t : Tid} {l : Loc} {ch : Choice} {s' l' evs} (hpc : l.pc = .p2)
    (h : ok l (s.conn t).commit = true) (hs : tstep s t l ch = some (s', l', evs)) : ok l' (s'.conn t).commit = true := by
  ok_tac

theorem ok_step_p3 {s : Shared} {t : Tid} {l : Loc} {ch : Choice} {s' l' evs} (hpc : l.pc = .p3)
    (h : ok l (s.conn t).commit = true) (hs : tstep s t l ch = some (s', l', evs)) : ok l' (s'.conn t).commit = true := by
  ok_tac

theorem ok_step_p4 {s : Shared} {t : Tid} {l : Loc} {ch : Choice} {s' l' evs} (hpc : l.pc = .p4)
    (h : ok l (s.conn t).commit = true) (hs : tstep s t l ch = some (s', l', evs)) : ok l' (s'.conn t).commit = true := by
  ok_tac

theorem ok_step_p5 {s : Shared} {t : Tid} {l : Loc} {ch : Choice} {s' l' evs} (hpc : l.pc = .p5)
    (h : ok l (s.conn t).commit = true) (hs : tstep s t l ch = some (s', l', evs)) : ok l' (s'.conn t).commit = true := by
  ok_tac

theorem ok_step_w1 {s : Shared} {t : Tid} {l : Loc} {ch : Choice} {s' l' evs} (hpc : l.pc = .w1)
    (h : ok l (s.conn t).commit = true) (hs : tstep s t l ch = some (s', l', evs)) : ok l' (s'.conn t).commit = true := by
  ok_tac

theorem ok_step_w2 {s : Shared} {t : Tid} {l : Loc} {ch : Choice} {s' l' evs} (hpc : l.pc = .w2)
    (h : ok l (s.conn t).commit = true) (hs : tstep s t l ch = some (s', l', evs)) : ok l' (s'.conn t).commit = true := by
  ok_tac

theorem ok_step_w3 {s : Shared} {t : Tid} {l : Loc} {ch : Choice} {s' l' evs} (hpc : l.pc = .w3)
    (h : ok l (s.conn t).commit = true) (hs : tstep s t l ch = some (s', l', evs)) : ok l' (s'.conn t).commit = true := by
  ok_tac

theorem ok_step_u1 {s : Shared} {t : Tid} {l : Loc} {ch : Choice} {s' l' evs} (hpc : l.pc = .u1)
    (h : ok l (s.conn t).commit = true) (hs : tstep s t l ch = some (s', l', evs)) : ok l' (s'.conn t).commit = true := by
  ok_tac

theorem ok_step_u2 {s : Shared} {t : Tid} {l : Loc} {ch : Choice} {s' l' evs} (hpc : l.pc = .u2)
    (h : ok l (s.conn t).commit = true) (hs : tstep s t l ch = some (s', l', evs)) : ok l' (s'.conn t).commit = true := by
  ok_tac

theorem ok_step_u3 {s : Shared} {t : Tid} {l : Loc} {ch : Choice} {s' l' evs} (hpc : l.pc = .u3)
    (h : ok l (s.conn t).commit = true) (hs : tstep s t l ch = some (s', l', evs)) : ok l' (s'.conn t).commit = true := by
  ok_tac

theorem ok_step_e1 {s : Shared} {t : Tid} {l : Loc} {ch : Choice} {s' l' evs} (hpc : l.pc = .e1)
    (h : ok l (s.conn t).commit = true) (hs : tstep s t l ch = some (s', l', evs)) : ok l' (s'.conn t).commit = true := by
  ok_tac

theorem ok_step_e3 {s : Shared} {t : Tid} {l : Loc} {ch : Choice} {s' l' evs} (hpc : l.pc = .e3)
    (h : ok l (s.conn t).commit = true) (hs : tstep s t l ch = some (s', l', evs)) : ok l' (s'.conn t).commit = true := by
  ok_tac

theorem ok_step_e4 {s : Shared} {t : Tid} {l : Loc} {ch : Choice} {s' l' evs} (hpc : l.pc = .e4)
    (h : ok l (s.conn t).commit = true) (hs : tstep s t l ch = some (s', l', evs)) : ok l' (s'.conn t).commit = true := by
  ok_tac

theorem ok_step_e5 {s : Shared} {t : Tid} {l : Loc} {ch : Choice} {s' l' evs} (hpc : l.pc = .e5)
    (h : ok l (s.conn t).commit = true) (hs : tstep s t l ch = some (s', l', evs)) : ok l' (s'.conn t).commit = true := by
  ok_tac

theorem ok_step_e6 {s : Shared} {t : Tid} {l : Loc} {ch : Choice} {s' l' evs} (hpc : l.pc = .e6)
    (h : ok l (s.conn t).commit = true) (hs : tstep s t l ch = some (s', l', evs)) : ok l' (s'.conn t).commit = true := by
  simp only [tstep, hpc] at hs
  injection hs with hs; injection hs with h1 h2; injection h2 with h2 h3; subst h1 h2
  simp only [ok, hpc] at h
  cases hq : l.cur <;> simp_all [ok, bodyOk, gateIs, startBody]

theorem ok_step_ec1 {s : Shared} {t : Tid} {l : Loc} {ch : Choice} {s' l' evs} (hpc : l.pc = .ec1)
    (h : ok l (s.conn t).commit = true) (hs : tstep s t l ch = some (s', l', evs)) : ok l' (s'.conn t).commit = true := by
  ok_tac

theorem ok_step_ec2 {s : Shared} {t : Tid} {l : Loc} {ch : Choice} {s' l' evs} (hpc : l.pc = .ec2)
    (h : ok l (s.conn t).commit = true) (hs : tstep s t l ch = some (s', l', evs)) : ok l' (s'.conn t).commit = true := by
  ok_tac

theorem ok_step_edef {s : Shared} {t : Tid} {l : Loc} {ch : Choice} {s' l' evs} (hpc : l.pc = .edef)
    (h : ok l (s.conn t).commit = true) (hs : tstep s t l ch = some (s', l', evs)) : ok l' (s'.conn t).commit = true := by
  ok_tac

theorem ok_step_dOut {s : Shared} {t : Tid} {l : Loc} {ch : Choice} {s' l' evs} (hpc : l.pc = .dOut)
    (h : ok l (s.conn t).commit = true) (hs : tstep s t l ch = some (s', l', evs)) : ok l' (s'.conn t).commit = true := by
  ok_tac

theorem ok_step_dUnlock {s : Shared} {t : Tid} {l : Loc} {ch : Choice} {s' l' evs} (hpc : l.pc = .dUnlock)
    (h : ok l (s.conn t).commit = true) (hs : tstep s t l ch = some (s', l', evs)) : ok l' (s'.conn t).commit = true := by
  ok_tac

theorem ok_step_dRec {s : Shared} {t : Tid} {l : Loc} {ch : Choice} {s' l' evs} (hpc : l.pc = .dRec)
    (h : ok l (s.conn t).commit = true) (hs : tstep s t l ch = some (s', l', evs)) : ok l' (s'.conn t).commit = true := by
  ok_tac

theorem ok_step_flush {s : Shared} {t : Tid} {l : Loc} {ch : Choice} {s' l' evs} (hpc : l.pc = .flush)
    (h : ok l (s.conn t).commit = true) (hs : tstep s t l ch = some (s', l', evs)) : ok l' (s'.conn t).commit = true := by
  ok_tac

/-- every transition of a thread preserves its local invariant -/
theorem ok_step {s : Shared} {t : Tid} {l : Loc} {ch : Choice} {s' l' evs}
    (h : ok l (s.conn t).commit = true) (hs : tstep s t l ch = some (s', l', evs)) : ok l' (s'.conn t).commit = true := by
  cases hpc : l.pc
  · exact ok_step_idle hpc h hs
  · exact ok_step_sw hpc h hs
  · exact ok_step_xIn hpc h hs
  · exact ok_step_sIn hpc h hs
  · exact ok_step_bServe hpc h hs
  · exact ok_step_call hpc h hs
  · exact ok_step_ec hpc h hs
  · exact ok_step_b0 hpc h hs
  · exact ok_step_b1 hpc h hs
  · exact ok_step_b2 hpc h hs
  · exact ok_step_g1 hpc h hs
  · exact ok_step_g2 hpc h hs
  · exact ok_step_g3 hpc h hs
  · exact ok_step_b3 hpc h hs
  · exact ok_step_bret hpc h hs
  · exact ok_step_p0 hpc h hs
  · exact ok_step_p1 hpc h hs
  · exact ok_step_p2 hpc h hs
  · exact ok_step_p3 hpc h hs
  · exact ok_step_p4 hpc h hs
  · exact ok_step_p5 hpc h hs
  · exact ok_step_w1 hpc h hs
  · exact ok_step_w2 hpc h hs
  · exact ok_step_w3 hpc h hs
  · exact ok_step_u1 hpc h hs
  · exact ok_step_u2 hpc h hs
  · exact ok_step_u3 hpc h hs
  · exact ok_step_e1 hpc h hs
  · exact ok_step_e3 hpc h hs
  · exact ok_step_e4 hpc h hs
  · exact ok_step_e5 hpc h hs
  · exact ok_step_e6 hpc h hs
  · exact ok_step_ec1 hpc h hs
  · exact ok_step_ec2 hpc h hs
  · exact ok_step_edef hpc h hs
  · exact ok_step_dOut hpc h hs
  · exact ok_step_dUnlock hpc h hs
  · exact ok_step_dRec hpc h hs
  · exact ok_step_flush hpc h hs

end NodisVerif.GateProg
