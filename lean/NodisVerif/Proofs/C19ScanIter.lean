import NodisVerif.Proofs.C19Scan
/-
  C19 helpers, part 4: closed form of one keyspace SCAN call on the view (`scanPure`), and the
  full iteration over a fixed view.

  All cursors / counts / lengths are int64 in Go; the model keeps the wrap-around of `cursor--`
  and `count--`, so the closed forms need "the index has fewer than 2^63 records" and "count is an
  int64".
-/
namespace NodisVerif.Proofs.C19ScanIter
open NodisVerif.Spec.Scan NodisVerif.Proofs.C19Iter NodisVerif.Proofs.C19Scan

/-- 2^63 -/
def I63 : Int := 9223372036854775808

theorem wrap64_id (x : Int) (h1 : -I63 ≤ x) (h2 : x < I63) : wrap64 x = x := by
  unfold I63 at h1 h2
  unfold wrap64 int64Max
  simp only
  split <;> omega

section
variable (now : Int) (pat : Bytes) (typ : Nat) (keyLen : Int)

/-- the batch of names kept from a list of view entries -/
def kept (es : List VEnt) : List Bytes := (es.filter (keep now pat typ)).map (·.1)

theorem kept_append (a b : List VEnt) : kept now pat typ (a ++ b) = kept now pat typ a ++ kept now pat typ b := by
  simp [kept]

/-- skipping phase: `j < cursor` entries are passed over -/
theorem goPure_skip : ∀ (j : Nat) (ents : List VEnt) (c iter count : Int) (acc : List Bytes),
    j ≤ ents.length → (j : Int) < c → c < I63 →
    goPure now pat typ keyLen ents c iter count acc
      = goPure now pat typ keyLen (ents.drop j) (c - j) (iter + j) count acc := by
  intro j
  induction j with
  | zero => intro ents c iter count acc _ _ _; simp
  | succ j ih =>
    intro ents c iter count acc hj hc hc2
    match ents, hj with
    | e :: rest, hj =>
      rw [goPure]
      have hw : wrap64 (c - 1) = c - 1 := wrap64_id _ (by unfold I63 at *; omega) (by omega)
      have hpos : c - 1 > 0 := by omega
      simp only [hw, hpos, if_true]
      rw [ih rest (c - 1) (iter + 1) count acc (by simpa using hj) (by omega) (by omega)]
      simp only [List.drop_succ_cons]
      have h1 : c - 1 - (j : Int) = c - ((j + 1 : Nat) : Int) := by omega
      have h2 : iter + 1 + (j : Int) = iter + ((j + 1 : Nat) : Int) := by omega
      rw [h1, h2]

/-- visiting phase with a budget of `k ≥ 0` entries -/
theorem goPure_visit_lim : ∀ (ents : List VEnt) (cursor iter : Int) (k : Nat) (acc : List Bytes),
    cursor ≤ 1 → -I63 < cursor - ents.length → iter + ents.length ≤ keyLen → (k : Int) < I63 →
    goPure now pat typ keyLen ents cursor iter (k : Int) acc
      = ((if ents.length ≤ k then iter + (ents.length : Int) else iter + (k : Int) + 1),
         acc.reverse ++ kept now pat typ (ents.take k)) := by
  intro ents
  induction ents with
  | nil => intro cursor iter k acc _ _ _ _; simp [goPure, kept]
  | cons e rest ih =>
    intro cursor iter k acc h1 h2 h3 h4
    simp only [List.length_cons, Int.natCast_add, Int.natCast_one] at h2 h3
    rw [goPure]
    have hw : wrap64 (cursor - 1) = cursor - 1 := wrap64_id _ (by omega) (by unfold I63 at *; omega)
    have hn1 : ¬ (cursor - 1 > 0) := by omega
    have hn2 : ¬ (iter + 1 > keyLen) := by omega
    simp only [hw, hn1, hn2, if_false]
    cases k with
    | zero => simp [kept]
    | succ k' =>
      have hn3 : ¬ (((k' + 1 : Nat) : Int) = 0) := by omega
      have hw2 : wrap64 (((k' + 1 : Nat) : Int) - 1) = (k' : Int) := by
        rw [wrap64_id _ (by unfold I63; omega) (by omega)]; omega
      simp only [hn3, if_false, hw2]
      have hlen : (rest.length + 1 ≤ k' + 1) = (rest.length ≤ k') := by simp
      by_cases hk : keep now pat typ e = true
      · simp only [hk, if_true]
        rw [ih (cursor - 1) (iter + 1) k' (e.1 :: acc) (by omega) (by omega) (by omega) (by omega)]
        simp only [List.length_cons, hlen, List.take_succ_cons, kept, List.filter_cons, hk, if_true,
          List.map_cons, List.reverse_cons, List.append_assoc, List.singleton_append]
        congr 1
        split <;> (push_cast; omega)
      · simp only [hk, if_false, Bool.false_eq_true]
        rw [ih (cursor - 1) (iter + 1) k' acc (by omega) (by omega) (by omega) (by omega)]
        simp only [List.length_cons, hlen, List.take_succ_cons, kept, List.filter_cons, hk,
          Bool.false_eq_true, if_false]
        congr 1
        split <;> (push_cast; omega)

/-- visiting phase with a negative count: unlimited (even across the wrap at int64 min) -/
theorem goPure_visit_unl : ∀ (ents : List VEnt) (cursor iter count : Int) (acc : List Bytes),
    cursor ≤ 1 → -I63 < cursor - ents.length → iter + ents.length ≤ keyLen → (ents.length : Int) < I63 →
    -I63 ≤ count → count < 0 →
    goPure now pat typ keyLen ents cursor iter count acc
      = (iter + (ents.length : Int), acc.reverse ++ kept now pat typ ents) := by
  intro ents
  induction ents with
  | nil => intro cursor iter count acc _ _ _ _ _ _; simp [goPure, kept]
  | cons e rest ih =>
    intro cursor iter count acc h1 h2 h3 h4 h5 h6
    simp only [List.length_cons, Int.natCast_add, Int.natCast_one] at h2 h3 h4
    rw [goPure]
    have hw : wrap64 (cursor - 1) = cursor - 1 := wrap64_id _ (by omega) (by unfold I63 at *; omega)
    have hn1 : ¬ (cursor - 1 > 0) := by omega
    have hn2 : ¬ (iter + 1 > keyLen) := by omega
    have hn3 : ¬ (count = 0) := by omega
    simp only [hw, hn1, hn2, hn3, if_false]
    -- the recursive call on `rest`, whatever the accumulator
    have hrec : ∀ acc', goPure now pat typ keyLen rest (cursor - 1) (iter + 1) (wrap64 (count - 1)) acc'
        = (iter + 1 + (rest.length : Int), acc'.reverse ++ kept now pat typ rest) := by
      intro acc'
      by_cases hmin : -I63 ≤ count - 1
      · rw [wrap64_id _ hmin (by unfold I63 at *; omega)]
        exact ih (cursor - 1) (iter + 1) (count - 1) acc' (by omega) (by omega) (by omega) (by omega) hmin (by omega)
      · -- count = int64 min: the decrement wraps to int64 max, still more than the index holds
        have hc : count = -I63 := by omega
        have hw2 : wrap64 (count - 1) = ((9223372036854775807 : Nat) : Int) := by
          subst hc; unfold wrap64 int64Max I63; simp
        rw [hw2, goPure_visit_lim now pat typ keyLen rest (cursor - 1) (iter + 1) 9223372036854775807 acc' (by omega) (by omega) (by omega)
          (by unfold I63; omega)]
        have hle : rest.length ≤ 9223372036854775807 := by unfold I63 at h4; omega
        simp only [hle, if_true, List.take_of_length_le hle]
    by_cases hk : keep now pat typ e = true
    · simp only [hk, if_true, hrec]
      simp only [List.length_cons, kept, List.filter_cons, hk, if_true, List.map_cons, List.reverse_cons,
        List.append_assoc, List.singleton_append]
      congr 1; push_cast; omega
    · simp only [hk, if_false, Bool.false_eq_true, hrec]
      simp only [List.length_cons, kept, List.filter_cons, hk, Bool.false_eq_true, if_false]
      congr 1; push_cast; omega

end

/-! ## closed form of one call -/

section
variable (v : List VEnt) (now : Int) (pat : Bytes) (typ : Nat)

/-- 0-based position at which a call with cursor `c` starts visiting -/
def startOf (c : Int) : Nat := (c - 1).toNat

theorem scanPure_end (c count : Int) (hc : (v.length : Int) ≤ c) :
    scanPure v now c pat count typ = (0, []) := by
  unfold scanPure
  simp only
  split
  · rfl
  · first
    | rfl
    | (split
       · rfl
       · omega)

/-- reduce a call to its visiting phase -/
theorem scanPure_visit (hn : (v.length : Int) < I63) (c count : Int) (h0 : 0 ≤ c) (hc : c < v.length) :
    scanPure v now c pat count typ =
      goPure now pat typ (v.length : Int) (v.drop (startOf c)) (c - (startOf c : Nat)) (0 + (startOf c : Nat)) count [] := by
  unfold scanPure
  simp only
  rw [if_neg (by omega), if_neg (by omega)]
  by_cases hc0 : c = 0
  · subst hc0; simp [startOf]
  · exact goPure_skip now pat typ _ (startOf c) v c 0 count [] (by unfold startOf; omega) (by unfold startOf; omega) (by omega)

/-- a call with 0 ≤ COUNT = k: visits `k` records from the start position; replies the 1-based
    position of the first unvisited record, or the index length if it ran off the end -/
theorem scanPure_lim (hn : (v.length : Int) < I63) (c : Int) (k : Nat) (hk : (k : Int) < I63) (h0 : 0 ≤ c) (hc : c < v.length) :
    scanPure v now c pat (k : Int) typ =
      ((if v.length - startOf c ≤ k then (v.length : Int) else ((startOf c + k + 1 : Nat) : Int)),
       kept now pat typ ((v.drop (startOf c)).take k)) := by
  rw [scanPure_visit v now pat typ hn c k h0 hc]
  have hs : startOf c ≤ v.length := by unfold startOf; omega
  rw [goPure_visit_lim now pat typ _ _ _ _ k [] (by unfold startOf; omega)
    (by simp only [List.length_drop]; unfold startOf; unfold I63 at *; omega)
    (by simp only [List.length_drop]; omega) hk]
  simp only [List.length_drop, List.reverse_nil, List.nil_append]
  congr 1
  split <;> omega

/-- a call with a negative COUNT visits everything from the start position -/
theorem scanPure_unl (hn : (v.length : Int) < I63) (c count : Int) (hk : -I63 ≤ count) (hneg : count < 0)
    (h0 : 0 ≤ c) (hc : c < v.length) :
    scanPure v now c pat count typ = ((v.length : Int), kept now pat typ (v.drop (startOf c))) := by
  rw [scanPure_visit v now pat typ hn c count h0 hc]
  have hs : startOf c ≤ v.length := by unfold startOf; omega
  rw [goPure_visit_unl now pat typ _ _ _ _ count [] (by unfold startOf; omega)
    (by simp only [List.length_drop]; unfold startOf; unfold I63 at *; omega)
    (by simp only [List.length_drop]; omega) (by simp only [List.length_drop]; omega) hk hneg]
  simp only [List.length_drop, List.reverse_nil, List.nil_append]
  congr 1
  omega

end

/-! ## the full iteration over a fixed view -/

section
variable (v : List VEnt) (now : Int) (pat : Bytes) (typ : Nat)

/-- the stateless server "SCAN over the fixed view v" -/
def pstep (count : Int) : Unit → Int → Unit × Int × List Bytes :=
  fun _ c => ((), scanPure v now c pat count typ)

/-- the last record of the index is never visited: the cursor that would lead to it equals the
    index length, which the next call takes for "past the end" -/
def Missed (n k p : Nat) : Prop := (n - 1 - p) % k = 0 ∧ n - 1 - p > 0

instance (n k p : Nat) : Decidable (Missed n k p) := by unfold Missed; infer_instance

/-- the final call: a cursor equal to the index length is answered with (0, nothing) -/
theorem iter_final (count : Int) (f : Nat) :
    iterateFrom (pstep v now pat typ count) (f + 1) () (v.length : Int) = ([[]], true) := by
  rw [iterateFrom_succ]
  simp only [pstep, scanPure_end v now pat typ (v.length : Int) count (by omega)]
  simp

theorem iter_scan (hn : (v.length : Int) < I63) (k : Nat) (hk0 : 0 < k) (hk : (k : Int) < I63) :
    ∀ (fuel p : Nat) (c : Int), (c = 0 ∧ p = 0 ∨ c = ((p + 1 : Nat) : Int)) → c < v.length →
      (v.length - p + k - 1) / k + (if Missed v.length k p then 0 else 1) ≤ fuel →
      (iterateFrom (pstep v now pat typ k) fuel () c).2 = true ∧
      (iterateFrom (pstep v now pat typ k) fuel () c).1.flatten
        = kept now pat typ ((v.drop p).take (if Missed v.length k p then v.length - 1 - p else v.length - p)) ∧
      (iterateFrom (pstep v now pat typ k) fuel () c).1.length
        = (v.length - p + k - 1) / k + (if Missed v.length k p then 0 else 1) := by
  intro fuel
  induction fuel with
  | zero =>
    intro p c hpc hc hf
    exfalso
    have hp : p < v.length := by omega
    have : 1 ≤ (v.length - p + k - 1) / k := by
      apply (Nat.le_div_iff_mul_le hk0).2; omega
    omega
  | succ f ih =>
    intro p c hpc hc hf
    have hp : p < v.length := by omega
    have hstart : startOf c = p := by unfold startOf; omega
    have hstep : (pstep v now pat typ (k : Int) () c) =
        ((), (if v.length - p ≤ k then (v.length : Int) else ((p + k + 1 : Nat) : Int)),
          kept now pat typ ((v.drop p).take k)) := by
      simp only [pstep]
      rw [scanPure_lim v now pat typ hn c k hk (by omega) hc, hstart]
    rw [iterateFrom_succ, hstep]
    simp only
    generalize hN : v.length = n at *
    by_cases hA : n - p ≤ k
    · -- the call runs off the end; one more call answers 0
      have hnm : ¬ Missed n k p := by
        unfold Missed; intro ⟨h1, h2⟩
        rw [Nat.mod_eq_of_lt (by omega)] at h1; omega
      have hdiv : (n - p + k - 1) / k = 1 := by
        apply Nat.div_eq_of_lt_le <;> simp <;> omega
      simp only [hnm, if_false, hdiv] at hf ⊢
      obtain ⟨g, rfl⟩ : ∃ g, f = g + 1 := ⟨f - 1, by omega⟩
      have hne : ¬ ((n : Int) = 0) := by omega
      simp only [hA, if_true, hne, if_false]
      rw [← hN, iter_final v now pat typ k g]
      simp only [List.flatten_cons, List.flatten_nil, List.append_nil, List.length_cons, List.length_nil, true_and]
      rw [hN, List.take_of_length_le (by simp; omega), List.take_of_length_le (by simp; omega)]
      simp
    · by_cases hB : p + k + 1 = n
      · -- the first unvisited record is the last one: the returned cursor is the index length
        have hm : Missed n k p := by
          unfold Missed
          have : n - 1 - p = k := by omega
          rw [this]; exact ⟨Nat.mod_self k, hk0⟩
        have hdiv : (n - p + k - 1) / k = 2 := by
          have : n - p + k - 1 = 2 * k := by omega
          rw [this, Nat.mul_div_cancel _ hk0]
        simp only [hm, if_true, hdiv] at hf ⊢
        obtain ⟨g, rfl⟩ : ∃ g, f = g + 1 := ⟨f - 1, by omega⟩
        have hne : ¬ (((p + k + 1 : Nat) : Int) = 0) := by omega
        simp only [hA, if_false, hne]
        rw [hB, ← hN, iter_final v now pat typ k g]
        simp only [List.flatten_cons, List.flatten_nil, List.append_nil, List.length_cons, List.length_nil, true_and]
        have : n - 1 - p = k := by omega
        rw [hN, this]
        simp
      · -- a middle call
        have hlt : p + k + 1 < n := by omega
        have hne : ¬ (((p + k + 1 : Nat) : Int) = 0) := by omega
        simp only [hA, if_false, hne]
        have hmiff : Missed n k (p + k) ↔ Missed n k p := by
          unfold Missed
          have : n - 1 - p = (n - 1 - (p + k)) + k := by omega
          rw [this, Nat.add_mod_right]
          constructor
          · intro ⟨h1, _⟩; exact ⟨h1, by omega⟩
          · intro ⟨h1, _⟩; exact ⟨h1, by omega⟩
        have hdiv : (n - p + k - 1) / k = (n - (p + k) + k - 1) / k + 1 := by
          have : n - p + k - 1 = (n - (p + k) + k - 1) + k := by omega
          rw [this, Nat.add_div_right _ hk0]
        have hf' : (n - (p + k) + k - 1) / k + (if Missed n k (p + k) then 0 else 1) ≤ f := by
          rw [hdiv] at hf
          by_cases hm : Missed n k p
          · simp only [hm, hmiff.2 hm, if_true] at hf ⊢; omega
          · have hm' : ¬ Missed n k (p + k) := fun h => hm (hmiff.1 h)
            simp only [hm, hm', if_false] at hf ⊢; omega
        obtain ⟨h1, h2, h3⟩ := ih (p + k) ((p + k + 1 : Nat) : Int) (Or.inr rfl) (by omega) hf'
        refine ⟨h1, ?_, ?_⟩
        · simp only [List.flatten_cons]
          rw [h2, ← kept_append]
          congr 1
          have hL : (if Missed n k p then n - 1 - p else n - p)
              = k + (if Missed n k (p + k) then n - 1 - (p + k) else n - (p + k)) := by
            by_cases hm : Missed n k p
            · simp only [hm, hmiff.2 hm, if_true]; omega
            · have hm' : ¬ Missed n k (p + k) := fun h => hm (hmiff.1 h)
              simp only [hm, hm', if_false]; omega
          rw [hL, List.take_add, List.drop_drop]
        · simp only [List.length_cons]
          rw [h3, hdiv]
          by_cases hm : Missed n k p
          · simp only [hm, hmiff.2 hm, if_true]
          · have hm' : ¬ Missed n k (p + k) := fun h => hm (hmiff.1 h)
            simp only [hm, hm', if_false]

end

end NodisVerif.Proofs.C19ScanIter
