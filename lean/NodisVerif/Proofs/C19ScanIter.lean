import NodisVerif.Proofs.C19Scan
/-
  C19 helpers, part 4: closed form of one keyspace SCAN call on the view (`scanPure`), and the
  full iteration over a fixed view.

  All cursors / counts / lengths are int64 in Go; the model keeps the wrap-around of `cursor--`
  and `count--`, so the closed forms need "the index has fewer than 2^63 records" and "count is an
  int64".
-/
namespace NodisVerif.Proofs.C19ScanIter
open NodisVerif.Spec.Scan NodisVerif.Proofs.C19Iter NodisVerif.Proofs.C19Scan

/-- 2^63 -/
def I63 : Int := 9223372036854775808

theorem wrap64_id (x : Int) (h1 : -I63 ≤ x) (h2 : x < I63) : wrap64 x = x := by
  unfold I63 at h1 h2
  unfold wrap64 int64Max
  simp only
  split <;> omega

section
variable (now : Int) (pat : Bytes) (typ : Nat)

/-- the batch of names kept from a list of view entries -/
def kept (es : List VEnt) : List Bytes := (es.filter (keep now pat typ)).map (·.1)

theorem kept_append (a b : List VEnt) : kept now pat typ (a ++ b) = kept now pat typ a ++ kept now pat typ b := by
  simp [kept]

/-- skipping phase: `j < cursor` entries are passed over -/
theorem goPure_skip : ∀ (j : Nat) (ents : List VEnt) (c iter count : Int) (acc : List Bytes),
    j ≤ ents.length → (j : Int) < c → c < I63 →
    goPure now pat typ ents c iter count acc
      = goPure now pat typ (ents.drop j) (c - j) (iter + j) count acc := by
  intro j
  induction j with
  | zero => intro ents c iter count acc _ _ _; simp
  | succ j ih =>
    intro ents c iter count acc hj hc hc2
    match ents, hj with
    | e :: rest, hj =>
      rw [goPure]
      have hw : wrap64 (c - 1) = c - 1 := wrap64_id _ (by unfold I63 at *; omega) (by omega)
      have hpos : c - 1 > 0 := by omega
      simp only [hw, hpos, if_true]
      rw [ih rest (c - 1) (iter + 1) count acc (by simpa using hj) (by omega) (by omega)]
      simp only [List.drop_succ_cons]
      have h1 : c - 1 - (j : Int) = c - ((j + 1 : Nat) : Int) := by omega
      have h2 : iter + 1 + (j : Int) = iter + ((j + 1 : Nat) : Int) := by omega
      rw [h1, h2]

/-- visiting phase with a budget of `k ≥ 0` entries: cursor 0 when the walk ran off the end,
    otherwise the 1-based position of the first entry not visited -/
theorem goPure_visit_lim : ∀ (ents : List VEnt) (cursor iter : Int) (k : Nat) (acc : List Bytes),
    cursor ≤ 1 → -I63 < cursor - ents.length → (k : Int) < I63 →
    goPure now pat typ ents cursor iter (k : Int) acc
      = ((if ents.length ≤ k then 0 else iter + (k : Int) + 1),
         acc.reverse ++ kept now pat typ (ents.take k)) := by
  intro ents
  induction ents with
  | nil => intro cursor iter k acc _ _ _; simp [goPure, kept]
  | cons e rest ih =>
    intro cursor iter k acc h1 h2 h4
    simp only [List.length_cons, Int.natCast_add, Int.natCast_one] at h2
    rw [goPure]
    have hw : wrap64 (cursor - 1) = cursor - 1 := wrap64_id _ (by omega) (by unfold I63 at *; omega)
    have hn1 : ¬ (cursor - 1 > 0) := by omega
    simp only [hw, hn1, if_false]
    cases k with
    | zero => simp [kept]
    | succ k' =>
      have hn3 : ¬ (((k' + 1 : Nat) : Int) = 0) := by omega
      have hw2 : wrap64 (((k' + 1 : Nat) : Int) - 1) = (k' : Int) := by
        rw [wrap64_id _ (by unfold I63; omega) (by omega)]; omega
      simp only [hn3, if_false, hw2]
      have hlen : (rest.length + 1 ≤ k' + 1) = (rest.length ≤ k') := by simp
      by_cases hk : keep now pat typ e = true
      · simp only [hk, if_true]
        rw [ih (cursor - 1) (iter + 1) k' (e.1 :: acc) (by omega) (by omega) (by omega)]
        simp only [List.length_cons, hlen, List.take_succ_cons, kept, List.filter_cons, hk, if_true,
          List.map_cons, List.reverse_cons, List.append_assoc, List.singleton_append]
        congr 1
        split <;> first | rfl | (push_cast; omega)
      · simp only [hk, if_false, Bool.false_eq_true]
        rw [ih (cursor - 1) (iter + 1) k' acc (by omega) (by omega) (by omega)]
        simp only [List.length_cons, hlen, List.take_succ_cons, kept, List.filter_cons, hk,
          Bool.false_eq_true, if_false]
        congr 1
        split <;> first | rfl | (push_cast; omega)

/-- visiting phase with a negative count: unlimited (even across the wrap at int64 min) -/
theorem goPure_visit_unl : ∀ (ents : List VEnt) (cursor iter count : Int) (acc : List Bytes),
    cursor ≤ 1 → -I63 < cursor - ents.length → (ents.length : Int) < I63 →
    -I63 ≤ count → count < 0 →
    goPure now pat typ ents cursor iter count acc
      = (0, acc.reverse ++ kept now pat typ ents) := by
  intro ents
  induction ents with
  | nil => intro cursor iter count acc _ _ _ _ _; simp [goPure, kept]
  | cons e rest ih =>
    intro cursor iter count acc h1 h2 h4 h5 h6
    simp only [List.length_cons, Int.natCast_add, Int.natCast_one] at h2 h4
    rw [goPure]
    have hw : wrap64 (cursor - 1) = cursor - 1 := wrap64_id _ (by omega) (by unfold I63 at *; omega)
    have hn1 : ¬ (cursor - 1 > 0) := by omega
    have hn3 : ¬ (count = 0) := by omega
    simp only [hw, hn1, hn3, if_false]
    -- the recursive call on `rest`, whatever the accumulator
    have hrec : ∀ acc', goPure now pat typ rest (cursor - 1) (iter + 1) (wrap64 (count - 1)) acc'
        = (0, acc'.reverse ++ kept now pat typ rest) := by
      intro acc'
      by_cases hmin : -I63 ≤ count - 1
      · rw [wrap64_id _ hmin (by unfold I63 at *; omega)]
        exact ih (cursor - 1) (iter + 1) (count - 1) acc' (by omega) (by omega) (by omega) hmin (by omega)
      · -- count = int64 min: the decrement wraps to int64 max, still more than the index holds
        have hc : count = -I63 := by omega
        have hw2 : wrap64 (count - 1) = ((9223372036854775807 : Nat) : Int) := by
          subst hc; unfold wrap64 int64Max I63; simp
        rw [hw2, goPure_visit_lim now pat typ rest (cursor - 1) (iter + 1) 9223372036854775807 acc' (by omega) (by omega)
          (by unfold I63; omega)]
        have hle : rest.length ≤ 9223372036854775807 := by unfold I63 at h4; omega
        simp only [hle, if_true, List.take_of_length_le hle]
    by_cases hk : keep now pat typ e = true
    · simp only [hk, if_true, hrec]
      simp only [kept, List.filter_cons, hk, if_true, List.map_cons, List.reverse_cons,
        List.append_assoc, List.singleton_append]
    · simp only [hk, if_false, Bool.false_eq_true, hrec]
      simp only [kept, List.filter_cons, hk, Bool.false_eq_true, if_false]

end

/-! ## closed form of one call -/

section
variable (v : List VEnt) (now : Int) (pat : Bytes) (typ : Nat)

/-- 0-based position at which a call with cursor `c` starts visiting -/
def startOf (c : Int) : Nat := (c - 1).toNat

/-- a cursor beyond the last position is answered with (0, nothing) -/
theorem scanPure_end (c count : Int) (hc : (v.length : Int) < c) :
    scanPure v now c pat count typ = (0, []) := by
  unfold scanPure
  simp only
  split
  · rfl
  · first
    | rfl
    | rw [if_pos hc]

theorem scanPure_empty (c count : Int) (h : v.length = 0) : scanPure v now c pat count typ = (0, []) := by
  unfold scanPure
  simp only
  rw [if_pos (by omega)]

/-- reduce a call to its visiting phase -/
theorem scanPure_visit (hn : (v.length : Int) < I63) (c count : Int) (h0 : 0 ≤ c) (hc : c ≤ v.length)
    (hpos : 0 < v.length) :
    scanPure v now c pat count typ =
      goPure now pat typ (v.drop (startOf c)) (c - (startOf c : Nat)) (0 + (startOf c : Nat)) count [] := by
  unfold scanPure
  simp only
  rw [if_neg (by omega), if_neg (by omega)]
  by_cases hc0 : c = 0
  · subst hc0; simp [startOf]
  · exact goPure_skip now pat typ (startOf c) v c 0 count [] (by unfold startOf; omega) (by unfold startOf; omega) (by omega)

/-- a call with 0 ≤ COUNT = k: visits `k` records from the start position; replies 0 if that
    reached the end of the index, else the 1-based position of the first unvisited record -/
theorem scanPure_lim (hn : (v.length : Int) < I63) (c : Int) (k : Nat) (hk : (k : Int) < I63) (h0 : 0 ≤ c)
    (hc : c ≤ v.length) (hpos : 0 < v.length) :
    scanPure v now c pat (k : Int) typ =
      ((if v.length - startOf c ≤ k then 0 else ((startOf c + k + 1 : Nat) : Int)),
       kept now pat typ ((v.drop (startOf c)).take k)) := by
  rw [scanPure_visit v now pat typ hn c k h0 hc hpos]
  have hs : startOf c ≤ v.length := by unfold startOf; omega
  rw [goPure_visit_lim now pat typ _ _ _ k [] (by unfold startOf; omega)
    (by simp only [List.length_drop]; unfold startOf; unfold I63 at *; omega) hk]
  simp only [List.length_drop, List.reverse_nil, List.nil_append]
  congr 1
  split <;> omega

/-- a call with a negative COUNT visits everything from the start position and replies 0 -/
theorem scanPure_unl (hn : (v.length : Int) < I63) (c count : Int) (hk : -I63 ≤ count) (hneg : count < 0)
    (h0 : 0 ≤ c) (hc : c ≤ v.length) (hpos : 0 < v.length) :
    scanPure v now c pat count typ = (0, kept now pat typ (v.drop (startOf c))) := by
  rw [scanPure_visit v now pat typ hn c count h0 hc hpos]
  have hs : startOf c ≤ v.length := by unfold startOf; omega
  rw [goPure_visit_unl now pat typ _ _ _ count [] (by unfold startOf; omega)
    (by simp only [List.length_drop]; unfold startOf; unfold I63 at *; omega)
    (by simp only [List.length_drop]; omega) hk hneg]
  simp only [List.reverse_nil, List.nil_append]

end

/-! ## the full iteration over a fixed view -/

section
variable (v : List VEnt) (now : Int) (pat : Bytes) (typ : Nat)

/-- the stateless server "SCAN over the fixed view v" -/
def pstep (count : Int) : Unit → Int → Unit × Int × List Bytes :=
  fun _ c => ((), scanPure v now c pat count typ)

/-- from start position `p < n` with COUNT k > 0: ⌈(n − p) / k⌉ calls report everything from `p` on -/
theorem iter_scan (hn : (v.length : Int) < I63) (k : Nat) (hk0 : 0 < k) (hk : (k : Int) < I63) :
    ∀ (fuel p : Nat) (c : Int), (c = 0 ∧ p = 0 ∨ c = ((p + 1 : Nat) : Int)) → p < v.length →
      (v.length - p + k - 1) / k ≤ fuel →
      (iterateFrom (pstep v now pat typ k) fuel () c).2 = true ∧
      (iterateFrom (pstep v now pat typ k) fuel () c).1.flatten = kept now pat typ (v.drop p) ∧
      (iterateFrom (pstep v now pat typ k) fuel () c).1.length = (v.length - p + k - 1) / k := by
  intro fuel
  induction fuel with
  | zero =>
    intro p c hpc hp hf
    exfalso
    have : 1 ≤ (v.length - p + k - 1) / k := by
      apply (Nat.le_div_iff_mul_le hk0).2; omega
    omega
  | succ f ih =>
    intro p c hpc hp hf
    have hstart : startOf c = p := by unfold startOf; omega
    have hstep : (pstep v now pat typ (k : Int) () c) =
        ((), (if v.length - p ≤ k then 0 else ((p + k + 1 : Nat) : Int)),
          kept now pat typ ((v.drop p).take k)) := by
      simp only [pstep]
      rw [scanPure_lim v now pat typ hn c k hk (by omega) (by omega) (by omega), hstart]
    generalize hN : v.length = n at *
    by_cases hA : n - p ≤ k
    · -- the call reaches the end of the index and answers 0
      have hdiv : (n - p + k - 1) / k = 1 := by
        apply Nat.div_eq_of_lt_le <;> simp <;> omega
      rw [if_pos hA] at hstep
      rw [iterateFrom_last _ f () c () _ hstep, hdiv]
      simp only [List.flatten_cons, List.flatten_nil, List.append_nil, List.length_cons, List.length_nil, true_and]
      rw [List.take_of_length_le (by simp; omega)]
      simp
    · -- a middle call
      have hne : (((p + k + 1 : Nat) : Int)) ≠ 0 := by omega
      rw [if_neg hA] at hstep
      rw [iterateFrom_next _ f () c () _ _ hstep hne]
      have hdiv : (n - p + k - 1) / k = (n - (p + k) + k - 1) / k + 1 := by
        have : n - p + k - 1 = (n - (p + k) + k - 1) + k := by omega
        rw [this, Nat.add_div_right _ hk0]
      obtain ⟨h1, h2, h3⟩ := ih (p + k) ((p + k + 1 : Nat) : Int) (Or.inr rfl) (by omega) (by omega)
      refine ⟨h1, ?_, ?_⟩
      · simp only [List.flatten_cons]
        rw [h2, ← kept_append]
        congr 1
        rw [← List.drop_drop]
        exact List.take_append_drop k (v.drop p)
      · simp only [List.length_cons]
        rw [h3, hdiv]

end

end NodisVerif.Proofs.C19ScanIter
