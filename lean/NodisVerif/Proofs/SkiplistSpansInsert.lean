import NodisVerif.Proofs.SkiplistSpans
import NodisVerif.Proofs.SkiplistInsert
/-
  The span discipline of nil links (`NilSpans`, Proofs/SkiplistSpans.lean) is preserved by `insert`.
-/
namespace NodisVerif.Skiplist
open NodisVerif.DsZSet (Item nodeLt slInsert)
open NodisVerif.Proofs.C04 (ILt)
open NodisVerif.Proofs.ZSetLemmas (Good itemLt_trans itemLt_total)

/-- the run of `insert` on a heap with the invariant, with the pointwise description of the final heap (`InsCtx`)
    against the heap `h1` after the level extension (the first half of `insert_isChain_aux`) -/
theorem insert_desc {sl : SL} {c : List Nat} (hc : IsChain sl c) (m : Bytes) (s : F64) (lvl : Nat)
    (hl1 : 1 ≤ lvl) (hl2 : lvl ≤ maxLevel)
    (pre post : List Nat) (hcp : c = pre ++ post) (hcond : CondUpTo sl c (lessCond m s) pre.length) :
    ∃ sl' h1 U R, insert sl m s lvl = .ok sl' ∧ skel h1 = skel sl.heap ∧
      (∀ x j, lv h1 x j = if x = 0 ∧ sl.level ≤ j ∧ j < lvl then
          (lv sl.heap 0 j).map (fun l => { l with span := sl.length }) else lv sl.heap x j) ∧
      InsCtx h1 sl'.heap pre post sl.heap.length lvl (max sl.level lvl) U R (R 0) ∧
      sl'.length = sl.length + 1 ∧ sl'.level = max sl.level lvl := by
  subst hcp
  obtain ⟨x, acc, update, rank, hsearch, hul, hrl, hUR, hupper, _, _⟩ :=
    search_spec hc (lessCond m s) pre.length hcond
  have htake : (0 :: (pre ++ post)).take (pre.length + 1) = 0 :: pre := by simp [List.take_succ_cons]
  rw [htake] at hUR
  obtain ⟨h1, update', rank', hext, hs1, hb1, hul', hrl', hlv1, hup, hrk⟩ :=
    extendBranch_spec sl lvl update rank hul hrl hl2 hc.header
  have hUR' := updateRank_extend hc pre (fun y hy => by simp [hy]) h1 lvl hl2 update update' rank rank' hUR hs1 hup hrk
  have hlink1 := linked_extend hc h1 lvl hs1 hlv1
  have hlen1 : h1.length = sl.heap.length := length_congr hs1
  obtain ⟨U, hU⟩ : ∃ U : Nat → Nat, ∀ j, U j = ((update'[j]?).getD none).getD 0 := ⟨_, fun _ => rfl⟩
  obtain ⟨R, hR⟩ : ∃ R : Nat → Int, ∀ j, R j = (rank'[j]?).getD 0 := ⟨_, fun _ => rfl⟩
  have hUf : ∀ j, j < max sl.level lvl → ∃ A B, 0 :: pre = A ++ U j :: B ∧ above h1 j (U j) = true ∧
      (∀ y ∈ B, above h1 j y = false) ∧ R j = (A.length : Int) ∧ update'[j]? = some (some (U j)) ∧
      rank'[j]? = some (R j) := by
    intro j hj
    obtain ⟨A, u, B, e1, e2, e3, e4, e5⟩ := hUR' j hj
    have hu : U j = u := by rw [hU, e4]; rfl
    have hr : R j = A.length := by rw [hR, e5]; rfl
    rw [← hu] at e1 e2 e4
    rw [← hr] at e5
    exact ⟨A, B, e1, e2, e3, hr, e4, e5⟩
  have hUt : ∀ j, j < max sl.level lvl →
      update'[j]? = some (some (U j)) ∧ rank'[j]? = some (R j) ∧ j < height h1 (U j) := by
    intro j hj
    obtain ⟨A, B, e1, e2, e3, e4, e5, e6⟩ := hUf j hj
    exact ⟨e5, e6, by simpa [above] using e2⟩
  have hsplit0 : (0 :: (pre ++ post)) = (0 :: pre) ++ post := rfl
  have hfw : ∀ l f, lv h1 (U 0) 0 = some l → l.forward = some f → f < h1.length := by
    intro l f hl hf
    obtain ⟨A, B, e1, e2, e3, e4, e5, e6⟩ := hUf 0 (by have := hc.levelLo; omega)
    have hlk := (linked_iff_split h1 _).1 hlink1 A (U 0) (B ++ post) (by rw [hsplit0, e1]; simp) 0 l hl
    rw [hf] at hlk
    have hmem : f ∈ B ++ post := List.mem_of_find?_eq_some hlk.1.symm
    have hmem' : f ∈ pre ++ post := by
      rcases List.mem_append.1 hmem with h | h
      · exact List.mem_append_left _ (InsCtx.mem_pre_of_split e1 f h)
      · exact List.mem_append_right _ h
    rw [hlen1]
    exact hc.bound f hmem'
  obtain ⟨sl', l0, htail, hsk, hlvf, hlen', hlev', hl0, htl, hbk⟩ :=
    insertTail_spec sl m s lvl h1 update' rank' (max sl.level lvl) U R hl1 (by omega) hUt hfw
  have hins : insert sl m s lvl = .ok sl' := by
    rw [insert_eq, hsearch]
    simp only [bind, Except.bind]
    rw [hext]
    exact htail
  have hN0 : sl.heap.length ≠ 0 := by have := hc.size; omega
  have hNc : sl.heap.length ∉ pre ++ post := fun h => by have := hc.bound _ h; omega
  have hU0 : ∃ A, 0 :: pre = A ++ [U 0] ∧ R 0 = (A.length : Int) := by
    obtain ⟨A, B, e1, e2, e3, e4, e5, e6⟩ := hUf 0 (by have := hc.levelLo; omega)
    have hB : B = [] := by
      cases B with
      | nil => rfl
      | cons b B =>
        have hb : b ∈ pre := InsCtx.mem_pre_of_split e1 b (by simp)
        have h1b := hc.hpos b (by simp [hb])
        have := e3 b (by simp)
        simp [above, height_congr hs1] at this
        omega
    subst hB
    exact ⟨A, e1, e4⟩
  have hr0 : R 0 = (pre.length : Int) := by
    obtain ⟨A, e1, e4⟩ := hU0
    have := congrArg List.length e1
    simp at this
    rw [e4]; omega
  have C : InsCtx h1 sl'.heap pre post sl.heap.length lvl (max sl.level lvl) U R (R 0) :=
    { hlink := hlink1
      hnd := hc.nodup
      hNmem := by
        intro h
        rcases List.mem_cons.1 h with h | h
        · exact hN0 h
        · exact hNc h
      hN1 := by
        intro j
        rw [lv_eq_none_iff, ← hlen1]; simp [height]
      hht := by
        intro x hx
        rw [height_of_skel h1 sl'.heap lvl s m hsk, if_neg (by rw [hlen1]; exact hx)]
      hhN := by rw [height_of_skel h1 sl'.heap lvl s m hsk, if_pos hlen1.symm]
      hlvl := by omega
      hhi := by
        intro y hy
        rw [height_congr hs1]
        have := hc.hle y hy
        omega
      hU := by
        intro j hj
        obtain ⟨A, B, e1, e2, e3, e4, _⟩ := hUf j hj
        exact ⟨A, B, e1, e2, e3, e4⟩
      hr0 := hr0
      hlv := by
        intro x j
        rw [hlvf, hlen1]; rfl }
  exact ⟨sl', h1, U, R, hins, hs1, hlv1, C, hlen', hlev'⟩

/-- after the level extension, every nil link below the NEW level spans the rest of the list -/
theorem nilSpans_extend {sl : SL} {c : List Nat} (hc : IsChain sl c) (hn : NilSpans sl c) (h1 : List Node) (lvl : Nat)
    (hs : skel h1 = skel sl.heap)
    (hlv : ∀ x j, lv h1 x j = if x = 0 ∧ sl.level ≤ j ∧ j < lvl then
      (lv sl.heap 0 j).map (fun l => { l with span := sl.length }) else lv sl.heap x j)
    (A : List Nat) (u : Nat) (B : List Nat) (hsplit : 0 :: c = A ++ u :: B) (i : Nat) (l : Level)
    (hi : i < max sl.level lvl) (hl : lv h1 u i = some l) (hf : l.forward = none) :
    l.span = sl.length - (A.length : Int) := by
  by_cases hil : i < sl.level
  · have : ¬ (u = 0 ∧ sl.level ≤ i ∧ i < lvl) := by omega
    rw [hlv, if_neg this] at hl
    exact hn A u B hsplit i l hil ((getLevel_eq_lv _ _ _ _).2 hl) hf
  · have hab : i < height sl.heap u := by
      rw [← height_congr hs]; exact (lv_isSome_iff h1 u i).1 ⟨l, hl⟩
    cases A with
    | nil =>
      simp at hsplit
      obtain ⟨rfl, _⟩ := hsplit
      have hcond : (0 : Nat) = 0 ∧ sl.level ≤ i ∧ i < lvl := by omega
      rw [hlv, if_pos hcond] at hl
      cases hl0 : lv sl.heap 0 i with
      | none => rw [hl0] at hl; simp at hl
      | some l0 =>
        rw [hl0] at hl; simp at hl; subst hl
        simp
    | cons a A' =>
      simp at hsplit
      have hu : u ∈ c := by rw [hsplit.2]; simp
      have := hc.hle u hu
      omega

theorem insert_nilSpans_aux {sl : SL} {c : List Nat} (hc : IsChain sl c) (hn : NilSpans sl c) (m : Bytes) (s : F64)
    (lvl : Nat) (hl1 : 1 ≤ lvl) (hl2 : lvl ≤ maxLevel)
    (pre post : List Nat) (hcp : c = pre ++ post) (hcond : CondUpTo sl c (lessCond m s) pre.length)
    (sl' : SL) (hr : insert sl m s lvl = .ok sl') :
    NilSpans sl' (pre ++ sl.heap.length :: post) := by
  obtain ⟨sl'', h1, U, R, hins, hs1, hlv1, C, hlen', hlev'⟩ := insert_desc hc m s lvl hl1 hl2 pre post hcp hcond
  rw [hr] at hins
  cases hins
  subst hcp
  have hn1 := nilSpans_extend hc hn h1 lvl hs1 hlv1
  have hsplit0 : (0 :: (pre ++ post)) = (0 :: pre) ++ post := rfl
  intro A u B hsplit i l hi hgl hf
  rw [getLevel_eq_lv] at hgl
  rw [hlev'] at hi
  rw [hlen']
  have hsplit' : (0 :: pre) ++ (sl.heap.length :: post) = A ++ (u :: B) := hsplit
  have hlvl := C.hlvl
  -- the new node
  have hnew : A = 0 :: pre → u = sl.heap.length →
      l.span = sl.length + 1 - (A.length : Int) := by
    intro eA eu
    subst eA eu
    rw [C.hlv] at hgl
    by_cases h1j : i < lvl
    · have hne : sl.heap.length ≠ U i := fun e => C.hNP (e ▸ C.hUP i hi)
      simp only [h1j, if_true, hne, if_false] at hgl
      obtain ⟨A0, B0, hs, hu, hB, hR⟩ := C.hU i hi
      cases hl1' : lv h1 (U i) i with
      | none => rw [hl1'] at hgl; simp at hgl
      | some l1 =>
        rw [hl1'] at hgl; simp at hgl; subst hgl
        simp at hf
        have := hn1 A0 (U i) (B0 ++ post) (by show (0 :: pre) ++ post = _; rw [hs]; simp) i l1 hi hl1' hf
        simp only [this, C.hr0, hR]
        simp
        omega
    · have : ¬ (i < max sl.level lvl ∧ sl.heap.length = U i) := fun ⟨hj, e⟩ => C.hNP (e ▸ C.hUP i hj)
      simp [h1j, this, C.hN1] at hgl
  -- a node behind the new one
  have hpost : ∀ a'', A = (0 :: pre) ++ sl.heap.length :: a'' → post = a'' ++ u :: B →
      l.span = sl.length + 1 - (A.length : Int) := by
    intro a'' eA hp
    have hupost : u ∈ post := by rw [hp]; simp
    have hnN : u ≠ sl.heap.length := fun e => C.hNpost (e ▸ hupost)
    have hnU : ∀ j, j < max sl.level lvl → u ≠ U j := by
      intro j hj e
      have hu := C.hUP j hj
      have hd := C.hnd
      rw [List.nodup_append] at hd
      exact hd.2.2 (U j) hu u hupost e.symm
    have hlvn : lv sl'.heap u i = lv h1 u i := by
      rw [C.hlv]
      by_cases h1 : i < lvl
      · simp [h1, hnU i hi, hnN]
      · simp [h1, hnU i hi]
    rw [hlvn] at hgl
    have := hn1 ((0 :: pre) ++ a'') u B (by show (0 :: pre) ++ post = _; rw [hp]; simp) i l hi hgl hf
    rw [this, eA]
    simp
    omega
  -- a node in front of the new one
  have hpre : ∀ c'', 0 :: pre = A ++ u :: c'' →
      l.span = sl.length + 1 - (A.length : Int) := by
    intro c'' hs
    have hcpre := InsCtx.mem_pre_of_split hs
    have hnP : u ∈ 0 :: pre := by rw [hs]; simp
    have hnN : u ≠ sl.heap.length := fun e => C.hNP (e ▸ hnP)
    obtain ⟨A0, B0, hsU, hu, hB, hR⟩ := C.hU i hi
    -- the level slot before linking has a nil forward as well
    have hold : ∃ l1, lv h1 u i = some l1 ∧ l1.forward = none := by
      have hgl' := hgl
      rw [C.hlv] at hgl'
      by_cases h1j : i < lvl
      · by_cases hx : u = U i
        · simp [h1j, hx] at hgl'
          subst hgl'
          simp at hf
        · simp [h1j, hx, hnN] at hgl'
          exact ⟨l, hgl', hf⟩
      · by_cases hx : u = U i
        · simp only [h1j, if_false, hi, hx, and_self, if_true] at hgl'
          rw [← hx] at hgl'
          cases hl1' : lv h1 u i with
          | none => rw [hl1'] at hgl'; simp at hgl'
          | some l1 =>
            rw [hl1'] at hgl'; simp at hgl'; subst hgl'
            exact ⟨l1, rfl, hf⟩
        · simp [h1j, hx] at hgl'
          exact ⟨l, hgl', hf⟩
    obtain ⟨l1, hl1', hf1⟩ := hold
    have habn : above h1 i u = true := by
      have := (lv_isSome_iff h1 u i).1 ⟨l1, hl1'⟩
      simp [above, this]
    have hlk := (linked_iff_split h1 _).1 C.hlink A u (c'' ++ post) (by show (0 :: pre) ++ post = _; rw [hs]; simp) i l1 hl1'
    have hcf : ∀ y ∈ c'', above h1 i y = false := by
      have h0 := hlk.1
      rw [hf1] at h0
      have := List.find?_eq_none.1 h0.symm
      intro y hy
      have := this y (by simp [hy])
      simpa using this
    obtain ⟨eA, en, eB⟩ := last_unique A A0 u (U i) c'' B0 (by rw [← hs, hsU]) habn hu hcf hB
    have hsp := hn1 A u (c'' ++ post) (by show (0 :: pre) ++ post = _; rw [hs]; simp) i l1 hi hl1' hf1
    rw [C.hlv] at hgl
    by_cases h1j : i < lvl
    · simp [h1j, en] at hgl
      subst hgl
      simp at hf
    · simp only [h1j, if_false, hi, en, and_self, if_true] at hgl
      rw [← en, hl1'] at hgl
      simp at hgl
      subst hgl
      simp only [hsp]
      omega
  rcases List.append_eq_append_iff.1 hsplit' with ⟨a', ha1, ha2⟩ | ⟨c', hc1, hc2⟩
  · cases a' with
    | nil =>
      simp at ha2; obtain ⟨rfl, rfl⟩ := ha2
      exact hnew (by simpa using ha1) rfl
    | cons x a'' =>
      simp at ha2
      obtain ⟨rfl, hp⟩ := ha2
      exact hpost a'' ha1 hp
  · cases c' with
    | nil =>
      simp at hc2; obtain ⟨rfl, rfl⟩ := hc2
      exact hnew (by simpa using hc1.symm) rfl
    | cons x c'' =>
      simp at hc2
      obtain ⟨rfl, rfl⟩ := hc2
      exact hpre c'' hc1

theorem insert_nilSpans {sl : SL} {c : List Nat} (hc : IsChain sl c) (hn : NilSpans sl c) (m : Bytes) (s : F64)
    (lvl : Nat) (hl1 : 1 ≤ lvl) (hl2 : lvl ≤ maxLevel) (hs : F64.isNaN s = false)
    (hm : ∀ n ∈ c, (itemAt sl.heap n).2 ≠ m) (sl' : SL) (hr : insert sl m s lvl = .ok sl') :
    NilSpans sl' (c.takeWhile (fun n => nodeLt (itemAt sl.heap n) s m) ++ sl.heap.length ::
      c.dropWhile (fun n => nodeLt (itemAt sl.heap n) s m)) := by
  have _ := hm  -- not needed: the nil-span discipline does not depend on the members being distinct
  exact insert_nilSpans_aux hc hn m s lvl hl1 hl2 _ _ List.takeWhile_append_dropWhile.symm
    (condUpTo_less hc m s hs) sl' hr

theorem insert_invSpans {sl : SL} (h : InvSpans sl) (m : Bytes) (s : F64) (lvl : Nat) (hl1 : 1 ≤ lvl)
    (hl2 : lvl ≤ maxLevel) (hs : F64.isNaN s = false) (hm : ∀ x ∈ abs sl, x.2 ≠ m) :
    ∃ sl', insert sl m s lvl = .ok sl' ∧ InvSpans sl' ∧ abs sl' = DsZSet.slInsert (abs sl) m s := by
  obtain ⟨c, hc, hn⟩ := h
  obtain ⟨sl', e, _, habs⟩ := insert_refines ⟨c, hc⟩ m s lvl hl1 hl2 hs hm
  rw [abs_eq hc] at hm
  have hm' : ∀ n ∈ c, (itemAt sl.heap n).2 ≠ m := fun n hn => hm _ (List.mem_map.2 ⟨n, hn, rfl⟩)
  obtain ⟨sl'', e', hc', _, _⟩ := insert_isChain hc m s lvl hl1 hl2 hs hm'
  rw [e] at e'
  cases e'
  exact ⟨sl', e, ⟨_, hc', insert_nilSpans hc hn m s lvl hl1 hl2 hs hm' sl' e⟩, habs⟩

end NodisVerif.Skiplist
