import NodisVerif.Proofs.LinCore
/-
  What the lock discipline buys. In `LinCore` the body of an operation is ONE event `eff`. Here it is
  two: `rd i` copies the shared state into a private snapshot, `wr i` later writes back
  `(apply snapshot o).1` and keeps the result `(apply snapshot o).2` — any number of events of other
  operations may come in between, as long as both lie inside one `acq … rel` interval of `i`.

  `split_refines_atomic`: under the lock discipline the snapshot is still the shared state when `wr i`
  comes, so the execution with `rd` erased and `wr` read as `eff` is a well-formed execution of
  `LinCore`, with the same history: it is linearizable (`split_bodies_linearizable`).
  `lost_update_without_lock`: with the lock checks off the same two bodies lose an update, and the
  history is not linearizable.
-/
namespace NodisVerif.Lin.Split
open NodisVerif.Lin

inductive Ev (Op Ret : Type)
  | inv (i : Nat) (o : Op)
  | acq (i : Nat)
  | rd (i : Nat)
  | wr (i : Nat)
  | rel (i : Nat)
  | res (i : Nat) (r : Ret)
deriving DecidableEq, Repr

/-- the configuration of `LinCore` plus the private snapshots -/
structure Cfg (State Op Ret : Type) where
  core : Lin.Cfg State Op Ret
  snap : Nat → Option State := fun _ => none

section
variable {State Op Ret : Type} [DecidableEq Ret]

def step (O : Obj State Op Ret) (chk : Bool) (c : Cfg State Op Ret) : Ev Op Ret → Option (Cfg State Op Ret)
  | .inv i o => (Lin.step O chk c.core (.inv i o)).map fun k => { c with core := k }
  | .acq i => (Lin.step O chk c.core (.acq i)).map fun k => { c with core := k }
  | .res i r => (Lin.step O chk c.core (.res i r)).map fun k => { c with core := k }
  | .rel i => (Lin.step O chk c.core (.rel i)).map fun k => { core := k, snap := fun j => if j = i then none else c.snap j }
  | .rd i =>
    match c.core.ops i with
    | none => none
    | some st =>
      if !st.locked || st.result.isSome || (c.snap i).isSome then none else
      some { c with snap := fun j => if j = i then some c.core.σ else c.snap j }
  | .wr i =>
    match c.snap i with
    | none => none
    | some v =>
      -- the body computes on its snapshot `v`, not on the shared state
      (Lin.step O chk { c.core with σ := v } (.eff i)).map fun k =>
        { core := k, snap := fun j => if j = i then none else c.snap j }

def run (O : Obj State Op Ret) (chk : Bool) (c : Cfg State Op Ret) : List (Ev Op Ret) → Option (Cfg State Op Ret)
  | [] => some c
  | e :: es => (step O chk c e).bind fun c' => run O chk c' es

def WF (O : Obj State Op Ret) (σ0 : State) (es : List (Ev Op Ret)) : Prop :=
  (run O true { core := { σ := σ0 } } es).isSome = true

instance (O : Obj State Op Ret) (σ0 : State) (es : List (Ev Op Ret)) : Decidable (WF O σ0 es) := by
  unfold WF; infer_instance

end

/-- erase `rd`, read `wr` as the atomic `eff` -/
def atomize {Op Ret : Type} : List (Ev Op Ret) → List (Lin.Ev Op Ret)
  | [] => []
  | .inv i o :: es => .inv i o :: atomize es
  | .acq i :: es => .acq i :: atomize es
  | .rd _ :: es => atomize es
  | .wr i :: es => .eff i :: atomize es
  | .rel i :: es => .rel i :: atomize es
  | .res i r :: es => .res i r :: atomize es

theorem atomize_append {Op Ret : Type} (a b : List (Ev Op Ret)) : atomize (a ++ b) = atomize a ++ atomize b := by
  induction a with
  | nil => rfl
  | cons e a ih => cases e <;> simp [atomize, ih]

/-- the history of a split execution -/
def hist {Op Ret : Type} (es : List (Ev Op Ret)) : List (Lin.Ev Op Ret) := Lin.hist (atomize es)

section
variable {State Op Ret : Type} [DecidableEq Ret] {O : Obj State Op Ret}

theorem run_append (chk : Bool) (c : Cfg State Op Ret) (a b : List (Ev Op Ret)) :
    run O chk c (a ++ b) = (run O chk c a).bind fun c' => run O chk c' b := by
  induction a generalizing c with
  | nil => simp [run]
  | cons e a ih =>
    simp only [List.cons_append, run]
    cases step O chk c e with
    | none => rfl
    | some c1 => simpa using ih c1

/-- a snapshot belongs to an operation that holds the lock, and is still the shared state -/
def SnapInv (c : Cfg State Op Ret) : Prop :=
  ∀ i v, c.snap i = some v → v = c.core.σ ∧ ∃ st, c.core.ops i = some st ∧ st.locked = true

/-- one step: the core moves by the atomized event(s), the snapshots stay accurate -/
theorem step_sim {c c' : Cfg State Op Ret} {e : Ev Op Ret} (hl : LockInv O c.core) (hsn : SnapInv c)
    (hs : step O true c e = some c') :
    Lin.run O true c.core (atomize [e]) = some c'.core ∧ SnapInv c' := by
  cases e with
  | inv i o =>
    simp only [step, Option.map_eq_some_iff] at hs
    obtain ⟨k, hk, rfl⟩ := hs
    refine ⟨by simp [atomize, Lin.run, hk], ?_⟩
    rcases step_shape hk with ⟨i', o', h, hn, rfl⟩ | ⟨_, _, h, _⟩ | ⟨_, _, h, _⟩ | ⟨_, _, h, _⟩ | ⟨_, _, _, h, _⟩ <;>
      cases h
    intro j v hj
    obtain ⟨h1, st, h2, h3⟩ := hsn j v hj
    have : j ≠ i := by intro e; subst e; rw [hn] at h2; cases h2
    exact ⟨h1, st, by show upd _ _ _ j = _; rw [upd_ne _ _ this]; exact h2, h3⟩
  | acq i =>
    simp only [step, Option.map_eq_some_iff] at hs
    obtain ⟨k, hk, rfl⟩ := hs
    refine ⟨by simp [atomize, Lin.run, hk], ?_⟩
    rcases step_shape hk with ⟨_, _, h, _⟩ | ⟨i', st0, h, hst, _, _, _, rfl⟩ | ⟨_, _, h, _⟩ | ⟨_, _, h, _⟩ | ⟨_, _, _, h, _⟩ <;>
      cases h
    intro j v hj
    obtain ⟨h1, st, h2, h3⟩ := hsn j v hj
    refine ⟨h1, ?_⟩
    show ∃ s1, upd _ _ _ j = some s1 ∧ _
    by_cases e : j = i
    · subst e; rw [upd_same]; exact ⟨_, rfl, rfl⟩
    · rw [upd_ne _ _ e]; exact ⟨st, h2, h3⟩
  | res i r =>
    simp only [step, Option.map_eq_some_iff] at hs
    obtain ⟨k, hk, rfl⟩ := hs
    refine ⟨by simp [atomize, Lin.run, hk], ?_⟩
    rcases step_shape hk with ⟨_, _, h, _⟩ | ⟨_, _, h, _⟩ | ⟨_, _, h, _⟩ | ⟨_, _, h, _⟩ | ⟨i', r', st0, h, hst, hl0, _, _, rfl⟩ <;>
      cases h
    intro j v hj
    obtain ⟨h1, st, h2, h3⟩ := hsn j v hj
    refine ⟨h1, ?_⟩
    show ∃ s1, upd _ _ _ j = some s1 ∧ _
    by_cases e : j = i
    · subst e; rw [hst] at h2; cases h2; rw [hl0] at h3; cases h3
    · rw [upd_ne _ _ e]; exact ⟨st, h2, h3⟩
  | rel i =>
    simp only [step, Option.map_eq_some_iff] at hs
    obtain ⟨k, hk, rfl⟩ := hs
    refine ⟨by simp [atomize, Lin.run, hk], ?_⟩
    rcases step_shape hk with ⟨_, _, h, _⟩ | ⟨_, _, h, _⟩ | ⟨_, _, h, _⟩ | ⟨i', st0, h, hst, _, rfl⟩ | ⟨_, _, _, h, _⟩ <;>
      cases h
    intro j v hj
    change (if j = i then none else c.snap j) = some v at hj
    by_cases e : j = i
    · rw [if_pos e] at hj; cases hj
    · rw [if_neg e] at hj
      obtain ⟨h1, st, h2, h3⟩ := hsn j v hj
      exact ⟨h1, st, by show upd _ _ _ j = _; rw [upd_ne _ _ e]; exact h2, h3⟩
  | rd i =>
    simp only [step] at hs
    split at hs
    · cases hs
    · rename_i st0 hst
      split at hs
      · cases hs
      · rename_i hg
        cases hs
        refine ⟨by simp [atomize, Lin.run], ?_⟩
        intro j v hj
        change (if j = i then some c.core.σ else c.snap j) = some v at hj
        by_cases e : j = i
        · rw [if_pos e] at hj; cases hj; subst e
          refine ⟨rfl, st0, hst, ?_⟩
          cases h : st0.locked <;> simp_all
        · rw [if_neg e] at hj; exact hsn j v hj
  | wr i =>
    simp only [step] at hs
    split at hs
    · cases hs
    · rename_i v hv
      obtain ⟨hvσ, sti, hsti, hli⟩ := hsn i v hv
      subst hvσ
      simp only [Option.map_eq_some_iff] at hs
      obtain ⟨k, hk, rfl⟩ := hs
      have hk' : Lin.step O true c.core (.eff i) = some k := hk
      refine ⟨by simp [atomize, Lin.run, hk'], ?_⟩
      rcases step_shape hk' with ⟨_, _, h, _⟩ | ⟨_, _, h, _⟩ | ⟨i', st0, h, hst, _, _, rfl⟩ | ⟨_, _, h, _⟩ | ⟨_, _, _, h, _⟩ <;>
        cases h
      intro j w hj
      change (if j = i then none else c.snap j) = some w at hj
      by_cases e : j = i
      · rw [if_pos e] at hj; cases hj
      · rw [if_neg e] at hj
        obtain ⟨h1, st, h2, h3⟩ := hsn j w hj
        rw [hsti] at hst; cases hst
        have hro := (hl.both_readers hsti h2 hli h3 (fun x => e x.symm)).1
        refine ⟨?_, st, by show upd _ _ _ j = _; rw [upd_ne _ _ e]; exact h2, h3⟩
        show w = (O.apply c.core.σ sti.op).1
        rw [O.ro _ _ hro]; exact h1

/-- THEOREM. A well-formed execution with split bodies refines the atomic one: erasing `rd` and
    reading `wr` as `eff` gives a well-formed execution of `LinCore` that ends in the same shared state -/
theorem split_refines_atomic {σ0 : State} : ∀ (es : List (Ev Op Ret)) (c : Cfg State Op Ret),
    run O true { core := { σ := σ0 } } es = some c →
      Lin.run O true { σ := σ0 } (atomize es) = some c.core ∧ SnapInv c := by
  suffices ∀ (n : Nat) (es : List (Ev Op Ret)) (c : Cfg State Op Ret), es.length = n →
      run O true { core := { σ := σ0 } } es = some c →
      Lin.run O true { σ := σ0 } (atomize es) = some c.core ∧ SnapInv c from fun es c h => this _ es c rfl h
  intro n
  induction n with
  | zero =>
    intro es c hl h
    have : es = [] := List.length_eq_zero_iff.1 hl
    subst this
    simp [run] at h; subst h
    exact ⟨rfl, by intro i v h; cases h⟩
  | succ n ih =>
    intro es c hl h
    have hne : es ≠ [] := by intro e; subst e; simp at hl
    obtain ⟨e, a, rfl⟩ : ∃ e a, es = a ++ [e] :=
      ⟨es.getLast hne, es.dropLast, (List.dropLast_concat_getLast hne).symm⟩
    rw [run_append] at h
    cases h1 : run O true { core := { σ := σ0 } } a with
    | none => simp [h1] at h
    | some c1 =>
      rw [h1] at h
      simp only [Option.bind_some, run] at h
      cases h2 : step O true c1 e with
      | none => simp [h2] at h
      | some c2 =>
        simp [h2] at h; subst h
        obtain ⟨ha, hsn⟩ := ih a c1 (by simp at hl; omega) h1
        obtain ⟨hb, hsn'⟩ := step_sim (run_lockInv _ _ ha) hsn h2
        refine ⟨?_, hsn'⟩
        rw [atomize_append, Lin.run_append, ha]
        exact hb

/-- THEOREM. Bodies that read and write back at two different moments inside one lock interval:
    the history is still linearizable, the `wr` events being the linearization points. -/
theorem split_bodies_linearizable (O : Obj State Op Ret) (σ0 : State) (es : List (Ev Op Ret))
    (h : WF O σ0 es) : Linearizable O σ0 (hist es) := by
  unfold WF at h
  cases hr : run O true { core := { σ := σ0 } } es with
  | none => rw [hr] at h; cases h
  | some c =>
    obtain ⟨h1, _⟩ := split_refines_atomic es c hr
    exact ⟨_, (run_linearizable h1).1⟩

end

end NodisVerif.Lin.Split
