import NodisVerif.Proofs.C03Seq
/-
  C03: the API model refines the command-level reference semantics of Spec/HashSet.lean, one
  command at a time and for whole command sequences on one key.
-/
namespace NodisVerif.Proofs.C03Refine
open NodisVerif.Proofs.AListLemmas NodisVerif.Proofs.AListLemmas2 NodisVerif.Proofs.C03 NodisVerif.Proofs.C03Api
open NodisVerif.Proofs.C03Seq
open Store Api Spec

/-- how an API result is read as a reply of the reference semantics; `none` = panic / hang /
    INVALID-CHOICE marker / anything that is not a hash or set reply -/
def toReply : Out → Option Reply
  | .int n => some (.int n)
  | .bool b => some (.bool b)
  | .bytes b => some (.bulk b)
  | .blist l => some (.bulks l)
  | .slist l => some (.strs l)
  | .bmap l => some (.pairs (l.filterMap fun p => p.2.map fun v => (p.1, v)))
  | .many [.int v, .err false] => some (.int v)
  | .many [.int _, .err true] => some .err
  | _ => none

/-! ### hashes -/

def execHash (s : MState) (now : Int) (key : Bytes) : HashCmd → Api.R
  | .hset f v => Api.hset s now key f v
  | .hsetnx f v => Api.hsetnx s now key f v
  | .hmset pairs => Api.hmset s now key pairs
  | .hget f => Api.hget s now key f
  | .hmget fs => Api.hmget s now key fs
  | .hgetall => Api.hgetall s now key
  | .hkeys => Api.hkeys s now key
  | .hvals => Api.hvals s now key
  | .hdel fs => Api.hdel s now key fs
  | .hlen => Api.hlen s now key
  | .hexists f => Api.hexists s now key f
  | .hstrlen f => Api.hstrlen s now key f
  | .hincrby f d => Api.hincrby s now key f d

/-- the data-structure value after the command (the model's own functions) -/
def dsHash (h : AList Bytes) : HashCmd → AList Bytes
  | .hset f v => (DsHash.hset h f v).1
  | .hsetnx f v => (DsHash.hsetnx h f v).1
  | .hmset pairs => (hmsetDs h pairs).1
  | .hdel fs => (DsHash.hdel h fs).1
  | .hincrby f d => match DsHash.hincrby h f d with | none => h | some (h', _) => h'
  | _ => h

/-- finding region of the hash commands (decidable), `h` = the hash before the command:
    * HMGET of at least one field on a missing key (API answers the empty list, not one nil per field);
    * HINCRBY whose sum leaves int64 (the code wraps), or whose increment is not an int64;
    * HMSET of no pair on a missing key (leaves an existing-but-empty hash). -/
def hashFinding (h : AList Bytes) : HashCmd → Bool
  | .hmget fs => h.isEmpty && !fs.isEmpty
  | .hincrby f d => hincrOverflow h f d || !inInt64 d
  | .hmset pairs => pairs.isEmpty && h.isEmpty
  | _ => false

theorem bmap_roundtrip (h : AList Bytes) :
    (h.map fun (p : Bytes × Bytes) => (p.1, some p.2)).filterMap (fun p => p.2.map fun v => (p.1, v)) = h := by
  induction h with
  | nil => rfl
  | cons a rest ih => simp [ih]

theorem has_eq_contains (h : AList Bytes) (f : Bytes) : Map.has (DsHash.hget h) f = AList.contains h f := rfl

theorem dom_eq_contains (h : AList Bytes) : Map.dom (DsHash.hget h) = AList.contains h := rfl

theorem hash_step_refines (s : MState) (now : Int) (key : Bytes) (h : AList Bytes) (c : HashCmd)
    (hr : HashRel s key now h) (hi : IndexSorted s) (hreg : hashFinding h c = false) :
    ∃ r, HashRel (execHash s now key c).1 key now (dsHash h c) ∧ IndexSorted (execHash s now key c).1 ∧
      toReply (execHash s now key c).2 = some r ∧ hashStep (DsHash.hget h) c r (DsHash.hget (dsHash h c)) := by
  have hs := hr.1
  cases c with
  | hset f v =>
    obtain ⟨o, r, i⟩ := hset_rel s now key f v h hr hi
    refine ⟨.int (DsHash.hset h f v).2, r, i, ?_, rfl, ?_⟩
    · show toReply (Api.hset s now key f v).2 = _
      rw [o]; rfl
    · funext x; exact get?_set h f v x
  | hsetnx f v =>
    obtain ⟨o, r, i⟩ := hsetnx_rel s now key f v h hr hi
    refine ⟨.int (if (DsHash.hsetnx h f v).2 then 1 else 0), r, i, ?_, ?_⟩
    · show toReply (Api.hsetnx s now key f v).2 = _
      rw [o]; rfl
    · have e1 : AList.contains h f = true → DsHash.hsetnx h f v = (h, false) := by
        intro hc; simp [DsHash.hsetnx, hc]
      have e2 : ¬ AList.contains h f = true → DsHash.hsetnx h f v = (AList.set h f v, true) := by
        intro hc; simp [DsHash.hsetnx, hc]
      show (if Map.has (DsHash.hget h) f = true then _ else _)
      by_cases hc : Map.has (DsHash.hget h) f = true
      · rw [if_pos hc]
        show Reply.int (if (DsHash.hsetnx h f v).2 = true then 1 else 0) = _ ∧ DsHash.hget (DsHash.hsetnx h f v).1 = _
        rw [e1 hc]
        exact ⟨rfl, rfl⟩
      · rw [if_neg hc]
        show Reply.int (if (DsHash.hsetnx h f v).2 = true then 1 else 0) = _ ∧ DsHash.hget (DsHash.hsetnx h f v).1 = _
        rw [e2 hc]
        refine ⟨rfl, ?_⟩
        funext x; exact get?_set h f v x
  | hmset pairs =>
    have hne : pairs ≠ [] ∨ h ≠ [] := by
      simp only [hashFinding, Bool.and_eq_false_iff, List.isEmpty_eq_false_iff] at hreg
      exact hreg
    obtain ⟨o, r, i⟩ := hmset_rel s now key pairs h hr hi hne
    obtain ⟨_, q2, q3⟩ := hmsetDs_spec h hs pairs
    obtain ⟨d, hd⟩ := exists_enum_listed (pairs.map (·.1)) (fun x => !Map.has (DsHash.hget h) x)
    refine ⟨.int d.length, r, i, ?_, q2, d, hd, rfl⟩
    show toReply (Api.hmset s now key pairs).2 = _
    rw [o, q3 d hd]; rfl
  | hget f =>
    obtain ⟨r, i, o⟩ := hread_rel' (fun h => .bytes (DsHash.hget h f)) (.bytes none) rfl s now key h hr hi
    refine ⟨.bulk (DsHash.hget h f), r, i, ?_, rfl, rfl⟩
    show toReply (hread (fun h => .bytes (DsHash.hget h f)) (.bytes none) s now key).2 = _
    rw [o]; rfl
  | hmget fs =>
    obtain ⟨r, i, o⟩ := hread_rel (fun h => .blist (DsHash.hmget h fs)) (.blist []) s now key h hr hi
    refine ⟨.bulks (fs.map (DsHash.hget h)), r, i, ?_, rfl, rfl⟩
    show toReply (hread (fun h => .blist (DsHash.hmget h fs)) (.blist []) s now key).2 = _
    rcases o with ⟨rfl, _, o⟩ | ⟨_, o⟩
    · have hfs : fs = [] := by
        simpa [hashFinding] using hreg
      subst hfs
      rw [o]; rfl
    · rw [o]; rfl
  | hgetall =>
    obtain ⟨r, i, o⟩ := hread_rel' (fun h => .bmap (h.map fun (k, v) => (k, some v))) (.bmap []) rfl s now key h hr hi
    refine ⟨.pairs h, r, i, ?_, rfl, h, hgetall_enumerates h hs, rfl⟩
    show toReply (hread (fun h => .bmap (h.map fun (k, v) => (k, some v))) (.bmap []) s now key).2 = _
    rw [o]
    exact congrArg (fun l => some (Reply.pairs l)) (bmap_roundtrip h)
  | hkeys =>
    obtain ⟨r, i, o⟩ := hread_rel' (fun h => .slist (DsHash.hkeys h)) (.slist []) rfl s now key h hr hi
    refine ⟨.strs (AList.keys h), r, i, ?_, rfl, _, keys_enumerates h hs, rfl⟩
    show toReply (hread (fun h => .slist (DsHash.hkeys h)) (.slist []) s now key).2 = _
    rw [o]; rfl
  | hvals =>
    obtain ⟨r, i, o⟩ := hread_rel' (fun h => .blist ((DsHash.hvals h).map some)) (.blist []) rfl s now key h hr hi
    refine ⟨.bulks (h.map fun p => some p.2), r, i, ?_, rfl, h, hgetall_enumerates h hs, rfl⟩
    show toReply (hread (fun h => .blist ((DsHash.hvals h).map some)) (.blist []) s now key).2 = _
    rw [o]
    simp [toReply, DsHash.hvals, AList.values]
  | hdel fs =>
    obtain ⟨o, r, i⟩ := hdel_rel s now key fs h hr hi
    obtain ⟨_, q2, q3, _⟩ := hdel_spec h hs fs
    obtain ⟨d, hd⟩ := exists_enum_listed fs (Map.has (DsHash.hget h))
    refine ⟨.int d.length, r, i, ?_, q2, d, hd, rfl⟩
    show toReply (Api.hdel s now key fs).2 = _
    rw [o, q3 d hd]; rfl
  | hlen =>
    obtain ⟨r, i, o⟩ := hread_rel' (fun h => .int (DsHash.hlen h)) (.int 0) rfl s now key h hr hi
    refine ⟨.int h.length, r, i, ?_, rfl, h.length, ⟨AList.keys h, keys_enumerates h hs, length_keys h⟩, rfl⟩
    show toReply (hread (fun h => .int (DsHash.hlen h)) (.int 0) s now key).2 = _
    rw [o]; rfl
  | hexists f =>
    obtain ⟨r, i, o⟩ := hread_rel' (fun h => .bool (DsHash.hexists h f)) (.bool false) rfl s now key h hr hi
    refine ⟨.bool (DsHash.hexists h f), r, i, ?_, rfl, rfl⟩
    show toReply (hread (fun h => .bool (DsHash.hexists h f)) (.bool false) s now key).2 = _
    rw [o]; rfl
  | hstrlen f =>
    obtain ⟨r, i, o⟩ := hread_rel' (fun h => .int (DsHash.hstrlen h f)) (.int 0) rfl s now key h hr hi
    refine ⟨.int (DsHash.hstrlen h f), r, i, ?_, ?_, rfl⟩
    · show toReply (hread (fun h => .int (DsHash.hstrlen h f)) (.int 0) s now key).2 = _
      rw [o]; rfl
    · simp only [DsHash.hstrlen, DsHash.hget]
      cases AList.get? h f <;> rfl
  | hincrby f d =>
    obtain ⟨o, r, i⟩ := hincrby_rel s now key f d h hr hi
    have hreg' : hincrOverflow h f d = false ∧ inInt64 d = true := by
      simpa [hashFinding] using hreg
    obtain ⟨p1, p2⟩ := hincrby_redis_partial h f d hreg'.2 hreg'.1
    cases hd : DsHash.hincrby h f d with
    | none =>
      rw [hd] at o p1 r
      simp only [Option.map_none] at p1
      have r' : HashRel (execHash s now key (.hincrby f d)).1 key now (dsHash h (.hincrby f d)) := by
        simp only [dsHash, hd]; exact r
      refine ⟨.err, r', i, ?_, ?_⟩
      · show toReply (Api.hincrby s now key f d).2 = _
        rw [o]; rfl
      · simp only [hashStep, ← p1, dsHash, hd]
        exact ⟨trivial, trivial⟩
    | some pr =>
      obtain ⟨h', v⟩ := pr
      rw [hd] at o p1 r
      simp only [Option.map_some] at p1
      have r' : HashRel (execHash s now key (.hincrby f d)).1 key now (dsHash h (.hincrby f d)) := by
        simp only [dsHash, hd]; exact r
      refine ⟨.int v, r', i, ?_, ?_⟩
      · show toReply (Api.hincrby s now key f d).2 = _
        rw [o]; rfl
      · simp only [hashStep, ← p1, dsHash, hd]
        exact ⟨trivial, p2 h' v hd⟩


/-! ### whole command sequences on one hash key -/

def runHash (now : Int) (key : Bytes) : MState → List HashCmd → MState × List Out
  | s, [] => (s, [])
  | s, c :: cs =>
    let r := execHash s now key c
    let rest := runHash now key r.1 cs
    (rest.1, r.2 :: rest.2)

/-- no command of the sequence falls into the finding region (evaluated along the model's own
    data-structure values) -/
def noHashFinding : AList Bytes → List HashCmd → Bool
  | _, [] => true
  | h, c :: cs => !hashFinding h c && noHashFinding (dsHash h c) cs

theorem hash_sequence_refines (now : Int) (key : Bytes) : ∀ (cs : List HashCmd) (s : MState) (h : AList Bytes),
    HashRel s key now h → IndexSorted s → noHashFinding h cs = true →
    ∃ rs, HashRel (runHash now key s cs).1 key now (cs.foldl dsHash h) ∧
      IndexSorted (runHash now key s cs).1 ∧
      (runHash now key s cs).2.map toReply = rs.map some ∧
      HashRun (DsHash.hget h) cs rs (DsHash.hget (cs.foldl dsHash h)) := by
  intro cs
  induction cs with
  | nil => intro s h hr hi _; exact ⟨[], hr, hi, rfl, HashRun.nil _⟩
  | cons c cs ih =>
    intro s h hr hi hreg
    simp only [noHashFinding, Bool.and_eq_true, Bool.not_eq_true'] at hreg
    obtain ⟨r, hr1, hi1, ho, hstep⟩ := hash_step_refines s now key h c hr hi hreg.1
    obtain ⟨rs, hr2, hi2, ho2, hrun⟩ := ih (execHash s now key c).1 (dsHash h c) hr1 hi1 hreg.2
    refine ⟨r :: rs, hr2, hi2, ?_, HashRun.cons hstep hrun⟩
    show toReply (execHash s now key c).2 :: (runHash now key (execHash s now key c).1 cs).2.map toReply = _
    rw [ho, ho2]; rfl

/-! ### sets -/

/-- a set command together with the implementation's random choice (ignored by the other commands) -/
def execSet (s : MState) (now : Int) (key : Bytes) : SetCmd × List Bytes → Api.R
  | (.sadd ms, _) => Api.sadd s now key ms
  | (.srem ms, _) => Api.srem s now key ms
  | (.sismember m, _) => Api.sismember s now key m
  | (.scard, _) => Api.scard s now key
  | (.smembers, _) => Api.smembers s now key
  | (.spop count, choice) => Api.spop s now key count choice
  | (.srandmember count, choice) => Api.srandmember s now key count choice

def dsSet (st : AList Unit) : SetCmd × List Bytes → AList Unit
  | (.sadd ms, _) => (DsSet.sadd st ms).1
  | (.srem ms, _) => (DsSet.srem st ms).1
  | (.spop count, choice) => if spopValid st count choice then (DsSet.srem st choice).1 else st
  | _ => st

/-- finding region of the set commands, `st` = the set before the command:
    * SADD of no member on a missing key (leaves an existing-but-empty set);
    * SPOP with a negative count (Redis: error; the code answers the empty list). -/
def setFinding (st : AList Unit) : SetCmd → Bool
  | .sadd ms => ms.isEmpty && st.isEmpty
  | .spop count => decide (count < 0)
  | _ => false

theorem set_hasCard (st : AList Unit) (hs : AList.Sorted st) : HasCard (DsSet.mem st) st.length :=
  ⟨DsSet.members st, members_enumerates st hs, length_keys st⟩

theorem admissible_nil (s : BSet) (k : Nat) : AdmissibleDistinct s 0 k [] := by
  unfold AdmissibleDistinct
  exact ⟨fun x h => by simp at h, List.nodup_nil, by simp⟩

theorem set_step_refines (s : MState) (now : Int) (key : Bytes) (st : AList Unit) (c : SetCmd) (choice : List Bytes)
    (hr : SetRel s key now st) (hi : IndexSorted s) (hreg : setFinding st c = false) :
    SetRel (execSet s now key (c, choice)).1 key now (dsSet st (c, choice)) ∧
    IndexSorted (execSet s now key (c, choice)).1 ∧
    ((execSet s now key (c, choice)).2 ≠ invalidChoice →
      ∃ r, toReply (execSet s now key (c, choice)).2 = some r ∧
        setStep (DsSet.mem st) c r (DsSet.mem (dsSet st (c, choice)))) := by
  have hs := hr.1
  cases c with
  | sadd ms =>
    obtain ⟨o, hot, hsorted, i⟩ := sadd_rel s now key ms st hr hi
    obtain ⟨_, q2, q3, _⟩ := sadd_spec st hs ms
    have hne : (DsSet.sadd st ms).1 ≠ [] := by
      have hreg' : ms ≠ [] ∨ st ≠ [] := by
        simp only [setFinding, Bool.and_eq_false_iff, List.isEmpty_eq_false_iff] at hreg
        exact hreg
      rcases hreg' with h1 | h1
      · cases ms with
        | nil => exact absurd rfl h1
        | cons m ms' =>
          apply ne_nil_of_contains _ m
          show DsSet.mem (DsSet.sadd st (m :: ms')).1 m = true
          rw [q2]; simp [BSet.insertAll]
      · cases st with
        | nil => exact absurd rfl h1
        | cons a rest =>
          obtain ⟨k, u⟩ := a
          apply ne_nil_of_contains _ k
          show DsSet.mem (DsSet.sadd ((k, u) :: rest) ms).1 k = true
          rw [q2]; simp [BSet.insertAll, DsSet.mem, AList.contains, AList.get?]
    refine ⟨⟨hsorted, Or.inr ⟨hne, hot⟩⟩, i, fun _ => ?_⟩
    obtain ⟨d, hd⟩ := exists_enum_listed ms (fun x => !DsSet.mem st x)
    refine ⟨.int d.length, ?_, q2, d, hd, rfl⟩
    show toReply (Api.sadd s now key ms).2 = _
    rw [o, q3 d hd]; rfl
  | srem ms =>
    obtain ⟨o, r, i⟩ := srem_rel s now key ms st hr hi
    obtain ⟨_, q2, q3, _⟩ := srem_spec st hs ms
    refine ⟨r, i, fun _ => ?_⟩
    obtain ⟨d, hd⟩ := exists_enum_listed ms (DsSet.mem st)
    refine ⟨.int d.length, ?_, q2, d, hd, rfl⟩
    show toReply (Api.srem s now key ms).2 = _
    rw [o, q3 d hd]; rfl
  | sismember m =>
    obtain ⟨r, i, o⟩ := sread_rel (fun st => .bool (DsSet.mem st m)) (.bool false) rfl s now key st hr hi
    refine ⟨r, i, fun _ => ⟨.bool (DsSet.mem st m), ?_, rfl, rfl⟩⟩
    show toReply (sread (fun st => .bool (DsSet.mem st m)) (.bool false) s now key).2 = _
    rw [o]; rfl
  | scard =>
    obtain ⟨r, i, o⟩ := sread_rel (fun st => .int (DsSet.scard st)) (.int 0) rfl s now key st hr hi
    refine ⟨r, i, fun _ => ⟨.int st.length, ?_, rfl, st.length, set_hasCard st hs, rfl⟩⟩
    show toReply (sread (fun st => .int (DsSet.scard st)) (.int 0) s now key).2 = _
    rw [o]; rfl
  | smembers =>
    obtain ⟨r, i, o⟩ := sread_rel (fun st => .slist (DsSet.members st)) (.slist []) rfl s now key st hr hi
    refine ⟨r, i, fun _ => ⟨.strs (DsSet.members st), ?_, rfl, _, members_enumerates st hs, rfl⟩⟩
    show toReply (sread (fun st => .slist (DsSet.members st)) (.slist []) s now key).2 = _
    rw [o]; rfl
  | spop count =>
    have hcount : ¬ count < 0 := by simpa [setFinding] using hreg
    obtain ⟨i, cases3⟩ := spop_rel s now key count choice st hr hi
    show SetRel (Api.spop s now key count choice).1 key now
        (if spopValid st count choice then (DsSet.srem st choice).1 else st) ∧ _ ∧
      ((Api.spop s now key count choice).2 ≠ invalidChoice → ∃ r, toReply (Api.spop s now key count choice).2 = some r ∧
        setStep (DsSet.mem st) (.spop count) r
          (DsSet.mem (if spopValid st count choice then (DsSet.srem st choice).1 else st)))
    rcases cases3 with ⟨_, rfl, o, r⟩ | ⟨_, hadm, o, r⟩ | ⟨_, hadm, o, r⟩
    · have hds : (if spopValid [] count choice then (DsSet.srem [] choice).1 else ([] : AList Unit)) = [] := by
        split
        · rw [srem_nil]
        · rfl
      rw [hds]
      refine ⟨r, i, fun _ => ⟨.strs [], by rw [o]; rfl, ?_⟩⟩
      simp only [setStep, hcount, if_false]
      refine ⟨[], 0, set_hasCard [] trivial, admissible_nil _ _, rfl, ?_⟩
      funext x; simp [BSet.removeAll]
    · have hv := (spopValid_iff st count choice).mpr hadm
      rw [hv]
      simp only [if_true]
      refine ⟨r, i, fun _ => ⟨.strs choice, by rw [o]; rfl, ?_⟩⟩
      simp only [setStep, hcount, if_false]
      exact ⟨choice, st.length, set_hasCard st hs, hadm, rfl, (srem_spec st hs choice).2.1⟩
    · have hv : spopValid st count choice = false := by
        cases hb : spopValid st count choice with
        | false => rfl
        | true => exact absurd ((spopValid_iff st count choice).mp hb) hadm
      rw [hv]
      simp only [Bool.false_eq_true, if_false]
      exact ⟨r, i, fun hne => absurd o hne⟩
  | srandmember count =>
    obtain ⟨r, i, o1, o2⟩ := srandmember_rel s now key count choice st hr hi
    refine ⟨r, i, fun hne => ?_⟩
    show ∃ r, toReply (Api.srandmember s now key count choice).2 = some r ∧
        setStep (DsSet.mem st) (.srandmember count) r (DsSet.mem st)
    by_cases hst : st = []
    · subst hst
      refine ⟨.strs [], by rw [o1 rfl]; rfl, rfl, [], 0, set_hasCard [] trivial, rfl, ?_⟩
      by_cases hc : 0 ≤ count
      · rw [if_pos hc]; exact admissible_nil _ _
      · rw [if_neg hc, if_pos rfl]
    · have o := o2 hst
      have hv : srandValid st count choice = true := by
        cases hb : srandValid st count choice with
        | true => rfl
        | false =>
          rw [hb] at o
          exact absurd o hne
      rw [hv] at o
      refine ⟨.strs choice, by rw [o]; rfl, rfl, choice, st.length, set_hasCard st hs, rfl, ?_⟩
      have hlen : st.length ≠ 0 := fun h0 => hst (List.length_eq_zero_iff.mp h0)
      by_cases hc : 0 ≤ count
      · rw [if_pos hc]; exact (srandValid_nonneg_iff st count hc choice).mp hv
      · rw [if_neg hc, if_neg hlen]
        exact (srandValid_neg_iff st count (by omega) choice).mp hv

/-! ### whole command sequences on one set key -/

def runSet (now : Int) (key : Bytes) : MState → List (SetCmd × List Bytes) → MState × List Out
  | s, [] => (s, [])
  | s, c :: cs =>
    let r := execSet s now key c
    let rest := runSet now key r.1 cs
    (rest.1, r.2 :: rest.2)

def noSetFinding : AList Unit → List (SetCmd × List Bytes) → Bool
  | _, [] => true
  | st, c :: cs => !setFinding st c.1 && noSetFinding (dsSet st c) cs

theorem set_sequence_refines (now : Int) (key : Bytes) : ∀ (cs : List (SetCmd × List Bytes)) (s : MState) (st : AList Unit),
    SetRel s key now st → IndexSorted s → noSetFinding st cs = true →
    (∀ o ∈ (runSet now key s cs).2, o ≠ invalidChoice) →
    ∃ rs, SetRel (runSet now key s cs).1 key now (cs.foldl dsSet st) ∧
      IndexSorted (runSet now key s cs).1 ∧
      (runSet now key s cs).2.map toReply = rs.map some ∧
      SetRun (DsSet.mem st) (cs.map (·.1)) rs (DsSet.mem (cs.foldl dsSet st)) := by
  intro cs
  induction cs with
  | nil => intro s st hr hi _ _; exact ⟨[], hr, hi, rfl, SetRun.nil _⟩
  | cons c cs ih =>
    intro s st hr hi hreg hacc
    obtain ⟨c, choice⟩ := c
    simp only [noSetFinding, Bool.and_eq_true, Bool.not_eq_true'] at hreg
    obtain ⟨hr1, hi1, hstep⟩ := set_step_refines s now key st c choice hr hi hreg.1
    have hacc1 : (execSet s now key (c, choice)).2 ≠ invalidChoice := hacc _ (by simp [runSet])
    have hacc2 : ∀ o ∈ (runSet now key (execSet s now key (c, choice)).1 cs).2, o ≠ invalidChoice :=
      fun o ho => hacc o (by simp [runSet, ho])
    obtain ⟨r, ho, hst⟩ := hstep hacc1
    obtain ⟨rs, hr2, hi2, ho2, hrun⟩ := ih (execSet s now key (c, choice)).1 (dsSet st (c, choice)) hr1 hi1 hreg.2 hacc2
    refine ⟨r :: rs, hr2, hi2, ?_, SetRun.cons hst hrun⟩
    show toReply (execSet s now key (c, choice)).2 :: (runSet now key (execSet s now key (c, choice)).1 cs).2.map toReply = _
    rw [ho, ho2]; rfl


/-! ### commands issued at arbitrary times, on a key without a deadline -/

/-- the record of `key`, if it is a live one, carries no deadline -/
def TimeFree (s : MState) (key : Bytes) : Prop :=
  ∀ m, getMeta s key = some m → m.isOk = true → m.exp = 0

theorem expired_of_exp_zero (m : Meta) (h : m.exp = 0) (t : Int) : m.expired t = false := by
  simp [Meta.expired, h]

theorem readKey_time_indep (s : MState) (key : Bytes) (h : TimeFree s key) (t t' : Int) :
    readKey s t key = readKey s t' key := by
  unfold readKey
  cases hm : getMeta s key with
  | none => rfl
  | some m0 =>
    simp only
    cases hok : ({ m0 with count := m0.count + 1 } : Meta).isOk with
    | false => simp
    | true =>
      have he : m0.exp = 0 := h m0 hm hok
      have e1 : ({ m0 with count := m0.count + 1 } : Meta).expired t = false := expired_of_exp_zero _ he t
      have e2 : ({ m0 with count := m0.count + 1 } : Meta).expired t' = false := expired_of_exp_zero _ he t'
      simp only [e1, e2]

theorem writeKey_time_indep (s : MState) (key : Bytes) (mk : Option Val) (h : TimeFree s key) (t t' : Int) :
    writeKey s t key mk = writeKey s t' key mk := by
  unfold writeKey
  cases hm : getMeta s key with
  | none => rfl
  | some m0 =>
    simp only
    cases hok : ({ m0 with count := m0.count + 1 } : Meta).isOk with
    | false => simp
    | true =>
      have he : m0.exp = 0 := h m0 hm hok
      have e1 : ({ m0 with count := m0.count + 1 } : Meta).expired t = false := expired_of_exp_zero _ he t
      have e2 : ({ m0 with count := m0.count + 1 } : Meta).expired t' = false := expired_of_exp_zero _ he t'
      simp only [e1, e2]

theorem hread_time_indep (f : AList Bytes → Out) (dflt : Out) (s : MState) (key : Bytes) (h : TimeFree s key) (t t' : Int) :
    hread f dflt s t key = hread f dflt s t' key := by
  unfold hread; rw [readKey_time_indep s key h t t']

theorem sread_time_indep (f : AList Unit → Out) (dflt : Out) (s : MState) (key : Bytes) (h : TimeFree s key) (t t' : Int) :
    sread f dflt s t key = sread f dflt s t' key := by
  unfold sread; rw [readKey_time_indep s key h t t']

theorem execHash_time_indep (s : MState) (key : Bytes) (c : HashCmd) (h : TimeFree s key) (t t' : Int) :
    execHash s t key c = execHash s t' key c := by
  cases c with
  | hset f v => show Api.hset s t key f v = Api.hset s t' key f v; unfold Api.hset; rw [writeKey_time_indep s key _ h t t']
  | hsetnx f v => show Api.hsetnx s t key f v = Api.hsetnx s t' key f v; unfold Api.hsetnx; rw [writeKey_time_indep s key _ h t t']
  | hmset pairs => show Api.hmset s t key pairs = Api.hmset s t' key pairs; unfold Api.hmset; rw [writeKey_time_indep s key _ h t t']
  | hget f => exact hread_time_indep (fun h => .bytes (DsHash.hget h f)) (.bytes none) s key h t t'
  | hmget fs => exact hread_time_indep _ _ s key h t t'
  | hgetall => exact hread_time_indep _ _ s key h t t'
  | hkeys => exact hread_time_indep _ _ s key h t t'
  | hvals => exact hread_time_indep _ _ s key h t t'
  | hdel fs => show Api.hdel s t key fs = Api.hdel s t' key fs; unfold Api.hdel; rw [writeKey_time_indep s key _ h t t']
  | hlen => exact hread_time_indep _ _ s key h t t'
  | hexists f => exact hread_time_indep _ _ s key h t t'
  | hstrlen f => exact hread_time_indep _ _ s key h t t'
  | hincrby f d => show Api.hincrby s t key f d = Api.hincrby s t' key f d; unfold Api.hincrby; rw [writeKey_time_indep s key _ h t t']

theorem execSet_time_indep (s : MState) (key : Bytes) (c : SetCmd × List Bytes) (h : TimeFree s key) (t t' : Int) :
    execSet s t key c = execSet s t' key c := by
  obtain ⟨c, choice⟩ := c
  cases c with
  | sadd ms => show Api.sadd s t key ms = Api.sadd s t' key ms; unfold Api.sadd; rw [writeKey_time_indep s key _ h t t']
  | srem ms => show Api.srem s t key ms = Api.srem s t' key ms; unfold Api.srem; rw [writeKey_time_indep s key _ h t t']
  | sismember m => exact sread_time_indep _ _ s key h t t'
  | scard => exact sread_time_indep _ _ s key h t t'
  | smembers => exact sread_time_indep _ _ s key h t t'
  | spop count => show Api.spop s t key count choice = Api.spop s t' key count choice; unfold Api.spop; rw [writeKey_time_indep s key _ h t t']
  | srandmember count =>
    show Api.srandmember s t key count choice = Api.srandmember s t' key count choice
    unfold Api.srandmember; rw [readKey_time_indep s key h t t']

/-- a key that is hot at *every* time has no deadline -/
theorem timeFree_of_hot (s : MState) (key : Bytes) (v : Val) (h : ∀ t, Hot s key v t) : TimeFree s key := by
  intro m hm _
  obtain ⟨m', hm', _, hexp, _⟩ := h m.exp
  rw [hm] at hm'; cases hm'
  simp only [Meta.expired] at hexp
  simp at hexp
  exact hexp

/-- a key that is missing at every time is missing for a reason other than a deadline -/
theorem timeFree_of_absent (s : MState) (key : Bytes) (h : ∀ t, Absent s key t) : TimeFree s key := by
  intro m hm hok
  rcases h (m.exp - 1) m hm with h1 | h1
  · rw [hok] at h1; cases h1
  · simp only [Meta.expired, Bool.and_eq_true, bne_iff_ne, ne_eq, decide_eq_true_eq] at h1
    omega

theorem timeFree_of_hashRel (s : MState) (key : Bytes) (h : AList Bytes) (hr : ∀ t, HashRel s key t h) :
    TimeFree s key := by
  by_cases hn : h = []
  · apply timeFree_of_absent
    intro t
    rcases (hr t).2 with ⟨_, ha⟩ | ⟨hne, _⟩
    · exact ha
    · exact absurd hn hne
  · apply timeFree_of_hot s key (.hash h)
    intro t
    rcases (hr t).2 with ⟨he, _⟩ | ⟨_, hh⟩
    · exact absurd he hn
    · exact hh

theorem timeFree_of_setRel (s : MState) (key : Bytes) (st : AList Unit) (hr : ∀ t, SetRel s key t st) :
    TimeFree s key := by
  by_cases hn : st = []
  · apply timeFree_of_absent
    intro t
    rcases (hr t).2 with ⟨_, ha⟩ | ⟨hne, _⟩
    · exact ha
    · exact absurd hn hne
  · apply timeFree_of_hot s key (.set st)
    intro t
    rcases (hr t).2 with ⟨he, _⟩ | ⟨_, hh⟩
    · exact absurd he hn
    · exact hh

/-- run a sequence of (time, command) pairs -/
def runHashT (key : Bytes) : MState → List (Int × HashCmd) → MState × List Out
  | s, [] => (s, [])
  | s, tc :: cs =>
    let r := execHash s tc.1 key tc.2
    let rest := runHashT key r.1 cs
    (rest.1, r.2 :: rest.2)

/-- every sequence of hash commands, issued at arbitrary times, on a key that is missing or has no
    deadline -/
theorem hash_sequence_refines_timed (key : Bytes) : ∀ (tcs : List (Int × HashCmd)) (s : MState) (h : AList Bytes),
    (∀ t, HashRel s key t h) → IndexSorted s → noHashFinding h (tcs.map (·.2)) = true →
    ∃ rs, (∀ t, HashRel (runHashT key s tcs).1 key t ((tcs.map (·.2)).foldl dsHash h)) ∧
      IndexSorted (runHashT key s tcs).1 ∧
      (runHashT key s tcs).2.map toReply = rs.map some ∧
      HashRun (DsHash.hget h) (tcs.map (·.2)) rs (DsHash.hget ((tcs.map (·.2)).foldl dsHash h)) := by
  intro tcs
  induction tcs with
  | nil => intro s h hr hi _; exact ⟨[], hr, hi, rfl, HashRun.nil _⟩
  | cons tc tcs ih =>
    intro s h hr hi hreg
    obtain ⟨t0, c⟩ := tc
    simp only [List.map_cons, noHashFinding, Bool.and_eq_true, Bool.not_eq_true'] at hreg
    have htf := timeFree_of_hashRel s key h hr
    obtain ⟨r, _, hi1, ho, hstep⟩ := hash_step_refines s t0 key h c (hr t0) hi hreg.1
    have hr1 : ∀ t, HashRel (execHash s t0 key c).1 key t (dsHash h c) := by
      intro t
      obtain ⟨_, q, _⟩ := hash_step_refines s t key h c (hr t) hi hreg.1
      rw [execHash_time_indep s key c htf t t0] at q
      exact q
    obtain ⟨rs, hr2, hi2, ho2, hrun⟩ := ih (execHash s t0 key c).1 (dsHash h c) hr1 hi1 hreg.2
    refine ⟨r :: rs, hr2, hi2, ?_, HashRun.cons hstep hrun⟩
    show toReply (execHash s t0 key c).2 :: (runHashT key (execHash s t0 key c).1 tcs).2.map toReply = _
    rw [ho, ho2]; rfl

def runSetT (key : Bytes) : MState → List (Int × SetCmd × List Bytes) → MState × List Out
  | s, [] => (s, [])
  | s, tc :: cs =>
    let r := execSet s tc.1 key tc.2
    let rest := runSetT key r.1 cs
    (rest.1, r.2 :: rest.2)

theorem set_sequence_refines_timed (key : Bytes) : ∀ (tcs : List (Int × SetCmd × List Bytes)) (s : MState) (st : AList Unit),
    (∀ t, SetRel s key t st) → IndexSorted s → noSetFinding st (tcs.map (·.2)) = true →
    (∀ o ∈ (runSetT key s tcs).2, o ≠ invalidChoice) →
    ∃ rs, (∀ t, SetRel (runSetT key s tcs).1 key t ((tcs.map (·.2)).foldl dsSet st)) ∧
      IndexSorted (runSetT key s tcs).1 ∧
      (runSetT key s tcs).2.map toReply = rs.map some ∧
      SetRun (DsSet.mem st) (tcs.map (·.2.1)) rs (DsSet.mem ((tcs.map (·.2)).foldl dsSet st)) := by
  intro tcs
  induction tcs with
  | nil => intro s st hr hi _ _; exact ⟨[], hr, hi, rfl, SetRun.nil _⟩
  | cons tc tcs ih =>
    intro s st hr hi hreg hacc
    obtain ⟨t0, c, choice⟩ := tc
    simp only [List.map_cons, noSetFinding, Bool.and_eq_true, Bool.not_eq_true'] at hreg
    have htf := timeFree_of_setRel s key st hr
    obtain ⟨_, hi1, hstep⟩ := set_step_refines s t0 key st c choice (hr t0) hi hreg.1
    have hr1 : ∀ t, SetRel (execSet s t0 key (c, choice)).1 key t (dsSet st (c, choice)) := by
      intro t
      obtain ⟨q, _, _⟩ := set_step_refines s t key st c choice (hr t) hi hreg.1
      rw [execSet_time_indep s key (c, choice) htf t t0] at q
      exact q
    have hacc1 : (execSet s t0 key (c, choice)).2 ≠ invalidChoice := hacc _ (by simp [runSetT])
    have hacc2 : ∀ o ∈ (runSetT key (execSet s t0 key (c, choice)).1 tcs).2, o ≠ invalidChoice :=
      fun o ho => hacc o (by simp [runSetT, ho])
    obtain ⟨r, ho, hst⟩ := hstep hacc1
    obtain ⟨rs, hr2, hi2, ho2, hrun⟩ := ih (execSet s t0 key (c, choice)).1 (dsSet st (c, choice)) hr1 hi1 hreg.2 hacc2
    refine ⟨r :: rs, hr2, hi2, ?_, SetRun.cons hst hrun⟩
    show toReply (execSet s t0 key (c, choice)).2 :: (runSetT key (execSet s t0 key (c, choice)).1 tcs).2.map toReply = _
    rw [ho, ho2]; rfl

end NodisVerif.Proofs.C03Refine
