import NodisVerif.Proofs.SkiplistRank
/-
  `getRank` without any hypothesis on members / scores: it never panics or runs out of fuel under `Inv`, the result
  is within `0..length`, and the exact characterisation of what the code computes (the position of the stopping node
  of the highest level whose stopping node is not the header and has member `m`; 0 if there is none).
-/
namespace NodisVerif.Skiplist
open NodisVerif.DsZSet (Item nodeLt)
open NodisVerif.Proofs.C04 (ILt)
open NodisVerif.Proofs.ZSetLemmas (Good)

/-- `u` (at position `|A|`) is the last node among the chain positions `0..k` that takes part in level `i` -/
def Stop (sl : SL) (c : List Nat) (k i : Nat) (A : List Nat) (u : Nat) (B : List Nat) : Prop :=
  (0 :: c).take (k + 1) = A ++ u :: B ∧ above sl.heap i u = true ∧ ∀ y ∈ B, above sl.heap i y = false

/-- the member test of `getRank` fails on the stopping node of level `i` -/
def NoHit (sl : SL) (c : List Nat) (k : Nat) (m : Bytes) (i : Nat) : Prop :=
  ∀ A u B, Stop sl c k i A u B → ¬ (u ≠ 0 ∧ (itemAt sl.heap u).2 = m)

theorem last_split_unique {α : Type} (p : α → Bool) : ∀ (A1 A2 : List α) (u1 u2 : α) (B1 B2 : List α),
    A1 ++ u1 :: B1 = A2 ++ u2 :: B2 → p u1 = true → p u2 = true → (∀ y ∈ B1, p y = false) → (∀ y ∈ B2, p y = false) →
    A1 = A2 ∧ u1 = u2 ∧ B1 = B2 := by
  intro A1
  induction A1 with
  | nil =>
    intro A2 u1 u2 B1 B2 h h1 h2 hB1 hB2
    cases A2 with
    | nil => simp at h; exact ⟨rfl, h.1, h.2⟩
    | cons a A2 =>
      simp at h
      have := hB1 u2 (by rw [h.2]; simp)
      rw [h2] at this; cases this
  | cons a A1 ih =>
    intro A2 u1 u2 B1 B2 h h1 h2 hB1 hB2
    cases A2 with
    | nil =>
      simp at h
      have := hB2 u1 (by rw [← h.2]; simp)
      rw [h1] at this; cases this
    | cons b A2 =>
      simp at h
      obtain ⟨e1, e2, e3⟩ := ih A2 u1 u2 B1 B2 h.2 h1 h2 hB1 hB2
      exact ⟨by rw [h.1, e1], e2, e3⟩

theorem Stop.unique {sl : SL} {c : List Nat} {k i : Nat} {A1 A2 : List Nat} {u1 u2 : Nat} {B1 B2 : List Nat}
    (h1 : Stop sl c k i A1 u1 B1) (h2 : Stop sl c k i A2 u2 B2) : A1 = A2 ∧ u1 = u2 ∧ B1 = B2 :=
  last_split_unique (above sl.heap i) A1 A2 u1 u2 B1 B2 (h1.1.symm.trans h2.1) h1.2.1 h2.2.1 h1.2.2 h2.2.2

/-- the level loop of `getRank`, no hypothesis on the members -/
theorem getRankLoop_char {sl : SL} {c : List Nat} (hc : IsChain sl c) (m : Bytes) (s : F64) (k : Nat)
    (hcond : CondUpTo sl c (rankCond m s) k) :
    ∀ (l : Nat) (A : List Nat) (u : Nat) (B : List Nat), 0 :: c = A ++ u :: B → above sl.heap l u = true →
      A.length ≤ k →
      ∃ r, getRankLoop sl.heap m s (l + 1) u (A.length : Int) = .ok r ∧
        ((r = 0 ∧ ∀ i, i ≤ l → NoHit sl c k m i) ∨
         (∃ i, i ≤ l ∧ ∃ A' u' B', Stop sl c k i A' u' B' ∧ u' ≠ 0 ∧ (itemAt sl.heap u').2 = m ∧
            r = (A'.length : Int) ∧ 1 ≤ A'.length ∧ A'.length ≤ k ∧ ∀ i', i < i' → i' ≤ l → NoHit sl c k m i')) := by
  intro l
  induction l with
  | zero =>
    intro A u B hsplit hu hA
    obtain ⟨A', u', B', B'', hP, hsplit', hu', hB', hAA', hA', -, hw⟩ :=
      walk_step hc (rankCond m s) k hcond 0 A u B hsplit hu hA
    have hget : (0 :: c)[A'.length]? = some u' := by rw [hsplit']; simp
    obtain ⟨nd, hnd⟩ := heap_of_mem hc (List.mem_of_getElem? hget)
    have hz := pos_zero_iff hc hget
    have hstop : Stop sl c k 0 A' u' B' := ⟨hP, hu', hB'⟩
    have hmem : (itemAt sl.heap u').2 = nd.member := by rw [itemAt_eq hnd]; rfl
    rw [getRankLoop, hw]
    simp only [bind, Except.bind, pure, Except.pure, (getNode_ok_iff _ _ _).2 hnd]
    by_cases ht : u' ≠ 0 ∧ nd.member = m
    · rw [if_pos ht]
      refine ⟨_, rfl, Or.inr ⟨0, Nat.le_refl _, A', u', B', hstop, ht.1, hmem.trans ht.2, rfl, ?_, hA', ?_⟩⟩
      · have : ¬ A'.length = 0 := fun h0 => ht.1 (hz.2 h0)
        omega
      · intro i' h1 h2; omega
    · rw [if_neg ht, getRankLoop]
      refine ⟨0, rfl, Or.inl ⟨rfl, ?_⟩⟩
      intro i hi A2 u2 B2 h2
      obtain rfl : i = 0 := by omega
      obtain ⟨-, rfl, -⟩ := hstop.unique h2
      rw [hmem]; exact ht
  | succ l ih =>
    intro A u B hsplit hu hA
    obtain ⟨A', u', B', B'', hP, hsplit', hu', hB', hAA', hA', -, hw⟩ :=
      walk_step hc (rankCond m s) k hcond (l + 1) A u B hsplit hu hA
    have hget : (0 :: c)[A'.length]? = some u' := by rw [hsplit']; simp
    obtain ⟨nd, hnd⟩ := heap_of_mem hc (List.mem_of_getElem? hget)
    have hz := pos_zero_iff hc hget
    have hstop : Stop sl c k (l + 1) A' u' B' := ⟨hP, hu', hB'⟩
    have hmem : (itemAt sl.heap u').2 = nd.member := by rw [itemAt_eq hnd]; rfl
    rw [getRankLoop, hw]
    simp only [bind, Except.bind, pure, Except.pure, (getNode_ok_iff _ _ _).2 hnd]
    by_cases ht : u' ≠ 0 ∧ nd.member = m
    · rw [if_pos ht]
      refine ⟨_, rfl, Or.inr ⟨l + 1, Nat.le_refl _, A', u', B', hstop, ht.1, hmem.trans ht.2, rfl, ?_, hA', ?_⟩⟩
      · have : ¬ A'.length = 0 := fun h0 => ht.1 (hz.2 h0)
        omega
      · intro i' h1 h2; omega
    · rw [if_neg ht]
      have hno : NoHit sl c k m (l + 1) := by
        intro A2 u2 B2 h2
        obtain ⟨-, rfl, -⟩ := hstop.unique h2
        rw [hmem]; exact ht
      have hu'' : above sl.heap l u' = true := by
        simp only [above, decide_eq_true_eq] at hu' ⊢
        omega
      obtain ⟨r, hr, hcase⟩ := ih A' u' B'' hsplit' hu'' hA'
      refine ⟨r, hr, ?_⟩
      rcases hcase with ⟨h0, hall⟩ | ⟨i, hi, A2, u2, B2, hs2, hne, hm2, hr2, h1, hk2, hab⟩
      · refine Or.inl ⟨h0, ?_⟩
        intro i hi
        by_cases hil : i ≤ l
        · exact hall i hil
        · obtain rfl : i = l + 1 := by omega
          exact hno
      · refine Or.inr ⟨i, by omega, A2, u2, B2, hs2, hne, hm2, hr2, h1, hk2, ?_⟩
        intro i' h1' h2'
        by_cases hil : i' ≤ l
        · exact hab i' h1' hil
        · obtain rfl : i' = l + 1 := by omega
          exact hno

/-- what `getRank` computes in general (`k` = number of nodes with `(score, member) ≤ (s, m)`): the position of the
    stopping node of the highest level on which that node is not the header and has member `m`; 0 if no level has
    such a stopping node -/
theorem getRank_char {sl : SL} {c : List Nat} (hc : IsChain sl c) (m : Bytes) (s : F64) :
    ∃ r, getRank sl m s = .ok r ∧
      ((r = 0 ∧ ∀ i, i < sl.level → NoHit sl c ((c.map (itemAt sl.heap)).takeWhile (rankP m s)).length m i) ∨
       (∃ i, i < sl.level ∧ ∃ A u B, Stop sl c ((c.map (itemAt sl.heap)).takeWhile (rankP m s)).length i A u B ∧
          u ≠ 0 ∧ (itemAt sl.heap u).2 = m ∧ r = (A.length : Int) ∧ 1 ≤ A.length ∧
          A.length ≤ ((c.map (itemAt sl.heap)).takeWhile (rankP m s)).length ∧
          ∀ i', i < i' → i' < sl.level →
            NoHit sl c ((c.map (itemAt sl.heap)).takeWhile (rankP m s)).length m i')) := by
  unfold getRank
  obtain ⟨l, hl⟩ : ∃ l, sl.level = l + 1 := ⟨sl.level - 1, by have := hc.levelLo; omega⟩
  rw [hl]
  obtain ⟨r, hr, hcase⟩ := getRankLoop_char hc m s _ (condUpTo_rank hc m s) l [] 0 c rfl (by
    simp only [above, decide_eq_true_eq]; rw [hc.header]; have := hc.levelHi; omega) (by simp)
  refine ⟨r, by simpa using hr, ?_⟩
  rcases hcase with ⟨h0, hall⟩ | ⟨i, hi, A2, u2, B2, hs2, hne, hm2, hr2, h1, hk2, hab⟩
  · exact Or.inl ⟨h0, fun i hi => hall i (by omega)⟩
  · exact Or.inr ⟨i, by omega, A2, u2, B2, hs2, hne, hm2, hr2, h1, hk2, fun i' a b => hab i' a (by omega)⟩

/-- under the invariant `getRank` never panics, never runs out of fuel, and returns a value in `0..length` -/
theorem getRank_ok {sl : SL} (h : Inv sl) (m : Bytes) (s : F64) :
    ∃ r, getRank sl m s = .ok r ∧ 0 ≤ r ∧ r ≤ sl.length := by
  obtain ⟨c, hc⟩ := h
  have hk : ((c.map (itemAt sl.heap)).takeWhile (rankP m s)).length ≤ c.length := by
    have := (List.takeWhile_prefix (rankP m s) (l := c.map (itemAt sl.heap))).length_le; simpa using this
  obtain ⟨r, hr, hcase⟩ := getRank_char hc m s
  refine ⟨r, hr, ?_⟩
  rw [hc.length]
  rcases hcase with ⟨h0, -⟩ | ⟨i, -, A, u, B, -, -, -, hrA, h1, hAk, -⟩
  · omega
  · omega

end NodisVerif.Skiplist
