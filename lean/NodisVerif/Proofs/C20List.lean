import NodisVerif.Proofs.C20Key2
/-
  C20, lists: LPush/RPush, LPop/RPop, LInsert, LPushX/RPushX, LRem, LSet, LTrim.  Every record is
  the command itself with its arguments; the replica, showing the same list, runs the same
  transaction.
-/
namespace NodisVerif.Proofs.C20
open NodisVerif NodisVerif.Store NodisVerif.Spec.Persist NodisVerif.Proofs.C11

variable {now : Int} {p r : MState}

/-! ### the generic "replica runs the same transaction" lemma -/

/-- the transaction emits nothing and changes nothing, or emits one record that makes the replica
    run the same transaction -/
def SelfOp (now : Int) (f : TxForm) (L : Option (Val × Int)) : Prop :=
  (f.ops L = [] ∧ f.post now L = L) ∨
  ∃ op, f.ops L = [op] ∧ ∀ r0, Feed.applyOp r0 now op = some (f.run r0 now).1

theorem selfOp_main (hs : Same now p r) (hl : p.listeners = true) (hfd : p.feed = [])
    (c : Feed.CallInfo) (hc : plainMethod c.method = true) (f : TxForm) (hf : f.OK) (hns : f.NilSafe)
    (hop : ∀ L, Live now L → (∀ e, L ≠ some (.strNil, e)) → SelfOp now f L) :
    Replay now r c (f.run p now) := by
  refine oneOp_main hs hl hfd c f hf hns ?_
  intro L h1 h2
  unfold OneOp
  rw [emission_plain hc]
  rcases hop L h1 h2 with h | ⟨op, h3, h4⟩
  · left; exact h
  · right; exact ⟨op, f, h3, hf, rfl, h4, rfl⟩

/-- nothing to do when the key is missing and the transaction has no constructor -/
theorem selfOp_miss {f : TxForm} (h : f.ctor = none) : SelfOp now f none := by
  left; simp [TxForm.ops, TxForm.post, TxForm.spec, txSpec, h]

/-- nothing to do when the transaction only replies -/
theorem selfOp_keep {f : TxForm} {v : Val} {e : Int} {o : Out} (h : f.dec v e = .keep o) :
    SelfOp now f (some (v, e)) := by
  left; simp [TxForm.ops, TxForm.post, TxForm.spec, txSpec, h, Act.ops, Act.eff]

/-! ### bounded elements -/

theorem insertAt_mem (pivot data : Bytes) (before : Bool) : ∀ (xs ys : List Bytes),
    DsList.insertAt xs pivot data before = some ys → ∀ y ∈ ys, y = data ∨ y ∈ xs := by
  intro xs
  induction xs with
  | nil => intro ys h; cases h
  | cons x rest ih =>
    intro ys h y hy
    unfold DsList.insertAt at h
    split at h
    · simp only [Option.some.injEq] at h; subst h
      cases before
      · simp only [Bool.false_eq_true, if_false, List.mem_cons] at hy ⊢
        rcases hy with h1 | h1 | h1
        · right; left; exact h1
        · left; exact h1
        · right; right; exact h1
      · simp only [if_true, List.mem_cons] at hy ⊢
        exact hy
    · simp only [Option.map_eq_some_iff] at h
      obtain ⟨zs, hz, rfl⟩ := h
      simp only [List.mem_cons] at hy ⊢
      rcases hy with rfl | hy
      · right; left; rfl
      · rcases ih zs hz y hy with h1 | h1
        · left; exact h1
        · right; right; exact h1

theorem removeFirst_mem (v : Bytes) : ∀ (k : Nat) (xs : List Bytes), ∀ y ∈ (DsList.removeFirst xs v k).1, y ∈ xs := by
  intro k xs
  induction xs generalizing k with
  | nil => intro y hy; cases k <;> simp [DsList.removeFirst] at hy
  | cons x rest ih =>
    intro y hy
    cases k with
    | zero => simpa [DsList.removeFirst] using hy
    | succ k =>
      simp only [DsList.removeFirst] at hy
      split at hy
      · exact List.mem_cons_of_mem _ (ih k y hy)
      · simp only [List.mem_cons] at hy ⊢
        rcases hy with rfl | hy
        · left; rfl
        · right; exact ih (k + 1) y hy

theorem lrem_mem (l : LList) (count : Int) (v : Bytes) : ∀ y ∈ (DsList.lrem l count v).1.items, y ∈ l.items := by
  intro y hy
  unfold DsList.lrem at hy
  split at hy
  · exact removeFirst_mem v _ _ y hy
  · split at hy
    · simp only [List.mem_reverse] at hy
      exact List.mem_reverse.mp (removeFirst_mem v _ _ y hy)
    · exact (List.mem_filter.mp hy).1

theorem ltrim_mem (l : LList) (start stop : Int) : ∀ y ∈ (DsList.ltrim l start stop).items, y ∈ l.items := by
  intro y hy
  unfold DsList.ltrim at hy
  simp only [List.mem_map] at hy
  obtain ⟨⟨a, i⟩, h1, rfl⟩ := hy
  have := (List.mem_filter.mp h1).1
  obtain ⟨_, h3, h4⟩ := List.mem_zipIdx this
  simp only at h4 ⊢
  rw [h4]; exact List.getElem_mem _

theorem good_linsert (l : LList) (pivot data : Bytes) (before : Bool) (hg : Good (.list l))
    (hb : data.length < 2 ^ 63) : Good (.list (DsList.linsert l pivot data before).1) := by
  obtain ⟨hw, hbd⟩ := hg
  refine ⟨C02.linsert_wf l hw pivot data before, ?_⟩
  unfold DsList.linsert
  split
  · exact hbd
  · rename_i xs hx
    intro y hy
    rcases insertAt_mem pivot data before _ _ hx y hy with rfl | h1
    · exact hb
    · exact hbd y h1

theorem good_lrem (l : LList) (count : Int) (v : Bytes) (hg : Good (.list l)) :
    Good (.list (DsList.lrem l count v).1) :=
  ⟨C02.lrem_wf l hg.1 count v, fun y hy => hg.2 y (lrem_mem l count v y hy)⟩

theorem good_ltrim (l : LList) (start stop : Int) (hg : Good (.list l)) :
    Good (.list (DsList.ltrim l start stop)) :=
  ⟨C02.ltrim_wf l hg.1 start stop, fun y hy => hg.2 y (ltrim_mem l start stop y hy)⟩

theorem good_lset (l : LList) (i : Int) (data : Bytes) (hg : Good (.list l)) (hb : data.length < 2 ^ 63) :
    Good (.list (DsList.lset l i data).1) := by
  refine ⟨C02.lset_wf l hg.1 i data, ?_⟩
  unfold DsList.lset
  simp only
  generalize (if i < 0 then l.length + i else i) = j
  split
  · exact hg.2
  · intro y hy
    rcases List.mem_or_eq_of_mem_set hy with h1 | rfl
    · exact hg.2 y h1
    · exact hb

/-! ### forms -/

def pushF (now : Int) (left : Bool) (k : Bytes) (vs : List Bytes) : TxForm := (Cmd.push left k vs).form now
def popF' (now : Int) (left : Bool) (k : Bytes) (count : Int) : TxForm := (Cmd.pop left k count).form now

def decLinsert (key pivot data : Bytes) (before : Bool) (v : Val) (_ : Int) : Act :=
  match v with
  | .list l =>
    .put (some (.list (DsList.linsert l pivot data before).1)) none
      [Api.opList 11 key [Bytes.toHex pivot, Bytes.toHex data, toString before]]
      (.int (DsList.linsert l pivot data before).2)
  | _ => .keep .panic

def linsertF (key pivot data : Bytes) (before : Bool) : TxForm :=
  ⟨true, none, .int 0, Cmd.pan, decLinsert key pivot data before, key⟩

theorem linsert_eq (s : MState) (now : Int) (key pivot data : Bytes) (before : Bool) :
    Api.linsert s now key pivot data before = (linsertF key pivot data before).run s now := by
  refine Eq.trans ?_ (write_shape s now key _ _ _ (fun s0 => match Api.asList s0 key with
     | none => (s0, .panic)
     | some l =>
       (emit (signal (Api.setVal s0 key (.list (DsList.linsert l pivot data before).1)) key)
          (Api.opList 11 key [Bytes.toHex pivot, Bytes.toHex data, toString before]),
        .int (DsList.linsert l pivot data before).2)) ?_)
  · rfl
  · intro s1; simp only [Api.asList]
    cases valOf s1 key with
    | none => rfl
    | some v => cases v <;> rfl

theorem linsertF_ok (key pivot data : Bytes) (before : Bool) (hb : data.length < 2 ^ 63) :
    (linsertF key pivot data before).OK := by
  refine ⟨(fun h => nomatch h), (fun _ h => nomatch h), fun w e hg _ => ?_⟩
  cases w with
  | list l => exact ⟨(fun w hw => by cases hw; exact good_linsert l pivot data before hg hb), (fun e he => by cases he)⟩
  | _ => trivial

def decPushX (left : Bool) (key data : Bytes) (v : Val) (_ : Int) : Act :=
  match v with
  | .list l =>
    .put (some (.list (if left then DsList.lpush l [data] else DsList.rpush l [data]))) none
      [Api.opList (if left then 15 else 22) key [Bytes.toHex data]]
      (.int (DsList.llen (if left then DsList.lpush l [data] else DsList.rpush l [data])))
  | _ => .keep .panic

def pushXF (left : Bool) (key data : Bytes) : TxForm :=
  ⟨true, none, .int 0, Cmd.pan, decPushX left key data, key⟩

theorem pushX_eq (left : Bool) (s : MState) (now : Int) (key data : Bytes) :
    Api.pushX left s now key data = (pushXF left key data).run s now := by
  refine Eq.trans ?_ (write_shape s now key _ _ _ (fun s0 => match Api.asList s0 key with
     | none => (s0, .panic)
     | some l =>
       (emit (signal (Api.setVal s0 key (.list (if left then DsList.lpush l [data] else DsList.rpush l [data]))) key)
          (Api.opList (if left then 15 else 22) key [Bytes.toHex data]),
        .int (DsList.llen (if left then DsList.lpush l [data] else DsList.rpush l [data])))) ?_)
  · rfl
  · intro s1; simp only [Api.asList]
    cases valOf s1 key with
    | none => rfl
    | some v => cases v <;> rfl

theorem pushXF_ok (left : Bool) (key data : Bytes) (hb : data.length < 2 ^ 63) : (pushXF left key data).OK := by
  refine ⟨(fun h => nomatch h), (fun _ h => nomatch h), fun w e hg _ => ?_⟩
  cases w with
  | list l =>
    exact ⟨(fun w hw => by cases hw; exact good_push left l [data] hg (by simpa using hb)), (fun e he => by cases he)⟩
  | _ => trivial

def lremF' (key data : Bytes) (count : Int) : TxForm :=
  ⟨true, none, .int 0, fun s1 => (s1, .panic), decListMut (lremF key data count), key⟩

theorem lremF'_ok (key data : Bytes) (count : Int) : (lremF' key data count).OK := by
  refine ⟨(fun h => nomatch h), (fun _ h => nomatch h), fun w e hg _ => ?_⟩
  cases w with
  | list l =>
    show (decListMut (lremF key data count) (.list l) e).GoodA
    unfold decListMut
    simp only
    split
    · exact good_lrem l count data hg
    · exact ⟨(fun w hw => by cases hw; exact good_lrem l count data hg), (fun e he => by cases he)⟩
  | _ => trivial

def ltrimF' (key : Bytes) (start stop : Int) : TxForm :=
  ⟨true, none, .unit, fun s1 => (s1, .panic), decListMut (ltrimF key start stop), key⟩

theorem ltrimF'_ok (key : Bytes) (start stop : Int) : (ltrimF' key start stop).OK := by
  refine ⟨(fun h => nomatch h), (fun _ h => nomatch h), fun w e hg _ => ?_⟩
  cases w with
  | list l =>
    show (decListMut (ltrimF key start stop) (.list l) e).GoodA
    unfold decListMut
    simp only
    split
    · exact good_ltrim l start stop hg
    · exact ⟨(fun w hw => by cases hw; exact good_ltrim l start stop hg), (fun e he => by cases he)⟩
  | _ => trivial

def decLset (key : Bytes) (index : Int) (data : Bytes) (v : Val) (_ : Int) : Act :=
  match v with
  | .list l =>
    if !(DsList.lset l index data).2 then .keep (.bool false) else
    .put (some (.list (DsList.lset l index data).1)) none
      [Api.opList 17 key [toString index, Bytes.toHex data]] (.bool true)
  | _ => .keep .panic

def lsetF (key : Bytes) (index : Int) (data : Bytes) : TxForm :=
  ⟨true, none, .bool false, Cmd.pan, decLset key index data, key⟩

theorem lset_eq (s : MState) (now : Int) (key : Bytes) (index : Int) (data : Bytes) :
    Api.lset s now key index data = (lsetF key index data).run s now := by
  refine Eq.trans ?_ (write_shape s now key _ _ _ (fun s0 => match Api.asList s0 key with
     | none => (s0, .panic)
     | some l =>
       if !(DsList.lset l index data).2 then (s0, .bool false) else
       (emit (signal (Api.setVal s0 key (.list (DsList.lset l index data).1)) key)
          (Api.opList 17 key [toString index, Bytes.toHex data]), .bool true)) ?_)
  · rfl
  · intro s1; simp only [Api.asList]
    cases valOf s1 key with
    | none => rfl
    | some v =>
      cases v <;> try rfl
      rename_i l
      simp only [lsetF, decLset]
      cases (DsList.lset l index data).2 <;> rfl

theorem lsetF_ok (key : Bytes) (index : Int) (data : Bytes) (hb : data.length < 2 ^ 63) :
    (lsetF key index data).OK := by
  refine ⟨(fun h => nomatch h), (fun _ h => nomatch h), fun w e hg _ => ?_⟩
  cases w with
  | list l =>
    show (decLset key index data (.list l) e).GoodA
    unfold decLset
    simp only
    split
    · trivial
    · exact ⟨(fun w hw => by cases hw; exact good_lset l index data hg hb), (fun e he => by cases he)⟩
  | _ => trivial

/-! ### main theorems -/

theorem push_replay (hs : Same now p r) (hl : p.listeners = true) (hfd : p.feed = [])
    (c : Feed.CallInfo) (hc : plainMethod c.method = true) (left : Bool) (k : Bytes) (vs : List Bytes)
    (hvs : ∀ v ∈ vs, v.length < 2 ^ 63) :
    Replay now r c (Api.push left p now k vs) := by
  rw [push_eq]
  have hap : ∀ r0, Feed.applyOp r0 now (Api.opList (if left then 14 else 21) k (vs.map Bytes.toHex)) =
      some ((pushF now left k vs).run r0 now).1 := by
    intro r0
    have h2 : ∀ s, Api.push left s now k vs = (pushF now left k vs).run s now := fun s => push_eq left s now k vs
    cases left <;> simp [Feed.applyOp, Api.opList, ← h2]
  refine selfOp_main hs hl hfd c hc (pushF now left k vs) (Cmd.ok (.push left k vs) now hvs)
    (Cmd.nilSafe (.push left k vs) now trivial) ?_
  intro L _ _
  cases L with
  | none => right; exact ⟨_, by simp [TxForm.ops, pushF, Cmd.form, decPush, Act.ops], hap⟩
  | some cc =>
    obtain ⟨v, e⟩ := cc
    cases v with
    | list l => right; exact ⟨_, by simp [TxForm.ops, pushF, Cmd.form, decPush, Act.ops], hap⟩
    | _ => exact selfOp_keep rfl

theorem pop_replay (hs : Same now p r) (hl : p.listeners = true) (hfd : p.feed = [])
    (c : Feed.CallInfo) (hc : plainMethod c.method = true) (left : Bool) (k : Bytes) (count : Int) :
    Replay now r c (Api.pop left p now k count) := by
  rw [pop_eq]
  have hap : ∀ r0, Feed.applyOp r0 now (Api.opList (if left then 12 else 19) k [toString count]) =
      some ((popF' now left k count).run r0 now).1 := by
    intro r0
    have h2 : ∀ s, Api.pop left s now k count = (popF' now left k count).run s now := fun s => pop_eq left s now k count
    cases left <;> simp [Feed.applyOp, Api.opList, ← h2]
  refine selfOp_main hs hl hfd c hc (popF' now left k count) (Cmd.ok (.pop left k count) now trivial)
    (Cmd.nilSafe (.pop left k count) now trivial) ?_
  intro L _ _
  cases L with
  | none => exact selfOp_miss rfl
  | some cc =>
    obtain ⟨v, e⟩ := cc
    cases v with
    | list l =>
      right
      refine ⟨_, ?_, hap⟩
      simp only [TxForm.ops, popF', Cmd.form, decListMut]
      split <;> rfl
    | _ => exact selfOp_keep rfl

theorem linsertF_nilSafe (key pivot data : Bytes) (before : Bool) : (linsertF key pivot data before).NilSafe := by
  apply nilSafe_of
  · intro v e hv; cases v <;> simp_all [linsertF, decLinsert]
  · intro v0 h0; cases h0

theorem linsert_replay (hs : Same now p r) (hl : p.listeners = true) (hfd : p.feed = [])
    (c : Feed.CallInfo) (hc : plainMethod c.method = true) (k pivot data : Bytes) (before : Bool)
    (hb : data.length < 2 ^ 63) :
    Replay now r c (Api.linsert p now k pivot data before) := by
  rw [linsert_eq]
  have hap : ∀ r0, Feed.applyOp r0 now (Api.opList 11 k [Bytes.toHex pivot, Bytes.toHex data, toString before]) =
      some ((linsertF k pivot data before).run r0 now).1 := by
    intro r0
    simp [Feed.applyOp, Api.opList, pB_toHex, pT_toString, ← linsert_eq]
  refine selfOp_main hs hl hfd c hc _ (linsertF_ok k pivot data before hb) (linsertF_nilSafe k pivot data before) ?_
  intro L _ _
  cases L with
  | none => exact selfOp_miss rfl
  | some cc =>
    obtain ⟨v, e⟩ := cc
    cases v with
    | list l => right; exact ⟨_, rfl, hap⟩
    | _ => exact selfOp_keep rfl

theorem pushXF_nilSafe (left : Bool) (key data : Bytes) : (pushXF left key data).NilSafe := by
  apply nilSafe_of
  · intro v e hv; cases v <;> simp_all [pushXF, decPushX]
  · intro v0 h0; cases h0

theorem pushX_replay (hs : Same now p r) (hl : p.listeners = true) (hfd : p.feed = [])
    (c : Feed.CallInfo) (hc : plainMethod c.method = true) (left : Bool) (k data : Bytes)
    (hb : data.length < 2 ^ 63) :
    Replay now r c (Api.pushX left p now k data) := by
  rw [pushX_eq]
  have hap : ∀ r0, Feed.applyOp r0 now (Api.opList (if left then 15 else 22) k [Bytes.toHex data]) =
      some ((pushXF left k data).run r0 now).1 := by
    intro r0
    cases left <;> simp [Feed.applyOp, Api.opList, pB_toHex, ← pushX_eq]
  refine selfOp_main hs hl hfd c hc _ (pushXF_ok left k data hb) (pushXF_nilSafe left k data) ?_
  intro L _ _
  cases L with
  | none => exact selfOp_miss rfl
  | some cc =>
    obtain ⟨v, e⟩ := cc
    cases v with
    | list l => right; exact ⟨_, rfl, hap⟩
    | _ => exact selfOp_keep rfl

theorem listMut_nilSafe (f : LList → LList × List FeedOp × Out) (miss : Out) (nov : MState → Api.R) (key : Bytes) :
    (⟨true, none, miss, nov, decListMut f, key⟩ : TxForm).NilSafe := by
  apply nilSafe_of
  · intro v e hv
    cases v <;> simp_all [decListMut]
  · intro v0 h0; cases h0

theorem lrem_replay (hs : Same now p r) (hl : p.listeners = true) (hfd : p.feed = [])
    (c : Feed.CallInfo) (hc : plainMethod c.method = true) (k data : Bytes) (count : Int) :
    Replay now r c (Api.lrem p now k data count) := by
  rw [show Api.lrem p now k data count = (lremF' k data count).run p now from lrem_eq p now k data count]
  have hap : ∀ r0, Feed.applyOp r0 now (Api.opList 16 k [Bytes.toHex data, toString count]) =
      some ((lremF' k data count).run r0 now).1 := by
    intro r0
    have h2 : ∀ s, Api.lrem s now k data count = (lremF' k data count).run s now := fun s => lrem_eq s now k data count
    simp [Feed.applyOp, Api.opList, pB_toHex, ← h2]
  refine selfOp_main hs hl hfd c hc _ (lremF'_ok k data count) (listMut_nilSafe _ _ _ _) ?_
  intro L _ _
  cases L with
  | none => exact selfOp_miss rfl
  | some cc =>
    obtain ⟨v, e⟩ := cc
    cases v with
    | list l =>
      right
      refine ⟨_, ?_, hap⟩
      simp only [TxForm.ops, lremF', decListMut]
      split <;> rfl
    | _ => exact selfOp_keep rfl

theorem ltrim_replay (hs : Same now p r) (hl : p.listeners = true) (hfd : p.feed = [])
    (c : Feed.CallInfo) (hc : plainMethod c.method = true) (k : Bytes) (start stop : Int) :
    Replay now r c (Api.ltrim p now k start stop) := by
  rw [show Api.ltrim p now k start stop = (ltrimF' k start stop).run p now from ltrim_eq p now k start stop]
  have hap : ∀ r0, Feed.applyOp r0 now (Api.opList 18 k [toString start, toString stop]) =
      some ((ltrimF' k start stop).run r0 now).1 := by
    intro r0
    have h2 : ∀ s, Api.ltrim s now k start stop = (ltrimF' k start stop).run s now :=
      fun s => ltrim_eq s now k start stop
    simp [Feed.applyOp, Api.opList, ← h2]
  refine selfOp_main hs hl hfd c hc _ (ltrimF'_ok k start stop) (listMut_nilSafe _ _ _ _) ?_
  intro L _ _
  cases L with
  | none => exact selfOp_miss rfl
  | some cc =>
    obtain ⟨v, e⟩ := cc
    cases v with
    | list l =>
      right
      refine ⟨_, ?_, hap⟩
      simp only [TxForm.ops, ltrimF', decListMut]
      split <;> rfl
    | _ => exact selfOp_keep rfl

theorem lsetF_nilSafe (key : Bytes) (index : Int) (data : Bytes) : (lsetF key index data).NilSafe := by
  apply nilSafe_of
  · intro v e hv
    cases v <;> simp_all [lsetF, decLset]
  · intro v0 h0; cases h0

theorem lset_replay (hs : Same now p r) (hl : p.listeners = true) (hfd : p.feed = [])
    (c : Feed.CallInfo) (hc : plainMethod c.method = true) (k : Bytes) (index : Int) (data : Bytes)
    (hb : data.length < 2 ^ 63) :
    Replay now r c (Api.lset p now k index data) := by
  rw [lset_eq]
  have hap : ∀ r0, Feed.applyOp r0 now (Api.opList 17 k [toString index, Bytes.toHex data]) =
      some ((lsetF k index data).run r0 now).1 := by
    intro r0
    simp [Feed.applyOp, Api.opList, pB_toHex, ← lset_eq]
  refine selfOp_main hs hl hfd c hc _ (lsetF_ok k index data hb) (lsetF_nilSafe k index data) ?_
  intro L _ _
  cases L with
  | none => exact selfOp_miss rfl
  | some cc =>
    obtain ⟨v, e⟩ := cc
    cases v with
    | list l =>
      by_cases hr : (DsList.lset l index data).2 = true
      · right
        refine ⟨_, ?_, hap⟩
        simp [TxForm.ops, lsetF, decLset, hr, Act.ops]
      · exact selfOp_keep (o := .bool false) (by simp [lsetF, decLset, hr])
    | _ => exact selfOp_keep rfl

end NodisVerif.Proofs.C20
