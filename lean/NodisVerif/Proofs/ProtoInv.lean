import NodisVerif.Proofs.ProtoStep
/-
  Locking protocol: the invariant of all reachable states (lock compatibility, record names,
  registrations, the ordering rule for waiting) and its preservation by every step.
-/
namespace NodisVerif.Proofs.Proto
open NodisVerif.Proto

structure Inv (s : PState) : Prop where
  /-- a transaction id is active at most once -/
  txNodup : NodupKeys s.txs
  /-- a transaction has at most one hold per record -/
  holdNodup : ∀ t st, s.tx t = some st → NodupRids st.holds
  /-- two holds of different transactions on one record are both read holds -/
  compat : ∀ t u st su h g, s.tx t = some st → s.tx u = some su → h ∈ st.holds → g ∈ su.holds →
      h.rid = g.rid → (h.mode = .w ∨ g.mode = .w) → t = u
  /-- a hold carries the name of its record -/
  holdName : ∀ t st h, s.tx t = some st → h ∈ st.holds → assoc s.names h.rid = some h.key
  /-- a record is registered under its name only -/
  idxName : ∀ k r, assoc s.index k = some r → assoc s.names r = some k
  pendName : ∀ k r, assoc s.pending k = some r → assoc s.names r = some k
  /-- a key is never in the index and in `pending` at the same time -/
  disjoint : ∀ k r, assoc s.index k = some r → assoc s.pending k = none
  /-- a blocked transaction obeyed the ordering rule, has not begun its commit, waits for a record
      under its name, and does not hold that record -/
  waitOk : ∀ t st k r m, s.tx t = some st → st.waiting = some (k, r, m) →
      st.mayWait k = true ∧ st.committing = false ∧ assoc s.names r = some k ∧ st.holdOf r = none

theorem Inv.init : Inv {} where
  txNodup := by simp [NodupKeys]
  holdNodup := by intro t st h; simp [PState.tx, assoc] at h
  compat := by intro t u st su h g h1; simp [PState.tx, assoc] at h1
  holdName := by intro t st h h1; simp [PState.tx, assoc] at h1
  idxName := by intro k r h; simp [assoc] at h
  pendName := by intro k r h; simp [assoc] at h
  disjoint := by intro k r h; simp [assoc] at h
  waitOk := by intro t st k r m h1; simp [PState.tx, assoc] at h1

/-- replace (or add) the state of one transaction; index, pending, names untouched -/
theorem Inv.setTx {s : PState} (hi : Inv s) (t : Tx) (st' : TxSt)
    (hn : NodupRids st'.holds)
    (hc : ∀ h ∈ st'.holds, ∀ u su g, u ≠ t → s.tx u = some su → g ∈ su.holds → h.rid = g.rid →
      h.mode = .r ∧ g.mode = .r)
    (hname : ∀ h ∈ st'.holds, assoc s.names h.rid = some h.key)
    (hw : ∀ k r m, st'.waiting = some (k, r, m) →
      st'.mayWait k = true ∧ st'.committing = false ∧ assoc s.names r = some k ∧ st'.holdOf r = none) :
    Inv (s.setTx t st') where
  txNodup := nodupKeys_put hi.txNodup t st'
  holdNodup := by
    intro u su hu
    rw [tx_setTx] at hu
    split at hu
    · cases hu; exact hn
    · exact hi.holdNodup u su hu
  compat := by
    intro u v su sv h g hu hv hh hg e hm
    rw [tx_setTx] at hu hv
    by_cases h1 : u = t <;> by_cases h2 : v = t
    · rw [h1, h2]
    · rw [if_pos h1] at hu; rw [if_neg h2] at hv; cases hu
      have := hc h hh v sv g h2 hv hg e
      rcases hm with hm | hm <;> simp [this] at hm
    · rw [if_neg h1] at hu; rw [if_pos h2] at hv; cases hv
      have := hc g hg u su h h1 hu hh e.symm
      rcases hm with hm | hm <;> simp [this] at hm
    · rw [if_neg h1] at hu; rw [if_neg h2] at hv
      exact hi.compat u v su sv h g hu hv hh hg e hm
  holdName := by
    intro u su h hu hh
    rw [tx_setTx] at hu
    split at hu
    · cases hu; exact hname h hh
    · exact hi.holdName u su h hu hh
  idxName := hi.idxName
  pendName := hi.pendName
  disjoint := hi.disjoint
  waitOk := by
    intro u su k r m hu hwt
    rw [tx_setTx] at hu
    split at hu
    · cases hu; exact hw k r m hwt
    · exact hi.waitOk u su k r m hu hwt

/-- change the registrations; transactions and names untouched -/
theorem Inv.regs {s : PState} (hi : Inv s) (index' pending' : List (Key × Rec))
    (h1 : ∀ k r, assoc index' k = some r → assoc s.names r = some k)
    (h2 : ∀ k r, assoc pending' k = some r → assoc s.names r = some k)
    (h3 : ∀ k r, assoc index' k = some r → assoc pending' k = none) :
    Inv { s with index := index', pending := pending' } where
  txNodup := hi.txNodup
  holdNodup := hi.holdNodup
  compat := hi.compat
  holdName := hi.holdName
  idxName := h1
  pendName := h2
  disjoint := h3
  waitOk := hi.waitOk

/-- a fresh record named `k` is registered in `pending` -/
theorem Inv.claimReg {s : PState} (hi : Inv s) (k : Key) (r : Rec)
    (hl : s.lookup k = none) (hf : assoc s.names r = none) :
    Inv { s with pending := put s.pending k r, names := (r, k) :: s.names } := by
  have mono : ∀ x y, assoc s.names x = some y → assoc ((r, k) :: s.names) x = some y := by
    intro x y h
    rw [assoc_cons]
    have : ¬ r = x := by intro c; subst c; rw [hf] at h; cases h
    simp [this, h]
  have hidx : assoc s.index k = none := by
    unfold PState.lookup at hl
    cases h : assoc s.index k with
    | none => rfl
    | some x => simp [h] at hl
  exact {
    txNodup := hi.txNodup
    holdNodup := hi.holdNodup
    compat := hi.compat
    holdName := fun t st h h1 h2 => mono _ _ (hi.holdName t st h h1 h2)
    idxName := fun k' r' h => mono _ _ (hi.idxName k' r' h)
    pendName := by
      intro k' r' h
      simp only [assoc_put] at h
      split at h
      · cases h; subst_vars; simp [assoc_cons]
      · exact mono _ _ (hi.pendName k' r' h)
    disjoint := by
      intro k' r' h
      simp only [assoc_put]
      split
      · subst_vars; simp [hidx] at h
      · exact hi.disjoint k' r' h
    waitOk := by
      intro t st k' r' m h1 h2
      obtain ⟨a, b, c, d⟩ := hi.waitOk t st k' r' m h1 h2
      exact ⟨a, b, mono _ _ c, d⟩ }

theorem Inv.fin {s : PState} (hi : Inv s) (t : Tx) : Inv { s with txs := erase s.txs t } := by
  have htx : ∀ u su, PState.tx { s with txs := erase s.txs t } u = some su → s.tx u = some su := by
    intro u su h
    simp only [PState.tx, assoc_erase] at h
    split at h
    · cases h
    · exact h
  exact {
    txNodup := nodupKeys_erase hi.txNodup t
    holdNodup := fun u su h => hi.holdNodup u su (htx u su h)
    compat := fun u v su sv h g hu hv => hi.compat u v su sv h g (htx _ _ hu) (htx _ _ hv)
    holdName := fun u su h hu => hi.holdName u su h (htx _ _ hu)
    idxName := hi.idxName
    pendName := hi.pendName
    disjoint := hi.disjoint
    waitOk := fun u su k r m hu => hi.waitOk u su k r m (htx _ _ hu) }

theorem lookup_none {s : PState} {k : Key} (h : s.lookup k = none) :
    assoc s.index k = none ∧ assoc s.pending k = none := by
  unfold PState.lookup at h
  cases h1 : assoc s.index k with
  | none => simpa [h1] using h
  | some x => simp [h1] at h

theorem mayWait_iff {st : TxSt} {k : Key} : st.mayWait k = true ↔ ∀ h ∈ st.holds, h.key < k := by
  simp [TxSt.mayWait]

/-- the invariant is preserved by every step -/
theorem Inv.step {s s' : PState} {e : Ev} (hi : Inv s) (hs : Proto.step s e = some s') : Inv s' := by
  cases e with
  | begin t =>
    obtain ⟨h1, rfl⟩ := step_begin.1 hs
    refine hi.setTx t {} (by simp [NodupRids]) ?_ ?_ ?_
    · intro h hh; cases hh
    · intro h hh; cases hh
    · intro k r m hw; cases hw
  | look t k r =>
    obtain ⟨st, _, _, _, _, rfl⟩ := step_look.1 hs
    exact hi
  | claim t k r m =>
    obtain ⟨st, htx, hc, hw, hl, hf, rfl⟩ := step_claim.1 hs
    have hi1 := hi.claimReg k r hl hf
    have hfresh : ∀ u su g, s.tx u = some su → g ∈ su.holds → g.rid ≠ r := by
      intro u su g hu hg c
      have := hi.holdName u su g hu hg
      rw [c, hf] at this; cases this
    refine hi1.setTx t _ (nodupRids_setHold (hi.holdNodup t st htx) _) ?_ ?_ ?_
    · intro h hh u su g hut hu hg e
      rcases mem_setHold.1 hh with rfl | ⟨hh, _⟩
      · exact absurd e.symm (hfresh u su g hu hg)
      · have hu' : s.tx u = some su := hu
        refine ⟨?_, ?_⟩
        · cases hm : h.mode with
          | r => rfl
          | w => exact absurd (hi.compat t u st su h g htx hu' hh hg e (Or.inl hm)).symm hut
        · cases hm : g.mode with
          | r => rfl
          | w => exact absurd (hi.compat t u st su h g htx hu' hh hg e (Or.inr hm)).symm hut
    · intro h hh
      rcases mem_setHold.1 hh with rfl | ⟨hh, _⟩
      · simp [assoc_cons]
      · exact hi1.holdName t st h htx hh
    · intro k' r' m' hw'
      rw [setHold_waiting, hw] at hw'; cases hw'
  | wait t k r m =>
    obtain ⟨st, htx, hc, hw, hn, hh, hm, rfl⟩ := step_wait.1 hs
    refine hi.setTx t _ (hi.holdNodup t st htx) ?_ (fun h hh => hi.holdName t st h htx hh) ?_
    · intro h hh u su g hut hu hg e
      refine ⟨?_, ?_⟩
      · cases hm : h.mode with
        | r => rfl
        | w => exact absurd (hi.compat t u st su h g htx hu hh hg e (Or.inl hm)).symm hut
      · cases hm : g.mode with
        | r => rfl
        | w => exact absurd (hi.compat t u st su h g htx hu hh hg e (Or.inr hm)).symm hut
    · intro k' r' m' hw'
      simp only [Option.some.injEq, Prod.mk.injEq] at hw'
      obtain ⟨rfl, rfl, rfl⟩ := hw'
      exact ⟨hm, hc, hn, hh⟩
  | lock t k r m =>
    obtain ⟨st, htx, hw, hf, rfl⟩ := step_lock.1 hs
    obtain ⟨_, hc, hn, _⟩ := hi.waitOk t st k r m htx hw
    refine hi.setTx t _ (nodupRids_setHold (hi.holdNodup t st htx) _) ?_ ?_ ?_
    · intro h hh u su g hut hu hg e
      rcases mem_setHold.1 hh with rfl | ⟨hh, _⟩
      · cases m with
        | w => exact absurd e.symm (free_w_holds hf ⟨su, hu, hg⟩)
        | r => exact ⟨rfl, free_r_holds hf ⟨su, hu, hg⟩ e.symm⟩
      · refine ⟨?_, ?_⟩
        · cases hm : h.mode with
          | r => rfl
          | w => exact absurd (hi.compat t u st su h g htx hu hh hg e (Or.inl hm)).symm hut
        · cases hm : g.mode with
          | r => rfl
          | w => exact absurd (hi.compat t u st su h g htx hu hh hg e (Or.inr hm)).symm hut
    · intro h hh
      rcases mem_setHold.1 hh with rfl | ⟨hh, _⟩
      · exact hn
      · exact hi.holdName t st h htx hh
    · intro k' r' m' hw'
      simp at hw'
  | valid t k r ok =>
    obtain ⟨st, h0, htx, hh0, hv, hk, ⟨_, rfl⟩ | ⟨_, hl, rfl⟩⟩ := step_valid.1 hs
    · exact hi
    · obtain ⟨hm0, hr0⟩ := holdOf_some hh0
      refine hi.setTx t _ (nodupRids_setHold (hi.holdNodup t st htx) _) ?_ ?_ ?_
      · intro h hh u su g hut hu hg e
        have key : ∀ h' ∈ st.holds, h'.rid = g.rid → h'.mode = .r ∧ g.mode = .r := by
          intro h' hh' e'
          refine ⟨?_, ?_⟩
          · cases hm : h'.mode with
            | r => rfl
            | w => exact absurd (hi.compat t u st su h' g htx hu hh' hg e' (Or.inl hm)).symm hut
          · cases hm : g.mode with
            | r => rfl
            | w => exact absurd (hi.compat t u st su h' g htx hu hh' hg e' (Or.inr hm)).symm hut
        rcases mem_setHold.1 hh with rfl | ⟨hh, _⟩
        · exact key h0 hm0 e
        · exact key h hh e
      · intro h hh
        rcases mem_setHold.1 hh with rfl | ⟨hh, _⟩
        · exact hi.holdName t st h0 htx hm0
        · exact hi.holdName t st h htx hh
      · intro k' r' m' hw'
        rw [setHold_waiting] at hw'
        obtain ⟨a, b, c, d⟩ := hi.waitOk t st k' r' m' htx hw'
        refine ⟨?_, b, c, ?_⟩
        · rw [mayWait_iff] at a ⊢
          intro h hh
          rcases mem_setHold.1 hh with rfl | ⟨hh, _⟩
          · exact a h0 hm0
          · exact a h hh
        · rw [holdOf_none] at d ⊢
          intro h hh
          rcases mem_setHold.1 hh with rfl | ⟨hh, _⟩
          · exact d h0 hm0
          · exact d h hh
  | publish t k r =>
    obtain ⟨st, h, htx, hh, hv, hm, hk, hc, hp, hx, rfl⟩ := step_publish.1 hs
    refine hi.regs _ _ ?_ ?_ ?_
    · intro k' r' h'
      rw [assoc_put] at h'
      split at h'
      · cases h'; subst_vars; exact hi.pendName _ _ hp
      · exact hi.idxName k' r' h'
    · intro k' r' h'
      rw [assoc_erase] at h'
      split at h'
      · cases h'
      · exact hi.pendName k' r' h'
    · intro k' r' h'
      rw [assoc_erase]
      rw [assoc_put] at h'
      split
      · rfl
      · rename_i hne; rw [if_neg hne] at h'; exact hi.disjoint k' r' h'
  | unlink t k r =>
    obtain ⟨st, h, htx, hh, hv, hm, hk, hc, hx, rfl⟩ := step_unlink.1 hs
    refine hi.regs _ _ ?_ hi.pendName ?_
    · intro k' r' h'
      rw [assoc_erase] at h'
      split at h'
      · cases h'
      · exact hi.idxName k' r' h'
    · intro k' r' h'
      rw [assoc_erase] at h'
      split at h'
      · cases h'
      · exact hi.disjoint k' r' h'
  | commit t =>
    obtain ⟨st, htx, hc, hw, hv, rfl⟩ := step_commit.1 hs
    refine hi.setTx t _ (hi.holdNodup t st htx) ?_ (fun h hh => hi.holdName t st h htx hh) ?_
    · intro h hh u su g hut hu hg e
      refine ⟨?_, ?_⟩
      · cases hm : h.mode with
        | r => rfl
        | w => exact absurd (hi.compat t u st su h g htx hu hh hg e (Or.inl hm)).symm hut
      · cases hm : g.mode with
        | r => rfl
        | w => exact absurd (hi.compat t u st su h g htx hu hh hg e (Or.inr hm)).symm hut
    · intro k' r' m' hw'
      rw [hw] at hw'; cases hw'
  | trylock t k r =>
    obtain ⟨st, htx, hc, hn, hf, rfl⟩ := step_trylock.1 hs
    refine hi.setTx t _ (nodupRids_setHold (hi.holdNodup t st htx) _) ?_ ?_ ?_
    · intro h hh u su g hut hu hg e
      rcases mem_setHold.1 hh with rfl | ⟨hh, _⟩
      · exact absurd e.symm (free_w_holds hf ⟨su, hu, hg⟩)
      · refine ⟨?_, ?_⟩
        · cases hm : h.mode with
          | r => rfl
          | w => exact absurd (hi.compat t u st su h g htx hu hh hg e (Or.inl hm)).symm hut
        · cases hm : g.mode with
          | r => rfl
          | w => exact absurd (hi.compat t u st su h g htx hu hh hg e (Or.inr hm)).symm hut
    · intro h hh
      rcases mem_setHold.1 hh with rfl | ⟨hh, _⟩
      · exact hn
      · exact hi.holdName t st h htx hh
    · intro k' r' m' hw'
      rw [setHold_waiting] at hw'
      have := (hi.waitOk t st k' r' m' htx hw').2.1
      rw [hc] at this; cases this
  | drop t k r =>
    obtain ⟨st, h, htx, hh, hc, hm, hk, hp, rfl⟩ := step_drop.1 hs
    refine hi.regs _ _ hi.idxName ?_ ?_
    · intro k' r' h'
      rw [assoc_erase] at h'
      split at h'
      · cases h'
      · exact hi.pendName k' r' h'
    · intro k' r' h'
      rw [assoc_erase]
      split
      · rfl
      · exact hi.disjoint k' r' h'
  | unlock t r =>
    obtain ⟨st, h0, htx, hh0, hc, rfl⟩ := step_unlock.1 hs
    refine hi.setTx t _ (nodupRids_delHold (hi.holdNodup t st htx) _) ?_ ?_ ?_
    · intro h hh u su g hut hu hg e
      have hh := (mem_delHold.1 hh).1
      refine ⟨?_, ?_⟩
      · cases hm : h.mode with
        | r => rfl
        | w => exact absurd (hi.compat t u st su h g htx hu hh hg e (Or.inl hm)).symm hut
      · cases hm : g.mode with
        | r => rfl
        | w => exact absurd (hi.compat t u st su h g htx hu hh hg e (Or.inr hm)).symm hut
    · intro h hh
      exact hi.holdName t st h htx (mem_delHold.1 hh).1
    · intro k' r' m' hw'
      rw [delHold_waiting] at hw'
      obtain ⟨a, b, c, d⟩ := hi.waitOk t st k' r' m' htx hw'
      refine ⟨?_, b, c, ?_⟩
      · rw [mayWait_iff] at a ⊢
        intro h hh
        exact a h (mem_delHold.1 hh).1
      · rw [holdOf_none] at d ⊢
        intro h hh
        exact d h (mem_delHold.1 hh).1
  | fin t =>
    obtain ⟨st, htx, _, _, rfl⟩ := step_fin.1 hs
    exact hi.fin t
  | clear =>
    have := step_clear.1 hs
    subst this
    refine hi.regs [] s.pending ?_ hi.pendName ?_
    · intro k r h; simp [assoc] at h
    · intro k r h; simp [assoc] at h

theorem Inv.run {s s' : PState} {es : List Ev} (hi : Inv s) (h : runAll s es = some s') : Inv s' := by
  induction es generalizing s with
  | nil => simp [runAll] at h; subst h; exact hi
  | cons e es ih =>
    obtain ⟨s1, h1, h2⟩ := runAll_cons_some h
    exact ih (hi.step h1) h2

theorem Reachable.inv {s : PState} (h : Reachable s) : Inv s := by
  obtain ⟨es, he⟩ := h
  exact Inv.init.run he

end NodisVerif.Proofs.Proto
