import NodisVerif.Proofs.SkiplistSpecs
import NodisVerif.Proofs.C04Rem
/-
  hasInRange / getFirstInRange / getLastInRange of the pointer-level skiplist against the list model.
-/
namespace NodisVerif.Skiplist
open NodisVerif.DsZSet (Item nodeLt)
open NodisVerif.Proofs.C04 (ILt)
open NodisVerif.Proofs.ZSetLemmas (Good)

/-! ### the node reached by `walk` does not depend on the accumulator when `cond` ignores it -/

theorem ir_walk_acc_indep (h : List Node) (i : Nat) (p : Node → Bool) : ∀ (fuel x : Nat) (a b : Int),
    (walk h i (fun fn _ => p fn) fuel x a).map (·.1) = (walk h i (fun fn _ => p fn) fuel x b).map (·.1) := by
  intro fuel
  induction fuel with
  | zero => intro x a b; simp [walk, throw, throwThe, MonadExceptOf.throw, Except.map]
  | succ fuel ih =>
    intro x a b
    unfold walk
    cases hl : getLevel h x i with
    | error e => simp [bind, Except.bind, Except.map]
    | ok lv =>
      simp only [bind, Except.bind]
      cases hf : lv.forward with
      | none => simp [pure, Except.pure, Except.map]
      | some f =>
        simp only
        cases hn : getNode h f with
        | error e => simp [Except.map]
        | ok fn =>
          simp only
          by_cases hp : p fn = true
          · simp only [hp, if_true]; exact ih f _ _
          · simp [hp, pure, Except.pure, Except.map]

theorem ir_walk_zero_of_walk (h : List Node) (i : Nat) (p : Node → Bool) (fuel x : Nat) (a : Int) (u : Nat) (a' : Int)
    (hw : walk h i (fun fn _ => p fn) fuel x a = .ok (u, a')) :
    ∃ b', walk h i (fun fn _ => p fn) fuel x 0 = .ok (u, b') := by
  have := ir_walk_acc_indep h i p fuel x 0 a
  rw [hw] at this
  cases hz : walk h i (fun fn _ => p fn) fuel x 0 with
  | error e => rw [hz] at this; simp [Except.map] at this
  | ok r =>
    rw [hz] at this
    simp [Except.map] at this
    exact ⟨r.2, by rw [← this]⟩

/-! ### the level loop `descend` -/

theorem ir_mem_c_of_split {c : List Nat} {A : List Nat} {u : Nat} {B : List Nat} {L : List Nat}
    (hs : 0 :: c = A ++ u :: B ++ L) : ∀ y ∈ B, y ∈ c := by
  intro y hy
  cases A with
  | nil =>
    simp at hs
    rw [hs.2]; simp [hy]
  | cons a A =>
    simp at hs
    rw [hs.2]; simp [hy]

theorem ir_descend_loop {sl : SL} {c : List Nat} (hc : IsChain sl c) (p : Node → Bool) (k : Nat)
    (hcond : CondUpTo sl c (fun fn _ => p fn) k) : ∀ (l : Nat) (A : List Nat) (u : Nat) (B : List Nat),
    (0 :: c).take (k + 1) = A ++ u :: B → l ≤ height sl.heap u → (∀ y ∈ B, above sl.heap l y = false) →
    ∃ A' x, descend sl.heap (fun fn _ => p fn) l u = .ok x ∧ (0 :: c).take (k + 1) = A' ++ [x] := by
  intro l
  induction l with
  | zero =>
    intro A u B hs _ hB
    have hfull : 0 :: c = A ++ u :: B ++ (0 :: c).drop (k + 1) := by
      rw [← hs, List.take_append_drop]
    have hBe : B = [] := by
      cases B with
      | nil => rfl
      | cons y B' =>
        have hy := ir_mem_c_of_split hfull y (by simp)
        have h1 := hc.hpos y hy
        have h2 := hB y (by simp)
        simp [above] at h2
        omega
    subst hBe
    exact ⟨A, u, by simp [descend, pure, Except.pure], hs⟩
  | succ l ih =>
    intro A u B hs hu hB
    have hfull : 0 :: c = A ++ u :: (B ++ (0 :: c).drop (k + 1)) := by
      conv => lhs; rw [← List.take_append_drop (k + 1) (0 :: c), hs]
      simp
    have hAk : A.length ≤ k := by
      have := congrArg List.length hs
      simp at this
      omega
    have hfuel : (B ++ (0 :: c).drop (k + 1)).length + 1 ≤ sl.heap.length + 1 := by
      have := congrArg List.length hfull
      have hsz := hc.size
      simp at this ⊢
      omega
    obtain ⟨A', u', B', hs', hu', hB', _, hw⟩ :=
      walk_spec hc (fun fn _ => p fn) k hcond l A u _ hfull (by simp [above]; omega) hAk _ hfuel
    obtain ⟨b', hw0⟩ := ir_walk_zero_of_walk _ _ _ _ _ _ _ _ hw
    obtain ⟨A'', x, hd, hx⟩ := ih A' u' B' hs' (by simp [above] at hu'; omega) hB'
    refine ⟨A'', x, ?_, hx⟩
    simp [descend, hw0, bind, Except.bind, hd]

theorem descend_spec {sl : SL} {c : List Nat} (hc : IsChain sl c) (p : Node → Bool) (k : Nat)
    (hcond : CondUpTo sl c (fun fn _ => p fn) k) :
    ∃ A x, descend sl.heap (fun fn _ => p fn) sl.level 0 = .ok x ∧ (0 :: c).take (k + 1) = A ++ [x] := by
  apply ir_descend_loop hc p k hcond sl.level [] 0 (c.take k)
  · simp
  · rw [hc.header]; exact hc.levelHi
  · intro y hy
    have := hc.hle y (List.mem_of_mem_take hy)
    simp [above]; omega

/-! ### a down-closed predicate on the sorted chain holds exactly on a prefix -/

theorem ir_takeWhile_pos {α : Type} (R : α → α → Prop) (q : α → Bool) : ∀ (l : List α),
    l.Pairwise R → (∀ a ∈ l, ∀ b ∈ l, R a b → q b = true → q a = true) →
    ∀ (j : Nat) (x : α), l[j]? = some x → q x = decide (j < (l.takeWhile q).length) := by
  intro l
  induction l with
  | nil => intro _ _ j x h; simp at h
  | cons a l ih =>
    intro hpw hq j x hj
    obtain ⟨h1, h2⟩ := List.pairwise_cons.mp hpw
    have ih' := ih h2 (fun x hx y hy => hq x (by simp [hx]) y (by simp [hy]))
    by_cases ha : q a = true
    · cases j with
      | zero => simp at hj; subst hj; simp [ha]
      | succ j =>
        simp at hj
        rw [ih' j x hj]
        simp [ha]
    · cases j with
      | zero => simp at hj; subst hj; simp [ha]
      | succ j =>
        simp at hj
        have hx : x ∈ l := List.mem_of_getElem? hj
        have : q x = false := by
          cases hqx : q x with
          | false => rfl
          | true => exact absurd (hq a (by simp) x (by simp [hx]) (h1 x hx) hqx) ha
        simp [ha, this]

theorem ir_itemAt_of_get {h : List Node} {n : Nat} {nd : Node} (hn : h[n]? = some nd) : itemAt h n = nd.item := by
  simp [itemAt, hn]

/-- `cond` (a down-closed predicate of the item) holds exactly on the `takeWhile` prefix -/
theorem ir_condUpTo_of_downclosed {sl : SL} {c : List Nat} (hc : IsChain sl c) (q : Item → Bool)
    (hq : ∀ a b : Item, Good a → Good b → ILt a b → q b = true → q a = true) :
    CondUpTo sl c (fun fn _ => q fn.item) ((c.map (itemAt sl.heap)).takeWhile q).length := by
  intro pos n nd hpos hnd h1
  obtain ⟨j, rfl⟩ : ∃ j, pos = j + 1 := ⟨pos - 1, by omega⟩
  simp at hpos
  have hg : ∀ a ∈ c.map (itemAt sl.heap), Good a := by
    intro a ha
    obtain ⟨m, hm, rfl⟩ := List.mem_map.mp ha
    exact hc.good m hm
  have hj : (c.map (itemAt sl.heap))[j]? = some nd.item := by
    simp [hpos, ir_itemAt_of_get hnd]
  have := ir_takeWhile_pos ILt q _ hc.sorted (fun a ha b hb => hq a b (hg a ha) (hg b hb)) j _ hj
  simp only [this]
  simp
  omega

theorem ir_gt_downclosed (min : F64) (a b : Item) (ha : Good a) (hb : Good b) (hab : ILt a b)
    (h : F64.gt min b.1 = true) : F64.gt min a.1 = true := by
  have hk := NodisVerif.Proofs.C04.key_le_of_ilt a b ha hb hab
  unfold Good at ha hb
  simp [F64.gt, F64.lt, ha, hb] at h ⊢
  refine ⟨h.1, ?_⟩
  omega

theorem ir_ge_downclosed (max : F64) (a b : Item) (ha : Good a) (hb : Good b) (hab : ILt a b)
    (h : F64.ge max b.1 = true) : F64.ge max a.1 = true := by
  have hk := NodisVerif.Proofs.C04.key_le_of_ilt a b ha hb hab
  unfold Good at ha hb
  simp [F64.ge, F64.le, ha, hb] at h ⊢
  refine ⟨h.1, ?_⟩
  omega

/-! ### the level-0 forward pointer of a chain node is the next chain node -/

theorem ir_linked_split {h : List Node} : ∀ (A : List Nat) (x : Nat) (B : List Nat),
    Linked h (A ++ x :: B) → Linked h (x :: B) := by
  intro A
  induction A with
  | nil => intro x B hl; exact hl
  | cons a A ih => intro x B hl; exact ih x B hl.2

theorem ir_height_pos_of_split {sl : SL} {c : List Nat} (hc : IsChain sl c) {A : List Nat} {x : Nat} {B : List Nat}
    (hs : 0 :: c = A ++ x :: B) : 1 ≤ height sl.heap x := by
  cases A with
  | nil =>
    simp at hs
    rw [← hs.1, hc.header]; decide
  | cons a A =>
    simp at hs
    exact hc.hpos x (by rw [hs.2]; simp)

theorem ir_forward0 {sl : SL} {c : List Nat} (hc : IsChain sl c) (A : List Nat) (x : Nat) (B : List Nat)
    (hs : 0 :: c = A ++ x :: B) :
    ∃ l, getLevel sl.heap x 0 = .ok l ∧ l.forward = B.head? := by
  have hl := ir_linked_split A x B (hs ▸ hc.linked)
  obtain ⟨l, hl0⟩ := getLevel_of_lt sl.heap x 0 (ir_height_pos_of_split hc hs)
  refine ⟨l, hl0, ?_⟩
  rw [(hl.1 0 l hl0).1]
  cases B with
  | nil => rfl
  | cons y B =>
    have hy : y ∈ c := ir_mem_c_of_split (L := []) (by simpa using hs) y (by simp)
    have := hc.hpos y hy
    have h0 : above sl.heap 0 y = true := by simp [above]; omega
    simp [h0]

theorem ir_getNode_of_mem {sl : SL} {c : List Nat} (hc : IsChain sl c) {n : Nat} (hn : n ∈ c) :
    ∃ nd, sl.heap[n]? = some nd ∧ getNode sl.heap n = .ok nd ∧ itemAt sl.heap n = nd.item := by
  have hb := hc.bound n hn
  refine ⟨sl.heap[n], by simp, (getNode_ok_iff _ _ _).2 (by simp), ir_itemAt_of_get (by simp)⟩

/-! ### hasInRange -/

theorem hasInRange_chain {sl : SL} {c : List Nat} (hc : IsChain sl c) (min max : F64) :
    hasInRange sl min max = .ok (DsZSet.hasInRange (abs sl) min max) := by
  rw [abs_eq hc]
  unfold hasInRange DsZSet.hasInRange
  by_cases hmm : F64.gt min max = true
  · simp [hmm, pure, Except.pure]
  simp only [hmm, if_false, Bool.false_eq_true]
  obtain ⟨l0, hl0, hf0⟩ := ir_forward0 hc [] 0 c rfl
  rw [hc.tail]
  cases hlast : c.getLast? with
  | none => simp [List.getLast?_map, hlast, pure, Except.pure]
  | some t =>
    have htc : t ∈ c := List.mem_of_getLast? hlast
    obtain ⟨tn, _, htn, hti⟩ := ir_getNode_of_mem hc htc
    obtain ⟨f, hf⟩ : ∃ f, c.head? = some f := by
      cases c with
      | nil => simp at hlast
      | cons f c' => exact ⟨f, rfl⟩
    obtain ⟨fn, _, hfn, hfi⟩ := ir_getNode_of_mem hc (List.mem_of_head? hf)
    have hL : (c.map (itemAt sl.heap)).getLast? = some (tn.score, tn.member) := by
      rw [List.getLast?_map, hlast]; simp [hti, Node.item]
    have hH : (c.map (itemAt sl.heap)).head? = some (fn.score, fn.member) := by
      rw [List.head?_map, hf]; simp [hfi, Node.item]
    rw [hf] at hf0
    rw [hL, hH]
    simp only [htn, bind, Except.bind, hl0, hf0, hfn]
    cases F64.gt min tn.score <;> cases F64.lt max fn.score <;> simp [pure, Except.pure]

theorem hasInRange_spec {sl : SL} (h : Inv sl) (min max : F64) :
    hasInRange sl min max = .ok (DsZSet.hasInRange (abs sl) min max) := by
  obtain ⟨c, hc⟩ := h
  exact hasInRange_chain hc min max

/-! ### getFirstInRange -/

theorem ir_hasInRange_true {L : List Item} {min max : F64} (h : DsZSet.hasInRange L min max = true) :
    ∃ t hd, L.getLast? = some t ∧ L.head? = some hd ∧ F64.gt min t.1 = false ∧ F64.lt max hd.1 = false := by
  unfold DsZSet.hasInRange at h
  split at h
  · simp at h
  · split at h
    · rename_i t hd ht hhd
      simp at h
      exact ⟨t, hd, ht, hhd, h.1, h.2⟩
    · simp at h

theorem ir_cursorAt_of_get {L : List Item} {k : Nat} {a : Item} (h : L[k]? = some a) :
    ∃ cu, DsZSet.cursorAt L k = some cu ∧ cu.cur = a := by
  obtain ⟨hk, rfl⟩ := List.getElem?_eq_some_iff.1 h
  unfold DsZSet.cursorAt
  rw [List.drop_eq_getElem_cons hk]
  exact ⟨_, rfl, rfl⟩

/-- from the last element of the first `k+1` header-first positions: the split of the whole chain -/
theorem ir_split_of_take {c : List Nat} {k : Nat} {A : List Nat} {x : Nat} (hk : k ≤ c.length)
    (hx : (0 :: c).take (k + 1) = A ++ [x]) :
    A.length = k ∧ 0 :: c = A ++ x :: c.drop k := by
  have hl := congrArg List.length hx
  simp at hl
  refine ⟨by omega, ?_⟩
  conv => lhs; rw [← List.take_append_drop (k + 1) (0 :: c), hx]
  simp

/-- no panic (the `n.Item.Score` on nil cannot happen), no fuel exhaustion, agreement with the list model; holds for
    every `min` / `max` including NaN (NaN `min`: the loop stays on the header and the first node is examined, in both
    models) -/
theorem getFirstInRange_spec {sl : SL} {c : List Nat} (hc : IsChain sl c) (min max : F64) :
    ∃ r, getFirstInRange sl min max = .ok r ∧
      (r.map (itemAt sl.heap)) = (DsZSet.getFirstInRange (abs sl) min max).map (·.cur) ∧
      (∀ n, r = some n → ∃ j, c[j]? = some n ∧
        j = ((c.map (itemAt sl.heap)).takeWhile (fun x => F64.gt min x.1)).length) := by
  unfold getFirstInRange DsZSet.getFirstInRange
  rw [hasInRange_chain hc]
  simp only [bind, Except.bind]
  cases hir : DsZSet.hasInRange (abs sl) min max with
  | false => exact ⟨none, by simp [pure, Except.pure]⟩
  | true =>
    rw [abs_eq hc] at hir ⊢
    have hcond := ir_condUpTo_of_downclosed hc (fun x : Item => F64.gt min x.1) (ir_gt_downclosed min)
    obtain ⟨A, x, hd, hx⟩ := descend_spec hc (fun fn => F64.gt min fn.item.1) _ hcond
    have hd' : descend sl.heap (fun fn _ => F64.gt min fn.score) sl.level 0 = .ok x := hd
    have hg : ∀ a ∈ c.map (itemAt sl.heap), Good a := by
      intro a ha
      obtain ⟨m, hm, rfl⟩ := List.mem_map.mp ha
      exact hc.good m hm
    obtain ⟨t, _, hlast, _, hmt, _⟩ := ir_hasInRange_true hir
    have hklt : ((c.map (itemAt sl.heap)).takeWhile (fun x : Item => F64.gt min x.1)).length < c.length := by
      rw [List.getLast?_eq_getElem?] at hlast
      have h1 := ir_takeWhile_pos ILt (fun x : Item => F64.gt min x.1) _ hc.sorted (fun a ha b hb => ir_gt_downclosed min a b (hg a ha) (hg b hb)) _ _ hlast
      have hne : c ≠ [] := by intro h; subst h; simp at hlast
      have h0 : 0 < c.length := List.length_pos_iff.2 hne
      simp [hmt] at h1
      omega
    obtain ⟨_, hsplit⟩ := ir_split_of_take (by omega) hx
    obtain ⟨l0, hl0, hf0⟩ := ir_forward0 hc A x _ hsplit
    obtain ⟨f, hf⟩ : ∃ f, c[((c.map (itemAt sl.heap)).takeWhile (fun x : Item => F64.gt min x.1)).length]? = some f :=
      ⟨_, List.getElem?_eq_getElem hklt⟩
    rw [List.head?_drop, hf] at hf0
    have hfc : f ∈ c := List.mem_of_getElem? hf
    obtain ⟨fn, _, hfn, hfi⟩ := ir_getNode_of_mem hc hfc
    have hLk : (c.map (itemAt sl.heap))[((c.map (itemAt sl.heap)).takeWhile (fun x : Item => F64.gt min x.1)).length]? = some fn.item := by
      simp [hf, hfi]
    obtain ⟨cu, hcu, hcur⟩ := ir_cursorAt_of_get hLk
    simp only [hd', hl0, hf0, hfn, Bool.not_true, Bool.false_eq_true, if_false, hcu]
    have hsc : cu.cur.1 = fn.score := by rw [hcur]; rfl
    rw [hsc]
    by_cases hmx : F64.lt max fn.score = true
    · exact ⟨none, by simp [hmx, pure, Except.pure]⟩
    · refine ⟨some f, by simp [hmx, pure, Except.pure], by simp [hmx, hcur, hfi], ?_⟩
      intro n hn
      simp at hn; subst hn
      exact ⟨_, hf, rfl⟩

/-! ### getLastInRange -/

theorem ir_good_map {sl : SL} {c : List Nat} (hc : IsChain sl c) : ∀ a ∈ c.map (itemAt sl.heap), Good a := by
  intro a ha
  obtain ⟨m, hm, rfl⟩ := List.mem_map.mp ha
  exact hc.good m hm

/-- under the invariant and for a `max` that is not NaN, `getLastInRange` does not panic, agrees with the list model,
    and never returns the header -/
theorem getLastInRange_spec {sl : SL} {c : List Nat} (hc : IsChain sl c) (min max : F64)
    (hmax : F64.isNaN max = false) :
    ∃ r, getLastInRange sl min max = .ok r ∧
      (r.map (itemAt sl.heap)) = (DsZSet.getLastInRange (abs sl) min max).map (·.cur) ∧
      r ≠ some 0 ∧
      (∀ n, r = some n → ∃ j, c[j]? = some n ∧
        j + 1 = ((c.map (itemAt sl.heap)).takeWhile (fun x => F64.ge max x.1)).length) := by
  unfold getLastInRange DsZSet.getLastInRange
  rw [hasInRange_chain hc]
  simp only [bind, Except.bind]
  cases hir : DsZSet.hasInRange (abs sl) min max with
  | false => exact ⟨none, by simp [pure, Except.pure]⟩
  | true =>
    rw [abs_eq hc] at hir ⊢
    have hcond := ir_condUpTo_of_downclosed hc (fun x : Item => F64.ge max x.1) (ir_ge_downclosed max)
    obtain ⟨A, x, hd, hx⟩ := descend_spec hc (fun fn => F64.ge max fn.item.1) _ hcond
    have hd' : descend sl.heap (fun fn _ => F64.ge max fn.score) sl.level 0 = .ok x := hd
    have hg := ir_good_map hc
    obtain ⟨_, hd0, _, hhead, _, hmh⟩ := ir_hasInRange_true hir
    have hkle : ((c.map (itemAt sl.heap)).takeWhile (fun x : Item => F64.ge max x.1)).length ≤ c.length := by
      have := (List.takeWhile_sublist (fun x : Item => F64.ge max x.1) (l := c.map (itemAt sl.heap))).length_le
      simpa using this
    have hkpos : 0 < ((c.map (itemAt sl.heap)).takeWhile (fun x : Item => F64.ge max x.1)).length := by
      rw [List.head?_eq_getElem?] at hhead
      have h1 := ir_takeWhile_pos ILt (fun x : Item => F64.ge max x.1) _ hc.sorted
        (fun a ha b hb => ir_ge_downclosed max a b (hg a ha) (hg b hb)) _ _ hhead
      have hgd : F64.isNaN hd0.1 = false := hg hd0 (List.mem_of_getElem? hhead)
      have hge : F64.ge max hd0.1 = true := by
        simp [F64.lt, F64.ge, F64.le, hmax, hgd] at hmh ⊢
        omega
      simpa [hge] using h1
    obtain ⟨hAk, hsplit⟩ := ir_split_of_take hkle hx
    obtain ⟨j, hj⟩ : ∃ j, ((c.map (itemAt sl.heap)).takeWhile (fun x : Item => F64.ge max x.1)).length = j + 1 :=
      ⟨_, (Nat.sub_add_cancel hkpos).symm⟩
    rw [hj] at hAk hsplit ⊢
    have hxj : c[j]? = some x := by
      have := congrArg (fun l => l[j + 1]?) hsplit
      simp only [List.getElem?_cons_succ] at this
      rw [this, List.getElem?_append_right (by omega)]
      simp [hAk]
    have hxc : x ∈ c := List.mem_of_getElem? hxj
    have hx0 : x ≠ 0 := by
      intro h0; subst h0
      have := hc.nodup
      simp at this
      exact this.1 hxc
    obtain ⟨nd, _, hnd, hni⟩ := ir_getNode_of_mem hc hxc
    have hLj : (c.map (itemAt sl.heap))[j]? = some nd.item := by simp [hxj, hni]
    obtain ⟨cu, hcu, hcur⟩ := ir_cursorAt_of_get hLj
    have hsc : cu.cur.1 = nd.score := by rw [hcur]; rfl
    simp only [hd', hnd, Bool.not_true, Bool.false_eq_true, if_false, Nat.add_sub_cancel, hcu, hsc,
      Nat.add_one_ne_zero]
    by_cases hmn : F64.gt min nd.score = true
    · exact ⟨none, by simp [hmn, pure, Except.pure]⟩
    · refine ⟨some x, by simp [hmn, pure, Except.pure], by simp [hmn, hcur, hni], by simp [hx0], ?_⟩
      intro n hn
      simp at hn; subst hn
      exact ⟨j, hxj, rfl⟩

/-! ### the NaN `max` corner of getLastInRange: the pointer code returns the HEADER, the list model `none`

  With a NaN `max`, `min > max` and `max < head.score` are both false, so `hasInRange` is true as soon as the chain
  is not empty and `¬ min > tail.score`. The level loop `max >= forward.score` is false everywhere and stays on the
  header; then `min > header.score` is evaluated on the header (score 0 in `makeSkiplist`) and, when false, the
  header itself is returned (`some 0`). `DsZSet.getLastInRange` returns `none` there (`k = 0`). -/

theorem getLastInRange_nan_max {sl : SL} {c : List Nat} (hc : IsChain sl c) (min max : F64)
    (hmax : F64.isNaN max = true) (hir : DsZSet.hasInRange (abs sl) min max = true) :
    ∃ hd, sl.heap[0]? = some hd ∧
      getLastInRange sl min max = .ok (if F64.gt min hd.score then none else some 0) ∧
      DsZSet.getLastInRange (abs sl) min max = none := by
  have hk : ((c.map (itemAt sl.heap)).takeWhile (fun x : Item => F64.ge max x.1)).length = 0 := by
    rw [List.length_eq_zero_iff]
    cases c.map (itemAt sl.heap) with
    | nil => rfl
    | cons a l => simp [F64.ge, F64.le, hmax]
  have hcond := ir_condUpTo_of_downclosed hc (fun x : Item => F64.ge max x.1) (ir_ge_downclosed max)
  rw [hk] at hcond
  obtain ⟨A, x, hd, hx⟩ := descend_spec hc (fun fn => F64.ge max fn.item.1) _ hcond
  have hd' : descend sl.heap (fun fn _ => F64.ge max fn.score) sl.level 0 = .ok x := hd
  have hx0 : x = 0 := by
    cases A with
    | nil => simp at hx; exact hx.symm
    | cons a A => have := congrArg List.length hx; simp at this
  subst hx0
  have hh := hc.header
  unfold height at hh
  cases h0 : sl.heap[0]? with
  | none => rw [h0] at hh; simp [maxLevel] at hh
  | some nd =>
    refine ⟨nd, rfl, ?_, ?_⟩
    · unfold getLastInRange
      rw [hasInRange_chain hc, hir]
      simp only [bind, Except.bind, hd', (getNode_ok_iff _ _ _).2 h0]
      cases F64.gt min nd.score <;> simp [pure, Except.pure]
    · unfold DsZSet.getLastInRange
      rw [hir, abs_eq hc, hk]
      simp

/-- a concrete instance on the structure built by the model itself: one member with score 1.0, `min = 0`,
    `max = NaN`: the pointer code answers with the header (index 0), the list model with `none` -/
example :
    (do let sl ← insert makeSkiplist [97] 0x3FF0000000000000 1
        let r ← getLastInRange sl 0 0x7FF8000000000000
        pure (r, (DsZSet.getLastInRange (abs sl) 0 0x7FF8000000000000).isNone)) = .ok (some 0, true) := by
  rfl

/-! ### restatements for `Inv` -/

theorem getFirstInRange_inv {sl : SL} (h : Inv sl) (min max : F64) :
    ∃ r, getFirstInRange sl min max = .ok r ∧
      (r.map (itemAt sl.heap)) = (DsZSet.getFirstInRange (abs sl) min max).map (·.cur) ∧
      (∀ n, r = some n → ∃ j, (chain sl)[j]? = some n ∧
        j = ((abs sl).takeWhile (fun x => F64.gt min x.1)).length) := by
  obtain ⟨c, hc⟩ := h
  rw [chain_eq hc, abs_eq hc]
  have := getFirstInRange_spec hc min max
  rw [abs_eq hc] at this
  exact this

theorem getLastInRange_inv {sl : SL} (h : Inv sl) (min max : F64) (hmax : F64.isNaN max = false) :
    ∃ r, getLastInRange sl min max = .ok r ∧
      (r.map (itemAt sl.heap)) = (DsZSet.getLastInRange (abs sl) min max).map (·.cur) ∧
      r ≠ some 0 ∧
      (∀ n, r = some n → ∃ j, (chain sl)[j]? = some n ∧
        j + 1 = ((abs sl).takeWhile (fun x => F64.ge max x.1)).length) := by
  obtain ⟨c, hc⟩ := h
  rw [chain_eq hc, abs_eq hc]
  have := getLastInRange_spec hc min max hmax
  rw [abs_eq hc] at this
  exact this

end NodisVerif.Skiplist
