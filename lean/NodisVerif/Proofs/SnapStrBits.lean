import NodisVerif.Proofs.SnapStr
/-
  ds/str/str.go BitCount: normal form of the translated function, its split into index normalisation + counting loops,
  the loop lemmas (inner loop = number of set bits = the model's popcount8, by a 256-case kernel fact), and the
  equality with the model DsStr.bitCount for all int64 arguments.
-/
namespace NodisVerif.StrNF
open NodisVerif NodisVerif.GoLib

def BitCount (v : Bytes) (start : Int) (end_ : Int) : GoLib.M Int := do
  let mut start := start
  let mut end_ := end_
  let mut count : Int := 0
  if (decide (start < 0)) then
    start := 0
  if (decide (start ≥ (GoLib.len v))) then
    return 0
  let mut bl : Int := (GoLib.len v)
  if (decide (end_ ≤ 0)) then
    end_ := (GoLib.wrap .i64 (end_ + (GoLib.wrap .i64 (bl + 1))))
  if (decide (end_ > bl)) then
    end_ := bl
  if (decide (start > end_)) then
    return 0
  if (start == end_) then
    end_ := (GoLib.wrap .i64 (end_ + 1))
  for (_, v) in GoLib.enum (← GoLib.slice v start end_) do
    for i in GoLib.irange 0 8 do
      if ((GoLib.band .u8 v (GoLib.shl .u8 1 (GoLib.wrap .u64 i))) != 0) then
        count := (GoLib.wrap .i64 (count + 1))
  return count

/-- the counting loops of BitCount alone -/
def countBits (bs : Bytes) : GoLib.M Int := do
  let mut count : Int := 0
  for (_, v) in GoLib.enum bs do
    for i in GoLib.irange 0 8 do
      if ((GoLib.band .u8 v (GoLib.shl .u8 1 (GoLib.wrap .u64 i))) != 0) then
        count := (GoLib.wrap .i64 (count + 1))
  return count

/-- BitCount = its index normalisation, then the counting loops over the slice -/
theorem BitCount_struct (v : Bytes) (a b : Int) : BitCount v a b =
    (let s := if a < 0 then 0 else a
     if s ≥ len v then pure 0 else
     let e0 := if b ≤ 0 then wrap .i64 (b + wrap .i64 (len v + 1)) else b
     let e1 := if e0 > len v then len v else e0
     if s > e1 then pure 0 else
     let e2 := if s = e1 then wrap .i64 (e1 + 1) else e1
     slice v s e2 >>= countBits) := by
  unfold BitCount countBits
  simp only [decide_eq_true_eq, beq_iff_eq]
  repeat' split
  all_goals first | rfl | omega | simp_all

def bitAt (c : Int) (i : Int) : Bool := band .u8 c (shl .u8 1 (wrap .u64 i)) != 0

/-- the bodies of the two loops, as the translator emits them -/
def innerBody (c : Int) (i r : Int) : M (ForInStep Int) :=
  if (band IT.u8 c (shl IT.u8 1 (wrap IT.u64 i)) != 0) = true then pure (ForInStep.yield (wrap IT.i64 (r + 1)))
  else pure (ForInStep.yield r)

def outerBody (x : Int × Int) (r : Int) : M (ForInStep Int) := do
  let r' ← forIn (irange 0 8) r (innerBody x.snd)
  pure (ForInStep.yield r')

theorem inner_loop (c : Int) : ∀ (l : List Int) (count : Int), 0 ≤ count → count + l.length < 2 ^ 62 →
    forIn (m := M) l count (innerBody c) = .ok (count + ((l.filter (bitAt c)).length : Int))
  | [], count, _, _ => by simp [pure, Except.pure]
  | i :: rest, count, h0, hb => by
    simp only [List.length_cons] at hb
    rw [List.forIn_cons]
    by_cases hbit : (band IT.u8 c (shl IT.u8 1 (wrap IT.u64 i)) != 0) = true
    · have hw : wrap IT.i64 (count + 1) = count + 1 := wrap_i64_id (by omega)
      have hf : bitAt c i = true := hbit
      have hstep : innerBody c i count = .ok (ForInStep.yield (count + 1)) := by
        unfold innerBody; rw [if_pos hbit, hw]; rfl
      rw [hstep]
      have ih := inner_loop c rest (count + 1) (by omega) (by omega)
      simp only [bind, Except.bind]
      rw [ih, List.filter_cons_of_pos hf, List.length_cons]
      congr 1; omega
    · have hf : ¬ (bitAt c i = true) := hbit
      have hstep : innerBody c i count = .ok (ForInStep.yield count) := by
        unfold innerBody; rw [if_neg hbit]; rfl
      rw [hstep]
      have ih := inner_loop c rest count h0 (by omega)
      simp only [bind, Except.bind]
      rw [ih, List.filter_cons_of_neg hf]

theorem popcount_fact : ∀ c : Fin 256,
    ((irange 0 8).filter (bitAt (((UInt8.ofNat c.val).toNat : Nat) : Int))).length = DsStr.popcount8 (UInt8.ofNat c.val) := by
  decide +kernel

theorem popcount_le (c : UInt8) : DsStr.popcount8 c ≤ 8 := by
  have : ∀ c : Fin 256, DsStr.popcount8 (UInt8.ofNat c.val) ≤ 8 := by decide +kernel
  have := this ⟨c.toNat, c.toNat_lt⟩
  simpa using this

theorem outer_loop : ∀ (bs : Bytes) (k n : Nat), n + 8 * bs.length < 2 ^ 61 →
    forIn (m := M) ((bs.zipIdx k).map fun (c, i) => ((i : Int), (c.toNat : Int))) (n : Int) outerBody
    = .ok ((bs.foldl (fun acc b => acc + DsStr.popcount8 b) n : Nat) : Int)
  | [], k, n, _ => by simp [pure, Except.pure]
  | c :: rest, k, n, hb => by
    simp only [List.length_cons] at hb
    simp only [List.zipIdx_cons, List.map_cons, List.forIn_cons, List.foldl_cons]
    have hin := inner_loop (c.toNat : Int) (irange 0 8) (n : Int) (by omega) (by
      have : (irange 0 8).length = 8 := by decide
      rw [this]; omega)
    have hp := popcount_fact ⟨c.toNat, c.toNat_lt⟩
    simp only [UInt8.ofNat_toNat] at hp
    rw [hp] at hin
    have hle := popcount_le c
    have hstep : outerBody ((k : Int), (c.toNat : Int)) (n : Int) = .ok (ForInStep.yield ((n + DsStr.popcount8 c : Nat) : Int)) := by
      unfold outerBody
      simp only [hin, bind, Except.bind, pure, Except.pure, Int.natCast_add]
    rw [hstep]
    simp only [bind, Except.bind]
    exact outer_loop rest (k + 1) (n + DsStr.popcount8 c) (by omega)

theorem countBits_eq (bs : Bytes) (h : bs.length < 2 ^ 58) :
    countBits bs = .ok ((bs.foldl (fun acc b => acc + DsStr.popcount8 b) 0 : Nat) : Int) := by
  have ho := outer_loop bs 0 0 (by omega)
  have key : countBits bs = (forIn (enum bs) 0 outerBody >>= fun s => pure s) := rfl
  rw [key]
  unfold enum
  simp only [Int.natCast_zero] at ho
  rw [ho]; rfl

theorem slice_ok (s : List α) (lo hi : Int) (h : 0 ≤ lo ∧ lo ≤ hi ∧ hi ≤ s.length) :
    slice s lo hi = .ok ((s.drop lo.toNat).take (hi - lo).toNat) := by
  simp only [slice, h, and_self, if_true, pure, Except.pure]

/-- slice, then count: the model's fold over the same window -/
theorem slice_count (v : Bytes) (lo hi : Int) (h : 0 ≤ lo ∧ lo ≤ hi ∧ hi ≤ v.length) (hv : v.length < 2 ^ 58) :
    (slice v lo hi >>= countBits) =
      .ok ((((v.drop lo.toNat).take (hi - lo).toNat).foldl (fun acc b => acc + DsStr.popcount8 b) 0 : Nat) : Int) := by
  rw [slice_ok v lo hi h]
  simp only [bind, Except.bind]
  apply countBits_eq
  have : ((v.drop lo.toNat).take (hi - lo).toNat).length ≤ v.length := by
    simp only [List.length_take, List.length_drop]; omega
  omega

theorem BitCount_eq_model (v : Bytes) (a b : Int) (hv : v.length < 2 ^ 58) (ha : inInt64 a) (hb : inInt64 b) :
    BitCount v a b = .ok (DsStr.bitCount (some v) a b) := by
  have ha' := inInt64_iff.mp ha
  have hb' := inInt64_iff.mp hb
  have hl1 : wrap .i64 ((v.length : Int) + 1) = (v.length : Int) + 1 := wrap_i64_id (by omega)
  rw [BitCount_struct]
  simp only [len_eq, hl1, DsStr.bitCount, DsStr.bytes, Option.getD_some]
  have hb1 : b ≤ 0 → wrap .i64 (b + ((v.length : Int) + 1)) = b + (v.length : Int) + 1 := fun h => by
    rw [wrap_i64_id (by omega)]; omega
  have he0 : (if b ≤ 0 then wrap .i64 (b + ((v.length : Int) + 1)) else b) = (if b ≤ 0 then b + (v.length : Int) + 1 else b) := by
    split
    · exact hb1 ‹_›
    · rfl
  rw [he0]
  have key : ∀ (s e1 : Int), 0 ≤ s → e1 ≤ (v.length : Int) →
      (if s ≥ (v.length : Int) then pure 0 else if s > e1 then pure 0
        else slice v s (if s = e1 then wrap .i64 (e1 + 1) else e1) >>= countBits) =
      (Except.ok (if s ≥ (v.length : Int) then 0 else if s > e1 then 0
        else ((((v.drop s.toNat).take ((if s = e1 then e1 + 1 else e1) - s).toNat).foldl
          (fun acc b => acc + DsStr.popcount8 b) 0 : Nat) : Int)) : M Int) := by
    intro s e1 hs he
    by_cases c1 : s ≥ (v.length : Int)
    · simp only [c1, if_true]; rfl
    · by_cases c2 : s > e1
      · simp only [c1, c2, if_true, if_false]; rfl
      · simp only [c1, c2, if_false]
        by_cases c3 : s = e1
        · have hw : wrap .i64 (e1 + 1) = e1 + 1 := wrap_i64_id (by omega)
          simp only [c3, if_true, hw]
          exact slice_count v e1 (e1 + 1) (by omega) hv
        · simp only [c3, if_false]
          exact slice_count v s e1 (by omega) hv
  exact key _ _ (by split <;> omega) (by split <;> omega)

/-! ### BitCountByBit -/

def BitCountByBit (v : Bytes) (start : Int) (end_ : Int) : GoLib.M Int := do
  let mut start := start
  let mut end_ := end_
  let mut count : Int := 0
  if (decide (start < 0)) then
    start := 0
  let mut bl : Int := (GoLib.wrap .i64 ((GoLib.len v) * 8))
  if (decide (end_ ≤ 0)) then
    end_ := bl
  if (decide (end_ > (GoLib.wrap .i64 ((GoLib.len v) * 8)))) then
    end_ := bl
  for i in GoLib.irange start end_ do
    if ((← getBit v i) == 1) then
      count := (GoLib.wrap .i64 (count + 1))
  return count

def bbBody (v : Bytes) (i r : Int) : M (ForInStep Int) := do
  let g ← getBit v i
  if (g == 1) = true then pure (ForInStep.yield (wrap IT.i64 (r + 1))) else pure (ForInStep.yield r)

/-- the counting loop of BitCountByBit alone -/
def countRange (v : Bytes) (s e : Int) : GoLib.M Int := do
  let mut count : Int := 0
  for i in GoLib.irange s e do
    if ((← getBit v i) == 1) then
      count := (GoLib.wrap .i64 (count + 1))
  return count

theorem BitCountByBit_struct (v : Bytes) (a b : Int) : BitCountByBit v a b =
    (let s := if a < 0 then 0 else a
     let bl := wrap .i64 (len v * 8)
     let e0 := if b ≤ 0 then bl else b
     let e1 := if e0 > bl then bl else e0
     countRange v s e1) := by
  unfold BitCountByBit countRange
  simp only [decide_eq_true_eq]
  repeat' split
  all_goals first | rfl | omega | simp_all

theorem range_loop (v : Bytes) (hv : v.length < 2 ^ 58) : ∀ (l : List Int) (count : Int), 0 ≤ count → count + l.length < 2 ^ 62 →
    (∀ i ∈ l, 0 ≤ i ∧ i < 2 ^ 62) →
    forIn (m := M) l count (bbBody v) = .ok (count + ((l.filter (fun i => DsStr.getBit (some v) i == 1)).length : Int))
  | [], count, _, _, _ => by simp [pure, Except.pure]
  | i :: rest, count, h0, hb, hr => by
    simp only [List.length_cons] at hb
    have hi := hr i (by simp)
    have hrest : ∀ j ∈ rest, 0 ≤ j ∧ j < 2 ^ 62 := fun j hj => hr j (by simp [hj])
    have hg := getBit_eq_model v i (by omega) (inInt64_iff.mpr (by omega))
    rw [List.forIn_cons]
    by_cases hbit : (DsStr.getBit (some v) i == 1) = true
    · have hw : wrap IT.i64 (count + 1) = count + 1 := wrap_i64_id (by omega)
      have hstep : bbBody v i count = .ok (ForInStep.yield (count + 1)) := by
        unfold bbBody; simp only [hg, bind, Except.bind, hbit, if_true, hw]; rfl
      rw [hstep]
      simp only [bind, Except.bind]
      have hf : (fun i => DsStr.getBit (some v) i == 1) i = true := hbit
      rw [range_loop v hv rest (count + 1) (by omega) (by omega) hrest]
      simp only [List.filter_cons, hbit, if_true, List.length_cons]
      congr 1; omega
    · have hstep : bbBody v i count = .ok (ForInStep.yield count) := by
        unfold bbBody; simp only [hg, bind, Except.bind, hbit, if_false, Bool.false_eq_true]; rfl
      rw [hstep]
      simp only [bind, Except.bind]
      have hf : ¬ ((fun i => DsStr.getBit (some v) i == 1) i = true) := hbit
      rw [range_loop v hv rest count h0 (by omega) hrest]
      simp only [List.filter_cons, hbit, if_false, Bool.false_eq_true]

theorem mem_irange {s e i : Int} (h : i ∈ irange s e) : s ≤ i ∧ i < e := by
  simp only [irange, List.mem_map, List.mem_range] at h
  obtain ⟨k, hk, rfl⟩ := h
  omega

theorem countRange_eq (v : Bytes) (hv : v.length < 2 ^ 58) (s e : Int) (hs : 0 ≤ s) (he : e ≤ 8 * (v.length : Int)) :
    countRange v s e = .ok ((((List.range (e - s).toNat).filter fun (k : Nat) => DsStr.getBit (some v) (s + (k : Int)) == 1).length : Nat) : Int) := by
  have hl := range_loop v hv (irange s e) 0 (by omega) (by
      have : (irange s e).length = (e - s).toNat := by simp [irange]
      rw [this]; omega)
    (fun i hi => by have := mem_irange hi; omega)
  have key : countRange v s e = (forIn (irange s e) 0 (bbBody v) >>= fun r => pure r) := rfl
  rw [key, hl]
  simp only [bind, Except.bind, pure, Except.pure, irange, List.filter_map, List.length_map, Int.zero_add]
  rfl

theorem BitCountByBit_eq_model (v : Bytes) (a b : Int) (hv : v.length < 2 ^ 58) :
    BitCountByBit v a b = .ok (DsStr.bitCountByBit (some v) a b) := by
  have hbl : wrap .i64 ((v.length : Int) * 8) = (v.length : Int) * 8 := wrap_i64_id (by omega)
  rw [BitCountByBit_struct]
  simp only [len_eq, hbl, DsStr.bitCountByBit, DsStr.bytes, Option.getD_some]
  have key : ∀ (s e : Int), 0 ≤ s → e ≤ 8 * (v.length : Int) →
      countRange v s e = (Except.ok (if s ≥ e then 0 else
        ((((List.range (e - s).toNat).filter fun (k : Nat) => DsStr.getBit (some v) (s + (k : Int)) == 1).length : Nat) : Int)) : M Int) := by
    intro s e hs he
    rw [countRange_eq v hv s e hs he]
    by_cases c : s ≥ e
    · have : (e - s).toNat = 0 := by omega
      simp [c, this]
    · simp [c]
  exact key _ _ (by split <;> omega) (by split <;> split <;> omega)

end NodisVerif.StrNF
