import NodisVerif.Model.Codec
import NodisVerif.Proofs.VarintLemmas
import NodisVerif.Proofs.GoLibLemmas
/-
  List-level facts about the translator's library operations as the byte-layout functions use them
  (make a zeroed buffer, write a prefix, copy the payload behind it, cut to length).
-/
namespace NodisVerif.GoLib

theorem makeBytes_ok {n : Int} (h : 0 ≤ n) : makeBytes n = .ok (List.replicate n.toNat 0) := by
  simp [makeBytes, pure, Except.pure]; omega

theorem take_append_len (a b : List α) : (a ++ b).take a.length = a := by simp
theorem drop_append_len (a b : List α) : (a ++ b).drop a.length = b := by simp

/-- `copy(dst[len(pre):], src)` into a buffer `pre ++ z` with room for `src` -/
theorem copyAt_prefix (pre z src : Bytes) (h : src.length ≤ z.length) :
    copyAt (pre ++ z) (pre.length : Int) src = .ok (pre ++ src ++ z.drop src.length) := by
  have h0 : (0 : Int) ≤ (pre.length : Int) ∧ (pre.length : Int) ≤ ((pre ++ z).length : Int) := by
    simp only [List.length_append]; omega
  simp only [copyAt, h0, and_self, if_true, Int.toNat_natCast, pure, Except.pure]
  have hk : min ((pre ++ z).length - pre.length) src.length = src.length := by
    simp only [List.length_append]; omega
  rw [hk, take_append_len, List.take_length]
  congr 2
  rw [List.drop_append, List.drop_of_length_le (by omega)]
  simp

/-- `(a ++ b)[:len(a)]` -/
theorem slice_prefix (a b : List α) (n : Int) (hn : n = a.length) : slice (a ++ b) 0 n = .ok a := by
  subst hn
  have h0 : (0 : Int) ≤ 0 ∧ (0 : Int) ≤ (a.length : Int) ∧ (a.length : Int) ≤ ((a ++ b).length : Int) := by
    simp only [List.length_append]; omega
  simp only [slice, h0, and_self, if_true, pure, Except.pure]
  simp

/-- `b[n:]` -/
theorem slice_from (b : List α) (n : Int) (h : 0 ≤ n ∧ n ≤ b.length) : slice b n (len b) = .ok (b.drop n.toNat) := by
  have h0 : (0 : Int) ≤ n ∧ n ≤ (b.length : Int) ∧ (b.length : Int) ≤ (b.length : Int) := by omega
  simp only [slice, len_eq, h0, and_self, if_true, pure, Except.pure]
  congr 1
  apply List.take_of_length_le
  simp only [List.length_drop]; omega

theorem uvarintAux_snd_le : ∀ (b : Bytes) (i s x : Nat), (Varint.uvarintAux b i s x).2 ≤ (i : Int) + b.length
  | [], i, s, x => by simp [Varint.uvarintAux]
  | c :: rest, i, s, x => by
    unfold Varint.uvarintAux
    have ih := uvarintAux_snd_le rest (i + 1) (s + 7) (x ||| ((c.toNat % 128) <<< s))
    simp only [List.length_cons]
    split
    · simp only; omega
    · split
      · split
        · simp only; omega
        · simp only; omega
      · push_cast at ih ⊢; omega

theorem varint_snd_le (b : Bytes) : (Varint.varint b).2 ≤ b.length := by
  have := uvarintAux_snd_le b 0 0 0
  simp only [Varint.varint, Varint.uvarint]
  simpa using this

end NodisVerif.GoLib
