import NodisVerif.Proofs.C20ZSet
/-
  C20, sorted sets: ZRem, ZRemRangeByRank, ZRemRangeByScore.  They notify only when something was
  removed; otherwise they rewrite the value object with the same content without signalling.
-/
namespace NodisVerif.Proofs.C20
open NodisVerif NodisVerif.Store NodisVerif.Spec.Persist NodisVerif.Proofs.C11
open NodisVerif.Proofs.AListLemmas NodisVerif.Proofs.AListLemmas2

variable {now : Int} {p r : MState}

/-- rewriting a hot record with the value it already holds keeps the invariant without any exemption -/
theorem inv_setVal_same {s : MState} {t : Int} (h : StoreInv s t) {k : Bytes} {m : Meta} {v : Val}
    (hm : AList.get? s.index k = some m) (hv : m.value = some v) : StoreInv (Api.setVal s k v) t := by
  have r := h.recs k m hm
  have hsome : m.value.isSome = true := by simp [hv]
  have h1 := inv_setVal h (fun _ _ => by simp) hm hsome (r.good v hv)
  refine ⟨h1.idxSorted, h1.diskSorted, ?_, h1.ents, h1.oids, h1.idPos⟩
  intro k' m' hm'
  have r' := h1.recs k' m' hm'
  by_cases hk : k' = k
  · subst hk
    rw [get?_setVal_index h hm hsome] at hm'
    simp only [if_true, Option.some.injEq] at hm'
    subst hm'
    refine { r' with clean := ?_ }
    intro he _ hmod v' hv'
    simp only [Option.some.injEq] at hv'
    subst hv'
    have hmod0 : m.isModified = false := by
      simpa [Meta.isModified, hv] using hmod
    obtain ⟨ent, c1, c2, c3⟩ := r.clean he (by simp) hmod0 v hv
    refine ⟨svEnt s m v ent, c1, ?_, ?_⟩
    · rw [(setVal_fields k' v).1] at *
      rw [get?_setVal_disk hm, c2]; rfl
    · rw [(setVal_fields k' v).1]
      refine ⟨fun hp => ?_, fun hp => ?_⟩
      · have := c3.peb hp
        rw [svEnt_other (by simp [hp])]
        exact this
      · obtain ⟨o1, o2⟩ := c3.mem hp
        refine ⟨by simpa using o1, ?_⟩
        rcases svEnt_val s m v ent with h2 | h2
        · exact h2
        · rw [h2]; exact o2
  · exact { r' with clean := fun he _ => r'.clean he (by simpa using fun e => hk e.symm) }

theorem lookup_setVal_same {s : MState} {t : Int} (h : StoreInv s t) {k : Bytes} {m : Meta} {v : Val}
    (hm : AList.get? s.index k = some m) (hv : m.value = some v) (k' : Bytes) :
    lookup (Api.setVal s k v) t k' = lookup s t k' := by
  have hsome : m.value.isSome = true := by simp [hv]
  rw [lookup_setVal h (Int.le_refl t) hm hsome]
  by_cases hk : k' = k
  · subst hk
    simp only [if_true, lookup, getMeta, hm, Option.bind_some]
    cases hexp : m.expired t with
    | true => simp [view_dead hexp]
    | false => simp [view_hot hv (h.recs k' m hm).ok hexp]
  · simp [hk]

/-! ### the common shape -/

def remTx (f : ZSet → ZSet × Int) (op : FeedOp) (s : MState) (now : Int) (key : Bytes) : Api.R :=
  let r := writeKey s now key none
  if !r.2 then (r.1, .int 0) else
  match Api.asZSet r.1 key with
  | none => (r.1, .panic)
  | some z =>
    let s1 := Api.setVal r.1 key (.zset (f z).1)
    let s2 := if DsZSet.zCard (f z).1 = 0 then delKey s1 key else s1
    if (f z).2 > 0 then (emit (signal s2 key) op, .int (f z).2) else (s2, .int (f z).2)

def remPost (f : ZSet → ZSet × Int) : Option (Val × Int) → Option (Val × Int)
  | some (.zset z, e) =>
    if (f z).2 > 0 then (if DsZSet.zCard (f z).1 = 0 then none else some (.zset (f z).1, e)) else some (.zset z, e)
  | L => L

def remOps (f : ZSet → ZSet × Int) (op : FeedOp) : Option (Val × Int) → List FeedOp
  | some (.zset z, _) => if (f z).2 > 0 then [op] else []
  | _ => []

/-- finding region (not reachable through the API): the key holds an *empty* sorted set and nothing
    is removed — the primary unlinks the key without telling anybody -/
def ZRemOnEmpty (f : ZSet → ZSet × Int) (L : Option (Val × Int)) : Prop :=
  ∃ z e, L = some (.zset z, e) ∧ DsZSet.zCard z = 0 ∧ (f z).2 ≤ 0

theorem remTx_spec (f : ZSet → ZSet × Int) (op : FeedOp) (hf0 : ∀ z, (f z).2 ≤ 0 → (f z).1 = z)
    (hgood : ∀ z, Good (.zset z) → Good (.zset (f z).1)) {s : MState} (h : StoreInv s now) (key : Bytes)
    (hreg : ¬ ZRemOnEmpty f (lookup s now key)) :
    StoreInv (remTx f op s now key).1 now ∧
    (∀ k', lookup (remTx f op s now key).1 now k' = upd (lookup s now) key (remPost f (lookup s now key)) k') ∧
    (s.listeners = true → fl (remTx f op s now key).1 = ((remOps f op (lookup s now key)).reverse ++ s.feed, true)) := by
  have ks := writeKey_spec h (Int.le_refl now) key none (fun _ hc => nomatch hc)
  have hfl := fl_writeKey s now key none
  unfold remTx
  generalize writeKey s now key none = r0 at ks hfl
  obtain ⟨s1, ok⟩ := r0
  simp only at hfl ⊢
  have same : (∀ k', lookup s1 now k' = lookup s now k') →
      ∀ k', lookup s1 now k' = upd (lookup s now) key (lookup s now key) k' := by
    intro hh k'; rw [upd_self]; exact hh k'
  cases hL : lookup s now key with
  | none =>
    obtain ⟨hok, hl⟩ := ks.miss hL rfl
    simp only at hok
    simp only [hok, Bool.not_false, if_true, remPost, remOps, List.reverse_nil, List.nil_append]
    refine ⟨ks.inv, ?_, fun hlis => by rw [hfl]; simp [fl, hlis]⟩
    rw [← hL]
    refine same (fun k' => ?_)
    by_cases hk : k' = key
    · subst hk; exact hl now (Int.le_refl _)
    · exact ks.other now (Int.le_refl _) k' hk
  | some cc =>
    obtain ⟨v, e⟩ := cc
    obtain ⟨hok, hl, m, hm, hv, he, _⟩ := ks.hit v e hL
    simp only at hok hm
    simp only [hok, Bool.not_true, Bool.false_eq_true, if_false]
    have hlook1 : ∀ k', lookup s1 now k' = lookup s now k' := by
      intro k'
      by_cases hk : k' = key
      · subst hk; exact hl now (Int.le_refl _)
      · exact ks.other now (Int.le_refl _) k' hk
    have hvo : valOf s1 key = some v := by simp [valOf, getMeta, hm, hv]
    cases v with
    | zset z =>
      have hz : Api.asZSet s1 key = some z := by simp [Api.asZSet, hvo]
      simp only [hz]
      have hgz : Good (.zset z) := (ks.inv.recs key m hm).good _ hv
      by_cases hr : (f z).2 > 0
      · simp only [hr, if_true, remPost, remOps]
        -- this is `runAct` with a `put` / `drop`
        by_cases hc : DsZSet.zCard (f z).1 = 0
        · simp only [hc, if_true]
          have hra : emit (signal (delKey (Api.setVal s1 key (.zset (f z).1)) key) key) op =
              (runAct s1 key (.drop (.zset (f z).1) [op] (.int (f z).2))).1 := rfl
          rw [hra]
          obtain ⟨a1, _, _, _, a5⟩ := runAct_spec ks.inv hm hv (.drop (.zset (f z).1) [op] (.int (f z).2)) (hgood z hgz)
          refine ⟨a1, fun k' => ?_, fun hlis => ?_⟩
          · rw [a5 now (Int.le_refl _) k']
            simp only [Act.eff, upd]
            by_cases hk : k' = key
            · simp [hk]
            · simp only [hk, if_false]; exact hlook1 k'
          · rw [fl_runAct _ _ _ ((congrArg Prod.snd hfl).trans hlis), show s1.feed = s.feed from congrArg Prod.fst hfl]
            rfl
        · simp only [hc, if_false]
          have hra : emit (signal (Api.setVal s1 key (.zset (f z).1)) key) op =
              (runAct s1 key (.put (some (.zset (f z).1)) none [op] (.int (f z).2))).1 := rfl
          rw [hra]
          obtain ⟨a1, _, _, _, a5⟩ := runAct_spec ks.inv hm hv (.put (some (.zset (f z).1)) none [op] (.int (f z).2))
            ⟨(fun w hw => by cases hw; exact hgood z hgz), (fun _ hx => nomatch hx)⟩
          refine ⟨a1, fun k' => ?_, fun hlis => ?_⟩
          · rw [a5 now (Int.le_refl _) k', he]
            simp only [Act.eff, Option.getD_some, Option.getD_none, upd, Option.bind_some]
            by_cases hk : k' = key
            · simp only [hk, if_true]; exact lookup_filt hL _
            · simp only [hk, if_false]; exact hlook1 k'
          · rw [fl_runAct _ _ _ ((congrArg Prod.snd hfl).trans hlis), show s1.feed = s.feed from congrArg Prod.fst hfl]
            rfl
      · have hr' : (f z).2 ≤ 0 := by omega
        have hfz := hf0 z hr'
        have hne : DsZSet.zCard z ≠ 0 := fun hc => hreg ⟨z, e, hL, hc, hr'⟩
        simp only [hr, if_false, remPost, remOps, hfz, hne, List.reverse_nil, List.nil_append]
        refine ⟨inv_setVal_same ks.inv hm hv, ?_, fun hlis => ?_⟩
        · rw [← hL, upd_self]
          intro k'
          rw [lookup_setVal_same ks.inv hm hv]; exact hlook1 k'
        · rw [fl_setVal, hfl]; simp [fl, hlis]
    | _ =>
      all_goals
        have hz : Api.asZSet s1 key = none := by simp [Api.asZSet, hvo]
        simp only [hz, remPost, remOps, List.reverse_nil, List.nil_append]
        refine ⟨ks.inv, ?_, fun hlis => by rw [hfl]; simp [fl, hlis]⟩
        rw [← hL]
        exact same hlook1

theorem remTx_replay (f : ZSet → ZSet × Int) (op : FeedOp) (hf0 : ∀ z, (f z).2 ≤ 0 → (f z).1 = z)
    (hgood : ∀ z, Good (.zset z) → Good (.zset (f z).1)) (key : Bytes)
    (hap : ∀ r0, Feed.applyOp r0 now op = some (remTx f op r0 now key).1)
    (hs : Same now p r) (hl : p.listeners = true) (hfd : p.feed = [])
    (c : Feed.CallInfo) (hc : plainMethod c.method = true) (hreg : ¬ ZRemOnEmpty f (lookup p now key)) :
    Replay now r c (remTx f op p now key) ∧ (remTx f op p now key).1.listeners = true ∧
    ∀ o ∈ (remTx f op p now key).1.feed.reverse, o.key = op.key := by
  obtain ⟨i1, l1, f1⟩ := remTx_spec f op hf0 hgood hs.invP key hreg
  have f1' := f1 hl
  have hfeed : (remTx f op p now key).1.feed = _ := congrArg Prod.fst f1'
  refine ⟨?_, congrArg Prod.snd f1', ?_⟩
  · unfold Replay
    rw [emission_plain hc, hfeed, hfd]
    simp only [List.append_nil, List.reverse_reverse]
    refine main_of i1 l1 ?_ ?_
    · intro k e
      by_cases hk : k = key
      · subst hk
        rw [upd_same]
        cases hL : lookup p now k with
        | none => simp [remPost]
        | some cc =>
          obtain ⟨v, e0⟩ := cc
          have := hs.nonil k e0
          cases v <;> simp only [remPost] <;> first | exact absurd hL this | (try split) <;> (try split) <;> simp
      · rw [upd_other _ _ _ hk]; exact hs.nonil k e
    · -- the replica
      have hK : lookup r now = lookup p now := funext hs.look
      have hregR : ¬ ZRemOnEmpty f (lookup r now key) := by rw [hK]; exact hreg
      obtain ⟨i2, l2, _⟩ := remTx_spec f op hf0 hgood hs.invR key hregR
      rw [hK] at l2
      cases hL : lookup p now key with
      | none =>
        simp only [remOps, remPost]
        rw [← hL, upd_self, ← hK]; exact Replays.nil hs.invR
      | some cc =>
        obtain ⟨v, e⟩ := cc
        cases v with
        | zset z =>
          by_cases hr : (f z).2 > 0
          · have : remOps f op (some (.zset z, e)) = [op] := by simp [remOps, hr]
            rw [this]
            rw [hL] at l2
            exact ⟨_, by simp [Feed.applyAll, hap], i2, l2⟩
          · have h1 : remOps f op (some (.zset z, e)) = [] := by simp [remOps, hr]
            have h2 : remPost f (some (.zset z, e)) = some (.zset z, e) := by simp [remPost, hr]
            rw [h1, h2, ← hL, upd_self, ← hK]; exact Replays.nil hs.invR
        | _ =>
          all_goals
            simp only [remOps, remPost]
            rw [← hL, upd_self, ← hK]; exact Replays.nil hs.invR
  · intro o ho
    rw [hfeed, hfd] at ho
    simp only [List.append_nil, List.reverse_reverse] at ho
    unfold remOps at ho
    split at ho
    · split at ho
      · simp at ho; rw [ho]
      · cases ho
    · cases ho

end NodisVerif.Proofs.C20
