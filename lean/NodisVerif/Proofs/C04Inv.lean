import NodisVerif.Proofs.C04AList
/-
  The sorted-set invariant in membership form (`Inv`), its equivalence with `ZSet.WF`, and its
  preservation by every mutating operation of `Model/DsZSet.lean`.
-/
namespace NodisVerif.Proofs.C04
open AListLemmas ZSetLemmas DsZSet

abbrev ILt (a b : Item) : Prop := itemLt a b = true

/-- membership form of the invariant -/
structure Inv (z : ZSet) : Prop where
  dictPW : z.dict.Pairwise KeyLt
  noNaN : ∀ p ∈ z.dict, F64.isNaN p.2 = false
  slPW : z.sl.Pairwise ILt
  mem_iff : ∀ s m, (s, m) ∈ z.sl ↔ (m, s) ∈ z.dict

theorem pairwise_chain : ∀ (l : List Item), l.Pairwise ILt → chainSorted l := by
  intro l
  induction l with
  | nil => intro _; trivial
  | cons a rest ih =>
    intro h
    obtain ⟨h1, h2⟩ := List.pairwise_cons.mp h
    cases rest with
    | nil => trivial
    | cons b rest => exact ⟨h1 b (by simp), ih h2⟩

theorem pairwise_nodup (l : List Item) (hpw : l.Pairwise ILt) (hg : ∀ a ∈ l, Good a) : l.Nodup := by
  unfold List.Nodup
  refine List.Pairwise.imp_of_mem ?_ hpw
  intro a b ha _ hab e
  subst e
  exact itemLt_irrefl a (hg a ha) hab

namespace Inv
variable {z : ZSet}

theorem good (h : Inv z) : ∀ a ∈ z.sl, Good a := by
  intro a ha
  obtain ⟨s, m⟩ := a
  exact h.noNaN (m, s) ((h.mem_iff s m).mp ha)

theorem nodup (h : Inv z) : z.sl.Nodup := pairwise_nodup z.sl h.slPW h.good

theorem get_iff (h : Inv z) (s : F64) (m : Bytes) : AList.get? z.dict m = some s ↔ (s, m) ∈ z.sl := by
  rw [h.mem_iff, get?_iff_mem m s z.dict h.dictPW]

theorem member_unique (h : Inv z) (s s' : F64) (m : Bytes) (h1 : (s, m) ∈ z.sl) (h2 : (s', m) ∈ z.sl) :
    s = s' :=
  pairwise_key_unique z.dict h.dictPW m s s' ((h.mem_iff s m).mp h1) ((h.mem_iff s' m).mp h2)

theorem dict_nodup (h : Inv z) : (z.dict.map swap).Nodup := by
  unfold List.Nodup
  rw [List.pairwise_map]
  refine List.Pairwise.imp ?_ h.dictPW
  intro a b hab e
  have : a.1 = b.1 := by
    have := congrArg Prod.snd e
    simpa [swap] using this
  exact lt_ne _ _ hab this

theorem perm (h : Inv z) : z.sl.Perm (z.dict.map swap) := by
  rw [List.perm_ext_iff_of_nodup h.nodup h.dict_nodup]
  rintro ⟨s, m⟩
  rw [h.mem_iff]
  constructor
  · intro hm; exact List.mem_map.mpr ⟨(m, s), hm, rfl⟩
  · intro hm
    obtain ⟨⟨m', s'⟩, hp, e⟩ := List.mem_map.mp hm
    simp only [swap, Prod.mk.injEq] at e
    obtain ⟨rfl, rfl⟩ := e
    exact hp

theorem sameLen (h : Inv z) : z.sl.length = z.dict.length := by
  have := h.perm.length_eq
  simpa using this

theorem toWF (h : Inv z) : z.WF where
  dictSorted := pairwise_sorted z.dict h.dictPW
  noNaN := fun m s hm => h.noNaN (m, s) hm
  chainSorted := pairwise_chain z.sl h.slPW
  sameLen := h.sameLen
  agree := fun m s hm => (h.get_iff s m).mpr hm

end Inv

theorem Inv.ofWF {z : ZSet} (h : z.WF) : Inv z := by
  have hdpw := sorted_pairwise z.dict h.dictSorted
  have hslin : ∀ a ∈ z.sl, a ∈ z.dict.map swap := by
    intro a ha
    obtain ⟨s, m⟩ := a
    have := get?_some_mem m s z.dict (h.agree m s ha)
    exact List.mem_map.mpr ⟨(m, s), this, rfl⟩
  have hslgood : ∀ a ∈ z.sl, Good a := by
    intro a ha
    obtain ⟨p, hp, rfl⟩ := List.mem_map.mp (hslin a ha)
    exact h.noNaN p.1 p.2 hp
  have hslpw := chain_pairwise z.sl h.chainSorted hslgood
  have hnd : z.sl.Nodup := pairwise_nodup z.sl hslpw hslgood
  have hdin : ∀ a ∈ z.dict.map swap, a ∈ z.sl :=
    pigeon z.sl (z.dict.map swap) hnd hslin (by simp [h.sameLen])
  refine ⟨hdpw, fun p hp => h.noNaN p.1 p.2 hp, hslpw, ?_⟩
  intro s m
  constructor
  · intro hm
    exact get?_some_mem m s z.dict (h.agree m s hm)
  · intro hm
    exact hdin (s, m) (List.mem_map.mpr ⟨(m, s), hm, rfl⟩)

theorem wf_iff_inv (z : ZSet) : z.WF ↔ Inv z := ⟨Inv.ofWF, Inv.toWF⟩

theorem inv_empty : Inv DsZSet.empty :=
  ⟨List.Pairwise.nil, by simp [DsZSet.empty], List.Pairwise.nil, by simp [DsZSet.empty]⟩

/-! ### `slRemove` -/

theorem slRemove_sublist (m : Bytes) (s : F64) : ∀ (l : List Item), (slRemove l m s).Sublist l := by
  intro l
  induction l with
  | nil => exact List.Sublist.refl _
  | cons n rest ih =>
    unfold slRemove
    split
    · exact ih.cons_cons _
    · split
      · exact List.sublist_cons_self _ _
      · exact List.Sublist.refl _

theorem mem_slRemove (m : Bytes) (s : F64) (x : Item) : ∀ (l : List Item), l.Pairwise ILt →
    (∀ a ∈ l, Good a) → (s, m) ∈ l → (x ∈ slRemove l m s ↔ x ∈ l ∧ x ≠ (s, m)) := by
  intro l
  induction l with
  | nil => intro _ _ h; simp at h
  | cons n rest ih =>
    intro hpw hg hin
    obtain ⟨h1, h2⟩ := List.pairwise_cons.mp hpw
    have hgn : Good n := hg n (by simp)
    unfold slRemove
    by_cases hlt : nodeLt n s m = true
    · rw [if_pos hlt]
      have hne : n ≠ (s, m) := by
        intro e
        subst e
        exact itemLt_irrefl _ hgn hlt
      have hin' : (s, m) ∈ rest := by
        rcases List.mem_cons.mp hin with e | e
        · exact absurd e.symm hne
        · exact e
      simp only [List.mem_cons, ih h2 (fun a ha => hg a (by simp [ha])) hin']
      constructor
      · rintro (e | ⟨e, e'⟩)
        · exact ⟨Or.inl e, by rw [e]; exact hne⟩
        · exact ⟨Or.inr e, e'⟩
      · rintro ⟨e | e, e'⟩
        · exact Or.inl e
        · exact Or.inr ⟨e, e'⟩
    · rw [if_neg hlt]
      have hn : n = (s, m) := by
        rcases List.mem_cons.mp hin with e | e
        · exact e.symm
        · exact absurd (h1 _ e) hlt
      subst hn
      have hs : F64.isNaN s = false := hgn
      have hc : (F64.eq s s = true ∧ m = m) := by
        simp [F64.eq, hs]
      rw [if_pos hc]
      simp only [List.mem_cons]
      constructor
      · intro e
        refine ⟨Or.inr e, ?_⟩
        intro e'
        subst e'
        exact itemLt_irrefl _ hgn (h1 _ e)
      · rintro ⟨e | e, e'⟩
        · exact absurd e e'
        · exact e

/-! ### folding `erase` over a list of items -/

theorem foldl_erase_sublist : ∀ (rem : List Item) (d : AList F64),
    (rem.foldl (fun d it => AList.erase d it.2) d).Sublist d := by
  intro rem
  induction rem with
  | nil => intro d; exact List.Sublist.refl _
  | cons a rem ih =>
    intro d
    exact (ih (AList.erase d a.2)).trans (erase_sublist a.2 d)

theorem mem_foldl_erase (q : Bytes × F64) : ∀ (rem : List Item) (d : AList F64), d.Pairwise KeyLt →
    (q ∈ rem.foldl (fun d it => AList.erase d it.2) d ↔ q ∈ d ∧ ∀ it ∈ rem, it.2 ≠ q.1) := by
  intro rem
  induction rem with
  | nil => intro d _; simp
  | cons a rem ih =>
    intro d hd
    simp only [List.foldl_cons, List.mem_cons, forall_eq_or_imp]
    rw [ih (AList.erase d a.2) (erase_pairwise a.2 d hd), mem_erase a.2 q d hd]
    constructor
    · rintro ⟨⟨h1, h2⟩, h3⟩; exact ⟨h1, Ne.symm h2, h3⟩
    · rintro ⟨h1, h2, h3⟩; exact ⟨⟨h1, Ne.symm h2⟩, h3⟩

/-- removing a contiguous block of the chain together with its members from the dictionary -/
theorem inv_removeBlock {z : ZSet} (h : Inv z) (a rem b : List Item) (hsl : z.sl = a ++ rem ++ b) :
    Inv { dict := rem.foldl (fun d it => AList.erase d it.2) z.dict, sl := a ++ b } := by
  have hsub : (a ++ b).Sublist z.sl := by
    rw [hsl, List.append_assoc]
    exact List.Sublist.append (List.Sublist.refl a) (List.sublist_append_right rem b)
  have hnd := h.nodup
  rw [hsl] at hnd
  refine ⟨h.dictPW.sublist (foldl_erase_sublist rem z.dict), ?_, h.slPW.sublist hsub, ?_⟩
  · intro p hp
    exact h.noNaN p ((foldl_erase_sublist rem z.dict).subset hp)
  · intro s m
    rw [mem_foldl_erase (m, s) rem z.dict h.dictPW, ← h.mem_iff]
    constructor
    · intro hm
      refine ⟨hsub.subset hm, ?_⟩
      intro it hit hitm
      have hit' : it ∈ z.sl := by rw [hsl]; simp [hit]
      obtain ⟨s', m'⟩ := it
      simp only at hitm
      subst hitm
      have := h.member_unique s' s m' hit' (hsub.subset hm)
      subst this
      -- (s', m') ∈ rem and ∈ a ++ b contradicts nodup
      rw [List.append_assoc] at hnd
      rcases List.mem_append.mp hm with ha | hb
      · exact (List.nodup_append.mp hnd).2.2 _ ha _ (List.mem_append.mpr (Or.inl hit)) rfl
      · exact (List.nodup_append.mp (List.nodup_append.mp hnd).2.1).2.2 _ hit _ hb rfl
    · rintro ⟨hm, hnot⟩
      rw [hsl] at hm
      simp only [List.mem_append] at hm ⊢
      rcases hm with (ha | hr) | hb
      · exact Or.inl ha
      · exact absurd rfl (hnot _ hr)
      · exact Or.inr hb

/-! ### preservation -/

theorem inv_zAdd {z : ZSet} (h : Inv z) (m : Bytes) (s : F64) (hs : F64.isNaN s = false) :
    Inv (zAdd z m s).1 := by
  have hg : Good (s, m) := hs
  unfold zAdd
  cases hget : AList.get? z.dict m with
  | none =>
    simp only
    have hnot : ∀ a ∈ z.sl, a.2 ≠ m := by
      intro a ha
      obtain ⟨s', m'⟩ := a
      exact (get?_none_iff m z.dict).mp hget (m', s') ((h.mem_iff s' m').mp ha)
    refine ⟨set_pairwise m s z.dict h.dictPW, ?_, slInsert_pairwise m s hg z.sl h.slPW h.good hnot, ?_⟩
    · intro p hp
      rcases (mem_set m s p z.dict h.dictPW).mp hp with rfl | ⟨hp, _⟩
      · exact hs
      · exact h.noNaN p hp
    · intro s' m'
      rw [mem_slInsert, mem_set m s _ z.dict h.dictPW, h.mem_iff]
      constructor
      · rintro (e | e)
        · left; simp only [Prod.mk.injEq] at e ⊢; exact ⟨e.2, e.1⟩
        · exact Or.inr ⟨e, hnot (s', m') ((h.mem_iff s' m').mpr e)⟩
      · rintro (e | ⟨e, _⟩)
        · left; simp only [Prod.mk.injEq] at e ⊢; exact ⟨e.2, e.1⟩
        · exact Or.inr e
  | some old =>
    simp only
    have hold : (old, m) ∈ z.sl := (h.get_iff old m).mp hget
    by_cases heq : F64.eq s old = true
    · rw [if_pos heq]
      exact h
    · rw [if_neg heq]
      simp only
      have hsub := slRemove_sublist m old z.sl
      have hrm := fun x => mem_slRemove m old x z.sl h.slPW h.good hold
      have hnot : ∀ a ∈ slRemove z.sl m old, a.2 ≠ m := by
        intro a ha e
        obtain ⟨s', m'⟩ := a
        simp only at e
        subst e
        have ha' := (hrm (s', m')).mp ha
        have := h.member_unique s' old m' ha'.1 hold
        subst this
        exact ha'.2 rfl
      refine ⟨set_pairwise m s z.dict h.dictPW, ?_,
        slInsert_pairwise m s hg _ (h.slPW.sublist hsub) (fun a ha => h.good a (hsub.subset ha)) hnot, ?_⟩
      · intro p hp
        rcases (mem_set m s p z.dict h.dictPW).mp hp with rfl | ⟨hp, _⟩
        · exact hs
        · exact h.noNaN p hp
      · intro s' m'
        rw [mem_slInsert, mem_set m s _ z.dict h.dictPW, hrm, h.mem_iff]
        constructor
        · rintro (e | ⟨e, e'⟩)
          · left; simp only [Prod.mk.injEq] at e ⊢; exact ⟨e.2, e.1⟩
          · refine Or.inr ⟨e, ?_⟩
            intro em
            simp only at em
            subst em
            have := h.member_unique s' old m' ((h.mem_iff s' m').mpr e) hold
            subst this
            exact e' rfl
        · rintro (e | ⟨e, e'⟩)
          · left; simp only [Prod.mk.injEq] at e ⊢; exact ⟨e.2, e.1⟩
          · refine Or.inr ⟨e, ?_⟩
            intro ee
            simp only [Prod.mk.injEq] at ee
            exact e' ee.2

theorem inv_zRem_step {z : ZSet} (h : Inv z) (m : Bytes) (sc : F64)
    (hget : AList.get? z.dict m = some sc) :
    Inv { dict := AList.erase z.dict m, sl := slRemove z.sl m sc } := by
  have hold : (sc, m) ∈ z.sl := (h.get_iff sc m).mp hget
  have hsub := slRemove_sublist m sc z.sl
  have hrm := fun x => mem_slRemove m sc x z.sl h.slPW h.good hold
  refine ⟨erase_pairwise m z.dict h.dictPW, ?_, h.slPW.sublist hsub, ?_⟩
  · intro p hp
    exact h.noNaN p ((erase_sublist m z.dict).subset hp)
  · intro s' m'
    show (s', m') ∈ slRemove z.sl m sc ↔ (m', s') ∈ AList.erase z.dict m
    rw [hrm, mem_erase m _ z.dict h.dictPW, h.mem_iff]
    constructor
    · rintro ⟨e, e'⟩
      refine ⟨e, ?_⟩
      intro em
      simp only at em
      subst em
      have := h.member_unique s' sc m' ((h.mem_iff s' m').mpr e) hold
      subst this
      exact e' rfl
    · rintro ⟨e, e'⟩
      refine ⟨e, ?_⟩
      intro ee
      simp only [Prod.mk.injEq] at ee
      exact e' ee.2

def remStep (acc : ZSet × Int) (m : Bytes) : ZSet × Int :=
  match AList.get? acc.1.dict m with
  | some sc => ({ dict := AList.erase acc.1.dict m, sl := slRemove acc.1.sl m sc }, acc.2 + 1)
  | none => acc

theorem zRem_eq (z : ZSet) (ms : List Bytes) : zRem z ms = ms.foldl remStep (z, 0) := rfl

theorem inv_remStep {acc : ZSet × Int} (h : Inv acc.1) (m : Bytes) : Inv (remStep acc m).1 := by
  unfold remStep
  cases hget : AList.get? acc.1.dict m with
  | none => exact h
  | some sc => exact inv_zRem_step h m sc hget

theorem inv_foldl_remStep : ∀ (ms : List Bytes) (acc : ZSet × Int), Inv acc.1 →
    Inv (ms.foldl remStep acc).1 := by
  intro ms
  induction ms with
  | nil => intro acc h; exact h
  | cons m ms ih => intro acc h; exact ih _ (inv_remStep h m)

theorem inv_zRem {z : ZSet} (h : Inv z) (ms : List Bytes) : Inv (zRem z ms).1 :=
  inv_foldl_remStep ms (z, 0) h

theorem takeWhile_append_drop {α : Type} (p : α → Bool) : ∀ (l : List α),
    l.takeWhile p ++ l.drop (l.takeWhile p).length = l := by
  intro l
  induction l with
  | nil => rfl
  | cons a l ih =>
    by_cases h : p a = true
    · simp [h, ih]
    · simp [h]

theorem inv_zRemRangeByScore {z : ZSet} (h : Inv z) (min max : F64) (mode : Nat) :
    Inv (zRemRangeByScore z min max mode).1 := by
  unfold zRemRangeByScore slRemoveRange
  simp only
  apply inv_removeBlock h
  rw [List.append_assoc, takeWhile_append_drop, takeWhile_append_drop]

/-- `ZRemRangeByRank` after its index normalisation -/
def remByRankCore (z : ZSet) (s e : Int) : ZSet × Int :=
  if s > e ∨ s ≥ zCard z then (z, 0) else
  ({ dict := (slRemoveRangeByRank z.sl (s + 1) (e + 1)).2.foldl (fun d it => AList.erase d it.2) z.dict,
     sl := (slRemoveRangeByRank z.sl (s + 1) (e + 1)).1 },
   (slRemoveRangeByRank z.sl (s + 1) (e + 1)).2.length)

def normStart (size start : Int) : Int :=
  if start < 0 then (if start + size < 0 then 0 else start + size) else start
def normStop (size stop : Int) : Int :=
  let stop := if stop < 0 then stop + size else stop
  if stop ≥ size then size - 1 else stop

theorem zRemRangeByRank_core (z : ZSet) (start stop : Int) :
    zRemRangeByRank z start stop
      = remByRankCore z (normStart (zCard z) start) (normStop (zCard z) stop) := rfl

theorem inv_remByRankCore {z : ZSet} (h : Inv z) (s e : Int) : Inv (remByRankCore z s e).1 := by
  unfold remByRankCore
  split
  · exact h
  · unfold slRemoveRangeByRank
    simp only
    apply inv_removeBlock h
    rw [List.append_assoc, List.take_append_drop, List.take_append_drop]

theorem inv_zRemRangeByRank {z : ZSet} (h : Inv z) (start stop : Int) :
    Inv (zRemRangeByRank z start stop).1 := by
  rw [zRemRangeByRank_core]
  exact inv_remByRankCore h _ _

theorem inv_zAddXX {z : ZSet} (h : Inv z) (m : Bytes) (s : F64) (hs : F64.isNaN s = false) :
    Inv (zAddXX z m s).1 := by
  unfold zAddXX
  split
  · exact inv_zAdd h m s hs
  · exact h

theorem inv_zAddNX {z : ZSet} (h : Inv z) (m : Bytes) (s : F64) (hs : F64.isNaN s = false) :
    Inv (zAddNX z m s).1 := by
  unfold zAddNX
  split
  · exact inv_zAdd h m s hs
  · exact h

theorem inv_zAddLT {z : ZSet} (h : Inv z) (m : Bytes) (s : F64) (hs : F64.isNaN s = false) :
    Inv (zAddLT z m s).1 := by
  unfold zAddLT
  cases hget : AList.get? z.dict m with
  | none => exact h
  | some e =>
    simp only
    split
    · exact inv_zAdd h m s hs
    · exact h

theorem inv_zAddGT {z : ZSet} (h : Inv z) (m : Bytes) (s : F64) (hs : F64.isNaN s = false) :
    Inv (zAddGT z m s).1 := by
  unfold zAddGT
  cases hget : AList.get? z.dict m with
  | none => exact h
  | some e =>
    simp only
    split
    · exact inv_zAdd h m s hs
    · exact h

end NodisVerif.Proofs.C04
