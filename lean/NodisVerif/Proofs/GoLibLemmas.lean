import NodisVerif.Model.GoLib
/-
  Lemmas about the translator's run-time library (Model/GoLib.lean): what `wrap` is on each Go type,
  how the loop lists unfold, the bit operations on bytes.  Committed (not regenerated): GoLib is hand-written.
-/
namespace NodisVerif.GoLib

theorem wrap_u8 (x : Int) : wrap .u8 x = x % 256 := by simp [wrap, IT.u8]
theorem wrap_u16 (x : Int) : wrap .u16 x = x % 65536 := by simp [wrap, IT.u16]
theorem wrap_u32 (x : Int) : wrap .u32 x = x % 4294967296 := by simp [wrap, IT.u32]
theorem wrap_u64 (x : Int) : wrap .u64 x = x % 18446744073709551616 := by simp [wrap, IT.u64]

theorem wrap_i64 (x : Int) : wrap .i64 x = wrap64 x := by
  simp [wrap, wrap64, IT.i64, int64Max]
  split <;> split <;> omega

theorem wrap_i64_id {x : Int} (h : -9223372036854775808 ≤ x ∧ x ≤ 9223372036854775807) : wrap .i64 x = x := by
  rw [wrap_i64]; unfold wrap64 int64Max; simp only []; split <;> omega

theorem wrap_i32 (x : Int) : wrap .i32 x = (if x % 4294967296 ≥ 2147483648 then x % 4294967296 - 4294967296 else x % 4294967296) := by
  simp [wrap, IT.i32]
theorem wrap_i16 (x : Int) : wrap .i16 x = (if x % 65536 ≥ 32768 then x % 65536 - 65536 else x % 65536) := by
  simp [wrap, IT.i16]
theorem wrap_i8 (x : Int) : wrap .i8 x = (if x % 256 ≥ 128 then x % 256 - 256 else x % 256) := by
  simp [wrap, IT.i8]

theorem irange_nil {lo hi : Int} (h : hi ≤ lo) : irange lo hi = [] := by
  have : (hi - lo).toNat = 0 := by omega
  simp [irange, this]

theorem irange_cons {lo hi : Int} (h : lo < hi) : irange lo hi = lo :: irange (lo + 1) hi := by
  have : (hi - lo).toNat = (hi - (lo + 1)).toNat + 1 := by omega
  simp only [irange, this, List.range_succ_eq_map, List.map_cons, List.map_map]
  simp only [Int.natCast_zero, Int.add_zero, List.cons.injEq, true_and]
  apply List.map_congr_left
  intro a _
  simp only [Function.comp, Int.natCast_succ]
  omega

theorem len_eq (s : List α) : len s = (s.length : Int) := rfl

theorem idx_append_len (pre : Bytes) (c : UInt8) (rest : Bytes) : idx (pre ++ c :: rest) (pre.length : Int) = .ok (c.toNat : Int) := by
  have h : (0 : Int) ≤ (pre.length : Int) ∧ (pre.length : Int) < ((pre ++ c :: rest).length : Int) := by
    simp only [List.length_append, List.length_cons]; omega
  simp only [idx, h, and_self, if_true, pure, Except.pure]
  simp

/-- the loop `for i := k; i < len(s); i++ { acc = g(acc, s[i]) }` is a left fold over the rest of s and never panics -/
theorem forIn_irange_idx_fold {β : Type} (g : β → Int → β) (suf : Bytes) : ∀ (pre : Bytes) (init : β),
    forIn (m := M) (irange (pre.length : Int) (len (pre ++ suf))) init
      (fun i s => do let c ← idx (pre ++ suf) i; pure (ForInStep.yield (g s c)))
    = .ok (suf.foldl (fun s c => g s (c.toNat : Int)) init) := by
  induction suf with
  | nil => intro pre init; simp [len_eq, irange_nil, pure, Except.pure]
  | cons c rest ih =>
    intro pre init
    have hlt : (pre.length : Int) < len (pre ++ c :: rest) := by
      simp only [len_eq, List.length_append, List.length_cons]; omega
    rw [irange_cons hlt, List.forIn_cons, idx_append_len]
    have := ih (pre ++ [c]) (g init (c.toNat : Int))
    simp only [List.append_assoc, List.singleton_append, List.length_append, List.length_singleton, Int.natCast_add, Int.natCast_one] at this
    simp only [bind, Except.bind, pure, Except.pure, List.foldl_cons]
    exact this

/-- the loop `for _, c := range s { acc = g(acc, c) }` over a []byte is the same left fold -/
theorem forIn_enum_fold {β : Type} (g : β → Int → β) (s : Bytes) (init : β) :
    forIn (m := M) (enum s) init (fun x acc => pure (ForInStep.yield (g acc x.2)))
    = .ok (s.foldl (fun a c => g a (c.toNat : Int)) init) := by
  unfold enum
  generalize 0 = k
  induction s generalizing init k with
  | nil => simp [pure, Except.pure]
  | cons c rest ih =>
    simp only [List.zipIdx_cons, List.map_cons, List.forIn_cons, List.foldl_cons, bind, Except.bind, pure, Except.pure]
    exact ih _ _

end NodisVerif.GoLib


namespace NodisVerif

theorem wrap64_id {x : Int} (h : -9223372036854775808 ≤ x ∧ x ≤ 9223372036854775807) : wrap64 x = x := by
  unfold wrap64 int64Max; simp only []; split <;> omega

theorem wrap64_range (x : Int) : -9223372036854775808 ≤ wrap64 x ∧ wrap64 x ≤ 9223372036854775807 := by
  unfold wrap64 int64Max; simp only []; split <;> omega

theorem inInt64_iff {x : Int} : inInt64 x = true ↔ (-9223372036854775808 ≤ x ∧ x ≤ 9223372036854775807) := by
  unfold inInt64 int64Min int64Max; exact decide_eq_true_iff

end NodisVerif
