import NodisVerif.Proofs.ProtoInv
/-
  Locking protocol: a commit can always run to its end and releases everything (C06.5).
-/
namespace NodisVerif.Proofs.Proto
open NodisVerif.Proto

/-- the releases of a commit: one `unlock` per hold, then `fin` -/
def releaseSeq (t : Tx) (holds : List Hold) : List Ev := holds.map (fun h => Ev.unlock t h.rid) ++ [.fin t]

/-- what a run of `t`'s own release steps leaves untouched -/
structure SameButTx (t : Tx) (s s' : PState) : Prop where
  index : s'.index = s.index
  pending : s'.pending = s.pending
  names : s'.names = s.names
  others : ∀ u, u ≠ t → s'.tx u = s.tx u

theorem SameButTx.refl (t : Tx) (s : PState) : SameButTx t s s := ⟨rfl, rfl, rfl, fun _ _ => rfl⟩

theorem SameButTx.trans {t : Tx} {a b c : PState} (h1 : SameButTx t a b) (h2 : SameButTx t b c) :
    SameButTx t a c :=
  ⟨h2.index.trans h1.index, h2.pending.trans h1.pending, h2.names.trans h1.names,
    fun u hu => (h2.others u hu).trans (h1.others u hu)⟩

theorem SameButTx.setTx (t : Tx) (s : PState) (st : TxSt) : SameButTx t s (s.setTx t st) :=
  ⟨rfl, rfl, rfl, fun _ hu => tx_setTx_ne _ _ hu⟩

theorem filter_ne_head {h : Hold} {tl : List Hold} (hn : NodupRids (h :: tl)) :
    (h :: tl).filter (·.rid != h.rid) = tl := by
  simp only [NodupRids, List.map_cons, List.nodup_cons] at hn
  rw [List.filter_cons]
  simp only [bne_self_eq_false, Bool.false_eq_true, if_false]
  apply List.filter_eq_self.2
  intro g hg
  simp only [bne_iff_ne, ne_eq]
  intro c
  exact hn.1 (c ▸ List.mem_map.2 ⟨g, hg, rfl⟩)

/-- a committing transaction can release all its holds, one by one -/
theorem unlock_all (t : Tx) (hs : List Hold) : ∀ (s : PState) (st : TxSt), s.tx t = some st →
    st.committing = true → st.holds = hs → NodupRids hs →
    ∃ s' st', runAll s (hs.map fun h => Ev.unlock t h.rid) = some s' ∧ s'.tx t = some st' ∧
      st'.holds = [] ∧ st'.waiting = st.waiting ∧ SameButTx t s s' := by
  induction hs with
  | nil =>
    intro s st htx _ hh _
    exact ⟨s, st, rfl, htx, hh, rfl, SameButTx.refl t s⟩
  | cons h tl ih =>
    intro s st htx hc hh hn
    have hof : st.holdOf h.rid = some h := holdOf_of_mem (hh ▸ hn) (hh ▸ List.mem_cons_self)
    have h1 : step s (.unlock t h.rid) = some (s.setTx t (st.delHold h.rid)) :=
      step_unlock.2 ⟨st, h, htx, hof, Or.inl hc, rfl⟩
    have hdel : (st.delHold h.rid).holds = tl := by
      simp only [TxSt.delHold, hh]; exact filter_ne_head hn
    have hn' : NodupRids tl := by
      simp only [NodupRids, List.map_cons, List.nodup_cons] at hn; exact hn.2
    obtain ⟨s', st', hr, htx', hh', hw', hsame⟩ :=
      ih (s.setTx t (st.delHold h.rid)) (st.delHold h.rid) (tx_setTx_same _ _ _) hc hdel hn'
    refine ⟨s', st', ?_, htx', hh', hw', (SameButTx.setTx t s _).trans hsame⟩
    simp only [List.map_cons, runAll_cons, h1, Option.bind_some]
    exact hr

/-- … and then end: afterwards the transaction is gone, everything else is as before -/
theorem release_committing {s : PState} (hi : Inv s) {t : Tx} {st : TxSt} (htx : s.tx t = some st)
    (hc : st.committing = true) :
    ∃ s', runAll s (releaseSeq t st.holds) = some s' ∧ s'.tx t = none ∧ SameButTx t s s' := by
  have hw : st.waiting = none := by
    cases h : st.waiting with
    | none => rfl
    | some p =>
      obtain ⟨k, r, m⟩ := p
      have := (hi.waitOk t st k r m htx h).2.1
      rw [hc] at this; cases this
  obtain ⟨s1, st1, hr, htx1, hh1, hw1, hsame⟩ := unlock_all t st.holds s st htx hc rfl (hi.holdNodup t st htx)
  have hfin : step s1 (.fin t) = some { s1 with txs := erase s1.txs t } :=
    step_fin.2 ⟨st1, htx1, hh1, hw1.trans hw, rfl⟩
  refine ⟨{ s1 with txs := erase s1.txs t }, ?_, ?_, ?_⟩
  · unfold releaseSeq
    rw [runAll_append, hr]
    simp [runAll, hfin]
  · simp [PState.tx, assoc_erase]
  · refine hsame.trans ⟨rfl, rfl, rfl, ?_⟩
    intro u hu
    simp [PState.tx, assoc_erase, hu]

/-- a transaction that is not blocked and has validated all it holds can commit, release, end -/
theorem commit_and_release {s : PState} (hi : Inv s) {t : Tx} {st : TxSt} (htx : s.tx t = some st)
    (hc : st.committing = false) (hw : st.waiting = none) (hv : ∀ h ∈ st.holds, h.valid = true) :
    ∃ s', runAll s (.commit t :: releaseSeq t st.holds) = some s' ∧ s'.tx t = none ∧ SameButTx t s s' := by
  have h1 : step s (.commit t) = some (s.setTx t { st with committing := true }) :=
    step_commit.2 ⟨st, htx, hc, hw, hv, rfl⟩
  obtain ⟨s', hr, hnone, hsame⟩ :=
    release_committing (hi.step h1) (t := t) (st := { st with committing := true }) (tx_setTx_same _ _ _) rfl
  refine ⟨s', ?_, hnone, (SameButTx.setTx t s _).trans hsame⟩
  simp only [runAll_cons, h1, Option.bind_some]
  exact hr

end NodisVerif.Proofs.Proto
