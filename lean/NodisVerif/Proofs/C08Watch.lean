import NodisVerif.Proofs.C08Ops
/-
  The registration relation (`registered sv i x`: connection i is in the registry list of key x),
  how WATCH / unwatchAll / signalling change it, and the reachable-state invariant `RegWF`
  (registry sorted; a registered connection has the key in its own watch map).
-/
namespace NodisVerif.Proofs.C08Step
open Resp Server
open NodisVerif.Proofs.AListLemmas2

/-- connection `i` is in the registry's list for key `x` (it will be told when `x` is signalled) -/
def registered (sv : Server) (i : String) (x : Bytes) : Prop :=
  ∃ ids, AList.get? sv.registry x = some ids ∧ i ∈ ids

theorem registered_congr {sv sv' : Server} (h : sv'.registry = sv.registry) (i : String) (x : Bytes) :
    registered sv' i x ↔ registered sv i x := by simp [registered, h]

/-- one key of WATCH -/
def watchOne (id : String) (sv : Server) (key : Bytes) : Server :=
  let c := sv.conn id
  let c := if AList.contains c.watch key then c else { c with watch := AList.set c.watch key false }
  let sv := sv.setConn id c
  match AList.get? sv.registry key with
  | none => { sv with registry := AList.set sv.registry key [id] }
  | some ids => if ids.contains id then sv else { sv with registry := AList.set sv.registry key (id :: ids) }

def watchLoop (id : String) (keys : List Bytes) (sv : Server) : Server := keys.foldl (watchOne id) sv

theorem watch_eq (sv : Server) (id : String) (keys : List Bytes) :
    watch sv id keys =
      if (sv.conn id).state % 2 = 1 then (sv, [Tok.err 0]) else
      if keys.isEmpty then (sv, [Tok.err 0]) else (watchLoop id keys sv, [okTok]) := rfl

theorem watchOne_store (id : String) (sv : Server) (key : Bytes) : (watchOne id sv key).store = sv.store := by
  unfold watchOne; simp only; split
  · rfl
  · split <;> rfl

theorem watchOne_conn (id : String) (sv : Server) (key : Bytes) (i : String) :
    (watchOne id sv key).conn i =
      if i = id then
        (if AList.contains (sv.conn id).watch key then sv.conn id
         else { (sv.conn id) with watch := AList.set (sv.conn id).watch key false })
      else sv.conn i := by
  have : ∀ (s : Server) (r : AList (List String)), ({ s with registry := r } : Server).conn i = s.conn i := fun _ _ => rfl
  unfold watchOne; simp only; split
  · rw [this, conn_setConn]
  · split
    · rw [conn_setConn]
    · rw [this, conn_setConn]

theorem watchOne_registered (id : String) (sv : Server) (key : Bytes) (i : String) (x : Bytes) :
    registered (watchOne id sv key) i x ↔ registered sv i x ∨ (i = id ∧ x = key) := by
  unfold watchOne registered; simp only [registry_setConn]
  cases hk : AList.get? sv.registry key with
  | none =>
    simp only [get?_set]
    by_cases hx : x = key
    · subst hx; simp [hk]
    · simp [hx]
  | some ids =>
    simp only
    by_cases hc : ids.contains id = true
    · simp only [hc, if_true, registry_setConn]
      constructor
      · intro h; exact Or.inl h
      · rintro (h | ⟨rfl, rfl⟩)
        · exact h
        · exact ⟨ids, hk, by simpa using hc⟩
    · simp only [hc, Bool.false_eq_true, if_false, get?_set]
      by_cases hx : x = key
      · subst hx; simp only [if_true, hk, Option.some.injEq, and_true]
        constructor
        · rintro ⟨ids', rfl, h⟩
          rcases List.mem_cons.mp h with h | h
          · exact Or.inr h
          · exact Or.inl ⟨ids, rfl, h⟩
        · rintro (⟨ids', rfl, h⟩ | h)
          · exact ⟨_, rfl, List.mem_cons_of_mem _ h⟩
          · exact ⟨_, rfl, by simp [h]⟩
      · simp [hx]

theorem watchOne_sorted (id : String) (sv : Server) (key : Bytes) (h : AList.Sorted sv.registry) :
    AList.Sorted (watchOne id sv key).registry := by
  unfold watchOne; simp only [registry_setConn]; split
  · exact set_preserves_sorted _ h _ _
  · split
    · exact h
    · exact set_preserves_sorted _ h _ _

theorem watchLoop_store (id : String) : ∀ (keys : List Bytes) (sv : Server), (watchLoop id keys sv).store = sv.store := by
  intro keys; induction keys with
  | nil => intro sv; rfl
  | cons k rest ih => intro sv; show (watchLoop id rest (watchOne id sv k)).store = _; rw [ih, watchOne_store]

theorem watchLoop_sorted (id : String) : ∀ (keys : List Bytes) (sv : Server), AList.Sorted sv.registry →
    AList.Sorted (watchLoop id keys sv).registry := by
  intro keys; induction keys with
  | nil => intro sv h; exact h
  | cons k rest ih => intro sv h; exact ih _ (watchOne_sorted id sv k h)

theorem watchLoop_conn_other (id : String) (i : String) (hi : i ≠ id) : ∀ (keys : List Bytes) (sv : Server),
    (watchLoop id keys sv).conn i = sv.conn i := by
  intro keys; induction keys with
  | nil => intro sv; rfl
  | cons k rest ih =>
    intro sv; show (watchLoop id rest (watchOne id sv k)).conn i = _
    rw [ih, watchOne_conn, if_neg hi]

theorem watchLoop_state_queue (id : String) : ∀ (keys : List Bytes) (sv : Server),
    ((watchLoop id keys sv).conn id).state = (sv.conn id).state ∧
    ((watchLoop id keys sv).conn id).queue = (sv.conn id).queue := by
  intro keys; induction keys with
  | nil => intro sv; exact ⟨rfl, rfl⟩
  | cons k rest ih =>
    intro sv; show ((watchLoop id rest (watchOne id sv k)).conn id).state = _ ∧ ((watchLoop id rest (watchOne id sv k)).conn id).queue = _
    rw [(ih _).1, (ih _).2, watchOne_conn, if_pos rfl]
    split <;> exact ⟨rfl, rfl⟩

/-- the connection's own flags after WATCH: a key not yet watched starts with flag false, a key
    already watched keeps its flag (a flag that is already true is NOT cleared by watching again) -/
theorem watchLoop_watch (id : String) : ∀ (keys : List Bytes) (sv : Server) (x : Bytes),
    AList.get? ((watchLoop id keys sv).conn id).watch x =
      if x ∈ keys ∧ AList.get? (sv.conn id).watch x = none then some false else AList.get? (sv.conn id).watch x := by
  intro keys; induction keys with
  | nil => intro sv x; simp [watchLoop]
  | cons k rest ih =>
    intro sv x
    show AList.get? ((watchLoop id rest (watchOne id sv k)).conn id).watch x = _
    rw [ih, watchOne_conn, if_pos rfl]
    by_cases hc : AList.contains (sv.conn id).watch k = true
    · simp only [hc, if_true, List.mem_cons]
      by_cases hx : x = k
      · subst hx
        obtain ⟨v, hv⟩ := (contains_eq_true_iff _ _).mp hc
        simp [hv]
      · simp [hx]
    · rw [if_neg hc]
      have hn : AList.get? (sv.conn id).watch k = none := (contains_eq_false_iff _ _).mp (by simpa using hc)
      by_cases hx : x = k
      · subst hx; simp [hn, get?_set_same]
      · simp [hx, get?_set_other _ _ _ _ hx]

theorem watchLoop_registered (id : String) (i : String) (x : Bytes) : ∀ (keys : List Bytes) (sv : Server),
    registered (watchLoop id keys sv) i x ↔ registered sv i x ∨ (i = id ∧ x ∈ keys) := by
  intro keys; induction keys with
  | nil => intro sv; simp [watchLoop]
  | cons k rest ih =>
    intro sv
    show registered (watchLoop id rest (watchOne id sv k)) i x ↔ _
    rw [ih, watchOne_registered]
    simp only [List.mem_cons]
    constructor
    · rintro ((h | ⟨a, b⟩) | ⟨a, b⟩)
      · exact Or.inl h
      · exact Or.inr ⟨a, Or.inl b⟩
      · exact Or.inr ⟨a, Or.inr b⟩
    · rintro (h | ⟨a, b | b⟩)
      · exact Or.inl (Or.inl h)
      · exact Or.inl (Or.inr ⟨a, b⟩)
      · exact Or.inr ⟨a, b⟩

/-! ### unwatchAll and the relation -/

theorem unwatchAll_registered (sv : Server) (id : String) (i : String) (x : Bytes) :
    registered (unwatchAll sv id) i x ↔
      registered sv i x ∧ ¬ (i = id ∧ AList.contains (sv.conn id).watch x = true) := by
  unfold registered
  rw [unwatchAll_registry]
  have hm : x ∈ (sv.conn id).watch.map (·.1) ↔ AList.contains (sv.conn id).watch x = true :=
    mem_keys_iff_contains _ _
  cases hk : AList.get? sv.registry x with
  | none => simp
  | some ids =>
    simp only [Option.map_some, Option.some.injEq, exists_eq_left', hm]
    by_cases hc : AList.contains (sv.conn id).watch x = true
    · simp only [hc, if_true, and_true, List.mem_filter, decide_eq_true_eq]
    · simp [hc]

/-! ### the invariant of reachable server states -/

/-- registry sorted by key (it is a `btree.Map`), and whoever is registered for a key has that key
    in its own `WatchKeys` -/
structure RegWF (sv : Server) : Prop where
  sorted : AList.Sorted sv.registry
  has : ∀ i x, registered sv i x → AList.contains (sv.conn i).watch x = true

theorem RegWF.init (st : MState) : RegWF { store := st } := by
  refine ⟨trivial, ?_⟩
  rintro i x ⟨ids, h, _⟩
  simp [AList.get?] at h

/-- membership form (what the `Clear()` loop sees) -/
theorem RegWF.of_mem {sv : Server} (h : RegWF sv) (x : Bytes) (ids : List String) (i : String)
    (hm : (x, ids) ∈ sv.registry) (hi : i ∈ ids) : registered sv i x :=
  ⟨ids, get?_of_mem _ h.sorted _ _ hm, hi⟩

theorem RegWF.flaggedC {S : String → Bytes → Prop} {sv sv' : Server} (h : RegWF sv) (f : FlaggedC S sv sv') : RegWF sv' := by
  refine ⟨by rw [f.registry]; exact h.sorted, ?_⟩
  intro i x hr
  exact f.contains_mono i x (h.has i x ((registered_congr f.registry i x).mp hr))

theorem RegWF.setConn_keep {sv : Server} (h : RegWF sv) (id : String) (c : ConnState)
    (hw : c.watch = (sv.conn id).watch) : RegWF (sv.setConn id c) := by
  refine ⟨h.sorted, ?_⟩
  intro i x hr
  rw [conn_setConn]
  split
  · next e => subst e; rw [hw]; exact h.has i x hr
  · exact h.has i x hr

theorem RegWF.unwatchAll {sv : Server} (h : RegWF sv) (id : String) : RegWF (unwatchAll sv id) := by
  refine ⟨unwatchAll_sorted sv id h.sorted, ?_⟩
  intro i x hr
  obtain ⟨h1, h2⟩ := (unwatchAll_registered sv id i x).mp hr
  by_cases hi : i = id
  · subst hi
    exact absurd ⟨rfl, h.has i x h1⟩ h2
  · rw [unwatchAll_conn_other _ _ _ hi]; exact h.has i x h1

/-- after `unwatchAll` the connection is in no registry list -/
theorem unwatchAll_unregistered {sv : Server} (h : RegWF sv) (id : String) (x : Bytes) :
    ¬ registered (unwatchAll sv id) id x := by
  intro hr
  obtain ⟨h1, h2⟩ := (unwatchAll_registered sv id id x).mp hr
  exact h2 ⟨rfl, h.has id x h1⟩

theorem RegWF.watchLoop {sv : Server} (h : RegWF sv) (id : String) (keys : List Bytes) : RegWF (watchLoop id keys sv) := by
  refine ⟨watchLoop_sorted id keys sv h.sorted, ?_⟩
  intro i x hr
  rcases (watchLoop_registered id i x keys sv).mp hr with h1 | ⟨rfl, h1⟩
  · by_cases hi : i = id
    · subst hi
      have := h.has i x h1
      obtain ⟨v, hv⟩ := (contains_eq_true_iff _ _).mp this
      rw [contains_eq_true_iff, watchLoop_watch]
      simp [hv]
    · rw [watchLoop_conn_other id i hi]; exact h.has i x h1
  · rw [contains_eq_true_iff, watchLoop_watch]
    cases hv : AList.get? (sv.conn i).watch x with
    | none => simp [h1]
    | some v => simp

end NodisVerif.Proofs.C08Step
