import NodisVerif.Model.Conn
import NodisVerif.Proofs.AListLemmas2
/-
  C08 / C09 / C16 — the dispatch step of one command of one connection, parameterised by an
  arbitrary handler table, and `run` over a command-granularity schedule of any number of
  connections.  `step` has the structure of `Driver.respStep` (MULTI / EXEC / DISCARD / WATCH /
  UNWATCH are intercepted, everything else goes through the table, then `afterHandler`).

  Basic facts about `Server.conn` / `Server.setConn` and the frame of every connection-level
  operation (what it leaves alone).
-/
namespace NodisVerif.Proofs.C08Step
open Resp Server
open NodisVerif.Proofs.AListLemmas2

/-- a handler table: command name (upper case) and arguments ↦ what the handler does -/
abbrev Table := String → List Bytes → Option HRes

/-- one complete command sent by one connection, with the clock reading and the relational
    choice that the server happens to have when it serves it -/
structure Cmd where
  id   : String
  name : String
  args : List Bytes := []
  now  : Int := 0
  ch   : Choice := none

def okTok : Tok := Tok.simple (Bytes.ofString "OK")
def queuedTok : Tok := Tok.simple (Bytes.ofString "QUEUED")

/-- the closure UNWATCH hands to `execCommand` (the registry side is `unwatchBody`) -/
def okBody : Body := fun s _ _ => { store := s, toks := [okTok] }

/-- the connection is in a state in which `execCommand` runs closures at once -/
def runsNow (st : Nat) : Prop := st = 0 ∨ st = multiCommit

instance (st : Nat) : Decidable (runsNow st) := by unfold runsNow; exact inferInstance

/-- dispatch of one command (before the error-flag bookkeeping of `Nodis.Serve`) -/
def dispatch (H : Table) (sv : Server) (c : Cmd) : Server × List Tok :=
  if c.name = "MULTI" then Server.multi sv c.id
  else if c.name = "EXEC" then Server.exec sv c.id c.now
  else if c.name = "DISCARD" then Server.discard sv c.id
  else if c.name = "WATCH" then Server.watch sv c.id c.args
  else if c.name = "UNWATCH" then
    let sv := if runsNow (sv.conn c.id).state then Server.unwatchBody c.id sv else sv
    Server.execCommand sv c.id c.now c.ch okBody
  else
    match H c.name c.args with
    | none => (sv, [Tok.err 0])
    | some (.direct ts) => (sv, ts)
    | some .crash => (sv, [Tok.err 0])
    | some (.exec b) => Server.execCommand sv c.id c.now c.ch b

/-- one step = one complete command of one connection -/
def step (H : Table) (sv : Server) (c : Cmd) : Server × List Tok :=
  let r := dispatch H sv c
  (Server.afterHandler r.1 c.id r.2, r.2)

/-- a schedule is any interleaving, at command granularity, of the commands of any number of
    connections; `run` serves them one after the other and collects the replies -/
def run (H : Table) : Server → List Cmd → Server × List (List Tok)
  | sv, [] => (sv, [])
  | sv, c :: rest =>
    let r := step H sv c
    let q := run H r.1 rest
    (q.1, r.2 :: q.2)

def special (name : String) : Prop :=
  name = "MULTI" ∨ name = "EXEC" ∨ name = "DISCARD" ∨ name = "WATCH" ∨ name = "UNWATCH"

instance (n : String) : Decidable (special n) := by unfold special; exact inferInstance

/-! ### conn / setConn -/

@[simp] theorem conn_setConn_same (sv : Server) (id : String) (c : ConnState) :
    (sv.setConn id c).conn id = c := by
  simp [Server.conn, Server.setConn]

theorem conn_setConn_other (sv : Server) (id id' : String) (c : ConnState) (h : id' ≠ id) :
    (sv.setConn id c).conn id' = sv.conn id' := by
  have h1 : (id == id') = false := by simpa using (Ne.symm h)
  simp only [Server.conn, Server.setConn, List.find?_cons, h1, List.find?_filter]
  have : (fun (a : String × ConnState) => decide ((a.fst != id) = true ∧ (a.fst == id') = true))
      = (fun x => x.fst == id') := by
    funext a
    by_cases ha : a.1 = id'
    · subst ha; simp [h]
    · simp [ha]
  rw [this]

theorem conn_setConn (sv : Server) (id id' : String) (c : ConnState) :
    (sv.setConn id c).conn id' = if id' = id then c else sv.conn id' := by
  by_cases h : id' = id
  · subst h; simp
  · simp [h, conn_setConn_other _ _ _ _ h]

@[simp] theorem store_setConn (sv : Server) (id : String) (c : ConnState) :
    (sv.setConn id c).store = sv.store := rfl
@[simp] theorem registry_setConn (sv : Server) (id : String) (c : ConnState) :
    (sv.setConn id c).registry = sv.registry := rfl

end NodisVerif.Proofs.C08Step
