import NodisVerif.Model.Geohash
/-
  The bit tricks of internal/geohash on BitVec 64, bit by bit: `spreadBV` moves bit i of a 32-bit value
  to position 2i, `squashBV` moves bit 2i back to position i. Every one of the 64 output bits is
  evaluated symbolically by `simp` (the masks are literals); no SAT procedure (`bv_decide`) is used.
  (Generated text: the case lists; the statements are written by hand.)
-/
set_option linter.unusedSimpArgs false
namespace NodisVerif.Proofs.GeoBits
open NodisVerif NodisVerif.Geohash

def spreadBV (x : BitVec 64) : BitVec 64 :=
  let x := (x ||| x <<< 16) &&& 0x0000FFFF0000FFFF#64
  let x := (x ||| x <<< 8) &&& 0x00FF00FF00FF00FF#64
  let x := (x ||| x <<< 4) &&& 0x0F0F0F0F0F0F0F0F#64
  let x := (x ||| x <<< 2) &&& 0x3333333333333333#64
  (x ||| x <<< 1) &&& 0x5555555555555555#64

def squashBV (x : BitVec 64) : BitVec 64 :=
  let x := (x ||| x >>> 0) &&& 0x5555555555555555#64
  let x := (x ||| x >>> 1) &&& 0x3333333333333333#64
  let x := (x ||| x >>> 2) &&& 0x0F0F0F0F0F0F0F0F#64
  let x := (x ||| x >>> 4) &&& 0x00FF00FF00FF00FF#64
  let x := (x ||| x >>> 8) &&& 0x0000FFFF0000FFFF#64
  (x ||| x >>> 16) &&& 0x00000000FFFFFFFF#64

def m32 : BitVec 64 := 0x00000000FFFFFFFF#64

theorem spread_toBitVec (x : UInt64) : (spread x).toBitVec = spreadBV x.toBitVec := by
  simp [spread, spreadBV, b0, b1, b2, b3, b4]

theorem squash_toBitVec (x : UInt64) : (squash x).toBitVec = squashBV x.toBitVec := by
  simp [squash, squashBV, b0, b1, b2, b3, b4, b5]

theorem spread_bits_0 (x : BitVec 64) (i : Nat) (h1 : 0 ≤ i) (h2 : i < 8) :
    (spreadBV (x &&& m32)).getLsbD i = (decide (i % 2 = 0) && x.getLsbD (i / 2)) := by
  have hc : i = 0 ∨ i = 1 ∨ i = 2 ∨ i = 3 ∨ i = 4 ∨ i = 5 ∨ i = 6 ∨ i = 7 := by omega
  rcases hc with rfl | rfl | rfl | rfl | rfl | rfl | rfl | rfl <;>
    simp [spreadBV, m32, BitVec.getLsbD_and, BitVec.getLsbD_or, BitVec.getLsbD_shiftLeft]

theorem spread_bits_1 (x : BitVec 64) (i : Nat) (h1 : 8 ≤ i) (h2 : i < 16) :
    (spreadBV (x &&& m32)).getLsbD i = (decide (i % 2 = 0) && x.getLsbD (i / 2)) := by
  have hc : i = 8 ∨ i = 9 ∨ i = 10 ∨ i = 11 ∨ i = 12 ∨ i = 13 ∨ i = 14 ∨ i = 15 := by omega
  rcases hc with rfl | rfl | rfl | rfl | rfl | rfl | rfl | rfl <;>
    simp [spreadBV, m32, BitVec.getLsbD_and, BitVec.getLsbD_or, BitVec.getLsbD_shiftLeft]

theorem spread_bits_2 (x : BitVec 64) (i : Nat) (h1 : 16 ≤ i) (h2 : i < 24) :
    (spreadBV (x &&& m32)).getLsbD i = (decide (i % 2 = 0) && x.getLsbD (i / 2)) := by
  have hc : i = 16 ∨ i = 17 ∨ i = 18 ∨ i = 19 ∨ i = 20 ∨ i = 21 ∨ i = 22 ∨ i = 23 := by omega
  rcases hc with rfl | rfl | rfl | rfl | rfl | rfl | rfl | rfl <;>
    simp [spreadBV, m32, BitVec.getLsbD_and, BitVec.getLsbD_or, BitVec.getLsbD_shiftLeft]

theorem spread_bits_3 (x : BitVec 64) (i : Nat) (h1 : 24 ≤ i) (h2 : i < 32) :
    (spreadBV (x &&& m32)).getLsbD i = (decide (i % 2 = 0) && x.getLsbD (i / 2)) := by
  have hc : i = 24 ∨ i = 25 ∨ i = 26 ∨ i = 27 ∨ i = 28 ∨ i = 29 ∨ i = 30 ∨ i = 31 := by omega
  rcases hc with rfl | rfl | rfl | rfl | rfl | rfl | rfl | rfl <;>
    simp [spreadBV, m32, BitVec.getLsbD_and, BitVec.getLsbD_or, BitVec.getLsbD_shiftLeft]

theorem spread_bits_4 (x : BitVec 64) (i : Nat) (h1 : 32 ≤ i) (h2 : i < 40) :
    (spreadBV (x &&& m32)).getLsbD i = (decide (i % 2 = 0) && x.getLsbD (i / 2)) := by
  have hc : i = 32 ∨ i = 33 ∨ i = 34 ∨ i = 35 ∨ i = 36 ∨ i = 37 ∨ i = 38 ∨ i = 39 := by omega
  rcases hc with rfl | rfl | rfl | rfl | rfl | rfl | rfl | rfl <;>
    simp [spreadBV, m32, BitVec.getLsbD_and, BitVec.getLsbD_or, BitVec.getLsbD_shiftLeft]

theorem spread_bits_5 (x : BitVec 64) (i : Nat) (h1 : 40 ≤ i) (h2 : i < 48) :
    (spreadBV (x &&& m32)).getLsbD i = (decide (i % 2 = 0) && x.getLsbD (i / 2)) := by
  have hc : i = 40 ∨ i = 41 ∨ i = 42 ∨ i = 43 ∨ i = 44 ∨ i = 45 ∨ i = 46 ∨ i = 47 := by omega
  rcases hc with rfl | rfl | rfl | rfl | rfl | rfl | rfl | rfl <;>
    simp [spreadBV, m32, BitVec.getLsbD_and, BitVec.getLsbD_or, BitVec.getLsbD_shiftLeft]

theorem spread_bits_6 (x : BitVec 64) (i : Nat) (h1 : 48 ≤ i) (h2 : i < 56) :
    (spreadBV (x &&& m32)).getLsbD i = (decide (i % 2 = 0) && x.getLsbD (i / 2)) := by
  have hc : i = 48 ∨ i = 49 ∨ i = 50 ∨ i = 51 ∨ i = 52 ∨ i = 53 ∨ i = 54 ∨ i = 55 := by omega
  rcases hc with rfl | rfl | rfl | rfl | rfl | rfl | rfl | rfl <;>
    simp [spreadBV, m32, BitVec.getLsbD_and, BitVec.getLsbD_or, BitVec.getLsbD_shiftLeft]

theorem spread_bits_7 (x : BitVec 64) (i : Nat) (h1 : 56 ≤ i) (h2 : i < 64) :
    (spreadBV (x &&& m32)).getLsbD i = (decide (i % 2 = 0) && x.getLsbD (i / 2)) := by
  have hc : i = 56 ∨ i = 57 ∨ i = 58 ∨ i = 59 ∨ i = 60 ∨ i = 61 ∨ i = 62 ∨ i = 63 := by omega
  rcases hc with rfl | rfl | rfl | rfl | rfl | rfl | rfl | rfl <;>
    simp [spreadBV, m32, BitVec.getLsbD_and, BitVec.getLsbD_or, BitVec.getLsbD_shiftLeft]

theorem squash_bits_0 (v : BitVec 64) (i : Nat) (h1 : 0 ≤ i) (h2 : i < 8) :
    (squashBV v).getLsbD i = (decide (i < 32) && v.getLsbD (2 * i)) := by
  have hc : i = 0 ∨ i = 1 ∨ i = 2 ∨ i = 3 ∨ i = 4 ∨ i = 5 ∨ i = 6 ∨ i = 7 := by omega
  rcases hc with rfl | rfl | rfl | rfl | rfl | rfl | rfl | rfl <;>
    simp [squashBV, BitVec.getLsbD_and, BitVec.getLsbD_or, BitVec.getLsbD_ushiftRight]

theorem squash_bits_1 (v : BitVec 64) (i : Nat) (h1 : 8 ≤ i) (h2 : i < 16) :
    (squashBV v).getLsbD i = (decide (i < 32) && v.getLsbD (2 * i)) := by
  have hc : i = 8 ∨ i = 9 ∨ i = 10 ∨ i = 11 ∨ i = 12 ∨ i = 13 ∨ i = 14 ∨ i = 15 := by omega
  rcases hc with rfl | rfl | rfl | rfl | rfl | rfl | rfl | rfl <;>
    simp [squashBV, BitVec.getLsbD_and, BitVec.getLsbD_or, BitVec.getLsbD_ushiftRight]

theorem squash_bits_2 (v : BitVec 64) (i : Nat) (h1 : 16 ≤ i) (h2 : i < 24) :
    (squashBV v).getLsbD i = (decide (i < 32) && v.getLsbD (2 * i)) := by
  have hc : i = 16 ∨ i = 17 ∨ i = 18 ∨ i = 19 ∨ i = 20 ∨ i = 21 ∨ i = 22 ∨ i = 23 := by omega
  rcases hc with rfl | rfl | rfl | rfl | rfl | rfl | rfl | rfl <;>
    simp [squashBV, BitVec.getLsbD_and, BitVec.getLsbD_or, BitVec.getLsbD_ushiftRight]

theorem squash_bits_3 (v : BitVec 64) (i : Nat) (h1 : 24 ≤ i) (h2 : i < 32) :
    (squashBV v).getLsbD i = (decide (i < 32) && v.getLsbD (2 * i)) := by
  have hc : i = 24 ∨ i = 25 ∨ i = 26 ∨ i = 27 ∨ i = 28 ∨ i = 29 ∨ i = 30 ∨ i = 31 := by omega
  rcases hc with rfl | rfl | rfl | rfl | rfl | rfl | rfl | rfl <;>
    simp [squashBV, BitVec.getLsbD_and, BitVec.getLsbD_or, BitVec.getLsbD_ushiftRight]

theorem squash_bits_4 (v : BitVec 64) (i : Nat) (h1 : 32 ≤ i) (h2 : i < 40) :
    (squashBV v).getLsbD i = (decide (i < 32) && v.getLsbD (2 * i)) := by
  have hc : i = 32 ∨ i = 33 ∨ i = 34 ∨ i = 35 ∨ i = 36 ∨ i = 37 ∨ i = 38 ∨ i = 39 := by omega
  rcases hc with rfl | rfl | rfl | rfl | rfl | rfl | rfl | rfl <;>
    simp [squashBV, BitVec.getLsbD_and, BitVec.getLsbD_or, BitVec.getLsbD_ushiftRight]

theorem squash_bits_5 (v : BitVec 64) (i : Nat) (h1 : 40 ≤ i) (h2 : i < 48) :
    (squashBV v).getLsbD i = (decide (i < 32) && v.getLsbD (2 * i)) := by
  have hc : i = 40 ∨ i = 41 ∨ i = 42 ∨ i = 43 ∨ i = 44 ∨ i = 45 ∨ i = 46 ∨ i = 47 := by omega
  rcases hc with rfl | rfl | rfl | rfl | rfl | rfl | rfl | rfl <;>
    simp [squashBV, BitVec.getLsbD_and, BitVec.getLsbD_or, BitVec.getLsbD_ushiftRight]

theorem squash_bits_6 (v : BitVec 64) (i : Nat) (h1 : 48 ≤ i) (h2 : i < 56) :
    (squashBV v).getLsbD i = (decide (i < 32) && v.getLsbD (2 * i)) := by
  have hc : i = 48 ∨ i = 49 ∨ i = 50 ∨ i = 51 ∨ i = 52 ∨ i = 53 ∨ i = 54 ∨ i = 55 := by omega
  rcases hc with rfl | rfl | rfl | rfl | rfl | rfl | rfl | rfl <;>
    simp [squashBV, BitVec.getLsbD_and, BitVec.getLsbD_or, BitVec.getLsbD_ushiftRight]

theorem squash_bits_7 (v : BitVec 64) (i : Nat) (h1 : 56 ≤ i) (h2 : i < 64) :
    (squashBV v).getLsbD i = (decide (i < 32) && v.getLsbD (2 * i)) := by
  have hc : i = 56 ∨ i = 57 ∨ i = 58 ∨ i = 59 ∨ i = 60 ∨ i = 61 ∨ i = 62 ∨ i = 63 := by omega
  rcases hc with rfl | rfl | rfl | rfl | rfl | rfl | rfl | rfl <;>
    simp [squashBV, BitVec.getLsbD_and, BitVec.getLsbD_or, BitVec.getLsbD_ushiftRight]

/-- `spreadBV` on a 32-bit value: output bit i is input bit i/2 for even i, zero for odd i -/
theorem spread_bit (x : BitVec 64) (i : Nat) (hi : i < 64) :
    (spreadBV (x &&& m32)).getLsbD i = (decide (i % 2 = 0) && x.getLsbD (i / 2)) := by
  by_cases h0 : i < 8
  · exact spread_bits_0 x i (by omega) h0
  by_cases h1 : i < 16
  · exact spread_bits_1 x i (by omega) h1
  by_cases h2 : i < 24
  · exact spread_bits_2 x i (by omega) h2
  by_cases h3 : i < 32
  · exact spread_bits_3 x i (by omega) h3
  by_cases h4 : i < 40
  · exact spread_bits_4 x i (by omega) h4
  by_cases h5 : i < 48
  · exact spread_bits_5 x i (by omega) h5
  by_cases h6 : i < 56
  · exact spread_bits_6 x i (by omega) h6
  by_cases h7 : i < 64
  · exact spread_bits_7 x i (by omega) h7
  omega

/-- `squashBV` on any 64-bit value: output bit i (i < 32) is input bit 2i; the upper half is zero -/
theorem squash_bit (v : BitVec 64) (i : Nat) (hi : i < 64) :
    (squashBV v).getLsbD i = (decide (i < 32) && v.getLsbD (2 * i)) := by
  by_cases h0 : i < 8
  · exact squash_bits_0 v i (by omega) h0
  by_cases h1 : i < 16
  · exact squash_bits_1 v i (by omega) h1
  by_cases h2 : i < 24
  · exact squash_bits_2 v i (by omega) h2
  by_cases h3 : i < 32
  · exact squash_bits_3 v i (by omega) h3
  by_cases h4 : i < 40
  · exact squash_bits_4 v i (by omega) h4
  by_cases h5 : i < 48
  · exact squash_bits_5 v i (by omega) h5
  by_cases h6 : i < 56
  · exact squash_bits_6 v i (by omega) h6
  by_cases h7 : i < 64
  · exact squash_bits_7 v i (by omega) h7
  omega

end NodisVerif.Proofs.GeoBits
