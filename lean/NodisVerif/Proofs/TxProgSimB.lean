import NodisVerif.Proofs.TxProgSimA
/-
  Program model of tx.go: the transitions of `Tx.newKey` (n1 … n4) and `Tx.delKey` (d1 … d4).
-/
namespace NodisVerif.Proofs.TxProg
open NodisVerif.Proto (Key Rec Mode Ev Hold TxSt PState assoc erase put Tx)
open NodisVerif.TxProg
open NodisVerif.Proofs.Proto

section Cases
variable {c : Cfg} {p : PState} {t : Tid} {ch : Choice} {s' : Shared} {l' : Loc} {e : Option Ev}

/-- n1, n2, n4, d1, d4 and the silent branches: only flags / `s.mu` / the pc change -/
theorem sim_plain_silent (hs : Sim c p) (hh : holdsOf (c.loc t) = (c.loc t).held) (_hx : extra (c.loc t) = none)
    (hidx : s'.index = c.sh.index) (hpend : s'.pending = c.sh.pending) (hnames : s'.names = c.sh.names)
    (hmus : s'.mus = c.sh.mus) (hheld : l'.held = (c.loc t).held) (hh' : holdsOf l' = l'.held) (hx' : extra l' = none)
    (hf' : Facts c.sh l') (habs : absTx l' = absTx (c.loc t)) : Simulated c p t s' l' none := by
  have hi := hs.thr t
  have hown : ∀ g ∈ (c.loc t).held, owns (c.sh.mu g.rid) t g.mode := by
    have := hi.own; rwa [hh] at this
  exact ⟨p, rfl, hs.silent t _ _ hidx hpend hnames hmus habs
    (inv_plain (by rw [hheld]; exact hown) (by rw [hheld]; exact hi.val) hh' hx' hf')⟩

theorem case_n1 (hs : Sim c p) (hpc : (c.loc t).pc = .n1)
    (h : tstep c.sh t (c.loc t) ch = some (s', l', e)) : Simulated c p t s' l' e := by
  simp only [tstep, hpc] at h
  cases h
  exact sim_plain_silent hs (by simp [holdsOf, hpc]) (by simp [extra, hpc]) rfl rfl rfl rfl rfl (by simp [holdsOf])
    (by simp [extra]) (by simp [Facts]) (by simp [absTx, hpc, holdsOf, waitingOf, committingOf])

theorem case_n2 (hs : Sim c p) (hpc : (c.loc t).pc = .n2)
    (h : tstep c.sh t (c.loc t) ch = some (s', l', e)) : Simulated c p t s' l' e := by
  simp only [tstep, hpc] at h
  split at h <;> cases h
  exact sim_plain_silent hs (by simp [holdsOf, hpc]) (by simp [extra, hpc]) rfl rfl rfl rfl rfl (by simp [holdsOf])
    (by simp [extra]) (by simp [Facts]) (by simp [absTx, hpc, holdsOf, waitingOf, committingOf])

theorem case_n4 (hs : Sim c p) (hpc : (c.loc t).pc = .n4)
    (h : tstep c.sh t (c.loc t) ch = some (s', l', e)) : Simulated c p t s' l' e := by
  simp only [tstep, hpc] at h
  cases h
  exact sim_plain_silent hs (by simp [holdsOf, hpc]) (by simp [extra, hpc]) rfl rfl rfl rfl rfl (by simp [holdsOf])
    (by simp [extra]) (by simp [Facts]) (by simp [absTx, hpc, holdsOf, waitingOf, committingOf])

theorem case_d1 (hs : Sim c p) (hpc : (c.loc t).pc = .d1)
    (h : tstep c.sh t (c.loc t) ch = some (s', l', e)) : Simulated c p t s' l' e := by
  simp only [tstep, hpc] at h
  split at h <;> cases h
  exact sim_plain_silent hs (by simp [holdsOf, hpc]) (by simp [extra, hpc]) rfl rfl rfl rfl rfl (by simp [holdsOf])
    (by simp [extra]) (by simp [Facts]) (by simp [absTx, hpc, holdsOf, waitingOf, committingOf])

theorem case_d4 (hs : Sim c p) (hpc : (c.loc t).pc = .d4)
    (h : tstep c.sh t (c.loc t) ch = some (s', l', e)) : Simulated c p t s' l' e := by
  simp only [tstep, hpc] at h
  cases h
  exact sim_plain_silent hs (by simp [holdsOf, hpc]) (by simp [extra, hpc]) rfl rfl rfl rfl rfl (by simp [holdsOf])
    (by simp [extra]) (by simp [Facts]) (by simp [absTx, hpc, holdsOf, waitingOf, committingOf])

/-- an event step that changes only index / pending (publish, unlink, drop): everybody's transaction state and
    mutexes are untouched -/
theorem sim_maps (hs : Sim c p) {ev : Ev} {p' : PState} (hstep : Proto.step p ev = some p')
    (htxs : p'.txs = p.txs)
    (hidx : p'.index = s'.index) (hpend : p'.pending = s'.pending) (hnames : s'.names = c.sh.names)
    (hpn : p'.names = p.names)
    (hmus : s'.mus = c.sh.mus) (habs : absTx l' = absTx (c.loc t)) (hinv : ThreadInv c.sh t l') :
    Simulated c p t s' l' (some ev) := by
  refine ⟨p', hstep, ?_⟩
  have htx : ∀ u, p'.tx u = p.tx u := by intro u; simp [PState.tx, htxs]
  refine hs.update t _ _ _ (hs.reach.next hstep) hidx hpend (by rw [hpn, hnames]; exact hs.names) ?_
    (by rw [htx, habs]; exact hs.tx t) (hinv.congr hmus hnames) (fun u _ => htx u)
    (fun u _ => (hs.thr u).congr hmus hnames)
  intro r
  have : s'.mu r = c.sh.mu r := by simp [Shared.mu, hmus]
  rw [this]; exact hs.wf r

theorem case_n3 (hs : Sim c p) (hg : Guarded c t) (hpc : (c.loc t).pc = .n3)
    (h : tstep c.sh t (c.loc t) ch = some (s', l', e)) : Simulated c p t s' l' e := by
  simp only [tstep, hpc] at h
  have hi := hs.thr t
  have hown : ∀ g ∈ (c.loc t).held, owns (c.sh.mu g.rid) t g.mode := by
    have := hi.own; simpa [holdsOf, hpc] using this
  split at h
  · rename_i hp
    have hp : assoc c.sh.pending (c.loc t).key = some (c.loc t).m := by simpa using hp
    cases h
    have hmem := hg.2.1 hpc hp
    have htx := hs.tx_some t (by simp [hpc])
    simp only [holdsOf, waitingOf, committingOf, hpc] at htx
    have hnd := hs.nodup t (by simp [hpc])
    simp only [holdsOf, hpc] at hnd
    have hho := holdOf_of_mem (st := ⟨(c.loc t).held, none, false⟩) hnd hmem
    simp only at hho
    have hidx : assoc p.index (c.loc t).key = none := by
      cases hx : assoc p.index (c.loc t).key with
      | none => rfl
      | some r' =>
        have := hs.inv.disjoint _ _ hx
        rw [hs.pend, hp] at this; cases this
    have hstep : Proto.step p (.publish t (c.loc t).key (c.loc t).m) = some
        { p with pending := erase p.pending (c.loc t).key, index := put p.index (c.loc t).key (c.loc t).m } := by
      simp [Proto.step, htx, hho, hs.pend, hp, hidx]
    refine sim_maps hs hstep rfl (by simp [hs.idx]) (by simp [hs.pend]) rfl rfl rfl
      (by simp [absTx, hpc, holdsOf, waitingOf, committingOf])
      (inv_plain hown hi.val (by simp [holdsOf]) (by simp [extra]) (by simp [Facts]))
  · cases h
    exact sim_plain_silent hs (by simp [holdsOf, hpc]) (by simp [extra, hpc]) rfl rfl rfl rfl rfl (by simp [holdsOf])
      (by simp [extra]) (by simp [Facts]) (by simp [absTx, hpc, holdsOf, waitingOf, committingOf])

theorem case_d2 (hs : Sim c p) (hg : Guarded c t) (hpc : (c.loc t).pc = .d2)
    (h : tstep c.sh t (c.loc t) ch = some (s', l', e)) : Simulated c p t s' l' e := by
  simp only [tstep, hpc] at h
  have hi := hs.thr t
  have hown : ∀ g ∈ (c.loc t).held, owns (c.sh.mu g.rid) t g.mode := by
    have := hi.own; simpa [holdsOf, hpc] using this
  split at h
  · cases h
    exact sim_plain_silent hs (by simp [holdsOf, hpc]) (by simp [extra, hpc]) rfl rfl rfl rfl rfl (by simp [holdsOf])
      (by simp [extra]) (by simp [Facts]) (by simp [absTx, hpc, holdsOf, waitingOf, committingOf])
  · rename_i r hidx
    split at h
    · rename_i g hgo
      cases h
      have hmode := hg.2.2.1 hpc r g hidx hgo
      have hmem : g ∈ (c.loc t).held := List.mem_of_find?_eq_some hgo
      have hrid : g.rid = r := by have := List.find?_some hgo; simpa using this
      have hkey : g.key = (c.loc t).key := by
        have h1 := hs.holdNamed t g (by simpa [holdsOf, hpc] using hmem)
        have h2 := hs.inv.idxName (c.loc t).key r (by rw [hs.idx]; exact hidx)
        rw [hs.names, ← hrid, h1] at h2
        exact Option.some.inj h2
      have htx := hs.tx_some t (by simp [hpc])
      simp only [holdsOf, waitingOf, committingOf, hpc] at htx
      have hho : (TxSt.mk (c.loc t).held none false).holdOf r = some g := hgo
      have hstep : Proto.step p (.unlink t (c.loc t).key r) = some
          { p with index := erase p.index (c.loc t).key } := by
        simp [Proto.step, htx, hho, hi.val g hmem, hmode, hkey, hs.idx, hidx]
      refine sim_maps hs hstep rfl (by simp [hs.idx]) (by simp [hs.pend]) rfl rfl rfl
        (by simp [absTx, hpc, holdsOf, waitingOf, committingOf])
        (inv_plain hown hi.val (by simp [holdsOf]) (by simp [extra]) (by simp [Facts]))
    · cases h

theorem case_d3 (hs : Sim c p) (hg : Guarded c t) (hpc : (c.loc t).pc = .d3)
    (h : tstep c.sh t (c.loc t) ch = some (s', l', e)) : Simulated c p t s' l' e := by
  simp only [tstep, hpc] at h
  split at h
  · cases h
  · rename_i hfr
    have hfresh : assoc c.sh.names ch.fresh = none := by
      cases hx : assoc c.sh.names ch.fresh with
      | none => rfl
      | some y => simp [hx] at hfr
    cases h
    have := sim_claim (w := true) (t := t) (k := (c.loc t).key) (r := ch.fresh)
      (l' := { (c.loc t) with pc := .d4, held := (⟨ch.fresh, (c.loc t).key, .w, true⟩ : Hold) :: (c.loc t).held }) hs (by simp [hpc]) (by simp [holdsOf, hpc])
      (by simp [waitingOf, hpc]) (by simp [committingOf, hpc]) (hg.2.2.2.1 hpc) hfresh (({} : Mu).lock t)
      (by simp [modeOf, owns, Mu.lock]) (wf_fresh_lock t)
      (by simp [modeOf]) (by simp [holdsOf]) (by simp [extra]) (by simp [Facts])
      (by simp [absTx, holdsOf, waitingOf, committingOf])
    simpa [modeOf] using this

end Cases

end NodisVerif.Proofs.TxProg
