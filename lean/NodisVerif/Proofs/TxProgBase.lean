import NodisVerif.Model.TxProg
import NodisVerif.Proofs.ProtoReg
/-
  Program model of tx.go (Model/TxProg.lean): the abstraction to the protocol model (`absTx`), the
  simulation relation `Sim`, and the frame lemmas (what a step of one thread leaves alone for the others).
-/
namespace NodisVerif.Proofs.TxProg
open NodisVerif.Proto (Key Rec Mode Ev Hold TxSt PState assoc erase put Tx)
open NodisVerif.TxProg
open NodisVerif.Proofs.Proto

/-! ## maps with a default -/

theorem getD_setD {β : Type} [Inhabited β] [DecidableEq β] (l : List (Nat × β)) (a : Nat) (b : β) (a' : Nat) :
    getD (setD l a b) a' = if a' = a then b else getD l a' := by
  unfold getD setD
  by_cases hb : b = default
  · rw [if_pos hb, assoc_erase]
    by_cases h : a' = a <;> simp [h, hb]
  · rw [if_neg hb, assoc_put]
    by_cases h : a' = a <;> simp [h]

theorem mu_setMu (s : Shared) (r : Rec) (m : Mu) (r' : Rec) :
    (s.setMu r m).mu r' = if r' = r then m else s.mu r' := by
  simp [Shared.mu, Shared.setMu, getD_setD]

@[simp] theorem setMu_index (s : Shared) (r : Rec) (m : Mu) : (s.setMu r m).index = s.index := rfl
@[simp] theorem setMu_pending (s : Shared) (r : Rec) (m : Mu) : (s.setMu r m).pending = s.pending := rfl
@[simp] theorem setMu_names (s : Shared) (r : Rec) (m : Mu) : (s.setMu r m).names = s.names := rfl
@[simp] theorem setMu_smu (s : Shared) (r : Rec) (m : Mu) : (s.setMu r m).smu = s.smu := rfl
@[simp] theorem setMu_flags (s : Shared) (r : Rec) (m : Mu) : (s.setMu r m).flags = s.flags := rfl

/-! ## mutexes -/

/-- thread `t` owns the mutex in mode `m` -/
def owns (mu : Mu) (t : Tid) : Mode → Prop
  | .w => mu.writer = some t
  | .r => t ∈ mu.readers

/-- a writer excludes readers -/
def wfMu (mu : Mu) : Prop := mu.writer ≠ none → mu.readers = []

theorem wfMu_default : wfMu ({} : Mu) := by simp [wfMu]
theorem wf_lock {mu : Mu} (h : mu.canLock = true) (t : Tid) : wfMu (mu.lock t) := by
  simp [Mu.canLock] at h; simp [wfMu, Mu.lock, h.2]
theorem wf_rlock {mu : Mu} (h : mu.canRLock = true) (t : Tid) : wfMu (mu.rlock t) := by
  simp [Mu.canRLock] at h; simp [wfMu, Mu.rlock, h]
theorem wf_unlock (mu : Mu) : wfMu mu.unlock := by simp [wfMu, Mu.unlock]
theorem wf_runlock {mu : Mu} (h : wfMu mu) (t : Tid) : wfMu (mu.runlock t) := by
  intro hw; simp only [Mu.runlock] at hw ⊢; rw [h hw]; rfl
theorem wf_fresh_lock (t : Tid) : wfMu (({} : Mu).lock t) := by simp [wfMu, Mu.lock]
theorem wf_fresh_rlock (t : Tid) : wfMu (({} : Mu).rlock t) := by simp [wfMu, Mu.rlock]

theorem not_owns_canLock {mu : Mu} (h : mu.canLock = true) (u : Tid) (m : Mode) : ¬ owns mu u m := by
  simp [Mu.canLock] at h
  cases m <;> simp [owns, h.1, h.2]

theorem owns_rlock {mu : Mu} (h : mu.canRLock = true) {u : Tid} {m : Mode} (t : Tid) (ho : owns mu u m) :
    owns (mu.rlock t) u m := by
  cases m with
  | w => simp [Mu.canRLock] at h; simp [owns, h] at ho
  | r => simp only [owns, Mu.rlock] at ho ⊢; exact List.mem_cons_of_mem _ ho

/-- a release by an owner `t` does not take the mutex away from another thread -/
theorem owns_unlock {mu : Mu} (hw : wfMu mu) {t u : Tid} {mt m : Mode} (hne : u ≠ t) (hot : owns mu t mt)
    (ho : owns mu u m) : owns mu.unlock u m := by
  cases m with
  | r => simpa [owns, Mu.unlock] using ho
  | w =>
    exfalso
    simp only [owns] at ho
    cases mt with
    | w => simp only [owns] at hot; rw [ho] at hot; exact hne (Option.some.inj hot)
    | r => simp only [owns] at hot; rw [hw (by simp [ho])] at hot; cases hot

theorem owns_runlock {mu : Mu} {t u : Tid} {m : Mode} (hne : u ≠ t) (ho : owns mu u m) :
    owns (mu.runlock t) u m := by
  cases m with
  | w => simpa [owns, Mu.runlock] using ho
  | r => simp only [owns, Mu.runlock] at ho ⊢; exact (List.mem_erase_of_ne hne).2 ho

theorem owns_lock_self (mu : Mu) (t : Tid) : owns (mu.lock t) t .w := by simp [owns, Mu.lock]
theorem owns_rlock_self (mu : Mu) (t : Tid) : owns (mu.rlock t) t .r := by simp [owns, Mu.rlock]

/-- two owners of one mutex: both readers, or the same thread -/
theorem owners_compat {mu : Mu} (hw : wfMu mu) {t u : Tid} {mt m : Mode} (hot : owns mu t mt) (ho : owns mu u m)
    (hm : mt = .w ∨ m = .w) : t = u := by
  cases mt <;> cases m <;> simp only [owns] at hot ho
  · rcases hm with h | h <;> cases h
  · rw [hw (by simp [ho])] at hot; cases hot
  · rw [hw (by simp [hot])] at ho; cases ho
  · rw [hot] at ho; exact Option.some.inj ho

/-! ## the abstraction: what the protocol model knows about a thread -/

def holdsOf (l : Loc) : List Hold :=
  match l.pc with
  | .a10 | .a11 | .a13 => ⟨l.m, l.key, modeOf l.write, false⟩ :: l.held
  | .a12 => ⟨l.m, l.key, modeOf l.write, l.okcur && (l.write || l.hv)⟩ :: l.held
  | .c2 | .c4 | .c8 | .c9 | .c10 | .c11 => l.cur :: l.rest
  | .c3 | .c5 | .c6 | .c7 | .c12 => l.rest
  | .cend | .init => []
  | .g1 | .g2 | .g3 | .g12 | .g13 => []
  | .g4 | .g5 => [⟨l.m, l.key, .w, false⟩]
  | .g6 | .g7 | .g8 | .g9 | .g10 | .g11 => [⟨l.m, l.key, .w, l.okcur⟩]
  | _ => l.held

def waitingOf (l : Loc) : Option (Key × Rec × Mode) :=
  match l.pc with
  | .a8 | .a9 => some (l.key, l.m, modeOf l.write)
  | .g2 | .g3 => some (l.key, l.m, .w)
  | _ => none

def committingOf (l : Loc) : Bool :=
  match l.pc with
  | .c2 | .c3 | .c4 | .c5 | .c6 | .c7 | .c8 | .c9 | .c10 | .c11 | .c12 | .cend => true
  | .g11 | .g12 | .g13 => l.okcur       -- a mini transaction "commits" (in the tracer) only when it was validated
  | _ => false

/-- the transaction of the protocol model that a thread in local state `l` stands for -/
def absTx (l : Loc) : Option TxSt :=
  if l.pc = .init then none
  else some { holds := holdsOf l, waiting := waitingOf l, committing := committingOf l }

/-- a record mutex the thread owns without (yet / any longer) a hold in the protocol model: between `Lock` and
    the `lock` event, between the `unlock` event and `Unlock` -/
def extra (l : Loc) : Option (Rec × Mode) :=
  match l.pc with
  | .a9 | .a14 => some (l.m, modeOf l.write)
  | .c3 | .c5 | .c12 => some (l.cur.rid, l.cur.mode)
  | .c7 => some (l.cur.rid, .w)
  | .g3 | .g12 => some (l.m, .w)
  | _ => none

/-- facts about the locals -/
def Facts (s : Shared) (l : Loc) : Prop :=
  match l.pc with
  | .a3 => l.okcur = true → assoc s.names l.m = some l.key
  | .a7 | .a8 | .a9 | .a10 | .a11 | .a12 | .a13 | .a14 =>
    assoc s.names l.m = some l.key ∧ ∀ h ∈ l.held, h.rid ≠ l.m
  | .c8 | .c9 =>
    (assoc s.names l.cur.rid = some l.cur.key ∧ ∀ h ∈ l.rest, h.rid ≠ l.cur.rid) ∧ l.cur.mode = .w
  | .c2 | .c3 | .c4 | .c5 | .c6 | .c7 | .c10 | .c11 | .c12 =>
    assoc s.names l.cur.rid = some l.cur.key ∧ ∀ h ∈ l.rest, h.rid ≠ l.cur.rid
  | .g1 | .g2 | .g3 | .g4 | .g5 | .g6 | .g11 | .g12 | .g13 => assoc s.names l.m = some l.key ∧ l.held = []
  | .g7 | .g8 | .g9 | .g10 => (assoc s.names l.m = some l.key ∧ l.held = []) ∧ l.okcur = true
  | _ => True

structure ThreadInv (s : Shared) (t : Tid) (l : Loc) : Prop where
  own   : ∀ h ∈ holdsOf l, owns (s.mu h.rid) t h.mode
  ext   : ∀ x, extra l = some x → owns (s.mu x.1) t x.2 ∧ assoc s.names x.1 ≠ none ∧ ∀ h ∈ holdsOf l, h.rid ≠ x.1
  facts : Facts s l
  val   : ∀ h ∈ l.held, h.valid = true

/-- the simulation relation between program states and protocol states -/
structure Sim (c : Cfg) (p : PState) : Prop where
  reach : Reachable p
  idx   : p.index = c.sh.index
  pend  : p.pending = c.sh.pending
  names : p.names = c.sh.names
  wf    : ∀ r, wfMu (c.sh.mu r)
  tx    : ∀ t, p.tx t = absTx (c.loc t)
  thr   : ∀ t, ThreadInv c.sh t (c.loc t)

theorem Sim.lookup {c : Cfg} {p : PState} (h : Sim c p) (k : Key) : p.lookup k = c.sh.lookup k := by
  unfold PState.lookup Shared.lookup
  rw [h.idx, h.pend]
  cases assoc c.sh.index k <;> rfl

/-- protocol step for an optional event -/
def optStep (p : PState) : Option Ev → Option PState
  | none => some p
  | some e => Proto.step p e

theorem loc_default : (({} : Cfg).loc t) = {} := rfl

theorem loc_set (c : Cfg) (s : Shared) (t : Tid) (l : Loc) (u : Tid) :
    (Cfg.mk s (setD c.thr t l)).loc u = if u = t then l else c.loc u := by
  simp [Cfg.loc, getD_setD]

/-! ## frames -/

theorem assoc_names_cons {names : List (Rec × Key)} {r x : Rec} {k y : Key} (hf : assoc names r = none)
    (h : assoc names x = some y) : assoc ((r, k) :: names) x = some y := by
  rw [assoc_cons]
  have : ¬ r = x := by intro c; subst c; rw [hf] at h; cases h
  simp [this, h]

theorem assoc_names_cons_ne {names : List (Rec × Key)} {r x : Rec} {k : Key} (hf : assoc names r = none)
    (h : assoc names x ≠ none) : assoc ((r, k) :: names) x ≠ none := by
  cases hx : assoc names x with
  | none => exact absurd hx h
  | some y => rw [assoc_names_cons hf hx]; simp

/-- `Facts` only looks at the names, and survives the allocation of a fresh record -/
theorem Facts.mono {s s' : Shared} {l : Loc} (h : Facts s l)
    (hn : ∀ x y, assoc s.names x = some y → assoc s'.names x = some y) : Facts s' l := by
  unfold Facts at h ⊢
  split at h <;> simp_all
  all_goals first | exact fun a => hn _ _ (h a) | exact ⟨hn _ _ h.1, h.2⟩ | exact ⟨⟨hn _ _ h.1.1, h.1.2⟩, h.2⟩

/-- nothing the thread owns is touched: only mutexes of records outside its holds changed -/
theorem ThreadInv.frame {s s' : Shared} {t : Tid} {l : Loc} (h : ThreadInv s t l)
    (hn : ∀ x y, assoc s.names x = some y → assoc s'.names x = some y)
    (hm : ∀ r m, owns (s.mu r) t m → (∃ k, assoc s.names r = some k) → owns (s'.mu r) t m)
    (hnamed : ∀ g ∈ holdsOf l, ∃ k, assoc s.names g.rid = some k) : ThreadInv s' t l where
  own := fun g hg => hm _ _ (h.own g hg) (hnamed g hg)
  ext := by
    intro x hx
    obtain ⟨a, b, c⟩ := h.ext x hx
    cases hb : assoc s.names x.1 with
    | none => exact absurd hb b
    | some k =>
      refine ⟨hm _ _ a ⟨k, hb⟩, ?_, c⟩
      rw [hn _ _ hb]; simp
  facts := h.facts.mono hn
  val := h.val

end NodisVerif.Proofs.TxProg
