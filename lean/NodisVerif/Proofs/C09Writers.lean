import NodisVerif.Model.Api
import NodisVerif.Proofs.AListLemmas2
/-
  C09 (WATCH soundness), the "writers signal" table: every API write function that changes the
  logical content of a key passes that key to `signalModifiedKey`, which the model records in
  `MState.signalled`.

  All theorems are stated for the Pebble backend (`s.pebble = true`): then `Api.setVal` only touches
  the record itself. With the in-memory backend `setVal` also rewrites every index record sharing the
  value object's `oid` (pointer aliasing between index records); that aliasing question is left out
  here, see `hypothesis_pebble_is_necessary` at the end of C09Writers3.lean.

  This file: definitions, the `Frame` calculus, primitive lemmas, string family, key family.
-/
set_option linter.unusedSectionVars false

namespace NodisVerif.Proofs.C09Writers
open NodisVerif NodisVerif.Store NodisVerif.Api NodisVerif.Proofs.AListLemmas2

/-- two versions of the index record named k carry the same logical content: same existence, same
    deadline, same record identity (`kid`: a re-created record gets a fresh one), same liveness bit
    (`isOk`: a record whose ok-bit flips is logically created/removed), and the value is
    the same object content — a cold record (value = none) becoming hot by a load is NOT a change -/
def unchanged : Option Meta → Option Meta → Prop
  | none, none => True
  | some m, some m' => m.exp = m'.exp ∧ m.kid = m'.kid ∧ m.isOk = m'.isOk ∧ (m.value = none ∨ m.value = m'.value)
  | _, _ => False

/-- the call changed the logical content of key k: created, removed, re-created, deadline
    given/moved/stripped, or value altered -/
def changed (s s' : MState) (k : Bytes) : Prop := ¬ unchanged (Store.getMeta s k) (Store.getMeta s' k)

theorem unchanged_refl (o : Option Meta) : unchanged o o := by
  cases o <;> simp [unchanged]

theorem unchanged_trans {a b c : Option Meta} (h1 : unchanged a b) (h2 : unchanged b c) : unchanged a c := by
  cases a <;> cases b <;> cases c <;> simp only [unchanged] at * <;> try trivial
  obtain ⟨e1, k1, o1, v1⟩ := h1
  obtain ⟨e2, k2, o2, v2⟩ := h2
  refine ⟨e1.trans e2, k1.trans k2, o1.trans o2, ?_⟩
  rcases v1 with v1 | v1
  · exact Or.inl v1
  · rcases v2 with v2 | v2
    · exact Or.inl (v1.trans v2)
    · exact Or.inr (v1.trans v2)

theorem unchanged_of_eq {a b : Option Meta} (h : b = a) : unchanged a b := h ▸ unchanged_refl a

instance (a b : Option Meta) : Decidable (unchanged a b) :=
  match a, b with
  | none, none => isTrue trivial
  | some m, some m' =>
    inferInstanceAs (Decidable (m.exp = m'.exp ∧ m.kid = m'.kid ∧ m.isOk = m'.isOk ∧ (m.value = none ∨ m.value = m'.value)))
  | none, some _ => isFalse (fun h => h)
  | some _, none => isFalse (fun h => h)

instance (s s' : MState) (k : Bytes) : Decidable (changed s s' k) :=
  inferInstanceAs (Decidable (¬ unchanged (Store.getMeta s k) (Store.getMeta s' k)))

/-! `unchanged`/`changed` only look at `Store.getMeta`, i.e. at the `index` field -/

theorem getMeta_congr {s t : MState} (h : t.index = s.index) (k : Bytes) : getMeta t k = getMeta s k := by
  simp only [getMeta, h]

theorem changed_congr {s t s' t' : MState} (h : t.index = s.index) (h' : t'.index = s'.index) (k : Bytes) :
    changed t t' k ↔ changed s s' k := by
  simp only [changed, getMeta_congr h, getMeta_congr h']

@[simp] theorem changed_with_left (s s' : MState) (k : Bytes) (x : List Bytes) (y : List (Bytes × Bool)) (z w : Bool)
    (f : List FeedOp) :
    changed { s with signalled := x, held := y, hung := z, flushed := w, feed := f } s' k ↔ changed s s' k :=
  changed_congr rfl rfl k
@[simp] theorem changed_with_right (s s' : MState) (k : Bytes) (x : List Bytes) (y : List (Bytes × Bool)) (z w : Bool)
    (f : List FeedOp) :
    changed s { s' with signalled := x, held := y, hung := z, flushed := w, feed := f } k ↔ changed s s' k :=
  changed_congr rfl rfl k
@[simp] theorem changed_with_shh_left (s s' : MState) (k : Bytes) (x : List Bytes) (y : List (Bytes × Bool)) (z : Bool) :
    changed { s with signalled := x, held := y, hung := z } s' k ↔ changed s s' k := changed_congr rfl rfl k
@[simp] theorem changed_with_shh_right (s s' : MState) (k : Bytes) (x : List Bytes) (y : List (Bytes × Bool)) (z : Bool) :
    changed s { s' with signalled := x, held := y, hung := z } k ↔ changed s s' k := changed_congr rfl rfl k
@[simp] theorem changed_with_signalled_left (s s' : MState) (k : Bytes) (x : List Bytes) :
    changed { s with signalled := x } s' k ↔ changed s s' k := changed_congr rfl rfl k
@[simp] theorem changed_with_signalled_right (s s' : MState) (k : Bytes) (x : List Bytes) :
    changed s { s' with signalled := x } k ↔ changed s s' k := changed_congr rfl rfl k
@[simp] theorem changed_with_held_left (s s' : MState) (k : Bytes) (y : List (Bytes × Bool)) :
    changed { s with held := y } s' k ↔ changed s s' k := changed_congr rfl rfl k
@[simp] theorem changed_with_held_right (s s' : MState) (k : Bytes) (y : List (Bytes × Bool)) :
    changed s { s' with held := y } k ↔ changed s s' k := changed_congr rfl rfl k
@[simp] theorem changed_with_hung_left (s s' : MState) (k : Bytes) (z : Bool) :
    changed { s with hung := z } s' k ↔ changed s s' k := changed_congr rfl rfl k
@[simp] theorem changed_with_hung_right (s s' : MState) (k : Bytes) (z : Bool) :
    changed s { s' with hung := z } k ↔ changed s s' k := changed_congr rfl rfl k
@[simp] theorem changed_with_flushed_left (s s' : MState) (k : Bytes) (z : Bool) :
    changed { s with flushed := z } s' k ↔ changed s s' k := changed_congr rfl rfl k
@[simp] theorem changed_with_flushed_right (s s' : MState) (k : Bytes) (z : Bool) :
    changed s { s' with flushed := z } k ↔ changed s s' k := changed_congr rfl rfl k
@[simp] theorem changed_with_feed_left (s s' : MState) (k : Bytes) (f : List FeedOp) :
    changed { s with feed := f } s' k ↔ changed s s' k := changed_congr rfl rfl k
@[simp] theorem changed_with_feed_right (s s' : MState) (k : Bytes) (f : List FeedOp) :
    changed s { s' with feed := f } k ↔ changed s s' k := changed_congr rfl rfl k
@[simp] theorem changed_commit_left (s s' : MState) (k : Bytes) : changed (commit s) s' k ↔ changed s s' k :=
  changed_congr rfl rfl k
@[simp] theorem changed_commit_right (s s' : MState) (k : Bytes) : changed s (commit s') k ↔ changed s s' k :=
  changed_congr rfl rfl k

/-! ## the Frame calculus -/

/-- s' arises from s by steps that (i) only add to `signalled`, (ii) keep the backend kind, and (iii) leave every
    record outside the dirty set D logically unchanged unless its key was signalled -/
structure Frame (D : List Bytes) (s s' : MState) : Prop where
  mono : ∀ x ∈ s.signalled, x ∈ s'.signalled
  peb  : s'.pebble = s.pebble
  keep : ∀ k, k ∉ D → k ∉ s'.signalled → unchanged (Store.getMeta s k) (Store.getMeta s' k)

theorem Frame.refl (D : List Bytes) (s : MState) : Frame D s s :=
  ⟨fun _ h => h, rfl, fun _ _ _ => unchanged_refl _⟩

theorem Frame.weaken {D D' : List Bytes} {s s' : MState} (h : Frame D s s') (hs : ∀ k ∈ D, k ∈ D') : Frame D' s s' :=
  ⟨h.mono, h.peb, fun k hk hn => h.keep k (fun hd => hk (hs k hd)) hn⟩

theorem Frame.trans {D₁ D₂ : List Bytes} {s s₁ s₂ : MState} (h1 : Frame D₁ s s₁) (h2 : Frame D₂ s₁ s₂) :
    Frame (D₁ ++ D₂) s s₂ :=
  ⟨fun x hx => h2.mono x (h1.mono x hx), h2.peb.trans h1.peb, fun k hk hn =>
    unchanged_trans
      (h1.keep k (fun hd => hk (List.mem_append_left _ hd)) (fun hs => hn (h2.mono k hs)))
      (h2.keep k (fun hd => hk (List.mem_append_right _ hd)) hn)⟩

/-- sequencing inside a fixed dirty set -/
theorem Frame.andThen {D D' : List Bytes} {s s₁ s₂ : MState} (h1 : Frame D s s₁) (h2 : Frame D' s₁ s₂)
    (hs : ∀ k ∈ D', k ∈ D) : Frame D s s₂ :=
  (h1.trans h2).weaken (fun k hk => by
    rcases List.mem_append.1 hk with h | h
    · exact h
    · exact hs k h)

/-- sequencing, the dirty set grows -/
theorem Frame.seq {D D' : List Bytes} {s s₁ s₂ : MState} (h1 : Frame D s s₁) (h2 : Frame D' s₁ s₂) :
    Frame (D' ++ D) s s₂ :=
  (h1.trans h2).weaken (fun k hk => by
    rcases List.mem_append.1 hk with h | h
    · exact List.mem_append_right _ h
    · exact List.mem_append_left _ h)

theorem Frame.seq0 {D : List Bytes} {s s₁ s₂ : MState} (h1 : Frame D s s₁) (h2 : Frame [] s₁ s₂) :
    Frame D s s₂ := h1.andThen h2 (fun _ h => nomatch h)

theorem Frame.trans0 {s s₁ s₂ : MState} (h1 : Frame [] s s₁) (h2 : Frame [] s₁ s₂) : Frame [] s s₂ :=
  h1.seq0 h2

/-- closing lemma: once every dirty key has been signalled, nothing is dirty -/
theorem Frame.close {D : List Bytes} {s s' : MState} (h : Frame D s s') (hD : ∀ k ∈ D, k ∈ s'.signalled) :
    Frame [] s s' :=
  ⟨h.mono, h.peb, fun k _ hn => h.keep k (fun hd => hn (hD k hd)) hn⟩

theorem Frame.sound {s s' : MState} (h : Frame [] s s') (k : Bytes) : changed s s' k → k ∈ s'.signalled := by
  intro hc
  by_cases hs : k ∈ s'.signalled
  · exact hs
  · exact absurd (h.keep k (fun hd => nomatch hd) hs) hc

/-- body-level corollary: a frame whose dirty keys were all signalled makes every changed key signalled -/
theorem Frame.changed_signalled {D : List Bytes} {s s' : MState} (h : Frame D s s')
    (hD : ∀ k ∈ D, k ∈ s'.signalled) (k : Bytes) : changed s s' k → k ∈ s'.signalled :=
  (h.close hD).sound k

theorem Frame.pebble {D : List Bytes} {s s' : MState} (h : Frame D s s') (hp : s.pebble = true) : s'.pebble = true :=
  h.peb.trans hp

/-! ## primitive steps -/

/-- a step that leaves `index`, `signalled`, `pebble` alone -/
theorem frame_of_eq {s s' : MState} (hi : s'.index = s.index) (hs : s'.signalled = s.signalled)
    (hp : s'.pebble = s.pebble) : Frame [] s s' :=
  ⟨fun _ hx => hs ▸ hx, hp, fun k _ _ => unchanged_of_eq (getMeta_congr hi k)⟩

theorem frame_fresh (s : MState) : Frame [] s (fresh s).2 := frame_of_eq rfl rfl rfl
theorem frame_commit (s : MState) : Frame [] s (commit s) := frame_of_eq rfl rfl rfl

theorem frame_emit (s : MState) (op : FeedOp) : Frame [] s (emit s op) := by
  unfold emit; split
  · exact frame_of_eq rfl rfl rfl
  · exact Frame.refl _ _

theorem frame_lockW (s : MState) (key : Bytes) : Frame [] s (lockW s key) := by
  unfold lockW; split
  · exact Frame.refl _ _
  · split
    · exact frame_of_eq rfl rfl rfl
    · exact frame_of_eq rfl rfl rfl

theorem frame_lockR (s : MState) (key : Bytes) : Frame [] s (lockR s key) := by
  unfold lockR; split
  · exact Frame.refl _ _
  · exact frame_of_eq rfl rfl rfl

theorem frame_diskDelete (s : MState) (name : Bytes) (e : Int) : Frame [] s (diskDelete s name e) :=
  frame_of_eq rfl rfl rfl

theorem frame_unpersist (s : MState) (name : Bytes) (m : Meta) : Frame [] s (unpersist s name m) := by
  unfold unpersist; split
  · exact frame_diskDelete _ _ _
  · exact Frame.refl _ _

@[simp] theorem index_unpersist (s : MState) (name : Bytes) (m : Meta) : (unpersist s name m).index = s.index := by
  unfold unpersist; split <;> rfl
@[simp] theorem signalled_unpersist (s : MState) (name : Bytes) (m : Meta) :
    (unpersist s name m).signalled = s.signalled := by
  unfold unpersist; split <;> rfl
@[simp] theorem pebble_unpersist (s : MState) (name : Bytes) (m : Meta) : (unpersist s name m).pebble = s.pebble := by
  unfold unpersist; split <;> rfl
@[simp] theorem getMeta_unpersist (s : MState) (name : Bytes) (m : Meta) (k : Bytes) :
    getMeta (unpersist s name m) k = getMeta s k := getMeta_congr (index_unpersist s name m) k

@[simp] theorem signalled_emit (s : MState) (op : FeedOp) : (emit s op).signalled = s.signalled := by
  unfold emit; split <;> rfl
@[simp] theorem signalled_signal (s : MState) (key : Bytes) : (signal s key).signalled = key :: s.signalled := rfl
@[simp] theorem signalled_commit (s : MState) : (commit s).signalled = s.signalled := rfl
@[simp] theorem pebble_commit (s : MState) : (commit s).pebble = s.pebble := rfl

theorem getMeta_putMeta_other (s : MState) (key : Bytes) (m : Meta) (k : Bytes) (hk : k ≠ key) :
    getMeta (putMeta s key m) k = getMeta s k := by
  simp only [getMeta, putMeta]; exact get?_set_other _ _ _ _ hk

theorem getMeta_putMeta_same (s : MState) (key : Bytes) (m : Meta) :
    getMeta (putMeta s key m) key = some m := by
  simp only [getMeta, putMeta]; exact get?_set_same _ _ _

/-- a step that only rewrites the record named `key` -/
theorem frame_of_other {s s' : MState} (key : Bytes) (hi : ∀ k, k ≠ key → getMeta s' k = getMeta s k)
    (hs : s'.signalled = s.signalled) (hp : s'.pebble = s.pebble) : Frame [key] s s' :=
  ⟨fun _ hx => hs ▸ hx, hp, fun k hk _ =>
    unchanged_of_eq (hi k (fun e => hk (by simp [e])))⟩

theorem frame_putMeta (s : MState) (key : Bytes) (m : Meta) : Frame [key] s (putMeta s key m) :=
  frame_of_other key (fun k hk => getMeta_putMeta_other s key m k hk) rfl rfl

/-- overwriting a record by a logically equal one -/
theorem frame_putMeta_same (s : MState) (key : Bytes) (m0 m : Meta) (h0 : getMeta s key = some m0)
    (hu : unchanged (some m0) (some m)) : Frame [] s (putMeta s key m) :=
  ⟨fun _ hx => hx, rfl, fun k _ _ => by
    by_cases e : k = key
    · subst e; rw [h0, getMeta_putMeta_same]; exact hu
    · exact unchanged_of_eq (getMeta_putMeta_other s key m k e)⟩

theorem frame_modMeta (s : MState) (key : Bytes) (f : Meta → Meta) : Frame [key] s (modMeta s key f) := by
  unfold modMeta; split
  · exact frame_putMeta _ _ _
  · exact Frame.refl _ _

theorem markModified_unchanged (m : Meta) : unchanged (some m) (some m.markModified) := by
  refine ⟨rfl, rfl, ?_, Or.inr rfl⟩
  simp only [Meta.isOk, Meta.markModified]
  split
  · rfl
  · have : (m.state + 2) % 2 = m.state % 2 := by omega
    simp only [this]

theorem frame_markModified (s : MState) (key : Bytes) : Frame [] s (modMeta s key Meta.markModified) := by
  unfold modMeta; split
  · next m h => exact frame_putMeta_same s key m _ h (markModified_unchanged m)
  · exact Frame.refl _ _

theorem signalled_modMeta (s : MState) (key : Bytes) (f : Meta → Meta) : (modMeta s key f).signalled = s.signalled := by
  unfold modMeta; split <;> rfl

theorem frame_signal (s : MState) (key : Bytes) : Frame [] s (signal s key) := by
  have h := frame_markModified s key
  exact ⟨fun x hx => List.mem_cons_of_mem _ hx, h.peb, fun k hk hn =>
    h.keep k hk (fun hs => hn (List.mem_cons_of_mem _ (signalled_modMeta s key _ ▸ hs)))⟩

theorem frame_addSignalled (s : MState) (xs : List Bytes) :
    Frame [] s { s with signalled := xs ++ s.signalled } :=
  ⟨fun _ hx => List.mem_append_right _ hx, rfl, fun _ _ _ => unchanged_refl _⟩

theorem frame_delKey (s : MState) (key : Bytes) : Frame [key] s (delKey s key) := by
  refine frame_of_other key (fun k hk => ?_) ?_ ?_
  · simp only [delKey, getMeta]
    rw [get?_erase_other _ _ _ hk]
    split
    · simp only [unpersist]; split <;> rfl
    · rfl
  · simp only [delKey]; split
    · simp only [unpersist]; split <;> rfl
    · rfl
  · simp only [delKey]; split
    · simp only [unpersist]; split <;> rfl
    · rfl

theorem frame_setExp (s : MState) (key : Bytes) (e : Int) : Frame [key] s (setExp s key e) := by
  unfold setExp; split
  · exact Frame.refl _ _
  · exact frame_putMeta _ _ _

theorem frame_setVal (s : MState) (hp : s.pebble = true) (key : Bytes) (v : Val) : Frame [key] s (setVal s key v) := by
  unfold setVal; split
  · exact Frame.refl _ _
  · next m _ =>
    have : (putMeta s key { m with value := some v }).pebble = true := hp
    simp only [this, true_or, if_true]
    exact frame_putMeta _ _ _

/-- writing back the value that is already there -/
theorem frame_setVal_same (s : MState) (hp : s.pebble = true) (key : Bytes) (v : Val) (hv : valOf s key = some v) :
    Frame [] s (setVal s key v) := by
  unfold setVal; split
  · exact Frame.refl _ _
  · next m hm =>
    have : (putMeta s key { m with value := some v }).pebble = true := hp
    simp only [this, true_or, if_true]
    refine frame_putMeta_same s key m _ hm ⟨rfl, rfl, rfl, Or.inr ?_⟩
    simpa [valOf, hm] using hv

theorem frame_newKeyWith (s : MState) (key : Bytes) (old : Option Meta) (v : Val) :
    Frame [key] s (newKeyWith s key old v) := by
  refine frame_of_other key (fun k hk => ?_) ?_ ?_
  · simp only [newKeyWith, fresh]
    rw [getMeta_putMeta_other _ _ _ _ hk]
    split
    · rw [getMeta_unpersist]; rfl
    · rfl
  · simp only [newKeyWith, fresh, putMeta]
    split
    · rw [signalled_unpersist]
    · rfl
  · simp only [newKeyWith, fresh, putMeta]
    split
    · rw [pebble_unpersist]
    · rfl

theorem valOf_newKeyWith (s : MState) (key : Bytes) (old : Option Meta) (v : Val) :
    valOf (newKeyWith s key old v) key = some v := by
  unfold newKeyWith
  simp only [fresh, valOf, getMeta_putMeta_same, Option.bind_some, Meta.markModified, Meta.setValue]


/-! ### lookups -/

@[simp] theorem index_lockW (s : MState) (key : Bytes) : (lockW s key).index = s.index := by
  unfold lockW; split
  · rfl
  · split <;> rfl
@[simp] theorem index_lockR (s : MState) (key : Bytes) : (lockR s key).index = s.index := by
  unfold lockR; split <;> rfl

theorem count_unchanged (m : Meta) : unchanged (some m) (some { m with count := m.count + 1 }) :=
  ⟨rfl, rfl, rfl, Or.inr rfl⟩

theorem load_unchanged (m : Meta) (hv : ¬ m.value.isSome = true) (hok : m.isOk = true) (v : Val) (oid : Nat) :
    unchanged (some m) (some ({ m with oid := oid }.setValue v)) := by
  refine ⟨rfl, rfl, ?_, Or.inl ?_⟩
  · simp only [Meta.isOk, decide_eq_true_eq] at hok
    simp only [Meta.isOk, Meta.setValue, hok, if_true]
  · cases h : m.value with
    | none => rfl
    | some x => simp [h] at hv

theorem frame_readKey (s : MState) (now : Int) (key : Bytes) : Frame [] s (readKey s now key).1 := by
  unfold readKey
  split
  · next m0 hm =>
    have h1 : Frame [] s (putMeta (lockR s key) key { m0 with count := m0.count + 1 }) :=
      (frame_lockR s key).trans0 (frame_putMeta_same _ key m0 _
        ((getMeta_congr (index_lockR s key) key).trans hm) (count_unchanged m0))
    simp only []
    split
    · next hok =>
      split
      · exact h1
      · split
        · exact h1
        · next hv =>
          split
          · next v oid _ =>
            exact h1.trans0 (frame_putMeta_same _ key _ _ (getMeta_putMeta_same _ _ _) (load_unchanged _ hv hok v oid))
          · exact h1
    · exact h1
  · exact Frame.refl _ _

theorem frame_writeKey_none (s : MState) (now : Int) (key : Bytes) : Frame [] s (writeKey s now key none).1 := by
  unfold writeKey
  split
  · next m0 hm =>
    have h1 : Frame [] s (putMeta (lockW s key) key { m0 with count := m0.count + 1 }) :=
      (frame_lockW s key).trans0 (frame_putMeta_same _ key m0 _
        ((getMeta_congr (index_lockW s key) key).trans hm) (count_unchanged m0))
    simp only []
    split
    · next hok =>
      split
      · exact h1
      · split
        · exact h1
        · next hv =>
          split
          · next v oid _ =>
            exact h1.trans0 (frame_putMeta_same _ key _ _ (getMeta_putMeta_same _ _ _) (load_unchanged _ hv hok v oid))
          · exact h1
    · exact h1
  · exact Frame.refl _ _

/-- `writeKey` with a constructor either finds a live record (and then behaves like `writeKey` with a nil
    constructor), or (re-)creates the record, which then holds exactly `v`, hot -/
theorem writeKey_some_cases (s : MState) (now : Int) (key : Bytes) (v : Val) :
    ((writeKey s now key none).2 = true ∧ writeKey s now key (some v) = writeKey s now key none) ∨
    ((writeKey s now key none).2 = false ∧ Frame [key] s (writeKey s now key (some v)).1 ∧
      valOf (writeKey s now key (some v)).1 key = some v) := by
  simp only [writeKey]
  split
  · next m0 hm =>
    have h1 : Frame [key] s (putMeta (lockW s key) key { m0 with count := m0.count + 1 }) :=
      ((frame_lockW s key).trans0 (frame_putMeta_same _ key m0 _
        ((getMeta_congr (index_lockW s key) key).trans hm) (count_unchanged m0))).weaken (fun _ h => nomatch h)
    have hc : Frame [key] s (newKeyWith (putMeta (lockW s key) key { m0 with count := m0.count + 1 }) key
        (some { m0 with count := m0.count + 1 }) v) ∧
        valOf (newKeyWith (putMeta (lockW s key) key { m0 with count := m0.count + 1 }) key
        (some { m0 with count := m0.count + 1 }) v) key = some v :=
      ⟨h1.andThen (frame_newKeyWith _ _ _ _) (fun _ h => h), valOf_newKeyWith _ _ _ _⟩
    split
    · split
      · exact Or.inr ⟨rfl, hc⟩
      · split
        · exact Or.inl ⟨rfl, rfl⟩
        · split
          · exact Or.inl ⟨rfl, rfl⟩
          · exact Or.inr ⟨rfl, hc⟩
    · exact Or.inr ⟨rfl, hc⟩
  · exact Or.inr ⟨rfl, frame_newKeyWith _ _ _ _, valOf_newKeyWith _ _ _ _⟩

theorem frame_writeKey_some (s : MState) (now : Int) (key : Bytes) (v : Val) :
    Frame [key] s (writeKey s now key (some v)).1 := by
  rcases writeKey_some_cases s now key v with ⟨_, h⟩ | ⟨_, h, _⟩
  · rw [h]; exact (frame_writeKey_none s now key).weaken (fun _ h => nomatch h)
  · exact h


/-- the record named `key` is present, not expired and readable: `writeKey` finds it instead of
    (re-)creating it -/
def live (s : MState) (now : Int) (key : Bytes) : Bool := (Store.writeKey s now key none).2

theorem writeKey_some_cases' (s : MState) (now : Int) (key : Bytes) (v : Val) :
    (live s now key = true ∧ Frame [] s (writeKey s now key (some v)).1) ∨
    (live s now key = false ∧ Frame [key] s (writeKey s now key (some v)).1 ∧
      valOf (writeKey s now key (some v)).1 key = some v) := by
  rcases writeKey_some_cases s now key v with ⟨hl, h⟩ | ⟨hl, h, hv⟩
  · rw [h]; exact Or.inl ⟨hl, frame_writeKey_none s now key⟩
  · exact Or.inr ⟨hl, h, hv⟩

/-! ### chaining -/
section chain
variable {D : List Bytes} {s s1 : MState}

theorem Frame.setVal (h : Frame D s s1) (hp : s.pebble = true) (key : Bytes) (v : Val) :
    Frame (key :: D) s (Api.setVal s1 key v) := h.seq (frame_setVal s1 (h.pebble hp) key v)
theorem Frame.setExp (h : Frame D s s1) (key : Bytes) (e : Int) :
    Frame (key :: D) s (Api.setExp s1 key e) := h.seq (frame_setExp s1 key e)
theorem Frame.setExpIf (h : Frame D s s1) (c : Prop) [Decidable c] (key : Bytes) (e : Int) :
    Frame (key :: D) s (if c then Api.setExp s1 key e else s1) := by
  split
  · exact h.setExp key e
  · exact h.weaken (fun _ hk => List.mem_cons_of_mem _ hk)
theorem Frame.delKey (h : Frame D s s1) (key : Bytes) :
    Frame (key :: D) s (Store.delKey s1 key) := h.seq (frame_delKey s1 key)
theorem Frame.delKeyIf (h : Frame D s s1) (c : Prop) [Decidable c] (key : Bytes) :
    Frame (key :: D) s (if c then Store.delKey s1 key else s1) := by
  split
  · exact h.delKey key
  · exact h.weaken (fun _ hk => List.mem_cons_of_mem _ hk)
theorem Frame.putMeta (h : Frame D s s1) (key : Bytes) (m : Meta) :
    Frame (key :: D) s (Store.putMeta s1 key m) := h.seq (frame_putMeta s1 key m)
theorem Frame.modMeta (h : Frame D s s1) (key : Bytes) (f : Meta → Meta) :
    Frame (key :: D) s (Store.modMeta s1 key f) := h.seq (frame_modMeta s1 key f)
theorem Frame.newKeyWith (h : Frame D s s1) (key : Bytes) (old : Option Meta) (v : Val) :
    Frame (key :: D) s (Store.newKeyWith s1 key old v) := h.seq (frame_newKeyWith s1 key old v)
theorem Frame.emit (h : Frame D s s1) (op : FeedOp) : Frame D s (Store.emit s1 op) := h.seq0 (frame_emit s1 op)
theorem Frame.commit (h : Frame D s s1) : Frame D s (Api.commit s1) := h.seq0 (frame_commit s1)
theorem Frame.unpersist (h : Frame D s s1) (n : Bytes) (m : Meta) : Frame D s (Store.unpersist s1 n m) :=
  h.seq0 (frame_unpersist s1 n m)
theorem Frame.readKey (h : Frame D s s1) (now : Int) (key : Bytes) : Frame D s (Store.readKey s1 now key).1 :=
  h.seq0 (frame_readKey s1 now key)
theorem Frame.writeKeyNone (h : Frame D s s1) (now : Int) (key : Bytes) : Frame D s (Store.writeKey s1 now key none).1 :=
  h.seq0 (frame_writeKey_none s1 now key)

/-- `signalModifiedKey(key)` closes a frame whose only dirty key is `key` -/
theorem Frame.signal (h : Frame D s s1) (key : Bytes) (hD : ∀ k ∈ D, k = key := by simp) :
    Frame [] s (Store.signal s1 key) :=
  (h.seq0 (frame_signal s1 key)).close (fun k hk => by rw [hD k hk]; exact List.mem_cons_self)

/-- the common tail `emit (signal s key) op` -/
theorem Frame.finish (h : Frame D s s1) (key : Bytes) (op : FeedOp) (hD : ∀ k ∈ D, k = key := by simp) :
    Frame [] s (Store.emit (Store.signal s1 key) op) :=
  (h.signal key hD).emit op

/-- the tail of `del` / `zstore`: unlink, record the signal, notify -/
theorem Frame.delSignal (h : Frame D s s1) (key : Bytes) (op : FeedOp) (hD : ∀ k ∈ D, k = key := by simp) :
    Frame [] s (Store.emit { Store.delKey s1 key with signalled := key :: s1.signalled } op) := by
  have h2 : Frame [key] s1 { Store.delKey s1 key with signalled := key :: s1.signalled } := by
    have hd := frame_delKey s1 key
    have hs : (Store.delKey s1 key).signalled = s1.signalled := by
      simp only [Store.delKey]; split
      · rw [signalled_unpersist]
      · rfl
    exact ⟨fun x hx => List.mem_cons_of_mem _ hx, hd.peb, fun k hk hn =>
      hd.keep k hk (fun hm => hn (List.mem_cons_of_mem _ (hs ▸ hm)))⟩
  exact ((h.seq h2).close (fun k hk => by
    rcases List.mem_append.1 hk with hk | hk
    · rw [List.mem_singleton.1 hk]; exact List.mem_cons_self
    · rw [hD k hk]; exact List.mem_cons_self)).emit op

/-! backward style: the dirty set is fixed, the touched key must be in it -/
theorem Frame.setVal' {key : Bytes} {v : Val} (h : Frame D s s1) (hp : s.pebble = true) (hk : key ∈ D) :
    Frame D s (Api.setVal s1 key v) := h.andThen (frame_setVal s1 (h.pebble hp) key v) (by simpa using hk)
theorem Frame.setExp' {key : Bytes} {e : Int} (h : Frame D s s1) (hk : key ∈ D) :
    Frame D s (Api.setExp s1 key e) := h.andThen (frame_setExp s1 key e) (by simpa using hk)
theorem Frame.putMeta' {key : Bytes} {m : Meta} (h : Frame D s s1) (hk : key ∈ D) :
    Frame D s (Store.putMeta s1 key m) := h.andThen (frame_putMeta s1 key m) (by simpa using hk)
theorem Frame.modMeta' {key : Bytes} {f : Meta → Meta} (h : Frame D s s1) (hk : key ∈ D) :
    Frame D s (Store.modMeta s1 key f) := h.andThen (frame_modMeta s1 key f) (by simpa using hk)
theorem Frame.delKey' {key : Bytes} (h : Frame D s s1) (hk : key ∈ D) :
    Frame D s (Store.delKey s1 key) := h.andThen (frame_delKey s1 key) (by simpa using hk)
theorem Frame.unpersistOpt (h : Frame D s s1) (o : Option Meta) (n : Bytes) :
    Frame D s (match o with | some dead => Store.unpersist s1 n dead | none => s1) := by
  split
  · exact h.unpersist _ _
  · exact h
theorem Frame.fresh (h : Frame D s s1) : Frame D s (Store.fresh s1).2 := h.seq0 (frame_fresh s1)

theorem pebble_modMeta (s : MState) (key : Bytes) (f : Meta → Meta) : (Store.modMeta s key f).pebble = s.pebble := by
  unfold Store.modMeta; split <;> rfl

/-- the tail of `rename`: mark the destination modified and record the signals `xs` -/
theorem Frame.closeWith (h : Frame D s s1) (dst : Bytes) (xs : List Bytes) (hD : ∀ k ∈ D, k ∈ xs) :
    Frame [] s { Store.modMeta s1 dst Meta.markModified with signalled := xs ++ s1.signalled } :=
  ⟨fun x hx => List.mem_append_right _ (h.mono x hx), (pebble_modMeta s1 dst _).trans h.peb, fun k _ hn =>
    unchanged_trans
      (h.keep k (fun hd => hn (List.mem_append_left _ (hD k hd))) (fun hs => hn (List.mem_append_right _ hs)))
      ((frame_markModified s1 dst).keep k (fun hd => nomatch hd)
        (fun hs => hn (List.mem_append_right _ (signalled_modMeta s1 dst _ ▸ hs))))⟩

/-- publishing a record and recording the signals `xs` (tail of `renameNX`) -/
theorem Frame.closeWith' (h : Frame D s s1) (xs : List Bytes) (hD : ∀ k ∈ D, k ∈ xs) :
    Frame [] s { s1 with signalled := xs ++ s1.signalled } :=
  (h.seq0 (frame_addSignalled s1 xs)).close (fun k hk => List.mem_append_left _ (hD k hk))
end chain

set_option hygiene false in
/-- case split after `writeKey s now key (some v)`: introduces `s1 ok`, `hl : live s now key = true`, `h : Frame [] s s1`
    (found) or `hl : live s now key = false`, `h : Frame [key] s s1`, `hv : valOf s1 key = some v` (created) -/
macro "wk_some " s:term:max now:term:max key:term:max v:term:max : tactic => `(tactic|
  (rcases writeKey_some_cases' $s $now $key $v with ⟨hl, h⟩ | ⟨hl, h, hv⟩ <;>
   (first
     | generalize Store.writeKey $s $now $key (some $v) = w at h hv ⊢
     | generalize Store.writeKey $s $now $key (some $v) = w at h ⊢) <;>
   obtain ⟨s1, ok⟩ := w <;>
   dsimp only at * ))

set_option hygiene false in
/-- after `writeKey s now key none`: introduces `s1 ok`, `h : Frame [] s s1` -/
macro "wk_none " s:term:max now:term:max key:term:max : tactic => `(tactic|
  (have h := frame_writeKey_none $s $now $key
   generalize Store.writeKey $s $now $key none = w at h ⊢
   obtain ⟨s1, ok⟩ := w
   dsimp only at h ⊢))

theorem asStr_of_valOf_strNil {s : MState} {key : Bytes} (hv : valOf s key = some .strNil) :
    asStr s key = some none := by simp [asStr, hv]

theorem asStr_of_valOf_strEmpty {s : MState} {key : Bytes} (hv : valOf s key = some (.str [])) :
    asStr s key = some (some []) := by simp [asStr, hv]

/-- whether `SetRange` succeeds depends only on the bytes of the string (nil and empty agree) -/
theorem setRange_isSome_congr (a b : DsStr.S) (h : DsStr.bytes a = DsStr.bytes b) (offset : Int) (value : Bytes) :
    (DsStr.setRange a offset value).isSome = (DsStr.setRange b offset value).isSome := by
  unfold DsStr.setRange
  simp only [h]
  split
  · rfl
  · split
    · rfl
    · split <;> rfl

theorem setRange_empty_isSome (offset : Int) (value : Bytes) :
    (DsStr.setRange (some []) offset value).isSome = (DsStr.setRange none offset value).isSome :=
  setRange_isSome_congr (some []) none rfl offset value

/-! ## string family -/
section str
variable (s : MState) (hp : s.pebble = true) (now : Int)
include hp

theorem frame_set (key value : Bytes) (keepTTL : Bool) : Frame [] s (Api.set s now key value keepTTL).1 := by
  unfold Api.set
  wk_some s now key (Val.str [])
  · split
    · exact h
    · exact ((h.setVal hp _ _).setExpIf _ _ _).finish _ _
  · simp only [asStr_of_valOf_strEmpty hv]
    exact ((h.setVal hp _ _).setExpIf _ _ _).finish _ _

theorem frame_setOpt (key : Bytes) (value : DsStr.S) (keepTTL : Bool) :
    Frame [] s (Api.setOpt s now key value keepTTL).1 := by
  unfold Api.setOpt
  wk_some s now key (Val.str [])
  · split
    · exact h
    · exact ((h.setVal hp _ _).setExpIf _ _ _).finish _ _
  · simp only [asStr_of_valOf_strEmpty hv]
    exact ((h.setVal hp _ _).setExpIf _ _ _).finish _ _

theorem frame_getSet (key value : Bytes) : Frame [] s (Api.getSet s now key value).1 := by
  unfold Api.getSet
  wk_none s now key
  split
  · exact (((h.newKeyWith _ _ _).setVal hp _ _).setExp _ _).finish _ _
  · split
    · exact h
    · exact ((h.setVal hp _ _).setExp _ _).finish _ _

theorem frame_setEX (key value : Bytes) (seconds : Int) : Frame [] s (Api.setEX s now key value seconds).1 := by
  unfold Api.setEX
  wk_some s now key (Val.str [])
  · split
    · exact h
    · exact ((h.setVal hp _ _).setExp _ _).finish _ _
  · simp only [asStr_of_valOf_strEmpty hv]
    exact ((h.setVal hp _ _).setExp _ _).finish _ _

theorem frame_setPX (key value : Bytes) (ms : Int) : Frame [] s (Api.setPX s now key value ms).1 := by
  unfold Api.setPX
  wk_some s now key (Val.str [])
  · split
    · exact h
    · exact ((h.setVal hp _ _).setExp _ _).finish _ _
  · simp only [asStr_of_valOf_strEmpty hv]
    exact ((h.setVal hp _ _).setExp _ _).finish _ _

theorem frame_setNX (key value : Bytes) (keepTTL : Bool) : Frame [] s (Api.setNX s now key value keepTTL).1 := by
  unfold Api.setNX
  wk_none s now key
  split
  · exact h
  · exact (((h.newKeyWith _ _ _).setExpIf _ _ _).setVal hp _ _).finish _ _

theorem frame_setXX (key value : Bytes) (keepTTL : Bool) : Frame [] s (Api.setXX s now key value keepTTL).1 := by
  unfold Api.setXX
  wk_none s now key
  split
  · exact h
  · split
    · exact h
    · exact ((h.setVal hp _ _).setExpIf _ _ _).finish _ _

theorem frame_setBit (key : Bytes) (offset : Int) (value : Bool) : Frame [] s (Api.setBit s now key offset value).1 := by
  unfold Api.setBit
  wk_some s now key (Val.str [])
  · split
    · exact h
    · exact (h.setVal hp _ _).finish _ _
  · simp only [asStr_of_valOf_strEmpty hv]
    exact (h.setVal hp _ _).finish _ _

theorem frame_append (key value : Bytes) : Frame [] s (Api.append s now key value).1 := by
  unfold Api.append
  wk_some s now key (Val.str [])
  · split
    · exact h
    · exact (h.setVal hp _ _).finish _ _
  · simp only [asStr_of_valOf_strEmpty hv]
    exact (h.setVal hp _ _).finish _ _

/-
  FULL STATEMENT (false):
    theorem writers_signal_addInt (s) (hp : s.pebble = true) (now key delta neg sw) (k) :
      changed s (Api.addInt s now key delta neg sw).1 k → k ∈ (Api.addInt s now key delta neg sw).1.signalled
  Finding region: the key is not live (so `writeKey` creates it as an empty string) AND the sum
  0 ± delta leaves int64 (DECRBY key -2^63 through the typed API): the call returns the overflow error
  after the record was created, without `signalModifiedKey`.
-/
theorem frame_addInt (key : Bytes) (delta : Int) (neg sw : Bool)
    (hreg : live s now key = true ∨ inInt64 (if neg then -delta else delta) = true) :
    Frame [] s (Api.addInt s now key delta neg sw).1 := by
  unfold Api.addInt
  wk_some s now key (Val.str [])
  · split
    · exact h
    · split
      · exact h
      · exact (h.setVal hp _ _).finish _ _
  · simp only [asStr_of_valOf_strEmpty hv]
    have hin : inInt64 (if neg then -delta else delta) = true := by
      rcases hreg with h' | h'
      · rw [hl] at h'; cases h'
      · exact h'
    have hp0 : parseInt64 [48] = some 0 := by decide
    cases neg
    · simp only [Bool.false_eq_true, if_false] at hin ⊢
      simp only [DsStr.incr, DsStr.addInt, DsStr.bytes, Option.getD_some, List.isEmpty_nil, if_true, hp0,
        Int.zero_add, hin]
      exact (h.setVal hp _ _).finish _ _
    · simp only [if_true] at hin ⊢
      simp only [DsStr.decr, DsStr.addInt, DsStr.bytes, Option.getD_some, List.isEmpty_nil, if_true, hp0,
        Int.zero_add, hin]
      exact (h.setVal hp _ _).finish _ _

/-
  FULL STATEMENT (false):
    theorem writers_signal_setRange (s) (hp : s.pebble = true) (now key offset value) (k) :
      changed s (Api.setRange s now key offset value).1 k → k ∈ (Api.setRange s now key offset value).1.signalled
  Finding region: the key is not live (so `writeKey` creates it) AND `SetRange` panics on the fresh empty
  string (offset + len overflows int64 or asks for more than 1 GiB): the record was created, the call
  panics before `signalModifiedKey`. (Embedded API only: the RESP handler rejects such offsets.)
-/
theorem frame_setRange (key : Bytes) (offset : Int) (value : Bytes)
    (hreg : live s now key = true ∨ (DsStr.setRange none offset value).isSome = true) :
    Frame [] s (Api.setRange s now key offset value).1 := by
  unfold Api.setRange
  wk_some s now key (Val.str [])
  · split
    · exact h
    · split
      · exact h
      · exact (h.setVal hp _ _).finish _ _
  · simp only [asStr_of_valOf_strEmpty hv]
    have hin : (DsStr.setRange none offset value).isSome = true := by
      rcases hreg with h' | h'
      · rw [hl] at h'; cases h'
      · exact h'
    rw [← setRange_empty_isSome] at hin
    split
    · next hn => rw [hn] at hin; cases hin
    · exact (h.setVal hp _ _).finish _ _

end str

theorem frame_mset_go (now : Int) :
    ∀ (pairs : List Bytes) (s : MState), s.pebble = true → Frame [] s (Api.mset.go now pairs s).1
  | [], s, _ => by unfold Api.mset.go; exact Frame.refl _ _
  | [_], s, _ => by unfold Api.mset.go; exact Frame.refl _ _
  | k :: v :: rest, s, hp => by
    unfold Api.mset.go
    have h1 := frame_set s hp now k v false
    generalize Api.set s now k v false = r at h1 ⊢
    obtain ⟨s1, o⟩ := r
    dsimp only at h1 ⊢
    split
    · next heq => cases heq; exact h1
    · next heq =>
      cases heq
      exact h1.trans0 ((frame_commit _).trans0 (frame_mset_go now rest _ (h1.pebble hp)))

theorem frame_mset (s : MState) (hp : s.pebble = true) (now : Int) (pairs : List Bytes) :
    Frame [] s (Api.mset s now pairs).1 := by
  unfold Api.mset
  split
  · exact Frame.refl _ _
  · exact frame_mset_go now pairs s hp


/-! ## key family -/

/-- a left fold whose every step is a closed frame is a closed frame -/
theorem frame_foldl {α β : Type} (f : MState × α → β → MState × α)
    (hf : ∀ acc x, acc.1.pebble = true → Frame [] acc.1 (f acc x).1) :
    ∀ (xs : List β) (acc : MState × α), acc.1.pebble = true → Frame [] acc.1 (xs.foldl f acc).1
  | [], acc, _ => Frame.refl _ _
  | x :: xs, acc, hp => by
    rw [List.foldl_cons]
    exact (hf acc x hp).trans0 (frame_foldl f hf xs (f acc x) ((hf acc x hp).pebble hp))

section key
variable (s : MState) (hp : s.pebble = true) (now : Int)
include hp

theorem frame_del (keys : List Bytes) : Frame [] s (Api.del s now keys).1 := by
  unfold Api.del
  split
  next s' c heq =>
  have := frame_foldl (α := Int) (fun (acc : MState × Int) key =>
    let (s, ok) := writeKey acc.1 now key none
    if !ok then (s, acc.2) else
    (emit { delKey s key with signalled := key :: s.signalled } { typ := 2, key := key }, acc.2 + 1))
    (fun acc key _ => by
      dsimp only
      wk_none acc.1 now key
      split
      · exact h
      · exact h.delSignal key _) keys (s, 0) hp
  rw [heq] at this
  exact this

omit hp in
theorem frame_applyExp {D : List Bytes} {s1 : MState} (h : Frame D s s1) (key : Bytes) (e : Int)
    (hD : ∀ k ∈ D, k = key := by simp) : Frame [] s (Api.applyExp s1 key e) := by
  unfold Api.applyExp
  exact (h.setExp key e).finish key _ (by simpa using hD)

theorem frame_expire (key : Bytes) (seconds : Int) : Frame [] s (Api.expire s now key seconds).1 := by
  unfold Api.expire
  split
  · exact frame_del s hp now [key]
  · wk_none s now key
    split
    · exact h
    · exact frame_applyExp s h key _

theorem frame_expirePX (key : Bytes) (ms : Int) : Frame [] s (Api.expirePX s now key ms).1 := by
  unfold Api.expirePX
  split
  · exact frame_del s hp now [key]
  · wk_none s now key
    split
    · exact h
    · exact frame_applyExp s h key _

theorem frame_expireNX (key : Bytes) (seconds : Int) : Frame [] s (Api.expireNX s now key seconds).1 := by
  unfold Api.expireNX
  wk_none s now key
  split
  · exact h
  · split
    · first | exact h | exact frame_applyExp s h key _
    · first | exact h | exact frame_applyExp s h key _

theorem frame_expireXX (key : Bytes) (seconds : Int) : Frame [] s (Api.expireXX s now key seconds).1 := by
  unfold Api.expireXX
  wk_none s now key
  split
  · exact h
  · split
    · first | exact h | exact frame_applyExp s h key _
    · first | exact h | exact frame_applyExp s h key _

theorem frame_expireAtNX (key : Bytes) (ts : Int) : Frame [] s (Api.expireAtNX s now key ts).1 := by
  unfold Api.expireAtNX
  wk_none s now key
  split
  · exact h
  · split
    · first | exact h | exact frame_applyExp s h key _
    · first | exact h | exact frame_applyExp s h key _

theorem frame_expireAtXX (key : Bytes) (ts : Int) : Frame [] s (Api.expireAtXX s now key ts).1 := by
  unfold Api.expireAtXX
  wk_none s now key
  split
  · exact h
  · split
    · first | exact h | exact frame_applyExp s h key _
    · first | exact h | exact frame_applyExp s h key _

theorem frame_expireGT (key : Bytes) (seconds : Int) : Frame [] s (Api.expireGT s now key seconds).1 := by
  unfold Api.expireGT
  wk_none s now key
  split
  · exact h
  · split
    · first | exact h | exact frame_applyExp s h key _
    · first | exact h | exact frame_applyExp s h key _

theorem frame_expireAtGT (key : Bytes) (ts : Int) : Frame [] s (Api.expireAtGT s now key ts).1 := by
  unfold Api.expireAtGT
  wk_none s now key
  split
  · exact h
  · split
    · first | exact h | exact frame_applyExp s h key _
    · first | exact h | exact frame_applyExp s h key _

theorem frame_expireLT (key : Bytes) (seconds : Int) : Frame [] s (Api.expireLT s now key seconds).1 := by
  unfold Api.expireLT
  wk_none s now key
  split
  · exact h
  · split
    · exact h
    · split
      · exact frame_applyExp s h key _
      · exact h

theorem frame_expireAtLT (key : Bytes) (ts : Int) : Frame [] s (Api.expireAtLT s now key ts).1 := by
  unfold Api.expireAtLT
  wk_none s now key
  split
  · exact h
  · split
    · exact h
    · split
      · exact frame_applyExp s h key _
      · exact h

theorem frame_expireAt (key : Bytes) (ts : Int) : Frame [] s (Api.expireAt s now key ts).1 := by
  unfold Api.expireAt
  wk_none s now key
  split
  · exact h
  · exact frame_applyExp s h key _

theorem frame_persist (key : Bytes) : Frame [] s (Api.persist s now key).1 := by
  unfold Api.persist
  wk_none s now key
  split
  · exact h
  · split
    · exact h
    · exact (h.setExp key 0).finish key _

theorem frame_rename (key dst : Bytes) : Frame [] s (Api.rename s now key dst).1 := by
  unfold Api.rename
  wk_none s now key
  split
  · exact h
  · split
    · exact h
    · next m hm =>
      split
      · exact h
      · have h2 := h.writeKeyNone now dst
        generalize writeKey s1 now dst none = w2 at h2 ⊢
        obtain ⟨s2, dok⟩ := w2
        dsimp only at h2 ⊢
        have h3 : Frame [dst, key] s (delKey s2 key) :=
          (h2.weaken (fun _ hk => nomatch hk)).delKey' (by simp)
        refine Frame.emit (Frame.closeWith (D := [dst, key]) ?_ dst [dst, key] (fun _ hk => hk)) _
        refine Frame.setExp' ?_ (by simp)
        split
        · refine Frame.modMeta' ?_ (by simp)
          split
          · exact (h3.fresh.unpersistOpt _ _).putMeta' (by simp)
          · exact h3
        · split
          · exact (h3.fresh.unpersistOpt _ _).putMeta' (by simp)
          · exact h3

theorem frame_renameNX (key dst : Bytes) : Frame [] s (Api.renameNX s now key dst).1 := by
  unfold Api.renameNX
  wk_none s now dst
  split
  · exact h
  · have h2 := h.writeKeyNone now key
    generalize writeKey s1 now key none = w2 at h2 ⊢
    obtain ⟨s2, ok2⟩ := w2
    dsimp only at h2 ⊢
    split
    · exact h2
    · split
      · exact h2
      · next m hm =>
        have h3 : Frame [dst, key] s (delKey s2 key) :=
          (h2.weaken (fun _ hk => nomatch hk)).delKey' (by simp)
        refine Frame.emit (Frame.closeWith' (D := [dst, key]) ?_ [dst, key] (fun _ hk => hk)) _
        exact (h3.fresh.unpersistOpt _ _).putMeta' (by simp)

end key


/-! ## the table: string and key families -/

theorem writers_signal_set (s : MState) (hp : s.pebble = true) (now : Int) (key value : Bytes) (keepTTL : Bool) (k : Bytes) :
    changed s (Api.set s now key value keepTTL).1 k → k ∈ (Api.set s now key value keepTTL).1.signalled :=
  (frame_set s hp now key value keepTTL).sound k

theorem writers_signal_setOpt (s : MState) (hp : s.pebble = true) (now : Int) (key : Bytes) (value : DsStr.S) (keepTTL : Bool) (k : Bytes) :
    changed s (Api.setOpt s now key value keepTTL).1 k → k ∈ (Api.setOpt s now key value keepTTL).1.signalled :=
  (frame_setOpt s hp now key value keepTTL).sound k

theorem writers_signal_setNX (s : MState) (hp : s.pebble = true) (now : Int) (key value : Bytes) (keepTTL : Bool) (k : Bytes) :
    changed s (Api.setNX s now key value keepTTL).1 k → k ∈ (Api.setNX s now key value keepTTL).1.signalled :=
  (frame_setNX s hp now key value keepTTL).sound k

theorem writers_signal_setXX (s : MState) (hp : s.pebble = true) (now : Int) (key value : Bytes) (keepTTL : Bool) (k : Bytes) :
    changed s (Api.setXX s now key value keepTTL).1 k → k ∈ (Api.setXX s now key value keepTTL).1.signalled :=
  (frame_setXX s hp now key value keepTTL).sound k

theorem writers_signal_getSet (s : MState) (hp : s.pebble = true) (now : Int) (key value : Bytes) (k : Bytes) :
    changed s (Api.getSet s now key value).1 k → k ∈ (Api.getSet s now key value).1.signalled :=
  (frame_getSet s hp now key value).sound k

theorem writers_signal_setEX (s : MState) (hp : s.pebble = true) (now : Int) (key value : Bytes) (seconds : Int) (k : Bytes) :
    changed s (Api.setEX s now key value seconds).1 k → k ∈ (Api.setEX s now key value seconds).1.signalled :=
  (frame_setEX s hp now key value seconds).sound k

theorem writers_signal_setPX (s : MState) (hp : s.pebble = true) (now : Int) (key value : Bytes) (ms : Int) (k : Bytes) :
    changed s (Api.setPX s now key value ms).1 k → k ∈ (Api.setPX s now key value ms).1.signalled :=
  (frame_setPX s hp now key value ms).sound k

theorem writers_signal_append (s : MState) (hp : s.pebble = true) (now : Int) (key value : Bytes) (k : Bytes) :
    changed s (Api.append s now key value).1 k → k ∈ (Api.append s now key value).1.signalled :=
  (frame_append s hp now key value).sound k

theorem writers_signal_setBit (s : MState) (hp : s.pebble = true) (now : Int) (key : Bytes) (offset : Int) (value : Bool) (k : Bytes) :
    changed s (Api.setBit s now key offset value).1 k → k ∈ (Api.setBit s now key offset value).1.signalled :=
  (frame_setBit s hp now key offset value).sound k

theorem writers_signal_mset (s : MState) (hp : s.pebble = true) (now : Int) (pairs : List Bytes) (k : Bytes) :
    changed s (Api.mset s now pairs).1 k → k ∈ (Api.mset s now pairs).1.signalled :=
  (frame_mset s hp now pairs).sound k

/-- INCR/INCRBY/DECR/DECRBY outside the finding region (see `writers_signal_addInt_finding`): the key is
    live, or the sum on the freshly created empty string stays inside int64 -/
theorem writers_signal_addInt_partial (s : MState) (hp : s.pebble = true) (now : Int) (key : Bytes) (delta : Int) (neg sw : Bool)
    (hreg : live s now key = true ∨ inInt64 (if neg then -delta else delta) = true) (k : Bytes) :
    changed s (Api.addInt s now key delta neg sw).1 k → k ∈ (Api.addInt s now key delta neg sw).1.signalled :=
  (frame_addInt s hp now key delta neg sw hreg).sound k

/-- witness: `DecrBy(k, math.MinInt64)` on a missing key: the record is created (an empty string now
    exists under `k`), the overflow error is returned, nothing is signalled -/
theorem writers_signal_addInt_finding :
    let s : MState := { pebble := true }
    let s' := (Api.addInt s 0 [107] int64Min true).1
    changed s s' [107] ∧ [107] ∉ s'.signalled := by decide

/-- SETRANGE outside the finding region (see `writers_signal_setRange_finding`): the key is live, or
    `SetRange` does not panic on the freshly created empty string -/
theorem writers_signal_setRange_partial (s : MState) (hp : s.pebble = true) (now : Int) (key : Bytes) (offset : Int) (value : Bytes)
    (hreg : live s now key = true ∨ (DsStr.setRange none offset value).isSome = true) (k : Bytes) :
    changed s (Api.setRange s now key offset value).1 k → k ∈ (Api.setRange s now key offset value).1.signalled :=
  (frame_setRange s hp now key offset value hreg).sound k

/-- witness (embedded API; the RESP handler rejects such offsets): `SetRange(k, math.MaxInt64, "x")` on a
    missing key: the record is created, `offset+len` wraps negative, `s.V[offset:]` panics (slice bounds),
    nothing is signalled -/
theorem writers_signal_setRange_finding :
    let s : MState := { pebble := true }
    let s' := (Api.setRange s 0 [107] 9223372036854775807 [120]).1
    changed s s' [107] ∧ [107] ∉ s'.signalled := by decide

theorem writers_signal_del (s : MState) (hp : s.pebble = true) (now : Int) (keys : List Bytes) (k : Bytes) :
    changed s (Api.del s now keys).1 k → k ∈ (Api.del s now keys).1.signalled :=
  (frame_del s hp now keys).sound k

theorem writers_signal_expire (s : MState) (hp : s.pebble = true) (now : Int) (key : Bytes) (seconds : Int) (k : Bytes) :
    changed s (Api.expire s now key seconds).1 k → k ∈ (Api.expire s now key seconds).1.signalled :=
  (frame_expire s hp now key seconds).sound k

theorem writers_signal_expirePX (s : MState) (hp : s.pebble = true) (now : Int) (key : Bytes) (ms : Int) (k : Bytes) :
    changed s (Api.expirePX s now key ms).1 k → k ∈ (Api.expirePX s now key ms).1.signalled :=
  (frame_expirePX s hp now key ms).sound k

theorem writers_signal_expireNX (s : MState) (hp : s.pebble = true) (now : Int) (key : Bytes) (seconds : Int) (k : Bytes) :
    changed s (Api.expireNX s now key seconds).1 k → k ∈ (Api.expireNX s now key seconds).1.signalled :=
  (frame_expireNX s hp now key seconds).sound k

theorem writers_signal_expireXX (s : MState) (hp : s.pebble = true) (now : Int) (key : Bytes) (seconds : Int) (k : Bytes) :
    changed s (Api.expireXX s now key seconds).1 k → k ∈ (Api.expireXX s now key seconds).1.signalled :=
  (frame_expireXX s hp now key seconds).sound k

theorem writers_signal_expireLT (s : MState) (hp : s.pebble = true) (now : Int) (key : Bytes) (seconds : Int) (k : Bytes) :
    changed s (Api.expireLT s now key seconds).1 k → k ∈ (Api.expireLT s now key seconds).1.signalled :=
  (frame_expireLT s hp now key seconds).sound k

theorem writers_signal_expireGT (s : MState) (hp : s.pebble = true) (now : Int) (key : Bytes) (seconds : Int) (k : Bytes) :
    changed s (Api.expireGT s now key seconds).1 k → k ∈ (Api.expireGT s now key seconds).1.signalled :=
  (frame_expireGT s hp now key seconds).sound k

theorem writers_signal_expireAt (s : MState) (hp : s.pebble = true) (now : Int) (key : Bytes) (ts : Int) (k : Bytes) :
    changed s (Api.expireAt s now key ts).1 k → k ∈ (Api.expireAt s now key ts).1.signalled :=
  (frame_expireAt s hp now key ts).sound k

theorem writers_signal_expireAtNX (s : MState) (hp : s.pebble = true) (now : Int) (key : Bytes) (ts : Int) (k : Bytes) :
    changed s (Api.expireAtNX s now key ts).1 k → k ∈ (Api.expireAtNX s now key ts).1.signalled :=
  (frame_expireAtNX s hp now key ts).sound k

theorem writers_signal_expireAtXX (s : MState) (hp : s.pebble = true) (now : Int) (key : Bytes) (ts : Int) (k : Bytes) :
    changed s (Api.expireAtXX s now key ts).1 k → k ∈ (Api.expireAtXX s now key ts).1.signalled :=
  (frame_expireAtXX s hp now key ts).sound k

theorem writers_signal_expireAtLT (s : MState) (hp : s.pebble = true) (now : Int) (key : Bytes) (ts : Int) (k : Bytes) :
    changed s (Api.expireAtLT s now key ts).1 k → k ∈ (Api.expireAtLT s now key ts).1.signalled :=
  (frame_expireAtLT s hp now key ts).sound k

theorem writers_signal_expireAtGT (s : MState) (hp : s.pebble = true) (now : Int) (key : Bytes) (ts : Int) (k : Bytes) :
    changed s (Api.expireAtGT s now key ts).1 k → k ∈ (Api.expireAtGT s now key ts).1.signalled :=
  (frame_expireAtGT s hp now key ts).sound k

theorem writers_signal_persist (s : MState) (hp : s.pebble = true) (now : Int) (key : Bytes) (k : Bytes) :
    changed s (Api.persist s now key).1 k → k ∈ (Api.persist s now key).1.signalled :=
  (frame_persist s hp now key).sound k

theorem writers_signal_rename (s : MState) (hp : s.pebble = true) (now : Int) (key dst : Bytes) (k : Bytes) :
    changed s (Api.rename s now key dst).1 k → k ∈ (Api.rename s now key dst).1.signalled :=
  (frame_rename s hp now key dst).sound k

theorem writers_signal_renameNX (s : MState) (hp : s.pebble = true) (now : Int) (key dst : Bytes) (k : Bytes) :
    changed s (Api.renameNX s now key dst).1 k → k ∈ (Api.renameNX s now key dst).1.signalled :=
  (frame_renameNX s hp now key dst).sound k

end NodisVerif.Proofs.C09Writers
