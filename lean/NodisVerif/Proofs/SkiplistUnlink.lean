import NodisVerif.Proofs.SkiplistInv
/-
  Lemmas for `removeNode` (Model/Skiplist.lean): frame / effect of `modLevel`, `setBackward`, `unlinkLevels`, `shrinkLevel`;
  `Linked` of the chain without the node in the new heap (`linked_remove`); `BackLinked` through append.
  Used by Proofs/SkiplistRemoveNode.lean.
-/
namespace NodisVerif.Skiplist.Unlink
open NodisVerif.DsZSet (Item nodeLt)
open NodisVerif.Proofs.C04 (ILt)
open NodisVerif.Proofs.ZSetLemmas (Good)

/-! ### heap access as option-valued functions -/

/-- `n.level[i]` as an option -/
def lvAt (h : List Node) (n i : Nat) : Option Level :=
  match h[n]? with
  | some nd => nd.level[i]?
  | none => none

/-- `n.backward` as an option -/
def backAt (h : List Node) (n : Nat) : Option (Option Nat) :=
  match h[n]? with
  | some nd => some nd.backward
  | none => none

theorem getLevel_ok_lvAt (h : List Node) (n i : Nat) (l : Level) :
    getLevel h n i = .ok l ↔ lvAt h n i = some l := by
  rw [getLevel_ok_iff]; unfold lvAt
  cases h[n]? <;> simp

theorem getLevel_of_lvAt {h : List Node} {n i : Nat} {l : Level} (hl : lvAt h n i = some l) :
    getLevel h n i = .ok l := (getLevel_ok_lvAt h n i l).2 hl

theorem lvAt_isSome_iff (h : List Node) (n i : Nat) : (∃ l, lvAt h n i = some l) ↔ i < height h n := by
  unfold lvAt height
  cases hn : h[n]? with
  | none => simp
  | some nd =>
    simp only
    constructor
    · rintro ⟨l, hl⟩; exact (List.getElem?_eq_some_iff.1 hl).1
    · intro hi; exact ⟨nd.level[i], by simp [hi]⟩

theorem lvAt_above {h : List Node} {n i : Nat} {l : Level} (hl : lvAt h n i = some l) : above h i n = true := by
  simp [above, ← lvAt_isSome_iff, hl]

/-- the part of the heap no operation of `removeNode` changes -/
structure Frame (h h' : List Node) : Prop where
  len : h'.length = h.length
  ht : ∀ x, height h' x = height h x
  item : ∀ x, itemAt h' x = itemAt h x

theorem Frame.refl (h : List Node) : Frame h h := ⟨rfl, fun _ => rfl, fun _ => rfl⟩

theorem Frame.trans {h h' h'' : List Node} (a : Frame h h') (b : Frame h' h'') : Frame h h'' :=
  ⟨by rw [b.len, a.len], fun x => by rw [b.ht, a.ht], fun x => by rw [b.item, a.item]⟩

theorem Frame.above {h h' : List Node} (a : Frame h h') (i x : Nat) : above h' i x = above h i x := by
  simp [Skiplist.above, a.ht]

theorem modLevel_spec {h : List Node} {n i : Nat} {l : Level} (f : Level → Level) (hl : lvAt h n i = some l) :
    ∃ h', modLevel h n i f = .ok h' ∧ Frame h h' ∧ (∀ x, backAt h' x = backAt h x) ∧
      (∀ x j, lvAt h' x j = if x = n ∧ j = i then some (f l) else lvAt h x j) := by
  unfold lvAt at hl
  cases hn : h[n]? with
  | none => simp [hn] at hl
  | some nd =>
    simp only [hn] at hl
    obtain ⟨hnlt, hnd⟩ := List.getElem?_eq_some_iff.1 hn
    subst hnd
    have hilt : i < h[n].level.length := (List.getElem?_eq_some_iff.1 hl).1
    refine ⟨h.set n { h[n] with level := h[n].level.set i (f l) }, by simp [modLevel, hn, hl, pure, Except.pure], ⟨by simp, ?_, ?_⟩, ?_, ?_⟩
    · intro x
      simp only [height, List.getElem?_set]
      by_cases hx : n = x
      · subst hx; simp [hnlt]
      · simp [hx]
    · intro x
      simp only [itemAt, List.getElem?_set]
      by_cases hx : n = x
      · subst hx; simp [hnlt, Node.item]
      · simp [hx]
    · intro x
      simp only [backAt, List.getElem?_set]
      by_cases hx : n = x
      · subst hx; simp [hnlt]
      · simp [hx]
    · intro x j
      simp only [lvAt, List.getElem?_set]
      by_cases hx : n = x
      · subst hx
        simp only [hnlt, if_true, hn, true_and]
        by_cases hj : j = i
        · subst hj; simp [hilt]
        · simp [hj, Ne.symm hj]
      · have : ¬ x = n := fun e => hx e.symm
        simp [hx, this]

theorem setBackward_spec {h : List Node} {n : Nat} (b : Option Nat) (hn : n < h.length) :
    ∃ h', setBackward h n b = .ok h' ∧ Frame h h' ∧ (∀ x j, lvAt h' x j = lvAt h x j) ∧
      (∀ x, backAt h' x = if x = n then some b else backAt h x) := by
  have hnd : h[n]? = some h[n] := by simp [hn]
  refine ⟨h.set n { h[n] with backward := b }, by simp [setBackward, hnd, pure, Except.pure], ⟨by simp, ?_, ?_⟩, ?_, ?_⟩
  · intro x
    simp only [height, List.getElem?_set]
    by_cases hx : n = x
    · subst hx; simp [hn]
    · simp [hx]
  · intro x
    simp only [itemAt, List.getElem?_set]
    by_cases hx : n = x
    · subst hx; simp [hn, Node.item]
    · simp [hx]
  · intro x j
    simp only [lvAt, List.getElem?_set]
    by_cases hx : n = x
    · subst hx; simp [hn]
    · simp [hx]
  · intro x
    simp only [backAt, List.getElem?_set]
    by_cases hx : n = x
    · subst hx; simp [hn]
    · have : ¬ x = n := fun e => hx e.symm
      simp [hx, this]

/-! ### the effect of `unlinkLevels` -/

theorem getUpd_ok {update : List (Option Nat)} {i u : Nat} (hu : update[i]? = some (some u)) :
    getUpd update i = .ok u := by
  simp [getUpd, getArr, hu, bind, Except.bind, pure, Except.pure]

/-- the new value of `x.level[j]` when `x = update[j]` -/
def newLv (h : List Node) (n x j : Nat) : Option Level :=
  match lvAt h x j with
  | none => none
  | some l =>
    if l.forward = some n then
      match lvAt h n j with
      | some ln => some { forward := ln.forward, span := l.span + (ln.span - 1) }
      | none => none
    else some { l with span := l.span - 1 }

theorem unlinkLevels_spec (n : Nat) (update : List (Option Nat)) : ∀ (k i : Nat) (h : List Node),
    (∀ j, i ≤ j → j < i + k → ∃ u l, update[j]? = some (some u) ∧ u ≠ n ∧ lvAt h u j = some l ∧
        (l.forward = some n → j < height h n)) →
    ∃ h', unlinkLevels n update k i h = .ok h' ∧ Frame h h' ∧ (∀ x, backAt h' x = backAt h x) ∧
      ∀ x j, lvAt h' x j =
        if i ≤ j ∧ j < i + k ∧ update[j]? = some (some x) then newLv h n x j else lvAt h x j := by
  intro k
  induction k with
  | zero =>
    intro i h _
    refine ⟨h, by simp [unlinkLevels, pure, Except.pure], Frame.refl h, fun _ => rfl, ?_⟩
    intro x j
    have : ¬ (i ≤ j ∧ j < i + 0 ∧ update[j]? = some (some x)) := by omega
    rw [if_neg this]
  | succ k ih =>
    intro i h hyp
    obtain ⟨u, l, hu, hun, hl, hfn⟩ := hyp i (Nat.le_refl _) (by omega)
    -- the step
    have step : ∃ h1, (∃ f, lvAt h u i = some l ∧ modLevel h u i f = .ok h1 ∧ newLv h n u i = some (f l)) ∧
        unlinkLevels n update (k + 1) i h = unlinkLevels n update k (i + 1) h1 := by
      by_cases hf : l.forward = some n
      · obtain ⟨ln, hln⟩ := (lvAt_isSome_iff h n i).2 (hfn hf)
        obtain ⟨h1, hm, _⟩ := modLevel_spec (fun l => { forward := ln.forward, span := l.span + (ln.span - 1) }) hl
        refine ⟨h1, ⟨_, hl, hm, by simp [newLv, hl, hf, hln]⟩, ?_⟩
        simp [unlinkLevels, getUpd_ok hu, getLevel_of_lvAt hl, getLevel_of_lvAt hln, hf, hm, bind, Except.bind]
      · obtain ⟨h1, hm, _⟩ := modLevel_spec (fun l => { l with span := l.span - 1 }) hl
        refine ⟨h1, ⟨_, hl, hm, by simp [newLv, hl, hf]⟩, ?_⟩
        simp [unlinkLevels, getUpd_ok hu, getLevel_of_lvAt hl, hf, hm, bind, Except.bind]
    obtain ⟨h1, ⟨f, _, hm, hnew⟩, hstep⟩ := step
    obtain ⟨h1', hm', hfr, hback, hlv⟩ := modLevel_spec f hl
    rw [hm] at hm'; cases hm'
    have hlv' : ∀ x j, j ≠ i → lvAt h1 x j = lvAt h x j := by
      intro x j hj; rw [hlv]; simp [hj]
    obtain ⟨h', hrun, hfr', hback', hlv2⟩ := ih (i + 1) h1 (by
      intro j hj1 hj2
      obtain ⟨u', l', hu', hun', hl', hfn'⟩ := hyp j (by omega) (by omega)
      exact ⟨u', l', hu', hun', by rw [hlv' _ _ (by omega)]; exact hl', by rw [hfr.ht]; exact hfn'⟩)
    refine ⟨h', by rw [hstep]; exact hrun, hfr.trans hfr', fun x => by rw [hback', hback], ?_⟩
    intro x j
    rw [hlv2]
    by_cases hji : j = i
    · subst hji
      have c1 : ¬ (j + 1 ≤ j ∧ j < j + 1 + k ∧ update[j]? = some (some x)) := by omega
      rw [if_neg c1, hlv]
      by_cases hx : x = u
      · subst hx; simp [hu, hnew]
      · have : ¬ some (some u) = some (some x) := by simp [Ne.symm hx]
        simp [hx, hu, this]
    · have hnl : newLv h1 n x j = newLv h n x j := by
        simp only [newLv, hlv' _ _ hji]
      rw [hnl, hlv' _ _ hji]
      by_cases c : i + 1 ≤ j ∧ j < i + 1 + k ∧ update[j]? = some (some x)
      · have c' : i ≤ j ∧ j < i + (k + 1) ∧ update[j]? = some (some x) := ⟨by omega, by omega, c.2.2⟩
        rw [if_pos c, if_pos c']
      · have c' : ¬ (i ≤ j ∧ j < i + (k + 1) ∧ update[j]? = some (some x)) := by
          intro c'; exact c ⟨by omega, by omega, c'.2.2⟩
        rw [if_neg c, if_neg c']

/-! ### list lemmas -/

theorem find_skip {α} {p : α → Bool} {S T : List α} (hS : ∀ y ∈ S, p y = false) :
    (S ++ T).find? p = T.find? p := by
  induction S with
  | nil => rfl
  | cons a S ih =>
    have ha : p a = false := hS a (by simp)
    simp only [List.cons_append, List.find?_cons, ha]
    exact ih (fun y hy => hS y (by simp [hy]))

theorem findIdx_skip {α} {p : α → Bool} {S T : List α} (hS : ∀ y ∈ S, p y = false) :
    (S ++ T).findIdx p = S.length + T.findIdx p := by
  induction S with
  | nil => simp
  | cons a S ih =>
    have ha : p a = false := hS a (by simp)
    simp only [List.cons_append, List.findIdx_cons, ha, cond_false, List.length_cons]
    rw [ih (fun y hy => hS y (by simp [hy]))]; omega

theorem find_hit {α} {p : α → Bool} {S : List α} (T T' : List α) {u : α} (hu : u ∈ S) (hp : p u = true) :
    (S ++ T).find? p = (S ++ T').find? p ∧ (S ++ T).findIdx p = (S ++ T').findIdx p := by
  induction S with
  | nil => simp at hu
  | cons a S ih =>
    cases ha : p a with
    | true => simp [List.findIdx_cons, ha]
    | false =>
      have hu' : u ∈ S := by
        rcases List.mem_cons.1 hu with e | e
        · subst e; rw [hp] at ha; cases ha
        · exact e
      simp only [List.cons_append, List.find?_cons, List.findIdx_cons, ha, cond_false]
      exact ⟨(ih hu').1, by rw [(ih hu').2]⟩

theorem split_unique {α} {L P S P' S' : List α} {x : α} (hnd : L.Nodup) (h1 : L = P ++ x :: S)
    (h2 : L = P' ++ x :: S') : P = P' ∧ S = S' := by
  subst h1
  induction P generalizing P' with
  | nil =>
    cases P' with
    | nil => simp at h2; exact ⟨rfl, h2⟩
    | cons a P' =>
      simp at h2
      obtain ⟨rfl, h2⟩ := h2
      subst h2
      simp at hnd
  | cons a P ih =>
    cases P' with
    | nil =>
      simp at h2
      obtain ⟨rfl, h2⟩ := h2
      simp at hnd
    | cons b P' =>
      simp at h2
      obtain ⟨rfl, h2⟩ := h2
      have := ih (List.nodup_cons.1 hnd).2 h2
      exact ⟨by rw [this.1], this.2⟩

/-! ### `Linked` through splits -/

/-- what `Linked` says about one node -/
def LinkOk (h : List Node) (x : Nat) (S : List Nat) : Prop :=
  ∀ i l, lvAt h x i = some l →
    l.forward = S.find? (above h i) ∧ (l.forward ≠ none → l.span = (S.findIdx (above h i) : Int) + 1)

theorem linked_cons (h : List Node) (x : Nat) (S : List Nat) : Linked h (x :: S) ↔ LinkOk h x S ∧ Linked h S := by
  simp only [Linked, LinkOk, getLevel_ok_lvAt]

theorem linkOk_split {h : List Node} {L : List Nat} (hl : Linked h L) {P : List Nat} {x : Nat} {S : List Nat}
    (hs : L = P ++ x :: S) : LinkOk h x S := by
  subst hs
  induction P with
  | nil => exact ((linked_cons h x S).1 hl).1
  | cons a P ih => exact ih ((linked_cons h a _).1 hl).2

theorem linked_of_split {h : List Node} {L : List Nat}
    (hl : ∀ P x S, L = P ++ x :: S → LinkOk h x S) : Linked h L := by
  induction L with
  | nil => trivial
  | cons a L ih =>
    rw [linked_cons]
    exact ⟨hl [] a L rfl, ih (fun P x S hs => hl (a :: P) x S (by rw [hs]; rfl))⟩

/-! ### the chain without the node is linked in the new heap -/

theorem updateFor_mem {h : List Node} {level : Nat} {Z : List Nat} {update : List (Option Nat)}
    (hupd : UpdateFor h level Z update) {j x : Nat} (hj : j < level) (hx : update[j]? = some (some x)) : x ∈ Z := by
  obtain ⟨A', u, B', hs, _, _, hu⟩ := hupd j hj
  rw [hx] at hu; cases hu
  rw [hs]; simp

theorem linked_remove {h h' : List Node} {level z : Nat} {A B : List Nat} {n : Nat} {update : List (Option Nat)}
    (hnd : (z :: A ++ n :: B).Nodup)
    (hlk : Linked h (z :: A ++ n :: B))
    (hle : ∀ y ∈ A ++ n :: B, height h y ≤ level)
    (hupd : UpdateFor h level (z :: A) update)
    (hht : ∀ x, height h' x = height h x)
    (hlv : ∀ x j, lvAt h' x j =
      if j < level ∧ update[j]? = some (some x) then newLv h n x j else lvAt h x j) :
    Linked h' (z :: A ++ B) := by
  have hab : above h' = above h := by funext i y; simp [above, hht]
  apply linked_of_split
  intro P x S hsp i l' hl'
  rw [hab]
  -- a node of B
  have caseB : ∀ as, B = as ++ x :: S →
      l'.forward = S.find? (above h i) ∧ (l'.forward ≠ none → l'.span = (S.findIdx (above h i) : Int) + 1) := by
    intro as hB
    have hxB : x ∈ B := by rw [hB]; simp
    have hxZ : x ∉ z :: A := by
      intro hx
      have := (List.nodup_append.1 hnd).2.2 x hx x (by simp [hxB])
      exact this rfl
    have hc : ¬ (i < level ∧ update[i]? = some (some x)) := fun c => hxZ (updateFor_mem hupd c.1 c.2)
    rw [hlv, if_neg hc] at hl'
    exact linkOk_split hlk (P := z :: A ++ n :: as) (S := S) (by rw [hB]; simp) i l' hl'
  rcases List.append_eq_append_iff.1 hsp with ⟨as, hP, hB⟩ | ⟨bs, hZ, hS⟩
  · exact caseB as hB
  · cases bs with
    | nil => exact caseB [] (by simpa using hS.symm)
    | cons b S1 =>
      simp only [List.cons_append, List.cons.injEq] at hS
      obtain ⟨rfl, hS⟩ := hS
      subst hS
      -- x is a node of z :: A, S1 the rest of z :: A
      have hold : ∀ l, lvAt h x i = some l → l.forward = (S1 ++ n :: B).find? (above h i) ∧
          (l.forward ≠ none → l.span = ((S1 ++ n :: B).findIdx (above h i) : Int) + 1) := by
        intro l hl
        exact linkOk_split hlk (P := P) (S := S1 ++ n :: B) (by rw [hZ]; simp) i l hl
      have holdn : ∀ ln, lvAt h n i = some ln → ln.forward = B.find? (above h i) ∧
          (ln.forward ≠ none → ln.span = (B.findIdx (above h i) : Int) + 1) := by
        intro ln hln
        exact linkOk_split hlk (P := z :: A) (S := B) rfl i ln hln
      by_cases hi : i < level
      · obtain ⟨A', u, B', hs, hua, hB', hu⟩ := hupd i hi
        by_cases hux : u = x
        · subst hux
          obtain ⟨hPA, hSB⟩ := split_unique (List.nodup_append.1 hnd).1 hZ hs
          subst hPA; subst hSB
          rw [hlv, if_pos ⟨hi, hu⟩] at hl'
          unfold newLv at hl'
          cases hl : lvAt h u i with
          | none => simp [hl] at hl'
          | some l =>
            obtain ⟨hf, hsp'⟩ := hold l hl
            rw [find_skip hB'] at hf
            rw [findIdx_skip hB'] at hsp'
            rw [find_skip hB', findIdx_skip hB']
            simp only [hl] at hl'
            cases hn : above h i n with
            | true =>
              have hfn : l.forward = some n := by rw [hf]; simp [hn]
              obtain ⟨ln, hln⟩ := (lvAt_isSome_iff h n i).2 (by simpa [above] using hn)
              obtain ⟨hnf, hnsp⟩ := holdn ln hln
              simp only [hfn, if_true, hln, Option.some.injEq] at hl'
              subst hl'
              refine ⟨hnf, ?_⟩
              intro hne
              have h1 := hsp' (by rw [hfn]; simp)
              have h2 := hnsp hne
              simp only [List.findIdx_cons, hn, cond_true] at h1
              simp only [h1, h2]
              omega
            | false =>
              have hf' : l.forward = B.find? (above h i) := by rw [hf]; simp [hn]
              have hfn : ¬ l.forward = some n := by
                intro e
                rw [hf'] at e
                have := List.find?_some e
                rw [hn] at this; cases this
              simp only [hfn, if_false, Option.some.injEq] at hl'
              subst hl'
              refine ⟨hf', ?_⟩
              intro hne
              have h1 := hsp' hne
              simp only [List.findIdx_cons, hn, cond_false] at h1
              simp only [h1]
              omega
        · have hc : ¬ (i < level ∧ update[i]? = some (some x)) := by
            intro c; rw [hu] at c; exact hux (by simpa using c.2)
          rw [hlv, if_neg hc] at hl'
          have hxa : above h i x = true := lvAt_above hl'
          have huS : u ∈ S1 := by
            rcases List.append_eq_append_iff.1 (hs.symm.trans hZ) with ⟨as, e1, e2⟩ | ⟨bs, e1, e2⟩
            · cases as with
              | nil => simp at e2; exact absurd e2.1 hux
              | cons a as =>
                simp at e2
                have := hB' x (by rw [e2.2]; simp)
                rw [hxa] at this; cases this
            · cases bs with
              | nil => simp at e2; exact absurd e2.1.symm hux
              | cons a bs => simp at e2; rw [e2.2]; simp
          obtain ⟨e1, e2⟩ := find_hit (n :: B) B huS hua
          rw [← e1, ← e2]
          exact hold l' hl'
      · have hc : ¬ (i < level ∧ update[i]? = some (some x)) := fun c => hi c.1
        rw [hlv, if_neg hc] at hl'
        have hnone : ∀ y ∈ S1 ++ n :: B, above h i y = false := by
          intro y hy
          have hyc : y ∈ A ++ n :: B := by
            cases P with
            | nil => simp at hZ; rw [hZ.2]; exact hy
            | cons a P =>
              simp at hZ
              rw [hZ.2]
              simp at hy ⊢
              rcases hy with hy | hy | hy <;> simp [hy]
          have := hle y hyc
          simp [above]; omega
        obtain ⟨hf, _⟩ := hold l' hl'
        have hfn : l'.forward = none := by
          rw [hf, List.find?_eq_none]; intro y hy; simp [hnone y hy]
        refine ⟨?_, fun hne => absurd hfn hne⟩
        rw [hfn, eq_comm, List.find?_eq_none]
        intro y hy
        have : y ∈ S1 ++ n :: B := by
          simp at hy ⊢
          rcases hy with hy | hy
          · exact Or.inl hy
          · exact Or.inr (Or.inr hy)
        simp [hnone y this]

/-! ### `BackLinked` -/

/-- the last node of `A`, `prev` if there is none -/
def lastOr (prev : Option Nat) : List Nat → Option Nat
  | [] => prev
  | a :: A => lastOr (some a) A

theorem lastOr_none (A : List Nat) : lastOr none A = A.getLast? := by
  have : ∀ (A : List Nat) (p : Option Nat), lastOr p A = A.getLast?.or p := by
    intro A
    induction A with
    | nil => intro p; simp [lastOr]
    | cons a A ih =>
      intro p
      rw [lastOr, ih, List.getLast?_cons]
      cases A.getLast? <;> simp
  rw [this]; simp

theorem backLinked_cons (h : List Node) (prev : Option Nat) (n : Nat) (rest : List Nat) :
    BackLinked h prev (n :: rest) ↔ backAt h n = some prev ∧ BackLinked h (some n) rest := by
  simp only [BackLinked, backAt]
  cases h[n]? <;> simp

theorem backLinked_append (h : List Node) (A L : List Nat) : ∀ prev,
    BackLinked h prev (A ++ L) ↔ BackLinked h prev A ∧ BackLinked h (lastOr prev A) L := by
  induction A with
  | nil => intro prev; simp [BackLinked, lastOr]
  | cons a A ih =>
    intro prev
    simp only [List.cons_append, backLinked_cons, ih, lastOr, and_assoc]

theorem backLinked_frame {h h' : List Node} {L : List Nat} (hb : ∀ x ∈ L, backAt h' x = backAt h x) :
    ∀ prev, BackLinked h prev L → BackLinked h' prev L := by
  induction L with
  | nil => intro _ _; trivial
  | cons a L ih =>
    intro prev
    rw [backLinked_cons, backLinked_cons, hb a (by simp)]
    exact fun ⟨h1, h2⟩ => ⟨h1, ih (fun x hx => hb x (by simp [hx])) _ h2⟩

/-! ### `shrinkLevel` -/

theorem shrinkLevel_spec (h : List Node) (hh : ∀ j, j < maxLevel → ∃ l, lvAt h 0 j = some l) :
    ∀ lvl, 1 ≤ lvl → lvl ≤ maxLevel →
    ∃ L', shrinkLevel h lvl = .ok L' ∧ 1 ≤ L' ∧ L' ≤ lvl ∧
      (L' = 1 ∨ ∃ l, lvAt h 0 (L' - 1) = some l ∧ l.forward ≠ none) ∧
      ∀ j l, L' ≤ j → j < lvl → lvAt h 0 j = some l → l.forward = none := by
  intro lvl
  induction lvl with
  | zero => intro h0; omega
  | succ m ih =>
    intro _ hm
    cases m with
    | zero =>
      refine ⟨1, by simp [shrinkLevel, pure, Except.pure], by omega, by omega, Or.inl rfl, ?_⟩
      intro j l h1 h2; omega
    | succ m =>
      obtain ⟨l, hl⟩ := hh (m + 1) (by omega)
      cases hf : l.forward with
      | none =>
        obtain ⟨L', hrun, h1, h2, h3, h4⟩ := ih (by omega) (by omega)
        refine ⟨L', by simp [shrinkLevel, getLevel_of_lvAt hl, hf, bind, Except.bind, hrun], h1, by omega, h3, ?_⟩
        intro j l' hj1 hj2 hl'
        by_cases hj : j = m + 1
        · subst hj; rw [hl] at hl'; cases hl'; exact hf
        · exact h4 j l' hj1 (by omega) hl'
      | some f =>
        refine ⟨m + 2, by simp [shrinkLevel, getLevel_of_lvAt hl, hf, bind, Except.bind, pure, Except.pure],
          by omega, by omega, Or.inr ⟨l, hl, by simp [hf]⟩, ?_⟩
        intro j l' hj1 hj2; omega

end NodisVerif.Skiplist.Unlink
