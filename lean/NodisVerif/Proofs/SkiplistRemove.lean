import NodisVerif.Proofs.SkiplistSpecs
/-
  `skiplist.remove(member, score)` (Model/Skiplist.lean `remove`) refines `DsZSet.slRemove` on the level-0 chain,
  from the interface lemmas of SkiplistSpecs.lean (`search_spec`, `abs_eq`, `removeNode_spec`).
-/
namespace NodisVerif.Skiplist.Remove
open NodisVerif.DsZSet (Item nodeLt slRemove)
open NodisVerif.Proofs.C04 (ILt)
open NodisVerif.Proofs.ZSetLemmas (Good itemLt_iff itemLt_trans)
open NodisVerif.Proofs.AListLemmas (lt_irrefl)

/-! ### list level -/

/-- a list sorted by `R` splits into the part where a downward closed predicate holds and the rest -/
theorem split_prefix {α} (R : α → α → Prop) (q : α → Bool) : ∀ (l : List α), l.Pairwise R →
    (∀ a ∈ l, ∀ b ∈ l, R a b → q b = true → q a = true) →
    ∃ C1 C2, l = C1 ++ C2 ∧ (∀ y ∈ C1, q y = true) ∧ (∀ y ∈ C2, q y = false) := by
  intro l
  induction l with
  | nil => intro _ _; exact ⟨[], [], rfl, by simp, by simp⟩
  | cons a l ih =>
    intro hpw hcl
    obtain ⟨h1, h2⟩ := List.pairwise_cons.1 hpw
    cases ha : q a with
    | true =>
      obtain ⟨C1, C2, e, c1, c2⟩ := ih h2 (fun x hx y hy => hcl x (by simp [hx]) y (by simp [hy]))
      refine ⟨a :: C1, C2, by rw [e]; rfl, ?_, c2⟩
      intro y hy
      rcases List.mem_cons.1 hy with e | e
      · rw [e]; exact ha
      · exact c1 y e
    | false =>
      refine ⟨[], a :: l, rfl, by simp, ?_⟩
      intro y hy
      rcases List.mem_cons.1 hy with e | e
      · rw [e]; exact ha
      · cases hy' : q y with
        | false => rfl
        | true =>
          have := hcl a (by simp) y (by simp [e]) (h1 y e) hy'
          rw [ha] at this; cases this

/-- "less than (s, m)" is downward closed along the item order -/
theorem less_closed (m : Bytes) (s : F64) (a b : Item) (ha : Good a) (hb : Good b) (hab : ILt a b)
    (hlt : nodeLt b s m = true) : nodeLt a s m = true := by
  cases hs : F64.isNaN s with
  | true => simp [nodeLt, F64.lt, F64.eq, hs] at hlt
  | false =>
    have hg : Good (s, m) := hs
    exact itemLt_trans a b (s, m) ha hb hg hab hlt

/-- a node that is "less" is not the one looked for -/
theorem less_not_match (m : Bytes) (s : F64) (x : Item) (hlt : nodeLt x s m = true) :
    ¬ (F64.eq s x.1 = true ∧ x.2 = m) := by
  rintro ⟨he, hm⟩
  subst hm
  simp [nodeLt, F64.lt, F64.eq, lt_irrefl] at hlt he
  omega

/-- neither is a node after one that is not "less" -/
theorem after_not_match (m : Bytes) (s : F64) (a x : Item) (ha : Good a) (hx : Good x) (hax : ILt a x)
    (hna : nodeLt a s m = false) : ¬ (F64.eq s x.1 = true ∧ x.2 = m) := by
  rintro ⟨he, hm⟩
  have hs : F64.isNaN s = false := by
    simp [F64.eq] at he; exact he.1.1
  have hk : F64.key s = F64.key x.1 := by
    simp [F64.eq] at he; exact he.2
  have hg : Good (s, m) := hs
  have h1 := (itemLt_iff a x ha hx).1 hax
  have h2 : ¬ (F64.key a.1 < F64.key s ∨ (F64.key a.1 = F64.key s ∧ Bytes.lt a.2 m = true)) := by
    rw [← itemLt_iff a (s, m) ha hg]
    simp [NodisVerif.itemLt, hna]
  rw [hm, ← hk] at h1
  exact h2 h1

theorem slRemove_split (m : Bytes) (s : F64) : ∀ (X : List Item) (a : Item) (Y : List Item),
    (∀ y ∈ X, nodeLt y s m = true) → nodeLt a s m = false →
    slRemove (X ++ a :: Y) m s = X ++ (if F64.eq s a.1 = true ∧ a.2 = m then Y else a :: Y) := by
  intro X
  induction X with
  | nil => intro a Y _ ha; simp [slRemove, ha]
  | cons x X ih =>
    intro a Y hX ha
    simp only [List.cons_append, slRemove, hX x (by simp), if_true]
    rw [ih a Y (fun y hy => hX y (by simp [hy])) ha]

theorem slRemove_all_less (m : Bytes) (s : F64) : ∀ (X : List Item),
    (∀ y ∈ X, nodeLt y s m = true) → slRemove X m s = X := by
  intro X
  induction X with
  | nil => intro _; rfl
  | cons x X ih =>
    intro hX
    simp only [slRemove, hX x (by simp), if_true]
    rw [ih (fun y hy => hX y (by simp [hy]))]

/-! ### node level -/

theorem linked_at (h : List Node) (A : List Nat) (u : Nat) (B : List Nat) (hl : Linked h (A ++ u :: B))
    (i : Nat) (l : Level) (hg : getLevel h u i = .ok l) : l.forward = B.find? (above h i) := by
  induction A with
  | nil => exact (hl.1 i l hg).1
  | cons a A ih => exact ih hl.2

/-- the level-0 forward of a node of the chain (or of the header) is the next node of the chain -/
theorem level0_next {sl : SL} {c : List Nat} (hc : IsChain sl c) (P : List Nat) (x : Nat) (C : List Nat)
    (hs : 0 :: c = P ++ x :: C) : ∃ l0, getLevel sl.heap x 0 = .ok l0 ∧ l0.forward = C.head? := by
  have hx : 0 < height sl.heap x := by
    cases P with
    | nil =>
      simp at hs
      rw [← hs.1, hc.header]; decide
    | cons p P =>
      simp at hs
      have := hc.hpos x (by rw [hs.2]; simp)
      omega
  have hC : ∀ y ∈ C, y ∈ c := by
    intro y hy
    cases P with
    | nil => simp at hs; rw [hs.2]; exact hy
    | cons p P => simp at hs; rw [hs.2]; simp [hy]
  obtain ⟨l0, hl0⟩ := getLevel_of_lt sl.heap x 0 hx
  refine ⟨l0, hl0, ?_⟩
  have hl := hc.linked
  rw [hs] at hl
  rw [linked_at sl.heap P x C hl 0 l0 hl0]
  cases C with
  | nil => rfl
  | cons y C =>
    have := hc.hpos y (hC y (by simp))
    have hy : above sl.heap 0 y = true := by simp [above]; omega
    simp [hy]

theorem itemAt_of_getElem {h : List Node} {n : Nat} {nd : Node} (hn : h[n]? = some nd) : itemAt h n = nd.item := by
  simp [itemAt, hn]

end NodisVerif.Skiplist.Remove

namespace NodisVerif.Skiplist
open NodisVerif.DsZSet (Item nodeLt slRemove)
open NodisVerif.Proofs.C04 (ILt)
open NodisVerif.Proofs.ZSetLemmas (Good)
open Remove

/-- `skiplist.remove(member, score)` never panics on a sound skiplist, keeps the invariant, acts on the level-0 chain as
    `slRemove`, and reports whether an item with an equal score and the member was there -/
theorem remove_refines {sl : SL} (h : Inv sl) (m : Bytes) (s : F64) :
    ∃ sl' b, remove sl m s = .ok (sl', b) ∧ Inv sl' ∧ abs sl' = DsZSet.slRemove (abs sl) m s ∧
      (b = true ↔ ∃ x ∈ abs sl, F64.eq s x.1 = true ∧ x.2 = m) := by
  obtain ⟨c, hc⟩ := h
  have hpw := List.pairwise_map.1 hc.sorted
  obtain ⟨C1, C2, hsp, hC1, hC2⟩ :=
    split_prefix (fun a b => ILt (itemAt sl.heap a) (itemAt sl.heap b))
      (fun y => nodeLt (itemAt sl.heap y) s m) c hpw
      (fun a ha b hb hab hlt => less_closed m s _ _ (hc.good a ha) (hc.good b hb) hab hlt)
  -- the condition of the search holds exactly on C1
  have hcond : CondUpTo sl c (lessCond m s) C1.length := by
    intro q n nd hq hn h1
    have hq' : c[q - 1]? = some n := by
      rw [List.getElem?_cons] at hq
      have : ¬ q = 0 := by omega
      simpa [this] using hq
    rw [hsp, List.getElem?_append] at hq'
    show nodeLt nd.item s m = decide (q ≤ C1.length)
    rw [← itemAt_of_getElem hn]
    by_cases hlt : q - 1 < C1.length
    · rw [if_pos hlt] at hq'
      have := hC1 n (List.mem_iff_getElem?.2 ⟨_, hq'⟩)
      simp only [this]
      exact (decide_eq_true (by omega)).symm
    · rw [if_neg hlt] at hq'
      have := hC2 n (List.mem_iff_getElem?.2 ⟨_, hq'⟩)
      simp only [this]
      exact (decide_eq_false (by omega)).symm
  obtain ⟨x, acc, update, rank, hrun, _, _, hur, _, hlast, _⟩ := search_spec hc (lessCond m s) C1.length hcond
  have htake : (0 :: c).take (C1.length + 1) = 0 :: C1 := by
    rw [hsp]; simp
  rw [htake] at hur hlast
  have hupd : UpdateFor sl.heap sl.level (0 :: C1) update := by
    intro i hi
    obtain ⟨A, u, B, h1, h2, h3, h4, _⟩ := hur i hi
    exact ⟨A, u, B, h1, h2, h3, h4⟩
  obtain ⟨P, hP⟩ := List.getLast?_eq_some_iff.1 hlast
  obtain ⟨l0, hl0, hl0f⟩ := level0_next hc P x C2 (by rw [hsp, ← List.cons_append, hP]; simp)
  have habs : abs sl = c.map (itemAt sl.heap) := abs_eq hc
  have hless : ∀ y ∈ C1.map (itemAt sl.heap), nodeLt y s m = true := by
    intro y hy
    obtain ⟨n, hn, e⟩ := List.mem_map.1 hy
    rw [← e]; exact hC1 n hn
  cases C2 with
  | nil =>
    simp only [List.head?_nil] at hl0f
    refine ⟨sl, false, ?_, ⟨c, hc⟩, ?_, ?_⟩
    · simp [remove, hrun, hl0, hl0f, bind, Except.bind, pure, Except.pure]
    · rw [habs, hsp, List.append_nil, slRemove_all_less m s _ hless]
    · constructor
      · intro e; cases e
      · rintro ⟨y, hy, hmatch⟩
        rw [habs, hsp, List.append_nil] at hy
        exact absurd hmatch (less_not_match m s y (hless y hy))
  | cons n B =>
    simp only [List.head?_cons] at hl0f
    have hnc : n ∈ c := by rw [hsp]; simp
    have hnlt := hc.bound n hnc
    have hnd : sl.heap[n]? = some sl.heap[n] := by simp [hnlt]
    have hitem : itemAt sl.heap n = (sl.heap[n].score, sl.heap[n].member) := itemAt_of_getElem hnd
    have hnl : nodeLt (itemAt sl.heap n) s m = false := hC2 n (by simp)
    have hsplit : abs sl = C1.map (itemAt sl.heap) ++ itemAt sl.heap n :: B.map (itemAt sl.heap) := by
      rw [habs, hsp]; simp
    have hrem := slRemove_split m s _ (itemAt sl.heap n) (B.map (itemAt sl.heap)) hless hnl
    rw [← hsplit] at hrem
    by_cases hmatch : F64.eq s sl.heap[n].score = true ∧ sl.heap[n].member = m
    · obtain ⟨sl', hrm, hc', _, _, hitems, _⟩ := removeNode_spec hc C1 n B hsp update hupd
      refine ⟨sl', true, ?_, ⟨_, hc'⟩, ?_, ?_⟩
      · simp [remove, hrun, hl0, hl0f, (getNode_ok_iff sl.heap n _).2 hnd, hmatch, hrm, bind, Except.bind, pure,
          Except.pure]
      · rw [hrem, abs_eq hc']
        have hm' : F64.eq s (itemAt sl.heap n).1 = true ∧ (itemAt sl.heap n).2 = m := by rw [hitem]; exact hmatch
        rw [if_pos hm', ← List.map_append]
        apply List.map_congr_left
        intro y hy
        apply hitems
        intro e
        subst e
        have hnd' := hc.nodup
        rw [hsp] at hnd'
        have := (List.nodup_cons.1 hnd').2
        have h3 := List.nodup_append.1 this
        rcases List.mem_append.1 hy with hy | hy
        · exact h3.2.2 y hy y (by simp) rfl
        · exact (List.nodup_cons.1 h3.2.1).1 hy
      · constructor
        · intro _
          refine ⟨itemAt sl.heap n, by rw [hsplit]; simp, ?_⟩
          rw [hitem]; exact hmatch
        · intro _; rfl
    · refine ⟨sl, false, ?_, ⟨c, hc⟩, ?_, ?_⟩
      · simp [remove, hrun, hl0, hl0f, (getNode_ok_iff sl.heap n _).2 hnd, hmatch, bind, Except.bind, pure,
          Except.pure]
      · have hm' : ¬ (F64.eq s (itemAt sl.heap n).1 = true ∧ (itemAt sl.heap n).2 = m) := by rw [hitem]; exact hmatch
        rw [hrem, if_neg hm', ← hsplit]
      · constructor
        · intro e; cases e
        · rintro ⟨y, hy, hym⟩
          rw [hsplit] at hy
          rcases List.mem_append.1 hy with hy | hy
          · exact (less_not_match m s y (hless y hy) hym).elim
          · rcases List.mem_cons.1 hy with e | hy
            · subst e; rw [hitem] at hym; exact (hmatch hym).elim
            · obtain ⟨z, hz, e⟩ := List.mem_map.1 hy
              subst e
              have hzc : z ∈ c := by rw [hsp]; simp [hz]
              rw [hsp] at hpw
              have h1 := (List.pairwise_append.1 hpw).2.1
              have h2 := (List.pairwise_cons.1 h1).1 z hz
              exact (after_not_match m s _ _ (hc.good n hnc) (hc.good z hzc) h2 hnl hym).elim

end NodisVerif.Skiplist
