import NodisVerif.Model.BlockProg
import NodisVerif.Proofs.BlockStep
/-
  The simulation relation between the program model of the blocking pops (`Model/BlockProg.lean`) and the wake-up
  protocol (`Model/Block.lean`), and the frame lemma: a step of thread t re-establishes the relation of every other
  thread as soon as it leaves that thread's channel, protocol state, registry entries and lock ownership alone.
-/
namespace NodisVerif.Proofs.BlockProg
open NodisVerif.Block NodisVerif.BlockProg NodisVerif.Proofs.Block

@[simp] theorem upd_self {α β : Type} [DecidableEq α] (f : α → β) (a : α) (b : β) : upd f a b a = b := by
  simp [upd]

@[simp] theorem upd_ne {α β : Type} [DecidableEq α] (f : α → β) {a x : α} (b : β) (h : x ≠ a) :
    upd f a b x = f x := by
  simp [upd, h]

theorem upd_apply {α β : Type} [DecidableEq α] (f : α → β) (a x : α) (b : β) :
    upd f a b x = if x = a then b else f x := rfl

/-- the pcs at which the thread holds the registry lock exclusively / shared -/
def holdsW : Pc → Bool
  | .r2 | .r3 | .u2 | .u3 => true
  | _ => false
def holdsR : Pc → Bool
  | .p3 | .p4 | .p5 | .p6 => true
  | _ => false

/-- the keys whose cList contains the thread's channel (with multiplicity), by pc -/
def regKeys (l : Loc) : List Key :=
  match l.pc with
  | .r2 => l.keys.take l.i
  | .r3 | .l0 | .l1 | .l2 | .w0 | .w1 | .u1 => l.keys
  | .u2 => l.keys.drop l.i
  | _ => []

/-- between registration and unregistration: the waiter exists in the protocol with all its keys -/
def Body (fl : Bool) (l : Loc) (o : Option WSt) (P : WSt → Prop) : Prop :=
  l.keys ≠ [] ∧ ∃ st, o = some st ∧ st.keys = l.keys ∧ st.reg = l.keys ∧ st.buf = fl ∧ P st

/-- the protocol state of a thread, by pc (`fl` = its channel is full) -/
def PRel (fl : Bool) (l : Loc) (o : Option WSt) : Prop :=
  match l.pc with
  | .idle | .p1 | .p2 | .p3 | .p4 | .p5 | .p6 | .p7 => o = none
  | .r1 => o = none ∧ fl = false ∧ l.keys ≠ []
  | .r2 => l.i < l.keys.length ∧ (l.i = 0 → o = none ∧ fl = false) ∧
      (0 < l.i → ∃ st, o = some st ∧ st.keys = l.keys.take l.i ∧ st.reg = l.keys.take l.i ∧ st.buf = fl ∧
        st.phase = .registering)
  | .r3 => Body fl l o (fun st => st.phase = .registering)
  | .l0 => Body fl l o (fun st => pos st.phase = some 0)
  | .l1 => l.i < l.keys.length ∧ Body fl l o (fun st => pos st.phase = some l.i)
  | .l2 => Body fl l o (fun st => if l.found || l.panicking then Returned st.phase else st.phase = .scan l.keys.length)
  | .w0 => 0 ≤ l.tmo ∧ Body fl l o (fun st => st.phase = .scan l.keys.length)
  | .w1 => Body fl l o (fun st => st.phase = .blocked ∧ st.timed = decide (l.tmo > 0))
  | .u1 => Body fl l o (fun st => Returned st.phase)
  | .u2 => l.i < l.keys.length ∧ ∃ st, o = some st ∧ Returned st.phase ∧ ∀ k ∈ st.reg, k ∈ l.keys.drop l.i
  | .u3 => ∃ st, o = some st ∧ st.reg = []

/-- lock ownership is visible from the pc -/
def LRel (s : Shared) (t : Tid) (l : Loc) : Prop :=
  (s.bmu.writer = some t ↔ holdsW l.pc = true) ∧ (t ∈ s.bmu.readers ↔ holdsR l.pc = true)

/-- the registry holds the thread's channel exactly for `regKeys` -/
def CRel (s : Shared) (t : Tid) (l : Loc) : Prop := ∀ k, (s.regOf k).count t = (regKeys l).count k

/-- the rest of a push's ForRange is part of the key's cList -/
def TodoRel (s : Shared) (l : Loc) : Prop := l.pc = .p4 → ∀ c ∈ l.todo, c ∈ s.regOf l.key

structure Inv (σ : Sys) (bs : BState) : Prop where
  prel : ∀ t, PRel (σ.sh.full t) (σ.thr t) (get bs t)
  lrel : ∀ t, LRel σ.sh t (σ.thr t)
  crel : ∀ t, CRel σ.sh t (σ.thr t)
  todo : ∀ t, TodoRel σ.sh (σ.thr t)
  excl : σ.sh.bmu.writer ≠ none → σ.sh.bmu.readers = []

theorem inv_init : Inv {} [] := by
  refine ⟨fun t => ?_, fun t => ?_, fun t k => ?_, fun t h => ?_, fun _ => rfl⟩
  · simp [PRel, get_nil]
  · simp [LRel, holdsW, holdsR]
  · simp [Shared.regOf, regKeys]
  · simp at h

/-- a step of thread `t` that leaves the other threads' channels, protocol states, registry entries and locks alone -/
theorem frame {σ : Sys} {bs bs' : BState} {t : Tid} {s' : Shared} {l' : Loc} (hI : Inv σ bs)
    (hPo : ∀ t', t' ≠ t → PRel (s'.full t') (σ.thr t') (get bs' t'))
    (hcnt : ∀ t', t' ≠ t → ∀ k, (s'.regOf k).count t' = (σ.sh.regOf k).count t')
    (hw : ∀ t', t' ≠ t → (s'.bmu.writer = some t' ↔ σ.sh.bmu.writer = some t'))
    (hr : ∀ t', t' ≠ t → (t' ∈ s'.bmu.readers ↔ t' ∈ σ.sh.bmu.readers))
    (hmem : (∀ k c, c ∈ σ.sh.regOf k → c ∈ s'.regOf k) ∨ σ.sh.bmu.writer = some t)
    (hP : PRel (s'.full t) l' (get bs' t)) (hL : LRel s' t l') (hC : CRel s' t l') (hT : TodoRel s' l')
    (hG : s'.bmu.writer ≠ none → s'.bmu.readers = []) :
    Inv ⟨s', upd σ.thr t l'⟩ bs' := by
  refine ⟨fun t' => ?_, fun t' => ?_, fun t' => ?_, fun t' => ?_, hG⟩
  · by_cases h : t' = t
    · subst h; simpa using hP
    · simpa [upd_ne _ _ h] using hPo t' h
  · by_cases h : t' = t
    · subst h; simpa using hL
    · have := hI.lrel t'
      simp only [upd_ne _ _ h, LRel, hw t' h, hr t' h]; exact this
  · by_cases h : t' = t
    · subst h; simpa using hC
    · intro k; simp only [upd_ne _ _ h, hcnt t' h k]; exact hI.crel t' k
  · by_cases h : t' = t
    · subst h; simpa using hT
    · simp only [upd_ne _ _ h]
      intro hp c hc
      rcases hmem with hm | hm
      · exact hm _ _ (hI.todo t' hp c hc)
      · exfalso
        have h1 := (hI.lrel t').2.2 (by simp [hp, holdsR])
        have h2 := hI.excl (by simp [hm])
        simp [h2] at h1

/-- the common case: the shared state changes only in parts no relation of another thread looks at -/
theorem frame_same {σ : Sys} {bs bs' : BState} {t : Tid} {s' : Shared} {l' : Loc} (hI : Inv σ bs)
    (hfull : ∀ t', t' ≠ t → s'.full t' = σ.sh.full t')
    (hget : ∀ t', t' ≠ t → get bs' t' = get bs t')
    (hreg : s'.registry = σ.sh.registry) (hmu : s'.bmu = σ.sh.bmu)
    (hP : PRel (s'.full t) l' (get bs' t)) (hL : LRel s' t l') (hC : CRel s' t l') (hT : TodoRel s' l') :
    Inv ⟨s', upd σ.thr t l'⟩ bs' := by
  have hro : ∀ k, s'.regOf k = σ.sh.regOf k := fun k => by simp [Shared.regOf, hreg]
  refine frame hI (fun t' h => ?_) (fun t' _ k => by rw [hro]) (fun t' _ => by rw [hmu]) (fun t' _ => by rw [hmu])
    (Or.inl fun k c h => by rw [hro]; exact h) hP hL hC hT (by rw [hmu]; exact hI.excl)
  rw [hfull t' h, hget t' h]; exact hI.prel t'

theorem take_succ_of_get {keys : List Key} {i : Nat} {k : Key} (h : keys[i]? = some k) :
    keys.take (i + 1) = keys.take i ++ [k] := by
  rw [List.take_add_one, h]; rfl

theorem drop_of_get {keys : List Key} {i : Nat} {k : Key} (h : keys[i]? = some k) :
    keys.drop i = k :: keys.drop (i + 1) := by
  obtain ⟨hi, rfl⟩ := List.getElem?_eq_some_iff.1 h
  exact List.drop_eq_getElem_cons hi

theorem get_lt {keys : List Key} {i : Nat} {k : Key} (h : keys[i]? = some k) : i < keys.length :=
  (List.getElem?_eq_some_iff.1 h).1

end NodisVerif.Proofs.BlockProg
