import NodisVerif.Proofs.ProtoWireField
/-
  C20 / wire encoding: Unmarshal ∘ Marshal on whole messages, and DecodeOp ∘ Encode on records.
-/
namespace NodisVerif.Proofs.ProtoWire
open NodisVerif Varint Codec NodisVerif.ProtoWire

/-- the bytes of one field: no error for a well-formed value, and the loop stores the value -/
theorem dec_field {S pre post : Schema} {no : Nat} {k : Kind} (hat : At S pre no k post)
    {pv tl : List PVal} (hpv : pv.length = pre.length) (v : PVal) (hok : v.ok k = true)
    (hsm : v.small = true) (u rest : Bytes) :
    (encField no k v).2 = false ∧
    dec S ((encField no k v).1 ++ rest) ⟨pv ++ k.default :: tl, u⟩ = dec S rest ⟨pv ++ v :: tl, u⟩ := by
  cases k <;> cases v <;> simp only [PVal.ok, Bool.false_eq_true] at hok
  · -- str
    rename_i s
    simp only [PVal.small, decide_eq_true_eq] at hsm
    simp only [encField]
    split
    · rename_i h; subst h; exact ⟨rfl, rfl⟩
    · exact ⟨by simp [hok], dec_str u rest hat hpv _ s hok hsm⟩
  · -- bytes
    rename_i s
    simp only [PVal.small, decide_eq_true_eq] at hsm
    simp only [encField]
    split
    · rename_i h; subst h; exact ⟨rfl, rfl⟩
    · exact ⟨rfl, dec_bytes u rest hat hpv _ s hsm⟩
  · -- int64
    rename_i i
    simp only [encField]
    split
    · rename_i h; subst h; exact ⟨rfl, rfl⟩
    · exact ⟨rfl, dec_int u rest hat hpv _ i hok⟩
  · -- bool
    rename_i b
    cases b
    · exact ⟨rfl, rfl⟩
    · exact ⟨rfl, dec_bool u rest hat hpv _⟩
  · -- double
    rename_i x
    simp only [encField]
    split
    · rename_i h; subst h; exact ⟨rfl, rfl⟩
    · exact ⟨rfl, dec_double u rest hat hpv _ x⟩
  · -- repeated string
    rename_i l
    simp only [PVal.small, List.all_eq_true, decide_eq_true_eq] at hsm
    simp only [List.all_eq_true] at hok
    simp only [encField, encStrs_valid no l hok]
    refine ⟨trivial, ?_⟩
    have := dec_repStr (tl := tl) u rest hat hpv l [] hsm hok
    rw [List.nil_append] at this
    exact this
  · -- repeated bytes
    rename_i l
    simp only [PVal.small, List.all_eq_true, decide_eq_true_eq] at hsm
    simp only [encField]
    refine ⟨trivial, ?_⟩
    have := dec_repBytes (tl := tl) u rest hat hpv l [] hsm
    rw [List.nil_append] at this
    exact this
  · -- packed doubles
    rename_i l
    simp only [PVal.small, decide_eq_true_eq] at hsm
    simp only [encField]
    split
    · rename_i h; subst h; exact ⟨rfl, rfl⟩
    · exact ⟨rfl, dec_repDouble u rest hat hpv l hsm⟩

theorem schemaOk_at {pre sch : Schema} {no : Nat} {k : Kind} (h : schemaOk (pre ++ (no, k) :: sch) = true) :
    At (pre ++ (no, k) :: sch) pre no k sch := by
  simp only [schemaOk, Bool.and_eq_true, decide_eq_true_eq, List.all_eq_true] at h
  obtain ⟨hnd, hall⟩ := h
  have hb := hall (no, k) (by simp)
  refine ⟨rfl, ?_, hb.1, hb.2⟩
  intro e he heq
  rw [List.map_append, List.Nodup, List.pairwise_append] at hnd
  exact hnd.2.2 e.1 (List.mem_map_of_mem he) no (by simp) heq

/-- Unmarshal's loop over the bytes Marshal emits for the fields `sch` (the rest of schema `S`
    behind `pre`): the slots of `sch` go from their defaults to the marshalled values -/
theorem dec_marshal (S : Schema) (hS : schemaOk S = true) : ∀ (sch pre : Schema) (vs pv : List PVal),
    S = pre ++ sch → pv.length = pre.length → wfVals sch vs = true → ∀ (u rest : Bytes),
    (marshal sch vs).2 = false ∧
    dec S ((marshal sch vs).1 ++ rest) ⟨pv ++ defaults sch, u⟩ = dec S rest ⟨pv ++ vs, u⟩ := by
  intro sch
  induction sch with
  | nil =>
    intro pre vs pv _ _ hwf u rest
    cases vs with
    | nil => exact ⟨rfl, rfl⟩
    | cons _ _ => simp [wfVals] at hwf
  | cons e sch ih =>
    intro pre vs pv hSeq hpv hwf u rest
    obtain ⟨no, k⟩ := e
    cases vs with
    | nil => simp [wfVals] at hwf
    | cons v vs =>
      simp only [wfVals, Bool.and_eq_true] at hwf
      obtain ⟨⟨hok, hsm⟩, hwf'⟩ := hwf
      have hat : At S pre no k sch := by
        have := schemaOk_at (pre := pre) (sch := sch) (no := no) (k := k) (by rw [← hSeq]; exact hS)
        rw [← hSeq] at this
        exact this
      have hf := dec_field hat (tl := defaults sch) hpv v hok hsm u
      have hS' : S = (pre ++ [(no, k)]) ++ sch := by rw [hSeq]; simp
      have ih' := ih (pre ++ [(no, k)]) vs (pv ++ [v]) hS' (by simp [hpv]) hwf' u rest
      simp only [marshal, (hf rest).1, Bool.false_eq_true, if_false]
      refine ⟨ih'.1, ?_⟩
      have hd : defaults ((no, k) :: sch) = k.default :: defaults sch := rfl
      rw [hd, List.append_assoc, (hf _).2]
      have e1 : pv ++ v :: defaults sch = (pv ++ [v]) ++ defaults sch := by simp
      have e2 : pv ++ v :: vs = (pv ++ [v]) ++ vs := by simp
      rw [e1, e2]
      exact ih'.2

theorem unmarshal_eq_dec (sch : Schema) (b : Bytes) : unmarshal sch b = dec sch b ⟨defaults sch, []⟩ := rfl

theorem marshal_ok {sch : Schema} (hS : schemaOk sch = true) {vs : List PVal} (hwf : wfVals sch vs = true) :
    (marshal sch vs).2 = false :=
  (dec_marshal sch hS sch [] vs [] rfl rfl hwf [] []).1

theorem unmarshal_marshal {sch : Schema} (hS : schemaOk sch = true) {vs : List PVal}
    (hwf : wfVals sch vs = true) : unmarshal sch (marshal sch vs).1 = some ⟨vs, []⟩ := by
  have := (dec_marshal sch hS sch [] vs [] rfl rfl hwf [] []).2
  simp only [List.append_nil, List.nil_append] at this
  rw [unmarshal_eq_dec, this]
  rfl

/-! ### the table -/

theorem table_schemaOk : (opTable.all fun e => schemaOk e.2.2) = true := by decide

theorem schemaOf_ok {t : Nat} {sch : Schema} (h : schemaOf t = some sch) : schemaOk sch = true := by
  unfold schemaOf at h
  cases hf : opTable.find? (·.1 == t) with
  | none => simp [hf] at h
  | some e =>
    simp only [hf, Option.map_some, Option.some.injEq] at h
    have hm := List.mem_of_find?_eq_some hf
    have := List.all_eq_true.mp table_schemaOk e hm
    rw [← h]; exact this

theorem decodeOp_encodeOp {op : Op} (h : op.wf = true) : decodeOp (encodeOp op) = .ok op := by
  unfold Op.wf at h
  cases hs : schemaOf op.typ.toNat with
  | none => simp [hs] at h
  | some sch =>
    simp only [hs, Bool.and_eq_true, beq_iff_eq] at h
    obtain ⟨hwf, hu⟩ := h
    have hS := schemaOf_ok hs
    have hm := marshal_ok hS hwf
    simp only [encodeOp, hs, marshalMsg, hm, Bool.false_eq_true, if_false, hu, List.append_nil, decodeOp,
      unmarshal_marshal hS hwf]
    obtain ⟨typ, ⟨vals, unk⟩⟩ := op
    simp only at hu
    subst hu
    rfl

theorem encodeFails_wf {op : Op} (h : op.wf = true) : encodeFails op = false := by
  unfold Op.wf at h
  cases hs : schemaOf op.typ.toNat with
  | none => simp [hs] at h
  | some sch =>
    simp only [hs, Bool.and_eq_true, beq_iff_eq] at h
    simp only [encodeFails, hs, marshalMsg, marshal_ok (schemaOf_ok hs) h.1, Bool.false_eq_true, if_false]

end NodisVerif.Proofs.ProtoWire
