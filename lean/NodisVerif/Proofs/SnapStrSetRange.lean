import NodisVerif.Proofs.SnapStrSetBit
/-
  ds/str/str.go SetRange: normal form and its relation to the model DsStr.setRange (which has two `none` outcomes:
  a growth beyond 1 GiB that the model does not follow, and the slice-bounds panic after an int64 overflow of offset+len).
-/
namespace NodisVerif.StrNF
open NodisVerif NodisVerif.GoLib

/-- normal form of SetRange (receiver's field threaded as `sv`) -/
def SetRange {σ : Type} (mk : Bytes → σ) (v : Bytes) (offset : Int) (data : Bytes) : GoLib.M (σ × Int) := do
  let mut sv := v
  if (decide (offset < 0)) then
    return (mk sv, 0)
  let mut dLen : Int := (GoLib.len data)
  let mut vLen : Int := (GoLib.len sv)
  if (decide ((GoLib.wrap .i64 (offset + dLen)) > vLen)) then
    sv := (sv ++ (← GoLib.makeBytes (GoLib.wrap .i64 ((GoLib.wrap .i64 (offset + dLen)) - vLen))))
  sv := (← GoLib.copyAt sv offset data)
  return (mk sv, (GoLib.len sv))

theorem copyAt_fits (dst : Bytes) (lo : Int) (src : Bytes) (h : 0 ≤ lo ∧ lo + src.length ≤ dst.length) :
    copyAt dst lo src = .ok (dst.take lo.toNat ++ src ++ dst.drop (lo.toNat + src.length)) := by
  have h0 : 0 ≤ lo ∧ lo ≤ (dst.length : Int) := by omega
  have hk : min (dst.length - lo.toNat) src.length = src.length := by omega
  simp only [copyAt, h0, and_self, if_true, hk, List.take_length, pure, Except.pure]

theorem copyAt_out (dst : Bytes) (lo : Int) (src : Bytes) (h : lo > dst.length) : copyAt dst lo src = .error .slice := by
  have h0 : ¬ (0 ≤ lo ∧ lo ≤ (dst.length : Int)) := by omega
  simp only [copyAt, h0, if_false]; rfl

/-- `SetRange` against the model: where the model yields a value (no int64 overflow of offset+len, growth ≤ 1 GiB — the
    model does not follow the allocator beyond), the translated function yields the same; where the model says "panic"
    because the offset lies beyond the value that is not grown (only after an overflow), the translated function panics too -/
theorem SetRange_eq_model {σ : Type} (mk : Bytes → σ) (v : Bytes) (o : Int) (d : Bytes)
    (hv : v.length < 2 ^ 58) (hd : d.length < 2 ^ 58) (ho : inInt64 o) :
    match DsStr.setRange (some v) o d with
    | some (s', n) => SetRange mk v o d = .ok (mk (s'.getD []), n)
    | none => wrap64 (o + d.length) - v.length > 1073741824 ∨ SetRange mk v o d = .error .slice := by
  have ho' := inInt64_iff.mp ho
  unfold SetRange DsStr.setRange
  simp only [DsStr.bytes, Option.getD_some, len_eq, wrap_i64, DsStr.len]
  by_cases hneg : o < 0
  · simp [hneg, pure, Except.pure]
  simp only [hneg, decide_false, Bool.false_eq_true, if_false]
  obtain ⟨sum, hsum⟩ : ∃ s, wrap64 (o + (d.length : Int)) = s := ⟨_, rfl⟩
  have hr := wrap64_range (o + (d.length : Int))
  rw [hsum] at hr
  simp only [hsum]
  by_cases hg : sum > (v.length : Int)
  · -- grown
    have hsum' : sum = o + d.length := by
      rw [← hsum]; unfold wrap64 int64Max at *; simp only [] at *; split at hsum <;> omega
    by_cases hbig : sum - (v.length : Int) > 1073741824
    · simp [hg, hbig]
    · have hw : wrap64 (sum - (v.length : Int)) = sum - v.length := wrap64_id (by omega)
      have hmk := makeBytes_ok (n := sum - (v.length : Int)) (by omega)
      have hfit := copyAt_fits (v ++ List.replicate (sum - (v.length : Int)).toNat 0) o d (by
        simp only [List.length_append, List.length_replicate]; omega)
      simp only [hg, hbig, decide_true, if_true, hw, hmk, bind, Except.bind, hfit, and_false, if_false, Bool.not_true,
        Bool.false_eq_true, false_and, pure, Except.pure, DsStr.zeros]
      simp
  · by_cases hout : o > (v.length : Int)
    · simp only [hg, hout, decide_false, Bool.false_eq_true, if_false, false_and, Bool.not_false, true_and, if_true]
      right
      rw [copyAt_out v o d hout]; rfl
    · have hsum' : sum = o + d.length := by
        rw [← hsum]; unfold wrap64 int64Max at *; simp only [] at *; split at hsum <;> omega
      have hfit := copyAt_fits v o d (by omega)
      simp only [hg, hout, decide_false, Bool.false_eq_true, if_false, false_and, Bool.not_false, true_and, hfit, bind, Except.bind,
        pure, Except.pure]
      simp

end NodisVerif.StrNF
