import NodisVerif.Proofs.SkiplistSpecs
import NodisVerif.Proofs.C04Rem
/-
  Refinement of the two range removals of ds/zset/skiplist.go (`removeRangeByRank`, `removeRange`) against the
  list-level functions of Model/DsZSet.lean, from the interface lemmas of SkiplistSpecs.lean.
-/
namespace NodisVerif.Skiplist
open NodisVerif.DsZSet (Item nodeLt)
open NodisVerif.Proofs.C04 (ILt key_le_of_ilt)
open NodisVerif.Proofs.ZSetLemmas (Good itemLt_iff)

/-! ### small transfer lemmas -/

/-- `UpdateFor` only depends on the heights and is kept when the level shrinks -/
private theorem updateFor_transfer {h h' : List Node} {level level' : Nat} {P : List Nat} {update : List (Option Nat)}
    (hh : ∀ x, height h' x = height h x) (hl : level' ≤ level) (hu : UpdateFor h level P update) :
    UpdateFor h' level' P update := by
  have ha : ∀ i x, above h' i x = above h i x := by intro i x; simp [above, hh]
  intro i hi
  obtain ⟨A, u, B, h1, h2, h3, h4⟩ := hu i (by omega)
  exact ⟨A, u, B, h1, by rw [ha]; exact h2, by intro y hy; rw [ha]; exact h3 y hy, h4⟩

private theorem updateFor_of_rank {h : List Node} {level : Nat} {P : List Nat} {update : List (Option Nat)} {rank : List Int}
    (hu : UpdateRankFor h level P update rank) : UpdateFor h level P update := by
  intro i hi
  obtain ⟨A, u, B, h1, h2, h3, h4, _⟩ := hu i hi
  exact ⟨A, u, B, h1, h2, h3, h4⟩

private theorem linked_suffix {h : List Node} : ∀ (X Y : List Nat), Linked h (X ++ Y) → Linked h Y
  | [], _, hl => hl
  | _ :: X, Y, hl => linked_suffix X Y hl.2

private theorem find?_eq_head? {α} (p : α → Bool) : ∀ (l : List α), (∀ y ∈ l, p y = true) → l.find? p = l.head?
  | [], _ => rfl
  | a :: l, h => by simp [h a (by simp)]

/-- the level-0 forward of a node of the chain (or of the header) is the next node of the chain -/
private theorem level0_next {sl : SL} {c : List Nat} (hc : IsChain sl c) (P : List Nat) (x : Nat) (C : List Nat)
    (hs : 0 :: c = P ++ x :: C) : ∃ l0, getLevel sl.heap x 0 = .ok l0 ∧ l0.forward = C.head? := by
  have hx : 0 < height sl.heap x := by
    cases P with
    | nil =>
      simp at hs
      rw [← hs.1, hc.header]; decide
    | cons p P =>
      simp at hs
      have := hc.hpos x (by rw [hs.2]; simp)
      omega
  have hC : ∀ y ∈ C, y ∈ c := by
    intro y hy
    cases P with
    | nil => simp at hs; rw [hs.2]; exact hy
    | cons p P => simp at hs; rw [hs.2]; simp [hy]
  obtain ⟨l0, hl0⟩ := getLevel_of_lt sl.heap x 0 hx
  refine ⟨l0, hl0, ?_⟩
  have hl := hc.linked
  rw [hs] at hl
  have hl' := linked_suffix P (x :: C) hl
  rw [(hl'.1 0 l0 hl0).1]
  apply find?_eq_head?
  intro y hy
  have := hc.hpos y (hC y hy)
  simp [above]; omega

/-- one iteration of either loop on the first node of what is left of the block -/
theorem remove_step {sl : SL} {A : List Nat} {n : Nat} {B : List Nat} (hc : IsChain sl (A ++ n :: B))
    (update : List (Option Nat)) (hupd : UpdateFor sl.heap sl.level (0 :: A) update) :
    ∃ nd l0 sl', getNode sl.heap n = .ok nd ∧ nd.item = itemAt sl.heap n ∧
      getLevel sl.heap n 0 = .ok l0 ∧ l0.forward = B.head? ∧
      removeNode sl n update = .ok sl' ∧ IsChain sl' (A ++ B) ∧
      UpdateFor sl'.heap sl'.level (0 :: A) update ∧ sl'.heap.length = sl.heap.length ∧
      (∀ x, x ≠ n → itemAt sl'.heap x = itemAt sl.heap x) ∧ n ∉ A ++ B := by
  obtain ⟨l0, hl0, hf⟩ := level0_next hc (0 :: A) n B (by simp)
  obtain ⟨sl', h1, h2, h3, h4, h5, h6⟩ := removeNode_spec hc A n B rfl update hupd
  obtain ⟨nd, hnd, _⟩ := (getLevel_ok_iff _ _ _ _).1 hl0
  refine ⟨nd, l0, sl', (getNode_ok_iff _ _ _).2 hnd, by simp [itemAt, hnd], hl0, hf, h1, h2,
    updateFor_transfer h6 h4 hupd, h3, h5, ?_⟩
  have := hc.nodup
  intro hmem
  simp [List.nodup_cons, List.nodup_append] at this
  simp at hmem
  grind

/-! ### `removeRangeByRank` -/

theorem removeRankLoop_spec (stop : Int) (update : List (Option Nat)) :
    ∀ (C A : List Nat) (sl : SL) (fuel : Nat) (i : Int) (removed : List Item),
      IsChain sl (A ++ C) → UpdateFor sl.heap sl.level (0 :: A) update → C.length + 1 ≤ fuel →
      ∃ sl', removeRankLoop stop update fuel sl C.head? i removed =
          .ok (sl', removed.reverse ++ (C.take (stop - i + 1).toNat).map (itemAt sl.heap)) ∧
        IsChain sl' (A ++ C.drop (stop - i + 1).toNat) ∧
        (A ++ C.drop (stop - i + 1).toNat).map (itemAt sl'.heap) =
          (A ++ C.drop (stop - i + 1).toNat).map (itemAt sl.heap) := by
  intro C
  induction C with
  | nil =>
    intro A sl fuel i removed hc _ hfuel
    obtain ⟨f, rfl⟩ : ∃ f, fuel = f + 1 := ⟨fuel - 1, by simp at hfuel; omega⟩
    exact ⟨sl, by simp [removeRankLoop, pure, Except.pure], by simpa using hc, rfl⟩
  | cons n C ih =>
    intro A sl fuel i removed hc hupd hfuel
    obtain ⟨f, rfl⟩ : ∃ f, fuel = f + 1 := ⟨fuel - 1, by simp at hfuel; omega⟩
    by_cases hi : i ≤ stop
    · obtain ⟨nd, l0, sl1, hnd, hitem, hl0, hf, hrem, hc1, hupd1, _, hitems, hnot⟩ := remove_step hc update hupd
      obtain ⟨sl', h1, h2, h3⟩ := ih A sl1 f (i + 1) (nd.item :: removed) hc1 hupd1 (by simp at hfuel; omega)
      have hcnt : (stop - i + 1).toNat = (stop - (i + 1) + 1).toNat + 1 := by omega
      have hmap : ∀ (l : List Nat), (∀ y ∈ l, y ∈ A ++ C) → l.map (itemAt sl1.heap) = l.map (itemAt sl.heap) := by
        intro l hl
        apply List.map_congr_left
        intro y hy
        apply hitems
        intro h; subst h; exact hnot (hl _ hy)
      refine ⟨sl', ?_, ?_, ?_⟩
      · simp only [List.head?_cons, removeRankLoop]
        rw [hmap _ (fun y hy => List.mem_append_right _ (List.mem_of_mem_take hy))] at h1
        rw [hitem] at h1
        simp [hi, bind, Except.bind, hnd, hl0, hrem, hf, hcnt, hitem]
        rw [h1]; simp [List.map_take]
      · rw [hcnt]; simpa using h2
      · rw [hcnt]
        simp only [List.drop_succ_cons]
        rw [h3]
        apply hmap
        intro y hy
        simp at hy ⊢
        rcases hy with hy | hy
        · exact Or.inl hy
        · exact Or.inr (List.mem_of_mem_drop hy)
    · have hcnt : (stop - i + 1).toNat = 0 := by omega
      refine ⟨sl, ?_, by rw [hcnt]; simpa using hc, rfl⟩
      simp [removeRankLoop, hi, hcnt, pure, Except.pure]

/-- the state after `search`: the chain splits at position `k` (clipped), `update[]` fits the first part, and the
    level-0 forward of the node found is the first node of the second part -/
theorem search_split {sl : SL} {c : List Nat} (hc : IsChain sl c) (cond : Node → Int → Bool) (k : Nat)
    (hcond : CondUpTo sl c cond k) :
    ∃ x acc update rank l0, search sl.heap cond sl.level 0 0 emptyUpdate emptyRank = .ok (x, acc, update, rank) ∧
      UpdateFor sl.heap sl.level (0 :: c.take k) update ∧ acc = ((min k c.length : Nat) : Int) ∧
      getLevel sl.heap x 0 = .ok l0 ∧ l0.forward = (c.drop k).head? := by
  obtain ⟨x, acc, update, rank, hs, _, _, hur, _, hlast, hacc⟩ := search_spec hc cond k hcond
  have htake : (0 :: c).take (k + 1) = 0 :: c.take k := by simp
  rw [htake] at hur hlast
  obtain ⟨P, hP⟩ := List.getLast?_eq_some_iff.1 hlast
  obtain ⟨l0, hl0, hf⟩ := level0_next hc P x (c.drop k) (by
    rw [← List.take_append_drop k c]
    rw [← List.cons_append, hP]; simp)
  exact ⟨x, acc, update, rank, l0, hs, updateFor_of_rank hur, hacc, hl0, hf⟩

theorem removeRangeByRank_refines {sl : SL} (h : Inv sl) (start stop : Int) :
    ∃ sl' removed, removeRangeByRank sl start stop = .ok (sl', removed) ∧ Inv sl' ∧
      (abs sl', removed) = DsZSet.slRemoveRangeByRank (abs sl) start stop := by
  obtain ⟨c, hc⟩ := h
  have hcond : CondUpTo sl c (startCond start) (start - 1).toNat := by
    intro q n nd _ _ hq
    simp only [startCond, decide_eq_decide]
    omega
  obtain ⟨x, acc, update, rank, l0, hs, hupd, hacc, hl0, hf⟩ := search_split hc _ _ hcond
  have hsplit : c.take (start - 1).toNat ++ c.drop (start - 1).toNat = c := List.take_append_drop _ _
  have hsz := hc.size
  obtain ⟨sl', h1, h2, h3⟩ := removeRankLoop_spec stop update (c.drop (start - 1).toNat) (c.take (start - 1).toNat) sl
    (sl.heap.length + 1) (acc + 1) [] (by rw [hsplit]; exact hc) hupd (by simp; omega)
  simp only [List.reverse_nil, List.nil_append] at h1
  have hrun : removeRangeByRank sl start stop = .ok (sl',
      ((c.drop (start - 1).toNat).take (stop - (acc + 1) + 1).toNat).map (itemAt sl.heap)) := by
    simp only [removeRangeByRank, bind, Except.bind, hs, hl0, hf]
    exact h1
  refine ⟨sl', _, hrun, ⟨_, h2⟩, ?_⟩
  · rw [abs_eq h2, abs_eq hc, h3]
    simp only [DsZSet.slRemoveRangeByRank, List.length_map]
    have hi0 : (if start ≤ 1 then 0 else min (start - 1).toNat c.length) = min (start - 1).toNat c.length := by
      split <;> omega
    have hcnt : (if stop < ((min (start - 1).toNat c.length : Nat) : Int) + 1 then 0
        else (stop - ((min (start - 1).toNat c.length : Nat) : Int)).toNat) = (stop - (acc + 1) + 1).toNat := by
      split <;> omega
    rw [hi0, hcnt]
    have ht : c.take (min (start - 1).toNat c.length) = c.take (start - 1).toNat := by
      rw [List.take_eq_take_iff]; omega
    have hd : c.drop (min (start - 1).toNat c.length) = c.drop (start - 1).toNat := by
      rcases Nat.le_total (start - 1).toNat c.length with h | h
      · rw [Nat.min_eq_left h]
      · rw [Nat.min_eq_right h, List.drop_of_length_le h, List.drop_of_length_le (Nat.le_refl _)]
    simp only [← List.map_take, ← List.map_drop, ← List.map_append, ht, hd]

/-! ### `removeRange` -/

/-- `maxStop` on an item -/
def stopI (max : F64) (mode : Nat) (it : Item) : Bool :=
  if mode / 2 % 2 = 1 then F64.le max it.1 else F64.lt max it.1

/-- the number of nodes the second loop of `removeRange` removes, on the items from the first candidate on
    (`r` = number removed so far) -/
def remCount (max : F64) (limit : Int) (mode : Nat) : List Item → Nat → Nat
  | [], _ => 0
  | it :: rest, r =>
    if stopI max mode it then 0
    else if limit > 0 ∧ ((r + 1 : Nat) : Int) = limit then 1
    else remCount max limit mode rest (r + 1) + 1

theorem removeRangeLoop_spec (max : F64) (limit : Int) (mode : Nat) (update : List (Option Nat)) :
    ∀ (C A : List Nat) (sl : SL) (fuel : Nat) (removed : List Item) (cnt : Nat),
      IsChain sl (A ++ C) → UpdateFor sl.heap sl.level (0 :: A) update → C.length + 1 ≤ fuel →
      cnt = remCount max limit mode (C.map (itemAt sl.heap)) removed.length →
      ∃ sl', removeRangeLoop max limit mode update fuel sl C.head? removed =
          .ok (sl', removed.reverse ++ (C.take cnt).map (itemAt sl.heap)) ∧
        IsChain sl' (A ++ C.drop cnt) ∧
        (A ++ C.drop cnt).map (itemAt sl'.heap) = (A ++ C.drop cnt).map (itemAt sl.heap) := by
  intro C
  induction C with
  | nil =>
    intro A sl fuel removed cnt hc _ hfuel _
    obtain ⟨f, rfl⟩ : ∃ f, fuel = f + 1 := ⟨fuel - 1, by simp at hfuel; omega⟩
    exact ⟨sl, by simp [removeRangeLoop, pure, Except.pure], by simpa using hc, rfl⟩
  | cons n C ih =>
    intro A sl fuel removed cnt hc hupd hfuel hcnt
    obtain ⟨f, rfl⟩ : ∃ f, fuel = f + 1 := ⟨fuel - 1, by simp at hfuel; omega⟩
    obtain ⟨nd, l0, sl1, hnd, hitem, hl0, hf, hrem, hc1, hupd1, _, hitems, hnot⟩ := remove_step hc update hupd
    have hstop : maxStop max mode nd = stopI max mode (itemAt sl.heap n) := by
      rw [← hitem]; rfl
    simp only [List.map_cons, remCount] at hcnt
    by_cases hst : stopI max mode (itemAt sl.heap n) = true
    · simp only [hst, if_true] at hcnt
      subst hcnt
      refine ⟨sl, ?_, by simpa using hc, rfl⟩
      simp [removeRangeLoop, bind, Except.bind, hnd, hstop, hst, pure, Except.pure]
    · have hst' : stopI max mode (itemAt sl.heap n) = false := by simpa using hst
      simp only [hst', Bool.false_eq_true, if_false] at hcnt
      have hmap : ∀ (l : List Nat), (∀ y ∈ l, y ∈ A ++ C) → l.map (itemAt sl1.heap) = l.map (itemAt sl.heap) := by
        intro l hl
        apply List.map_congr_left
        intro y hy
        apply hitems
        intro h; subst h; exact hnot (hl _ hy)
      by_cases hlim : limit > 0 ∧ ((removed.length + 1 : Nat) : Int) = limit
      · simp only [hlim, and_self, if_true] at hcnt
        subst hcnt
        refine ⟨sl1, ?_, by simpa using hc1, ?_⟩
        · simp only [List.head?_cons, removeRangeLoop]
          simp [bind, Except.bind, hnd, hstop, hst, hl0, hrem, hlim, hitem, pure, Except.pure]
        · simp only [List.drop_succ_cons, List.drop_zero]
          exact hmap _ (fun y hy => hy)
      · simp only [hlim, if_false] at hcnt
        obtain ⟨sl', h1, h2, h3⟩ := ih A sl1 f (nd.item :: removed) (cnt - 1) hc1 hupd1 (by simp at hfuel; omega)
          (by rw [hmap C (fun y hy => List.mem_append_right _ hy)]; simp; omega)
        obtain ⟨m, rfl⟩ : ∃ m, cnt = m + 1 := ⟨cnt - 1, by omega⟩
        simp only [Nat.add_sub_cancel] at h1 h2 h3
        refine ⟨sl', ?_, by simpa using h2, ?_⟩
        · rw [hmap _ (fun y hy => List.mem_append_right _ (List.mem_of_mem_take hy)), hitem] at h1
          simp only [List.head?_cons, removeRangeLoop]
          simp [bind, Except.bind, hnd, hstop, hst, hl0, hrem, hitem, hf]
          rw [if_neg (by intro hh; exact hlim ⟨hh.1, by omega⟩)]
          rw [h1]; simp [List.map_take]
        · simp only [List.drop_succ_cons]
          rw [h3]
          apply hmap
          intro y hy
          simp at hy ⊢
          rcases hy with hy | hy
          · exact Or.inl hy
          · exact Or.inr (List.mem_of_mem_drop hy)

/-- `minCond` on an item -/
def preI (min : F64) (mode : Nat) (it : Item) : Bool :=
  !(if mode % 2 = 1 then F64.lt min it.1 else F64.le min it.1)

private theorem takeWhile_char {α} (p : α → Bool) : ∀ (l : List α), l.Pairwise (fun a b => p b = true → p a = true) →
    ∀ i a, l[i]? = some a → p a = decide (i < (l.takeWhile p).length) := by
  intro l
  induction l with
  | nil => intro _ i a h; simp at h
  | cons x l ih =>
    intro hpw i a hi
    rw [List.pairwise_cons] at hpw
    cases hx : p x with
    | true =>
      rw [List.takeWhile_cons_of_pos hx]
      cases i with
      | zero => simp at hi; subst hi; simp [hx]
      | succ j =>
        simp at hi
        rw [ih hpw.2 j a hi]
        simp
    | false =>
      rw [List.takeWhile_cons_of_neg (by simp [hx])]
      simp
      cases i with
      | zero => simp at hi; subst hi; exact hx
      | succ j =>
        simp at hi
        have := hpw.1 a (List.mem_of_getElem? hi)
        cases ha : p a with
        | false => rfl
        | true => rw [this ha] at hx; cases hx

private theorem takeWhile_eq_take {α} (p : α → Bool) : ∀ (l : List α), l.takeWhile p = l.take (l.takeWhile p).length
  | [] => rfl
  | x :: l => by
    cases hx : p x with
    | true => rw [List.takeWhile_cons_of_pos hx]; simp; exact takeWhile_eq_take p l
    | false => rw [List.takeWhile_cons_of_neg (by simp [hx])]; simp

private theorem preI_down (min : F64) (mode : Nat) (a b : Item) (ha : Good a) (hb : Good b) (h : ILt a b)
    (hp : preI min mode b = true) : preI min mode a = true := by
  have hk := key_le_of_ilt a b ha hb h
  unfold Good at ha hb
  unfold preI at hp ⊢
  by_cases hm : mode % 2 = 1
  · simp [hm, F64.lt, ha, hb] at hp ⊢
    rcases hp with hp | hp
    · exact Or.inl hp
    · exact Or.inr (by omega)
  · simp [hm, F64.le, ha, hb] at hp ⊢
    rcases hp with hp | hp
    · exact Or.inl hp
    · exact Or.inr (by omega)

theorem condUpTo_min {sl : SL} {c : List Nat} (hc : IsChain sl c) (min : F64) (mode : Nat) :
    CondUpTo sl c (minCond min mode) ((c.map (itemAt sl.heap)).takeWhile (preI min mode)).length := by
  intro q n nd hq hn h1
  obtain ⟨j, rfl⟩ : ∃ j, q = j + 1 := ⟨q - 1, by omega⟩
  simp at hq
  have hpw : (c.map (itemAt sl.heap)).Pairwise (fun a b => preI min mode b = true → preI min mode a = true) := by
    apply List.Pairwise.imp_of_mem _ hc.sorted
    intro a b ha hb hab
    simp at ha hb
    obtain ⟨x, hx, rfl⟩ := ha
    obtain ⟨y, hy, rfl⟩ := hb
    exact preI_down min mode _ _ (hc.good x hx) (hc.good y hy) hab
  have := takeWhile_char (preI min mode) _ hpw j (itemAt sl.heap n) (by simp [hq])
  have hitem : itemAt sl.heap n = nd.item := by simp [itemAt, hn]
  rw [hitem] at this
  show preI min mode nd.item = _
  rw [this]
  simp only [decide_eq_decide]
  omega

/-- `skiplist.removeRange(min, max, limit, mode)` on the list of items: the loop of the Go code on the list -/
def slRemoveRangeLim (l : List Item) (min max : F64) (limit : Int) (mode : Nat) : List Item × List Item :=
  let pre := l.takeWhile (preI min mode)
  let rest := l.drop pre.length
  let cnt := remCount max limit mode rest 0
  (pre ++ rest.drop cnt, rest.take cnt)

theorem removeRange_refines_lim {sl : SL} (h : Inv sl) (min max : F64) (limit : Int) (mode : Nat) :
    ∃ sl' removed, removeRange sl min max limit mode = .ok (sl', removed) ∧ Inv sl' ∧
      (abs sl', removed) = slRemoveRangeLim (abs sl) min max limit mode := by
  obtain ⟨c, hc⟩ := h
  obtain ⟨x, acc, update, rank, l0, hs, hupd, hacc, hl0, hf⟩ := search_split hc _ _ (condUpTo_min hc min mode)
  generalize hk : ((c.map (itemAt sl.heap)).takeWhile (preI min mode)).length = k at hupd hf
  have hsplit : c.take k ++ c.drop k = c := List.take_append_drop _ _
  have hsz := hc.size
  obtain ⟨sl', h1, h2, h3⟩ := removeRangeLoop_spec max limit mode update (c.drop k) (c.take k) sl
    (sl.heap.length + 1) [] _ (by rw [hsplit]; exact hc) hupd (by simp; omega) rfl
  simp only [List.reverse_nil, List.nil_append, List.length_nil] at h1 h2 h3
  have hrun : removeRange sl min max limit mode = .ok (sl',
      ((c.drop k).take (remCount max limit mode ((c.drop k).map (itemAt sl.heap)) 0)).map (itemAt sl.heap)) := by
    simp only [removeRange, bind, Except.bind, hs, hl0, hf]
    exact h1
  refine ⟨sl', _, hrun, ⟨_, h2⟩, ?_⟩
  rw [abs_eq h2, abs_eq hc, h3]
  simp only [slRemoveRangeLim]
  rw [hk, takeWhile_eq_take, hk]
  simp only [← List.map_take, ← List.map_drop, ← List.map_append]

/-! ### the list-level loop against `DsZSet.slRemoveRange` -/

theorem remCount_nolimit (max : F64) (limit : Int) (mode : Nat) (hl : limit ≤ 0) : ∀ (l : List Item) (r : Nat),
    remCount max limit mode l r = (l.takeWhile fun n => !stopI max mode n).length := by
  intro l
  induction l with
  | nil => intro r; rfl
  | cons it l ih =>
    intro r
    cases hst : stopI max mode it with
    | true => simp [remCount, hst]
    | false =>
      have : ¬ (limit > 0 ∧ ((r + 1 : Nat) : Int) = limit) := by omega
      simp only [remCount, hst, Bool.false_eq_true, if_false, this, ih (r + 1)]
      rw [List.takeWhile_cons_of_pos (by simp [hst])]
      simp

theorem remCount_limit (max : F64) (limit : Int) (mode : Nat) (hl : 0 < limit) : ∀ (l : List Item) (r : Nat),
    (r : Int) < limit →
    remCount max limit mode l r = Nat.min (l.takeWhile fun n => !stopI max mode n).length (limit.toNat - r) := by
  intro l
  induction l with
  | nil => intro r _; simp [remCount]
  | cons it l ih =>
    intro r hr
    cases hst : stopI max mode it with
    | true => simp [remCount, hst]
    | false =>
      rw [List.takeWhile_cons_of_pos (by simp [hst])]
      simp only [remCount, hst, Bool.false_eq_true, if_false, List.length_cons]
      by_cases hlim : limit > 0 ∧ ((r + 1 : Nat) : Int) = limit
      · rw [if_pos hlim]
        have : limit.toNat - r = 1 := by omega
        rw [this]; simp
      · rw [if_neg hlim, ih (r + 1) (by omega)]
        simp only [Nat.min_def]
        split <;> split <;> omega

private theorem drop_min {α} (l : List α) (m n : Nat) : l.drop (Nat.min m n) = (l.take m).drop n ++ l.drop m := by
  rw [List.drop_take]
  rcases Nat.le_total n m with h | h
  · have h1 : Nat.min m n = n := Nat.min_eq_right h
    have : l.drop m = (l.drop n).drop (m - n) := by rw [List.drop_drop]; congr 1; omega
    rw [h1, this, List.take_append_drop]
  · have h1 : Nat.min m n = m := Nat.min_eq_left h
    have : m - n = 0 := by omega
    rw [h1, this]; simp

theorem slRemoveRangeLim_nolimit (l : List Item) (min max : F64) (limit : Int) (mode : Nat) (hl : limit ≤ 0) :
    slRemoveRangeLim l min max limit mode = DsZSet.slRemoveRange l min max mode := by
  simp only [slRemoveRangeLim, DsZSet.slRemoveRange, remCount_nolimit max limit mode hl]
  congr 1
  exact (takeWhile_eq_take _ _).symm

theorem slRemoveRangeLim_limit (l : List Item) (min max : F64) (limit : Int) (mode : Nat) (hl : 0 < limit) :
    slRemoveRangeLim l min max limit mode =
      (let pre := l.takeWhile (preI min mode)
       let rest := l.drop pre.length
       let rem := rest.takeWhile fun n => !stopI max mode n
       (pre ++ rem.drop limit.toNat ++ rest.drop rem.length, rem.take limit.toNat)) := by
  simp only [slRemoveRangeLim]
  rw [remCount_limit max limit mode hl _ 0 (by simpa using hl)]
  generalize List.drop (List.takeWhile (preI min mode) l).length l = rest
  have hrem := takeWhile_eq_take (fun n => !stopI max mode n) rest
  generalize hm : (List.takeWhile (fun n => !stopI max mode n) rest).length = m at hrem
  rw [hrem, Nat.sub_zero, drop_min, List.append_assoc, List.take_take]
  congr 2
  simp only [Nat.min_def]
  split <;> split <;> omega

theorem removeRange_refines {sl : SL} (h : Inv sl) (min max : F64) (limit : Int) (mode : Nat) :
    ∃ sl' removed, removeRange sl min max limit mode = .ok (sl', removed) ∧ Inv sl' ∧
      (if limit ≤ 0 then (abs sl', removed) = DsZSet.slRemoveRange (abs sl) min max mode
       else
        let pre := (abs sl).takeWhile fun n => !(if mode % 2 = 1 then F64.lt min n.1 else F64.le min n.1)
        let rest := (abs sl).drop pre.length
        let rem := rest.takeWhile fun n => !(if mode / 2 % 2 = 1 then F64.le max n.1 else F64.lt max n.1)
        removed = rem.take limit.toNat ∧ abs sl' = pre ++ rem.drop limit.toNat ++ rest.drop rem.length) := by
  obtain ⟨sl', removed, h1, h2, h3⟩ := removeRange_refines_lim h min max limit mode
  refine ⟨sl', removed, h1, h2, ?_⟩
  by_cases hl : limit ≤ 0
  · rw [if_pos hl, h3, slRemoveRangeLim_nolimit _ _ _ _ _ hl]
  · rw [if_neg hl]
    rw [slRemoveRangeLim_limit _ _ _ _ _ (by omega)] at h3
    simp only [Prod.mk.injEq] at h3
    exact ⟨h3.2, h3.1⟩
