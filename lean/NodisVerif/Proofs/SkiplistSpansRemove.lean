import NodisVerif.Proofs.SkiplistSpans
import NodisVerif.Proofs.SkiplistUnlink
import NodisVerif.Proofs.SkiplistRemoveNode
import NodisVerif.Proofs.SkiplistSpecs
/-
  The span discipline of nil links (`NilSpans`, Proofs/SkiplistSpans.lean) is preserved by `removeNode`.
-/
namespace NodisVerif.Skiplist
open NodisVerif.DsZSet (Item nodeLt)
open NodisVerif.Proofs.C04 (ILt)
open NodisVerif.Proofs.ZSetLemmas (Good)
open Unlink

/-- whatever `removeNode` returns: the levels are those left by `unlinkLevels`, the length is one less -/
theorem removeNode_shape {sl sl' : SL} {n : Nat} {update : List (Option Nat)} (hr : removeNode sl n update = .ok sl') :
    ∃ h1, unlinkLevels n update sl.level 0 sl.heap = .ok h1 ∧ (∀ x j, lvAt sl'.heap x j = lvAt h1 x j) ∧
      sl'.length = sl.length - 1 := by
  unfold removeNode at hr
  cases h1e : unlinkLevels n update sl.level 0 sl.heap with
  | error e => simp [h1e, bind, Except.bind] at hr
  | ok h1 =>
    refine ⟨h1, rfl, ?_⟩
    simp only [h1e, bind, Except.bind] at hr
    cases hnd : getNode h1 n with
    | error e => simp [hnd] at hr
    | ok nd =>
      simp only [hnd] at hr
      cases hl0 : getLevel h1 n 0 with
      | error e => simp [hl0] at hr
      | ok l0 =>
        simp only [hl0] at hr
        cases hf : l0.forward with
        | none =>
          simp only [hf, pure, Except.pure] at hr
          cases hs : shrinkLevel h1 sl.level with
          | error e => simp [hs] at hr
          | ok lvl =>
            simp only [hs, Except.ok.injEq] at hr
            subst hr
            exact ⟨fun _ _ => rfl, rfl⟩
        | some f =>
          simp only [hf] at hr
          cases hsb : setBackward h1 f nd.backward with
          | error e => simp [hsb] at hr
          | ok h2 =>
            simp only [hsb, pure, Except.pure] at hr
            cases hs : shrinkLevel h2 sl.level with
            | error e => simp [hs] at hr
            | ok lvl =>
              simp only [hs, Except.ok.injEq] at hr
              subst hr
              have hflt : f < h1.length := by
                unfold setBackward at hsb
                cases hh : h1[f]? with
                | none => simp [hh, throw, throwThe, MonadExceptOf.throw] at hsb
                | some x => exact (List.getElem?_eq_some_iff.1 hh).1
              obtain ⟨h2', hrun2, _, hlv2, _⟩ := setBackward_spec nd.backward hflt
              rw [hsb] at hrun2
              cases hrun2
              exact ⟨hlv2, rfl⟩

/-- the levels after `removeNode` of a node of the chain with a correct `update[]` -/
theorem removeNode_levels {sl : SL} {A : List Nat} {n : Nat} {B : List Nat} (hc : IsChain sl (A ++ n :: B))
    {update : List (Option Nat)} (hupd : UpdateFor sl.heap sl.level (0 :: A) update)
    {sl' : SL} (hr : removeNode sl n update = .ok sl') :
    (∀ x j, lvAt sl'.heap x j =
      if j < sl.level ∧ update[j]? = some (some x) then newLv sl.heap n x j else lvAt sl.heap x j) ∧
    sl'.length = sl.length - 1 := by
  have hnd : (0 :: A ++ n :: B).Nodup := hc.nodup
  have hdisj := (List.nodup_append.1 hnd).2.2
  have hnZ : n ∉ 0 :: A := fun hx => hdisj n hx n (by simp) rfl
  have hlk : Linked sl.heap (0 :: A ++ n :: B) := hc.linked
  have hloop : ∀ j, 0 ≤ j → j < 0 + sl.level → ∃ u l, update[j]? = some (some u) ∧ u ≠ n ∧
      lvAt sl.heap u j = some l ∧ (l.forward = some n → j < height sl.heap n) := by
    intro j _ hj
    obtain ⟨A', u, B', hs, hua, hB', hu⟩ := hupd j (by omega)
    obtain ⟨l, hl⟩ := (lvAt_isSome_iff sl.heap u j).2 (by simpa [above] using hua)
    refine ⟨u, l, hu, ?_, hl, ?_⟩
    · intro e; subst e; exact hnZ (by rw [hs]; simp)
    · intro hf
      have := (linkOk_split hlk (P := A') (x := u) (S := B' ++ n :: B) (by rw [hs]; simp) j l hl).1
      rw [hf] at this
      have := List.find?_some this.symm
      simpa [above] using this
  obtain ⟨h1, hrun1, _, _, hlv1⟩ := unlinkLevels_spec n update sl.level 0 sl.heap hloop
  obtain ⟨h1', hrun1', hlv', hlen⟩ := removeNode_shape hr
  rw [hrun1] at hrun1'
  cases hrun1'
  refine ⟨?_, hlen⟩
  intro x j
  rw [hlv', hlv1]
  simp only [Nat.zero_le, true_and, Nat.zero_add]

/-- `removeNode` keeps the span discipline of nil links -/
theorem removeNode_nilSpans {sl : SL} {c : List Nat} (hc : IsChain sl c) (hn : NilSpans sl c) (A : List Nat) (n : Nat)
    (B : List Nat) (hsplit : c = A ++ n :: B) (update : List (Option Nat))
    (hupd : UpdateFor sl.heap sl.level (0 :: A) update) (sl' : SL) (hr : removeNode sl n update = .ok sl') :
    NilSpans sl' (A ++ B) := by
  subst hsplit
  obtain ⟨sl'', hr'', hc', _, hlevel, _, _⟩ := removeNode_spec hc A n B rfl update hupd
  rw [hr] at hr''
  cases hr''
  obtain ⟨hlv, hlen⟩ := removeNode_levels hc hupd hr
  have hnd : (0 :: A ++ n :: B).Nodup := hc.nodup
  have hlk : Linked sl.heap (0 :: A ++ n :: B) := hc.linked
  have hL : sl.length = (A.length : Int) + 1 + (B.length : Int) := by
    have := hc.length; simp at this; omega
  intro P x S hsp i l' hi hl' hfn
  rw [getLevel_ok_lvAt] at hl'
  have hi' : i < sl.level := by omega
  -- a node of B
  have caseB : ∀ as, P = 0 :: A ++ as → B = as ++ x :: S → l'.span = sl'.length - (P.length : Int) := by
    intro as hP hB
    have hxB : x ∈ B := by rw [hB]; simp
    have hxZ : x ∉ 0 :: A := by
      intro hx
      have := (List.nodup_append.1 hnd).2.2 x hx x (by simp [hxB])
      exact this rfl
    have hcn : ¬ (i < sl.level ∧ update[i]? = some (some x)) := fun c => hxZ (updateFor_mem hupd c.1 c.2)
    rw [hlv, if_neg hcn] at hl'
    have := hn (0 :: A ++ n :: as) x S (by rw [hB]; simp) i l' hi' (getLevel_of_lvAt hl') hfn
    rw [this, hlen, hP]
    simp
    omega
  rcases List.append_eq_append_iff.1 (show (0 :: A) ++ B = P ++ x :: S from hsp) with ⟨as, hP, hB⟩ | ⟨bs, hZ, hS⟩
  · exact caseB as hP hB
  · cases bs with
    | nil => exact caseB [] (by simpa using hZ.symm) (by simpa using hS.symm)
    | cons b S1 =>
      simp only [List.cons_append, List.cons.injEq] at hS
      obtain ⟨rfl, hS⟩ := hS
      subst hS
      -- x is a node of 0 :: A, S1 the rest of 0 :: A
      have hZlen : (A.length : Int) + 1 = (P.length : Int) + 1 + (S1.length : Int) := by
        have := congrArg List.length hZ; simp at this; omega
      have hold : ∀ l, lvAt sl.heap x i = some l → l.forward = (S1 ++ n :: B).find? (above sl.heap i) ∧
          (l.forward ≠ none → l.span = ((S1 ++ n :: B).findIdx (above sl.heap i) : Int) + 1) := by
        intro l hl
        exact linkOk_split hlk (P := P) (S := S1 ++ n :: B) (by rw [hZ]; simp) i l hl
      obtain ⟨A', u, B', hs, hua, hB', hu⟩ := hupd i hi'
      by_cases hux : u = x
      · subst hux
        obtain ⟨hPA, hSB⟩ := split_unique (List.nodup_append.1 hnd).1 hZ hs
        subst hPA; subst hSB
        rw [hlv, if_pos ⟨hi', hu⟩] at hl'
        unfold newLv at hl'
        cases hl : lvAt sl.heap u i with
        | none => simp [hl] at hl'
        | some l =>
          obtain ⟨hf, hsp'⟩ := hold l hl
          rw [find_skip hB'] at hf
          rw [findIdx_skip hB'] at hsp'
          simp only [hl] at hl'
          by_cases hfwd : l.forward = some n
          · have hna : above sl.heap i n = true := by
              rw [hf] at hfwd
              cases hna : above sl.heap i n with
              | true => rfl
              | false =>
                simp only [List.find?_cons, hna] at hfwd
                have := List.mem_of_find?_eq_some hfwd
                have hnd2 := (List.nodup_append.1 hnd).2.1
                exact absurd this (List.nodup_cons.1 hnd2).1
            obtain ⟨ln, hln⟩ := (lvAt_isSome_iff sl.heap n i).2 (by simpa [above] using hna)
            simp only [hfwd, if_true, hln, Option.some.injEq] at hl'
            subst hl'
            have h1 := hsp' (by rw [hfwd]; simp)
            simp only [List.findIdx_cons, hna, cond_true] at h1
            have h2 := hn (0 :: A) n B (by simp) i ln hi' (getLevel_of_lvAt hln) hfn
            show l.span + (ln.span - 1) = sl'.length - (P.length : Int)
            rw [h1, h2, hlen]
            simp at hZlen ⊢
            omega
          · simp only [hfwd, if_false, Option.some.injEq] at hl'
            subst hl'
            have h1 := hn P u (S1 ++ n :: B) (by rw [← List.cons_append, hZ]; simp) i l hi' (getLevel_of_lvAt hl) hfn
            show l.span - 1 = sl'.length - (P.length : Int)
            rw [h1, hlen]
            omega
      · exfalso
        have hcn : ¬ (i < sl.level ∧ update[i]? = some (some x)) := by
          intro c; rw [hu] at c; exact hux (by simpa using c.2)
        rw [hlv, if_neg hcn] at hl'
        have hxa : above sl.heap i x = true := lvAt_above hl'
        have huS : u ∈ S1 := by
          rcases List.append_eq_append_iff.1 (hs.symm.trans hZ) with ⟨as, e1, e2⟩ | ⟨bs, e1, e2⟩
          · cases as with
            | nil => simp at e2; exact absurd e2.1 hux
            | cons a as =>
              simp at e2
              have := hB' x (by rw [e2.2]; simp)
              rw [hxa] at this; cases this
          · cases bs with
            | nil => simp at e2; exact absurd e2.1.symm hux
            | cons a bs => simp at e2; rw [e2.2]; simp
        have hf := (hold l' hl').1
        rw [hfn, eq_comm, List.find?_eq_none] at hf
        have := hf u (by simp [huS])
        rw [hua] at this
        exact this rfl

end NodisVerif.Skiplist
