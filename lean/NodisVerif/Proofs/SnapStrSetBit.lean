import NodisVerif.Proofs.SnapStrBits
import NodisVerif.Proofs.SnapCodec
/-
  ds/str/str.go SetBit: normal form (the receiver's field threaded, `mk` rebuilds the receiver), its split into the growth
  of the buffer and the read-modify-write of one byte, the byte-level kernel facts (or / and-not / test against the model's
  UInt8 operations, 256 × 8 cases each), and the equality with the model DsStr.setBit.
-/
namespace NodisVerif.StrNF
open NodisVerif NodisVerif.GoLib

/-- normal form of SetBit: the receiver's field is threaded as `sv`; `mk` rebuilds the receiver -/
def SetBit {σ : Type} (mk : Bytes → σ) (v : Bytes) (offset : Int) (value : Bool) : GoLib.M (σ × Int) := do
  let mut sv := v
  if (decide (offset < 0)) then
    return (mk sv, 0)
  let mut i : Int := (Int.tdiv offset 8)
  if (decide (i > (GoLib.wrap .i64 ((GoLib.len sv) - 1)))) then
    let mut newV : Bytes := (← GoLib.makeBytes (GoLib.wrap .i64 (i + 1)))
    newV := (← GoLib.copyAt newV 0 sv)
    sv := newV
  let mut by_ : Int := (← GoLib.idx sv i)
  let mut bit : Int := (GoLib.shl .u8 1 (GoLib.wrap .u64 (7 - (GoLib.wrap .u64 (Int.tmod offset 8)))))
  let mut old : Int := (GoLib.band .u8 by_ bit)
  if value then
    sv := (← GoLib.setIdx sv i (GoLib.bor .u8 by_ bit))
  else
    sv := (← GoLib.setIdx sv i (GoLib.bandnot .u8 by_ bit))
  if (old != 0) then
    return (mk sv, 1)
  return (mk sv, 0)
/-- SetBit after the buffer has been grown: read, modify, write the byte -/
def setBitTail {σ : Type} (mk : Bytes → σ) (sv : Bytes) (offset : Int) (value : Bool) : GoLib.M (σ × Int) := do
  let mut sv := sv
  let mut i : Int := (Int.tdiv offset 8)
  let mut by_ : Int := (← GoLib.idx sv i)
  let mut bit : Int := (GoLib.shl .u8 1 (GoLib.wrap .u64 (7 - (GoLib.wrap .u64 (Int.tmod offset 8)))))
  let mut old : Int := (GoLib.band .u8 by_ bit)
  if value then
    sv := (← GoLib.setIdx sv i (GoLib.bor .u8 by_ bit))
  else
    sv := (← GoLib.setIdx sv i (GoLib.bandnot .u8 by_ bit))
  if (old != 0) then
    return (mk sv, 1)
  return (mk sv, 0)

theorem SetBit_struct {σ : Type} (mk : Bytes → σ) (v : Bytes) (o : Int) (b : Bool) : SetBit mk v o b =
    (if o < 0 then pure (mk v, 0)
     else if Int.tdiv o 8 > wrap .i64 (len v - 1) then
       (makeBytes (wrap .i64 (Int.tdiv o 8 + 1)) >>= fun z => copyAt z 0 v >>= fun nv => setBitTail mk nv o b)
     else setBitTail mk v o b) := by
  unfold SetBit setBitTail
  simp only [decide_eq_true_eq]
  repeat' split
  all_goals first | rfl | omega | simp_all

theorem or_fact : ∀ c : Fin 256, ∀ k : Fin 8,
    byteOf (bor .u8 ((UInt8.ofNat c.val).toNat : Int) (shl .u8 1 (7 - (k.val : Int)))) =
    ((UInt8.ofNat c.val) ||| ((1 : UInt8) <<< UInt8.ofNat (7 - k.val))) := by
  decide +kernel

theorem andnot_fact : ∀ c : Fin 256, ∀ k : Fin 8,
    byteOf (bandnot .u8 ((UInt8.ofNat c.val).toNat : Int) (shl .u8 1 (7 - (k.val : Int)))) =
    ((UInt8.ofNat c.val) &&& ~~~ ((1 : UInt8) <<< UInt8.ofNat (7 - k.val))) := by
  decide +kernel

/-- the read-modify-write of one bit, against the model's UInt8 operations -/
theorem setBitTail_eq {σ : Type} (mk : Bytes → σ) (w : Bytes) (o : Int) (b : Bool) (ho : 0 ≤ o) (hi : o / 8 < (w.length : Int)) :
    setBitTail mk w o b = .ok
      (mk (w.set (o / 8).toNat (if b then w.getD (o / 8).toNat 0 ||| DsStr.bitMask o else w.getD (o / 8).toNat 0 &&& ~~~ DsStr.bitMask o)),
       if (w.getD (o / 8).toNat 0 &&& DsStr.bitMask o) != 0 then 1 else 0) := by
  have hdiv : Int.tdiv o 8 = o / 8 := Int.tdiv_eq_ediv_of_nonneg ho
  have hmod : Int.tmod o 8 = o % 8 := Int.tmod_eq_emod_of_nonneg ho
  have hk : 0 ≤ o % 8 ∧ o % 8 < 8 := by omega
  have hrange : 0 ≤ o / 8 ∧ o / 8 < (w.length : Int) := by omega
  have hidx : idx w (o / 8) = .ok ((w.getD (o / 8).toNat 0).toNat : Int) := by
    simp [idx, hrange, pure, Except.pure]
  have hset : ∀ x : Int, setIdx w (o / 8) x = .ok (w.set (o / 8).toNat (byteOf x)) := by
    intro x; simp only [setIdx, hrange, and_self, if_true, pure, Except.pure]
  have hsh : wrap .u64 (7 - wrap .u64 (o % 8)) = 7 - o % 8 := by
    rw [wrap_u64, wrap_u64]; omega
  have hcast : (((o % 8).toNat : Nat) : Int) = o % 8 := by omega
  generalize hc : w.getD (o / 8).toNat 0 = c at *
  have h1 := bit_test_fact ⟨c.toNat, c.toNat_lt⟩ ⟨(o % 8).toNat, by omega⟩
  have h2 := or_fact ⟨c.toNat, c.toNat_lt⟩ ⟨(o % 8).toNat, by omega⟩
  have h3 := andnot_fact ⟨c.toNat, c.toNat_lt⟩ ⟨(o % 8).toNat, by omega⟩
  simp only [UInt8.ofNat_toNat, hcast] at h1 h2 h3
  unfold setBitTail
  simp only [hdiv, hmod, hidx, hsh, bind, Except.bind, DsStr.bitMask]
  cases b
  · simp only [hset, h3, Bool.false_eq_true, if_false]
    by_cases hb : (band IT.u8 (c.toNat : Int) (shl IT.u8 1 (7 - o % 8)) != 0) = true
    · have hb' := hb; rw [h1] at hb'
      simp only [hb, hb', if_true]; rfl
    · have hb' := hb; rw [h1] at hb'
      simp only [hb, hb', if_false, Bool.false_eq_true]; rfl
  · simp only [hset, h2, if_true]
    by_cases hb : (band IT.u8 (c.toNat : Int) (shl IT.u8 1 (7 - o % 8)) != 0) = true
    · have hb' := hb; rw [h1] at hb'
      simp only [hb, hb', if_true]; rfl
    · have hb' := hb; rw [h1] at hb'
      simp only [hb, hb', if_false, Bool.false_eq_true]; rfl

theorem SetBit_eq_model {σ : Type} (mk : Bytes → σ) (v : Bytes) (o : Int) (b : Bool) (hv : v.length < 2 ^ 58) (ho : inInt64 o) :
    SetBit mk v o b = .ok (mk ((DsStr.setBit (some v) o b).1.getD []), (DsStr.setBit (some v) o b).2) := by
  have ho' := inInt64_iff.mp ho
  rw [SetBit_struct]
  by_cases hneg : o < 0
  · simp [hneg, DsStr.setBit, pure, Except.pure]
  have hdiv : Int.tdiv o 8 = o / 8 := Int.tdiv_eq_ediv_of_nonneg (by omega)
  have hw1 : wrap .i64 (len v - 1) = (v.length : Int) - 1 := by rw [len_eq, wrap_i64_id]; omega
  have hw2 : wrap .i64 (o / 8 + 1) = o / 8 + 1 := wrap_i64_id (by omega)
  have hcast : (((o / 8).toNat : Nat) : Int) = o / 8 := by omega
  simp only [hneg, if_false, hdiv, hw1, hw2, DsStr.setBit, DsStr.bytes, Option.getD_some, hcast]
  by_cases hg : o / 8 > (v.length : Int) - 1
  · -- the value is grown with zero bytes up to the byte that holds the bit
    have hmk : makeBytes (o / 8 + 1) = .ok (List.replicate ((o / 8).toNat + 1) 0) := by
      rw [makeBytes_ok (by omega)]; congr 2; omega
    have hcp := copyAt_prefix [] (List.replicate ((o / 8).toNat + 1) 0) v (by simp; omega)
    simp only [List.nil_append, List.length_nil, Int.natCast_zero, List.drop_replicate] at hcp
    have hlen : ((v ++ List.replicate ((o / 8).toNat + 1 - v.length) 0).length : Int) > o / 8 := by
      simp only [List.length_append, List.length_replicate]; omega
    simp only [hg, if_true, hmk, bind, Except.bind, hcp]
    rw [setBitTail_eq mk _ o b (by omega) (by omega)]
    simp [DsStr.zeros]
  · simp only [hg, if_false]
    rw [setBitTail_eq mk v o b (by omega) (by omega)]
    simp

end NodisVerif.StrNF
