import NodisVerif.Proofs.C10Resp
/-
  C10 helper lemmas, part 11: further commands — SPOP, SRANDMEMBER, HMSET, INCRBYFLOAT,
  HINCRBYFLOAT, S*STORE, LPOPRPUSH/RPOPLPUSH, SMOVE, ZUNION.
-/
namespace NodisVerif.Proofs.C10
open NodisVerif Store
open NodisVerif.Proofs.AListLemmas NodisVerif.Proofs.AListLemmas2

/-! ### single-key commands that fit the generic shapes -/

def spopValid (st : AList Unit) (count : Int) (choice : List Bytes) : Bool :=
  let count := if count = 0 then 1 else count
  let want : Nat := if count ≤ 0 then 0 else min count.toNat st.length
  choice.all (DsSet.mem st) && Api.distinct choice && choice.length = want

def spopA (key : Bytes) (count : Int) (choice : List Bytes) : AList Unit → Int → Act := fun st _ =>
  if !spopValid st count choice then { out := .str (Bytes.ofString "INVALID-CHOICE") }
  else
    { val := some (.set (DsSet.srem st choice).1), del := DsSet.scard (DsSet.srem st choice).1 = 0, sig := true,
      ops := [{ typ := 24, key := key, args := choice.map Bytes.toHex }], out := .slist choice }

theorem spop_eq (s : MState) (now : Int) (k : Bytes) (count : Int) (choice : List Bytes) :
    Api.spop s now k count choice = writeCmd none (.slist []) (actOn setOf (spopA k count choice)) s now k := by
  unfold Api.spop writeCmd
  cases writeKey s now k none with
  | mk s1 ok =>
    cases ok
    · rfl
    · simp only [Bool.not_true, Bool.false_eq_true, if_false, actOn, asSet_eq]
      cases setOf (valOf s1 k) with
      | none => rfl
      | some st =>
        have key : ∀ (b : Bool),
            (if !b then (s1, Out.str (Bytes.ofString "INVALID-CHOICE")) else
              (emit (signal (if DsSet.scard (DsSet.srem st choice).1 = 0
                  then delKey (Api.setVal s1 k (.set (DsSet.srem st choice).1)) k
                  else Api.setVal s1 k (.set (DsSet.srem st choice).1)) k)
                { typ := 24, key := k, args := choice.map Bytes.toHex }, Out.slist choice))
            = applyAct s1 k (if !b then { out := .str (Bytes.ofString "INVALID-CHOICE") } else
                { val := some (.set (DsSet.srem st choice).1), del := DsSet.scard (DsSet.srem st choice).1 = 0,
                  sig := true, ops := [{ typ := 24, key := k, args := choice.map Bytes.toHex }],
                  out := .slist choice }) := by
          intro b
          cases b
          · rfl
          · simp only [Bool.not_true, Bool.false_eq_true, if_false]
            unfold applyAct
            by_cases h2 : DsSet.scard (DsSet.srem st choice).1 = 0 <;> simp [h2]
        exact key (spopValid st count choice)

theorem resp_spop (now : Int) (k : Bytes) (count : Int) (choice : List Bytes) :
    Resp now (fun s => Api.spop s now k count choice) := resp_write (fun s => spop_eq s now k count choice)

theorem srandmember_eq (s : MState) (now : Int) (k : Bytes) (count : Int) (choice : List Bytes) :
    Api.srandmember s now k count choice = readCmd (.slist []) (outOn setOf .panic fun st =>
      if count < 0 ∧ st.isEmpty then .panic else
      if (if count = 0 then choice.isEmpty
          else if count > 0 then
            choice.all (DsSet.mem st) && Api.distinct choice && choice.length = min count.toNat st.length
          else choice.all (DsSet.mem st) && choice.length = (-count).toNat)
      then .slist choice else .str (Bytes.ofString "INVALID-CHOICE")) s now k := by
  unfold Api.srandmember readCmd
  cases readKey s now k with
  | mk s1 ok =>
    cases ok
    · rfl
    · simp only [Bool.not_true, Bool.false_eq_true, if_false, outOn, asSet_eq]
      cases setOf (valOf s1 k) with
      | none => rfl
      | some st =>
        simp only
        have key : ∀ (b : Bool) (A B : Out), (if b then (s1, A) else (s1, B)) = (s1, if b then A else B) := by
          intro b A B; cases b <;> rfl
        split
        · rfl
        · exact key _ _ _

theorem resp_srandmember (now : Int) (k : Bytes) (count : Int) (choice : List Bytes) :
    Resp now (fun s => Api.srandmember s now k count choice) :=
  resp_read (fun s => srandmember_eq s now k count choice)

def hmsetA (key : Bytes) (pairs : List (Bytes × Bytes)) : AList Bytes → Int → Act := fun h _ =>
  { val := some (.hash (pairs.foldl (fun (acc : AList Bytes × Int) (p : Bytes × Bytes) =>
        ((DsHash.hset acc.1 p.1 p.2).1, acc.2 + (DsHash.hset acc.1 p.1 p.2).2)) (h, 0)).1),
    sig := true,
    ops := pairs.map fun p => { typ := 10, key := key, args := [Bytes.toHex p.1, Bytes.toHex p.2] },
    out := .int (pairs.foldl (fun (acc : AList Bytes × Int) (p : Bytes × Bytes) =>
        ((DsHash.hset acc.1 p.1 p.2).1, acc.2 + (DsHash.hset acc.1 p.1 p.2).2)) (h, 0)).2 }

theorem hmset_eq (s : MState) (now : Int) (k : Bytes) (pairs : List (Bytes × Bytes)) :
    Api.hmset s now k pairs = writeCmd (some (.hash [])) .unit (actOn hashOf (hmsetA k pairs)) s now k := by
  unfold Api.hmset writeCmd
  have hok := writeKey_some_ok s now k (.hash [])
  cases hw : writeKey s now k (some (.hash [])) with
  | mk s1 ok =>
    rw [hw] at hok
    simp only at hok
    subst hok
    simp only [Bool.not_true, Bool.false_eq_true, if_false, actOn, asHash_eq]
    cases hashOf (valOf s1 k) with
    | none => rfl
    | some h =>
      simp only [hmsetA, applyAct, List.foldl_map]
      rfl

theorem resp_hmset (now : Int) (k : Bytes) (pairs : List (Bytes × Bytes)) :
    Resp now (fun s => Api.hmset s now k pairs) := resp_write (fun s => hmset_eq s now k pairs)

/-! ### S*STORE = compute, DEL destination, SADD destination -/

theorem resp_sstore (now : Int) (op : MState → Int → List Bytes → Api.R) (dst : Bytes) (keys : List Bytes)
    (hop : Resp now (fun s => op s now keys)) : Resp now (fun s => Api.sstore op s now dst keys) := by
  intro s s' g
  show RSim now (Api.sstore op s now dst keys) (Api.sstore op s' now dst keys)
  unfold Api.sstore
  split
  · exact ⟨rfl, g⟩
  · have h1 : RSim now (op s now keys) (op s' now keys) := hop s s' g
    obtain ⟨e, g1⟩ := h1
    cases hw : op s now keys with
    | mk s1 o =>
      cases hw' : op s' now keys with
      | mk s1' o' =>
        rw [hw, hw'] at e g1
        simp only at e g1
        subst e
        cases o with
        | slist ms =>
          simp only
          have h2 : RSim now (Api.del (Api.commit s1) now [dst]) (Api.del (Api.commit s1') now [dst]) :=
            resp_del now [dst] _ _ (commit_good g1)
          obtain ⟨_, g2⟩ := h2
          cases hd : Api.del (Api.commit s1) now [dst] with
          | mk s2 o2 =>
            cases hd' : Api.del (Api.commit s1') now [dst] with
            | mk s2' o2' =>
              rw [hd, hd'] at g2
              simp only at g2 ⊢
              split
              · exact ⟨rfl, g2⟩
              · exact resp_sadd now dst ms _ _ (commit_good g2)
        | _ => exact ⟨rfl, g1⟩

/-! ### two-key commands: LPOPRPUSH / RPOPLPUSH, SMOVE -/

theorem asList_good {now : Int} {s s' : MState} (g : Good now s s') {k : Bytes}
    (h : (vis now s k).isSome = true) : Api.asList s k = Api.asList s' k := by
  rw [asList_eq, asList_eq, valOf_good_vis g h]

theorem writeKey_visible {now : Int} {s : MState} (hs : AList.Sorted s.index) (k k' : Bytes) (mk : Option Val)
    (h : (vis now s k').isSome = true) : (vis now (writeKey s now k mk).1 k').isSome = true := by
  obtain ⟨_, a2, _, _⟩ := writeKey_spec s now k mk hs
  rw [a2]
  split
  · rename_i hk; subst hk
    split
    · cases hv : vis now s k with
      | none => rw [hv] at h; cases h
      | some r => rfl
    · cases mk with
      | none => exact h
      | some v => rfl
  · exact h

theorem resp_rotate (now : Int) (left : Bool) (src dst : Bytes) :
    Resp now (fun s => Api.rotate left s now src dst) := by
  intro s s' g
  show RSim now (Api.rotate left s now src dst) (Api.rotate left s' now src dst)
  unfold Api.rotate
  obtain ⟨⟨e, g1⟩, hot⟩ := writeKey_good g src none
  cases hw : writeKey s now src none with
  | mk s1 ok =>
    cases hw' : writeKey s' now src none with
    | mk s1' ok' =>
      rw [hw, hw'] at e g1
      rw [hw] at hot
      simp only at e g1 hot
      subst e
      cases ok with
      | false => exact ⟨rfl, g1⟩
      | true =>
        simp only [Bool.not_true, Bool.false_eq_true, if_false]
        have hv := (hot rfl).visible
        rw [asList_good g1 hv]
        cases Api.asList s1' src with
        | none => exact ⟨rfl, g1⟩
        | some l =>
          simp only
          -- the additional lookup of the destination (lock / load / count only)
          obtain ⟨⟨e0, g0⟩, hot0⟩ := writeKey_good g1 dst none
          have hv0 := writeKey_visible (now := now) g1.1 dst src none hv
          cases hw0 : writeKey s1 now dst none with
          | mk s0 dok =>
          cases hw0' : writeKey s1' now dst none with
          | mk s0' dok' =>
          rw [hw0, hw0'] at e0 g0
          rw [hw0] at hot0 hv0
          simp only at e0 g0 hot0 hv0 ⊢
          subst e0
          have hd : Api.asList s0 dst = Api.asList s0' dst ∨ dok = false := by
            cases dok with
            | false => exact Or.inr rfl
            | true => exact Or.inl (asList_good g0 (hot0 rfl).visible)
          have hc : (dok && (Api.asList s0 dst).isNone) = (dok && (Api.asList s0' dst).isNone) := by
            rcases hd with h | h
            · rw [h]
            · rw [h]; rfl
          rw [hc]
          clear hd hc hot0 hw0 hw0' g1 hv hw hw' hot g
          revert hv0; revert g0
          generalize s0 = s1, s0' = s1'
          intro g1 hv
          split
          · exact ⟨rfl, g1⟩
          cases hp : (if left = true then DsList.lpop l 1 else DsList.rpop l 1) with
          | mk l' r =>
            simp only
            cases r with
            | none => exact ⟨rfl, g1⟩
            | some vs =>
              simp only
              have g2 := setVal_good g1 src (.list l') hv
              have g3 : Good now (signal (if DsList.llen l' = 0 then delKey (Api.setVal s1 src (.list l')) src
                    else Api.setVal s1 src (.list l')) src)
                  (signal (if DsList.llen l' = 0 then delKey (Api.setVal s1' src (.list l')) src
                    else Api.setVal s1' src (.list l')) src) := by
                apply signal_good
                split
                · exact delKey_good g2 src
                · exact g2
              obtain ⟨⟨e4, g4⟩, hot4⟩ := writeKey_good g3 dst (some (.list DsList.empty))
              generalize (signal (if DsList.llen l' = 0 then delKey (Api.setVal s1 src (.list l')) src
                    else Api.setVal s1 src (.list l')) src) = t at g3 e4 g4 hot4 ⊢
              generalize (signal (if DsList.llen l' = 0 then delKey (Api.setVal s1' src (.list l')) src
                    else Api.setVal s1' src (.list l')) src) = t' at g3 e4 g4 ⊢
              have hok4 := writeKey_some_ok t now dst (.list DsList.empty)
              cases hw4 : writeKey t now dst (some (.list DsList.empty)) with
              | mk s4 ok4 =>
                cases hw4' : writeKey t' now dst (some (.list DsList.empty)) with
                | mk s4' ok4' =>
                  rw [hw4, hw4'] at e4 g4
                  rw [hw4] at hot4 hok4
                  simp only at e4 g4 hot4 hok4 ⊢
                  subst e4
                  subst hok4
                  have hv4 := (hot4 rfl).visible
                  rw [asList_good g4 hv4]
                  cases Api.asList s4' dst with
                  | none => exact ⟨rfl, g4⟩
                  | some d =>
                    simp only
                    exact ⟨rfl, emit_good (signal_good (setVal_good g4 dst _ hv4) dst) _⟩

theorem resp_smove (now : Int) (src dst member : Bytes) :
    Resp now (fun s => Api.smove s now src dst member) := by
  intro s s' g
  show RSim now (Api.smove s now src dst member) (Api.smove s' now src dst member)
  unfold Api.smove
  obtain ⟨⟨e, g1⟩, hot⟩ := writeKey_good g src none
  cases hw : writeKey s now src none with
  | mk s1 ok =>
    cases hw' : writeKey s' now src none with
    | mk s1' ok' =>
      rw [hw, hw'] at e g1
      rw [hw] at hot
      simp only at e g1 hot
      subst e
      cases ok with
      | false => exact ⟨rfl, g1⟩
      | true =>
        simp only [Bool.not_true, Bool.false_eq_true, if_false]
        have hv := (hot rfl).visible
        rw [asSet_good g1 hv]
        cases Api.asSet s1' src with
        | none => exact ⟨rfl, g1⟩
        | some st =>
          simp only
          -- the additional lookup of the destination (lock / load / count only)
          obtain ⟨⟨e0, g0⟩, hot0⟩ := writeKey_good g1 dst none
          have hv0 := writeKey_visible (now := now) g1.1 dst src none hv
          cases hw0 : writeKey s1 now dst none with
          | mk s0 dok =>
          cases hw0' : writeKey s1' now dst none with
          | mk s0' dok' =>
          rw [hw0, hw0'] at e0 g0
          rw [hw0] at hot0 hv0
          simp only at e0 g0 hot0 hv0 ⊢
          subst e0
          have hd : Api.asSet s0 dst = Api.asSet s0' dst ∨ dok = false := by
            cases dok with
            | false => exact Or.inr rfl
            | true => exact Or.inl (asSet_good g0 (hot0 rfl).visible)
          have hc : (dok && (Api.asSet s0 dst).isNone) = (dok && (Api.asSet s0' dst).isNone) := by
            rcases hd with h | h
            · rw [h]
            · rw [h]; rfl
          rw [hc]
          clear hd hc hot0 hw0 hw0' g1 hv hw hw' hot g
          revert hv0; revert g0
          generalize s0 = s1, s0' = s1'
          intro g1 hv
          split
          · exact ⟨rfl, g1⟩
          have g2 := setVal_good g1 src (.set (DsSet.srem st [member]).1) hv
          split
          · exact ⟨rfl, g2⟩
          · have g3 : Good now
                (signal (if DsSet.scard (DsSet.srem st [member]).1 = 0
                  then delKey (Api.setVal s1 src (.set (DsSet.srem st [member]).1)) src
                  else Api.setVal s1 src (.set (DsSet.srem st [member]).1)) src)
                (signal (if DsSet.scard (DsSet.srem st [member]).1 = 0
                  then delKey (Api.setVal s1' src (.set (DsSet.srem st [member]).1)) src
                  else Api.setVal s1' src (.set (DsSet.srem st [member]).1)) src) := by
              apply signal_good
              split
              · exact delKey_good g2 src
              · exact g2
            obtain ⟨⟨e4, g4⟩, hot4⟩ := writeKey_good g3 dst (some (.set []))
            generalize (signal (if DsSet.scard (DsSet.srem st [member]).1 = 0
                  then delKey (Api.setVal s1 src (.set (DsSet.srem st [member]).1)) src
                  else Api.setVal s1 src (.set (DsSet.srem st [member]).1)) src) = t at g3 e4 g4 hot4 ⊢
            generalize (signal (if DsSet.scard (DsSet.srem st [member]).1 = 0
                  then delKey (Api.setVal s1' src (.set (DsSet.srem st [member]).1)) src
                  else Api.setVal s1' src (.set (DsSet.srem st [member]).1)) src) = t' at g3 e4 g4 ⊢
            have hok4 := writeKey_some_ok t now dst (.set [])
            cases hw4 : writeKey t now dst (some (.set [])) with
            | mk s4 ok4 =>
              cases hw4' : writeKey t' now dst (some (.set [])) with
              | mk s4' ok4' =>
                rw [hw4, hw4'] at e4 g4
                rw [hw4] at hot4 hok4
                simp only at e4 g4 hot4 hok4 ⊢
                subst e4
                subst hok4
                have hv4 := (hot4 rfl).visible
                rw [asSet_good g4 hv4]
                cases Api.asSet s4' dst with
                | none => exact ⟨rfl, g4⟩
                | some d =>
                  simp only
                  exact ⟨rfl, emit_good (signal_good (setVal_good g4 dst _ hv4) dst) _⟩

/-! ### ZUNION, ZINTER (reads of several sorted sets) -/

theorem asZSet_good {now : Int} {s s' : MState} (g : Good now s s') {k : Bytes}
    (h : (vis now s k).isSome = true) : Api.asZSet s k = Api.asZSet s' k := by
  rw [asZSet_eq, asZSet_eq, valOf_good_vis g h]

theorem zunion_go_good {now : Int} (weights : List F64) (agg : Bytes) (ks : List (Bytes × Nat)) :
    ∀ {s s' : MState} (acc : Option (AList F64)), Good now s s' →
    RSim now (Api.zunionCore.go now weights agg ks s acc) (Api.zunionCore.go now weights agg ks s' acc) := by
  induction ks with
  | nil => intro s s' acc g; exact ⟨rfl, g⟩
  | cons e rest ih =>
    obtain ⟨k, i⟩ := e
    intro s s' acc g
    obtain ⟨⟨e1, g1⟩, hot⟩ := readKey_good g k
    unfold Api.zunionCore.go
    cases hw : readKey s now k with
    | mk s1 ok =>
      cases hw' : readKey s' now k with
      | mk s1' ok' =>
        rw [hw, hw'] at e1 g1
        rw [hw] at hot
        simp only at e1 g1 hot ⊢
        subst e1
        cases ok with
        | false => exact ih acc g1
        | true =>
          simp only [Bool.not_true, Bool.false_eq_true, if_false]
          rw [asZSet_good g1 (hot rfl).visible]
          cases Api.asZSet s1' k with
          | none => exact ⟨rfl, g1⟩
          | some z =>
            simp only
            cases DsZSet.forEachByRank z 0 (-1) false with
            | none => exact ⟨rfl, g1⟩
            | some items => exact ih _ g1

theorem zunionCore_good {now : Int} (keys : List Bytes) (weights : List F64) (agg : Bytes)
    {s s' : MState} (g : Good now s s') :
    RSim now (Api.zunionCore s now keys weights agg) (Api.zunionCore s' now keys weights agg) := by
  unfold Api.zunionCore
  obtain ⟨e, g1⟩ := zunion_go_good weights agg keys.zipIdx (some []) g
  cases hw : Api.zunionCore.go now weights agg keys.zipIdx s (some []) with
  | mk s1 r =>
    cases hw' : Api.zunionCore.go now weights agg keys.zipIdx s' (some []) with
    | mk s1' r' =>
      rw [hw, hw'] at e g1
      simp only at e g1 ⊢
      subst e
      exact ⟨rfl, g1⟩

theorem resp_zunion (now : Int) (keys : List Bytes) (weights : List F64) (agg : Bytes) :
    Resp now (fun s => Api.zunion s now keys weights agg) := by
  intro s s' g
  show RSim now (Api.zunion s now keys weights agg) (Api.zunion s' now keys weights agg)
  unfold Api.zunion
  obtain ⟨e, g1⟩ := zunionCore_good keys weights agg g
  cases hw : Api.zunionCore s now keys weights agg with
  | mk s1 r =>
    cases hw' : Api.zunionCore s' now keys weights agg with
    | mk s1' r' =>
      rw [hw, hw'] at e g1
      simp only at e g1
      subst e
      cases r with
      | none => exact ⟨rfl, g1⟩
      | some o => cases o <;> exact ⟨rfl, g1⟩

theorem zinter_inner_good {now : Int} (i : Nat) (m : Bytes) (js : List (Bytes × Nat)) :
    ∀ {s s' : MState}, Good now s s' →
    RSim now (Api.zinterCore.go.inner now i js s m) (Api.zinterCore.go.inner now i js s' m) := by
  induction js with
  | nil => intro s s' g; exact ⟨rfl, g⟩
  | cons e rest ih =>
    obtain ⟨o, j⟩ := e
    intro s s' g
    obtain ⟨⟨e1, g1⟩, hot⟩ := readKey_good g o
    unfold Api.zinterCore.go.inner
    cases hw : readKey s now o with
    | mk s1 ok =>
      cases hw' : readKey s' now o with
      | mk s1' ok' =>
        rw [hw, hw'] at e1 g1
        rw [hw] at hot
        simp only at e1 g1 hot ⊢
        subst e1
        split
        · exact ih g1
        · cases ok with
          | false => exact ⟨rfl, g1⟩
          | true =>
            simp only [Bool.not_true, Bool.false_eq_true, if_false]
            rw [asZSet_good g1 (hot rfl).visible]
            cases Api.asZSet s1' o with
            | none => exact ⟨rfl, g1⟩
            | some oz =>
              simp only
              split
              · exact ih g1
              · exact ⟨rfl, g1⟩

theorem zinter_outer_good {now : Int} (keys : List Bytes) (weights : List F64) (agg : Bytes) (i : Nat)
    (its : List Item) :
    ∀ {s s' : MState} (acc : Option (AList F64)), Good now s s' →
    RSim now (Api.zinterCore.go.outer now keys weights agg i its s acc)
      (Api.zinterCore.go.outer now keys weights agg i its s' acc) := by
  induction its with
  | nil => intro s s' acc g; exact ⟨rfl, g⟩
  | cons it more ih =>
    intro s s' acc g
    obtain ⟨e1, g1⟩ := zinter_inner_good i it.2 keys.zipIdx g
    unfold Api.zinterCore.go.outer
    cases hw : Api.zinterCore.go.inner now i keys.zipIdx s it.2 with
    | mk s1 r =>
      cases hw' : Api.zinterCore.go.inner now i keys.zipIdx s' it.2 with
      | mk s1' r' =>
        rw [hw, hw'] at e1 g1
        simp only at e1 g1 ⊢
        subst e1
        cases r with
        | none => exact ⟨rfl, g1⟩
        | some found => exact ih _ g1

theorem zinter_go_good {now : Int} (keys : List Bytes) (weights : List F64) (agg : Bytes)
    (ks : List (Bytes × Nat)) :
    ∀ {s s' : MState} (acc : Option (AList F64)), Good now s s' →
    RSim now (Api.zinterCore.go now keys weights agg ks s acc) (Api.zinterCore.go now keys weights agg ks s' acc) := by
  induction ks with
  | nil => intro s s' acc g; exact ⟨rfl, g⟩
  | cons e rest ih =>
    obtain ⟨k, i⟩ := e
    intro s s' acc g
    obtain ⟨⟨e1, g1⟩, hot⟩ := readKey_good g k
    unfold Api.zinterCore.go
    cases hw : readKey s now k with
    | mk s1 ok =>
      cases hw' : readKey s' now k with
      | mk s1' ok' =>
        rw [hw, hw'] at e1 g1
        rw [hw] at hot
        simp only at e1 g1 hot ⊢
        subst e1
        cases ok with
        | false => exact ⟨rfl, g1⟩
        | true =>
          simp only [Bool.not_true, Bool.false_eq_true, if_false]
          rw [asZSet_good g1 (hot rfl).visible]
          cases Api.asZSet s1' k with
          | none => exact ⟨rfl, g1⟩
          | some z =>
            simp only
            cases DsZSet.forEachByRank z 0 (-1) false with
            | none => exact ⟨rfl, g1⟩
            | some items =>
              simp only
              obtain ⟨e2, g2⟩ := zinter_outer_good keys weights agg i items acc g1
              cases ho : Api.zinterCore.go.outer now keys weights agg i items s1 acc with
              | mk s2 r =>
                cases ho' : Api.zinterCore.go.outer now keys weights agg i items s1' acc with
                | mk s2' r' =>
                  rw [ho, ho'] at e2 g2
                  simp only at e2 g2 ⊢
                  subst e2
                  cases r with
                  | none => exact ⟨rfl, g2⟩
                  | some a => exact ih a g2

theorem zinterCore_good {now : Int} (keys : List Bytes) (weights : List F64) (agg : Bytes)
    {s s' : MState} (g : Good now s s') :
    RSim now (Api.zinterCore s now keys weights agg) (Api.zinterCore s' now keys weights agg) := by
  unfold Api.zinterCore
  obtain ⟨e, g1⟩ := zinter_go_good keys weights agg keys.zipIdx (some []) g
  cases hw : Api.zinterCore.go now keys weights agg keys.zipIdx s (some []) with
  | mk s1 r =>
    cases hw' : Api.zinterCore.go now keys weights agg keys.zipIdx s' (some []) with
    | mk s1' r' =>
      rw [hw, hw'] at e g1
      simp only at e g1 ⊢
      subst e
      exact ⟨rfl, g1⟩

theorem resp_zinter (now : Int) (keys : List Bytes) (weights : List F64) (agg : Bytes) :
    Resp now (fun s => Api.zinter s now keys weights agg) := by
  intro s s' g
  show RSim now (Api.zinter s now keys weights agg) (Api.zinter s' now keys weights agg)
  unfold Api.zinter
  obtain ⟨e, g1⟩ := zinterCore_good keys weights agg g
  cases hw : Api.zinterCore s now keys weights agg with
  | mk s1 r =>
    cases hw' : Api.zinterCore s' now keys weights agg with
    | mk s1' r' =>
      rw [hw, hw'] at e g1
      simp only at e g1
      subst e
      cases r with
      | none => exact ⟨rfl, g1⟩
      | some o => cases o <;> exact ⟨rfl, g1⟩

/-! ### INCRBYFLOAT, HINCRBYFLOAT -/

def incrByFloatA (key : Bytes) (delta : F64) : DsStr.S → Int → Act := fun v _ =>
  match Api.parseFloatText (if (DsStr.bytes v).isEmpty then [48] else DsStr.bytes v) with
  | none => { out := .unsupported }
  | some none => { out := .many [.f64 0, .err true] }
  | some (some old) =>
    match F64.add? old delta with
    | none => { out := .unsupported }
    | some sum =>
      match Api.formatFloat sum with
      | none => { out := .unsupported }
      | some t =>
        { val := some (.str t), sig := true, ops := [Api.opSet key t false], out := .many [.f64 sum, .err false] }

theorem incrByFloat_eq (s : MState) (now : Int) (k : Bytes) (delta : F64) :
    Api.incrByFloat s now k delta =
      writeCmd (some (.str [])) .unit (actOn strOf (incrByFloatA k delta)) s now k := by
  unfold Api.incrByFloat writeCmd
  have hok := writeKey_some_ok s now k (.str [])
  cases hw : writeKey s now k (some (.str [])) with
  | mk s1 ok =>
    rw [hw] at hok
    simp only at hok
    subst hok
    simp only [Bool.not_true, Bool.false_eq_true, if_false, actOn, asStr_eq]
    cases strOf (valOf s1 k) with
    | none => rfl
    | some v =>
      simp only [incrByFloatA]
      cases Api.parseFloatText (if (DsStr.bytes v).isEmpty then [48] else DsStr.bytes v) with
      | none => rfl
      | some o =>
        cases o with
        | none => rfl
        | some old =>
          simp only
          cases F64.add? old delta with
          | none => rfl
          | some sum =>
            simp only
            cases Api.formatFloat sum <;> rfl

theorem resp_incrByFloat (now : Int) (k : Bytes) (delta : F64) :
    Resp now (fun s => Api.incrByFloat s now k delta) := resp_write (fun s => incrByFloat_eq s now k delta)

def hfin (key field : Bytes) (delta : F64) : List FeedOp :=
  [{ typ := 8, key := key, args := [Bytes.toHex field, toString delta] }]

def hincrbyfloatA (key field : Bytes) (delta : F64) : AList Bytes → Int → Act := fun h _ =>
  match DsHash.hget h field with
  | none =>
    (match Api.formatFloat delta with
     | none => { out := .unsupported }
     | some t => { val := some (.hash (DsHash.hset h field t).1), sig := true, ops := hfin key field delta,
                   out := .many [.f64 delta, .err false] })
  | some old =>
    match Api.parseFloatText old with
    | none => { out := .unsupported }
    | some none => { sig := true, ops := hfin key field delta, out := .many [.f64 0, .err true] }
    | some (some o) =>
      match F64.add? o delta with
      | none => { out := .unsupported }
      | some sum =>
        match Api.formatFloat sum with
        | none => { out := .unsupported }
        | some t => { val := some (.hash (DsHash.hset h field t).1), sig := true, ops := hfin key field delta,
                      out := .many [.f64 sum, .err false] }

theorem hincrbyfloat_eq (s : MState) (now : Int) (k field : Bytes) (delta : F64) :
    Api.hincrbyfloat s now k field delta =
      writeCmd (some (.hash [])) .unit (actOn hashOf (hincrbyfloatA k field delta)) s now k := by
  unfold Api.hincrbyfloat writeCmd
  have hok := writeKey_some_ok s now k (.hash [])
  cases hw : writeKey s now k (some (.hash [])) with
  | mk s1 ok =>
    rw [hw] at hok
    simp only at hok
    subst hok
    simp only [Bool.not_true, Bool.false_eq_true, if_false, actOn, asHash_eq]
    cases hashOf (valOf s1 k) with
    | none => rfl
    | some h =>
      simp only [hincrbyfloatA]
      cases DsHash.hget h field with
      | none =>
        simp only
        cases Api.formatFloat delta <;> rfl
      | some old =>
        simp only
        cases Api.parseFloatText old with
        | none => rfl
        | some o =>
          cases o with
          | none => rfl
          | some o =>
            simp only
            cases F64.add? o delta with
            | none => rfl
            | some sum =>
              simp only
              cases Api.formatFloat sum <;> rfl

theorem resp_hincrbyfloat (now : Int) (k field : Bytes) (delta : F64) :
    Resp now (fun s => Api.hincrbyfloat s now k field delta) :=
  resp_write (fun s => hincrbyfloat_eq s now k field delta)

/-! ### ZUNIONSTORE / ZINTERSTORE: compute, then look the destination up, then store -/

theorem resp_zstore (now : Int) (union : Bool) (dst : Bytes) (keys : List Bytes) (weights : List F64)
    (agg : Bytes) : Resp now (fun s => Api.zstore union s now dst keys weights agg) := by
  intro s s' g
  show RSim now (Api.zstore union s now dst keys weights agg) (Api.zstore union s' now dst keys weights agg)
  unfold Api.zstore
  simp only
  have hcore : RSim now ((if union = true then Api.zunionCore else Api.zinterCore) s now keys weights agg)
      ((if union = true then Api.zunionCore else Api.zinterCore) s' now keys weights agg) := by
    cases union
    · exact zinterCore_good keys weights agg g
    · exact zunionCore_good keys weights agg g
  obtain ⟨e, g1⟩ := hcore
  cases hw : (if union = true then Api.zunionCore else Api.zinterCore) s now keys weights agg with
  | mk s1 r =>
    cases hw' : (if union = true then Api.zunionCore else Api.zinterCore) s' now keys weights agg with
    | mk s1' r' =>
      rw [hw, hw'] at e g1
      simp only at e g1
      subst e
      cases r with
      | none => exact ⟨rfl, g1⟩
      | some o =>
        cases o with
        | none => exact ⟨rfl, g1⟩
        | some items =>
          simp only
          obtain ⟨⟨_, g2⟩, _⟩ := writeKey_good (commit_good g1) dst (some (.zset DsZSet.empty))
          cases hd : writeKey (Api.commit s1) now dst (some (.zset DsZSet.empty)) with
          | mk s2 ok =>
            cases hd' : writeKey (Api.commit s1') now dst (some (.zset DsZSet.empty)) with
            | mk s2' ok' =>
              rw [hd, hd'] at g2
              simp only at g2 ⊢
              split
              · refine ⟨rfl, ?_⟩
                apply emit_good
                exact setSignalled_good (delKey_good g2 dst) _ _ (by rw [g2.signalled])
              · refine ⟨rfl, ?_⟩
                apply emit_good
                apply signal_good
                simp only [fresh]
                rw [g2.nextId]
                exact modMeta_good (setNextId_good g2 (s2'.nextId + 1)) dst _
                  (adoptRec s2'.nextId (.zset _)) (fun _ => rfl) (fun t d => recOf_adopt t dst s2'.nextId _ d)

end NodisVerif.Proofs.C10
