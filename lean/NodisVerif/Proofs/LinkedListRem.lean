import NodisVerif.Proofs.LinkedListUnlink
/-
  LRem at pointer level (lremAllLoop / lremAll, lremLoop / lremFwd, lrevRemLoop / lrevRem, lrem of
  Model/LinkedList.lean) refines `DsList.lrem` (Model/DsList.lean): same removed count, the chain that is
  left represents the sequence `DsList.lrem` returns, the invariant is kept, the heap keeps its size, and the
  fuel `heap.size + 1` is enough (no `Res.fuel`, no `Res.panic`).
-/
namespace NodisVerif.LinkedList

/-! ### sequence level: `DsList.removeFirst` -/

theorem removeFirst_zero (xs : List Bytes) (v : Bytes) : DsList.removeFirst xs v 0 = (xs, 0) := by
  simp [DsList.removeFirst]

theorem removeFirst_nil (v : Bytes) (k : Nat) : DsList.removeFirst [] v k = ([], 0) := by
  cases k <;> simp [DsList.removeFirst]

theorem removeFirst_cons_rem (x : Bytes) (rest : List Bytes) (v : Bytes) (k : Nat) (h : x = v) :
    DsList.removeFirst (x :: rest) v (k + 1) =
      ((DsList.removeFirst rest v k).1, (DsList.removeFirst rest v k).2 + 1) := by
  rw [DsList.removeFirst]
  simp only [h, if_true]

theorem removeFirst_cons_keep (x : Bytes) (rest : List Bytes) (v : Bytes) (k : Nat) (h : x ≠ v ∨ k = 0) :
    DsList.removeFirst (x :: rest) v k =
      (x :: (DsList.removeFirst rest v k).1, (DsList.removeFirst rest v k).2) := by
  cases k with
  | zero => simp [removeFirst_zero]
  | succ k =>
    have hne : x ≠ v := by
      rcases h with h | h
      · exact h
      · omega
    rw [DsList.removeFirst]
    simp only [hne, if_false]

theorem removeFirst_len (xs : List Bytes) (v : Bytes) (k : Nat) :
    (DsList.removeFirst xs v k).1.length + (DsList.removeFirst xs v k).2 = xs.length := by
  induction xs generalizing k with
  | nil => simp [removeFirst_nil]
  | cons x xs ih =>
    by_cases h : x ≠ v ∨ k = 0
    · rw [removeFirst_cons_keep x xs v k h]
      have := ih k
      simp only [List.length_cons]; omega
    · obtain ⟨k', rfl⟩ : ∃ k', k = k' + 1 := ⟨k - 1, by omega⟩
      have hx : x = v := by
        apply Classical.byContradiction
        intro hne; exact h (Or.inl hne)
      rw [removeFirst_cons_rem x xs v k' hx]
      have := ih k'
      simp only [List.length_cons]; omega

/-- with a budget that covers the whole list, `removeFirst` removes every occurrence -/
theorem removeFirst_all (xs : List Bytes) (v : Bytes) (k : Nat) (hk : xs.length ≤ k) :
    DsList.removeFirst xs v k =
      (xs.filter (· ≠ v), xs.length - (xs.filter (· ≠ v)).length) := by
  induction xs generalizing k with
  | nil => simp [removeFirst_nil]
  | cons x xs ih =>
    simp only [List.length_cons] at hk
    by_cases hx : x = v
    · obtain ⟨k', rfl⟩ : ∃ k', k = k' + 1 := ⟨k - 1, by omega⟩
      rw [removeFirst_cons_rem x xs v k' hx, ih k' (by omega)]
      have hle := List.length_filter_le (fun x => decide (¬ x = v)) xs
      simp only [List.filter_cons, hx, ne_eq, not_true_eq_false, decide_false, Bool.false_eq_true,
        if_false, List.length_cons, Prod.mk.injEq, true_and]
      omega
    · rw [removeFirst_cons_keep x xs v k (Or.inl hx), ih k (by omega)]
      simp only [List.filter_cons, hx, ne_eq, not_false_eq_true, decide_true, if_true,
        List.length_cons, Prod.mk.injEq, true_and]
      omega

/-! ### pointer level: what a walk finds at a node, and what `unlink` leaves -/

theorem SameData.dataAt_eq {l l' : PList} (h : SameData l l') : dataAt l'.heap = dataAt l.heap :=
  funext h.data

/-- the node `x` in the middle of the chain -/
theorem node_at (l : PList) (pre rest : List Nat) (x : Nat) (hi : InvC l (pre ++ x :: rest)) :
    ∃ n, l.heap[x]? = some n ∧ n.prev = lst pre none ∧ n.next = hd rest none ∧
      n.data = dataAt l.heap x := by
  obtain ⟨n, h1, h2, h3⟩ := seg_mid _ pre rest x none none hi.seg
  exact ⟨n, h1, h2, h3, (dataAt_of h1).symm⟩

/-! ### lRem (count > 0; also correct for count = 0 with a budget that covers the rest of the chain) -/

theorem lremLoop_spec (value : Bytes) (count : Int) (suf : List Nat) :
    ∀ (pre : List Nat) (l : PList) (fuel : Nat) (removed : Int) (k : Nat),
      InvC l (pre ++ suf) → suf.length ≤ fuel →
      ((count = 0 ∧ suf.length ≤ k) ∨ (count ≠ 0 ∧ k = (count - removed).toNat)) →
      ∃ l' keep, lremLoop fuel l (hd suf none) count value removed =
          .ok (l', removed + ((DsList.removeFirst (suf.map (dataAt l.heap)) value k).2 : Nat)) ∧
        InvC l' (pre ++ keep) ∧
        keep.map (dataAt l.heap) = (DsList.removeFirst (suf.map (dataAt l.heap)) value k).1 ∧
        SameData l l' := by
  induction suf with
  | nil =>
    intro pre l fuel removed k hi _ _
    refine ⟨l, [], ?_, hi, ?_, SameData.refl l⟩
    · simp [lremLoop, removeFirst_nil]
    · simp [removeFirst_nil]
  | cons x rest ih =>
    intro pre l fuel removed k hi hf hk
    obtain ⟨n, hx, _, hnx, hdat⟩ := node_at l pre rest x hi
    cases fuel with
    | zero => simp at hf
    | succ fuel =>
      simp only [List.length_cons] at hf hk
      simp only [hd_cons, lremLoop, rd_ok hx, Res.bind_ok, List.map_cons]
      by_cases hc : n.data = value ∧ (count = 0 ∨ removed < count)
      · rw [if_pos hc]
        obtain ⟨k', rfl⟩ : ∃ k', k = k' + 1 := ⟨k - 1, by omega⟩
        obtain ⟨l1, e1, hi1, hx1, sd1⟩ := unlink_spec l pre rest x hi
        rw [hx] at hx1
        obtain ⟨l', keep, e, hi', hm, sd⟩ :=
          ih pre l1 fuel (removed + 1) k' hi1 (by omega) (by omega)
        rw [sd1.dataAt_eq] at e hm
        refine ⟨l', keep, ?_, hi', ?_, sd1.trans sd⟩
        · simp only [e1, Res.bind_ok, rd_ok hx1, hnx, e]
          rw [removeFirst_cons_rem _ _ _ _ (hdat ▸ hc.1)]
          simp only [Int.natCast_add, Int.natCast_one, Res.ok.injEq, Prod.mk.injEq, true_and]
          omega
        · rw [removeFirst_cons_rem _ _ _ _ (hdat ▸ hc.1)]
          exact hm
      · rw [if_neg hc]
        have hkeep : dataAt l.heap x ≠ value ∨ k = 0 := by
          rw [← hdat]
          by_cases hv : n.data = value
          · right
            have : ¬ (count = 0 ∨ removed < count) := fun h => hc ⟨hv, h⟩
            omega
          · left; exact hv
        have hi2 : InvC l ((pre ++ [x]) ++ rest) := by
          rw [List.append_assoc]; exact hi
        obtain ⟨l', keep, e, hi', hm, sd⟩ :=
          ih (pre ++ [x]) l fuel removed k hi2 (by omega) (by omega)
        refine ⟨l', x :: keep, ?_, ?_, ?_, sd⟩
        · simp only [hnx, e]
          rw [removeFirst_cons_keep _ _ _ _ hkeep]
        · rw [List.append_assoc] at hi'; exact hi'
        · rw [removeFirst_cons_keep _ _ _ _ hkeep, List.map_cons, hm]

/-! ### lRemAll -/

theorem lremAllLoop_spec (value : Bytes) (suf : List Nat) :
    ∀ (pre : List Nat) (l : PList) (fuel : Nat) (removed : Int),
      InvC l (pre ++ suf) → suf.length ≤ fuel →
      ∃ l' keep, lremAllLoop fuel l (hd suf none) value removed =
          .ok (l', removed + (suf.length : Int) - (keep.length : Int)) ∧
        InvC l' (pre ++ keep) ∧
        keep.map (dataAt l.heap) = (suf.map (dataAt l.heap)).filter (· ≠ value) ∧
        SameData l l' := by
  induction suf with
  | nil =>
    intro pre l fuel removed hi _
    refine ⟨l, [], ?_, hi, ?_, SameData.refl l⟩
    · simp [lremAllLoop]
    · simp
  | cons x rest ih =>
    intro pre l fuel removed hi hf
    obtain ⟨n, hx, _, hnx, hdat⟩ := node_at l pre rest x hi
    cases fuel with
    | zero => simp at hf
    | succ fuel =>
      simp only [List.length_cons] at hf
      simp only [hd_cons, lremAllLoop, rd_ok hx, Res.bind_ok, List.map_cons, List.length_cons]
      by_cases hc : n.data = value
      · rw [if_pos hc]
        obtain ⟨l1, e1, hi1, hx1, sd1⟩ := unlink_spec l pre rest x hi
        rw [hx] at hx1
        obtain ⟨l', keep, e, hi', hm, sd⟩ := ih pre l1 fuel (removed + 1) hi1 (by omega)
        rw [sd1.dataAt_eq] at hm
        have hv : dataAt l.heap x = value := hdat ▸ hc
        refine ⟨l', keep, ?_, hi', ?_, sd1.trans sd⟩
        · simp only [e1, Res.bind_ok, rd_ok hx1, hnx, e, Res.ok.injEq, Prod.mk.injEq, true_and]
          omega
        · rw [hm]
          simp only [List.filter_cons, hv, ne_eq, not_true_eq_false, decide_false, Bool.false_eq_true,
            if_false]
      · rw [if_neg hc]
        have hv : dataAt l.heap x ≠ value := hdat ▸ hc
        have hi2 : InvC l ((pre ++ [x]) ++ rest) := by
          rw [List.append_assoc]; exact hi
        obtain ⟨l', keep, e, hi', hm, sd⟩ := ih (pre ++ [x]) l fuel removed hi2 (by omega)
        refine ⟨l', x :: keep, ?_, ?_, ?_, sd⟩
        · simp only [hnx, e, List.length_cons, Res.ok.injEq, Prod.mk.injEq, true_and]
          omega
        · rw [List.append_assoc] at hi'; exact hi'
        · rw [List.map_cons, hm]
          simp only [List.filter_cons, hv, ne_eq, not_false_eq_true, decide_true, if_true]

/-! ### lRevRem (count > 0, walking from the tail) -/

theorem lrevRemLoop_spec (value : Bytes) (count : Int) (hcount : count ≠ 0) (rpre : List Nat) :
    ∀ (suf : List Nat) (l : PList) (fuel : Nat) (removed : Int) (k : Nat),
      InvC l (rpre.reverse ++ suf) → rpre.length ≤ fuel → k = (count - removed).toNat →
      ∃ (l' : PList) (keep : List Nat), lrevRemLoop fuel l (lst rpre.reverse none) count value removed =
          .ok (l', removed + ((DsList.removeFirst (rpre.map (dataAt l.heap)) value k).2 : Nat)) ∧
        InvC l' (keep.reverse ++ suf) ∧
        keep.map (dataAt l.heap) = (DsList.removeFirst (rpre.map (dataAt l.heap)) value k).1 ∧
        SameData l l' := by
  induction rpre with
  | nil =>
    intro suf l fuel removed k hi _ _
    refine ⟨l, [], ?_, hi, ?_, SameData.refl l⟩
    · simp [lrevRemLoop, removeFirst_nil]
    · simp [removeFirst_nil]
  | cons x r ih =>
    intro suf l fuel removed k hi hf hk
    rw [List.reverse_cons, List.append_assoc, List.singleton_append] at hi
    obtain ⟨n, hx, hpv, _, hdat⟩ := node_at l r.reverse suf x hi
    cases fuel with
    | zero => simp at hf
    | succ fuel =>
      simp only [List.length_cons] at hf
      simp only [List.reverse_cons, lst_concat, lrevRemLoop, rd_ok hx, Res.bind_ok, List.map_cons]
      by_cases hc : n.data = value ∧ (count = 0 ∨ removed < count)
      · rw [if_pos hc]
        obtain ⟨k', rfl⟩ : ∃ k', k = k' + 1 := ⟨k - 1, by omega⟩
        obtain ⟨l1, e1, hi1, hx1, sd1⟩ := unlinkRev_spec l r.reverse suf x hi
        rw [hx] at hx1
        obtain ⟨l', keep, e, hi', hm, sd⟩ :=
          ih suf l1 fuel (removed + 1) k' hi1 (by omega) (by omega)
        rw [sd1.dataAt_eq] at e hm
        refine ⟨l', keep, ?_, hi', ?_, sd1.trans sd⟩
        · simp only [e1, Res.bind_ok, rd_ok hx1, hpv, e]
          rw [removeFirst_cons_rem _ _ _ _ (hdat ▸ hc.1)]
          simp only [Int.natCast_add, Int.natCast_one, Res.ok.injEq, Prod.mk.injEq, true_and]
          omega
        · rw [removeFirst_cons_rem _ _ _ _ (hdat ▸ hc.1)]
          exact hm
      · rw [if_neg hc]
        have hkeep : dataAt l.heap x ≠ value ∨ k = 0 := by
          rw [← hdat]
          by_cases hv : n.data = value
          · right
            have : ¬ (count = 0 ∨ removed < count) := fun h => hc ⟨hv, h⟩
            omega
          · left; exact hv
        obtain ⟨l', keep, e, hi', hm, sd⟩ :=
          ih (x :: suf) l fuel removed k hi (by omega) hk
        refine ⟨l', x :: keep, ?_, ?_, ?_, sd⟩
        · simp only [hpv, e]
          rw [removeFirst_cons_keep _ _ _ _ hkeep]
        · rw [List.reverse_cons, List.append_assoc, List.singleton_append]; exact hi'
        · rw [removeFirst_cons_keep _ _ _ _ hkeep, List.map_cons, hm]

/-! ### `DsList.lrem`, case by case -/

theorem dslrem_pos (L : LList) (count : Int) (v : Bytes) (h : count > 0) :
    DsList.lrem L count v =
      (({ items := (DsList.removeFirst L.items v count.toNat).1,
          length := L.length - ((DsList.removeFirst L.items v count.toNat).2 : Nat) } : LList),
       (((DsList.removeFirst L.items v count.toNat).2 : Nat) : Int)) := by
  unfold DsList.lrem
  rw [if_pos h]

theorem dslrem_neg (L : LList) (count : Int) (v : Bytes) (h : count < 0) :
    DsList.lrem L count v =
      (({ items := (DsList.removeFirst L.items.reverse v (-count).toNat).1.reverse,
          length := L.length - ((DsList.removeFirst L.items.reverse v (-count).toNat).2 : Nat) } : LList),
       (((DsList.removeFirst L.items.reverse v (-count).toNat).2 : Nat) : Int)) := by
  unfold DsList.lrem
  rw [if_neg (by omega), if_pos h]

theorem dslrem_zero (L : LList) (v : Bytes) :
    DsList.lrem L 0 v =
      (({ items := L.items.filter (· ≠ v),
          length := L.length - ((L.items.length - (L.items.filter (· ≠ v)).length : Nat) : Int) } : LList),
       ((L.items.length - (L.items.filter (· ≠ v)).length : Nat) : Int)) := by
  unfold DsList.lrem
  rw [if_neg (by omega), if_neg (by omega)]

/-- what is left represents `ys` -/
theorem absL_of (l l' : PList) (c keep : List Nat) (ys : List Bytes) (r : Int)
    (hi : InvC l c) (hi' : InvC l' keep) (sd : SameData l l')
    (hm : keep.map (dataAt l.heap) = ys) (hr : (ys.length : Int) + r = c.length) :
    absL l' = { items := ys, length := l.length - r } := by
  have hlen : keep.length = ys.length := by rw [← hm, List.length_map]
  unfold absL
  rw [abs_eq hi', sd.dataAt_eq, hm, hi'.length, hi.length]
  congr 1
  omega

/-! ### the three walks from their entry points -/

theorem lremFwd_spec (l : PList) (c : List Nat) (hi : InvC l c) (count : Int) (value : Bytes)
    (hc : count > 0) :
    ∃ l' c', lremFwd l count value =
        .ok (l', ((DsList.removeFirst (abs l) value count.toNat).2 : Nat)) ∧ InvC l' c' ∧
      absL l' = { items := (DsList.removeFirst (abs l) value count.toNat).1,
                  length := l.length - ((DsList.removeFirst (abs l) value count.toNat).2 : Nat) } ∧
      l'.heap.size = l.heap.size := by
  have hle := hi.length_le
  obtain ⟨l', keep, e, hi', hm, sd⟩ :=
    lremLoop_spec value count c [] l (l.heap.size + 1) 0 count.toNat (by simpa using hi) (by omega)
      (Or.inr ⟨by omega, by omega⟩)
  rw [List.nil_append] at hi'
  rw [← abs_eq hi] at e hm
  refine ⟨l', keep, ?_, hi', ?_, sd.size⟩
  · unfold lremFwd
    rw [hi.head, ← hd_none, e, Int.zero_add]
  · apply absL_of l l' c keep _ _ hi hi' sd hm
    have := removeFirst_len (abs l) value count.toNat
    rw [abs_eq hi, List.length_map] at this
    rw [abs_eq hi]
    omega

theorem lremAll_spec (l : PList) (c : List Nat) (hi : InvC l c) (value : Bytes) :
    ∃ l' c', lremAll l value =
        .ok (l', (((abs l).length - ((abs l).filter (· ≠ value)).length : Nat) : Int)) ∧ InvC l' c' ∧
      absL l' = { items := (abs l).filter (· ≠ value),
                  length := l.length -
                    (((abs l).length - ((abs l).filter (· ≠ value)).length : Nat) : Int) } ∧
      l'.heap.size = l.heap.size := by
  have hle := hi.length_le
  obtain ⟨l', keep, e, hi', hm, sd⟩ :=
    lremAllLoop_spec value c [] l (l.heap.size + 1) 0 (by simpa using hi) (by omega)
  rw [List.nil_append] at hi'
  rw [← abs_eq hi] at hm
  have hlen : keep.length = ((abs l).filter (· ≠ value)).length := by rw [← hm, List.length_map]
  have hfl : ((abs l).filter (· ≠ value)).length ≤ (abs l).length := List.length_filter_le _ _
  have hal : (abs l).length = c.length := by rw [abs_eq hi, List.length_map]
  refine ⟨l', keep, ?_, hi', ?_, sd.size⟩
  · unfold lremAll
    rw [hi.head, ← hd_none, e]
    simp only [Res.ok.injEq, Prod.mk.injEq, true_and]
    omega
  · apply absL_of l l' c keep _ _ hi hi' sd hm
    omega

theorem lrevRem_spec (l : PList) (c : List Nat) (hi : InvC l c) (count : Int) (value : Bytes)
    (hc : count > 0) :
    ∃ l' c', lrevRem l count value =
        .ok (l', ((DsList.removeFirst (abs l).reverse value count.toNat).2 : Nat)) ∧ InvC l' c' ∧
      absL l' = { items := (DsList.removeFirst (abs l).reverse value count.toNat).1.reverse,
                  length := l.length -
                    ((DsList.removeFirst (abs l).reverse value count.toNat).2 : Nat) } ∧
      l'.heap.size = l.heap.size := by
  have hle := hi.length_le
  obtain ⟨l', keep, e, hi', hm, sd⟩ :=
    lrevRemLoop_spec value count (by omega) c.reverse [] l (l.heap.size + 1) 0 count.toNat
      (by simpa using hi) (by simp only [List.length_reverse]; omega) (by omega)
  rw [List.append_nil] at hi'
  rw [List.reverse_reverse] at e
  rw [List.map_reverse, ← abs_eq hi] at e hm
  refine ⟨l', keep.reverse, ?_, hi', ?_, sd.size⟩
  · unfold lrevRem
    rw [hi.tail, ← lst_none, e, Int.zero_add]
  · apply absL_of l l' c keep.reverse _ _ hi hi' sd (by rw [List.map_reverse, hm])
    have := removeFirst_len (abs l).reverse value count.toNat
    rw [List.length_reverse] at this ⊢
    rw [abs_eq hi, List.length_map] at this
    rw [abs_eq hi]
    omega

/-! ### LRem -/

/-- the pointer-level LRem refines `DsList.lrem`.  `hmin`: Go treats `count == math.MinInt64` as "remove
    all" (because `-count` overflows), `DsList.lrem` removes up to 2^63 occurrences from the tail; the two
    agree for a list of at most 2^63 elements. -/
theorem lrem_refines (l : PList) (c : List Nat) (hi : InvC l c) (count : Int) (value : Bytes)
    (hmin : count = minInt64 → (c.length : Int) ≤ 9223372036854775808) :
    ∃ l' c', lrem l count value = .ok (l', (DsList.lrem (absL l) count value).2) ∧ InvC l' c' ∧
      absL l' = (DsList.lrem (absL l) count value).1 ∧ l'.heap.size = l.heap.size := by
  by_cases hpos : count > 0
  · obtain ⟨l', c', e, hi', ha, hs⟩ := lremFwd_spec l c hi count value hpos
    refine ⟨l', c', ?_, hi', ?_, hs⟩
    · unfold lrem
      rw [if_pos hpos, e, dslrem_pos _ _ _ hpos]
      rfl
    · rw [ha, dslrem_pos _ _ _ hpos]
      rfl
  · by_cases hneg : count < 0
    · by_cases hm : count = minInt64
      · obtain ⟨l', c', e, hi', ha, hs⟩ := lremAll_spec l c hi value
        have hal : (abs l).length = c.length := by rw [abs_eq hi, List.length_map]
        have hk : (abs l).reverse.length ≤ (-count).toNat := by
          have := hmin hm
          rw [List.length_reverse, hal, hm]
          unfold minInt64
          omega
        have hrf := removeFirst_all (abs l).reverse value (-count).toNat hk
        rw [List.filter_reverse, List.length_reverse, List.length_reverse] at hrf
        refine ⟨l', c', ?_, hi', ?_, hs⟩
        · unfold lrem
          rw [if_neg hpos, if_pos hneg, if_pos hm, e, dslrem_neg _ _ _ hneg]
          show _ = Res.ok (l', (((DsList.removeFirst (abs l).reverse value (-count).toNat).2 : Nat) : Int))
          rw [hrf]
        · rw [ha, dslrem_neg _ _ _ hneg]
          show _ = ({ items := (DsList.removeFirst (abs l).reverse value (-count).toNat).1.reverse,
                      length := l.length -
                        ((DsList.removeFirst (abs l).reverse value (-count).toNat).2 : Nat) } : LList)
          rw [hrf, List.reverse_reverse]
      · obtain ⟨l', c', e, hi', ha, hs⟩ := lrevRem_spec l c hi (-count) value (by omega)
        refine ⟨l', c', ?_, hi', ?_, hs⟩
        · unfold lrem
          rw [if_neg hpos, if_pos hneg, if_neg hm, e, dslrem_neg _ _ _ hneg]
          rfl
        · rw [ha, dslrem_neg _ _ _ hneg]
          rfl
    · have h0 : count = 0 := by omega
      subst h0
      obtain ⟨l', c', e, hi', ha, hs⟩ := lremAll_spec l c hi value
      refine ⟨l', c', ?_, hi', ?_, hs⟩
      · unfold lrem
        rw [if_neg hpos, if_neg hneg, e, dslrem_zero]
        rfl
      · rw [ha, dslrem_zero]
        rfl

end NodisVerif.LinkedList
