import NodisVerif.Proofs.ProtoOrder
import NodisVerif.Proofs.LinSplit
/-
  Instantiation of the generic linearizability theorem (Proofs/LinCore, LinSplit) with the locking
  protocol `Model/Proto.lean`.

    `HoldsCur s k t r m`   in state s transaction t holds, validated, in mode m, the record r that is
                           registered under key k right now
    `Releases t k r e`     e is `unlock t r`, `unlink t k r` or `drop t k r`: t gives the lock back or
                           takes the record out of the registrations itself

  `HoldsCur` starts with `valid t k r true` / `claim t k r m`, lasts until the first `Releases` event
  (no FLUSH in between), and two transactions have it for one key at the same time only if both are
  readers: the intervals during which commands work on the current record of a key obey the lock
  discipline of `LinCore`.
-/
namespace NodisVerif.Proofs.Proto
open NodisVerif.Proto

def HoldsCur (s : PState) (k : Key) (t : Tx) (r : Rec) (m : Mode) : Prop :=
  ∃ st h, s.tx t = some st ∧ h ∈ st.holds ∧ h.valid = true ∧ h.rid = r ∧ h.mode = m ∧ s.lookup k = some r

def Releases (t : Tx) (k : Key) (r : Rec) (e : Ev) : Prop :=
  e = .unlock t r ∨ e = .unlink t k r ∨ e = .drop t k r

/-! ## it starts at the validation -/

theorem holdsCur_of_valid {s s' : PState} {t : Tx} {k : Key} {r : Rec}
    (hs : step s (.valid t k r true) = some s') : ∃ m, HoldsCur s' k t r m := by
  obtain ⟨st, g, htx, hof, _, _, ⟨c, _⟩ | ⟨_, hl, rfl⟩⟩ := step_valid.1 hs
  · cases c
  · exact ⟨g.mode, _, _, tx_setTx_same _ _ _, mem_setHold.2 (Or.inl rfl), rfl, (holdOf_some hof).2, rfl, hl⟩

/-- the mode is the one the lock was taken in -/
theorem holdsCur_of_valid_mode {s s' : PState} {t : Tx} {k : Key} {r : Rec} {st : TxSt} {g : Hold}
    (hs : step s (.valid t k r true) = some s') (htx : s.tx t = some st) (hg : st.holdOf r = some g) :
    HoldsCur s' k t r g.mode := by
  obtain ⟨st1, g1, htx1, hof, _, _, ⟨c, _⟩ | ⟨_, hl, rfl⟩⟩ := step_valid.1 hs
  · cases c
  · rw [htx] at htx1; cases htx1; rw [hg] at hof; cases hof
    exact ⟨_, _, tx_setTx_same _ _ _, mem_setHold.2 (Or.inl rfl), rfl, (holdOf_some hg).2, rfl, hl⟩

theorem holdsCur_of_claim {s s' : PState} {t : Tx} {k : Key} {r : Rec} {m : Mode}
    (hs : step s (.claim t k r m) = some s') : HoldsCur s' k t r m := by
  obtain ⟨st, _, _, _, hl, _, rfl⟩ := step_claim.1 hs
  refine ⟨_, _, tx_setTx_same _ _ _, mem_setHold.2 (Or.inl rfl), rfl, rfl, rfl, ?_⟩
  rw [setTx_lookup]
  unfold PState.lookup
  simp [(lookup_none hl).1, assoc_put]

/-! ## it lasts until the release -/

/-- a validated hold is only removed by `unlock` of its record (whatever the phase of the transaction) -/
theorem valid_hold_step {s s' : PState} {e : Ev} {t : Tx} {st : TxSt} {h : Hold} (hi : Inv s)
    (htx : s.tx t = some st) (hh : h ∈ st.holds) (hv : h.valid = true) (hs : step s e = some s')
    (hne : e ≠ .unlock t h.rid) : ∃ st', s'.tx t = some st' ∧ h ∈ st'.holds := by
  by_cases he : evTx e = some t
  · cases e with
    | begin u =>
      simp only [evTx, Option.some.injEq] at he; subst he
      obtain ⟨h1, _⟩ := step_begin.1 hs
      rw [htx] at h1; cases h1
    | look u k r' =>
      obtain ⟨_, _, _, _, _, rfl⟩ := step_look.1 hs
      exact ⟨st, htx, hh⟩
    | claim u k r' m =>
      simp only [evTx, Option.some.injEq] at he; subst he
      obtain ⟨st1, h1, _, _, _, hf, rfl⟩ := step_claim.1 hs
      rw [htx] at h1; cases h1
      have hne' : h.rid ≠ r' := by
        intro c
        have := hi.holdName u st h htx hh
        rw [c, hf] at this; cases this
      exact ⟨_, tx_setTx_same _ _ _, mem_setHold_of_ne hh hne'⟩
    | wait u k r' m =>
      simp only [evTx, Option.some.injEq] at he; subst he
      obtain ⟨st1, h1, _, _, _, _, _, rfl⟩ := step_wait.1 hs
      rw [htx] at h1; cases h1
      exact ⟨_, tx_setTx_same _ _ _, hh⟩
    | lock u k r' m =>
      simp only [evTx, Option.some.injEq] at he; subst he
      obtain ⟨st1, h1, hw, _, rfl⟩ := step_lock.1 hs
      rw [htx] at h1; cases h1
      have hne' : h.rid ≠ r' := holdOf_none.1 (hi.waitOk u st k r' m htx hw).2.2.2 h hh
      exact ⟨_, tx_setTx_same _ _ _, mem_setHold_of_ne (st := { st with waiting := none }) hh hne'⟩
    | valid u k r' ok =>
      simp only [evTx, Option.some.injEq] at he; subst he
      obtain ⟨st1, h0, h1, hof, hv0, _, ⟨_, rfl⟩ | ⟨_, _, rfl⟩⟩ := step_valid.1 hs
      · exact ⟨st, htx, hh⟩
      · rw [htx] at h1; cases h1
        obtain ⟨hm0, hr0⟩ := holdOf_some hof
        have hne' : h.rid ≠ r' := by
          intro c
          have := same_hold (hi.holdNodup u st htx) hh hm0 (c.trans hr0.symm)
          subst this; rw [hv] at hv0; cases hv0
        exact ⟨_, tx_setTx_same _ _ _, mem_setHold_of_ne hh (by rw [hr0]; exact hne')⟩
    | publish u k r' =>
      obtain ⟨_, _, _, _, _, _, _, _, _, _, rfl⟩ := step_publish.1 hs
      exact ⟨st, htx, hh⟩
    | unlink u k r' =>
      obtain ⟨_, _, _, _, _, _, _, _, _, rfl⟩ := step_unlink.1 hs
      exact ⟨st, htx, hh⟩
    | commit u =>
      simp only [evTx, Option.some.injEq] at he; subst he
      obtain ⟨st1, h1, _, _, _, rfl⟩ := step_commit.1 hs
      rw [htx] at h1; cases h1
      exact ⟨_, tx_setTx_same _ _ _, hh⟩
    | trylock u k r' =>
      simp only [evTx, Option.some.injEq] at he; subst he
      obtain ⟨st1, h1, _, _, hf, rfl⟩ := step_trylock.1 hs
      rw [htx] at h1; cases h1
      have hne' : h.rid ≠ r' := free_w_holds hf ⟨st, htx, hh⟩
      exact ⟨_, tx_setTx_same _ _ _, mem_setHold_of_ne hh hne'⟩
    | drop u k r' =>
      obtain ⟨_, _, _, _, _, _, _, _, rfl⟩ := step_drop.1 hs
      exact ⟨st, htx, hh⟩
    | unlock u r' =>
      simp only [evTx, Option.some.injEq] at he; subst he
      obtain ⟨st1, h0, h1, hof, _, rfl⟩ := step_unlock.1 hs
      rw [htx] at h1; cases h1
      have hne' : h.rid ≠ r' := by intro c; subst c; exact hne rfl
      exact ⟨_, tx_setTx_same _ _ _, mem_delHold.2 ⟨hh, hne'⟩⟩
    | fin u =>
      simp only [evTx, Option.some.injEq] at he; subst he
      obtain ⟨st1, h1, hemp, _⟩ := step_fin.1 hs
      rw [htx] at h1; cases h1
      rw [hemp] at hh; cases hh
    | clear => cases he
  · exact ⟨st, by rw [tx_step_other hs he]; exact htx, hh⟩

/-- one step that is neither a FLUSH nor a release by `t` keeps `HoldsCur` -/
theorem holdsCur_step {s s' : PState} {e : Ev} {k : Key} {t : Tx} {r : Rec} {m : Mode} (hi : Inv s)
    (hc : HoldsCur s k t r m) (hs : step s e = some s') (hcl : e ≠ .clear) (hrel : ¬ Releases t k r e) :
    HoldsCur s' k t r m := by
  obtain ⟨st, h, htx, hh, hv, hr, hm, hl⟩ := hc
  subst hr
  obtain ⟨st', htx', hh'⟩ := valid_hold_step hi htx hh hv hs (fun c => hrel (Or.inl c))
  refine ⟨st', h, htx', hh', hv, rfl, hm, ?_⟩
  cases hev : evTx e with
  | none => cases e <;> simp [evTx] at hev; exact absurd rfl hcl
  | some u =>
    by_cases hu : u = t
    · subst hu
      refine lookup_stable hi hs hl ?_ ?_ hcl
      · intro v c; subst c
        simp only [evTx, Option.some.injEq] at hev; subst hev
        exact hrel (Or.inr (Or.inl rfl))
      · intro v c; subst c
        simp only [evTx, Option.some.injEq] at hev; subst hev
        exact hrel (Or.inr (Or.inr rfl))
    · exact held_stays_registered hi htx hh hl hev hu hs

/-- … over any stretch of the trace -/
theorem holdsCur_run {s s' : PState} {es : List Ev} {k : Key} {t : Tx} {r : Rec} {m : Mode} (hi : Inv s)
    (hc : HoldsCur s k t r m) (hs : runAll s es = some s') (hcl : ∀ e ∈ es, e ≠ .clear)
    (hrel : ∀ e ∈ es, ¬ Releases t k r e) : HoldsCur s' k t r m := by
  induction es generalizing s with
  | nil => simp [runAll] at hs; subst hs; exact hc
  | cons e es ih =>
    obtain ⟨s1, h1, h2⟩ := runAll_cons_some hs
    exact ih (hi.step h1) (holdsCur_step hi hc h1 (hcl e List.mem_cons_self) (hrel e List.mem_cons_self)) h2
      (fun x hx => hcl x (List.mem_cons_of_mem _ hx)) (fun x hx => hrel x (List.mem_cons_of_mem _ hx))

/-! ## two of them at the same time: both readers, on the same record -/

theorem holdsCur_exclusive {s : PState} (hi : Inv s) {k : Key} {t u : Tx} {r r' : Rec} {m m' : Mode}
    (h1 : HoldsCur s k t r m) (h2 : HoldsCur s k u r' m') (hne : t ≠ u) : r = r' ∧ m = .r ∧ m' = .r := by
  obtain ⟨st, h, htx, hh, _, hr, hm, hl⟩ := h1
  obtain ⟨su, g, hux, hg, _, hr', hm', hl'⟩ := h2
  have e : r = r' := by rw [hl] at hl'; exact Option.some.inj hl'
  have e' : h.rid = g.rid := by rw [hr, hr', e]
  refine ⟨e, ?_, ?_⟩
  · rw [← hm]
    cases hmode : h.mode with
    | r => rfl
    | w => exact absurd (hi.compat t u st su h g htx hux hh hg e' (Or.inl hmode)) hne
  · rw [← hm']
    cases hmode : g.mode with
    | r => rfl
    | w => exact absurd (hi.compat t u st su h g htx hux hh hg e' (Or.inr hmode)) hne

/-- a transaction has it in one mode, on one record -/
theorem holdsCur_unique {s : PState} (hi : Inv s) {k : Key} {t : Tx} {r r' : Rec} {m m' : Mode}
    (h1 : HoldsCur s k t r m) (h2 : HoldsCur s k t r' m') : r = r' ∧ m = m' := by
  obtain ⟨st, h, htx, hh, _, hr, hm, hl⟩ := h1
  obtain ⟨su, g, hux, hg, _, hr', hm', hl'⟩ := h2
  rw [htx] at hux; cases hux
  have e : r = r' := by rw [hl] at hl'; exact Option.some.inj hl'
  have : h = g := same_hold (hi.holdNodup t st htx) hh hg (by rw [hr, hr', e])
  subst this
  exact ⟨e, hm.symm.trans hm'⟩

/-! ## positions in a trace -/

/-- position `p` (the state after the first `p` events) lies in an interval of `t` on the current
    record of `k`: `HoldsCur` was established after event number `a < p` (by `valid … true` / `claim`,
    see `holdsCur_of_valid`, `holdsCur_of_claim`) and `t` has not released since -/
def InInterval (es : List Ev) (k : Key) (t : Tx) (m : Mode) (p : Nat) : Prop :=
  ∃ a r sa, a < p ∧ runAll {} (es.take (a + 1)) = some sa ∧ HoldsCur sa k t r m ∧
    ∀ j e, a < j → j < p → es[j]? = some e → ¬ Releases t k r e

theorem take_split (es : List Ev) {a p : Nat} (hap : a + 1 ≤ p) :
    es.take p = es.take (a + 1) ++ (es.drop (a + 1)).take (p - (a + 1)) := by
  have : p = (a + 1) + (p - (a + 1)) := by omega
  conv => lhs; rw [this, List.take_add]

theorem inInterval_holdsCur {es : List Ev} {s : PState} (hs : runAll {} es = some s)
    (hcl : ∀ e ∈ es, e ≠ .clear) {k : Key} {t : Tx} {m : Mode} {p : Nat} (hp : p ≤ es.length)
    (h : InInterval es k t m p) : ∃ sp r, runAll {} (es.take p) = some sp ∧ HoldsCur sp k t r m := by
  obtain ⟨a, r, sa, hap, hsa, hc, hrel⟩ := h
  have hsplit := take_split es (a := a) (p := p) (by omega)
  have hrun : ∃ sp, runAll {} (es.take p) = some sp := by
    have : es = es.take p ++ es.drop p := (List.take_append_drop p es).symm
    rw [this] at hs
    obtain ⟨sp, h1, _⟩ := runAll_append_some hs
    exact ⟨sp, h1⟩
  obtain ⟨sp, hsp⟩ := hrun
  refine ⟨sp, r, hsp, ?_⟩
  rw [hsplit, runAll_append, hsa] at hsp
  simp only [Option.bind_some] at hsp
  refine holdsCur_run (Inv.init.run hsa) hc hsp ?_ ?_
  · intro e he
    exact hcl e ((List.take_subset _ _ |>.trans (List.drop_subset _ _)) he)
  · intro e he
    obtain ⟨j, hj, hje⟩ := List.mem_iff_getElem.1 he
    simp only [List.length_take, List.length_drop] at hj
    have h1 : es[a + 1 + j]? = some e := by
      rw [List.getElem_take, List.getElem_drop] at hje
      rw [List.getElem?_eq_getElem (by omega)]
      exact congrArg some hje
    exact hrel (a + 1 + j) e (by omega) (by omega) h1

/-- THEOREM (lock discipline of the protocol, per key). In a FLUSH-free trace of the protocol, if a
    position lies in an interval of `t` and in an interval of `u ≠ t` on the current record of the same
    key, both hold it as readers: the `acq … rel` intervals of two commands on one key overlap only
    if both are readers. -/
theorem key_intervals_disjoint {es : List Ev} {s : PState} (hs : runAll {} es = some s)
    (hcl : ∀ e ∈ es, e ≠ .clear) {k : Key} {t u : Tx} {m m' : Mode} {p : Nat} (hp : p ≤ es.length)
    (h1 : InInterval es k t m p) (h2 : InInterval es k u m' p) (hne : t ≠ u) : m = .r ∧ m' = .r := by
  obtain ⟨sp, r, hsp, hc⟩ := inInterval_holdsCur hs hcl hp h1
  obtain ⟨sp', r', hsp', hc'⟩ := inInterval_holdsCur hs hcl hp h2
  rw [hsp] at hsp'; cases hsp'
  exact (holdsCur_exclusive (Inv.init.run hsp) hc hc' hne).2

end NodisVerif.Proofs.Proto

/-! ## from the validation to the commit -/

namespace NodisVerif.Proofs.Proto
open NodisVerif.Proto

/-- before its commit a transaction drops nothing -/
theorem no_drop_before_commit {es : List Ev} {s : PState} (hs : runAll {} es = some s) {t : Tx} {k : Key}
    {r : Rec} {j c : Nat} (hjc : j < c) (hj : es[j]? = some (.drop t k r)) (hc : es[c]? = some (.commit t))
    (hnf : ∀ p, j < p → p < c → es[p]? ≠ some (.fin t)) : False := by
  obtain ⟨pre, mid, post, rfl, _, _, hmid, _, _⟩ := split_two hj hc hjc
  obtain ⟨s1, h1, h2⟩ := runAll_append_some hs
  obtain ⟨s2, h3, h4⟩ := runAll_cons_some h2
  obtain ⟨s3, h5, h6⟩ := runAll_append_some h4
  obtain ⟨s4, h7, _⟩ := runAll_cons_some h6
  obtain ⟨st, g, htx, _, hcm, _, _, _, rfl⟩ := step_drop.1 h3
  have hp2 : phase { s1 with pending := erase s1.pending k } t = some true := by
    show (PState.tx s1 t).map (·.committing) = some true
    rw [htx]; simp [hcm]
  have hp3 := phase_true_run h5 hp2 (by
    intro x hx c'; subst c'
    obtain ⟨p, h1, h2, h3⟩ := hmid _ hx
    exact hnf p h1 h2 h3)
  obtain ⟨st3, htx3, hc3, _⟩ := step_commit.1 h7
  rw [phase_of_tx htx3, hc3] at hp3
  cases hp3

/-- THEOREM. The interval of `t` on the current record of `k` reaches from the validation
    (`valid t k r true` or `claim t k r m` at position `a`) at least to the `commit t` of that run of the
    transaction (position `c`), unless `t` unlinks the record itself (DEL) before: every position in
    between lies in it. So a body that runs between the return of `acquire` and the commit runs inside
    the interval. -/
theorem interval_until_commit {es : List Ev} {s : PState} (hs : runAll {} es = some s) {t : Tx} {k : Key}
    {r : Rec} {a c : Nat} {v : Ev} (hv : es[a]? = some v)
    (hval : v = .valid t k r true ∨ ∃ m, v = .claim t k r m)
    (hc : es[c]? = some (.commit t))
    (hnf : ∀ p, a < p → p < c → es[p]? ≠ some (.fin t))
    (hnu : ∀ p, a < p → p < c → es[p]? ≠ some (.unlink t k r)) :
    ∃ m, ∀ p, a < p → p ≤ c → InInterval es k t m p := by
  have hVal : Validates t r v := by
    rcases hval with rfl | ⟨m, rfl⟩
    · exact Or.inl ⟨k, rfl⟩
    · exact Or.inr ⟨k, m, rfl⟩
  -- the state after position a
  obtain ⟨pre, post, rfl, hl⟩ := split_at hv
  have htake : (pre ++ v :: post).take (a + 1) = pre ++ [v] := by
    have : pre ++ v :: post = (pre ++ [v]) ++ post := by simp
    rw [this, take_of_split (by simp [hl])]
  obtain ⟨s1, h1, h2⟩ := runAll_append_some hs
  obtain ⟨sa, h3, _⟩ := runAll_cons_some h2
  have hsa : runAll {} ((pre ++ v :: post).take (a + 1)) = some sa := by
    rw [htake, runAll_append, h1]; simp [runAll, h3]
  obtain ⟨m, hcur⟩ : ∃ m, HoldsCur sa k t r m := by
    rcases hval with rfl | ⟨m, rfl⟩
    · exact holdsCur_of_valid h3
    · exact ⟨m, holdsCur_of_claim h3⟩
  refine ⟨m, fun p hap hpc => ⟨a, r, sa, hap, hsa, hcur, ?_⟩⟩
  intro j e haj hjp hje hrel
  rcases hrel with rfl | rfl | rfl
  · exact lock_point_positions hs haj (by omega) hv hVal hc hnf hje
  · exact hnu j haj (by omega) hje
  · exact no_drop_before_commit hs (show j < c by omega) hje hc (fun q h1 h2 => hnf q (by omega) h2)

end NodisVerif.Proofs.Proto

/-! ## commands on one key as operations of `LinCore` -/

namespace NodisVerif.LinProto
open NodisVerif.Proto NodisVerif.Proofs.Proto NodisVerif.Lin

section
variable {State Op Ret : Type} [DecidableEq Ret]

/-- every operation that is between its `acq` and its `rel` belongs to a transaction (same id) that
    holds the current record of `k`, validated — in write mode unless the operation is read-only -/
def Covered (O : Obj State Op Ret) (k : Key) (p : PState) (c : Lin.Cfg State Op Ret) : Prop :=
  ∀ t st, c.ops t = some st → st.locked = true →
    ∃ r m, HoldsCur p k t r m ∧ (O.readOnly st.op = false → m = .w)

variable {O : Obj State Op Ret} {k : Key}

/-- events other than `acq` do not look at the lock -/
theorem step_upgrade {c c' : Lin.Cfg State Op Ret} {e : Lin.Ev Op Ret}
    (hs : Lin.step O false c e = some c') (hne : ∀ i, e ≠ .acq i) : Lin.step O true c e = some c' := by
  cases e with
  | acq i => exact absurd rfl (hne i)
  | inv i o => exact hs
  | eff i => exact hs
  | rel i => exact hs
  | res i r => exact hs

/-- the protocol grants what the abstract lock discipline demands -/
theorem acq_guard {p : PState} (hi : Inv p) {c c' : Lin.Cfg State Op Ret} {t : Nat} (hl : LockInv O c)
    (hcov : Covered O k p c) (hcov' : Covered O k p c') (hs : Lin.step O false c (.acq t) = some c') :
    Lin.step O true c (.acq t) = some c' := by
  rcases step_shape hs with ⟨_, _, h, _⟩ | ⟨i, st, h, hst, hlk, hrep, _, rfl⟩ | ⟨_, _, h, _⟩ | ⟨_, _, h, _⟩ |
    ⟨_, _, _, h, _⟩ <;> cases h
  obtain ⟨r, m, hc, hm⟩ := hcov' t { st with locked := true } (upd_same _ _ _) rfl
  have others : ∀ u y, (u, y) ∈ c.holders → ∃ su r' m', c.ops u = some su ∧ y = !O.readOnly su.op ∧
      HoldsCur p k u r' m' ∧ (O.readOnly su.op = false → m' = .w) ∧ u ≠ t := by
    intro u y hu
    obtain ⟨su, h1, h2, h3⟩ := (hl.mem u y).1 hu
    obtain ⟨r', m', h4, h5⟩ := hcov u su h1 h2
    refine ⟨su, r', m', h1, h3, h4, h5, ?_⟩
    intro e; subst e; rw [hst] at h1; cases h1; rw [hlk] at h2; cases h2
  have hfree : lockFree c.holders (!O.readOnly st.op) = true := by
    cases hro : O.readOnly st.op with
    | false =>
      simp only [lockFree, Bool.not_false, if_true, List.isEmpty_iff]
      cases hh : c.holders with
      | nil => rfl
      | cons q l =>
        obtain ⟨su, r', m', _, _, h4, _, hne⟩ := others q.1 q.2 (by rw [hh]; exact List.mem_cons_self)
        have := (holdsCur_exclusive hi hc h4 (fun e => hne e.symm)).2.1
        rw [hm hro] at this; cases this
    | true =>
      simp only [lockFree, Bool.not_true, Bool.false_eq_true, if_false, List.all_eq_true]
      intro q hq
      obtain ⟨su, r', m', _, h3, h4, h5, hne⟩ := others q.1 q.2 hq
      cases hy : q.2 with
      | false => rfl
      | true =>
        rw [hy] at h3
        have hro' : O.readOnly su.op = false := by
          cases h : O.readOnly su.op with
          | false => rfl
          | true => rw [h] at h3; cases h3
        have := (holdsCur_exclusive hi hc h4 (fun e => hne e.symm)).2.2
        rw [h5 hro'] at this; cases this
  simp only [Lin.step, hst, hlk, hrep, hfree]
  rfl

/-- the operations between `acq` and `rel` after an event: those before it, plus the one that acquired -/
theorem locked_after {chk : Bool} {c c' : Lin.Cfg State Op Ret} {e : Lin.Ev Op Ret}
    (hs : Lin.step O chk c e = some c') {t : Nat} {st' : OpSt Op Ret} (h1 : c'.ops t = some st')
    (h2 : st'.locked = true) :
    (∃ st, c.ops t = some st ∧ st.locked = true ∧ st.op = st'.op) ∨
    (e = .acq t ∧ ∃ st, c.ops t = some st ∧ st.op = st'.op) := by
  rcases step_shape hs with ⟨i, o, rfl, hn, rfl⟩ | ⟨i, st, rfl, hst, _, _, _, rfl⟩ |
    ⟨i, st, rfl, hst, hl, _, rfl⟩ | ⟨i, st, rfl, hst, _, rfl⟩ | ⟨i, r, st, rfl, hst, hl, _, _, rfl⟩
  all_goals
    change upd c.ops i _ t = some st' at h1
    by_cases e : t = i
    · subst e; rw [upd_same] at h1; cases h1
      first
        | (cases h2; done)
        | exact Or.inr ⟨rfl, _, hst, rfl⟩
        | exact Or.inl ⟨_, hst, h2, rfl⟩
    · rw [upd_ne _ _ e] at h1; exact Or.inl ⟨st', h1, h2, rfl⟩

/-- An interleaving of steps of the protocol (`inl`) and of events of operations on key `k` (`inr`,
    operation id = transaction id), placed as the implementation places them:
    * the protocol steps form a trace of the protocol, without FLUSH;
    * `acq t` comes when `t` holds, validated, the record registered under `k` (after `acquire` has
      returned), in write mode unless the operation is read-only;
    * `t` does not release that record (`unlock`, `unlink`, `drop`) before its `rel t`;
    * apart from the lock checks, the events of the operations are those of `LinCore`
      (`inv`, then `eff` between `acq` and `rel`, then `res` with the result of `eff`). -/
def Placed (O : Obj State Op Ret) (k : Key) :
    PState → Lin.Cfg State Op Ret → List (Proto.Ev ⊕ Lin.Ev Op Ret) → Prop
  | _, _, [] => True
  | p, c, .inl e :: ms => ∃ p', Proto.step p e = some p' ∧ e ≠ .clear ∧
      (∀ t st r m, c.ops t = some st → st.locked = true → HoldsCur p k t r m → ¬ Releases t k r e) ∧
      Placed O k p' c ms
  | p, c, .inr x :: ms => ∃ c', Lin.step O false c x = some c' ∧
      (∀ t st, x = .acq t → c.ops t = some st →
        ∃ r m, HoldsCur p k t r m ∧ (O.readOnly st.op = false → m = .w)) ∧
      Placed O k p c' ms

/-- the events of the operations -/
def opEvents (ms : List (Proto.Ev ⊕ Lin.Ev Op Ret)) : List (Lin.Ev Op Ret) :=
  ms.filterMap fun x => match x with | .inr e => some e | .inl _ => none

/-- the steps of the protocol -/
def protoEvents (ms : List (Proto.Ev ⊕ Lin.Ev Op Ret)) : List Proto.Ev :=
  ms.filterMap fun x => match x with | .inl e => some e | .inr _ => none

theorem placed_runs {p : PState} {c : Lin.Cfg State Op Ret} {ms : List (Proto.Ev ⊕ Lin.Ev Op Ret)}
    (hi : Inv p) (hl : LockInv O c) (hcov : Covered O k p c) (h : Placed O k p c ms) :
    ∃ c', Lin.run O true c (opEvents ms) = some c' := by
  induction ms generalizing p c with
  | nil => exact ⟨c, rfl⟩
  | cons x ms ih =>
    cases x with
    | inl e =>
      obtain ⟨p', hs, hcl, hrel, hrest⟩ := h
      refine ih (hi.step hs) hl ?_ hrest
      intro t st h1 h2
      obtain ⟨r, m, h3, h4⟩ := hcov t st h1 h2
      exact ⟨r, m, holdsCur_step hi h3 hs hcl (hrel t st r m h1 h2 h3), h4⟩
    | inr e =>
      obtain ⟨c', hs, hacq, hrest⟩ := h
      have hcov' : Covered O k p c' := by
        intro t st' h1 h2
        rcases locked_after hs h1 h2 with ⟨st, h3, h4, h5⟩ | ⟨rfl, st, h3, h5⟩
        · rw [← h5]; exact hcov t st h3 h4
        · rw [← h5]; exact hacq t st rfl h3
      have hs' : Lin.step O true c e = some c' := by
        by_cases ha : ∃ t, e = .acq t
        · obtain ⟨t, rfl⟩ := ha
          exact acq_guard hi hl hcov hcov' hs
        · exact step_upgrade hs (fun i h => ha ⟨i, h⟩)
      obtain ⟨c'', hr⟩ := ih hi (hl.step hs') hcov' hrest
      exact ⟨c'', by simp [opEvents, Lin.run, hs']; exact hr⟩

theorem placed_proto_runs {p : PState} {c : Lin.Cfg State Op Ret} {ms : List (Proto.Ev ⊕ Lin.Ev Op Ret)}
    (h : Placed O k p c ms) : (∃ p', runAll p (protoEvents ms) = some p') ∧ ∀ e ∈ protoEvents ms, e ≠ .clear := by
  induction ms generalizing p c with
  | nil => exact ⟨⟨p, rfl⟩, by intro e h; cases h⟩
  | cons x ms ih =>
    cases x with
    | inl e =>
      obtain ⟨p', hs, hcl, _, hrest⟩ := h
      obtain ⟨⟨p'', h1⟩, h2⟩ := ih hrest
      refine ⟨⟨p'', by simp [protoEvents, runAll_cons, hs]; exact h1⟩, ?_⟩
      intro e' he'
      simp only [protoEvents, List.filterMap_cons, List.mem_cons] at he'
      rcases he' with rfl | he'
      · exact hcl
      · exact h2 e' he'
    | inr e =>
      obtain ⟨c', _, _, hrest⟩ := h
      simpa [protoEvents] using ih hrest

end
end NodisVerif.LinProto

namespace NodisVerif.LinProto
open NodisVerif.Proto NodisVerif.Proofs.Proto NodisVerif.Lin

section
variable {State Op Ret : Type} [DecidableEq Ret] {O : Obj State Op Ret} {k : Key}

omit [DecidableEq Ret] in
theorem covered_init (σ0 : State) (p : PState) : Covered O k p ({ σ := σ0 } : Lin.Cfg State Op Ret) := by
  intro t st h; cases h

/-- THEOREM (A + B, atomic bodies). For every interleaving of a FLUSH-free trace of the protocol with
    the events of operations on key `k` placed as in `Placed` — each body anywhere between the moment
    its transaction has validated the current record of `k` and the moment it releases it — the
    operations' execution is well-formed (all lock checks of `LinCore` pass) and its history is
    linearizable with respect to ANY sequential specification `O`. -/
theorem placed_linearizable (O : Obj State Op Ret) (σ0 : State) (k : Key)
    (ms : List (Proto.Ev ⊕ Lin.Ev Op Ret)) (h : Placed O k {} { σ := σ0 } ms) :
    WF O σ0 (opEvents ms) ∧ Linearizable O σ0 (Lin.hist (opEvents ms)) := by
  obtain ⟨c', hr⟩ := placed_runs Inv.init (LockInv.init σ0) (covered_init σ0 {}) h
  have hwf : WF O σ0 (opEvents ms) := by unfold WF; rw [hr]; rfl
  exact ⟨hwf, wf_linearizable O σ0 _ hwf⟩

/-! ## the same with bodies that read and write back at different moments (`LinSplit`) -/

/-- what a step of `LinSplit` does to the core configuration -/
theorem split_core_step {chk : Bool} {c c' : Split.Cfg State Op Ret} {e : Split.Ev Op Ret}
    (hs : Split.step O chk c e = some c') :
    (c'.core = c.core ∧ ∀ t, e ≠ .acq t) ∨
    (∃ (c0 : Lin.Cfg State Op Ret) (x : Lin.Ev Op Ret), c0.ops = c.core.ops ∧
      Lin.step O chk c0 x = some c'.core ∧ (∀ t, x = .acq t → e = .acq t) ∧ (∀ t, e = .acq t → c0 = c.core)) := by
  cases e with
  | inv i o =>
    simp only [Split.step, Option.map_eq_some_iff] at hs
    obtain ⟨k', hk, rfl⟩ := hs
    exact Or.inr ⟨c.core, _, rfl, hk, nofun, fun _ _ => rfl⟩
  | acq i =>
    simp only [Split.step, Option.map_eq_some_iff] at hs
    obtain ⟨k', hk, rfl⟩ := hs
    exact Or.inr ⟨c.core, _, rfl, hk, fun t h => by cases h; rfl, fun _ _ => rfl⟩
  | res i r =>
    simp only [Split.step, Option.map_eq_some_iff] at hs
    obtain ⟨k', hk, rfl⟩ := hs
    exact Or.inr ⟨c.core, _, rfl, hk, nofun, fun _ _ => rfl⟩
  | rel i =>
    simp only [Split.step, Option.map_eq_some_iff] at hs
    obtain ⟨k', hk, rfl⟩ := hs
    exact Or.inr ⟨c.core, _, rfl, hk, nofun, fun _ _ => rfl⟩
  | rd i =>
    simp only [Split.step] at hs
    split at hs
    · cases hs
    · split at hs
      · cases hs
      · cases hs; exact Or.inl ⟨rfl, nofun⟩
  | wr i =>
    simp only [Split.step] at hs
    split at hs
    · cases hs
    · rename_i v _
      simp only [Option.map_eq_some_iff] at hs
      obtain ⟨k', hk, rfl⟩ := hs
      exact Or.inr ⟨{ c.core with σ := v }, _, rfl, hk, nofun, nofun⟩

/-- the interleavings of `Placed`, with `rd` / `wr` instead of `eff` -/
def PlacedSplit (O : Obj State Op Ret) (k : Key) :
    PState → Split.Cfg State Op Ret → List (Proto.Ev ⊕ Split.Ev Op Ret) → Prop
  | _, _, [] => True
  | p, c, .inl e :: ms => ∃ p', Proto.step p e = some p' ∧ e ≠ .clear ∧
      (∀ t st r m, c.core.ops t = some st → st.locked = true → HoldsCur p k t r m → ¬ Releases t k r e) ∧
      PlacedSplit O k p' c ms
  | p, c, .inr x :: ms => ∃ c', Split.step O false c x = some c' ∧
      (∀ t st, x = .acq t → c.core.ops t = some st →
        ∃ r m, HoldsCur p k t r m ∧ (O.readOnly st.op = false → m = .w)) ∧
      PlacedSplit O k p c' ms

def opEventsSplit (ms : List (Proto.Ev ⊕ Split.Ev Op Ret)) : List (Split.Ev Op Ret) :=
  ms.filterMap fun x => match x with | .inr e => some e | .inl _ => none

theorem placedSplit_runs {p : PState} {c : Split.Cfg State Op Ret} {ms : List (Proto.Ev ⊕ Split.Ev Op Ret)}
    (hi : Inv p) (hl : LockInv O c.core) (hsn : Split.SnapInv c) (hcov : Covered O k p c.core)
    (h : PlacedSplit O k p c ms) : ∃ c', Split.run O true c (opEventsSplit ms) = some c' := by
  induction ms generalizing p c with
  | nil => exact ⟨c, rfl⟩
  | cons x ms ih =>
    cases x with
    | inl e =>
      obtain ⟨p', hs, hcl, hrel, hrest⟩ := h
      refine ih (hi.step hs) hl hsn ?_ hrest
      intro t st h1 h2
      obtain ⟨r, m, h3, h4⟩ := hcov t st h1 h2
      exact ⟨r, m, holdsCur_step hi h3 hs hcl (hrel t st r m h1 h2 h3), h4⟩
    | inr e =>
      obtain ⟨c', hs, hacq, hrest⟩ := h
      have hcov' : Covered O k p c'.core := by
        intro t st' h1 h2
        rcases split_core_step hs with ⟨h0, _⟩ | ⟨c0, x, hops, hs0, hx, _⟩
        · rw [h0] at h1; exact hcov t st' h1 h2
        · rcases locked_after hs0 h1 h2 with ⟨st, h3, h4, h5⟩ | ⟨rfl, st, h3, h5⟩
          · rw [hops] at h3; rw [← h5]; exact hcov t st h3 h4
          · rw [hops] at h3; rw [← h5]; exact hacq t st (hx t rfl) h3
      have hs' : Split.step O true c e = some c' := by
        by_cases ha : ∃ t, e = .acq t
        · obtain ⟨t, rfl⟩ := ha
          simp only [Split.step, Option.map_eq_some_iff] at hs ⊢
          obtain ⟨k', hk, rfl⟩ := hs
          exact ⟨k', acq_guard hi hl hcov hcov' hk, rfl⟩
        · cases e with
          | acq i => exact absurd ⟨i, rfl⟩ ha
          | inv i o => exact hs
          | rd i => exact hs
          | wr i => exact hs
          | rel i => exact hs
          | res i r => exact hs
      obtain ⟨hsim, hsn'⟩ := Split.step_sim hl hsn hs'
      have hl' : LockInv O c'.core := by
        cases e with
        | rd i => simp only [Split.atomize, Lin.run, Option.some.injEq] at hsim; rw [← hsim]; exact hl
        | inv i o =>
          simp only [Split.atomize, Lin.run] at hsim
          cases h1 : Lin.step O true c.core (.inv i o) with
          | none => simp [h1] at hsim
          | some k1 => simp [h1] at hsim; rw [← hsim]; exact hl.step h1
        | acq i =>
          simp only [Split.atomize, Lin.run] at hsim
          cases h1 : Lin.step O true c.core (.acq i) with
          | none => simp [h1] at hsim
          | some k1 => simp [h1] at hsim; rw [← hsim]; exact hl.step h1
        | wr i =>
          simp only [Split.atomize, Lin.run] at hsim
          cases h1 : Lin.step O true c.core (.eff i) with
          | none => simp [h1] at hsim
          | some k1 => simp [h1] at hsim; rw [← hsim]; exact hl.step h1
        | rel i =>
          simp only [Split.atomize, Lin.run] at hsim
          cases h1 : Lin.step O true c.core (.rel i) with
          | none => simp [h1] at hsim
          | some k1 => simp [h1] at hsim; rw [← hsim]; exact hl.step h1
        | res i r =>
          simp only [Split.atomize, Lin.run] at hsim
          cases h1 : Lin.step O true c.core (.res i r) with
          | none => simp [h1] at hsim
          | some k1 => simp [h1] at hsim; rw [← hsim]; exact hl.step h1
      obtain ⟨c'', hr⟩ := ih hi hl' hsn' hcov' hrest
      exact ⟨c'', by simp [opEventsSplit, Split.run, hs']; exact hr⟩

/-- THEOREM (A + B, bodies in two steps). The same for commands whose body reads the value at one
    moment and writes the new value back at a later one, both between `acq` and `rel`: here the lock
    checks that the protocol discharges are what makes the history linearizable
    (`Examples.lost_update_without_lock`). -/
theorem placedSplit_linearizable (O : Obj State Op Ret) (σ0 : State) (k : Key)
    (ms : List (Proto.Ev ⊕ Split.Ev Op Ret)) (h : PlacedSplit O k {} { core := { σ := σ0 } } ms) :
    Split.WF O σ0 (opEventsSplit ms) ∧ Linearizable O σ0 (Split.hist (opEventsSplit ms)) := by
  obtain ⟨c', hr⟩ := placedSplit_runs Inv.init (LockInv.init σ0) (by intro i v h; cases h)
    (covered_init σ0 {}) h
  have hwf : Split.WF O σ0 (opEventsSplit ms) := by unfold Split.WF; rw [hr]; rfl
  exact ⟨hwf, Split.split_bodies_linearizable O σ0 _ hwf⟩

end
end NodisVerif.LinProto
