import NodisVerif.Proofs.SkiplistInsertE
/-
  skiplist.insert: the invariant is kept and the level-0 chain is the chain with the new node after every node
  that is "less" (`insert_isChain`); refinement of `DsZSet.slInsert` (`insert_refines`).
-/
namespace NodisVerif.Skiplist
open NodisVerif.DsZSet (Item nodeLt slInsert)
open NodisVerif.Proofs.C04 (ILt)
open NodisVerif.Proofs.ZSetLemmas (Good itemLt_trans itemLt_total slInsert_pairwise)

theorem find_all_true {p : Nat → Bool} : ∀ (L : List Nat), (∀ y ∈ L, p y = true) → L.find? p = L.head? := by
  intro L h
  cases L with
  | nil => rfl
  | cons a L => simp [h a (by simp)]

theorem insert_isChain_aux {sl : SL} {c : List Nat} (hc : IsChain sl c) (m : Bytes) (s : F64) (lvl : Nat)
    (hl1 : 1 ≤ lvl) (hl2 : lvl ≤ maxLevel) (hs : F64.isNaN s = false)
    (pre post : List Nat) (hcp : c = pre ++ post) (hcond : CondUpTo sl c (lessCond m s) pre.length)
    (hsort : (pre.map (itemAt sl.heap) ++ (s, m) :: post.map (itemAt sl.heap)).Pairwise ILt) :
    ∃ sl', insert sl m s lvl = .ok sl' ∧ IsChain sl' (pre ++ sl.heap.length :: post) ∧
      itemAt sl'.heap sl.heap.length = (s, m) ∧ (∀ x ∈ c, itemAt sl'.heap x = itemAt sl.heap x) := by
  subst hcp
  obtain ⟨x, acc, update, rank, hsearch, hul, hrl, hUR, hupper, _, _⟩ :=
    search_spec hc (lessCond m s) pre.length hcond
  have htake : (0 :: (pre ++ post)).take (pre.length + 1) = 0 :: pre := by simp [List.take_succ_cons]
  rw [htake] at hUR
  obtain ⟨h1, update', rank', hext, hs1, hb1, hul', hrl', hlv1, hup, hrk⟩ :=
    extendBranch_spec sl lvl update rank hul hrl hl2 hc.header
  have hUR' := updateRank_extend hc pre (fun y hy => by simp [hy]) h1 lvl hl2 update update' rank rank' hUR hs1 hup hrk
  have hlink1 := linked_extend hc h1 lvl hs1 hlv1
  have hlen1 : h1.length = sl.heap.length := length_congr hs1
  obtain ⟨U, hU⟩ : ∃ U : Nat → Nat, ∀ j, U j = ((update'[j]?).getD none).getD 0 := ⟨_, fun _ => rfl⟩
  obtain ⟨R, hR⟩ : ∃ R : Nat → Int, ∀ j, R j = (rank'[j]?).getD 0 := ⟨_, fun _ => rfl⟩
  have hUf : ∀ j, j < max sl.level lvl → ∃ A B, 0 :: pre = A ++ U j :: B ∧ above h1 j (U j) = true ∧
      (∀ y ∈ B, above h1 j y = false) ∧ R j = (A.length : Int) ∧ update'[j]? = some (some (U j)) ∧
      rank'[j]? = some (R j) := by
    intro j hj
    obtain ⟨A, u, B, e1, e2, e3, e4, e5⟩ := hUR' j hj
    have hu : U j = u := by rw [hU, e4]; rfl
    have hr : R j = A.length := by rw [hR, e5]; rfl
    rw [← hu] at e1 e2 e4
    rw [← hr] at e5
    exact ⟨A, B, e1, e2, e3, hr, e4, e5⟩
  have hUt : ∀ j, j < max sl.level lvl →
      update'[j]? = some (some (U j)) ∧ rank'[j]? = some (R j) ∧ j < height h1 (U j) := by
    intro j hj
    obtain ⟨A, B, e1, e2, e3, e4, e5, e6⟩ := hUf j hj
    exact ⟨e5, e6, by simpa [above] using e2⟩
  have hsplit0 : (0 :: (pre ++ post)) = (0 :: pre) ++ post := rfl
  have hfw : ∀ l f, lv h1 (U 0) 0 = some l → l.forward = some f → f < h1.length := by
    intro l f hl hf
    obtain ⟨A, B, e1, e2, e3, e4, e5, e6⟩ := hUf 0 (by have := hc.levelLo; omega)
    have hlk := (linked_iff_split h1 _).1 hlink1 A (U 0) (B ++ post) (by rw [hsplit0, e1]; simp) 0 l hl
    rw [hf] at hlk
    have hmem : f ∈ B ++ post := List.mem_of_find?_eq_some hlk.1.symm
    have hmem' : f ∈ pre ++ post := by
      rcases List.mem_append.1 hmem with h | h
      · exact List.mem_append_left _ (InsCtx.mem_pre_of_split e1 f h)
      · exact List.mem_append_right _ h
    rw [hlen1]
    exact hc.bound f hmem'
  obtain ⟨sl', l0, htail, hsk, hlvf, hlen', hlev', hl0, htl, hbk⟩ :=
    insertTail_spec sl m s lvl h1 update' rank' (max sl.level lvl) U R hl1 (by omega) hUt hfw
  have hins : insert sl m s lvl = .ok sl' := by
    rw [insert_eq, hsearch]
    simp only [bind, Except.bind]
    rw [hext]
    exact htail
  have hN0 : sl.heap.length ≠ 0 := by have := hc.size; omega
  have hNc : sl.heap.length ∉ pre ++ post := fun h => by have := hc.bound _ h; omega
  have hU0 : ∃ A, 0 :: pre = A ++ [U 0] ∧ R 0 = (A.length : Int) := by
    obtain ⟨A, B, e1, e2, e3, e4, e5, e6⟩ := hUf 0 (by have := hc.levelLo; omega)
    have hB : B = [] := by
      cases B with
      | nil => rfl
      | cons b B =>
        have hb : b ∈ pre := InsCtx.mem_pre_of_split e1 b (by simp)
        have h1b := hc.hpos b (by simp [hb])
        have := e3 b (by simp)
        simp [above, height_congr hs1] at this
        omega
    subst hB
    exact ⟨A, e1, e4⟩
  have hr0 : R 0 = (pre.length : Int) := by
    obtain ⟨A, e1, e4⟩ := hU0
    have := congrArg List.length e1
    simp at this
    rw [e4]; omega
  have C : InsCtx h1 sl'.heap pre post sl.heap.length lvl (max sl.level lvl) U R (R 0) :=
    { hlink := hlink1
      hnd := hc.nodup
      hNmem := by
        intro h
        rcases List.mem_cons.1 h with h | h
        · exact hN0 h
        · exact hNc h
      hN1 := by
        intro j
        rw [lv_eq_none_iff, ← hlen1]; simp [height]
      hht := by
        intro x hx
        rw [height_of_skel h1 sl'.heap lvl s m hsk, if_neg (by rw [hlen1]; exact hx)]
      hhN := by rw [height_of_skel h1 sl'.heap lvl s m hsk, if_pos hlen1.symm]
      hlvl := by omega
      hhi := by
        intro y hy
        rw [height_congr hs1]
        have := hc.hle y hy
        omega
      hU := by
        intro j hj
        obtain ⟨A, B, e1, e2, e3, e4, _⟩ := hUf j hj
        exact ⟨A, B, e1, e2, e3, e4⟩
      hr0 := hr0
      hlv := by
        intro x j
        rw [hlvf, hlen1]; rfl }
  have hht' : ∀ x, height sl'.heap x = if x = sl.heap.length then lvl else height sl.heap x := by
    intro x
    rw [height_of_skel h1 sl'.heap lvl s m hsk, hlen1, height_congr hs1]
  have hit' : ∀ x, itemAt sl'.heap x = if x = sl.heap.length then (s, m) else itemAt sl.heap x := by
    intro x
    rw [itemAt_of_skel h1 sl'.heap lvl s m hsk, hlen1, itemAt_congr hs1]
  have hlenf : sl'.heap.length = sl.heap.length + 1 := by
    have := congrArg List.length hsk
    simp [skel] at this
    omega
  rw [hlen1] at hl0 htl hbk
  have hfwd : l0.forward = post.head? := by
    have h1' := (C.linkOK_new 0 l0 hl0).1
    rw [h1']
    apply find_all_true
    intro y hy
    have hyN : y ≠ sl.heap.length := fun e => hNc (by rw [← e]; simp [hy])
    have := hc.hpos y (by simp [hy])
    simp [above, hht', hyN]; omega
  have hmemc : ∀ n, n ∈ pre ++ sl.heap.length :: post → n = sl.heap.length ∨ n ∈ pre ++ post := by
    intro n hn
    simp at hn ⊢
    rcases hn with h | h | h
    · exact Or.inr (Or.inl h)
    · exact Or.inl h
    · exact Or.inr (Or.inr h)
  have hmemc' : ∀ n, n ∈ pre ++ post → n ∈ pre ++ sl.heap.length :: post := by
    intro n hn
    simp at hn ⊢
    rcases hn with h | h
    · exact Or.inl h
    · exact Or.inr (Or.inr h)
  have hneN : ∀ n, n ∈ pre ++ post → n ≠ sl.heap.length := fun n hn e => hNc (e ▸ hn)
  refine ⟨sl', hins, ?_, by rw [hit', if_pos rfl], fun x hx => by rw [hit', if_neg (hneN x hx)]⟩
  refine
    { nodup := ?_, bound := ?_, size := ?_, header := ?_, hpos := ?_, hle := ?_, levelLo := ?_, levelHi := ?_,
      levelMax := ?_, linked := C.linked, back := ?_, tail := ?_, length := ?_, sorted := ?_, good := ?_ }
  · -- nodup
    have hp : (0 :: pre ++ sl.heap.length :: post).Perm (sl.heap.length :: (0 :: pre ++ post)) :=
      List.perm_middle (l₁ := 0 :: pre)
    show (0 :: pre ++ sl.heap.length :: post).Nodup
    rw [hp.nodup_iff, List.nodup_cons]
    exact ⟨C.hNmem, hc.nodup⟩
  · intro n hn
    rcases hmemc n hn with h | h
    · omega
    · have := hc.bound n h; omega
  · have := hc.size
    simp at this ⊢
    omega
  · rw [hht', if_neg (fun e => hN0 e.symm)]; exact hc.header
  · intro n hn
    rw [hht']
    rcases hmemc n hn with h | h
    · rw [if_pos h]; exact hl1
    · rw [if_neg (hneN n h)]; exact hc.hpos n h
  · intro n hn
    rw [hht', hlev']
    rcases hmemc n hn with h | h
    · rw [if_pos h]; omega
    · rw [if_neg (hneN n h)]; have := hc.hle n h; omega
  · rw [hlev']; have := hc.levelLo; omega
  · rw [hlev']; have := hc.levelHi; omega
  · rw [hlev']
    by_cases hl : lvl > sl.level
    · right
      refine ⟨sl.heap.length, by simp, ?_⟩
      rw [hht', if_pos rfl]; omega
    · rcases hc.levelMax with h | ⟨n, hn, hh⟩
      · left; omega
      · right
        refine ⟨n, hmemc' n hn, ?_⟩
        rw [hht', if_neg (hneN n hn), hh]; omega
  · -- back
    have hnd2 := List.nodup_append.1 (List.nodup_cons.1 hc.nodup).2
    have h0mem : (0 : Nat) ∉ pre ++ post := (List.nodup_cons.1 hc.nodup).1
    have hb0 := hc.back
    rw [backLinked_append] at hb0 ⊢
    rw [backLinked_cons]
    obtain ⟨hbpre, hbpost⟩ := hb0
    have hbU : (if U 0 = 0 then none else some (U 0)) = lastOr none pre := by
      obtain ⟨A, e1, _⟩ := hU0
      cases A with
      | nil =>
        simp at e1
        simp [e1.1.symm, e1.2, lastOr]
      | cons a A' =>
        simp at e1
        have hmem : U 0 ∈ pre := by rw [e1.2]; simp
        have hne : U 0 ≠ 0 := fun e => h0mem (by rw [← e]; simp [hmem])
        rw [if_neg hne, e1.2, lastOr_append_singleton]
    have hNpost : sl.heap.length ∉ post := fun h => hNc (by simp [h])
    have hheadN : ¬ some sl.heap.length = l0.forward := by
      rw [hfwd]
      intro e
      exact hNpost (List.mem_of_head? e.symm)
    refine ⟨?_, ?_, ?_⟩
    · refine backLinked_congr pre none ?_ hbpre
      intro x hx
      have hxN : x ≠ sl.heap.length := hneN x (by simp [hx])
      have hxh : ¬ some x = l0.forward := by
        rw [hfwd]
        intro e
        exact hnd2.2.2 x hx x (List.mem_of_head? e.symm) rfl
      rw [hbk, if_neg hxh, if_neg hxN, hb1]
    · rw [hbk, if_neg hheadN, if_pos rfl, hbU]
    · cases post with
      | nil => trivial
      | cons f post' =>
        rw [backLinked_cons] at hbpost ⊢
        have hfN : f ≠ sl.heap.length := hneN f (by simp)
        refine ⟨by rw [hbk, hfwd]; simp, ?_⟩
        refine backLinked_congr post' (some f) ?_ hbpost.2
        intro x hx
        have hxN : x ≠ sl.heap.length := hneN x (by simp [hx])
        have hxf : x ≠ f := by
          intro e
          have := (List.nodup_cons.1 hnd2.2.1).1
          exact this (e ▸ hx)
        have hxh : ¬ some x = l0.forward := by
          rw [hfwd]; simp [hxf]
        rw [hbk, if_neg hxh, if_neg hxN, hb1]
  · -- tail
    rw [htl, hfwd]
    cases post with
    | nil => simp
    | cons f post' => simp [hc.tail]
  · rw [hlen', hc.length]; simp; omega
  · -- sorted
    have hmap : ∀ L : List Nat, (∀ x ∈ L, x ∈ pre ++ post) →
        L.map (itemAt sl'.heap) = L.map (itemAt sl.heap) := by
      intro L hL
      apply List.map_congr_left
      intro x hx
      rw [hit', if_neg (hneN x (hL x hx))]
    rw [List.map_append, List.map_cons, hmap pre (fun x hx => by simp [hx]),
      hmap post (fun x hx => by simp [hx]), hit', if_pos rfl]
    exact hsort
  · intro n hn
    rw [hit']
    rcases hmemc n hn with h | h
    · rw [if_pos h]; exact hs
    · rw [if_neg (hneN n h)]; exact hc.good n h


theorem insert_isChain {sl : SL} {c : List Nat} (hc : IsChain sl c) (m : Bytes) (s : F64) (lvl : Nat)
    (hl1 : 1 ≤ lvl) (hl2 : lvl ≤ maxLevel) (hs : F64.isNaN s = false)
    (hm : ∀ n ∈ c, (itemAt sl.heap n).2 ≠ m) :
    ∃ sl', insert sl m s lvl = .ok sl' ∧
      IsChain sl' (c.takeWhile (fun n => nodeLt (itemAt sl.heap n) s m) ++ sl.heap.length ::
        c.dropWhile (fun n => nodeLt (itemAt sl.heap n) s m)) ∧
      itemAt sl'.heap sl.heap.length = (s, m) ∧ (∀ x ∈ c, itemAt sl'.heap x = itemAt sl.heap x) := by
  apply insert_isChain_aux hc m s lvl hl1 hl2 hs _ _ List.takeWhile_append_dropWhile.symm
    (condUpTo_less hc m s hs)
  have hgood : ∀ a ∈ c.map (itemAt sl.heap), Good a := by
    intro a ha
    obtain ⟨n, hn, rfl⟩ := List.mem_map.1 ha
    exact hc.good n hn
  have hm' : ∀ a ∈ c.map (itemAt sl.heap), a.2 ≠ m := by
    intro a ha
    obtain ⟨n, hn, rfl⟩ := List.mem_map.1 ha
    exact hm n hn
  have := slInsert_pairwise m s hs (c.map (itemAt sl.heap)) hc.sorted hgood hm'
  rw [slInsert_eq, List.takeWhile_map, List.dropWhile_map] at this
  exact this

theorem insert_refines {sl : SL} (h : Inv sl) (m : Bytes) (s : F64) (lvl : Nat) (hl1 : 1 ≤ lvl)
    (hl2 : lvl ≤ maxLevel) (hs : F64.isNaN s = false) (hm : ∀ x ∈ abs sl, x.2 ≠ m) :
    ∃ sl', insert sl m s lvl = .ok sl' ∧ Inv sl' ∧ abs sl' = DsZSet.slInsert (abs sl) m s := by
  obtain ⟨c, hc⟩ := h
  rw [abs_eq hc] at hm
  obtain ⟨sl', e, hc', hN, hold⟩ := insert_isChain hc m s lvl hl1 hl2 hs
    (fun n hn => hm _ (List.mem_map.2 ⟨n, hn, rfl⟩))
  refine ⟨sl', e, ⟨_, hc'⟩, ?_⟩
  have hmap : ∀ L : List Nat, (∀ x ∈ L, x ∈ c) → L.map (itemAt sl'.heap) = L.map (itemAt sl.heap) := by
    intro L hL
    apply List.map_congr_left
    intro x hx
    exact hold x (hL x hx)
  rw [abs_eq hc', abs_eq hc, slInsert_eq, List.takeWhile_map, List.dropWhile_map, List.map_append,
    List.map_cons, hN, hmap _ (fun x hx => (List.takeWhile_sublist _).subset hx),
    hmap _ (fun x hx => (List.dropWhile_sublist _).subset hx)]
  rfl

end NodisVerif.Skiplist
