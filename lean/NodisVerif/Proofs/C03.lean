import NodisVerif.Model.DsHashSet
import NodisVerif.Spec.HashSet
import NodisVerif.Proofs.AListLemmas2
/-
  Helper lemmas for C03 at the data-structure level (ds/hash, ds/set).
-/
namespace NodisVerif.Proofs.C03
open NodisVerif.Proofs.AListLemmas NodisVerif.Proofs.AListLemmas2

/-! ### enumerations -/

theorem enumerates_perm {l₁ l₂ : List Bytes} {s : Spec.BSet}
    (h1 : Spec.Enumerates l₁ s) (h2 : Spec.Enumerates l₂ s) : l₁.Perm l₂ :=
  (List.perm_ext_iff_of_nodup h1.1 h2.1).mpr (fun a => (h1.2 a).trans (h2.2 a).symm)

/-- the cardinality of an abstract set does not depend on the enumeration -/
theorem enumerates_length_unique {l₁ l₂ : List Bytes} {s : Spec.BSet}
    (h1 : Spec.Enumerates l₁ s) (h2 : Spec.Enumerates l₂ s) : l₁.length = l₂.length :=
  (enumerates_perm h1 h2).length_eq

theorem hasCard_unique {s : Spec.BSet} {n₁ n₂ : Nat} (h1 : Spec.HasCard s n₁) (h2 : Spec.HasCard s n₂) : n₁ = n₂ := by
  obtain ⟨l1, e1, rfl⟩ := h1
  obtain ⟨l2, e2, rfl⟩ := h2
  exact enumerates_length_unique e1 e2

theorem length_filter_partition {α : Type} (p : α → Bool) : ∀ (l : List α),
    l.length = (l.filter p).length + (l.filter (fun a => !p a)).length := by
  intro l
  induction l with
  | nil => rfl
  | cons a l ih =>
    simp only [List.filter_cons]
    cases h : p a <;> simp <;> omega

theorem nodup_filter {α : Type} (p : α → Bool) {l : List α} (h : l.Nodup) : (l.filter p).Nodup :=
  List.Nodup.sublist List.filter_sublist h

theorem keys_enumerates {V : Type} (m : AList V) (hs : AList.Sorted m) :
    Spec.Enumerates (AList.keys m) (AList.contains m) :=
  ⟨keys_nodup m hs, fun x => mem_keys_iff_contains m x⟩

/-- if `r` has the keys of `m` plus the listed ones, the growth is the number of distinct listed
    keys that were absent -/
theorem count_added {V : Type} (m r : AList V) (hm : AList.Sorted m) (hr : AList.Sorted r) (ks : List Bytes)
    (hc : ∀ x, AList.contains r x = true ↔ AList.contains m x = true ∨ x ∈ ks)
    (d : List Bytes) (hd : Spec.Enumerates d (Spec.listed ks (fun x => !AList.contains m x))) :
    r.length = m.length + d.length := by
  have e1 : Spec.Enumerates ((AList.keys r).filter (AList.contains m)) (AList.contains m) := by
    refine ⟨nodup_filter _ (keys_nodup r hr), fun x => ?_⟩
    rw [List.mem_filter, mem_keys_iff_contains, hc]
    constructor
    · exact fun h => h.2
    · exact fun h => ⟨Or.inl h, h⟩
  have e2 : Spec.Enumerates ((AList.keys r).filter (fun a => !AList.contains m a))
      (Spec.listed ks (fun x => !AList.contains m x)) := by
    refine ⟨nodup_filter _ (keys_nodup r hr), fun x => ?_⟩
    rw [List.mem_filter, mem_keys_iff_contains, hc]
    simp only [Spec.listed, Bool.and_eq_true, decide_eq_true_eq, Bool.not_eq_true']
    constructor
    · rintro ⟨h1 | h1, h2⟩
      · rw [h1] at h2; cases h2
      · exact ⟨h1, h2⟩
    · exact fun h => ⟨Or.inr h.1, h.2⟩
  have := length_filter_partition (AList.contains m) (AList.keys r)
  rw [length_keys, enumerates_length_unique e1 (keys_enumerates m hm), length_keys,
    enumerates_length_unique e2 hd] at this
  exact this

/-- if `r` is `m` without the listed keys, the shrinkage is the number of distinct listed keys that
    were present -/
theorem count_removed {V : Type} (m r : AList V) (hm : AList.Sorted m) (hr : AList.Sorted r) (ks : List Bytes)
    (hc : ∀ x, AList.contains r x = true ↔ AList.contains m x = true ∧ x ∉ ks)
    (d : List Bytes) (hd : Spec.Enumerates d (Spec.listed ks (AList.contains m))) :
    m.length = r.length + d.length := by
  have e1 : Spec.Enumerates ((AList.keys m).filter (fun a => decide (a ∈ ks))) (Spec.listed ks (AList.contains m)) := by
    refine ⟨nodup_filter _ (keys_nodup m hm), fun x => ?_⟩
    rw [List.mem_filter, mem_keys_iff_contains]
    simp only [Spec.listed, Bool.and_eq_true, decide_eq_true_eq]
    exact And.comm
  have e2 : Spec.Enumerates ((AList.keys m).filter (fun a => !decide (a ∈ ks))) (AList.contains r) := by
    refine ⟨nodup_filter _ (keys_nodup m hm), fun x => ?_⟩
    rw [List.mem_filter, mem_keys_iff_contains, hc]
    simp
  have := length_filter_partition (fun a => decide (a ∈ ks)) (AList.keys m)
  rw [length_keys, enumerates_length_unique e1 hd,
    enumerates_length_unique e2 (keys_enumerates r hr), length_keys] at this
  omega

/-! ### the delete fold shared by HDEL and SREM -/

def delStep {V : Type} (acc : AList V × Int) (k : Bytes) : AList V × Int :=
  if AList.contains acc.1 k then (AList.erase acc.1 k, acc.2 + 1) else acc

theorem foldl_delStep {V : Type} : ∀ (ks : List Bytes) (m : AList V) (c : Int), AList.Sorted m →
    AList.Sorted (ks.foldl delStep (m, c)).1 ∧
    (∀ x, AList.get? (ks.foldl delStep (m, c)).1 x = if x ∈ ks then none else AList.get? m x) ∧
    (m.length : Int) = (ks.foldl delStep (m, c)).1.length + ((ks.foldl delStep (m, c)).2 - c) := by
  intro ks
  induction ks with
  | nil => intro m c hs; simp [hs]
  | cons k ks ih =>
    intro m c hs
    simp only [List.foldl_cons]
    by_cases hk : AList.contains m k = true
    · have hstep : delStep (m, c) k = (AList.erase m k, c + 1) := by simp [delStep, hk]
      rw [hstep]
      obtain ⟨i1, i2, i3⟩ := ih (AList.erase m k) (c + 1) (erase_preserves_sorted m hs k)
      refine ⟨i1, ?_, ?_⟩
      · intro x
        rw [i2 x, get?_erase m hs]
        by_cases hx : x = k
        · simp [hx]
        · simp [hx]
      · have hl := length_erase m k
        simp only [hk, if_true] at hl
        have hpos : m.length ≠ 0 := by
          intro h0
          have : m = [] := List.length_eq_zero_iff.mp h0
          subst this
          simp [AList.contains, AList.get?] at hk
        omega
    · have hk' : AList.contains m k = false := by simpa using hk
      have hstep : delStep (m, c) k = (m, c) := by simp [delStep, hk']
      rw [hstep]
      obtain ⟨i1, i2, i3⟩ := ih m c hs
      refine ⟨i1, ?_, i3⟩
      intro x
      rw [i2 x]
      by_cases hx : x = k
      · subst hx
        have : AList.get? m x = none := (contains_eq_false_iff m x).mp hk'
        simp [this]
      · simp [hx]

/-! ### sets -/
open DsSet

theorem mem_eq_contains (s : S) : DsSet.mem s = AList.contains s := rfl

theorem members_enumerates (s : S) (hs : AList.Sorted s) : Spec.Enumerates (members s) (mem s) :=
  keys_enumerates s hs

theorem mem_members_iff (s : S) (x : Bytes) : x ∈ members s ↔ mem s x = true :=
  mem_keys_iff_contains s x

def addStep (acc : S × Int) (m : Bytes) : S × Int :=
  if mem acc.1 m then acc else (AList.set acc.1 m (), acc.2 + 1)

theorem sadd_eq_fold (s : S) (ms : List Bytes) : sadd s ms = ms.foldl addStep (s, 0) := rfl

theorem foldl_addStep : ∀ (ms : List Bytes) (s : S) (c : Int), AList.Sorted s →
    AList.Sorted (ms.foldl addStep (s, c)).1 ∧
    (∀ x, mem (ms.foldl addStep (s, c)).1 x = true ↔ mem s x = true ∨ x ∈ ms) ∧
    ((ms.foldl addStep (s, c)).1.length : Int) = s.length + ((ms.foldl addStep (s, c)).2 - c) := by
  intro ms
  induction ms with
  | nil => intro s c hs; simp [hs]
  | cons m ms ih =>
    intro s c hs
    simp only [List.foldl_cons]
    by_cases hm : mem s m = true
    · have hstep : addStep (s, c) m = (s, c) := by simp [addStep, hm]
      rw [hstep]
      obtain ⟨i1, i2, i3⟩ := ih s c hs
      refine ⟨i1, ?_, i3⟩
      intro x
      rw [i2 x, List.mem_cons]
      constructor
      · rintro (h | h)
        · exact Or.inl h
        · exact Or.inr (Or.inr h)
      · rintro (h | h | h)
        · exact Or.inl h
        · subst h; exact Or.inl hm
        · exact Or.inr h
    · have hm' : mem s m = false := by simpa using hm
      have hstep : addStep (s, c) m = (AList.set s m (), c + 1) := by simp [addStep, hm']
      rw [hstep]
      obtain ⟨i1, i2, i3⟩ := ih (AList.set s m ()) (c + 1) (set_preserves_sorted s hs m ())
      refine ⟨i1, ?_, ?_⟩
      · intro x
        rw [i2 x, List.mem_cons, mem_eq_contains, contains_set]
        simp only [Bool.or_eq_true, decide_eq_true_eq]
        constructor
        · rintro ((h | h) | h)
          · exact Or.inr (Or.inl h)
          · exact Or.inl h
          · exact Or.inr (Or.inr h)
        · rintro (h | h | h)
          · exact Or.inl (Or.inr h)
          · exact Or.inl (Or.inl h)
          · exact Or.inr h
      · have hl := length_set s hs m ()
        rw [mem_eq_contains] at hm'
        simp only [hm', Bool.false_eq_true, if_false] at hl
        omega

theorem srem_eq_fold (s : S) (ms : List Bytes) : srem s ms = ms.foldl delStep (s, 0) := rfl

theorem mem_iff_get? (s : S) (x : Bytes) : mem s x = true ↔ AList.get? s x = some () := by
  rw [mem_eq_contains, contains_eq_true_iff]
  constructor
  · rintro ⟨v, h⟩; exact h
  · exact fun h => ⟨(), h⟩

/-- two sorted unit-valued lists with the same membership are equal -/
theorem set_ext (s₁ s₂ : S) (h1 : AList.Sorted s₁) (h2 : AList.Sorted s₂) (h : ∀ x, mem s₁ x = mem s₂ x) : s₁ = s₂ := by
  apply ext_of_sorted s₁ s₂ h1 h2
  intro x
  have hx := h x
  cases e1 : AList.get? s₁ x with
  | none =>
    cases e2 : AList.get? s₂ x with
    | none => rfl
    | some u =>
      simp [DsSet.mem, AList.contains, e1, e2] at hx
  | some u =>
    cases e2 : AList.get? s₂ x with
    | none => simp [DsSet.mem, AList.contains, e1, e2] at hx
    | some u' => rfl

/-! set algebra -/

theorem mem_sinter (s : S) (others : List S) (x : Bytes) :
    x ∈ sinter s others ↔ mem s x = true ∧ ∀ o ∈ others, mem o x = true := by
  simp only [sinter, List.mem_filter, mem_members_iff, List.all_eq_true]

theorem mem_sdiff (s : S) (others : List S) (x : Bytes) :
    x ∈ sdiff s others ↔ mem s x = true ∧ ∀ o ∈ others, mem o x = false := by
  simp only [sdiff, List.mem_filter, mem_members_iff, Bool.not_eq_true', List.any_eq_false,
    Bool.not_eq_true]

theorem sinter_nodup (s : S) (hs : AList.Sorted s) (others : List S) : (sinter s others).Nodup :=
  nodup_filter _ (keys_nodup s hs)

theorem sdiff_nodup (s : S) (hs : AList.Sorted s) (others : List S) : (sdiff s others).Nodup :=
  nodup_filter _ (keys_nodup s hs)

def dedupStep (acc : List Bytes) (m : Bytes) : List Bytes := if acc.contains m then acc else acc ++ [m]

theorem foldl_dedupStep : ∀ (l acc : List Bytes), acc.Nodup →
    (l.foldl dedupStep acc).Nodup ∧ ∀ x, x ∈ l.foldl dedupStep acc ↔ x ∈ acc ∨ x ∈ l := by
  intro l
  induction l with
  | nil => intro acc h; simp [h]
  | cons m l ih =>
    intro acc h
    simp only [List.foldl_cons]
    by_cases hm : m ∈ acc
    · have : dedupStep acc m = acc := by simp [dedupStep, hm]
      rw [this]
      obtain ⟨i1, i2⟩ := ih acc h
      refine ⟨i1, fun x => ?_⟩
      rw [i2 x, List.mem_cons]
      constructor
      · rintro (h | h)
        · exact Or.inl h
        · exact Or.inr (Or.inr h)
      · rintro (h | h | h)
        · exact Or.inl h
        · subst h; exact Or.inl hm
        · exact Or.inr h
    · have : dedupStep acc m = acc ++ [m] := by simp [dedupStep, hm]
      rw [this]
      have hn : (acc ++ [m]).Nodup := by
        rw [List.nodup_append]
        refine ⟨h, by simp, ?_⟩
        intro a ha b hb
        simp only [List.mem_singleton] at hb
        subst hb
        intro e; subst e; exact hm ha
      obtain ⟨i1, i2⟩ := ih (acc ++ [m]) hn
      refine ⟨i1, fun x => ?_⟩
      rw [i2 x, List.mem_cons, List.mem_append, List.mem_singleton]
      constructor
      · rintro ((h | h) | h)
        · exact Or.inl h
        · exact Or.inr (Or.inl h)
        · exact Or.inr (Or.inr h)
      · rintro (h | h | h)
        · exact Or.inl (Or.inl h)
        · exact Or.inl (Or.inr h)
        · exact Or.inr h

theorem sunion_eq (s : S) (others : List S) :
    sunion s others = members s ++
      (others.flatMap fun o => (members o).filter fun m => !(mem s m)).foldl dedupStep [] := rfl

theorem mem_sunion (s : S) (others : List S) (x : Bytes) :
    x ∈ sunion s others ↔ mem s x = true ∨ ∃ o ∈ others, mem o x = true := by
  rw [sunion_eq, List.mem_append, (foldl_dedupStep _ [] List.nodup_nil).2 x, mem_members_iff]
  simp only [List.not_mem_nil, false_or, List.mem_flatMap, List.mem_filter, mem_members_iff,
    Bool.not_eq_true']
  constructor
  · rintro (h | ⟨o, ho, h1, _⟩)
    · exact Or.inl h
    · exact Or.inr ⟨o, ho, h1⟩
  · rintro (h | ⟨o, ho, h1⟩)
    · exact Or.inl h
    · by_cases hs : mem s x = true
      · exact Or.inl hs
      · exact Or.inr ⟨o, ho, h1, by simpa using hs⟩

theorem sunion_nodup (s : S) (hs : AList.Sorted s) (others : List S) : (sunion s others).Nodup := by
  rw [sunion_eq, List.nodup_append]
  obtain ⟨n, hm⟩ := foldl_dedupStep (others.flatMap fun o => (members o).filter fun m => !(mem s m)) [] List.nodup_nil
  refine ⟨keys_nodup s hs, n, ?_⟩
  intro a ha b hb e
  subst e
  rw [hm a] at hb
  simp only [List.not_mem_nil, false_or, List.mem_flatMap, List.mem_filter, Bool.not_eq_true'] at hb
  obtain ⟨o, _, _, h2⟩ := hb
  rw [mem_members_iff] at ha
  rw [ha] at h2
  cases h2

/-! ### hashes -/
open DsHash

theorem hdel_eq_fold (h : H) (ks : List Bytes) : hdel h ks = ks.foldl delStep (h, 0) := rfl

/-! HINCRBY -/

theorem wrap64_of_inInt64 (x : Int) (h : inInt64 x = true) : wrap64 x = x := by
  simp only [inInt64, int64Min, int64Max] at h
  have h' := of_decide_eq_true h
  have hM : int64Max = 9223372036854775807 := rfl
  unfold wrap64
  have h1 : x % 18446744073709551616 = (if x < 0 then x + 18446744073709551616 else x) := by
    split <;> omega
  by_cases hx : x < 0
  · rw [if_pos hx] at h1
    simp only [h1]
    rw [if_pos (by omega)]; omega
  · rw [if_neg hx] at h1
    simp only [h1]
    rw [if_neg (by omega)]


/-! ### packaged specifications (restated in Props/C03.lean) -/

theorem contains_of_get?_delAll {V : Type} (m r : AList V) (ks : List Bytes)
    (h : ∀ x, AList.get? r x = if x ∈ ks then none else AList.get? m x) (x : Bytes) :
    AList.contains r x = true ↔ AList.contains m x = true ∧ x ∉ ks := by
  simp only [AList.contains, h x]
  by_cases hx : x ∈ ks <;> simp [hx]

theorem sadd_spec (s : S) (hs : AList.Sorted s) (ms : List Bytes) :
    AList.Sorted (sadd s ms).1 ∧
    mem (sadd s ms).1 = Spec.BSet.insertAll (mem s) ms ∧
    (∀ d, Spec.Enumerates d (Spec.listed ms (fun x => !mem s x)) → (sadd s ms).2 = d.length) ∧
    scard (sadd s ms).1 = scard s + (sadd s ms).2 := by
  rw [sadd_eq_fold]
  obtain ⟨i1, i2, i3⟩ := foldl_addStep ms s 0 hs
  refine ⟨i1, ?_, ?_, ?_⟩
  · funext x
    apply Bool.eq_iff_iff.mpr
    rw [i2 x]
    simp [Spec.BSet.insertAll]
  · intro d hd
    have := count_added s _ hs i1 ms i2 d hd
    omega
  · simp only [scard]
    omega

theorem srem_spec (s : S) (hs : AList.Sorted s) (ms : List Bytes) :
    AList.Sorted (srem s ms).1 ∧
    mem (srem s ms).1 = Spec.BSet.removeAll (mem s) ms ∧
    (∀ d, Spec.Enumerates d (Spec.listed ms (mem s)) → (srem s ms).2 = d.length) ∧
    scard (srem s ms).1 = scard s - (srem s ms).2 := by
  rw [srem_eq_fold]
  obtain ⟨i1, i2, i3⟩ := foldl_delStep ms s 0 hs
  have hc := contains_of_get?_delAll s _ ms i2
  refine ⟨i1, ?_, ?_, ?_⟩
  · funext x
    apply Bool.eq_iff_iff.mpr
    rw [mem_eq_contains, hc x]
    simp [Spec.BSet.removeAll, mem_eq_contains]
  · intro d hd
    have := count_removed s _ hs i1 ms hc d hd
    omega
  · simp only [scard]
    omega

theorem hdel_spec (h : H) (hs : AList.Sorted h) (ks : List Bytes) :
    AList.Sorted (hdel h ks).1 ∧
    hget (hdel h ks).1 = Spec.Map.delAll (hget h) ks ∧
    (∀ d, Spec.Enumerates d (Spec.listed ks (hexists h)) → (hdel h ks).2 = d.length) ∧
    hlen (hdel h ks).1 = hlen h - (hdel h ks).2 := by
  rw [hdel_eq_fold]
  obtain ⟨i1, i2, i3⟩ := foldl_delStep ks h 0 hs
  have hc := contains_of_get?_delAll h _ ks i2
  refine ⟨i1, ?_, ?_, ?_⟩
  · funext x
    exact i2 x
  · intro d hd
    have := count_removed h _ hs i1 ks hc d hd
    omega
  · simp only [hlen]
    omega

/-- the count of HDEL/SREM written with a concrete enumeration: the fields of `h` that are listed -/
theorem listed_enum {V : Type} (m : AList V) (hs : AList.Sorted m) (ks : List Bytes) :
    Spec.Enumerates ((AList.keys m).filter (fun f => decide (f ∈ ks))) (Spec.listed ks (AList.contains m)) := by
  refine ⟨nodup_filter _ (keys_nodup m hs), fun x => ?_⟩
  rw [List.mem_filter, mem_keys_iff_contains]
  simp only [Spec.listed, Bool.and_eq_true, decide_eq_true_eq]
  exact And.comm

theorem hgetall_enumerates (h : H) (hs : AList.Sorted h) : Spec.EnumeratesMap (hgetall h) (hget h) :=
  ⟨keys_nodup h hs, fun k v => (get?_eq_some_iff_mem h hs k v).symm⟩

/-- HINCRBY, model = Redis reference outside the overflow region -/
def hincrOverflow (h : H) (f : Bytes) (delta : Int) : Bool :=
  match AList.get? h f with
  | none => false
  | some v =>
    match parseInt64 v with
    | none => false
    | some i => !inInt64 (i + delta)

/-- every "distinct listed elements satisfying p" set has an enumeration -/
def dedupL : List Bytes → List Bytes
  | [] => []
  | x :: xs => if x ∈ dedupL xs then dedupL xs else x :: dedupL xs

theorem mem_dedupL : ∀ (l : List Bytes) (x : Bytes), x ∈ dedupL l ↔ x ∈ l := by
  intro l
  induction l with
  | nil => intro x; simp [dedupL]
  | cons a l ih =>
    intro x
    simp only [dedupL]
    split
    · next h =>
      rw [ih, List.mem_cons]
      constructor
      · exact Or.inr
      · rintro (rfl | h')
        · exact (ih x).mp h
        · exact h'
    · rw [List.mem_cons, List.mem_cons, ih]

theorem nodup_dedupL : ∀ (l : List Bytes), (dedupL l).Nodup := by
  intro l
  induction l with
  | nil => exact List.nodup_nil
  | cons a l ih =>
    simp only [dedupL]
    split
    · exact ih
    · next h => exact List.nodup_cons.mpr ⟨h, ih⟩

theorem exists_enum_listed (ks : List Bytes) (p : Bytes → Bool) : ∃ d, Spec.Enumerates d (Spec.listed ks p) := by
  refine ⟨dedupL (ks.filter p), nodup_dedupL _, fun x => ?_⟩
  rw [mem_dedupL, List.mem_filter]
  simp [Spec.listed]

theorem hincrby_missing (h : H) (f : Bytes) (delta : Int) (hg : AList.get? h f = none) :
    hincrby h f delta = some (AList.set h f (formatInt delta), delta) := by
  simp [hincrby, hg]

theorem hincrby_int (h : H) (f : Bytes) (delta : Int) (v : Bytes) (i : Int) (hg : AList.get? h f = some v)
    (hp : parseInt64 v = some i) :
    hincrby h f delta = some (AList.set h f (formatInt (wrap64 (i + delta))), wrap64 (i + delta)) := by
  simp [hincrby, hg, hp]

theorem hincrby_nonnumeric (h : H) (f : Bytes) (delta : Int) (v : Bytes) (hg : AList.get? h f = some v)
    (hp : parseInt64 v = none) : hincrby h f delta = none := by
  simp [hincrby, hg, hp]

theorem hincrby_redis_partial (h : H) (f : Bytes) (delta : Int) (hd : inInt64 delta = true)
    (hreg : hincrOverflow h f delta = false) :
    (hincrby h f delta).map (·.2) = Spec.hincr (hget h f) delta ∧
    ∀ h' r, hincrby h f delta = some (h', r) → hget h' = Spec.Map.put (hget h) f (formatInt r) := by
  have hput : ∀ r, hget (AList.set h f (formatInt r)) = Spec.Map.put (hget h) f (formatInt r) := by
    intro r; funext x; exact get?_set h f _ x
  cases hg : AList.get? h f with
  | none =>
    rw [hincrby_missing h f delta hg]
    refine ⟨by simp [Spec.hincr, hget, hg, hd], ?_⟩
    intro h' r e
    cases e
    exact hput _
  | some v =>
    cases hp : parseInt64 v with
    | none =>
      rw [hincrby_nonnumeric h f delta v hg hp]
      exact ⟨by simp [Spec.hincr, hget, hg, hp], fun h' r e => by cases e⟩
    | some i =>
      have hin : inInt64 (i + delta) = true := by
        simpa [hincrOverflow, hg, hp] using hreg
      rw [hincrby_int h f delta v i hg hp, wrap64_of_inInt64 _ hin]
      refine ⟨by simp [Spec.hincr, hget, hg, hp, hin], ?_⟩
      intro h' r e
      cases e
      exact hput _

end NodisVerif.Proofs.C03
