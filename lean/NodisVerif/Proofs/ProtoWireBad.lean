import NodisVerif.Proofs.ProtoWireMsg
/-
  C20 / wire encoding: the other half of the round trip (known finding A-200 in general form). A record
  that a Go program can build but that is not well-formed — some `string` field, or an element of a
  repeated string, is not valid UTF-8 — makes Marshal fail; `Op.Encode` ships what Marshal had appended
  up to and including the offending string, and Unmarshal ALWAYS rejects that: such a record never
  arrives as another record.
-/
namespace NodisVerif.Proofs.ProtoWire
open NodisVerif Varint Codec NodisVerif.ProtoWire

/-- a tagged occurrence of a known field whose consumer fails -/
theorem dec_known_err {S pre post : Schema} {no : Nat} {k : Kind} (hat : At S pre no k post)
    {pv tl : List PVal} (hpv : pv.length = pre.length) {wt : Nat} (hwt : wt < 8) (hwt4 : wt ≠ 4)
    {v : PVal} {x : Bytes} (u : Bytes) (hc : consumeField k v wt x = .err) :
    dec S (tag no wt ++ x) ⟨pv ++ v :: tl, u⟩ = none := by
  apply dec_fail S (tag_ne_nil no wt x)
  unfold step
  rw [consumeVarint_tag no wt hat.hi hwt]
  have h1 : (no * 8 + wt) / 8 = no := by omega
  have h2 : (no * 8 + wt) % 8 = wt := by omega
  have h3 : ¬ (no < 1 ∨ no > 536870911) := by have := hat.lo; have := hat.hi; omega
  simp only [h1, h2, h3, hwt4, if_false]
  rw [hat.eq, stepField_at pre pv hpv hat.fresh, hc]

theorem ok_of_typed_not_str {k : Kind} {v : PVal} (ht : v.typed k = true) (hs : k ≠ .str) (hr : k ≠ .repStr) :
    v.ok k = true := by
  cases k <;> cases v <;> simp_all [PVal.typed, PVal.ok]

section
variable {S pre post : Schema} {no : Nat} {pv tl : List PVal} (u : Bytes)

theorem dec_str_bad (hat : At S pre no .str post) (hpv : pv.length = pre.length) (cur : PVal) (s : Bytes)
    (hv : validUTF8 s = false) (hs : s.length < 2 ^ 63) :
    dec S (chunk no s) ⟨pv ++ cur :: tl, u⟩ = none := by
  unfold chunk
  apply dec_known_err hat hpv (by omega) (by omega)
  simp only [consumeField, ne_eq, not_true_eq_false, if_false]
  have := consumeBytes_lenDelim s (by omega) []
  rw [List.append_nil] at this
  rw [this]
  simp only [hv, Bool.false_eq_true, if_false]

/-- repeated string with an invalid element: the valid elements in front of it are consumed, the
    invalid one makes Unmarshal fail -/
theorem dec_repStr_bad (hat : At S pre no .repStr post) (hpv : pv.length = pre.length) :
    ∀ (l acc : List Bytes), (∀ s ∈ l, s.length < 2 ^ 63) → l.all validUTF8 = false →
    (encStrs no l).2 = true ∧ dec S (encStrs no l).1 ⟨pv ++ .list acc :: tl, u⟩ = none := by
  intro l
  induction l with
  | nil => intro acc _ h; simp at h
  | cons s l ih =>
    intro acc hs hbad
    have h1 := hs s (List.mem_cons_self ..)
    cases hv : validUTF8 s with
    | true =>
      have hbad' : l.all validUTF8 = false := by
        simp only [List.all_cons, hv, Bool.true_and] at hbad; exact hbad
      have ih' := ih (acc ++ [s]) (fun t ht => hs t (List.mem_cons_of_mem _ ht)) hbad'
      simp only [encStrs, hv, if_true]
      refine ⟨ih'.1, ?_⟩
      have : dec S (chunk no s ++ (encStrs no l).1) ⟨pv ++ .list acc :: tl, u⟩
          = dec S (encStrs no l).1 ⟨pv ++ .list (acc ++ [s]) :: tl, u⟩ := by
        unfold chunk
        rw [List.append_assoc]
        apply dec_known hat hpv (by omega) (by omega)
        simp only [consumeField, ne_eq, not_true_eq_false, if_false]
        rw [consumeBytes_lenDelim s (by omega)]
        simp only [hv, if_true]
        rfl
      rw [this]
      exact ih'.2
    | false =>
      simp only [encStrs, hv, Bool.false_eq_true, if_false]
      refine ⟨trivial, ?_⟩
      unfold chunk
      apply dec_known_err hat hpv (by omega) (by omega)
      simp only [consumeField, ne_eq, not_true_eq_false, if_false]
      have := consumeBytes_lenDelim s (by omega) []
      rw [List.append_nil] at this
      rw [this]
      simp only [hv, Bool.false_eq_true, if_false]

end

/-- the bytes of a field whose value is typed but not well-formed -/
theorem dec_field_bad {S pre post : Schema} {no : Nat} {k : Kind} (hat : At S pre no k post)
    {pv tl : List PVal} (hpv : pv.length = pre.length) (v : PVal) (ht : v.typed k = true)
    (hsm : v.small = true) (hbad : v.ok k = false) (u : Bytes) :
    (encField no k v).2 = true ∧ dec S (encField no k v).1 ⟨pv ++ k.default :: tl, u⟩ = none := by
  by_cases hs : k = .str
  · subst hs
    cases v <;> simp only [PVal.typed, Bool.false_eq_true] at ht
    rename_i s
    simp only [PVal.ok] at hbad
    simp only [PVal.small, decide_eq_true_eq] at hsm
    have hne : s ≠ [] := by
      intro h; subst h
      have : validUTF8 [] = true := rfl
      rw [this] at hbad; cases hbad
    simp only [encField, hne, if_false, hbad, Bool.not_false]
    exact ⟨trivial, dec_str_bad u hat hpv _ s hbad hsm⟩
  · by_cases hr : k = .repStr
    · subst hr
      cases v <;> simp only [PVal.typed, Bool.false_eq_true] at ht
      rename_i l
      simp only [PVal.ok] at hbad
      simp only [PVal.small, List.all_eq_true, decide_eq_true_eq] at hsm
      simp only [encField]
      exact dec_repStr_bad (tl := tl) u hat hpv l [] hsm hbad
    · have := ok_of_typed_not_str ht hs hr
      rw [this] at hbad; cases hbad

theorem dec_marshal_bad (S : Schema) (hS : schemaOk S = true) : ∀ (sch pre : Schema) (vs pv : List PVal),
    S = pre ++ sch → pv.length = pre.length → typedVals sch vs = true → wfVals sch vs = false → ∀ (u : Bytes),
    (marshal sch vs).2 = true ∧ dec S (marshal sch vs).1 ⟨pv ++ defaults sch, u⟩ = none := by
  intro sch
  induction sch with
  | nil =>
    intro pre vs pv _ _ ht hwf u
    cases vs with
    | nil => simp [wfVals] at hwf
    | cons _ _ => simp [typedVals] at ht
  | cons e sch ih =>
    intro pre vs pv hSeq hpv ht hwf u
    obtain ⟨no, k⟩ := e
    cases vs with
    | nil => simp [typedVals] at ht
    | cons v vs =>
      simp only [typedVals, Bool.and_eq_true] at ht
      obtain ⟨⟨htv, hsm⟩, ht'⟩ := ht
      have hat : At S pre no k sch := by
        have := schemaOk_at (pre := pre) (sch := sch) (no := no) (k := k) (by rw [← hSeq]; exact hS)
        rw [← hSeq] at this
        exact this
      have hd : defaults ((no, k) :: sch) = k.default :: defaults sch := rfl
      cases hok : v.ok k with
      | true =>
        have hwf' : wfVals sch vs = false := by
          simp only [wfVals, hok, hsm, Bool.true_and] at hwf; exact hwf
        have hf := dec_field hat (tl := defaults sch) hpv v hok hsm u
        have hS' : S = (pre ++ [(no, k)]) ++ sch := by rw [hSeq]; simp
        have ih' := ih (pre ++ [(no, k)]) vs (pv ++ [v]) hS' (by simp [hpv]) ht' hwf' u
        simp only [marshal, (hf []).1, Bool.false_eq_true, if_false]
        refine ⟨ih'.1, ?_⟩
        rw [hd, (hf _).2]
        have e1 : pv ++ v :: defaults sch = (pv ++ [v]) ++ defaults sch := by simp
        rw [e1]
        exact ih'.2
      | false =>
        have hb := dec_field_bad hat (tl := defaults sch) hpv v htv hsm hok u
        simp only [marshal, hb.1, if_true]
        rw [hd]
        exact ⟨trivial, hb.2⟩

theorem unmarshal_marshal_bad {sch : Schema} (hS : schemaOk sch = true) {vs : List PVal}
    (ht : typedVals sch vs = true) (hwf : wfVals sch vs = false) :
    (marshal sch vs).2 = true ∧ unmarshal sch (marshal sch vs).1 = none := by
  have := dec_marshal_bad sch hS sch [] vs [] rfl rfl ht hwf []
  simp only [List.nil_append] at this
  exact ⟨this.1, by rw [unmarshal_eq_dec]; exact this.2⟩

theorem wf_typed : ∀ (sch : Schema) (vs : List PVal), wfVals sch vs = true → typedVals sch vs = true := by
  intro sch
  induction sch with
  | nil => intro vs h; cases vs <;> simp_all [wfVals, typedVals]
  | cons e sch ih =>
    intro vs h
    obtain ⟨no, k⟩ := e
    cases vs with
    | nil => simp [wfVals] at h
    | cons v vs =>
      simp only [wfVals, Bool.and_eq_true] at h
      simp only [typedVals, Bool.and_eq_true]
      refine ⟨⟨?_, h.1.2⟩, ih vs h.2⟩
      have := h.1.1
      cases k <;> cases v <;> simp_all [PVal.ok, PVal.typed]

theorem decodeOp_encodeOp_bad {op : Op} (ht : op.typed = true) (hn : op.wf = false) :
    encodeFails op = true ∧ decodeOp (encodeOp op) = .error .wire := by
  unfold Op.typed at ht
  unfold Op.wf at hn
  cases hs : schemaOf op.typ.toNat with
  | none => simp [hs] at ht
  | some sch =>
    simp only [hs, Bool.and_eq_true, beq_iff_eq] at ht
    obtain ⟨htv, hu⟩ := ht
    simp only [hs, hu, BEq.rfl, Bool.and_true] at hn
    have hb := unmarshal_marshal_bad (schemaOf_ok hs) htv hn
    simp only [encodeFails, encodeOp, hs, marshalMsg, hb.1, if_true, decodeOp, hb.2]
    exact ⟨trivial, trivial⟩

end NodisVerif.Proofs.ProtoWire
