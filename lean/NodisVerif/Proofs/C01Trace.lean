import NodisVerif.Proofs.C01Api
import NodisVerif.Proofs.C01Clean
import NodisVerif.Proofs.C01Int
/-
  C01 helper lemmas: a whole command stream of one client refines the reference machine
  `Spec.Str.run` (either backend, from any `Clean` state, e.g. a freshly opened store).
-/
namespace NodisVerif.Proofs.C01
open NodisVerif
open NodisVerif.Proofs.AListLemmas NodisVerif.Proofs.AListLemmas2
open Store Api
open Spec.Str

/-! ### locks: no command of the family self-deadlocks -/

/-- the running call has not hung and holds only write locks -/
def WLocks (s : MState) : Prop := s.hung = false ∧ ∀ h ∈ s.held, h.2 = true

theorem lockW_wlocks (s : MState) (k : Bytes) (h : WLocks s) : WLocks (lockW s k) := by
  unfold lockW
  split
  · exact h
  · next h1 =>
    split
    · next h2 =>
      exfalso
      rw [List.any_eq_true] at h2
      obtain ⟨x, hx, hk⟩ := h2
      apply h1
      rw [List.any_eq_true]
      exact ⟨x, hx, by simp only [decide_eq_true_eq] at hk ⊢; exact ⟨hk, h.2 x hx⟩⟩
    · refine ⟨h.1, fun x hx => ?_⟩
      rcases List.mem_cons.mp hx with e | e
      · rw [e]
      · exact h.2 x e

/-- `s'` has the lock state of `s` -/
def SameLocks (s s' : MState) : Prop := s'.hung = s.hung ∧ s'.held = s.held

theorem SameLocks.refl (s : MState) : SameLocks s s := ⟨rfl, rfl⟩
theorem SameLocks.trans {a b c : MState} (h1 : SameLocks a b) (h2 : SameLocks b c) : SameLocks a c :=
  ⟨h2.1.trans h1.1, h2.2.trans h1.2⟩
theorem SameLocks.wlocks {s s' : MState} (h : SameLocks s s') (hw : WLocks s) : WLocks s' :=
  ⟨h.1.trans hw.1, by rw [h.2]; exact hw.2⟩

theorem sameLocks_putMeta (s : MState) (k : Bytes) (m : Meta) : SameLocks s (putMeta s k m) := ⟨rfl, rfl⟩
theorem nkBase_locks (s : MState) (k : Bytes) (old : Option Meta) : SameLocks s (nkBase s k old) := by
  unfold nkBase
  cases old <;> cases getMeta ({ s with nextId := s.nextId + 1 + 1 } : MState) k <;>
    first | exact ⟨rfl, rfl⟩ | exact ⟨(unpersist_locks _ _ _).1, (unpersist_locks _ _ _).2⟩
theorem sameLocks_newKeyWith (s : MState) (k : Bytes) (old : Option Meta) (v : Val) :
    SameLocks s (newKeyWith s k old v) := by
  rw [newKeyWith_eq]; exact nkBase_locks s k old
theorem sameLocks_orCreate (s : MState) (k : Bytes) (old : Option Meta) (mk : Option Val) :
    SameLocks s (orCreate s k old mk).1 := by
  unfold orCreate
  cases mk with
  | none => exact ⟨rfl, rfl⟩
  | some v => exact sameLocks_newKeyWith s k old v
theorem sameLocks_emit (s : MState) (op : FeedOp) : SameLocks s (emit s op) := by
  unfold emit; split <;> exact ⟨rfl, rfl⟩
theorem sameLocks_signal (s : MState) (k : Bytes) : SameLocks s (signal s k) := by
  unfold signal modMeta; cases getMeta s k <;> exact ⟨rfl, rfl⟩
theorem sameLocks_setVal (s : MState) (k : Bytes) (v : Val) : SameLocks s (setVal s k v) := by
  unfold setVal
  cases getMeta s k with
  | none => exact ⟨rfl, rfl⟩
  | some m => simp only; split <;> exact ⟨rfl, rfl⟩
theorem sameLocks_setExp (s : MState) (k : Bytes) (e : Int) : SameLocks s (setExp s k e) := by
  rw [setExp_eq]
  cases getMeta s k with
  | none => exact ⟨rfl, rfl⟩
  | some m => exact ⟨rfl, rfl⟩
theorem sameLocks_tail (s : MState) (k : Bytes) (v : Val) (op : FeedOp) :
    SameLocks s (emit (signal (setVal s k v) k) op) :=
  (sameLocks_setVal s k v).trans ((sameLocks_signal _ k).trans (sameLocks_emit _ op))

theorem writeKey_wlocks (s : MState) (now : Int) (k : Bytes) (mk : Option Val) (h : WLocks s) :
    WLocks (writeKey s now k mk).1 := by
  rcases writeKey_shape s now k mk with ⟨_, e⟩ | ⟨m0, _, ⟨e, _⟩ | ⟨e, _⟩ | ⟨v, oid, e, _⟩⟩ <;> rw [e]
  · exact (sameLocks_orCreate _ _ _ _).wlocks h
  · exact ((sameLocks_putMeta _ _ _).trans (sameLocks_orCreate _ _ _ _)).wlocks (lockW_wlocks s k h)
  · exact (sameLocks_putMeta _ _ _).wlocks (lockW_wlocks s k h)
  · exact ((sameLocks_putMeta _ _ _).trans (sameLocks_putMeta _ _ _)).wlocks (lockW_wlocks s k h)

theorem lockR_hung (s : MState) (k : Bytes) : (lockR s k).hung = s.hung := by
  unfold lockR; split <;> rfl

theorem readKey_hung (s : MState) (now : Int) (k : Bytes) : (readKey s now k).1.hung = s.hung := by
  rcases readKey_shape s now k with ⟨_, e⟩ | ⟨m0, _, ⟨e, _⟩ | ⟨e, _⟩ | ⟨v, oid, e, _⟩⟩ <;> rw [e]
  · exact lockR_hung s k
  · exact lockR_hung s k
  · exact lockR_hung s k

theorem delKey_wlocks (s : MState) (k : Bytes) (h : WLocks s) : WLocks (delKey s k) := by
  unfold delKey
  cases AList.get? s.index k with
  | none => exact ⟨h.1, fun x hx => h.2 x (List.mem_filter.mp hx).1⟩
  | some m =>
    simp only
    obtain ⟨u1, u2⟩ := unpersist_locks s k m
    exact ⟨u1.trans h.1, fun x hx => h.2 x (by rw [← u2]; exact (List.mem_filter.mp hx).1)⟩

theorem delKeySig_wlocks (s : MState) (k : Bytes) (h : WLocks s) : WLocks (delKeySig s k) :=
  (sameLocks_emit _ _).wlocks (s := { delKey s k with signalled := k :: s.signalled }) (delKey_wlocks s k h)

theorem commit_wlocks (s : MState) (h : s.hung = false) : WLocks (commit s) :=
  ⟨h, fun x hx => by cases hx⟩


/-! ### updates local to one key -/

/-- `s'` is obtained from `s` by the record-local operations the string commands use on key `k` -/
inductive Upd (k : Bytes) : MState → MState → Prop
  | refl (s : MState) : Upd k s s
  | setVal (s : MState) (v : Val) : Upd k s (setVal s k v)
  | setExp (s : MState) (e : Int) : Upd k s (setExp s k e)
  | signal (s : MState) : Upd k s (signal s k)
  | emit (s : MState) (op : FeedOp) : Upd k s (emit s op)
  | newKey (s : MState) (old : Option Meta) (v : Val) : Upd k s (newKeyWith s k old v)
  | trans {a b c : MState} : Upd k a b → Upd k b c → Upd k a c

theorem upd_tail (k : Bytes) (s : MState) (v : Val) (op : FeedOp) : Upd k s (emit (signal (setVal s k v) k) op) :=
  .trans (.setVal s v) (.trans (.signal _) (.emit _ op))

/-- logically, `s'` differs from `s` at most in the record of `k` -/
abbrev Frame (s s' : MState) (k : Bytes) : Prop := FrameOn [k] s s'

theorem Frame.lookup {s s' : MState} {k : Bytes} (h : Frame s s' k) (now : Int) (k' : Bytes) (hk : k' ≠ k) :
    Proofs.C01.lookup s' now k' = Proofs.C01.lookup s now k' := frameOn_lookup h now k' (by simpa using hk)

theorem frame_writeKey (s : MState) (now : Int) (k : Bytes) (mk : Option Val) : Frame s (writeKey s now k mk).1 k :=
  frameOn_writeKey s now k mk List.mem_cons_self

theorem frame_of (s s' : MState) (k : Bytes) (hd : SameDisk s s')
    (hg : ∀ k', k' ≠ k → getMeta s' k' = getMeta s k') : Frame s s' k :=
  frameOn_same hd (fun k' h => hg k' (by simpa using h))

theorem upd_frame_clean {k : Bytes} {s s' : MState} (h : Upd k s s') : Clean s → Frame s s' k ∧ Clean s' := by
  induction h with
  | refl s => intro hc; exact ⟨FrameOn.refl [k] s, hc⟩
  | setVal s v => intro hc; obtain ⟨c, sd, fr⟩ := clean_setVal s k v hc; exact ⟨frame_of _ _ k sd fr, c⟩
  | setExp s e => intro hc; obtain ⟨c, sd, fr⟩ := clean_setExp s k e hc; exact ⟨frame_of _ _ k sd fr, c⟩
  | signal s => intro hc; exact ⟨frameOn_signal s k List.mem_cons_self, clean_signal s k hc⟩
  | emit s op => intro hc; exact ⟨frameOn_emit s op, clean_emit s op hc⟩
  | newKey s old v =>
    intro hc
    exact ⟨frameOn_newKeyWith s k old v List.mem_cons_self, clean_newKeyWith s k old v hc⟩
  | trans _ _ ih1 ih2 =>
    intro hc
    obtain ⟨f1, c1⟩ := ih1 hc
    obtain ⟨f2, c2⟩ := ih2 c1
    exact ⟨FrameOn.trans f1 f2, c2⟩

theorem upd_sameLocks {k : Bytes} {s s' : MState} (h : Upd k s s') : SameLocks s s' := by
  induction h with
  | refl s => exact SameLocks.refl s
  | setVal s v => exact sameLocks_setVal s k v
  | setExp s e => exact sameLocks_setExp s k e
  | signal s => exact sameLocks_signal s k
  | emit s op => exact sameLocks_emit s op
  | newKey s old v => exact sameLocks_newKeyWith s k old v
  | trans _ _ ih1 ih2 => exact ih1.trans ih2

/-- every writing string command: `writeKey`, then updates local to the key -/
theorem set_upd (s : MState) (now : Int) (k v : Bytes) (keep : Bool) :
    Upd k (writeKey s now k (some (.str []))).1 (Api.set s now k v keep).1 := by
  unfold Api.set
  generalize writeKey s now k (some (.str [])) = w
  obtain ⟨s1, b⟩ := w
  simp only
  cases asStr s1 k with
  | none => exact .refl _
  | some o =>
    simp only
    cases keep with
    | true => exact upd_tail k s1 _ _
    | false => exact .trans (.setVal s1 _) (.trans (.setExp _ 0) (.trans (.signal _) (.emit _ _)))

theorem getSet_upd (s : MState) (now : Int) (k v : Bytes) :
    Upd k (writeKey s now k none).1 (Api.getSet s now k v).1 := by
  unfold Api.getSet
  generalize writeKey s now k none = w
  obtain ⟨s1, b⟩ := w
  simp only
  cases b with
  | false =>
    exact .trans (.newKey s1 none _) (.trans (.setVal _ _) (.trans (.setExp _ 0) (.trans (.signal _) (.emit _ _))))
  | true =>
    simp only [Bool.not_true, Bool.false_eq_true, if_false]
    cases asStr s1 k with
    | none => exact .refl _
    | some o => exact .trans (.setVal s1 _) (.trans (.setExp _ 0) (.trans (.signal _) (.emit _ _)))

theorem setNX_upd (s : MState) (now : Int) (k v : Bytes) (keep : Bool) :
    Upd k (writeKey s now k none).1 (Api.setNX s now k v keep).1 := by
  unfold Api.setNX
  generalize writeKey s now k none = w
  obtain ⟨s1, b⟩ := w
  simp only
  cases b with
  | true => exact .refl _
  | false =>
    simp only [Bool.false_eq_true, if_false]
    cases keep with
    | true => exact .trans (.newKey s1 none _) (upd_tail k _ _ _)
    | false => exact .trans (.newKey s1 none _) (.trans (.setExp _ 0) (upd_tail k _ _ _))

theorem append_upd (s : MState) (now : Int) (k d : Bytes) :
    Upd k (writeKey s now k (some (.str []))).1 (Api.append s now k d).1 := by
  unfold Api.append
  generalize writeKey s now k (some (.str [])) = w
  obtain ⟨s1, b⟩ := w
  simp only
  cases asStr s1 k with
  | none => exact .refl _
  | some o => exact upd_tail k s1 _ _

theorem setRange_upd (s : MState) (now : Int) (k : Bytes) (off : Int) (d : Bytes) :
    Upd k (writeKey s now k (some (.str []))).1 (Api.setRange s now k off d).1 := by
  unfold Api.setRange
  generalize writeKey s now k (some (.str [])) = w
  obtain ⟨s1, b⟩ := w
  simp only
  cases asStr s1 k with
  | none => exact .refl _
  | some o =>
    simp only
    cases DsStr.setRange o off d with
    | none => exact .refl _
    | some p => exact upd_tail k s1 _ _

theorem setBit_upd (s : MState) (now : Int) (k : Bytes) (off : Int) (x : Bool) :
    Upd k (writeKey s now k (some (.str []))).1 (Api.setBit s now k off x).1 := by
  unfold Api.setBit
  generalize writeKey s now k (some (.str [])) = w
  obtain ⟨s1, b⟩ := w
  simp only
  cases asStr s1 k with
  | none => exact .refl _
  | some o => exact upd_tail k s1 _ _

theorem addInt_upd (s : MState) (now : Int) (k : Bytes) (d : Int) (neg sw : Bool) :
    Upd k (writeKey s now k (some (.str []))).1 (Api.addInt s now k d neg sw).1 := by
  unfold Api.addInt
  generalize writeKey s now k (some (.str [])) = w
  obtain ⟨s1, b⟩ := w
  simp only
  cases asStr s1 k with
  | none => exact .refl _
  | some o =>
    simp only
    cases (if neg = true then DsStr.decr o d else DsStr.incr o d) with
    | none => exact .refl _
    | some p => exact upd_tail k s1 _ _

/-- what a command shaped `writeKey; Upd` preserves -/
theorem wk_upd_summary {s s' : MState} {now : Int} {k : Bytes} {mk : Option Val}
    (h : Upd k (writeKey s now k mk).1 s') (hc : Clean s) (hw : WLocks s) :
    Frame s s' k ∧ Clean s' ∧ WLocks s' := by
  have f1 := frame_writeKey s now k mk
  obtain ⟨f2, c2⟩ := upd_frame_clean h (clean_writeKey s now k mk hc)
  exact ⟨FrameOn.trans f1 f2, c2, (upd_sameLocks h).wlocks (writeKey_wlocks s now k mk hw)⟩

/-! ### the model's command interpreter and the refinement relation -/

/-- how the embedded API serves one command of the reference machine -/
def exec (s : MState) (now : Int) : Cmd → MState × Out
  | .set k v => Api.set s now k v false
  | .get k => Api.get s now k
  | .getset k v => Api.getSet s now k v
  | .setnx k v => Api.setNX s now k v false
  | .mset kvs => Api.mset s now (flat kvs)
  | .append k d => Api.append s now k d
  | .strlen k => Api.strLen s now k
  | .setrange k off d => Api.setRange s now k off d
  | .getbit k off => Api.getBit s now k off
  | .setbit k off x => Api.setBit s now k off x
  | .incrby k d => Api.addInt s now k d false
  | .decrby k d => Api.addInt s now k d true
  | .del keys => Api.del s now keys
  | .exists_ keys => Api.exists_ s now keys

/-- one call as the driver (Main.lean) performs it: empty lock set before, `HANG` if the call
    deadlocked on itself, locks released and backend sharing restored after -/
def driverStep (s : MState) (now : Int) (c : Cmd) : MState × Out :=
  let r := exec { s with signalled := [], held := [], hung := false } now c
  if r.1.hung then (Store.syncShared r.1, .hang) else (Store.syncShared { r.1 with held := [] }, r.2)

/-- a command stream -/
def driverRun : MState → Int → List Cmd → MState × List Out
  | s, _, [] => (s, [])
  | s, now, c :: rest =>
    ((driverRun (driverStep s now c).1 now rest).1, (driverStep s now c).2 :: (driverRun (driverStep s now c).1 now rest).2)

/-- reply correspondence: API result ↔ Redis reply -/
def Matches : Out → Reply → Prop
  | .unit, .ok => True
  | .bytes none, .nil => True
  | .bytes (some b), .bulk b' => b = b'
  | .int n, .int n' => n = n'
  | .bool true, .int n' => n' = 1
  | .bool false, .int n' => n' = 0
  | .many [.int n, .err false], .int n' => n = n'
  | .many [.int _, .err true], .err => True
  | _, _ => False

/-- the visible keyspace of the store is exactly the reference keyspace: every live key holds a
    filled string, and it is the reference's byte string -/
def Refines (s : MState) (now : Int) (ks : Keyspace) : Prop :=
  ∀ k, live s now k = (Keyspace.get ks k).map Val.str

/-- the inputs outside the finding regions of sections 2–4 (F4, F8, F10, negative offsets) and
    inside the part of SETRANGE the model follows -/
def Safe (ks : Keyspace) : Cmd → Prop
  | .setrange k off d =>
    0 ≤ off ∧ inInt64 (off + (d.length : Int)) = true ∧
    off + (d.length : Int) - (((Keyspace.get ks k).getD []).length : Int) ≤ 1073741824 ∧
    (d ≠ [] ∨ (Keyspace.exists_ ks k = true ∧ off ≤ (((Keyspace.get ks k).getD []).length : Int)))
  | .getbit _ off => 0 ≤ off
  | .setbit _ off _ => 0 ≤ off
  | .incrby _ d => inInt64 d = true
  | .decrby _ d => inInt64 d = true ∧ d ≠ int64Min
  | _ => True

/-- safety of a whole stream, evaluated along the reference run -/
def SafeRun : Keyspace → List Cmd → Prop
  | _, [] => True
  | ks, c :: rest => Safe ks c ∧ SafeRun (step ks c).1 rest

theorem refines_str {s : MState} {now : Int} {ks : Keyspace} (h : Refines s now ks) (k : Bytes) :
    (∀ v0, live s now k = some v0 → isStrVal v0 = true) ∧
    strOf (strAt s now k) = some ((Keyspace.get ks k).getD []) := by
  constructor
  · intro v0 hl
    rw [h k] at hl
    cases hg : Keyspace.get ks k with
    | none => rw [hg] at hl; cases hl
    | some b => rw [hg] at hl; cases hl; rfl
  · unfold strAt
    rw [h k]
    cases Keyspace.get ks k <;> rfl

theorem refines_same {s s' : MState} {now : Int} {ks : Keyspace} (h : Refines s now ks)
    (hl : ∀ k, lookup s' now k = lookup s now k) : Refines s' now ks :=
  fun k => by rw [live_congr (hl k)]; exact h k

theorem refines_write {s s' : MState} {now : Int} {ks : Keyspace} {k : Bytes} (h : Refines s now ks)
    (hf : ∀ k', k' ≠ k → lookup s' now k' = lookup s now k') (nv : Bytes) (hk : live s' now k = some (.str nv)) :
    Refines s' now (Keyspace.set ks k nv) := by
  intro k'
  rw [ks_get_set]
  by_cases e : k' = k
  · subst e; rw [hk]; simp
  · rw [live_congr (hf k' e), h k']; simp [e]

theorem exists_of_refines {s : MState} {now : Int} {ks : Keyspace} (h : Refines s now ks) (k : Bytes) :
    Keyspace.exists_ ks k = (live s now k).isSome := by
  unfold Keyspace.exists_
  rw [h k]
  cases Keyspace.get ks k <;> rfl

/-- the invariant carried along a stream -/
structure Inv (s : MState) : Prop where
  clean : Clean s
  sorted : IndexSorted s

/-- result of one refinement step -/
structure StepOk (s' : MState) (out : Out) (now : Int) (ks' : Keyspace) (rep : Reply) : Prop where
  reply : Matches out rep
  refines : Refines s' now ks'
  inv : Inv s'
  nohang : s'.hung = false

/-- the common part of the one-key writing commands -/
theorem write_step {s s' : MState} {now : Int} {k : Bytes} {mk : Option Val}
    (hu : Upd k (writeKey s now k mk).1 s') (hi : Inv s) (hw : WLocks s) (hsorted : IndexSorted s') :
    Inv s' ∧ s'.hung = false ∧ ∀ k', k' ≠ k → lookup s' now k' = lookup s now k' := by
  obtain ⟨f, hp, hw'⟩ := wk_upd_summary hu hi.clean hw
  exact ⟨⟨hp, hsorted⟩, hw'.1, fun k' h => f.lookup now k' h⟩


/-! ### reference-side lemmas -/

theorem ks_get_setMany : ∀ (kvs : List (Bytes × Bytes)) (ks : Keyspace) (x : Bytes),
    Keyspace.get (Keyspace.setMany ks kvs) x =
      match lastVal kvs x with
      | some v => some v
      | none => Keyspace.get ks x := by
  intro kvs
  induction kvs with
  | nil => intro ks x; rfl
  | cons a rest ih =>
    intro ks x
    obtain ⟨k, v⟩ := a
    simp only [Keyspace.setMany, lastVal]
    rw [ih]
    cases lastVal rest x with
    | some w => rfl
    | none =>
      simp only
      rw [ks_get_set]
      by_cases e : x = k <;> simp [e]

theorem ks_get_delMany : ∀ (keys : List Bytes) (ks : Keyspace) (x : Bytes),
    Keyspace.get (Keyspace.delMany ks keys).1 x = if x ∈ keys then none else Keyspace.get ks x := by
  intro keys
  induction keys with
  | nil => intro ks x; simp [Keyspace.delMany]
  | cons key rest ih =>
    intro ks x
    simp only [Keyspace.delMany]
    rw [ih, ks_get_del]
    by_cases h1 : x ∈ rest
    · simp [h1]
    · by_cases h2 : x = key
      · simp [h2]
      · simp [h1, h2]

theorem spec_getbit_nil (n : Nat) : Spec.Str.getbit [] n = false := by
  unfold Spec.Str.getbit
  simp only [List.getD_eq_getElem?_getD, List.getElem?_nil, Option.getD_none]
  exact bitOf_zero _

/-! ### model-side fold invariants -/

theorem del_fold_inv (now : Int) : ∀ (keys : List Bytes) (s : MState) (c : Int), Clean s → IndexSorted s → WLocks s →
    Clean (keys.foldl (delStep now) (s, c)).1 ∧ WLocks (keys.foldl (delStep now) (s, c)).1 := by
  intro keys
  induction keys with
  | nil => intro s c hp _ hw; exact ⟨hp, hw⟩
  | cons key rest ih =>
    intro s c hp hs hw
    rw [List.foldl_cons]
    have hp1 := clean_writeKey s now key none hp
    have hs1 := writeKey_sorted s now key none hs
    have hw1 := writeKey_wlocks s now key none hw
    unfold delStep
    simp only
    split
    · exact ih _ _ hp1 hs1 hw1
    · exact ih _ _ (clean_emit _ _ (clean_congr (s := delKey (writeKey s now key none).1 key) (fun _ => rfl) ⟨rfl, rfl⟩
        (Nat.le_refl _) (clean_delKey _ key hs1 hp1))) (delKeySig_sorted _ key hs1) (delKeySig_wlocks _ key hw1)

theorem exists_fold_inv (now : Int) : ∀ (keys : List Bytes) (s : MState) (c : Int),
    (Clean s → Clean (keys.foldl (existsStep now) (s, c)).1) ∧
    (keys.foldl (existsStep now) (s, c)).1.hung = s.hung := by
  intro keys
  induction keys with
  | nil => intro s c; exact ⟨fun h => h, rfl⟩
  | cons key rest ih =>
    intro s c
    rw [List.foldl_cons]
    obtain ⟨i1, i2⟩ := ih (existsStep now (s, c) key).1 (existsStep now (s, c) key).2
    exact ⟨fun h => i1 (clean_readKey s now key h), i2.trans (readKey_hung s now key)⟩

theorem set_inv (s : MState) (now : Int) (k v : Bytes) (keep : Bool) (hi : Inv s) (hw : WLocks s) :
    Inv (Api.set s now k v keep).1 ∧ (Api.set s now k v keep).1.hung = false := by
  obtain ⟨h1, h2, _⟩ := write_step (set_upd s now k v keep) hi hw (set_sorted s now k v keep hi.sorted)
  exact ⟨h1, h2⟩

theorem mset_go_inv (now : Int) : ∀ (kvs : List (Bytes × Bytes)) (s : MState), Inv s → WLocks s →
    Inv (Api.mset.go now (flat kvs) s).1 ∧ (Api.mset.go now (flat kvs) s).1.hung = false := by
  intro kvs
  induction kvs with
  | nil => intro s hi hw; rw [mset_go_nil]; exact ⟨hi, hw.1⟩
  | cons a rest ih =>
    intro s hi hw
    obtain ⟨k, v⟩ := a
    obtain ⟨i1, i2⟩ := set_inv s now k v false hi hw
    rw [mset_go_cons]
    split
    · exact ih _ ⟨i1.clean, i1.sorted⟩ (commit_wlocks _ i2)
    · exact ⟨i1, i2⟩

/-- MSET from a `Clean` state: every named key ends up holding the last value assigned to it
    (no deadline), every other record is untouched -/
theorem mset_clean (now : Int) : ∀ (kvs : List (Bytes × Bytes)) (s : MState), Inv s → WLocks s →
    (∀ p ∈ kvs, ∀ v0, live s now p.1 = some v0 → isStrVal v0 = true) →
    (Api.mset.go now (flat kvs) s).2 = .unit ∧
    ∀ x, lookup (Api.mset.go now (flat kvs) s).1 now x =
      match lastVal kvs x with
      | some v => some (some (.str v), 0, true)
      | none => lookup s now x := by
  intro kvs
  induction kvs with
  | nil => intro s _ _ _; rw [mset_go_nil]; exact ⟨rfl, fun _ => rfl⟩
  | cons a rest ih =>
    intro s hi hw hs
    obtain ⟨k, v⟩ := a
    have hsk : ∀ v0, live s now k = some v0 → isStrVal v0 = true := hs (k, v) List.mem_cons_self
    obtain ⟨h1, h2, h3⟩ := set_ok s now k v false hsk
    obtain ⟨i1, i2, i3⟩ := write_step (set_upd s now k v false) hi hw (set_sorted s now k v false hi.sorted)
    rw [mset_go_cons, if_pos (by rw [h1]; rfl)]
    have hk : lookup (commit (Api.set s now k v false).1) now k = some (some (.str v), 0, true) :=
      lookup_of_hot (hot_commit h2) h3
    have ho : ∀ x, x ≠ k → lookup (commit (Api.set s now k v false).1) now x = lookup s now x := i3
    have hs' : ∀ p ∈ rest, ∀ v0, live (commit (Api.set s now k v false).1) now p.1 = some v0 → isStrVal v0 = true := by
      intro p hpm v0 hl
      by_cases e : p.1 = k
      · rw [e, live_eq_of_lookup, hk] at hl
        cases hl; rfl
      · rw [live_congr (ho p.1 e)] at hl
        exact hs p (List.mem_cons_of_mem _ hpm) v0 hl
    obtain ⟨j1, j2⟩ := ih (commit (Api.set s now k v false).1)
      ⟨clean_congr (fun _ => rfl) ⟨rfl, rfl⟩ (Nat.le_refl _) i1.clean, i1.sorted⟩ (commit_wlocks _ i2) hs'
    refine ⟨j1, fun x => ?_⟩
    rw [j2 x]
    simp only [lastVal]
    cases lastVal rest x with
    | some w => rfl
    | none =>
      simp only
      by_cases e : x = k
      · subst e; simp only [if_true]; exact hk
      · simp only [e, if_false]; exact ho x e

theorem setRange_result_some (s : DsStr.S) (off : Int) (d : Bytes) (r : DsStr.S × Int)
    (h : DsStr.setRange s off d = some r) (h0 : 0 ≤ off)
    (hw : inInt64 (off + (d.length : Int)) = true) (hc : s.isSome = true ∨ d ≠ []) :
    r.1 = some (DsStr.bytes r.1) := by
  unfold DsStr.setRange at h
  rw [if_neg (by omega)] at h
  simp only [wrap64_id _ hw] at h
  split at h
  · cases h
  · split at h
    · cases h
    · cases s with
      | some b =>
        simp only [Option.some.injEq] at h
        rw [← h]; rfl
      | none =>
        have hd : d ≠ [] := by
          rcases hc with hc | hc
          · cases hc
          · exact hc
        have hg : off + (d.length : Int) > ((DsStr.bytes none).length : Int) := by
          cases d with
          | nil => exact absurd rfl hd
          | cons a t => simp only [List.length_cons, DsStr.bytes, Option.getD_none, List.length_nil]; omega
        simp only [hg, if_true, Option.some.injEq] at h
        rw [← h]; rfl


/-! ### one command refines one reference step -/

theorem read_inv (s : MState) (now : Int) (k : Bytes) (hi : Inv s) (hw : WLocks s) :
    Inv (readKey s now k).1 ∧ (readKey s now k).1.hung = false :=
  ⟨⟨clean_readKey s now k hi.clean, readKey_sorted s now k hi.sorted⟩,
    (readKey_hung s now k).trans hw.1⟩

theorem ref_set (s : MState) (now : Int) (ks : Keyspace) (k v : Bytes) (hi : Inv s) (hw : WLocks s)
    (hR : Refines s now ks) :
    StepOk (exec s now (.set k v)).1 (exec s now (.set k v)).2 now (step ks (.set k v)).1 (step ks (.set k v)).2 := by
  obtain ⟨hstr, _⟩ := refines_str hR k
  obtain ⟨h1, h2, _⟩ := set_ok s now k v false hstr
  obtain ⟨i1, i2, i3⟩ := write_step (set_upd s now k v false) hi hw (set_sorted s now k v false hi.sorted)
  exact ⟨by show Matches (Api.set s now k v false).2 .ok; rw [h1]; trivial,
    refines_write hR i3 v (live_of_hot h2), i1, i2⟩

theorem ref_get (s : MState) (now : Int) (ks : Keyspace) (k : Bytes) (hi : Inv s) (hw : WLocks s)
    (hR : Refines s now ks) :
    StepOk (exec s now (.get k)).1 (exec s now (.get k)).2 now (step ks (.get k)).1 (step ks (.get k)).2 := by
  obtain ⟨g1, g2⟩ := get_live s now k
  obtain ⟨i1, i2⟩ := read_inv s now k hi hw
  refine ⟨?_, ?_, ?_, ?_⟩
  · show Matches (Api.get s now k).2 (match Keyspace.get ks k with | some b => .bulk b | none => .nil)
    rw [g1, hR k]
    cases Keyspace.get ks k with
    | none => trivial
    | some b => exact rfl
  · show Refines (Api.get s now k).1 now ks
    rw [g2]; exact refines_same hR (lookup_readKey s now k)
  · show Inv (Api.get s now k).1
    rw [g2]; exact i1
  · show (Api.get s now k).1.hung = false
    rw [g2]; exact i2

theorem ref_getset (s : MState) (now : Int) (ks : Keyspace) (k v : Bytes) (hi : Inv s) (hw : WLocks s)
    (hR : Refines s now ks) :
    StepOk (exec s now (.getset k v)).1 (exec s now (.getset k v)).2 now (step ks (.getset k v)).1
      (step ks (.getset k v)).2 := by
  obtain ⟨hstr, hso⟩ := refines_str hR k
  obtain ⟨h1, h2, _⟩ := getSet_ok s now k v hstr
  obtain ⟨i1, i2, i3⟩ := write_step (getSet_upd s now k v) hi hw (getSet_sorted s now k v hi.sorted)
  refine ⟨?_, refines_write hR i3 v (live_of_hot h2), i1, i2⟩
  show Matches (Api.getSet s now k v).2 (match Keyspace.get ks k with | some b => .bulk b | none => .nil)
  rw [h1, hR k]
  cases Keyspace.get ks k with
  | none => trivial
  | some b => exact rfl

theorem ref_setnx (s : MState) (now : Int) (ks : Keyspace) (k v : Bytes) (hi : Inv s) (hw : WLocks s)
    (hR : Refines s now ks) :
    StepOk (exec s now (.setnx k v)).1 (exec s now (.setnx k v)).2 now (step ks (.setnx k v)).1
      (step ks (.setnx k v)).2 := by
  obtain ⟨i1, i2, i3⟩ := write_step (setNX_upd s now k v false) hi hw (setNX_sorted s now k v false hi.sorted)
  have hex := exists_of_refines hR k
  show StepOk (Api.setNX s now k v false).1 (Api.setNX s now k v false).2 now
    (if Keyspace.exists_ ks k = true then (ks, Reply.int 0) else (Keyspace.set ks k v, Reply.int 1)).1
    (if Keyspace.exists_ ks k = true then (ks, Reply.int 0) else (Keyspace.set ks k v, Reply.int 1)).2
  rw [hex]
  cases hl : live s now k with
  | none =>
    obtain ⟨h1, h2, _⟩ := setNX_absent s now k v false hl
    simp only [Option.isSome_none, Bool.false_eq_true, if_false]
    exact ⟨by rw [h1]; exact rfl, refines_write hR i3 v (live_of_hot h2), i1, i2⟩
  | some v0 =>
    obtain ⟨h1, h2⟩ := setNX_present s now k v false v0 hl
    simp only [Option.isSome_some, if_true]
    exact ⟨by rw [h1]; exact rfl, refines_same hR h2, i1, i2⟩

theorem ref_mset (s : MState) (now : Int) (ks : Keyspace) (kvs : List (Bytes × Bytes)) (hi : Inv s) (hw : WLocks s)
    (hR : Refines s now ks) :
    StepOk (exec s now (.mset kvs)).1 (exec s now (.mset kvs)).2 now (step ks (.mset kvs)).1
      (step ks (.mset kvs)).2 := by
  show StepOk (Api.mset s now (flat kvs)).1 (Api.mset s now (flat kvs)).2 now (Keyspace.setMany ks kvs) .ok
  rw [mset_eq]
  obtain ⟨m1, m2⟩ := mset_clean now kvs s hi hw (fun p _ => (refines_str hR p.1).1)
  obtain ⟨i1, i2⟩ := mset_go_inv now kvs s hi hw
  refine ⟨by rw [m1]; trivial, ?_, i1, i2⟩
  intro x
  rw [live_eq_of_lookup, m2 x, ks_get_setMany]
  cases lastVal kvs x with
  | some v => rfl
  | none =>
    simp only
    rw [← live_eq_of_lookup, hR x]

theorem ref_append (s : MState) (now : Int) (ks : Keyspace) (k d : Bytes) (hi : Inv s) (hw : WLocks s)
    (hR : Refines s now ks) :
    StepOk (exec s now (.append k d)).1 (exec s now (.append k d)).2 now (step ks (.append k d)).1
      (step ks (.append k d)).2 := by
  obtain ⟨hstr, hso⟩ := refines_str hR k
  obtain ⟨h1, h2, _⟩ := append_ok s now k d hstr
  obtain ⟨i1, i2, i3⟩ := write_step (append_upd s now k d) hi hw (append_sorted s now k d hi.sorted)
  rw [hso] at h1 h2
  have hval : DsStr.append (some ((Keyspace.get ks k).getD [])) d =
      ((some (Spec.Str.append ((Keyspace.get ks k).getD []) d) : DsStr.S),
       (((Spec.Str.append ((Keyspace.get ks k).getD []) d).length : Nat) : Int)) := rfl
  rw [hval] at h1 h2
  exact ⟨by show Matches (Api.append s now k d).2 _; rw [h1]; exact rfl,
    refines_write hR i3 _ (live_of_hot h2), i1, i2⟩

theorem ref_strlen (s : MState) (now : Int) (ks : Keyspace) (k : Bytes) (hi : Inv s) (hw : WLocks s)
    (hR : Refines s now ks) :
    StepOk (exec s now (.strlen k)).1 (exec s now (.strlen k)).2 now (step ks (.strlen k)).1 (step ks (.strlen k)).2 := by
  obtain ⟨g1, g2⟩ := strLen_live s now k
  obtain ⟨i1, i2⟩ := read_inv s now k hi hw
  refine ⟨?_, ?_, ?_, ?_⟩
  · show Matches (Api.strLen s now k).2 (.int (Spec.Str.strlen ((Keyspace.get ks k).getD [])))
    rw [g1, hR k]
    cases Keyspace.get ks k with
    | none => exact rfl
    | some b => exact rfl
  · show Refines (Api.strLen s now k).1 now ks
    rw [g2]; exact refines_same hR (lookup_readKey s now k)
  · show Inv (Api.strLen s now k).1
    rw [g2]; exact i1
  · show (Api.strLen s now k).1.hung = false
    rw [g2]; exact i2

theorem ref_getbit (s : MState) (now : Int) (ks : Keyspace) (k : Bytes) (off : Int) (hi : Inv s) (hw : WLocks s)
    (hR : Refines s now ks) (hs : Safe ks (.getbit k off)) :
    StepOk (exec s now (.getbit k off)).1 (exec s now (.getbit k off)).2 now (step ks (.getbit k off)).1
      (step ks (.getbit k off)).2 := by
  have h0 : 0 ≤ off := hs
  obtain ⟨g1, g2⟩ := getBit_live s now k off
  obtain ⟨i1, i2⟩ := read_inv s now k hi hw
  show StepOk (Api.getBit s now k off).1 (Api.getBit s now k off).2 now
    (if off < 0 then (ks, Reply.err) else (ks, Reply.int (if Spec.Str.getbit ((Keyspace.get ks k).getD []) off.toNat then 1 else 0))).1
    (if off < 0 then (ks, Reply.err) else (ks, Reply.int (if Spec.Str.getbit ((Keyspace.get ks k).getD []) off.toNat then 1 else 0))).2
  rw [if_neg (by omega)]
  refine ⟨?_, ?_, ?_, ?_⟩
  · rw [g1, hR k]
    cases Keyspace.get ks k with
    | none =>
      show (0 : Int) = if Spec.Str.getbit [] off.toNat = true then 1 else 0
      rw [spec_getbit_nil]; rfl
    | some b => exact getBit_agree (some b) off h0
  · rw [g2]; exact refines_same hR (lookup_readKey s now k)
  · rw [g2]; exact i1
  · rw [g2]; exact i2

theorem ref_setbit (s : MState) (now : Int) (ks : Keyspace) (k : Bytes) (off : Int) (x : Bool) (hi : Inv s)
    (hw : WLocks s) (hR : Refines s now ks) (hs : Safe ks (.setbit k off x)) :
    StepOk (exec s now (.setbit k off x)).1 (exec s now (.setbit k off x)).2 now (step ks (.setbit k off x)).1
      (step ks (.setbit k off x)).2 := by
  have h0 : 0 ≤ off := hs
  obtain ⟨hstr, hso⟩ := refines_str hR k
  obtain ⟨h1, h2, _⟩ := setBit_ok s now k off x hstr
  obtain ⟨i1, i2, i3⟩ := write_step (setBit_upd s now k off x) hi hw (setBit_sorted s now k off x hi.sorted)
  rw [hso, setBit_agree (some ((Keyspace.get ks k).getD [])) off x h0] at h1 h2
  show StepOk (Api.setBit s now k off x).1 (Api.setBit s now k off x).2 now
    (match Spec.Str.setbit? ((Keyspace.get ks k).getD []) off x with
      | none => (ks, Reply.err)
      | some (v, old) => (Keyspace.set ks k v, Reply.int (if old then 1 else 0))).1
    (match Spec.Str.setbit? ((Keyspace.get ks k).getD []) off x with
      | none => (ks, Reply.err)
      | some (v, old) => (Keyspace.set ks k v, Reply.int (if old then 1 else 0))).2
  unfold Spec.Str.setbit?
  rw [if_neg (by omega)]
  exact ⟨by rw [h1]; exact rfl, refines_write hR i3 _ (live_of_hot h2), i1, i2⟩


theorem ref_setrange (s : MState) (now : Int) (ks : Keyspace) (k : Bytes) (off : Int) (d : Bytes) (hi : Inv s)
    (hw : WLocks s) (hR : Refines s now ks) (hs : Safe ks (.setrange k off d)) :
    StepOk (exec s now (.setrange k off d)).1 (exec s now (.setrange k off d)).2 now (step ks (.setrange k off d)).1
      (step ks (.setrange k off d)).2 := by
  obtain ⟨h0, hwrap, hgrow, hreg⟩ := hs
  obtain ⟨hstr, hso⟩ := refines_str hR k
  have hok := setRange_ok s now k off d hstr
  obtain ⟨i1, i2, i3⟩ := write_step (setRange_upd s now k off d) hi hw (setRange_sorted s now k off d hi.sorted)
  rw [hso] at hok
  have hbytes : DsStr.bytes (some ((Keyspace.get ks k).getD [])) = (Keyspace.get ks k).getD [] := rfl
  have hr : d ≠ [] ∨ off ≤ DsStr.len (some ((Keyspace.get ks k).getD [])) := by
    rcases hreg with h | ⟨_, h⟩
    · exact Or.inl h
    · exact Or.inr h
  obtain ⟨r, e, hb, hl⟩ := setRange_agree (some ((Keyspace.get ks k).getD [])) off d h0 hwrap hgrow hr
  have hsome : r.1 = some (DsStr.bytes r.1) :=
    setRange_result_some (some ((Keyspace.get ks k).getD [])) off d r e h0 hwrap (Or.inl rfl)
  obtain ⟨v', n⟩ := r
  rw [e] at hok
  obtain ⟨h1, h2, _⟩ := hok
  simp only at hb hl hsome
  rw [hsome, hb] at h2
  rw [hbytes] at hb hl h2
  show StepOk (Api.setRange s now k off d).1 (Api.setRange s now k off d).2 now
    (match Spec.Str.setrange? ((Keyspace.get ks k).getD []) off d with
      | none => (ks, Reply.err)
      | some v => if d = [] then (ks, Reply.int v.length) else (Keyspace.set ks k v, Reply.int v.length)).1
    (match Spec.Str.setrange? ((Keyspace.get ks k).getD []) off d with
      | none => (ks, Reply.err)
      | some v => if d = [] then (ks, Reply.int v.length) else (Keyspace.set ks k v, Reply.int v.length)).2
  unfold Spec.Str.setrange?
  rw [if_neg (by omega)]
  simp only
  by_cases hd : d = []
  · rw [if_pos hd]
    refine ⟨by rw [h1, hl]; exact rfl, ?_, i1, i2⟩
    -- nothing was written: the value is the old one
    have hv : Spec.Str.setrange ((Keyspace.get ks k).getD []) off.toNat d = (Keyspace.get ks k).getD [] := by
      unfold Spec.Str.setrange; rw [if_pos hd]
    have hex : Keyspace.exists_ ks k = true := by
      rcases hreg with h | ⟨h, _⟩
      · exact absurd hd h
      · exact h
    intro k'
    by_cases e' : k' = k
    · subst e'
      rw [live_of_hot h2, hv]
      unfold Keyspace.exists_ at hex
      cases hg : Keyspace.get ks k' with
      | none => rw [hg] at hex; cases hex
      | some b => rfl
    · rw [live_congr (i3 k' e')]; exact hR k'
  · rw [if_neg hd]
    exact ⟨by rw [h1, hl]; exact rfl, refines_write hR i3 _ (live_of_hot h2), i1, i2⟩

theorem ref_counter (s : MState) (now : Int) (ks : Keyspace) (k : Bytes) (d : Int) (neg : Bool) (hi : Inv s)
    (hw : WLocks s) (hR : Refines s now ks) (hd : inInt64 (if neg then -d else d) = true) :
    StepOk (Api.addInt s now k d neg).1 (Api.addInt s now k d neg).2 now
      (match Spec.Str.incrby ((Keyspace.get ks k).getD []) (if neg then -d else d) with
        | none => (ks, Reply.err)
        | some (t, n) => (Keyspace.set ks k t, Reply.int n)).1
      (match Spec.Str.incrby ((Keyspace.get ks k).getD []) (if neg then -d else d) with
        | none => (ks, Reply.err)
        | some (t, n) => (Keyspace.set ks k t, Reply.int n)).2 := by
  obtain ⟨hstr, hso⟩ := refines_str hR k
  have hok := addInt_ok s now k d neg false hstr
  obtain ⟨i1, i2, i3⟩ := write_step (addInt_upd s now k d neg false) hi hw (addInt_sorted s now k d neg false hi.sorted)
  rw [hso] at hok
  have hstep : counterStep (some ((Keyspace.get ks k).getD [])) d neg =
      (Spec.Str.incrby ((Keyspace.get ks k).getD []) (if neg then -d else d)).map fun r => (some r.1, r.2) := by
    unfold counterStep
    cases neg
    · exact addInt_agree _ d
    · exact addInt_agree _ (-d)
  rw [hstep] at hok
  cases hinc : Spec.Str.incrby ((Keyspace.get ks k).getD []) (if neg then -d else d) with
  | none =>
    rw [hinc] at hok
    simp only [Option.map_none] at hok
    obtain ⟨h1, h2⟩ := hok
    refine ⟨by rw [h1]; trivial, ?_, i1, i2⟩
    -- the key must have existed: on a missing key the step cannot fail
    cases hl : live s now k with
    | some v0 =>
      rw [h2]
      exact refines_same hR (writeKey_live s now k _ v0 hl).2.2
    | none =>
      exfalso
      have hg : Keyspace.get ks k = none := by
        have := hR k; rw [hl] at this
        cases hgg : Keyspace.get ks k with
        | none => rfl
        | some b => rw [hgg] at this; cases this
      rw [hg] at hinc
      unfold Spec.Str.incrby at hinc
      simp only [Option.getD_none, if_true] at hinc
      have hp : parseInt64 [48] = some 0 := by decide
      rw [hp] at hinc
      simp only [Int.zero_add, hd, if_true] at hinc
      cases hinc
  | some p =>
    obtain ⟨t, n⟩ := p
    rw [hinc] at hok
    simp only [Option.map_some] at hok
    obtain ⟨h1, h2, _⟩ := hok
    exact ⟨by rw [h1]; exact rfl, refines_write hR i3 t (live_of_hot h2), i1, i2⟩

theorem ref_incrby (s : MState) (now : Int) (ks : Keyspace) (k : Bytes) (d : Int) (hi : Inv s)
    (hw : WLocks s) (hR : Refines s now ks) (hs : Safe ks (.incrby k d)) :
    StepOk (exec s now (.incrby k d)).1 (exec s now (.incrby k d)).2 now (step ks (.incrby k d)).1
      (step ks (.incrby k d)).2 :=
  ref_counter s now ks k d false hi hw hR hs

theorem ref_decrby (s : MState) (now : Int) (ks : Keyspace) (k : Bytes) (d : Int) (hi : Inv s)
    (hw : WLocks s) (hR : Refines s now ks) (hs : Safe ks (.decrby k d)) :
    StepOk (exec s now (.decrby k d)).1 (exec s now (.decrby k d)).2 now (step ks (.decrby k d)).1
      (step ks (.decrby k d)).2 := by
  have hd : inInt64 (if true then -d else d) = true := by
    obtain ⟨h1, h2⟩ := hs
    rw [inInt64_iff] at h1 ⊢
    simp only [int64Min] at h2
    simp only [if_true]
    omega
  exact ref_counter s now ks k d true hi hw hR hd

theorem ref_del (s : MState) (now : Int) (ks : Keyspace) (keys : List Bytes) (hi : Inv s) (hw : WLocks s)
    (hR : Refines s now ks) :
    StepOk (exec s now (.del keys)).1 (exec s now (.del keys)).2 now (step ks (.del keys)).1
      (step ks (.del keys)).2 := by
  show StepOk (Api.del s now keys).1 (Api.del s now keys).2 now (Keyspace.delMany ks keys).1
    (.int (Keyspace.delMany ks keys).2)
  rw [del_eq]
  obtain ⟨d1, _, d3, d4, d5⟩ := del_fold now keys s 0 ks hi.sorted (exists_of_refines hR)
  obtain ⟨p1, p2⟩ := del_fold_inv now keys s 0 hi.clean hi.sorted hw
  refine ⟨by simp only; rw [d1]; simp [Matches], ?_, ⟨p1, d3⟩, p2.1⟩
  intro x
  rw [ks_get_delMany]
  by_cases hx : x ∈ keys
  · rw [if_pos hx, d5 x hx]; rfl
  · rw [if_neg hx, live_congr (d4 x hx)]; exact hR x

theorem ref_exists (s : MState) (now : Int) (ks : Keyspace) (keys : List Bytes) (hi : Inv s) (hw : WLocks s)
    (hR : Refines s now ks) :
    StepOk (exec s now (.exists_ keys)).1 (exec s now (.exists_ keys)).2 now (step ks (.exists_ keys)).1
      (step ks (.exists_ keys)).2 := by
  show StepOk (Api.exists_ s now keys).1 (Api.exists_ s now keys).2 now ks (.int (Keyspace.existsMany ks keys))
  rw [Proofs.C01.exists_eq]
  obtain ⟨e1, e2, e3⟩ := exists_fold now keys s 0
  obtain ⟨p1, p2⟩ := exists_fold_inv now keys s 0
  refine ⟨?_, refines_same hR e2, ⟨p1 hi.clean, e3 hi.sorted⟩, p2.trans hw.1⟩
  simp only
  rw [e1]
  unfold Keyspace.existsMany
  simp only [exists_of_refines hR, Int.zero_add]
  exact rfl

/-- one command, outside the finding regions, refines one step of the reference machine -/
theorem exec_refines (s : MState) (now : Int) (ks : Keyspace) (c : Cmd) (hi : Inv s) (hw : WLocks s)
    (hR : Refines s now ks) (hs : Safe ks c) :
    StepOk (exec s now c).1 (exec s now c).2 now (step ks c).1 (step ks c).2 := by
  cases c with
  | set k v => exact ref_set s now ks k v hi hw hR
  | get k => exact ref_get s now ks k hi hw hR
  | getset k v => exact ref_getset s now ks k v hi hw hR
  | setnx k v => exact ref_setnx s now ks k v hi hw hR
  | mset kvs => exact ref_mset s now ks kvs hi hw hR
  | append k d => exact ref_append s now ks k d hi hw hR
  | strlen k => exact ref_strlen s now ks k hi hw hR
  | setrange k off d => exact ref_setrange s now ks k off d hi hw hR hs
  | getbit k off => exact ref_getbit s now ks k off hi hw hR hs
  | setbit k off x => exact ref_setbit s now ks k off x hi hw hR hs
  | incrby k d => exact ref_incrby s now ks k d hi hw hR hs
  | decrby k d => exact ref_decrby s now ks k d hi hw hR hs
  | del keys => exact ref_del s now ks keys hi hw hR
  | exists_ keys => exact ref_exists s now ks keys hi hw hR

/-! ### the driver step and whole streams -/

theorem driverStep_refines (s : MState) (now : Int) (ks : Keyspace) (c : Cmd) (hi : Inv s)
    (hR : Refines s now ks) (hs : Safe ks c) :
    Matches (driverStep s now c).2 (step ks c).2 ∧ Refines (driverStep s now c).1 now (step ks c).1 ∧
    Inv (driverStep s now c).1 := by
  have hi0 : Inv { s with signalled := [], held := [], hung := false } :=
    ⟨clean_congr (fun _ => rfl) ⟨rfl, rfl⟩ (Nat.le_refl _) hi.clean, hi.sorted⟩
  have hw0 : WLocks { s with signalled := [], held := [], hung := false } := ⟨rfl, fun x hx => by cases hx⟩
  have hR0 : Refines { s with signalled := [], held := [], hung := false } now ks := hR
  obtain ⟨r1, r2, r3, r4⟩ := exec_refines _ now ks c hi0 hw0 hR0 hs
  unfold driverStep
  simp only
  rw [if_neg (by rw [r4]; simp)]
  have hc : Clean ({ (exec { s with signalled := [], held := [], hung := false } now c).1 with held := [] } : MState) :=
    clean_congr (fun _ => rfl) ⟨rfl, rfl⟩ (Nat.le_refl _) r3.clean
  rw [syncShared_clean _ hc]
  exact ⟨r1, r2, ⟨hc, r3.sorted⟩⟩

/-- list-wise reply correspondence -/
def MatchesAll : List Out → List Reply → Prop
  | [], [] => True
  | o :: os, r :: rs => Matches o r ∧ MatchesAll os rs
  | _, _ => False

theorem driverRun_refines (now : Int) : ∀ (cmds : List Cmd) (s : MState) (ks : Keyspace), Inv s → Refines s now ks →
    SafeRun ks cmds →
    MatchesAll (driverRun s now cmds).2 (run ks cmds).2 ∧ Refines (driverRun s now cmds).1 now (run ks cmds).1 ∧
    Inv (driverRun s now cmds).1 := by
  intro cmds
  induction cmds with
  | nil => intro s ks hi hR _; exact ⟨trivial, hR, hi⟩
  | cons c rest ih =>
    intro s ks hi hR hs
    obtain ⟨s1, s2, s3⟩ := driverStep_refines s now ks c hi hR hs.1
    obtain ⟨i1, i2, i3⟩ := ih (driverStep s now c).1 (step ks c).1 s3 s2 hs.2
    exact ⟨⟨s1, i1⟩, i2, i3⟩

end NodisVerif.Proofs.C01
