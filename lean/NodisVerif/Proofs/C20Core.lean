import NodisVerif.Proofs.C12More
import NodisVerif.Proofs.C20Wire
/-
  C20: the change feed replays on a replica.  Core notions:
    `Same now p r`  — both states satisfy the storage invariant and show the same logical keyspace,
    `fl`            — the feed-related fields of a state (no primitive but `emit` touches them),
    `TxForm.ops` / `TxForm.post` — records emitted by / content left by a key transaction as functions
                      of the logical content of its key.
-/
namespace NodisVerif.Proofs.C20
open NodisVerif NodisVerif.Store NodisVerif.Spec.Persist NodisVerif.Proofs.C11

/-! ### same logical keyspace -/

/-- nothing the store shows at `now` is Go's nil string (no API command creates one) -/
def NoNil (s : MState) (now : Int) : Prop := ∀ k e, lookup s now k ≠ some (.strNil, e)

/-- primary and replica show the same logical keyspace at `now`: same live names, each with the
    same value (hence type) and deadline; both satisfy the storage invariant `StoreInv` -/
structure Same (now : Int) (p r : MState) : Prop where
  invP : StoreInv p now
  invR : StoreInv r now
  eq : logical p now = logical r now
  nonil : NoNil p now

theorem Same.look {now : Int} {p r : MState} (h : Same now p r) (k : Bytes) :
    lookup r now k = lookup p now k :=
  lookup_of_logical h.invP.idxSorted h.invR.idxSorted h.eq.symm k

theorem Same.of_look {now : Int} {p r : MState} (hp : StoreInv p now) (hr : StoreInv r now)
    (hl : ∀ k, lookup r now k = lookup p now k) (hn : NoNil p now) : Same now p r :=
  ⟨hp, hr, (logical_ext hp.idxSorted hr.idxSorted hl).symm, hn⟩

theorem Same.nonilR {now : Int} {p r : MState} (h : Same now p r) : NoNil r now := by
  intro k e; rw [h.look k]; exact h.nonil k e

/-- pointwise update of a lookup function -/
def upd (K : Bytes → Option (Val × Int)) (k : Bytes) (L : Option (Val × Int)) : Bytes → Option (Val × Int) :=
  fun k' => if k' = k then L else K k'

theorem upd_same (K : Bytes → Option (Val × Int)) (k : Bytes) (L : Option (Val × Int)) : upd K k L k = L := by
  simp [upd]

theorem upd_other (K : Bytes → Option (Val × Int)) (k : Bytes) (L : Option (Val × Int)) {k' : Bytes} (h : k' ≠ k) :
    upd K k L k' = K k' := by
  simp [upd, h]

theorem upd_self (K : Bytes → Option (Val × Int)) (k : Bytes) : upd K k (K k) = K := by
  funext k'; by_cases h : k' = k <;> simp [upd, h]

/-! ### the feed fields -/

/-- the fields only `emit` touches -/
def fl (s : MState) : List FeedOp × Bool := (s.feed, s.listeners)

theorem fl_lockW (s : MState) (k : Bytes) : fl (lockW s k) = fl s := by
  unfold lockW; split
  · rfl
  · split <;> rfl

theorem fl_lockR (s : MState) (k : Bytes) : fl (lockR s k) = fl s := by
  unfold lockR; split <;> rfl

theorem fl_putMeta (s : MState) (k : Bytes) (m : Meta) : fl (putMeta s k m) = fl s := rfl

theorem fl_unpersist (s : MState) (k : Bytes) (m : Meta) : fl (unpersist s k m) = fl s := by
  unfold unpersist; split <;> rfl

theorem fl_modMeta (s : MState) (k : Bytes) (f : Meta → Meta) : fl (modMeta s k f) = fl s := by
  unfold modMeta; split <;> rfl

theorem fl_newKeyWith (s : MState) (k : Bytes) (old : Option Meta) (v : Val) : fl (newKeyWith s k old v) = fl s := by
  unfold newKeyWith
  simp only [fresh]
  split
  · rw [fl_putMeta]; rw [fl_unpersist]; rfl
  · rfl

theorem fl_writeKey (s : MState) (now : Int) (k : Bytes) (mk : Option Val) : fl (writeKey s now k mk).1 = fl s := by
  unfold writeKey
  split
  · simp only
    split
    · split
      · split
        · rw [fl_newKeyWith, fl_putMeta, fl_lockW]
        · rw [fl_putMeta, fl_lockW]
      · split
        · rw [fl_putMeta, fl_lockW]
        · split
          · rw [fl_putMeta, fl_putMeta, fl_lockW]
          · split
            · rw [fl_newKeyWith, fl_putMeta, fl_lockW]
            · rw [fl_putMeta, fl_lockW]
    · split
      · rw [fl_newKeyWith, fl_putMeta, fl_lockW]
      · rw [fl_putMeta, fl_lockW]
  · split
    · rw [fl_newKeyWith]
    · rfl

theorem fl_readKey (s : MState) (now : Int) (k : Bytes) : fl (readKey s now k).1 = fl s := by
  unfold readKey
  split
  · simp only
    split
    · split
      · rw [fl_putMeta, fl_lockR]
      · split
        · rw [fl_putMeta, fl_lockR]
        · split
          · rw [fl_putMeta, fl_putMeta, fl_lockR]
          · rw [fl_putMeta, fl_lockR]
    · rw [fl_putMeta, fl_lockR]
  · rfl

theorem fl_setVal (s : MState) (k : Bytes) (v : Val) : fl (Api.setVal s k v) = fl s := by
  unfold Api.setVal
  split
  · rfl
  · simp only; split <;> rfl

theorem fl_setExp (s : MState) (k : Bytes) (e : Int) : fl (Api.setExp s k e) = fl s := by
  unfold Api.setExp; split <;> rfl

theorem fl_signal (s : MState) (k : Bytes) : fl (signal s k) = fl s := by
  unfold signal
  show fl (modMeta s k Meta.markModified) = fl s
  exact fl_modMeta s k _

theorem fl_delKey (s : MState) (k : Bytes) : fl (delKey s k) = fl s := by
  unfold delKey
  split
  · show fl (unpersist s k _) = fl s; exact fl_unpersist s k _
  · rfl

theorem fl_commit (s : MState) : fl (Api.commit s) = fl s := rfl

theorem fl_emit (s : MState) (op : FeedOp) (h : s.listeners = true) :
    fl (emit s op) = (op :: s.feed, true) := by
  simp [emit, h, fl]

theorem fl_emits (ops : List FeedOp) : ∀ (s : MState), s.listeners = true →
    fl (emits s ops) = (ops.reverse ++ s.feed, true) := by
  induction ops with
  | nil => intro s h; simp [emits, fl, h]
  | cons op rest ih =>
    intro s h
    have h1 := fl_emit s op h
    have : (emit s op).listeners = true := by have := congrArg Prod.snd h1; exact this
    have h2 := ih (emit s op) this
    show fl (emits (emit s op) rest) = _
    rw [h2]
    have : (emit s op).feed = op :: s.feed := by have := congrArg Prod.fst h1; exact this
    rw [this]
    simp

/-! ### records and content of a key transaction -/

def Act.ops : Act → List FeedOp
  | .keep _ => []
  | .put _ _ ops _ => ops
  | .drop _ ops _ => ops

theorem fl_runAct (s : MState) (key : Bytes) (a : Act) (h : s.listeners = true) :
    fl (runAct s key a).1 = ((Act.ops a).reverse ++ s.feed, true) := by
  cases a with
  | keep r => simp [runAct, Act.ops, fl, h]
  | put v' e' ops r =>
    simp only [runAct, Act.ops]
    have h0 : fl (signal (optSetExp (optSetVal s key v') key e') key) = fl s := by
      rw [fl_signal]
      cases e' with
      | none =>
        cases v' with
        | none => rfl
        | some v => exact fl_setVal s key v
      | some e =>
        show fl (Api.setExp _ key e) = _
        rw [fl_setExp]
        cases v' with
        | none => rfl
        | some v => exact fl_setVal s key v
    have hl : (signal (optSetExp (optSetVal s key v') key e') key).listeners = true := by
      have := congrArg Prod.snd h0; exact this.trans h
    rw [fl_emits ops _ hl]
    have : (signal (optSetExp (optSetVal s key v') key e') key).feed = s.feed := congrArg Prod.fst h0
    rw [this]
  | drop v' ops r =>
    simp only [runAct, Act.ops]
    have h0 : fl (signal (delKey (Api.setVal s key v') key) key) = fl s := by
      rw [fl_signal, fl_delKey, fl_setVal]
    have hl : (signal (delKey (Api.setVal s key v') key) key).listeners = true := by
      have := congrArg Prod.snd h0; exact this.trans h
    rw [fl_emits ops _ hl]
    have : (signal (delKey (Api.setVal s key v') key) key).feed = s.feed := congrArg Prod.fst h0
    rw [this]

end NodisVerif.Proofs.C20

namespace NodisVerif.Proofs.C11.TxForm
open NodisVerif NodisVerif.Store NodisVerif.Spec.Persist NodisVerif.Proofs.C11 NodisVerif.Proofs.C20

/-- the records the transaction emits, as a function of the logical content of its key -/
def ops (f : TxForm) (L : Option (Val × Int)) : List FeedOp :=
  match L, f.ctor with
  | some (v, e), _ => Act.ops (f.dec v e)
  | none, some v0 => Act.ops (f.dec v0 0)
  | none, none => []

/-- the logical content of the key after the transaction, at time `now` -/
def post (f : TxForm) (now : Int) (L : Option (Val × Int)) : Option (Val × Int) :=
  match (f.spec L).2 with
  | none => L
  | some c => c.bind (filt · now)

end NodisVerif.Proofs.C11.TxForm

namespace NodisVerif.Proofs.C20
open NodisVerif NodisVerif.Store NodisVerif.Spec.Persist NodisVerif.Proofs.C11

/-- a key transaction on a state satisfying the invariant: invariant kept, the key's content
    becomes `post`, nothing else changes -/
theorem form_step {f : TxForm} (hf : f.OK) {s : MState} {now : Int} (h : StoreInv s now) :
    StoreInv (f.run s now).1 now ∧
    ∀ k', lookup (f.run s now).1 now k' = upd (lookup s now) f.key (f.post now (lookup s now f.key)) k' := by
  have sp := f.txspec hf h (Int.le_refl now)
  refine ⟨sp.inv, fun k' => ?_⟩
  rw [sp.look now (Int.le_refl _) k']
  simp only [applyEff, TxForm.post, upd]
  cases (f.spec (lookup s now f.key)).2 with
  | none =>
    simp only
    by_cases hk : k' = f.key
    · simp [hk]
    · simp [hk]
  | some c => rfl

/-- the feed after a key transaction -/
theorem form_feed {f : TxForm} (hf : f.OK) {s : MState} {now : Int} (h : StoreInv s now)
    (hl : s.listeners = true) :
    fl (f.run s now).1 = ((f.ops (lookup s now f.key)).reverse ++ s.feed, true) := by
  have ks : KeySpec s now now f.key f.ctor
      (if f.write then writeKey s now f.key f.ctor else readKey s now f.key) := by
    cases hw : f.write with
    | true => exact writeKey_spec h (Int.le_refl _) f.key f.ctor hf.mkGood
    | false => rw [hf.rd hw]; exact readKey_spec h (Int.le_refl _) f.key
  have hfl : fl (if f.write then writeKey s now f.key f.ctor else readKey s now f.key).1 = fl s := by
    cases f.write with
    | true => exact fl_writeKey s now f.key f.ctor
    | false => exact fl_readKey s now f.key
  unfold TxForm.run keyTx
  generalize (if f.write then writeKey s now f.key f.ctor else readKey s now f.key) = r at ks hfl
  obtain ⟨s1, ok⟩ := r
  simp only at hfl ⊢
  have hl1 : s1.listeners = true := by have := congrArg Prod.snd hfl; exact this.trans hl
  have hf1 : s1.feed = s.feed := congrArg Prod.fst hfl
  have run : ∀ (m : Meta) (v : Val), AList.get? s1.index f.key = some m → m.value = some v →
      valOf s1 f.key = some v ∧ Api.expOf s1 f.key = m.exp := by
    intro m v hm hv
    simp [valOf, Api.expOf, getMeta, hm, hv]
  cases hL : lookup s now f.key with
  | some c =>
    obtain ⟨v, e⟩ := c
    obtain ⟨hok, _, m, hm, hv, he, _⟩ := ks.hit v e hL
    simp only at hok hm
    simp only [hok, Bool.not_true, Bool.false_and, Bool.false_eq_true, if_false]
    rw [(run m v hm hv).1, (run m v hm hv).2, he]
    simp only []
    rw [fl_runAct _ _ _ hl1, hf1]
    rfl
  | none =>
    cases hmk0 : f.ctor with
    | none =>
      obtain ⟨hok, _⟩ := ks.miss hL hmk0
      simp only at hok
      simp only [hok, Bool.not_false, Option.isNone_none, Bool.and_self, if_true]
      simp only [TxForm.ops, hmk0, List.reverse_nil, List.nil_append]
      rw [hfl]; simp [fl, hl]
    | some v0 =>
      obtain ⟨hok, _, m, hm, hv, he, _⟩ := ks.make v0 hL hmk0
      simp only at hok hm
      simp only [hok, Bool.not_true, Bool.false_and, Bool.false_eq_true, if_false]
      rw [(run m v0 hm hv).1, (run m v0 hm hv).2, he]
      simp only []
      rw [fl_runAct _ _ _ hl1, hf1]
      simp only [TxForm.ops, hmk0]

/-- the raw records of one call on a drained primary, oldest first -/
theorem form_raw {f : TxForm} (hf : f.OK) {s : MState} {now : Int} (h : StoreInv s now)
    (hl : s.listeners = true) (hfd : s.feed = []) :
    (f.run s now).1.feed.reverse = f.ops (lookup s now f.key) ∧ (f.run s now).1.listeners = true := by
  have := form_feed hf h hl
  have h1 : (f.run s now).1.feed = _ := congrArg Prod.fst this
  have h2 : (f.run s now).1.listeners = _ := congrArg Prod.snd this
  rw [hfd] at h1
  simp only [List.append_nil] at h1
  exact ⟨by rw [h1, List.reverse_reverse], h2⟩

/-! ### the replica side -/

/-- the replica applied `ops` and now shows `F` -/
def Replays (r : MState) (now : Int) (ops : List FeedOp) (F : Bytes → Option (Val × Int)) : Prop :=
  ∃ r', Feed.applyAll r now ops = some r' ∧ StoreInv r' now ∧ ∀ k, lookup r' now k = F k

theorem Replays.nil {r : MState} {now : Int} (h : StoreInv r now) : Replays r now [] (lookup r now) :=
  ⟨r, rfl, h, fun _ => rfl⟩

/-- one record that the replica applies as the key transaction `g` -/
theorem Replays.cons {r : MState} {now : Int} {op : FeedOp} {rest : List FeedOp} {g : TxForm}
    {F : Bytes → Option (Val × Int)} (h : StoreInv r now) (hg : g.OK)
    (hap : Feed.applyOp r now op = some (g.run r now).1)
    (hrest : ∀ r1, StoreInv r1 now →
      (∀ k, lookup r1 now k = upd (lookup r now) g.key (g.post now (lookup r now g.key)) k) →
      Replays r1 now rest F) :
    Replays r now (op :: rest) F := by
  obtain ⟨i1, l1⟩ := form_step hg h
  obtain ⟨r', a, b, c⟩ := hrest _ i1 l1
  exact ⟨r', by simp [Feed.applyAll, hap, a], b, c⟩

theorem Replays.one {r : MState} {now : Int} {op : FeedOp} {g : TxForm} (h : StoreInv r now) (hg : g.OK)
    (hap : Feed.applyOp r now op = some (g.run r now).1) :
    Replays r now [op] (upd (lookup r now) g.key (g.post now (lookup r now g.key))) :=
  Replays.cons h hg hap (fun r1 i1 l1 => ⟨r1, rfl, i1, l1⟩)

/-- assembling the statement of the main theorem from the two sides -/
theorem main_of {now : Int} {r : MState} {res : Api.R} {ops : List FeedOp}
    {F : Bytes → Option (Val × Int)} (hp' : StoreInv res.1 now) (hF : ∀ k, lookup res.1 now k = F k)
    (hn : ∀ k e, F k ≠ some (.strNil, e)) (hr : Replays r now ops F) :
    ∃ r', Feed.applyAll r now ops = some r' ∧ Same now res.1 r' := by
  obtain ⟨r', a, b, c⟩ := hr
  refine ⟨r', a, Same.of_look hp' b (fun k => by rw [c k, hF k]) ?_⟩
  intro k e; rw [hF k]; exact hn k e

end NodisVerif.Proofs.C20

namespace NodisVerif.Proofs.C20
open NodisVerif NodisVerif.Store NodisVerif.Spec.Persist NodisVerif.Proofs.C11

theorem Replays.congr {r : MState} {now : Int} {ops : List FeedOp} {F G : Bytes → Option (Val × Int)}
    (h : Replays r now ops F) (e : F = G) : Replays r now ops G := e ▸ h

theorem upd_congr (K : Bytes → Option (Val × Int)) (k : Bytes) {A B : Option (Val × Int)} (h : A = B) :
    upd K k A = upd K k B := by rw [h]

theorem upd_upd (K : Bytes → Option (Val × Int)) (k : Bytes) (A B : Option (Val × Int)) :
    upd (upd K k A) k B = upd K k B := by
  funext k'; by_cases h : k' = k <;> simp [upd, h]

/-- a key that shows at `now` has not reached its deadline -/
theorem lookup_filt {s : MState} {now : Int} {k : Bytes} {v : Val} {e : Int}
    (h : lookup s now k = some (v, e)) (v' : Val) : filt (v', e) now = some (v', e) := by
  simp only [lookup, getMeta] at h
  cases hm : AList.get? s.index k with
  | none => rw [hm] at h; cases h
  | some m =>
    rw [hm] at h
    simp only [Option.bind_some, view] at h
    split at h
    · rename_i hc
      have he : m.exp = e := by
        cases hv : m.value with
        | some w => rw [hv] at h; simp only [Option.some.injEq, Prod.mk.injEq] at h; exact h.2
        | none =>
          rw [hv] at h
          simp only [Option.map_eq_some_iff] at h
          obtain ⟨_, _, h2⟩ := h
          exact (Prod.mk.inj h2).2
      simp only [Bool.and_eq_true, Bool.not_eq_true', Meta.expired] at hc
      have := hc.2
      rw [he] at this
      simp [filt, this]
    · cases h

/-- the main theorem for a call that behaves as the key transaction `f` (`hsp`), whatever its feed -/
theorem main_tx {now : Int} {p r : MState} (hs : Same now p r) (f : TxForm) (res : Api.R)
    (hsp : TxSpec p now now f.key (f.spec (lookup p now f.key)) res)
    (em : Out → List FeedOp → List FeedOp)
    (hn : NoNil p now → ∀ e, f.post now (lookup p now f.key) ≠ some (.strNil, e))
    (hrep : ∀ r, StoreInv r now → NoNil r now → (∀ k, lookup r now k = lookup p now k) →
      Replays r now (em (f.spec (lookup r now f.key)).1 (f.ops (lookup r now f.key)))
        (upd (lookup r now) f.key (f.post now (lookup r now f.key)))) :
    ∃ r', Feed.applyAll r now (em res.2 (f.ops (lookup p now f.key))) = some r' ∧ Same now res.1 r' := by
  have l1 : ∀ k', lookup res.1 now k' = upd (lookup p now) f.key (f.post now (lookup p now f.key)) k' := by
    intro k'
    rw [hsp.look now (Int.le_refl _) k']
    simp only [applyEff, TxForm.post, upd]
    cases (f.spec (lookup p now f.key)).2 with
    | none =>
      simp only
      by_cases hk : k' = f.key
      · simp [hk]
      · simp [hk]
    | some c => rfl
  rw [hsp.reply]
  have hK : ∀ k, lookup r now k = lookup p now k := hs.look
  have hfun : lookup r now = lookup p now := funext hK
  have := hrep r hs.invR hs.nonilR hK
  rw [hK f.key, hfun] at this
  refine main_of hsp.inv l1 ?_ this
  intro k e
  by_cases hk : k = f.key
  · subst hk; rw [upd_same]; exact hn hs.nonil e
  · rw [upd_other _ _ _ hk]; exact hs.nonil k e

/-- the main theorem for a call that is a key transaction, on a drained primary -/
theorem main_form {now : Int} {p r : MState} (hs : Same now p r) (hl : p.listeners = true) (hfd : p.feed = [])
    (f : TxForm) (hf : f.OK) (em : Out → List FeedOp → List FeedOp)
    (hn : NoNil p now → ∀ e, f.post now (lookup p now f.key) ≠ some (.strNil, e))
    (hrep : ∀ r, StoreInv r now → NoNil r now → (∀ k, lookup r now k = lookup p now k) →
      Replays r now (em (f.spec (lookup r now f.key)).1 (f.ops (lookup r now f.key)))
        (upd (lookup r now) f.key (f.post now (lookup r now f.key)))) :
    ∃ r', Feed.applyAll r now (em (f.run p now).2 (f.run p now).1.feed.reverse) = some r' ∧
      Same now (f.run p now).1 r' := by
  rw [(form_raw hf hs.invP hl hfd).1]
  exact main_tx hs f _ (f.txspec hf hs.invP (Int.le_refl now)) em hn hrep

theorem lookup_nonil_cases {s : MState} {now : Int} (hn : NoNil s now) (k : Bytes) :
    lookup s now k = none ∨ ∃ v e, lookup s now k = some (v, e) ∧ v ≠ .strNil := by
  cases h : lookup s now k with
  | none => left; rfl
  | some c =>
    right
    obtain ⟨v, e⟩ := c
    refine ⟨v, e, rfl, ?_⟩
    intro hv; subst hv; exact hn k e h

end NodisVerif.Proofs.C20

namespace NodisVerif.Proofs.C20
open NodisVerif NodisVerif.Store NodisVerif.Spec.Persist NodisVerif.Proofs.C11

/-- the statement of the main theorem for one call with result `res` on primary `p`: the replica
    `r` can apply what the call hands to a watcher, and then shows what the primary shows -/
def Replay (now : Int) (r : MState) (c : Feed.CallInfo) (res : Api.R) : Prop :=
  ∃ r', Feed.applyAll r now (Feed.emission c res.2 res.1.feed.reverse) = some r' ∧ Same now res.1 r'

end NodisVerif.Proofs.C20
