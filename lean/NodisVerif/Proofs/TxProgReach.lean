import NodisVerif.Proofs.TxProgCS
/-
  Program model of tx.go: reachable program states, their protocol abstraction, and concrete schedules
  (used as non-vacuity examples by Props/C05-C07).
-/
namespace NodisVerif.Proofs.TxProg
open NodisVerif.Proto (Key Rec Mode Ev Hold TxSt PState assoc erase put Tx)
open NodisVerif.TxProg
open NodisVerif.Proofs.Proto

/-- a program state some schedule leads to from the initial state (no thread active, empty store) -/
def ProgReachable (c : Cfg) : Prop := ∃ sch, (TxProg.run {} sch).1 = c

theorem ProgReachable.strong {c : Cfg} (h : ProgReachable c) : ∃ p, Reachable p ∧ Strong c p := by
  obtain ⟨sch, rfl⟩ := h
  obtain ⟨p, _, hp⟩ := strong_refines Strong.init sch
  exact ⟨p, hp.sim.reach, hp⟩

theorem run_append (c : Cfg) (a b : List (Tid × Choice)) :
    TxProg.run c (a ++ b) = ((TxProg.run (TxProg.run c a).1 b).1, (TxProg.run c a).2 ++ (TxProg.run (TxProg.run c a).1 b).2) := by
  induction a generalizing c with
  | nil => simp [TxProg.run]
  | cons x a ih =>
    obtain ⟨t, ch⟩ := x
    cases hs : TxProg.step c t ch with
    | none => simp only [List.cons_append, run_cons_none hs]; exact ih c
    | some r =>
      obtain ⟨c', e⟩ := r
      simp only [List.cons_append, run_cons_some hs, ih c', List.append_assoc]

theorem ProgReachable.step {c c' : Cfg} {t : Tid} {ch : Choice} {e : Option Ev} (h : ProgReachable c)
    (hs : TxProg.step c t ch = some (c', e)) : ProgReachable c' := by
  obtain ⟨sch, rfl⟩ := h
  refine ⟨sch ++ [(t, ch)], ?_⟩
  rw [run_append]
  simp [TxProg.run, hs]

/-! ## concrete schedules -/

/-- `n` moves of thread `t` with the same choices -/
def moves (t : Tid) (ch : Choice) (n : Nat) : List (Tid × Choice) := List.replicate n (t, ch)

/-- thread 1 creates key "k" (lockKey: placeholder 10, newKey publishes it) while thread 2 (readKey) finds the
    placeholder, waits for it in read mode, is granted the lock after thread 1's commit, validates, and commits -/
def schedCreate : List (Tid × Choice) :=
  moves 1 { call := .begin [("k", true, true)], fresh := 10 } 7 ++      -- begin … look - … claim
  moves 2 { call := .begin [("k", false, false)] } 5 ++                 -- begin, look 10, wait (then blocked)
  moves 1 { call := .newKey "k" } 8 ++                                  -- look 10 (held), publish
  moves 2 {} 1 ++                                                       -- still blocked: skipped
  moves 1 { call := .commit } 5 ++                                      -- commit, unlock, fin
  moves 2 { call := .commit } 12                                        -- lock, valid, return; commit, unlock, fin

/-- SMOVE-like command of thread 1 over keys "a" < "b" (lockKeys sorted), both missing: two placeholders, both
    dropped at the commit -/
def schedTwoKeys : List (Tid × Choice) :=
  moves 1 { call := .begin [("a", true, true), ("b", false, true)], fresh := 1 } 7 ++
  moves 1 { fresh := 2 } 6 ++
  moves 1 { call := .commit } 20

end NodisVerif.Proofs.TxProg
