import NodisVerif.Proofs.TxProgCS
import NodisVerif.Proofs.TxProgPlan
/-
  Program model of tx.go: reachable program states, their protocol abstraction, and concrete schedules
  (used as non-vacuity examples by Props/C05-C07).
-/
namespace NodisVerif.Proofs.TxProg
open NodisVerif.Proto (Key Rec Mode Ev Hold TxSt PState assoc erase put Tx)
open NodisVerif.TxProg
open NodisVerif.Proofs.Proto

/-- a program state some schedule leads to from the initial state (no thread active, empty store) -/
def ProgReachable (c : Cfg) : Prop := ∃ sch, (TxProg.run {} sch).1 = c

theorem ProgReachable.strong {c : Cfg} (h : ProgReachable c) : ∃ p, Reachable p ∧ Strong c p := by
  obtain ⟨sch, rfl⟩ := h
  obtain ⟨p, _, hp⟩ := strong_refines Strong.init sch
  exact ⟨p, hp.sim.reach, hp⟩

theorem run_append (c : Cfg) (a b : List (Tid × Choice)) :
    TxProg.run c (a ++ b) = ((TxProg.run (TxProg.run c a).1 b).1, (TxProg.run c a).2 ++ (TxProg.run (TxProg.run c a).1 b).2) := by
  induction a generalizing c with
  | nil => simp [TxProg.run]
  | cons x a ih =>
    obtain ⟨t, ch⟩ := x
    cases hs : TxProg.step c t ch with
    | none => simp only [List.cons_append, run_cons_none hs]; exact ih c
    | some r =>
      obtain ⟨c', e⟩ := r
      simp only [List.cons_append, run_cons_some hs, ih c', List.append_assoc]

theorem ProgReachable.step {c c' : Cfg} {t : Tid} {ch : Choice} {e : Option Ev} (h : ProgReachable c)
    (hs : TxProg.step c t ch = some (c', e)) : ProgReachable c' := by
  obtain ⟨sch, rfl⟩ := h
  refine ⟨sch ++ [(t, ch)], ?_⟩
  rw [run_append]
  simp [TxProg.run, hs]

/-! ## concrete schedules -/

/-- `n` moves of thread `t` with the same choices -/
def moves (t : Tid) (ch : Choice) (n : Nat) : List (Tid × Choice) := List.replicate n (t, ch)

/-- thread 1 creates key "k" (lockKey: placeholder 10, newKey publishes it) while thread 2 (readKey) finds the
    placeholder, waits for it in read mode, is granted the lock after thread 1's commit, validates, and commits -/
def schedCreate : List (Tid × Choice) :=
  moves 1 { call := .begin [("k", true, true)], fresh := 10 } 7 ++      -- begin … look - … claim
  moves 2 { call := .begin [("k", false, false)] } 5 ++                 -- begin, look 10, wait (then blocked)
  moves 1 { call := .newKey "k" } 8 ++                                  -- look 10 (held), publish
  moves 2 {} 1 ++                                                       -- still blocked: skipped
  moves 1 { call := .commit } 5 ++                                      -- commit, unlock, fin
  moves 2 { call := .commit } 12                                        -- lock, valid, return; commit, unlock, fin

/-- SMOVE-like command of thread 1 over keys "a" < "b" (lockKeys sorted), both missing: two placeholders, both
    dropped at the commit -/
def schedTwoKeys : List (Tid × Choice) :=
  moves 1 { call := .begin [("a", true, true), ("b", false, true)], fresh := 1 } 7 ++
  moves 1 { fresh := 2 } 6 ++
  moves 1 { call := .commit } 20

/-- thread 1 creates "k" and commits; the eviction pass (thread 3, `gcRecord` on record 10, which it finds dead)
    locks it, validates it against the index, unlinks it; a second mini transaction on the same record (thread 4, from
    an older `records()` snapshot) then fails its validation and gives up without a commit -/
def schedGc : List (Tid × Choice) :=
  moves 1 { call := .begin [("k", true, true)], fresh := 10 } 7 ++
  moves 1 { call := .newKey "k" } 8 ++
  moves 1 { call := .commit } 5 ++
  moves 3 { call := .mini 10, dead := true } 14 ++
  moves 4 { call := .mini 10 } 10

end NodisVerif.Proofs.TxProg

namespace NodisVerif.Proofs.TxProg
open NodisVerif.Proto (Key Rec Mode Ev Hold TxSt PState assoc erase put Tx)
open NodisVerif.TxProg
open NodisVerif.Proofs.Proto

/-- the transitions that can be disabled at all: a mutex acquisition (`s.mu.RLock` a1 a10 g4, `s.mu.Lock` a4 n2 d1 c8 g7,
    the record lock a8 g2), the choice of the next call (init, idle), an allocation (a5, d3: the scheduler must offer
    a fresh id) and d2 (never disabled in a reachable state: `delKey_not_stuck`) -/
def mayBlock : Pc → Bool
  | .init | .idle | .a1 | .a10 | .a4 | .n2 | .d1 | .c8 | .a8 | .a5 | .d3 | .d2 | .g2 | .g4 | .g7 => true
  | _ => false

/-- every other transition is always enabled: in particular nothing inside an `s.mu` section (except the two
    allocations) and nothing in `commit` except `s.mu.Lock()` can block -/
theorem enabled_unless_mayBlock (c : Cfg) (t : Tid) (ch : Choice) (h : mayBlock (c.loc t).pc = false) :
    (TxProg.step c t ch).isSome = true := by
  have key : (tstep c.sh t (c.loc t) ch).isSome = true := by
    cases hpc : (c.loc t).pc <;> simp only [hpc, mayBlock] at h <;> simp only [tstep, hpc] <;>
      (repeat' split) <;> simp_all
  unfold TxProg.step
  cases hx : tstep c.sh t (c.loc t) ch with
  | none => rw [hx] at key; cases key
  | some r => rfl

def commitPc : Pc → Bool
  | .c2 | .c3 | .c4 | .c5 | .c6 | .c7 | .c8 | .c9 | .c10 | .c11 | .c12 | .cend => true
  | _ => false

theorem commitPc_commitNext (s : Shared) (l : Loc) : commitPc (commitNext s l).pc = true := by
  unfold commitNext; split; rfl; split; rfl; split <;> rfl

/-- the shrinking phase is closed: once `commit` has reported its `commit` event the thread stays inside
    `commit` until its `end` event returns it to `init` with an empty `lockedMetas` -/
theorem commit_phase_closed {s s' : Shared} {t : Tid} {l l' : Loc} {ch : Choice} {e : Option Ev}
    (h : tstep s t l ch = some (s', l', e)) (hc : commitPc l.pc = true) :
    commitPc l'.pc = true ∨ (l' = {} ∧ e = some (.fin t)) := by
  cases hpc : l.pc <;> simp [hpc, commitPc] at hc <;> simp only [tstep, hpc] at h <;>
    (repeat' split at h) <;> simp at h <;> obtain ⟨_, rfl, rfl⟩ := h <;>
    first | exact Or.inl (commitPc_commitNext _ _) | exact Or.inl rfl | exact Or.inr ⟨rfl, rfl⟩

/-- in the shrinking phase no event of the growing phase is emitted -/
theorem commit_phase_events {s s' : Shared} {t : Tid} {l l' : Loc} {ch : Choice} {ev : Ev}
    (h : tstep s t l ch = some (s', l', some ev)) (hc : commitPc l.pc = true) :
    (∃ r, ev = .unlock t r) ∨ (∃ k r, ev = .trylock t k r) ∨ (∃ k r, ev = .drop t k r) ∨ ev = .fin t := by
  cases hpc : l.pc <;> simp [hpc, commitPc] at hc <;> simp only [tstep, hpc] at h <;>
    (repeat' split at h) <;> simp at h <;> obtain ⟨_, _, rfl⟩ := h <;> simp

end NodisVerif.Proofs.TxProg

namespace NodisVerif.Proofs.TxProg
open NodisVerif.Proto (Key Rec Mode Ev Hold TxSt PState assoc erase put Tx)
open NodisVerif.TxProg
open NodisVerif.Proofs.Proto

/-! ## `store.mu` is never part of a deadlock -/

theorem fst_le_sum {β : Type} (l : List (Nat × β)) : ∀ q ∈ l, q.1 ≤ (l.map (·.1)).sum := by
  induction l with
  | nil => intro q hq; cases hq
  | cons x l ih =>
    intro q hq
    simp only [List.map_cons, List.sum_cons]
    rcases List.mem_cons.1 hq with rfl | hq
    · omega
    · have := ih q hq; omega

/-- `newMetadata()` can always return a new object -/
theorem exists_fresh (names : List (Rec × Key)) : ∃ r, assoc names r = none := by
  refine ⟨(names.map (·.1)).sum + 1, ?_⟩
  cases h : assoc names ((names.map (·.1)).sum + 1) with
  | none => rfl
  | some k =>
    have := fst_le_sum names _ (mem_of_assoc h)
    exact absurd this (Nat.not_succ_le_self _)

/-- the pcs at which a thread asks for `store.mu` -/
def smuAcquire : Pc → Bool
  | .a1 | .a10 | .g4 | .a4 | .n2 | .d1 | .c8 | .g7 => true
  | _ => false

/-- whoever owns `store.mu` (as writer or as a reader) is an active thread inside one of its sections, and its next
    transition is enabled whenever the scheduler offers a fresh object: inside a `store.mu` section the code waits
    for nothing -/
theorem smu_holder_can_move {c : Cfg} {p : PState} (hst : Strong c p) {u : Tid}
    (hown : c.sh.smu.writer = some u ∨ u ∈ c.sh.smu.readers) (ch : Choice)
    (hfresh : assoc c.sh.names ch.fresh = none) :
    (c.loc u).pc ≠ .init ∧ (TxProg.step c u ch).isSome = true := by
  have hsec : inW (c.loc u).pc = true ∨ inR (c.loc u).pc = true := by
    rcases hown with h | h
    · exact Or.inl ((hst.conv u).1 h)
    · exact Or.inr ((hst.conv u).2 h)
  have hne : (c.loc u).pc ≠ .init := by
    intro h; rw [h] at hsec; simp [inW, inR] at hsec
  refine ⟨hne, ?_⟩
  by_cases hmb : mayBlock (c.loc u).pc = false
  · exact enabled_unless_mayBlock c u ch hmb
  · have hmb : mayBlock (c.loc u).pc = true := by simpa using hmb
    cases hpc : (c.loc u).pc <;> simp [hpc, mayBlock] at hmb <;> simp [hpc, inW, inR] at hsec
    · -- a5
      unfold TxProg.step
      simp only [tstep, hpc]
      cases c.sh.lookup (c.loc u).key <;> simp [hfresh]
    · exact delKey_not_stuck hst hpc ch
    · -- d3
      unfold TxProg.step
      simp [tstep, hpc, hfresh]

/-- a thread that is blocked on `store.mu` is blocked by another thread that can move: `store.mu` never closes a
    cycle of waiting threads -/
theorem blocked_on_smu_by_a_mover {c : Cfg} {p : PState} (hst : Strong c p) {t : Tid} {ch : Choice}
    (hpc : smuAcquire (c.loc t).pc = true) (hblocked : TxProg.step c t ch = none) :
    ∃ u, u ≠ t ∧ (c.loc u).pc ≠ .init ∧
      ∀ ch', assoc c.sh.names ch'.fresh = none → (TxProg.step c u ch').isSome = true := by
  have hnot : inW (c.loc t).pc = false ∧ inR (c.loc t).pc = false := by
    cases hq : (c.loc t).pc <;> simp [hq, smuAcquire] at hpc <;> simp [inW, inR]
  have howner : ∃ u, c.sh.smu.writer = some u ∨ u ∈ c.sh.smu.readers := by
    cases hw : c.sh.smu.writer with
    | some u => exact ⟨u, Or.inl rfl⟩
    | none =>
      cases hr : c.sh.smu.readers with
      | cons u l => exact ⟨u, Or.inr (by simp)⟩
      | nil =>
        exfalso
        unfold TxProg.step at hblocked
        cases hq : (c.loc t).pc <;> simp [hq, smuAcquire] at hpc <;>
          simp [tstep, hq, Mu.canLock, Mu.canRLock, hw, hr] at hblocked
  obtain ⟨u, hu⟩ := howner
  obtain ⟨r, hr⟩ := exists_fresh c.sh.names
  refine ⟨u, ?_, (smu_holder_can_move hst hu { fresh := r } hr).1,
    fun ch' hf => (smu_holder_can_move hst hu ch' hf).2⟩
  intro e; subst e
  rcases hu with h | h
  · have := (hst.conv u).1 h; rw [hnot.1] at this; cases this
  · have := (hst.conv u).2 h; rw [hnot.2] at this; cases this

end NodisVerif.Proofs.TxProg
