import NodisVerif.Proofs.C08Step
import NodisVerif.Driver.RespOps
import NodisVerif.Model.Handler2
import NodisVerif.Model.Handler3
import NodisVerif.Model.Handler4
/-
  The full dispatch of the server: `Driver.lookup` over the list of family tables
  (`Main.tables = [Handler.table1, Handler2.table2, Handler3.table3, Handler4.table4]`).  A predicate of the form
  "every result of the table is good" holds of the lookup if it holds of every family table.
-/
namespace NodisVerif.Proofs.C08Step

/-- the family tables in the order of `Main.tables` -/
def allTables : List Table := [Handler.table1, Handler2.table2, Handler3.table3, Handler4.table4]

/-- the server's complete handler table -/
def fullTable : Table := Driver.lookup allTables

theorem lookup_some (tables : List Table) (name : String) (args : List Bytes) (r : HRes)
    (h : Driver.lookup tables name args = some r) : ∃ t ∈ tables, t name args = some r := by
  unfold Driver.lookup at h
  exact List.exists_of_findSome?_eq_some h

/-- a property of all results of every family table is a property of all results of the lookup -/
theorem lookup_all {P : HRes → Prop} (tables : List Table)
    (h : ∀ t ∈ tables, ∀ name args r, t name args = some r → P r) (name : String) (args : List Bytes) (r : HRes)
    (hr : Driver.lookup tables name args = some r) : P r := by
  obtain ⟨t, ht, e⟩ := lookup_some tables name args r hr
  exact h t ht name args r e

end NodisVerif.Proofs.C08Step
