import NodisVerif.Proofs.BlockStep
/-
  The state invariant of the BLPOP/BRPOP wake-up protocol (per waiter), and what follows from it:
  no missed push, token conservation, `step ⊆ stepLoose`.
-/
namespace NodisVerif.Proofs.Block
open NodisVerif.Block

/-- what is true of every waiter of every reachable state -/
structure WInv (st : WSt) : Prop where
  /-- a wake-up consumed was offered before -/
  tok_le : st.woken ≤ st.notified
  /-- a wake-up in the buffer has been offered and not consumed -/
  tok_buf : st.buf = true → st.woken < st.notified
  /-- in a round: every key already passed has been seen empty after its last push, or a wake-up waits -/
  scanSeen : ∀ i, st.phase = .scan i → st.buf = true ∨ ∀ k ∈ st.keys.take i, k ∈ st.seen
  /-- asleep: every key has been seen empty after its last push, or a wake-up waits -/
  blockedSeen : st.phase = .blocked → st.buf = true ∨ ∀ k ∈ st.keys, k ∈ st.seen
  scanLe : ∀ i, st.phase = .scan i → i ≤ st.keys.length
  /-- until it returns, the waiter is registered for all its keys -/
  regKeys : (pos st.phase ≠ none ∨ st.phase = .blocked) → st.reg = st.keys
  keysNe : st.keys ≠ []

theorem winv_step (o : Option WSt) (e : Ev) (st' : WSt) (ho : ∀ st, o = some st → WInv st)
    (h : lstep o e = some (some st')) : WInv st' := by
  cases e with
  | reg w k =>
    obtain ⟨hp, hr⟩ := lstep_reg.1 h
    cases hr
    cases o with
    | none => constructor <;> simp [pos]
    | some st =>
      have hi := ho st rfl
      simp only [Option.getD_some] at hp ⊢
      constructor <;> simp [hp, pos, hi.tok_le]
      · exact hi.tok_buf
      · exact hi.regKeys (by simp [hp, pos])
  | try_ w k got =>
    obtain ⟨st, i, rfl, hp, hk, hr⟩ := lstep_try.1 h
    have hi := ho st rfl
    have hlt : i < st.keys.length := by
      rcases Nat.lt_or_ge i st.keys.length with h | h
      · exact h
      · simp [List.getElem?_eq_none h] at hk
    cases got with
    | true =>
      simp only [if_true, Option.some.injEq] at hr; subst hr
      constructor <;> simp [pos, hi.tok_le, hi.keysNe]
      exact hi.tok_buf
    | false =>
      simp only [Bool.false_eq_true, if_false, Option.some.injEq] at hr; subst hr
      constructor <;> simp [pos, hi.tok_le, hi.keysNe]
      · exact hi.tok_buf
      · have htake : st.keys.take (i + 1) = st.keys.take i ++ [k] := by
          rw [List.take_add_one, hk]; rfl
        have hprev : st.buf = true ∨ ∀ k ∈ st.keys.take i, k ∈ st.seen := by
          cases hph : st.phase with
          | scan j =>
            rw [hph] at hp; simp only [pos, Option.some.injEq] at hp; subst hp
            exact hi.scanSeen j hph
          | registering =>
            rw [hph] at hp; simp only [pos, Option.some.injEq] at hp; subst hp
            right; simp
          | blocked => simp [hph, pos] at hp
          | gotElem _ => simp [hph, pos] at hp
          | gotNull => simp [hph, pos] at hp
          | aborted => simp [hph, pos] at hp
        rcases hprev with hb | hs
        · exact Or.inl hb
        · right
          intro k' hk'
          rw [htake, List.mem_append] at hk'
          rcases hk' with h1 | h1
          · exact Or.inr (hs k' h1)
          · left; simpa using h1
      · omega
      · exact hi.regKeys (Or.inl (by simp [hp]))
  | block w t =>
    obtain ⟨st, rfl, hp, hr⟩ := lstep_block.1 h
    have hi := ho st rfl
    cases hr
    constructor <;> simp [pos, hi.tok_le, hi.keysNe]
    · exact hi.tok_buf
    · simpa using hi.scanSeen _ hp
    · exact hi.regKeys (Or.inl (by simp [hp, pos]))
  | wake w =>
    obtain ⟨st, rfl, hp, hb, hr⟩ := lstep_wake.1 h
    have hi := ho st rfl
    cases hr
    have := hi.tok_buf hb
    constructor <;> simp [pos]
    · omega
    · exact hi.regKeys (Or.inr hp)
    · exact hi.keysNe
  | timeout w =>
    obtain ⟨st, rfl, hp, hb, hr⟩ := lstep_timeout.1 h
    have hi := ho st rfl
    cases hr
    constructor <;> simp [pos, hi.tok_le, hi.keysNe]
    exact hi.tok_buf
  | notify w k =>
    obtain ⟨st, rfl, hk, hr⟩ := lstep_notify.1 h
    have hi := ho st rfl
    cases hr
    have := hi.tok_le
    constructor <;> simp [hi.keysNe]
    · omega
    · omega
    · exact hi.scanLe
    · exact hi.regKeys
  | abort w =>
    obtain ⟨st, rfl, hp, hr⟩ := lstep_abort.1 h
    have hi := ho st rfl
    cases hr
    constructor <;> simp [pos, hi.tok_le, hi.keysNe]
    exact hi.tok_buf
  | unreg w k =>
    obtain ⟨st, rfl, hp, hr⟩ := lstep_unreg.1 h
    have hi := ho st rfl
    cases hr
    obtain ⟨hp1, hp2⟩ := returned_pos hp
    constructor
    · exact hi.tok_le
    · exact hi.tok_buf
    · intro i h; simp only at h; simp [h, pos] at hp1
    · intro h; exact absurd h hp2
    · intro i h; simp only at h; simp [h, pos] at hp1
    · intro h; rcases h with h | h
      · exact absurd hp1 h
      · exact absurd h hp2
    · exact hi.keysNe
  | fin w =>
    obtain ⟨st, _, _, hr⟩ := lstep_fin.1 h
    cases hr

/-- the invariant holds of every waiter of every reachable state -/
theorem Reachable.winv {s : BState} (h : Reachable s) {w : W} {st : WSt} (hg : get s w = some st) :
    WInv st :=
  local_invariant (P := WInv) winv_step h hg

/-! ## stepLoose -/

theorem step_le_stepLoose {s s' : BState} {e : Ev} (hr : Reachable s) (h : step s e = some s') :
    stepLoose s e = some s' := by
  cases e with
  | wake w =>
    simp only [step] at h
    simp only [stepLoose]
    cases hg : get s w with
    | none => simp [hg] at h
    | some st =>
      simp only [hg] at h ⊢
      split at h
      · simp at h
      · rename_i hc
        simp only [Bool.or_eq_true, bne_iff_ne, ne_eq, Bool.not_eq_true', not_or, Decidable.not_not,
          Bool.not_eq_false] at hc
        have := (hr.winv hg).tok_buf hc.2
        simp [hc.1, this, ← h]
  | reg w k => exact h
  | try_ w k got => exact h
  | block w t => exact h
  | timeout w => exact h
  | notify w k => exact h
  | abort w => exact h
  | unreg w k => exact h
  | fin w => exact h

/-- the fold of `stepLoose` over a trace: what the trace check of the harness computes -/
def runAllLoose (s : BState) : List Ev → Option BState
  | [] => some s
  | e :: es => (stepLoose s e).bind (fun s' => runAllLoose s' es)

theorem runAll_le_runAllLoose {s0 s : BState} {es : List Ev} (hr : Reachable s0)
    (h : runAll s0 es = some s) : runAllLoose s0 es = some s := by
  induction es generalizing s0 with
  | nil => exact h
  | cons e es ih =>
    simp only [runAll] at h
    cases hse : step s0 e with
    | none => simp [hse] at h
    | some s1 =>
      simp only [hse, Option.bind_some] at h
      simp only [runAllLoose, step_le_stepLoose hr hse, Option.bind_some]
      exact ih (hr.step hse) h

end NodisVerif.Proofs.Block
