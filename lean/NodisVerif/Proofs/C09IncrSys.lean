import NodisVerif.Proofs.C09Incr
/-
  C09 — the optimistic increment loop  WATCH k; GET k; MULTI; SET k (v+1); EXEC  run by any number of
  connections under any command-granularity interleaving, as a closed system: server + one script
  phase per connection.  No update is ever lost.
-/
namespace NodisVerif.Proofs.C09Incr
open NodisVerif.Proofs.C08Step NodisVerif.Proofs.AListLemmas2 Store Resp Server

variable (k : Bytes)

/-- the two commands of the script that go through the handler table -/
def scriptTable : Table := fun name args =>
  if name = "GET" then (match args with | [x] => some (.exec (getBody x)) | _ => none)
  else if name = "SET" then (match args with | [x, v] => some (.exec (setBody x v)) | _ => none)
  else none

/-- where a client is in its script; `v` is the counter value it read -/
inductive Phase
  | idle | watched | read (v : Nat) | inMulti (v : Nat) | queued (v : Nat)

/-- what the client makes of the reply to its GET: the decimal value (a missing key counts as 0) -/
def counterOf : List Tok → Nat
  | [Tok.bulk b] => ((parseInt64 b).getD 0).toNat
  | _ => 0

/-- the next command of a client in a given phase -/
def cmdOf (i : String) (now : Int) : Phase → Cmd
  | .idle => { id := i, name := "WATCH", args := [k], now := now }
  | .watched => { id := i, name := "GET", args := [k], now := now }
  | .read _ => { id := i, name := "MULTI", now := now }
  | .inMulti v => { id := i, name := "SET", args := [k, formatInt ((v + 1 : Nat) : Int)], now := now }
  | .queued _ => { id := i, name := "EXEC", now := now }

/-- the client's reaction to the reply; the Bool says "my EXEC succeeded" (reply not null) -/
def nextPhase : Phase → List Tok → Phase × Bool
  | .idle, _ => (.watched, false)
  | .watched, r => (.read (counterOf r), false)
  | .read v, _ => (.inMulti v, false)
  | .inMulti v, _ => (.queued v, false)
  | .queued _, r => (.idle, r != [Tok.nullBulk])

structure Sys where
  sv : Server
  ph : String → Phase
  wins : Nat            -- number of successful EXECs so far

/-- one move: connection `mv.1` sends its next command at clock reading `mv.2` and reads the reply -/
def sysStep (s : Sys) (mv : String × Int) : Sys :=
  let r := step scriptTable s.sv (cmdOf k mv.1 mv.2 (s.ph mv.1))
  let p := nextPhase (s.ph mv.1) r.2
  { sv := r.1, ph := fun j => if j = mv.1 then p.1 else s.ph j, wins := if p.2 then s.wins + 1 else s.wins }

def sysRun (s : Sys) (sched : List (String × Int)) : Sys := sched.foldl (sysStep k) s

/-! ### closure-level facts -/

theorem prep_getMeta (st : MState) (x : Bytes) : getMeta (prep st) x = getMeta st x := rfl
theorem storeAfter_getMeta (o : BodyOut) (x : Bytes) : getMeta (storeAfter o) x = getMeta o.store x := rfl

theorem counterIs_congr {st st' : MState} (h : ∀ x, getMeta st' x = getMeta st x) (n : Nat) :
    CounterIs k st n → CounterIs k st' n := by
  rintro (⟨a, b⟩ | ⟨m, a, b⟩)
  · exact Or.inl ⟨by rw [h]; exact a, b⟩
  · exact Or.inr ⟨m, by rw [h]; exact a, b⟩

theorem counterOf_bulk (n : Nat) (h : (n : Int) ≤ int64Max) : counterOf [Tok.bulk (formatInt (n : Int))] = n := by
  simp [counterOf, NodisVerif.Proofs.C15.parseInt64_formatInt_nat n h]

/-- the closure of GET k on a store whose counter is n -/
theorem getBody_out (st : MState) (now : Int) (ch : Choice) (n : Nat) (h : CounterIs k st n) (hn : (n : Int) ≤ int64Max) :
    counterOf (replyOf (outOf st now ch (getBody k))) = n ∧
    (replyOf (outOf st now ch (getBody k))).any isErr = false ∧
    CounterIs k (storeAfter (outOf st now ch (getBody k))) n ∧
    (outOf st now ch (getBody k)).store.signalled = [] ∧
    (outOf st now ch (getBody k)).store.flushed = st.flushed := by
  obtain ⟨h1, h2, h3, h4⟩ := get_counter k (prep st) now n (counterIs_congr k (prep_getMeta st) n h)
  unfold outOf getBody
  generalize Api.get (prep st) now k = r at h1 h2 h3 h4
  obtain ⟨s1, o⟩ := r
  simp only at h1 h2 h3 h4
  rcases h1 with ⟨rfl, rfl⟩ | rfl
  · exact ⟨rfl, rfl, h2, h3, h4⟩
  · refine ⟨?_, rfl, h2, h3, h4⟩
    simp only [Handler.call, Handler.done, replyOf, Handler.optBulk]
    exact counterOf_bulk n hn

/-- the closure of SET k v on a store where k is missing or a live string -/
theorem setBody_out (st : MState) (now : Int) (ch : Choice) (v : Bytes) (h : getMeta st k = none ∨ ∃ b, StrAt k st b) :
    replyOf (outOf st now ch (setBody k v)) = [Handler.ok] ∧
    StrAt k (storeAfter (outOf st now ch (setBody k v))) v ∧
    k ∈ (outOf st now ch (setBody k v)).store.signalled := by
  obtain ⟨h1, h2, h3, _⟩ := set_counter k (prep st) now v h
  unfold outOf setBody
  generalize Api.set (prep st) now k v false = r at h1 h2 h3
  obtain ⟨s1, o⟩ := r
  simp only at h1 h2 h3
  subst h1
  refine ⟨rfl, h2, ?_⟩
  simp only [Handler.call, Handler.done]
  rw [h3]; simp

/-! ### the invariant -/

/-- what the server knows about a connection in a given script phase; `total` is the current
    counter.  The value read is still current unless the connection's watch map has a flag set. -/
def ConnInv (sv : Server) (total : Nat) (i : String) : Phase → Prop
  | .idle => (sv.conn i).state = 0 ∧ (sv.conn i).queue = []
  | .watched => (sv.conn i).state = 0 ∧ (sv.conn i).queue = [] ∧ registered sv i k
  | .read v => (sv.conn i).state = 0 ∧ (sv.conn i).queue = [] ∧ registered sv i k ∧
      (Clean (sv.conn i).watch → v = total)
  | .inMulti v => (sv.conn i).state = multiPrepare ∧ (sv.conn i).queue = [] ∧ registered sv i k ∧
      (Clean (sv.conn i).watch → v = total)
  | .queued v => (sv.conn i).state = multiPrepare ∧
      (sv.conn i).queue = [setBody k (formatInt ((v + 1 : Nat) : Int))] ∧ registered sv i k ∧
      (Clean (sv.conn i).watch → v = total)

structure Inv (v0 : Nat) (s : Sys) : Prop where
  wf : RegWF s.sv
  nofl : s.sv.store.flushed = false
  cnt : CounterIs k s.sv.store (v0 + s.wins)
  conns : ∀ i, ConnInv k s.sv (v0 + s.wins) i (s.ph i)

/-- another connection that is literally unchanged, keeps its registration, same total -/
theorem ConnInv.transfer {sv sv' : Server} {total : Nat} {j : String} {p : Phase}
    (hc : sv'.conn j = sv.conn j) (hr : registered sv j k → registered sv' j k)
    (h : ConnInv k sv total j p) : ConnInv k sv' total j p := by
  cases p <;> simp only [ConnInv, hc] at h ⊢
  · exact h
  · exact ⟨h.1, h.2.1, hr h.2.2⟩
  · exact ⟨h.1, h.2.1, hr h.2.2.1, h.2.2.2⟩
  · exact ⟨h.1, h.2.1, hr h.2.2.1, h.2.2.2⟩
  · exact ⟨h.1, h.2.1, hr h.2.2.1, h.2.2.2⟩

/-- another connection whose state and queue are unchanged and whose flag for k is now set: its
    invariant holds for ANY total -/
theorem ConnInv.flagged {sv sv' : Server} {total total' : Nat} {j : String} {p : Phase}
    (hs : (sv'.conn j).state = (sv.conn j).state) (hq : (sv'.conn j).queue = (sv.conn j).queue)
    (hr : registered sv j k → registered sv' j k)
    (hf : registered sv j k → AList.get? (sv'.conn j).watch k = some true)
    (h : ConnInv k sv total j p) : ConnInv k sv' total' j p := by
  have nc : registered sv j k → ¬ Clean (sv'.conn j).watch := by
    intro r hcl
    have := not_clean_of_flag (hf r)
    rw [(clean_iff_any _).mp hcl] at this
    cases this
  cases p <;> simp only [ConnInv, hs, hq] at h ⊢
  · exact h
  · exact ⟨h.1, h.2.1, hr h.2.2⟩
  · exact ⟨h.1, h.2.1, hr h.2.2.1, fun c => absurd c (nc h.2.2.1)⟩
  · exact ⟨h.1, h.2.1, hr h.2.2.1, fun c => absurd c (nc h.2.2.1)⟩
  · exact ⟨h.1, h.2.1, hr h.2.2.1, fun c => absurd c (nc h.2.2.1)⟩

/-- a step that touches nothing leaves every other connection exactly as it was -/
theorem others_of_quiet {H : Table} {sv : Server} (hwf : RegWF sv) (c : Cmd)
    (hq : ∀ x, ¬ stepTouches H sv c x) (j : String) (hj : j ≠ c.id) :
    (step H sv c).1.conn j = sv.conn j ∧ (registered sv j k → registered (step H sv c).1 j k) := by
  have o := step_othersS H hwf c
  exact ⟨o.same j hj (fun x hx => hq x hx.1), fun h => (o.reg j hj k).mpr h⟩

theorem quiet_of_no_outs {H : Table} {sv : Server} {c : Cmd} (h : stepOuts H sv c = []) :
    ∀ x, ¬ stepTouches H sv c x := by
  intro x ⟨o, ho, _⟩
  rw [h] at ho; cases ho

end NodisVerif.Proofs.C09Incr
